(* C06 — the abstract statement.  For every ordered pair (p -> q) of processes with matching index lists:
   the scatter calls that q's handle sees for data from p are exactly, in order,
       (k-th receive index of q for p,  number of items,  the items p's handle gathered for its k-th send index)
   for the k with at least one item (a scatter call with zero items carries no data and is not an observation),
   and forward()/backward() returns on every process.  These functions are the executable oracle. *)
From Coq Require Import List Arith Bool PeanoNat.
From DuneV Require Import C06_Model.
Import ListNotations.

Definition c06_nonzero (g : list c06_call) : list c06_call := filter (fun c => negb (snd (fst c) =? 0)) g.

Definition c06_spec_link (entries : list (list nat)) (ridx : list nat) : list c06_call :=
  c06_nonzero (map (fun ie : nat * list nat => (fst ie, length (snd ie), snd ie)) (combine ridx entries)).

(* expected (src, dst, calls) of a whole case; None: interface maps not symmetric *)
Definition c06_spec_rank (backward : bool) (ni w : nat) (sizes : list (list nat)) (es : list c06_entry) (p : nat)
  : list (option (nat * nat * list c06_call)) :=
  map (fun e : c06_entry =>
         match c06_find_entry (e_q e) p es with
         | None => None
         | Some e' =>
             let entries := map (fun i => c06_gather ni w p i (c06_size_of sizes p i)) (c06_send_list backward e) in
             Some (p, e_q e, c06_spec_link entries (c06_recv_list backward e'))
         end) (c06_entries_of p es).

Definition c06_spec_case (backward : bool) (ni w np : nat) (sizes : list (list nat)) (es : list c06_entry)
  : option (list (nat * nat * list c06_call)) :=
  c06_all_some (flat_map (c06_spec_rank backward ni w sizes es) (seq 0 np)).

(* the precondition of the property on one link: matching list lengths, buffer can hold the largest single index
   (fixed: every entry has the fixed size > 0) *)
Definition c06_link_ok_var (buf : nat) (entries : list (list nat)) (ridx : list nat) : bool :=
  (length entries =? length ridx) && forallb (fun e => length e <=? buf) entries && (1 <=? buf).

Definition c06_link_ok_fixed (buf fixed : nat) (entries : list (list nat)) (ridx : list nat) : bool :=
  (length entries =? length ridx) && forallb (fun e => length e =? fixed) entries && (1 <=? fixed) && (fixed <=? buf).

(* the guard under which the code as it is in the tree terminates (F-C06-1): a non-empty interface has a
   positive size somewhere *)
Definition c06_some_positive (entries : list (list nat)) : bool :=
  match entries with [] => true | _ => existsb (fun e => 1 <=? length e) entries end.

(* ------------------------------------------------------------------ the precondition of the property on a whole case
   (executable: the driver evaluates it on every generated case).  For every entry (p,q) of p's interface map:
   q is a process, q's map has the entry (q,p) ("symmetric"), the send list of p for q is as long as the receive list
   of q for p ("matching"), and the buffer can hold every single index p sends ("as long as it can hold the largest
   single index"). *)
Definition c06_entry_ok_var (backward : bool) (buf np : nat) (sizes : list (list nat)) (es : list c06_entry) (e : c06_entry) : bool :=
  (e_q e <? np) &&
  match c06_find_entry (e_q e) (e_p e) es with
  | None => false
  | Some e' => length (c06_send_list backward e) =? length (c06_recv_list backward e')
  end &&
  forallb (fun i => c06_size_of sizes (e_p e) i <=? buf) (c06_send_list backward e).

Definition c06_case_ok_var (backward : bool) (buf np : nat) (sizes : list (list nat)) (es : list c06_entry) : bool :=
  (1 <=? buf) && forallb (c06_entry_ok_var backward buf np sizes es) es.

(* the observation the property fixes, taken from a configuration *)
Definition c06_observe (c : c06_cfg) : list (nat * nat * list c06_call) :=
  map (fun l => (l_src l, l_dst l, c06_nonzero (c06_log l))) (c_links c).

(* fixed-size handles: additionally every index p sends to q has the size the tracker was given (handle.size of the
   first send index of the nearest non-empty send list in map order, see c06_fixed_sizes), which is >= 1 (the
   assertion in setupInterfaceTrackers) and fits into the buffer *)
Definition c06_rank_ok_fixed (backward : bool) (buf np : nat) (sizes : list (list nat)) (es : list c06_entry) (p : nat) : bool :=
  let mine := c06_entries_of p es in
  forallb (fun ef : c06_entry * nat =>
             let (e, f) := ef in
             (e_q e <? np) &&
             match c06_find_entry (e_q e) p es with
             | None => false
             | Some e' => length (c06_send_list backward e) =? length (c06_recv_list backward e')
             end &&
             forallb (fun i => c06_size_of sizes p i =? f) (c06_send_list backward e) && (1 <=? f) && (f <=? buf))
          (combine mine (c06_fixed_sizes backward sizes 1 mine)).

Definition c06_case_ok_fixed (backward : bool) (buf np : nat) (sizes : list (list nat)) (es : list c06_entry) : bool :=
  forallb (c06_rank_ok_fixed backward buf np sizes es) (seq 0 np).
