(* Extraction of the C07 model and spec for the correspondence check.  ExtrOcamlBasic only. *)
From Coq Require Import Extraction ExtrOcamlBasic.
From Coq Require Import List NArith ZArith.
From DuneV Require Import C07_Model C07_Spec.
Extraction Language OCaml.
Extraction "c07_model.ml"
  c07_take c07_put c07_copy c07_tramp c07_reduce_ranks c07_tree_eval c07_tree_leaves c07_apply_op
  c07_mpi_gather c07_mpi_igather c07_mpi_gatherv c07_mpi_scatter c07_mpi_iscatter c07_mpi_scatterv
  c07_mpi_allgather c07_mpi_iallgather c07_mpi_allgatherv c07_mpi_bcast c07_mpi_allreduce c07_mpi_allreduce_inplace
  c07_seq_gather c07_seq_scatter c07_seq_allgather c07_seq_allreduce c07_seq_gatherv c07_seq_gatherv_cur
  c07_seq_scatterv c07_seq_scatterv_cur c07_seq_allgatherv c07_seq_allgatherv_cur c07_seq_igather c07_seq_iscatter
  c07_seq_iallgather c07_seq_iallgather_cur
  c07_dt_basic c07_traits_generic c07_traits_fieldvector c07_traits_bigunsignedint c07_traits_pair
  c07_traits_plocalindex c07_traits_indexpair c07_tm_size c07_tm_wfb c07_transfer c07_obj_values c07_obj_store
  c07_pkn_write c07_pkn_read c07_pkn_item_bytes c07_pk_seek c07_pk_tell c07_pk_size c07_pk_eof c07_pk_empty c07_tm_ptype
  c07_get_count c07_resize c07_rrecv c07_recv
  c07_spec_apply c07_rt_gather c07_rt_allgather c07_rt_scatter c07_rt_bcast c07_rt_gatherv c07_rt_allgatherv
  c07_rt_scatterv c07_spec_allreduce c07_spec_transfer.
