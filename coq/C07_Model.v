(* C07 — executable model of the collectives / marshalling glue of dune-common
   (dune/common/parallel/{mpicommunication,communication,mpitraits,mpidata,mpipack}.hh,
    the MPITraits of plocalindex.hh / remoteindices.hh).
   Definitions only (no proofs).  Everything is prefixed c07_.

   Parts
   (A) buffers: put / take / copy loop (the element-wise loops of Communication<No_Comm>)
   (B) Generic_MPI_Op trampoline, reduction by an arbitrary tree over an arbitrary permutation
   (C) Communication<MPI_Comm>: the wrappers (argument computations of the Dune code) over the
       MPI collectives; the collectives themselves are the TRUSTED semantics c07_MPI_*
   (D) Communication<No_Comm>: literal transcriptions of the sequential stand-in
   (E) MPI datatypes as type maps; constructors mirroring MPI_Type_contiguous / create_struct /
       create_resized; the Dune traits as functions of a measured layout
   (F) MPIPack: byte buffer + cursor over abstract basic encoders (Section), executable instance
   (G) rrecv: size discovery (MPI_Mprobe + MPI_Get_count + resize) *)
From Coq Require Import List NArith ZArith Bool Arith Permutation.
From DuneV Require Import Params_gen.
Import ListNotations.

(* ------------------------------------------------------------------ (0) tables re-read from the source (coq/Params_gen.v) *)
(* the predefined MPI datatypes by code (order of tools/params.d/C07.py): (size, alignment) on LP64 x86-64, and their kind
   (0 signed integer, 1 unsigned integer, 2 real, 3 complex); the 14 C types of ComposeMPITraits in the same order *)
Definition c07_mpi_basic_table : list (nat * nat) :=
  [(1,1); (1,1); (2,2); (2,2); (4,4); (4,4); (8,8); (8,8); (4,4); (8,8); (16,16); (16,8); (32,16); (8,4)].
Definition c07_mpi_kind_table : list nat := [0; 1; 0; 1; 0; 1; 0; 1; 2; 2; 2; 3; 3; 3].
Definition c07_ctype_sizeof : list nat := [1; 1; 2; 2; 4; 4; 8; 8; 4; 8; 16; 16; 32; 8].
Definition c07_ctype_kind : list nat := [0; 1; 0; 1; 0; 1; 0; 1; 2; 2; 2; 3; 3; 3].
(* MPITraits<C type i>::getType() as written in the source *)
Definition c07_traits_code (i : nat) : nat := nth i c07_param_traits 99.
Definition c07_traits_table_ok : bool :=
  forallb (fun i => let c := c07_traits_code i in
             (fst (nth c c07_mpi_basic_table (0, 0)) =? nth i c07_ctype_sizeof 1) && (nth c c07_mpi_kind_table 9 =? nth i c07_ctype_kind 8))
          (seq 0 (length c07_ctype_sizeof)).
(* Generic_MPI_Op<T, func<S>> for intrinsic S: the MPI op the source maps functor i to (0 std::plus, 1 std::multiplies, 2 Min, 3 Max) *)
Definition c07_builtin_op (i : nat) : nat := nth i c07_param_opmap 99.
Definition c07_mpi_op_sem (code : nat) (a b : Z) : Z :=
  match code with 0 => (a + b)%Z | 1 => (a * b)%Z | 2 => Z.min a b | 3 => Z.max a b | _ => 0%Z end.
Definition c07_functor_sem (i : nat) (a b : Z) : Z :=
  match i with
  | 0 => (a + b)%Z | 1 => (a * b)%Z
  | 2 => if (b <? a)%Z then b else a          (* Dune::Min: std::min(t1,t2) *)
  | 3 => if (a <? b)%Z then b else a          (* Dune::Max: std::max(t1,t2) *)
  | _ => 0%Z end.
(* what sum/prod/min/max compute on an intrinsic element type: the MPI op selected by the source's table *)
Definition c07_intrinsic_reduce (i : nat) (a b : Z) : Z := c07_mpi_op_sem (c07_builtin_op i) a b.
(* the size prefix MPIPack writes for dynamic items: its MPI type as written in the source *)
Definition c07_prefix_bytes : nat := fst (nth c07_param_pack_prefix_type c07_mpi_basic_table (0, 0)).
Definition c07_digit_bytes : nat := Nat.div c07_param_bigint_digit_bits 8.

(* ------------------------------------------------------------------ (A) buffers *)
Section Buffers.
  Variable E : Type.
  (* what the receive of [src] leaves in a destination element that held [dst]:
     src itself for fully communicated types, a field-wise merge for IndexPair/ParallelLocalIndex *)
  Variable merge : E -> E -> E.

  Fixpoint c07_map2 (g : E -> E -> E) (a b : list E) : list E :=
    match a, b with x :: a', y :: b' => g x y :: c07_map2 g a' b' | _, _ => [] end.

  (* elements pos .. pos+n-1 of src; None = read past the end (UB in C++) *)
  Definition c07_take (src : list E) (pos n : nat) : option (list E) :=
    if pos + n <=? length src then Some (firstn n (skipn pos src)) else None.

  (* receive [data] onto dst[pos ..]; None = write past the end *)
  Definition c07_put (data dst : list E) (pos : nat) : option (list E) :=
    if pos + length data <=? length dst
    then Some (firstn pos dst ++ c07_map2 merge data (firstn (length data) (skipn pos dst))
               ++ skipn (pos + length data) dst)
    else None.

  Definition c07_upd (l : list E) (i : nat) (v : E) : list E :=
    firstn i l ++ v :: skipn (S i) l.

  (* the loop   for (k = 0; k < n; ++k) dst[dof + k] = src[sof + k];   (C++ assignment: whole element) *)
  Fixpoint c07_copy (n sof dof : nat) (src dst : list E) : option (list E) :=
    match n with
    | O => Some dst
    | S n' =>
        match nth_error src sof with
        | None => None
        | Some v => if dof <? length dst then c07_copy n' (S sof) (S dof) src (c07_upd dst dof v) else None
        end
    end.

  Definition c07_set_nth (l : list (list E)) (r : nat) (v : list E) : list (list E) :=
    firstn r l ++ v :: skipn (S r) l.
End Buffers.
Arguments c07_map2 {E}. Arguments c07_take {E}. Arguments c07_put {E}. Arguments c07_upd {E}.
Arguments c07_copy {E}. Arguments c07_set_nth {E}.

(* ------------------------------------------------------------------ (B) reductions *)
Section Reduce.
  Variable E : Type.
  Variable f : E -> E -> E.

  (* Generic_MPI_Op<Type,F>::operation(in, inout, len):  inout[i] = f(in[i], inout[i]) *)
  Definition c07_tramp (inv inoutv : list E) : list E := c07_map2 f inv inoutv.

  (* what an MPI library may do for an op created with commute = true: combine the contributions
     along any binary tree whose leaves are any arrangement of the ranks *)
  Inductive c07_tree := C07_Leaf (i : nat) | C07_Node (l r : c07_tree).
  Fixpoint c07_tree_leaves (t : c07_tree) : list nat :=
    match t with C07_Leaf i => [i] | C07_Node l r => c07_tree_leaves l ++ c07_tree_leaves r end.
  Fixpoint c07_tree_eval (xs : list (list E)) (t : c07_tree) : list E :=
    match t with
    | C07_Leaf i => nth i xs []
    | C07_Node l r => c07_tramp (c07_tree_eval xs l) (c07_tree_eval xs r)
    end.

  (* rank-order evaluation  x0 f x1 f ... f x(P-1), element-wise *)
  Definition c07_reduce_ranks (xs : list (list E)) : list E :=
    match xs with [] => [] | x :: r => fold_left c07_tramp r x end.
End Reduce.
Arguments c07_tramp {E}. Arguments c07_tree_eval {E}. Arguments c07_reduce_ranks {E}.

(* the functors used by the correspondence check, on elements = lists of integer components *)
Inductive c07_op := C07_Plus | C07_Mult | C07_Min | C07_Max | C07_Xor | C07_MaxSum | C07_CMult.
Definition c07_apply_op (op : c07_op) (a b : list Z) : list Z :=
  match op with
  | C07_Plus => c07_map2 Z.add a b                                   (* std::plus, component-wise for vectors/complex *)
  | C07_Mult => c07_map2 Z.mul a b                                   (* std::multiplies on scalars *)
  | C07_Min => c07_map2 (fun x y => if (y <? x)%Z then y else x) a b   (* Dune::Min: std::min(t1,t2) *)
  | C07_Max => c07_map2 (fun x y => if (x <? y)%Z then y else x) a b   (* Dune::Max: std::max(t1,t2) *)
  | C07_Xor => c07_map2 Z.lxor a b
  | C07_MaxSum => match a, b with [a0; a1], [b0; b1] => [Z.max a0 b0; (a1 + b1)%Z] | _, _ => [] end
  | C07_CMult => match a, b with [ar; ai], [br; bi] => [(ar * br - ai * bi)%Z; (ar * bi + ai * br)%Z] | _, _ => [] end
  end.

(* ------------------------------------------------------------------ (C) MPI collectives *)
Section MPIColl.
  Variable E : Type.
  Variable merge : E -> E -> E.
  Notation put := (c07_put merge).
  Definition bufs := list (list E).

  (* ---- trusted semantics of the MPI library (one entry per collective used) ---- *)
  (* MPI_Gatherv: root's receive buffer gets rank r's lens[r] elements at displs[r]; other ranks untouched *)
  Fixpoint c07_MPI_gatherv_loop (r : nat) (ins : bufs) (lens displs : list nat) (out : list E) : option (list E) :=
    match ins, lens, displs with
    | i :: ins', n :: lens', d :: displs' =>
        match c07_take i 0 n with
        | None => None
        | Some data => match put data out d with None => None | Some out' => c07_MPI_gatherv_loop (S r) ins' lens' displs' out' end
        end
    | [], _, _ => Some out
    | _, _, _ => None
    end.
  Definition c07_MPI_gatherv (root : nat) (ins : bufs) (lens displs : list nat) (outs : bufs) : option bufs :=
    match nth_error outs root with
    | None => None
    | Some o => match c07_MPI_gatherv_loop 0 ins lens displs o with
                | None => None | Some o' => Some (c07_set_nth outs root o') end
    end.
  (* MPI_Scatterv: rank r receives lens[r] elements found at displs[r] of root's send buffer *)
  Fixpoint c07_MPI_scatterv_loop (send : list E) (lens displs : list nat) (outs : bufs) : option bufs :=
    match outs, lens, displs with
    | o :: outs', n :: lens', d :: displs' =>
        match c07_take send d n with
        | None => None
        | Some data => match put data o 0, c07_MPI_scatterv_loop send lens' displs' outs' with
                       | Some o', Some rest => Some (o' :: rest) | _, _ => None end
        end
    | [], _, _ => Some []
    | _, _, _ => None
    end.
  Definition c07_MPI_scatterv (root : nat) (ins : bufs) (lens displs : list nat) (outs : bufs) : option bufs :=
    match nth_error ins root with None => None | Some send => c07_MPI_scatterv_loop send lens displs outs end.
  (* MPI_Allgatherv: every rank is the root of a gatherv *)
  Fixpoint c07_MPI_allgatherv_loop (ins : bufs) (lens displs : list nat) (outs : bufs) : option bufs :=
    match outs with
    | [] => Some []
    | o :: outs' => match c07_MPI_gatherv_loop 0 ins lens displs o, c07_MPI_allgatherv_loop ins lens displs outs' with
                    | Some o', Some rest => Some (o' :: rest) | _, _ => None end
    end.
  Definition c07_MPI_allgatherv := c07_MPI_allgatherv_loop.
  (* MPI_Bcast: every non-root rank receives root's first len elements *)
  Fixpoint c07_bcast_go (root : nat) (data : list E) (r : nat) (bs : bufs) : option bufs :=
    match bs with
    | [] => Some []
    | b :: bs' =>
        match (if r =? root then Some b else put data b 0), c07_bcast_go root data (S r) bs' with
        | Some b', Some rest => Some (b' :: rest) | _, _ => None end
    end.
  Definition c07_MPI_bcast (root len : nat) (inouts : bufs) : option bufs :=
    match nth_error inouts root with
    | None => None
    | Some rb => match c07_take rb 0 len with None => None | Some data => c07_bcast_go root data 0 inouts end
    end.
  (* MPI_Allreduce with an op: rank r receives, at the front of its output buffer, the combination of all ranks' first len elements.
     c07_MPI_allreduce: combined in rank order (built-in ops).  c07_MPI_allreduce_trees: what the library may do for a user op created with
     commute = true -- rank r's result is combined along ITS OWN binary tree over any arrangement of the ranks (trees = one per rank) *)
  Fixpoint c07_take_all (len : nat) (bs : bufs) : option bufs :=
    match bs with [] => Some [] | b :: bs' =>
      match c07_take b 0 len, c07_take_all len bs' with Some x, Some r => Some (x :: r) | _, _ => None end end.
  Fixpoint c07_put_each (ress outs : bufs) : option bufs :=
    match ress, outs with
    | [], [] => Some []
    | res :: ress', o :: outs' => match put res o 0, c07_put_each ress' outs' with Some o', Some rest => Some (o' :: rest) | _, _ => None end
    | _, _ => None
    end.
  Definition c07_MPI_allreduce (f : E -> E -> E) (len : nat) (ins outs : bufs) : option bufs :=
    match c07_take_all len ins with
    | None => None
    | Some xs => c07_put_each (repeat (c07_reduce_ranks f xs) (length outs)) outs
    end.
  Definition c07_MPI_allreduce_trees (f : E -> E -> E) (len : nat) (trees : list c07_tree) (ins outs : bufs) : option bufs :=
    match c07_take_all len ins with
    | None => None
    | Some xs => c07_put_each (map (c07_tree_eval f xs) trees) outs
    end.

  (* ---- the Dune wrappers (mpicommunication.hh): argument computations only ---- *)
  Definition c07_iota_mul (P len : nat) : list nat := map (fun r => r * len) (seq 0 P).
  (* gather(in,out,len,root) -> MPI_Gather(in,len,T,out,len,T,root) *)
  Definition c07_mpi_gather (root len : nat) (ins outs : bufs) :=
    let P := length ins in c07_MPI_gatherv root ins (repeat len P) (c07_iota_mul P len) outs.
  (* igather(data_in, data_out, root): sendcount = in.size(), recvcount = (me==root)*in.size() *)
  Definition c07_mpi_igather (root : nat) (ins outs : bufs) :=
    let P := length ins in
    let len := length (nth root ins []) in
    c07_MPI_gatherv root ins (map (@length E) ins) (c07_iota_mul P len) outs.
  Definition c07_mpi_gatherv := c07_MPI_gatherv.
  Definition c07_mpi_scatter (root len : nat) (ins outs : bufs) :=
    let P := length outs in c07_MPI_scatterv root ins (repeat len P) (c07_iota_mul P len) outs.
  (* iscatter: sendcount = (me==root) * in.size()/procs, recvcount = out.size() *)
  Definition c07_mpi_iscatter (root : nat) (ins outs : bufs) :=
    let P := length outs in
    let inlen := Nat.div (length (nth root ins [])) P in
    c07_MPI_scatterv root ins (map (@length E) outs) (c07_iota_mul P inlen) outs.
  Definition c07_mpi_scatterv := c07_MPI_scatterv.
  Definition c07_mpi_allgather (len : nat) (ins outs : bufs) :=
    let P := length ins in c07_MPI_allgatherv ins (repeat len P) (c07_iota_mul P len) outs.
  (* iallgather: sendcount = recvcount = in.size() (of the calling rank) *)
  Definition c07_mpi_iallgather (ins outs : bufs) :=
    let P := length ins in
    c07_MPI_allgatherv ins (map (@length E) ins) (c07_iota_mul P (length (nth 0 ins []))) outs.
  Definition c07_mpi_allgatherv := c07_MPI_allgatherv.
  Definition c07_mpi_bcast := c07_MPI_bcast.
  (* allreduce<F>(in,out,len), and allreduce<F>(inout,len) = temp out + std::copy back *)
  Definition c07_mpi_allreduce := c07_MPI_allreduce.
  Definition c07_mpi_allreduce_inplace (f : E -> E -> E) (len : nat) (inouts : bufs) := c07_MPI_allreduce f len inouts inouts.
End MPIColl.

(* ------------------------------------------------------------------ (D) sequential stand-in *)
Section SeqColl.
  Variable E : Type.
  (* gather / scatter / allgather:  for (i=0;i<len;i++) out[i] = in[i]; *)
  Definition c07_seq_gather (len : nat) (inb out : list E) := c07_copy len 0 0 inb out.
  Definition c07_seq_scatter (len : nat) (send recv : list E) := c07_copy len 0 0 send recv.
  Definition c07_seq_allgather (count : nat) (sbuf rbuf : list E) := c07_copy count 0 0 sbuf rbuf.
  (* allreduce(in,out,len): std::copy(in,in+len,out) *)
  Definition c07_seq_allreduce (len : nat) (inb out : list E) := c07_copy len 0 0 inb out.
  (* the code as it is in the tree (F-C07-1):   for (i=*displ; i<sendDataLen; i++) out[i] = in[i]; *)
  Definition c07_seq_gatherv_cur (sendlen displ : nat) (inb out : list E) := c07_copy (sendlen - displ) displ displ inb out.
  Definition c07_seq_scatterv_cur (sendlen0 displ : nat) (send recv : list E) := c07_copy (sendlen0 - displ) displ displ send recv.
  (* after the proposed fix:  for (i=0;i<sendDataLen;i++) out[*displ+i] = in[i];   resp.  recv[i] = send[*displ+i] *)
  Definition c07_seq_gatherv (sendlen displ : nat) (inb out : list E) := c07_copy sendlen 0 displ inb out.
  Definition c07_seq_scatterv (sendlen0 displ : nat) (send recv : list E) := c07_copy sendlen0 displ 0 send recv.
  Definition c07_seq_allgatherv := c07_seq_gatherv.
  Definition c07_seq_allgatherv_cur := c07_seq_gatherv_cur.
  (* igather: *(out.begin()) = in;  iscatter: out = *(in.begin());  iallreduce(in,out): out = in *)
  Definition c07_seq_igather (x : E) (out : list E) : option (list E) :=
    match out with [] => None | _ :: r => Some (x :: r) end.
  Definition c07_seq_iscatter (inb : list E) : option E := nth_error inb 0.
  (* iallgather as it is in the tree (F-C07-2): returns data_out untouched; after the fix: like igather *)
  Definition c07_seq_iallgather_cur (x : E) (out : list E) : option (list E) := Some out.
  Definition c07_seq_iallgather := c07_seq_igather.
End SeqColl.

(* ------------------------------------------------------------------ (E) datatypes *)
(* a type map entry: a basic item of [size] bytes at byte displacement [disp]; all displacements >= 0 here *)
Record c07_tmap := C07_TM { c07_tm_entries : list (nat * nat);  (* (disp, size) in pack order *)
                            c07_tm_extent : nat;                 (* stride between array elements *)
                            c07_tm_align : nat }.                (* strictest basic alignment *)

Definition c07_roundup (x a : nat) : nat := if a =? 0 then x else Nat.div (x + a - 1) a * a.
Definition c07_tm_ub (es : list (nat * nat)) : nat := fold_left (fun m e => Nat.max m (fst e + snd e)) es 0.
Definition c07_tm_size (tm : c07_tmap) : nat := fold_left (fun s e => s + snd e) (c07_tm_entries tm) 0.
Definition c07_shift_entries (d : nat) (es : list (nat * nat)) := map (fun e => (d + fst e, snd e)) es.

(* predefined basic datatype (MPI_INT, MPI_DOUBLE, MPI_BYTE ...) *)
Definition c07_dt_basic (size align : nat) : c07_tmap := C07_TM [(0, size)] size align.
(* MPI_Type_contiguous(n, t) *)
Definition c07_dt_contiguous (n : nat) (t : c07_tmap) : c07_tmap :=
  C07_TM (flat_map (fun i => c07_shift_entries (i * c07_tm_extent t) (c07_tm_entries t)) (seq 0 n))
         (n * c07_tm_extent t) (c07_tm_align t).
(* MPI_Type_create_struct(count, blocklen, disp, types): extent = ub rounded up to the strictest alignment (lb = 0 here) *)
Definition c07_dt_struct (blocks : list (nat * nat * c07_tmap)) : c07_tmap :=
  let es := flat_map (fun b => match b with (len, d, t) =>
                c07_shift_entries d (c07_tm_entries (c07_dt_contiguous len t)) end) blocks in
  let al := fold_left (fun a b => Nat.max a (c07_tm_align (snd b))) blocks 1 in
  let ub := fold_left (fun m b => match b with (len, d, t) => Nat.max m (d + len * c07_tm_extent t) end) blocks 0 in
  C07_TM es (c07_roundup ub al) al.
(* MPI_Type_create_resized(t, 0, extent) *)
Definition c07_dt_resized (t : c07_tmap) (ext : nat) : c07_tmap := C07_TM (c07_tm_entries t) ext (c07_tm_align t).

(* ---- the Dune traits, as functions of the measured layout ---- *)
(* MPITraits<T> fallback: MPI_Type_contiguous(sizeof(T), MPI_BYTE) *)
Definition c07_traits_generic (sizeofT : nat) := c07_dt_contiguous sizeofT (c07_dt_basic 1 1).
(* MPITraits<FieldVector<K,n>>: vectortype = contiguous(n, K); struct{1 x vectortype at &fv[0]-&fv} *)
Definition c07_traits_fieldvector (n : nat) (tK : c07_tmap) (displ : nat) :=
  c07_dt_struct [(1, displ, c07_dt_contiguous n tK)].
(* MPITraits<bigunsignedint<k>>: contiguous(n, uint16); struct{1 x that at &digit-&data} *)
Definition c07_traits_bigunsignedint (n displ : nat) :=
  c07_dt_struct [(1, displ, c07_dt_contiguous n (c07_dt_basic c07_digit_bytes c07_digit_bytes))].
(* MPITraits<std::pair<T1,T2>>: struct{T1 at offsetof(first), T2 at offsetof(second)} resized to sizeof(Pair) *)
Definition c07_traits_pair (t1 t2 : c07_tmap) (d1 d2 sizeofP : nat) :=
  c07_dt_resized (c07_dt_struct [(1, d1, t1); (1, d2, t2)]) sizeofP.
(* MPITraits<ParallelLocalIndex<T>>: struct{char at &attribute_} resized to sizeof *)
Definition c07_traits_plocalindex (dattr sizeofPLI : nat) :=
  c07_dt_resized (c07_dt_struct [(1, dattr, c07_dt_basic 1 1)]) sizeofPLI.
(* MPITraits<IndexPair<TG,ParallelLocalIndex<TA>>>: struct{TG at &global_, PLI type at &local_} resized to sizeof *)
Definition c07_traits_indexpair (tG : c07_tmap) (dglobal dlocal : nat) (tPLI : c07_tmap) (sizeofIP : nat) :=
  c07_dt_resized (c07_dt_struct [(1, dglobal, tG); (1, dlocal, tPLI)]) sizeofIP.

(* ---- pack / unpack over a byte memory (addresses are nat, bytes are N) ---- *)
Definition c07_mem := nat -> N.
Definition c07_store (m : c07_mem) (a : nat) (bs : list N) : c07_mem :=
  fun x => if (a <=? x) && (x <? a + length bs) then nth (x - a) bs 0%N else m x.
Definition c07_load (m : c07_mem) (a n : nat) : list N := map (fun k => m (a + k)) (seq 0 n).

Fixpoint c07_pack_entries (es : list (nat * nat)) (m : c07_mem) (base : nat) : list N :=
  match es with [] => [] | (d, s) :: r => c07_load m (base + d) s ++ c07_pack_entries r m base end.
Fixpoint c07_unpack_entries (es : list (nat * nat)) (bytes : list N) (m : c07_mem) (base : nat) : c07_mem :=
  match es with
  | [] => m
  | (d, s) :: r => c07_unpack_entries r (skipn s bytes) (c07_store m (base + d) (firstn s bytes)) base
  end.
(* count elements striding by the extent *)
Fixpoint c07_pack_dt (tm : c07_tmap) (count : nat) (m : c07_mem) (base : nat) : list N :=
  match count with O => [] | S c => c07_pack_entries (c07_tm_entries tm) m base ++ c07_pack_dt tm c m (base + c07_tm_extent tm) end.
Fixpoint c07_unpack_dt (tm : c07_tmap) (count : nat) (bytes : list N) (m : c07_mem) (base : nat) : c07_mem :=
  match count with
  | O => m
  | S c => c07_unpack_dt tm c (skipn (c07_tm_size tm) bytes)
             (c07_unpack_entries (c07_tm_entries tm) bytes m base) (base + c07_tm_extent tm)
  end.

(* list front end for the driver: send count elements of src (object bytes) onto dst *)
Definition c07_mem_of (l : list N) : c07_mem := fun x => nth x l 0%N.
Definition c07_transfer (tm : c07_tmap) (count : nat) (src dst : list N) : list N :=
  let m := c07_unpack_dt tm count (c07_pack_dt tm count (c07_mem_of src) 0) (c07_mem_of dst) 0 in
  map m (seq 0 (length dst)).

(* object <-> values of its communicated basics (little-endian patterns), for the MPIPack instance *)
Fixpoint c07_le_bytes (s : nat) (v : N) : list N :=
  match s with O => [] | S s' => (v mod 256)%N :: c07_le_bytes s' (v / 256)%N end.
Fixpoint c07_le_val (bs : list N) : N := match bs with [] => 0%N | b :: r => (b + 256 * c07_le_val r)%N end.
Definition c07_obj_values (tm : c07_tmap) (obj : list N) : list N :=
  map (fun e => c07_le_val (c07_load (c07_mem_of obj) (fst e) (snd e))) (c07_tm_entries tm).
Definition c07_obj_store (tm : c07_tmap) (vals : list N) (obj : list N) : list N :=
  let bytes := flat_map (fun ev => c07_le_bytes (snd (fst ev)) (snd ev)) (combine (c07_tm_entries tm) vals) in
  map (c07_unpack_entries (c07_tm_entries tm) bytes (c07_mem_of obj) 0) (seq 0 (length obj)).

(* the measured well-formedness predicate: entries inside [0,sizeof), pairwise disjoint, extent = sizeof *)
Definition c07_range_disjoint (a b : nat * nat) : bool := (fst a + snd a <=? fst b) || (fst b + snd b <=? fst a).
Fixpoint c07_entries_disjoint (es : list (nat * nat)) : bool :=
  match es with [] => true | e :: r => forallb (c07_range_disjoint e) r && c07_entries_disjoint r end.
Definition c07_tm_wfb (tm : c07_tmap) (sizeofT : nat) : bool :=
  forallb (fun e => fst e + snd e <=? sizeofT) (c07_tm_entries tm)
  && c07_entries_disjoint (c07_tm_entries tm) && (c07_tm_extent tm =? sizeofT).
Definition c07_covered (es : list (nat * nat)) (x : nat) : bool :=
  existsb (fun e => (fst e <=? x) && (x <? fst e + snd e)) es.

(* ------------------------------------------------------------------ (F) MPIPack *)
Section Pack.
  Variables (B V T : Type).            (* buffer byte, basic value, basic type *)
  Variable zeroB : B.
  Variable enc : T -> V -> list B.                     (* MPI_Pack of one basic item *)
  Variable dec : T -> list B -> option (V * list B).   (* MPI_Unpack of one basic item *)
  Variable enc_len : nat -> list B.                    (* the int size prefix *)
  Variable dec_len : list B -> option (nat * list B).

  (* an item: static (fixed number of basics given by the C++ type) or dynamic (size prefix) *)
  Record c07_ptype := C07_PT { c07_pt_dynamic : bool; c07_pt_elem : list T; c07_pt_count : nat }.
  Record c07_pack := C07_PK { c07_pk_buf : list B; c07_pk_pos : nat }.

  Fixpoint c07_enc_elem (ts : list T) (vs : list V) : list B :=
    match ts, vs with t :: ts', v :: vs' => enc t v ++ c07_enc_elem ts' vs' | _, _ => [] end.
  Definition c07_enc_elems (ts : list T) (els : list (list V)) : list B := flat_map (c07_enc_elem ts) els.
  Fixpoint c07_dec_elem (ts : list T) (bs : list B) : option (list V * list B) :=
    match ts with
    | [] => Some ([], bs)
    | t :: ts' => match dec t bs with
                  | None => None
                  | Some (v, bs') => match c07_dec_elem ts' bs' with None => None | Some (vs, r) => Some (v :: vs, r) end
                  end
    end.
  Fixpoint c07_dec_elems (ts : list T) (n : nat) (bs : list B) : option (list (list V) * list B) :=
    match n with
    | O => Some ([], bs)
    | S n' => match c07_dec_elem ts bs with
              | None => None
              | Some (e, bs') => match c07_dec_elems ts n' bs' with None => None | Some (es, r) => Some (e :: es, r) end
              end
    end.

  (* bytes MPIPack::pack appends for one item: [int size] ++ payload *)
  Definition c07_item_bytes (pt : c07_ptype) (els : list (list V)) : list B :=
    (if c07_pt_dynamic pt then enc_len (length els) else []) ++ c07_enc_elems (c07_pt_elem pt) els.

  (* MPIPack::pack: grow the buffer to _position + size when needed, MPI_Pack at the cursor
     (overwriting what was there), advance the cursor *)
  Definition c07_overwrite (buf : list B) (pos : nat) (bs : list B) : list B :=
    firstn pos buf ++ bs ++ skipn (pos + length bs) buf.
  (* `if (size_t(_position + size) > _buffer.size()) _buffer.resize(_position + size)`: grow_only = the comparison is `>` (re-read from the
     source); with any other comparison the buffer is resized to need whenever the sizes differ, i.e. it may shrink *)
  Definition c07_pk_grow (grow_only : bool) (buf : list B) (need : nat) : list B :=
    if grow_only then (if length buf <? need then buf ++ repeat zeroB (need - length buf) else buf)
    else firstn need buf ++ repeat zeroB (need - length buf).
  (* MPIPack::resize(n) (std::vector::resize) and enlarge(s) *)
  Definition c07_pk_resize (p : c07_pack) (n : nat) : c07_pack :=
    C07_PK (firstn n (c07_pk_buf p) ++ repeat zeroB (n - length (c07_pk_buf p))) (c07_pk_pos p).
  Definition c07_pk_enlarge (p : c07_pack) (s : nat) : c07_pack := c07_pk_resize p (length (c07_pk_buf p) + s).
  Definition c07_pk_write (p : c07_pack) (pt : c07_ptype) (els : list (list V)) : c07_pack :=
    let bs := c07_item_bytes pt els in
    let need := c07_pk_pos p + length bs in
    let buf := c07_pk_grow c07_param_pack_grow_only (c07_pk_buf p) need in
    C07_PK (c07_overwrite buf (c07_pk_pos p) bs) need.

  (* MPIPack::unpack (static: count elements; dynamic: read the int, resize, read) ; None = MPI error *)
  Definition c07_pk_read (p : c07_pack) (pt : c07_ptype) : option (list (list V) * c07_pack) :=
    let rest := skipn (c07_pk_pos p) (c07_pk_buf p) in
    match (if c07_pt_dynamic pt then dec_len rest else Some (c07_pt_count pt, rest)) with
    | None => None
    | Some (n, rest1) =>
        match c07_dec_elems (c07_pt_elem pt) n rest1 with
        | None => None
        | Some (els, rest2) => Some (els, C07_PK (c07_pk_buf p) (length (c07_pk_buf p) - length rest2))
        end
    end.
  Definition c07_pk_seek (p : c07_pack) (pos : nat) := C07_PK (c07_pk_buf p) pos.
  Definition c07_pk_tell (p : c07_pack) := c07_pk_pos p.
  Definition c07_pk_size (p : c07_pack) := length (c07_pk_buf p).
  Definition c07_pk_eof (p : c07_pack) := c07_pk_pos p =? length (c07_pk_buf p).
  Definition c07_pk_empty := C07_PK [] 0.

  Fixpoint c07_pk_write_all (p : c07_pack) (items : list (c07_ptype * list (list V))) : c07_pack :=
    match items with [] => p | (pt, els) :: r => c07_pk_write_all (c07_pk_write p pt els) r end.
  Fixpoint c07_pk_read_all (p : c07_pack) (pts : list c07_ptype) : option (list (list (list V)) * c07_pack) :=
    match pts with
    | [] => Some ([], p)
    | pt :: r => match c07_pk_read p pt with
                 | None => None
                 | Some (els, p') => match c07_pk_read_all p' r with None => None | Some (res, p'') => Some (els :: res, p'') end
                 end
    end.
End Pack.

(* executable instance: a basic type is its byte size, a value its little-endian pattern *)
Definition c07_enc_n (s : nat) (v : N) : list N := c07_le_bytes s v.
Definition c07_dec_n (s : nat) (bs : list N) : option (N * list N) :=
  if s <=? length bs then Some (c07_le_val (firstn s bs), skipn s bs) else None.
Definition c07_enc_len_n (n : nat) : list N := c07_le_bytes c07_prefix_bytes (N.of_nat n).
Definition c07_dec_len_n (bs : list N) : option (nat * list N) :=
  match c07_dec_n c07_prefix_bytes bs with None => None | Some (v, r) => Some (N.to_nat v, r) end.

Definition c07_pkn_write := c07_pk_write N N nat 0%N c07_enc_n c07_enc_len_n.
Definition c07_pkn_read := c07_pk_read N N nat c07_dec_n c07_dec_len_n.
Definition c07_pkn_item_bytes := c07_item_bytes N N nat c07_enc_n c07_enc_len_n.
Definition c07_pkn_resize := c07_pk_resize N 0%N.
Definition c07_pkn_enlarge := c07_pk_enlarge N 0%N.
Definition c07_tm_ptype (tm : c07_tmap) (dyn : bool) (count : nat) : c07_ptype nat := C07_PT nat dyn (map snd (c07_tm_entries tm)) count.

(* ------------------------------------------------------------------ (G) rrecv *)
(* MPI_Get_count(status, type): number of whole elements in a message of msgbytes packed bytes; None = MPI_UNDEFINED *)
Definition c07_get_count (msgbytes tsize : nat) : option nat :=
  if tsize =? 0 then (if msgbytes =? 0 then Some 0 else None)
  else if Nat.modulo msgbytes tsize =? 0 then Some (Nat.div msgbytes tsize) else None.
Section Rrecv.
  Variable E : Type.
  Variable merge : E -> E -> E.
  Variable dflt : E.      (* value-initialised element appended by resize *)
  (* container.resize(n) *)
  Definition c07_resize (c : list E) (n : nat) : list E := firstn n c ++ repeat dflt (n - length c).
  (* rrecv(data, src, tag): Mprobe; Get_count; resize; Mrecv.   sent = the sender's elements, tsize = packed size of one *)
  Definition c07_rrecv (tsize : nat) (sent data : list E) : option (list E) :=
    match c07_get_count (length sent * tsize) tsize with
    | None => None
    | Some n => c07_put merge sent (c07_resize data n) 0
    end.
  (* recv(data, ...): count = data.size(); a longer message is an MPI error (truncation), a shorter one fills a prefix *)
  Definition c07_recv (sent data : list E) : option (list E) :=
    if length sent <=? length data then c07_put merge sent data 0 else None.
End Rrecv.

(* one matching send / rrecv pair of an MPIPack over the network: send(pack) puts the WHOLE buffer on the wire as MPI_PACKED bytes
   (count = buffer size, not the cursor); rrecv(MPIPack(comm), ...) sizes the receiving pack's buffer from the message (c07_rrecv with
   one-byte items) and leaves its cursor where it was (0 for a fresh pack) *)
Definition c07_pack_wire (B : Type) (p : c07_pack B) : list B := c07_pk_buf B p.
Definition c07_pack_rrecv (B : Type) (zeroB : B) (wire : list B) (p0 : c07_pack B) : option (c07_pack B) :=
  match c07_rrecv B (fun s _ => s) zeroB 1 wire (c07_pk_buf B p0) with
  | None => None
  | Some b => Some (C07_PK B b (c07_pk_pos B p0))
  end.


(* ------------------------------------------------------------------ (H') audit 2: asymmetric arguments, targets with earlier state *)
(* gatherv(in, sendDataLen, out, recvDataLen, displ, root) / scatterv(send, sendDataLen, displ, recv, recvDataLen, root): EVERY rank passes its
   own count / displacement arrays (args = one pair per rank); the wrappers hand them to MPI_Gatherv / MPI_Scatterv unchanged and MPI reads
   the ROOT's arrays only (the per-rank send / receive count is the separate scalar argument) *)
Definition c07_mpi_gatherv_ranks (E : Type) (merge : E -> E -> E) (root : nat) (ins : list (list E)) (args : list (list nat * list nat))
    (outs : list (list E)) : option (list (list E)) :=
  match nth_error args root with None => None | Some a => c07_mpi_gatherv E merge root ins (fst a) (snd a) outs end.
Definition c07_mpi_scatterv_ranks (E : Type) (merge : E -> E -> E) (root : nat) (ins : list (list E)) (args : list (list nat * list nat))
    (outs : list (list E)) : option (list (list E)) :=
  match nth_error args root with None => None | Some a => c07_mpi_scatterv E merge root ins (fst a) (snd a) outs end.
(* MPIPack& operator=(MPIPack&&) = default: member-wise, buffer and cursor of the source; nothing of the target is kept *)
Definition c07_pk_move_assign (B : Type) (dst src : c07_pack B) : c07_pack B := C07_PK B (c07_pk_buf B src) (c07_pk_pos B src).

(* ------------------------------------------------------------------ (I) MPIData: how an object is described to MPI as (count, datatype) *)
Record c07_mpidata := C07_MD { c07_md_count : nat; c07_md_tm : c07_tmap }.
(* default MPIData<T>: ptr = &t, size() = 1, type() = MPITraits<T>::getType() *)
Definition c07_md_object (tmT : c07_tmap) : c07_mpidata := C07_MD 1 tmT.
(* the range specialisation (anything with data(), size(), value_type: std::vector, std::string, DynamicVector, but also FieldVector and
   std::array): ptr = data(), size() = size(), type() = MPITraits<value_type>::getType() *)
Definition c07_md_range (n : nat) (tmK : c07_tmap) : c07_mpidata := C07_MD n tmK.
(* MPIPack: ptr = _buffer.data(), size() = _buffer.size(), MPI_PACKED *)
Definition c07_md_pack (size : nat) : c07_mpidata := C07_MD size (c07_dt_basic 1 1).
(* the type signature of a message: the sequence of basic items (here: their sizes) *)
Definition c07_md_signature (d : c07_mpidata) : list nat :=
  concat (repeat (map snd (c07_tm_entries (c07_md_tm d))) (c07_md_count d)).
(* the bytes the description touches, relative to ptr *)
Definition c07_md_entries (d : c07_mpidata) : list (nat * nat) := c07_tm_entries (c07_dt_contiguous (c07_md_count d) (c07_md_tm d)).
Definition c07_md_bytes (d : c07_mpidata) : nat := c07_md_count d * c07_tm_size (c07_md_tm d).

(* static_size of the MPIData specialisations: default -> true; range -> is_const || !has_resize; MPIPack -> is_const *)
Inductive c07_md_kind := C07_KObject | C07_KRange (has_resize : bool) | C07_KPack.
Definition c07_md_static_size (k : c07_md_kind) (is_const : bool) : bool :=
  match k with C07_KObject => true | C07_KRange has_resize => is_const || negb has_resize | C07_KPack => is_const end.
(* MPIPack::pack(const T& data): getMPIData(data) is the MPIData of CONST T, but the size prefix is decided by
   decltype(getMPIData(std::declval<T&>()))::static_size (non-const T); unpack(T&) is selected by the non-const MPIData *)
Definition c07_pack_writes_prefix (k : c07_md_kind) : bool := negb (c07_md_static_size k false).
Definition c07_unpack_reads_prefix (k : c07_md_kind) : bool := negb (c07_md_static_size k false).
(* what pack() would do if it asked the MPIData object it actually holds (of const T) *)
Definition c07_pack_writes_prefix_const_view (k : c07_md_kind) : bool := negb (c07_md_static_size k true).

(* the (sendcount, sendtype, recvcount, recvtype) argument computations of the non-blocking collectives with two descriptions *)
Record c07_xfer_args := C07_XA { c07_xa_scount : nat; c07_xa_stm : c07_tmap; c07_xa_rcount : nat; c07_xa_rtm : c07_tmap }.
Definition c07_b2n (b : bool) : nat := if b then 1 else 0.
(* igather: MPI_Igather(in.ptr, in.size, in.type, out.ptr, outlen = (me==root)*in.size, <recv type>) ; the receive type is in.type()
   since 954025b (c07_param_igather_recv_sendtype, re-read from the source), it was out.type() before *)
Definition c07_igather_args (me root : nat) (din dout : c07_mpidata) : c07_xfer_args :=
  C07_XA (c07_md_count din) (c07_md_tm din) (c07_b2n (me =? root) * c07_md_count din)
         (if c07_param_igather_recv_sendtype then c07_md_tm din else c07_md_tm dout).
Definition c07_iallgather_args (din dout : c07_mpidata) : c07_xfer_args :=
  C07_XA (c07_md_count din) (c07_md_tm din) (c07_md_count din)
         (if c07_param_iallgather_recv_sendtype then c07_md_tm din else c07_md_tm dout).
(* iscatter: MPI_Iscatter(in.ptr, inlen = (me==root) * in.size()/procs, in.type, out.ptr, out.size, out.type) *)
Definition c07_iscatter_args (me root procs : nat) (din dout : c07_mpidata) : c07_xfer_args :=
  C07_XA (if c07_param_iscatter_divides_by_procs then Nat.div (c07_b2n (me =? root) * c07_md_count din) procs else c07_b2n (me =? root) * c07_md_count din)
         (c07_md_tm din) (c07_md_count dout) (c07_md_tm dout).
Definition c07_xa_send_sig (a : c07_xfer_args) : list nat := c07_md_signature (C07_MD (c07_xa_scount a) (c07_xa_stm a)).
Definition c07_xa_recv_sig (a : c07_xfer_args) : list nat := c07_md_signature (C07_MD (c07_xa_rcount a) (c07_xa_rtm a)).
(* two descriptions of the same memory are interchangeable when they touch the same bytes in the same order *)
Fixpoint c07_entries_eqb (a b : list (nat * nat)) : bool :=
  match a, b with
  | [], [] => true
  | x :: a', y :: b' => (fst x =? fst y) && (snd x =? snd y) && c07_entries_eqb a' b'
  | _, _ => false
  end.
Definition c07_md_same_layout (d1 d2 : c07_mpidata) : bool := c07_entries_eqb (c07_md_entries d1) (c07_md_entries d2).
(* which reduction trees the MPI library may use for an op created with the given commute flag, over P ranks *)
Definition c07_tree_ok (commute : bool) (P : nat) (t : c07_tree) : Prop :=
  if commute then Permutation.Permutation (c07_tree_leaves t) (seq 0 P) else c07_tree_leaves t = seq 0 P.
(* the pre-954025b igather (receive side described by data_out's type) *)
Definition c07_igather_args_old (me root : nat) (din dout : c07_mpidata) : c07_xfer_args :=
  C07_XA (c07_md_count din) (c07_md_tm din) (c07_b2n (me =? root) * c07_md_count din) (c07_md_tm dout).
