(* C07 — lemmas and proofs. *)
From Coq Require Import List NArith ZArith Bool Arith Lia Permutation.
From DuneV Require Import Params_gen C07_Model C07_Spec.
Import ListNotations.

(* ------------------------------------------------------------------ buffers *)
Section BufferLemmas.
  Variable E : Type.
  Variable merge : E -> E -> E.

  Lemma map2_length : forall (g : E -> E -> E) a b, length (c07_map2 g a b) = Nat.min (length a) (length b).
  Proof. induction a; destruct b; simpl; auto. Qed.

  Lemma put_length : forall data dst pos r, c07_put merge data dst pos = Some r -> length r = length dst.
  Proof.
    unfold c07_put; intros data dst pos r H.
    destruct (pos + length data <=? length dst) eqn:Hle; [|discriminate].
    apply Nat.leb_le in Hle. inversion H; subst; clear H.
    rewrite !app_length, map2_length, !firstn_length, !skipn_length. lia.
  Qed.

  Lemma resize_length : forall (d : E) c n, length (c07_resize E d c n) = n.
  Proof. intros; unfold c07_resize; rewrite app_length, firstn_length, repeat_length; lia. Qed.

  Lemma get_count_mul : forall n tsize, 0 < tsize -> c07_get_count (n * tsize) tsize = Some n.
  Proof.
    intros n tsize H; unfold c07_get_count.
    destruct (tsize =? 0) eqn:E0; [apply Nat.eqb_eq in E0; lia|].
    rewrite Nat.mod_mul by lia. simpl. rewrite Nat.div_mul by lia. reflexivity.
  Qed.

  (* rrecv: the received container has exactly the sender's length, and holds the sender's elements (merged) *)
  Lemma P_rrecv_len : forall (d : E) tsize sent data, 0 < tsize ->
    exists r, c07_rrecv E merge d tsize sent data = Some r /\ length r = length sent /\
              r = c07_map2 merge sent (c07_resize E d data (length sent)).
  Proof.
    intros d tsize sent data H; unfold c07_rrecv. rewrite get_count_mul by assumption.
    unfold c07_put. rewrite resize_length. simpl. rewrite Nat.leb_refl.
    eexists; split; [reflexivity|].
    rewrite firstn_all2 by (rewrite resize_length; lia).
    rewrite skipn_all2 by (rewrite resize_length; lia). rewrite app_nil_r.
    split; [|reflexivity]. rewrite map2_length, resize_length; lia.
  Qed.
End BufferLemmas.

(* ------------------------------------------------------------------ reductions: any tree over any arrangement *)
Section ACFold.
  Variable A : Type.
  Variable g : A -> A -> A.
  Hypothesis g_assoc : forall a b c, g (g a b) c = g a (g b c).
  Hypothesis g_comm : forall a b, g a b = g b a.

  Definition oplus (x y : option A) : option A :=
    match x, y with Some a, Some b => Some (g a b) | Some a, None => Some a | None, y => y end.
  Definition osum (l : list A) : option A := fold_right (fun x acc => oplus (Some x) acc) None l.

  Lemma oplus_assoc : forall x y z, oplus (oplus x y) z = oplus x (oplus y z).
  Proof. destruct x, y, z; simpl; try reflexivity. now rewrite g_assoc. Qed.
  Lemma oplus_comm : forall x y, oplus x y = oplus y x.
  Proof. destruct x, y; simpl; try reflexivity. now rewrite g_comm. Qed.
  Lemma oplus_none_r : forall x, oplus x None = x.
  Proof. destruct x; reflexivity. Qed.

  Lemma osum_cons : forall x l, osum (x :: l) = oplus (Some x) (osum l).
  Proof. reflexivity. Qed.

  Lemma osum_app : forall l1 l2, osum (l1 ++ l2) = oplus (osum l1) (osum l2).
  Proof.
    induction l1; intros; [reflexivity|].
    rewrite <- app_comm_cons, !osum_cons, IHl1. symmetry; apply oplus_assoc.
  Qed.

  Lemma osum_perm : forall l l', Permutation l l' -> osum l = osum l'.
  Proof.
    induction 1; rewrite ?osum_cons; try congruence.
    rewrite <- !oplus_assoc. f_equal. apply oplus_comm.
  Qed.

  Lemma osum_fold_left : forall r x, osum (x :: r) = Some (fold_left g r x).
  Proof.
    induction r; intros; [reflexivity|].
    change (fold_left g (a :: r) x) with (fold_left g r (g x a)).
    rewrite <- IHr, !osum_cons, <- oplus_assoc. reflexivity.
  Qed.
End ACFold.

Section UserOp.
  Variable E : Type.
  Variable f : E -> E -> E.
  Hypothesis f_assoc : forall a b c, f (f a b) c = f a (f b c).
  Hypothesis f_comm : forall a b, f a b = f b a.

  Lemma tramp_assoc : forall a b c, c07_tramp f (c07_tramp f a b) c = c07_tramp f a (c07_tramp f b c).
  Proof. unfold c07_tramp. induction a; destruct b, c; simpl; try reflexivity. now rewrite f_assoc, IHa. Qed.
  Lemma tramp_comm : forall a b, c07_tramp f a b = c07_tramp f b a.
  Proof. unfold c07_tramp. induction a; destruct b; simpl; try reflexivity. now rewrite f_comm, IHa. Qed.

  Lemma tree_eval_osum : forall xs t,
    osum _ (c07_tramp f) (map (fun i => nth i xs []) (c07_tree_leaves t)) = Some (c07_tree_eval f xs t).
  Proof.
    induction t; simpl; [reflexivity|].
    rewrite map_app, osum_app by apply tramp_assoc. now rewrite IHt1, IHt2.
  Qed.

  Lemma map_nth_seq : forall (xs : list (list E)), map (fun i => nth i xs []) (seq 0 (length xs)) = xs.
  Proof.
    intros. apply nth_ext with (d := []) (d' := []); [now rewrite map_length, seq_length|].
    intros n Hn. rewrite map_length, seq_length in Hn.
    rewrite nth_indep with (d' := nth 0 xs []) by (now rewrite map_length, seq_length).
    change (nth 0 xs []) with ((fun i => nth i xs []) 0).
    rewrite map_nth. now rewrite seq_nth.
  Qed.

  Lemma leaves_nonempty : forall t, c07_tree_leaves t <> [].
  Proof. induction t; simpl; [discriminate|]. destruct (c07_tree_leaves t1); [contradiction|discriminate]. Qed.

  (* any reduction tree whose leaves are any arrangement of the ranks 0..P-1 yields the rank-order result *)
  Lemma P_user_op : forall (xs : list (list E)) (t : c07_tree),
    Permutation (c07_tree_leaves t) (seq 0 (length xs)) ->
    c07_tree_eval f xs t = c07_reduce_ranks f xs.
  Proof.
    intros xs t Hp.
    assert (H := tree_eval_osum xs t).
    rewrite (osum_perm _ _ tramp_assoc tramp_comm _ _ (Permutation_map _ Hp)), map_nth_seq in H.
    destruct xs as [|x r].
    - simpl in Hp. apply Permutation_sym, Permutation_nil in Hp. now apply leaves_nonempty in Hp.
    - rewrite osum_fold_left in H by apply tramp_assoc. simpl. now inversion H.
  Qed.

  (* element-wise reading of the rank-order result: component j is the rank-order fold of the j-th components *)
  Lemma reduce_ranks_nth : forall (r : list (list E)) (x : list E) j d,
    (forall v, In v (x :: r) -> j < length v) ->
    nth j (fold_left (c07_tramp f) r x) d = fold_left f (map (fun v => nth j v d) r) (nth j x d).
  Proof.
    induction r as [|y r IH]; intros x j d Hlen; simpl; [reflexivity|].
    rewrite IH.
    - f_equal. assert (Hx : j < length x) by (apply Hlen; now left).
      assert (Hy : j < length y) by (apply Hlen; right; now left).
      clear -Hx Hy. unfold c07_tramp. revert y j Hx Hy. induction x; intros; simpl in *; [lia|].
      destruct y; simpl in *; [lia|]. destruct j; [reflexivity|]. apply IHx; lia.
    - intros v [Hv|Hv].
      + subst v. unfold c07_tramp. rewrite map2_length.
        assert (j < length x) by (apply Hlen; now left). assert (j < length y) by (apply Hlen; right; now left). lia.
      + apply Hlen. right; now right.
  Qed.

  Lemma P_user_op_elementwise : forall (x : list E) (r : list (list E)) (t : c07_tree) j d,
    Permutation (c07_tree_leaves t) (seq 0 (length (x :: r))) ->
    (forall v, In v (x :: r) -> j < length v) ->
    nth j (c07_tree_eval f (x :: r) t) d = fold_left f (map (fun v => nth j v d) r) (nth j x d).
  Proof. intros. rewrite P_user_op by assumption. simpl. now apply reduce_ranks_nth. Qed.
End UserOp.

Lemma P_user_op_example :
  let t := C07_Node (C07_Node (C07_Leaf 3) (C07_Leaf 1)) (C07_Node (C07_Leaf 0) (C07_Leaf 2)) in
  let xs := [[1; 20]; [5; -3]; [2; 7]; [4; 4]]%Z in
  c07_tree_eval Z.add xs t = [12; 28]%Z /\ c07_reduce_ranks Z.add xs = [12; 28]%Z /\
  c07_tree_eval Z.max xs t = [5; 20]%Z /\ Permutation (c07_tree_leaves t) (seq 0 (length xs)).
Proof.
  repeat split; try (vm_compute; reflexivity).
  simpl. apply Permutation_sym.
  apply perm_trans with [0; 2; 3; 1]; [|apply (Permutation_app_comm [0; 2] [3; 1])].
  apply perm_skip. apply perm_trans with [2; 1; 3]; [apply perm_swap|]. apply perm_skip. apply perm_swap.
Qed.

(* ------------------------------------------------------------------ sequential stand-in = one-process collective *)
Section Sequential.
  Variable E : Type.
  Definition idm (s _ : E) : E := s.       (* fully communicated element types: the received element is the sent one *)

  Lemma map2_idm : forall (data rest : list E), length data <= length rest -> c07_map2 idm data rest = data.
  Proof. induction data; destruct rest; simpl; intros; try reflexivity; try lia. unfold idm at 1. f_equal. apply IHdata; lia. Qed.

  Lemma put_idm : forall (data dst : list E) pos, pos + length data <= length dst ->
    c07_put idm data dst pos = Some (firstn pos dst ++ data ++ skipn (pos + length data) dst).
  Proof.
    intros; unfold c07_put. destruct (Nat.leb_spec (pos + length data) (length dst)); [|lia].
    rewrite map2_idm; [reflexivity|]. rewrite firstn_length. rewrite skipn_length. lia.
  Qed.

  Lemma take_ok : forall (src : list E) pos n, pos + n <= length src -> c07_take src pos n = Some (firstn n (skipn pos src)).
  Proof. intros; unfold c07_take. destruct (Nat.leb_spec (pos + n) (length src)); [reflexivity|lia]. Qed.

  Lemma upd_length : forall (l : list E) i v, i < length l -> length (c07_upd l i v) = length l.
  Proof.
    intros; unfold c07_upd. rewrite app_length, firstn_length.
    change (length (v :: skipn (S i) l)) with (S (length (skipn (S i) l))). rewrite skipn_length. lia.
  Qed.

  Lemma skipn_skipn' : forall x y (l : list E), skipn x (skipn y l) = skipn (y + x) l.
  Proof. intros x y; revert x. induction y; intros; [reflexivity|]. destruct l; [now rewrite !skipn_nil|]. simpl. apply IHy. Qed.

  Lemma firstn_upd : forall (l : list E) i v, i < length l -> firstn (S i) (c07_upd l i v) = firstn i l ++ [v].
  Proof.
    intros; unfold c07_upd.
    assert (Hf : length (firstn i l) = i) by (rewrite firstn_length; lia).
    rewrite firstn_app, Hf, firstn_all2 by lia. replace (S i - i) with 1 by lia. reflexivity.
  Qed.
  Lemma skipn_upd : forall (l : list E) i v n, i < length l -> skipn (S i + n) (c07_upd l i v) = skipn (S i + n) l.
  Proof.
    intros; unfold c07_upd.
    assert (Hf : length (firstn i l) = i) by (rewrite firstn_length; lia).
    rewrite skipn_app, Hf, skipn_all2 by lia. replace (S i + n - i) with (S n) by lia.
    rewrite skipn_cons, skipn_skipn'. reflexivity.
  Qed.
  Lemma skipn_nth_error : forall (src : list E) sof v, nth_error src sof = Some v -> skipn sof src = v :: skipn (S sof) src.
  Proof. induction src; intros; destruct sof; simpl in *; try discriminate. - now inversion H. - now apply IHsrc. Qed.

  Lemma copy_spec : forall n sof dof (src dst : list E), sof + n <= length src -> dof + n <= length dst ->
    c07_copy n sof dof src dst = Some (firstn dof dst ++ firstn n (skipn sof src) ++ skipn (dof + n) dst).
  Proof.
    induction n; intros sof dof src dst Hs Hd.
    - simpl. rewrite Nat.add_0_r. now rewrite firstn_skipn.
    - cbn [c07_copy].
      destruct (nth_error src sof) as [v|] eqn:Hv; [|apply nth_error_None in Hv; lia].
      destruct (Nat.ltb_spec dof (length dst)); [|lia].
      rewrite IHn; [|lia|rewrite upd_length; lia].
      f_equal. rewrite firstn_upd, skipn_upd by lia.
      rewrite (skipn_nth_error _ _ _ Hv), firstn_cons.
      replace (dof + S n) with (S dof + n) by lia.
      rewrite <- app_assoc. reflexivity.
  Qed.

  Definition wrap (o : option (list E)) : option (list (list E)) := match o with Some b => Some [b] | None => None end.

  (* gather / scatter / allgather / allreduce(in,out,len) *)
  Lemma P_seq_fixed_len : forall (f : E -> E -> E) len (inb out : list E), len <= length inb -> len <= length out ->
    wrap (c07_seq_gather E len inb out) = c07_mpi_gather E idm 0 len [inb] [out] /\
    wrap (c07_seq_scatter E len inb out) = c07_mpi_scatter E idm 0 len [inb] [out] /\
    wrap (c07_seq_allgather E len inb out) = c07_mpi_allgather E idm len [inb] [out] /\
    wrap (c07_seq_allreduce E len inb out) = c07_mpi_allreduce E idm f len [inb] [out].
  Proof.
    intros f len inb out Hi Ho.
    unfold c07_seq_gather, c07_seq_scatter, c07_seq_allgather, c07_seq_allreduce.
    rewrite copy_spec by lia. simpl.
    assert (Hl : length (firstn len inb) = len) by (rewrite firstn_length; lia).
    repeat split.
    - unfold c07_mpi_gather, c07_MPI_gatherv, c07_iota_mul; simpl.
      rewrite take_ok by lia. simpl. rewrite put_idm by (rewrite Hl; lia). rewrite Hl. reflexivity.
    - unfold c07_mpi_scatter, c07_MPI_scatterv, c07_iota_mul; simpl.
      rewrite take_ok by lia. simpl. rewrite put_idm by (rewrite Hl; lia). rewrite Hl. reflexivity.
    - unfold c07_mpi_allgather, c07_MPI_allgatherv, c07_iota_mul; simpl.
      rewrite take_ok by lia. simpl. rewrite put_idm by (rewrite Hl; lia). rewrite Hl. reflexivity.
    - unfold c07_mpi_allreduce, c07_MPI_allreduce; simpl.
      rewrite take_ok by lia. simpl. rewrite put_idm by (rewrite Hl; lia). rewrite Hl. reflexivity.
  Qed.

  (* gatherv / allgatherv / scatterv (code after fixes/C07-1.patch), any displacement *)
  Lemma P_seq_v : forall sendlen displ (inb out : list E),
    (sendlen <= length inb -> displ + sendlen <= length out ->
       wrap (c07_seq_gatherv E sendlen displ inb out) = c07_mpi_gatherv E idm 0 [inb] [sendlen] [displ] [out] /\
       wrap (c07_seq_allgatherv E sendlen displ inb out) = c07_mpi_allgatherv E idm [inb] [sendlen] [displ] [out]) /\
    (displ + sendlen <= length inb -> sendlen <= length out ->
       wrap (c07_seq_scatterv E sendlen displ inb out) = c07_mpi_scatterv E idm 0 [inb] [sendlen] [displ] [out]).
  Proof.
    intros sendlen displ inb out. split.
    - intros Hi Ho. unfold c07_seq_allgatherv, c07_seq_gatherv. rewrite copy_spec by lia. simpl.
      assert (Hl : length (firstn sendlen inb) = sendlen) by (rewrite firstn_length; lia).
      split.
      + unfold c07_mpi_gatherv, c07_MPI_gatherv; simpl. rewrite take_ok by lia. simpl.
        rewrite put_idm by (rewrite Hl; lia). rewrite Hl. reflexivity.
      + unfold c07_mpi_allgatherv, c07_MPI_allgatherv; simpl. rewrite take_ok by lia. simpl.
        rewrite put_idm by (rewrite Hl; lia). rewrite Hl. reflexivity.
    - intros Hi Ho. unfold c07_seq_scatterv. rewrite copy_spec by lia. simpl.
      assert (Hl : length (firstn sendlen (skipn displ inb)) = sendlen) by (rewrite firstn_length, skipn_length; lia).
      unfold c07_mpi_scatterv, c07_MPI_scatterv; simpl. rewrite take_ok by lia.
      rewrite put_idm by (rewrite Hl; lia). rewrite Hl. reflexivity.
  Qed.

  (* the scalar / non-blocking forms *)
  Lemma P_seq_scalar : forall (f : E -> E -> E) (x o : E) (out inb : list E),
    (* sum/prod/min/max/allreduce of one value return it *)
    c07_mpi_allreduce E idm f 1 [[x]] [[o]] = Some [[x]] /\
    (* igather, iallgather (after fixes/C07-2.patch): *(out.begin()) = in *)
    wrap (c07_seq_igather E x (o :: out)) = c07_mpi_igather E idm 0 [[x]] [o :: out] /\
    wrap (c07_seq_iallgather E x (o :: out)) = c07_mpi_iallgather E idm [[x]] [o :: out] /\
    (* iscatter: out = *(in.begin()) *)
    (match c07_seq_iscatter E (x :: inb) with Some y => Some [[y]] | None => None end) = c07_mpi_iscatter E idm 0 [[x]] [[o]] /\
    (* in-place forms and broadcast are no-ops on one process *)
    c07_mpi_bcast E idm 0 (length out) [out] = Some [out] /\
    c07_mpi_allreduce_inplace E idm f (length out) [out] = Some [out].
  Proof.
    intros. repeat split.
    - unfold c07_mpi_bcast, c07_MPI_bcast. simpl. rewrite take_ok by lia. reflexivity.
    - unfold c07_mpi_allreduce_inplace, c07_MPI_allreduce. simpl. rewrite take_ok by lia. simpl.
      rewrite firstn_all. rewrite put_idm by (simpl; lia). simpl. rewrite skipn_all. now rewrite app_nil_r.
  Qed.

  (* the code as it is in the tree: refuted for a non-zero displacement, fine for displacement 0 *)
  Lemma seq_cur_displ0 : forall sendlen (inb out : list E),
    c07_seq_gatherv_cur E sendlen 0 inb out = c07_seq_gatherv E sendlen 0 inb out /\
    c07_seq_scatterv_cur E sendlen 0 inb out = c07_seq_scatterv E sendlen 0 inb out.
  Proof. intros; unfold c07_seq_gatherv_cur, c07_seq_gatherv, c07_seq_scatterv_cur, c07_seq_scatterv. now rewrite Nat.sub_0_r. Qed.
End Sequential.

Lemma P_seq_cur_refuted :
  exists (inb out : list Z) sendlen displ,
    sendlen <= length inb /\ displ + sendlen <= length out /\
    wrap Z (c07_seq_gatherv_cur Z sendlen displ inb out) <> c07_mpi_gatherv Z (idm Z) 0 [inb] [sendlen] [displ] [out] /\
    wrap Z (c07_seq_allgatherv_cur Z sendlen displ inb out) <> c07_mpi_allgatherv Z (idm Z) [inb] [sendlen] [displ] [out] /\
    wrap Z (c07_seq_scatterv_cur Z sendlen displ (inb ++ inb) out) <> c07_mpi_scatterv Z (idm Z) 0 [inb ++ inb] [sendlen] [displ] [out] /\
    wrap Z (c07_seq_iallgather_cur Z 7%Z out) <> c07_mpi_iallgather Z (idm Z) [[7%Z]] [out].
Proof.
  exists [1; 2; 3]%Z, [-1; -1; -1; -1; -1; -1; -1]%Z, 3, 2.
  repeat split; try (simpl; lia); vm_compute; discriminate.
Qed.

(* ------------------------------------------------------------------ MPIPack codec *)
Section PackProofs.
  Variables (B V T : Type).
  Variable zeroB : B.
  Variable enc : T -> V -> list B.
  Variable dec : T -> list B -> option (V * list B).
  Variable enc_len : nat -> list B.
  Variable dec_len : list B -> option (nat * list B).
  Variable wt : T -> V -> Prop.          (* v is a value of basic type t *)
  Variable lenok : nat -> Prop.          (* n is representable as the int size prefix *)
  (* the MPI library: MPI_Unpack inverts MPI_Pack on every basic item, whatever follows in the buffer *)
  Hypothesis dec_enc : forall t v rest, wt t v -> dec t (enc t v ++ rest) = Some (v, rest).
  Hypothesis dec_enc_len : forall n rest, lenok n -> dec_len (enc_len n ++ rest) = Some (n, rest).

  Notation ptype := (c07_ptype T).
  Notation pack := (c07_pack B).
  Notation item_bytes := (c07_item_bytes B V T enc enc_len).
  Notation pk_write := (c07_pk_write B V T zeroB enc enc_len).
  Notation pk_read := (c07_pk_read B V T dec dec_len).

  (* element el is a value of the element type ts *)
  Definition wt_elem (ts : list T) (el : list V) : Prop := Forall2 wt ts el.
  Definition wt_item (it : ptype * list (list V)) : Prop :=
    Forall (wt_elem (c07_pt_elem T (fst it))) (snd it) /\
    (if c07_pt_dynamic T (fst it) then lenok (length (snd it)) else length (snd it) = c07_pt_count T (fst it)).

  Lemma dec_enc_elem : forall ts el rest, wt_elem ts el ->
    c07_dec_elem B V T dec ts (c07_enc_elem B V T enc ts el ++ rest) = Some (el, rest).
  Proof.
    induction 1; simpl; [reflexivity|].
    rewrite <- app_assoc, dec_enc by assumption. now rewrite IHForall2.
  Qed.

  Lemma dec_enc_elems : forall ts els rest, Forall (wt_elem ts) els ->
    c07_dec_elems B V T dec ts (length els) (c07_enc_elems B V T enc ts els ++ rest) = Some (els, rest).
  Proof.
    induction 1; simpl; [reflexivity|].
    unfold c07_enc_elems in *. simpl. rewrite <- app_assoc, dec_enc_elem by assumption. now rewrite IHForall.
  Qed.

  (* reading one item whose bytes sit at the cursor *)
  Lemma read_item : forall (p : pack) pt els rest, wt_item (pt, els) ->
    c07_pk_pos B p <= length (c07_pk_buf B p) ->
    skipn (c07_pk_pos B p) (c07_pk_buf B p) = item_bytes pt els ++ rest ->
    pk_read p pt = Some (els, C07_PK B (c07_pk_buf B p) (c07_pk_pos B p + length (item_bytes pt els))).
  Proof.
    intros p pt els rest [Hel Hn] Hpos Hsk. unfold c07_pk_read. rewrite Hsk. unfold c07_item_bytes. simpl in *.
    assert (Hlen : length (c07_pk_buf B p) - length rest = c07_pk_pos B p + length (item_bytes pt els)).
    { assert (H := f_equal (@length B) Hsk). rewrite skipn_length, app_length in H. lia. }
    unfold c07_item_bytes in Hlen.
    destruct (c07_pt_dynamic T pt).
    - rewrite <- app_assoc, dec_enc_len by assumption. rewrite dec_enc_elems by assumption. now rewrite Hlen.
    - simpl. rewrite <- Hn, dec_enc_elems by assumption. simpl in Hlen. now rewrite Hlen.
  Qed.

  (* the growth policy as written in the source (c07_param_pack_grow_only, re-read on every run): grow only *)
  Lemma pk_grow_eq : forall buf need,
    c07_pk_grow B zeroB c07_param_pack_grow_only buf need = if length buf <? need then buf ++ repeat zeroB (need - length buf) else buf.
  Proof. reflexivity. Qed.

  (* writing at the end of the buffer appends *)
  Lemma write_append : forall (p : pack) pt els, c07_pk_pos B p = length (c07_pk_buf B p) ->
    pk_write p pt els = C07_PK B (c07_pk_buf B p ++ item_bytes pt els) (length (c07_pk_buf B p ++ item_bytes pt els)).
  Proof.
    intros p pt els Hp. unfold c07_pk_write. rewrite pk_grow_eq. rewrite Hp. set (bs := item_bytes pt els).
    rewrite app_length. f_equal.
    unfold c07_overwrite.
    destruct (Nat.ltb_spec (length (c07_pk_buf B p)) (length (c07_pk_buf B p) + length bs)).
    - rewrite firstn_app, Nat.sub_diag, firstn_all. simpl. rewrite app_nil_r.
      rewrite skipn_all2; [now rewrite app_nil_r|]. rewrite app_length, repeat_length. lia.
    - assert (length bs = 0) by lia. destruct bs; [|discriminate]. simpl.
      rewrite Nat.add_0_r, firstn_all, skipn_all. now rewrite app_nil_r.
  Qed.

  Definition all_bytes (items : list (ptype * list (list V))) : list B := flat_map (fun it => item_bytes (fst it) (snd it)) items.

  Lemma write_all_append : forall items (p : pack), c07_pk_pos B p = length (c07_pk_buf B p) ->
    c07_pk_write_all B V T zeroB enc enc_len p items
    = C07_PK B (c07_pk_buf B p ++ all_bytes items) (length (c07_pk_buf B p ++ all_bytes items)).
  Proof.
    induction items as [|[pt els] r IH]; intros p Hp; simpl.
    - rewrite app_nil_r. destruct p; simpl in *. now subst.
    - rewrite IH; rewrite write_append by assumption; simpl; [|reflexivity].
      now rewrite <- app_assoc.
  Qed.

  Lemma read_all_items : forall items (p : pack) rest, Forall wt_item items ->
    c07_pk_pos B p <= length (c07_pk_buf B p) ->
    skipn (c07_pk_pos B p) (c07_pk_buf B p) = all_bytes items ++ rest ->
    c07_pk_read_all B V T dec dec_len p (map fst items)
    = Some (map snd items, C07_PK B (c07_pk_buf B p) (c07_pk_pos B p + length (all_bytes items))).
  Proof.
    induction items as [|[pt els] r IH]; intros p rest Hwt Hpos Hsk; simpl.
    - rewrite Nat.add_0_r. now destruct p.
    - inversion Hwt as [|? ? Hit Hr]; subst. simpl in Hsk. rewrite <- app_assoc in Hsk.
      rewrite (read_item p pt els _ Hit Hpos Hsk).
      assert (Hl := f_equal (@length B) Hsk). rewrite skipn_length, app_length in Hl.
      rewrite (IH _ rest Hr); simpl.
      + rewrite app_length, Nat.add_assoc. reflexivity.
      + lia.
      + rewrite <- skipn_skipn', Hsk.
        rewrite skipn_app, Nat.sub_diag, skipn_all. reflexivity.
  Qed.

  (* MAIN: write any sequence of well-typed items into a fresh pack, rewind, read the same type sequence:
     equal values, equal lengths (also of the dynamic items), cursor at the end (= where the writer stopped = buffer size) *)
  Lemma P_pack_roundtrip : forall items, Forall wt_item items ->
    let p := c07_pk_write_all B V T zeroB enc enc_len (c07_pk_empty B) items in
    c07_pk_tell B p = c07_pk_size B p /\ c07_pk_eof B p = true /\
    exists p', c07_pk_read_all B V T dec dec_len (c07_pk_seek B p 0) (map fst items) = Some (map snd items, p') /\
               c07_pk_buf B p' = c07_pk_buf B p /\ c07_pk_tell B p' = c07_pk_tell B p /\ c07_pk_eof B p' = true.
  Proof.
    intros items Hwt p. subst p. rewrite write_all_append by reflexivity. simpl.
    unfold c07_pk_tell, c07_pk_size, c07_pk_eof, c07_pk_seek; simpl.
    split; [reflexivity|]. split; [apply Nat.eqb_refl|].
    eexists. split.
    - apply (read_all_items items (C07_PK B (all_bytes items) 0) []); simpl; [assumption|lia|now rewrite app_nil_r].
    - simpl. repeat split. apply Nat.eqb_refl.
  Qed.

  (* growth never loses earlier bytes: a write at any cursor inside the buffer leaves everything before the cursor intact
     and never shrinks the buffer *)
  Lemma P_pack_write_keeps_prefix : forall (p : pack) pt els, c07_pk_pos B p <= length (c07_pk_buf B p) ->
    let p' := pk_write p pt els in
    firstn (c07_pk_pos B p) (c07_pk_buf B p') = firstn (c07_pk_pos B p) (c07_pk_buf B p) /\
    length (c07_pk_buf B p) <= length (c07_pk_buf B p') /\
    c07_pk_pos B p' = c07_pk_pos B p + length (item_bytes pt els) /\ c07_pk_pos B p' <= length (c07_pk_buf B p') /\
    firstn (length (item_bytes pt els)) (skipn (c07_pk_pos B p) (c07_pk_buf B p')) = item_bytes pt els.
  Proof.
    intros p pt els Hpos. unfold c07_pk_write. rewrite pk_grow_eq. set (bs := item_bytes pt els). simpl.
    set (buf := if length (c07_pk_buf B p) <? c07_pk_pos B p + length bs
                then c07_pk_buf B p ++ repeat zeroB (c07_pk_pos B p + length bs - length (c07_pk_buf B p)) else c07_pk_buf B p).
    assert (Hb : c07_pk_pos B p + length bs <= length buf /\ length (c07_pk_buf B p) <= length buf /\
                 firstn (c07_pk_pos B p) buf = firstn (c07_pk_pos B p) (c07_pk_buf B p)).
    { subst buf. destruct (Nat.ltb_spec (length (c07_pk_buf B p)) (c07_pk_pos B p + length bs)).
      - rewrite app_length, repeat_length. repeat split; try lia.
        rewrite firstn_app. replace (c07_pk_pos B p - length (c07_pk_buf B p)) with 0 by lia. simpl. now rewrite app_nil_r.
      - repeat split; lia. }
    destruct Hb as (Hb1 & Hb2 & Hb3).
    unfold c07_overwrite.
    assert (Hf : length (firstn (c07_pk_pos B p) buf) = c07_pk_pos B p) by (rewrite firstn_length; lia).
    repeat split.
    - rewrite firstn_app, Hf, Nat.sub_diag. simpl. rewrite app_nil_r, firstn_firstn, Nat.min_id. exact Hb3.
    - rewrite !app_length, Hf, skipn_length. lia.
    - rewrite !app_length, Hf, skipn_length. lia.
    - rewrite skipn_app, Hf, Nat.sub_diag, skipn_all2 by lia. simpl.
      rewrite firstn_app, Nat.sub_diag, firstn_all. simpl. now rewrite app_nil_r.
  Qed.

  (* an overwriting write (cursor anywhere inside the buffer): size = max(old size, cursor+size); every byte outside
     [cursor, cursor+size) is unchanged; the item's bytes sit at the old cursor *)
  Lemma P_pack_write_overwrite : forall (p : pack) pt els, c07_pk_pos B p <= length (c07_pk_buf B p) ->
    let p' := pk_write p pt els in
    let n := length (item_bytes pt els) in
    length (c07_pk_buf B p') = Nat.max (length (c07_pk_buf B p)) (c07_pk_pos B p + n) /\
    firstn (c07_pk_pos B p) (c07_pk_buf B p') = firstn (c07_pk_pos B p) (c07_pk_buf B p) /\
    firstn n (skipn (c07_pk_pos B p) (c07_pk_buf B p')) = item_bytes pt els /\
    skipn (c07_pk_pos B p + n) (c07_pk_buf B p') = skipn (c07_pk_pos B p + n) (c07_pk_buf B p) /\
    c07_pk_pos B p' = c07_pk_pos B p + n.
  Proof.
    intros p pt els Hpos.
    destruct (P_pack_write_keeps_prefix p pt els Hpos) as (H1 & _ & H3 & _ & H5).
    cbv zeta. repeat split; try assumption.
    - unfold c07_pk_write. rewrite pk_grow_eq. set (bs := item_bytes pt els). simpl. unfold c07_overwrite.
      destruct (Nat.ltb_spec (length (c07_pk_buf B p)) (c07_pk_pos B p + length bs)).
      + rewrite !app_length, firstn_length, skipn_length, !app_length, repeat_length. lia.
      + rewrite !app_length, firstn_length, skipn_length. lia.
    - unfold c07_pk_write. rewrite pk_grow_eq. set (bs := item_bytes pt els). simpl. unfold c07_overwrite.
      destruct (Nat.ltb_spec (length (c07_pk_buf B p)) (c07_pk_pos B p + length bs)).
      + rewrite (skipn_all2 (c07_pk_buf B p)) by lia.
        apply skipn_all2. rewrite !app_length, firstn_length, skipn_length, !app_length, repeat_length. lia.
      + rewrite app_assoc, skipn_app.
        rewrite skipn_all2 by (rewrite app_length, firstn_length; lia).
        rewrite app_length, firstn_length. replace (c07_pk_pos B p + length bs - _) with 0 by lia. reflexivity.
  Qed.

  (* overwriting a slot by an item of the same packed size (the placeholder-count pattern: write a dummy, write the items, seek back,
     write the real value, seek(end)): the stream then reads back with the new value in that slot and everything else intact *)
  Lemma overwrite_same_len : forall (pre old post bs : list B), length old = length bs ->
    c07_overwrite B (pre ++ old ++ post) (length pre) bs = pre ++ bs ++ post.
  Proof.
    intros. unfold c07_overwrite.
    rewrite firstn_app, Nat.sub_diag, firstn_all. simpl. rewrite app_nil_r. f_equal. f_equal.
    rewrite skipn_app, skipn_all2 by lia. replace (length pre + length bs - length pre) with (length old) by lia.
    simpl. rewrite skipn_app, Nat.sub_diag, skipn_all. reflexivity.
  Qed.

  Lemma all_bytes_app : forall a b, all_bytes (a ++ b) = all_bytes a ++ all_bytes b.
  Proof. intros; unfold all_bytes. now rewrite flat_map_app. Qed.

  Lemma P_pack_overwrite_roundtrip : forall items1 items2 pt old new,
    Forall wt_item (items1 ++ (pt, new) :: items2) ->
    length (item_bytes pt old) = length (item_bytes pt new) ->
    let p := c07_pk_write_all B V T zeroB enc enc_len (c07_pk_empty B) (items1 ++ (pt, old) :: items2) in
    let p1 := pk_write (c07_pk_seek B p (length (all_bytes items1))) pt new in
    let p2 := c07_pk_seek B p1 (c07_pk_size B p1) in
    c07_pk_size B p1 = c07_pk_size B p /\ c07_pk_eof B p2 = true /\
    exists p', c07_pk_read_all B V T dec dec_len (c07_pk_seek B p2 0) (map fst (items1 ++ (pt, new) :: items2))
               = Some (map snd (items1 ++ (pt, new) :: items2), p') /\ c07_pk_eof B p' = true.
  Proof.
    intros items1 items2 pt old new Hwt Hlen p p1 p2. subst p2 p1 p.
    rewrite write_all_append by reflexivity. simpl c07_pk_buf. simpl ([] ++ _).
    rewrite all_bytes_app. simpl all_bytes at 1. fold (all_bytes items2).
    unfold c07_pk_write, c07_pk_seek, c07_pk_size, c07_pk_eof. rewrite pk_grow_eq. simpl.
    set (pre := all_bytes items1). set (bo := item_bytes pt old). set (bn := item_bytes pt new). set (post := all_bytes items2).
    assert (Hno : (length (pre ++ bo ++ post) <? length pre + length bn) = false).
    { apply Nat.ltb_ge. rewrite !app_length. fold bo bn in Hlen. lia. }
    rewrite Hno. rewrite overwrite_same_len by exact Hlen.
    split; [rewrite !app_length; fold bo bn in Hlen; lia|]. split; [apply Nat.eqb_refl|].
    assert (Hb : pre ++ bn ++ post = all_bytes (items1 ++ (pt, new) :: items2)).
    { rewrite all_bytes_app. reflexivity. }
    eexists. split.
    - apply (read_all_items (items1 ++ (pt, new) :: items2) (C07_PK B (pre ++ bn ++ post) 0) []); simpl; [assumption|lia|].
      now rewrite app_nil_r.
    - simpl. rewrite Hb. apply Nat.eqb_refl.
  Qed.
End PackProofs.

(* the executable instance (little-endian byte patterns) satisfies the section hypotheses *)
Lemma le_bytes_length : forall s v, length (c07_le_bytes s v) = s.
Proof. induction s; intros; simpl; [reflexivity|]. now rewrite IHs. Qed.

Lemma le_val_bytes : forall s v, (v < 256 ^ N.of_nat s)%N -> c07_le_val (c07_le_bytes s v) = v.
Proof.
  induction s; intros v Hv.
  - simpl in *. lia.
  - cbn [c07_le_bytes c07_le_val]. rewrite IHs.
    + rewrite N.add_comm. symmetry. apply N.div_mod. lia.
    + rewrite Nat2N.inj_succ, N.pow_succ_r' in Hv. apply N.div_lt_upper_bound; lia.
Qed.

Definition wt_n (s : nat) (v : N) : Prop := (v < 256 ^ N.of_nat s)%N.
Definition lenok_n (n : nat) : Prop := (N.of_nat n < 256 ^ N.of_nat c07_prefix_bytes)%N.

Lemma dec_enc_n : forall s v rest, wt_n s v -> c07_dec_n s (c07_enc_n s v ++ rest) = Some (v, rest).
Proof.
  intros s v rest Hv. unfold c07_dec_n, c07_enc_n.
  rewrite app_length, le_bytes_length.
  destruct (Nat.leb_spec s (s + length rest)); [|lia].
  rewrite firstn_app, le_bytes_length, Nat.sub_diag, firstn_all2 by (rewrite le_bytes_length; lia).
  simpl. rewrite app_nil_r, le_val_bytes by assumption.
  rewrite skipn_app, le_bytes_length, Nat.sub_diag, skipn_all2 by (rewrite le_bytes_length; lia). reflexivity.
Qed.

Lemma dec_enc_len_n : forall n rest, lenok_n n -> c07_dec_len_n (c07_enc_len_n n ++ rest) = Some (n, rest).
Proof.
  intros n rest Hn. unfold c07_dec_len_n, c07_enc_len_n.
  change (c07_le_bytes 4 (N.of_nat n)) with (c07_enc_n 4 (N.of_nat n)).
  rewrite dec_enc_n by exact Hn. now rewrite Nat2N.id.
Qed.

Lemma P_pack_roundtrip_bytes : forall items, Forall (wt_item N nat wt_n lenok_n) items ->
  let p := c07_pk_write_all N N nat 0%N c07_enc_n c07_enc_len_n (c07_pk_empty N) items in
  c07_pk_tell N p = c07_pk_size N p /\ c07_pk_eof N p = true /\
  exists p', c07_pk_read_all N N nat c07_dec_n c07_dec_len_n (c07_pk_seek N p 0) (map fst items) = Some (map snd items, p') /\
             c07_pk_buf N p' = c07_pk_buf N p /\ c07_pk_tell N p' = c07_pk_tell N p /\ c07_pk_eof N p' = true.
Proof. exact (P_pack_roundtrip N N nat 0%N c07_enc_n c07_dec_n c07_enc_len_n c07_dec_len_n wt_n lenok_n dec_enc_n dec_enc_len_n). Qed.

Lemma P_pack_example :
  let it1 := (C07_PT nat false [4] 1, [[7%N]]) in
  let it2 := (C07_PT nat true [4; 8] 1, [[1%N; 4607182418800017408%N]; [2%N; 4611686018427387904%N]]) in
  Forall (wt_item N nat wt_n lenok_n) [it1; it2] /\
  c07_pk_buf N (c07_pk_write_all N N nat 0%N c07_enc_n c07_enc_len_n (c07_pk_empty N) [it1; it2])
  = [7;0;0;0; 2;0;0;0; 1;0;0;0; 0;0;0;0;0;0;240;63; 2;0;0;0; 0;0;0;0;0;0;0;64]%N.
Proof.
  split; [|vm_compute; reflexivity].
  repeat constructor; unfold wt_n, lenok_n; simpl; lia.
Qed.

(* ------------------------------------------------------------------ datatype content *)
Lemma load_length : forall m a n, length (c07_load m a n) = n.
Proof. intros; unfold c07_load. now rewrite map_length, seq_length. Qed.

Lemma nth_load : forall m a n k, k < n -> nth k (c07_load m a n) 0%N = m (a + k).
Proof.
  intros; unfold c07_load.
  rewrite nth_indep with (d' := m (a + 0)) by (now rewrite map_length, seq_length).
  rewrite (map_nth (fun k => m (a + k))). now rewrite seq_nth.
Qed.

Definition covered_at (es : list (nat * nat)) (base x : nat) : bool := (base <=? x) && c07_covered es (x - base).

Lemma pack_entries_length : forall es m base, length (c07_pack_entries es m base) = fold_left (fun s e => s + snd e) es 0.
Proof.
  intros es m base. assert (H : forall acc, acc + length (c07_pack_entries es m base) = fold_left (fun s e => s + snd e) es acc).
  { induction es as [|[d s] r IH]; intros; simpl; [lia|]. rewrite app_length, load_length, <- IH. lia. }
  apply (H 0).
Qed.

(* one element: whatever follows in the byte stream, the bytes of the mapped ranges arrive, everything else stays *)
Lemma unpack_pack_entries : forall es src dst base rest x,
  c07_unpack_entries es (c07_pack_entries es src base ++ rest) dst base x
  = if covered_at es base x then src x else dst x.
Proof.
  induction es as [|[d s] r IH]; intros src dst base rest x.
  - simpl. unfold covered_at. simpl. now rewrite andb_false_r.
  - cbn [c07_pack_entries c07_unpack_entries].
    rewrite <- app_assoc.
    rewrite skipn_app, load_length, Nat.sub_diag, skipn_all2 by (rewrite load_length; lia).
    rewrite firstn_app, load_length, Nat.sub_diag, firstn_all2 by (rewrite load_length; lia).
    simpl (_ ++ firstn 0 _). rewrite app_nil_r. simpl ([] ++ _).
    rewrite IH. unfold covered_at, c07_covered. cbn [existsb fst snd].
    unfold c07_store. rewrite load_length.
    destruct (Nat.leb_spec base x); simpl.
    + fold (c07_covered r (x - base)).
      destruct (c07_covered r (x - base)) eqn:Hc.
      * now rewrite orb_true_r.
      * rewrite orb_false_r.
        destruct (Nat.leb_spec d (x - base)), (Nat.ltb_spec (x - base) (d + s)),
                 (Nat.leb_spec (base + d) x), (Nat.ltb_spec x (base + d + s)); simpl; try lia; try reflexivity.
        rewrite nth_load by lia. f_equal. lia.
    + destruct (Nat.leb_spec (base + d) x); simpl; [lia|reflexivity].
Qed.

Lemma existsb_map' : forall (A C : Type) (h : A -> C) (p : C -> bool) l, existsb p (map h l) = existsb (fun a => p (h a)) l.
Proof. induction l; simpl; [reflexivity|]. now rewrite IHl. Qed.
Lemma existsb_ext' : forall (A : Type) (p q : A -> bool) l, (forall a, p a = q a) -> existsb p l = existsb q l.
Proof. induction l; intros; simpl; [reflexivity|]. now rewrite H, IHl. Qed.

Definition covered_n (tm : c07_tmap) (count base x : nat) : bool :=
  existsb (fun i => covered_at (c07_tm_entries tm) (base + i * c07_tm_extent tm) x) (seq 0 count).

Lemma tm_size_pack : forall tm m base, length (c07_pack_entries (c07_tm_entries tm) m base) = c07_tm_size tm.
Proof. intros; apply pack_entries_length. Qed.

(* count elements striding by the extent *)
Lemma unpack_pack_dt : forall tm count src dst base rest x,
  c07_unpack_dt tm count (c07_pack_dt tm count src base ++ rest) dst base x
  = if covered_n tm count base x then src x else dst x.
Proof.
  intros tm count. induction count as [|c IH]; intros src dst base rest x.
  - reflexivity.
  - cbn [c07_pack_dt c07_unpack_dt]. rewrite <- app_assoc.
    rewrite skipn_app, tm_size_pack, Nat.sub_diag, skipn_all2 by (rewrite tm_size_pack; lia).
    simpl ([] ++ _). rewrite IH.
    rewrite unpack_pack_entries.
    unfold covered_n. rewrite <- cons_seq. cbn [existsb]. rewrite Nat.mul_0_l, Nat.add_0_r.
    rewrite <- seq_shift, existsb_map'.
    assert (He : existsb (fun i => covered_at (c07_tm_entries tm) (base + c07_tm_extent tm + i * c07_tm_extent tm) x) (seq 0 c)
               = existsb (fun i => covered_at (c07_tm_entries tm) (base + S i * c07_tm_extent tm) x) (seq 0 c)).
    { apply existsb_ext'. intros i. f_equal. lia. }
    rewrite He.
    clear He. match goal with |- context [existsb ?p (seq 0 c)] => destruct (existsb p (seq 0 c)) end;
      destruct (covered_at (c07_tm_entries tm) base x); reflexivity.
Qed.

Lemma P_dt_content_mem : forall tm count (src dst : c07_mem) base x,
  c07_unpack_dt tm count (c07_pack_dt tm count src base) dst base x = if covered_n tm count base x then src x else dst x.
Proof. intros. rewrite <- (app_nil_r (c07_pack_dt tm count src base)). apply unpack_pack_dt. Qed.

Lemma covered_lt : forall es sz y, forallb (fun e => fst e + snd e <=? sz) es = true -> c07_covered es y = true -> y < sz.
Proof.
  intros es sz y Hall Hc. unfold c07_covered in Hc. apply existsb_exists in Hc. destruct Hc as [e [Hin He]].
  rewrite forallb_forall in Hall. specialize (Hall e Hin). apply Nat.leb_le in Hall.
  apply andb_true_iff in He. destruct He as [_ He]. apply Nat.ltb_lt in He. lia.
Qed.

Lemma covered_n_wf : forall tm sz count x, c07_tm_wfb tm sz = true -> 0 < sz ->
  covered_n tm count 0 x = (x <? count * sz) && c07_covered (c07_tm_entries tm) (Nat.modulo x sz).
Proof.
  intros tm sz count x Hwf Hsz. unfold c07_tm_wfb in Hwf.
  apply andb_true_iff in Hwf. destruct Hwf as [Hwf Hext]. apply andb_true_iff in Hwf. destruct Hwf as [Hin _].
  apply Nat.eqb_eq in Hext. unfold covered_n, covered_at. rewrite Hext. simpl (0 + _).
  apply eq_true_iff_eq. rewrite existsb_exists, andb_true_iff. split.
  - intros [i [Hi Hc]]. apply in_seq in Hi. apply andb_true_iff in Hc. destruct Hc as [Hle Hc]. apply Nat.leb_le in Hle.
    assert (Hy := covered_lt _ _ _ Hin Hc).
    assert (Hq : x = sz * i + (x - i * sz)) by lia.
    assert (Hm : Nat.modulo x sz = x - i * sz).
    { symmetry. apply (Nat.mod_unique x sz i (x - i * sz)); lia. }
    rewrite Hm. split; [|assumption]. apply Nat.ltb_lt. nia.
  - intros [Hlt Hc]. apply Nat.ltb_lt in Hlt. exists (Nat.div x sz). split.
    + apply in_seq. split; [lia|]. simpl. apply Nat.div_lt_upper_bound; lia.
    + assert (Hdm := Nat.div_mod x sz ltac:(lia)).
      apply andb_true_iff. split; [apply Nat.leb_le; nia|].
      replace (x - Nat.div x sz * sz) with (Nat.modulo x sz) by nia. assumption.
Qed.

(* MAIN: for every type map satisfying the measured well-formedness predicate, count and memories, sending count elements of src
   onto dst changes exactly the bytes of the mapped ranges of the first count elements (stride = sizeof) *)
Lemma P_dt_content : forall tm sz count (src dst : list N), c07_tm_wfb tm sz = true -> 0 < sz ->
  c07_transfer tm count src dst = c07_spec_transfer (c07_tm_entries tm) sz count src dst.
Proof.
  intros tm sz count src dst Hwf Hsz. unfold c07_transfer, c07_spec_transfer.
  apply map_ext. intros x. rewrite P_dt_content_mem, (covered_n_wf tm sz count x Hwf Hsz). reflexivity.
Qed.

(* which bytes the Dune traits map (as functions of the layout) *)
Lemma P_traits_entries : forall szg alg dg dl da szpli szip n szk alk dfv nb dbu s1 a1 s2 a2 d1 d2 szp,
  c07_tm_entries (c07_traits_indexpair (c07_dt_basic szg alg) dg dl (c07_traits_plocalindex da szpli) szip) = [(dg, szg); (dl + da, 1)] /\
  c07_tm_extent (c07_traits_indexpair (c07_dt_basic szg alg) dg dl (c07_traits_plocalindex da szpli) szip) = szip /\
  c07_tm_entries (c07_traits_plocalindex da szpli) = [(da, 1)] /\
  c07_tm_extent (c07_traits_plocalindex da szpli) = szpli /\
  c07_tm_entries (c07_traits_pair (c07_dt_basic s1 a1) (c07_dt_basic s2 a2) d1 d2 szp) = [(d1, s1); (d2, s2)] /\
  c07_tm_extent (c07_traits_pair (c07_dt_basic s1 a1) (c07_dt_basic s2 a2) d1 d2 szp) = szp /\
  c07_tm_entries (c07_traits_fieldvector n (c07_dt_basic szk alk) dfv) = map (fun i => (dfv + i * szk, szk)) (seq 0 n) /\
  c07_tm_entries (c07_traits_bigunsignedint nb dbu) = map (fun i => (dbu + i * 2, 2)) (seq 0 nb).
Proof.
  intros. unfold c07_traits_indexpair, c07_traits_plocalindex, c07_traits_pair, c07_traits_fieldvector, c07_traits_bigunsignedint,
    c07_dt_resized, c07_dt_struct, c07_dt_contiguous, c07_dt_basic, c07_shift_entries. simpl.
  rewrite ?Nat.add_0_r, ?app_nil_r. repeat split.
  - rewrite flat_map_concat_map, map_map. simpl.
    induction (seq 0 n); simpl; [reflexivity|]. rewrite Nat.add_0_r. f_equal. exact IHl.
  - rewrite flat_map_concat_map, map_map. simpl.
    induction (seq 0 nb); simpl; [reflexivity|]. rewrite Nat.add_0_r. f_equal. exact IHl.
Qed.

(* ------------------------------------------------------------------ extent of the Dune traits = sizeof *)
Lemma roundup_multiple : forall x a, 0 < a -> Nat.modulo x a = 0 -> c07_roundup x a = x.
Proof.
  intros x a Ha Hm. unfold c07_roundup. destruct (Nat.eqb_spec a 0); [lia|].
  apply Nat.mod_divides in Hm; [|lia]. destruct Hm as [q Hq]. subst x.
  replace (a * q + a - 1) with (q * a + (a - 1)) by lia.
  rewrite Nat.div_add_l by lia. rewrite Nat.div_small by lia. lia.
Qed.

(* the traits that end with MPI_Type_create_resized(tmp, 0, sizeof(T)) have extent sizeof(T) for EVERY member type map (members mapped
   as raw bytes, nested pairs, ...) and every layout; FieldVector / bigunsignedint (struct, not resized) have it when the strictest
   basic alignment divides displacement + n * extent(K), which is what the measured predicate c07_tm_wfb checks *)
Lemma P_traits_extent : forall (t1 t2 tG tPLI : c07_tmap) d1 d2 szp da szpli dg dl szip,
  c07_tm_extent (c07_traits_pair t1 t2 d1 d2 szp) = szp /\
  c07_tm_extent (c07_traits_plocalindex da szpli) = szpli /\
  c07_tm_extent (c07_traits_indexpair tG dg dl tPLI szip) = szip.
Proof. intros; repeat split. Qed.

Lemma P_traits_extent_fv : forall n szk alk dfv nb dbu,
  (Nat.modulo (dfv + n * szk) (Nat.max 1 alk) = 0 ->
     c07_tm_extent (c07_traits_fieldvector n (c07_dt_basic szk alk) dfv) = dfv + n * szk) /\
  (Nat.modulo (dbu + nb * 2) 2 = 0 -> c07_tm_extent (c07_traits_bigunsignedint nb dbu) = dbu + nb * 2).
Proof.
  intros. unfold c07_traits_fieldvector, c07_traits_bigunsignedint, c07_dt_struct, c07_dt_contiguous, c07_dt_basic.
  cbn [c07_tm_extent c07_tm_align fold_left snd fst]. rewrite !Nat.mul_1_l, !Nat.max_0_l.
  split; intros H; apply roundup_multiple; try lia; assumption.
Qed.

Lemma P_wfb_extent : forall tm sz, c07_tm_wfb tm sz = true -> c07_tm_extent tm = sz.
Proof. intros tm sz H. unfold c07_tm_wfb in H. apply andb_true_iff in H. destruct H as [_ H]. now apply Nat.eqb_eq. Qed.

(* why the resize step is needed: the struct of pair<long long,int> alone (long long shipped as 8 raw bytes: alignment 1) has extent 12,
   not sizeof = 16; the predicate rejects it and a two-element transfer puts the second element at the wrong place *)
Lemma P_pair_unresized_refuted :
  let t := c07_dt_struct [(1, 0, c07_traits_generic 8); (1, 8, c07_dt_basic 4 4)] in
  c07_tm_extent t = 12 /\ c07_tm_wfb t 16 = false /\
  c07_tm_wfb (c07_traits_pair (c07_traits_generic 8) (c07_dt_basic 4 4) 0 8 16) 16 = true /\
  exists src dst, c07_transfer t 2 src dst <> c07_spec_transfer (c07_tm_entries t) 16 2 src dst.
Proof.
  repeat split; try (vm_compute; reflexivity).
  exists (map N.of_nat (seq 1 32)), (repeat 165%N 32). vm_compute. discriminate.
Qed.
