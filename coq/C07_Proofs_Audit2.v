(* C07 — second dimension audit: arguments significant at the root only, receive targets that already hold other state. *)
From Coq Require Import List NArith ZArith Bool Arith Lia.
From DuneV Require Import Params_gen C07_Model C07_Spec C07_Proofs C07_Proofs_Coll.
Import ListNotations.

Lemma P_v_root_args_only : forall (E : Type) (merge : E -> E -> E) root ins outs (args args' : list (list nat * list nat)),
  nth_error args root = nth_error args' root ->
  c07_mpi_gatherv_ranks E merge root ins args outs = c07_mpi_gatherv_ranks E merge root ins args' outs /\
  c07_mpi_scatterv_ranks E merge root ins args outs = c07_mpi_scatterv_ranks E merge root ins args' outs.
Proof. intros E merge root ins outs args args' H. unfold c07_mpi_gatherv_ranks, c07_mpi_scatterv_ranks. rewrite H. split; reflexivity. Qed.

Lemma P_v_ranks_root : forall (E : Type) (merge : E -> E -> E) root ins outs (args : list (list nat * list nat)) lens displs,
  nth_error args root = Some (lens, displs) ->
  c07_mpi_gatherv_ranks E merge root ins args outs = c07_mpi_gatherv E merge root ins lens displs outs /\
  c07_mpi_scatterv_ranks E merge root ins args outs = c07_mpi_scatterv E merge root ins lens displs outs.
Proof. intros E merge root ins outs args lens displs H. unfold c07_mpi_gatherv_ranks, c07_mpi_scatterv_ranks. rewrite H. split; reflexivity. Qed.

Lemma nth_error_nth_eq : forall (A : Type) (l l' : list A) n d, nth_error l n = nth_error l' n -> nth n l d = nth n l' d.
Proof.
  intros A l. induction l as [|x l IH]; intros l' n d H.
  - destruct n; destruct l' as [|y l']; simpl in *; try reflexivity; try discriminate.
    symmetry. apply nth_overflow. apply nth_error_None. symmetry. exact H.
  - destruct n; destruct l' as [|y l']; simpl in *; try discriminate.
    + congruence.
    + apply nth_overflow. apply nth_error_None. exact H.
    + apply IH. exact H.
Qed.

(* iscatter: the send object matters at the root only *)
Lemma P_iscatter_root_in_only : forall (E : Type) (merge : E -> E -> E) root (ins ins' outs : list (list E)),
  nth_error ins root = nth_error ins' root ->
  c07_mpi_iscatter E merge root ins outs = c07_mpi_iscatter E merge root ins' outs.
Proof.
  intros E merge root ins ins' outs H. unfold c07_mpi_iscatter, c07_MPI_scatterv.
  rewrite (nth_error_nth_eq _ ins ins' root [] H). rewrite H. reflexivity.
Qed.

(* igather: the receive object matters at the root only, the other ranks' receive objects come back untouched *)
Lemma P_igather_root_out_only : forall (E : Type) (merge : E -> E -> E) root (ins outs outs' : list (list E)),
  nth_error outs root = nth_error outs' root -> root < length outs -> root < length outs' ->
  match c07_mpi_igather E merge root ins outs, c07_mpi_igather E merge root ins outs' with
  | Some r, Some r' => nth_error r root = nth_error r' root /\ (forall j, j <> root -> nth_error r j = nth_error outs j)
  | None, None => True
  | _, _ => False
  end.
Proof.
  intros E merge root ins outs outs' H Hl Hl'. unfold c07_mpi_igather, c07_MPI_gatherv. rewrite <- H.
  destruct (nth_error outs root) as [o|]; [|exact I].
  destruct (c07_MPI_gatherv_loop E merge 0 ins (map (@length E) ins) (c07_iota_mul (length ins) (length (nth root ins []))) o) as [o'|]; [|exact I].
  split.
  - rewrite !nth_error_set_nth by assumption. rewrite Nat.eqb_refl. reflexivity.
  - intros j Hj. rewrite nth_error_set_nth by assumption. destruct (Nat.eqb_spec j root); [contradiction|reflexivity].
Qed.

(* rrecv of a pack into a pack that already holds ANY bytes and ANY cursor: the buffer is exactly the message; the cursor is not touched *)
Lemma P_pack_rrecv_into_used : forall (B : Type) (zeroB : B) (wire : list B) (p0 : c07_pack B),
  c07_pack_rrecv B zeroB wire p0 = Some (C07_PK B wire (c07_pk_pos B p0)).
Proof.
  intros B zeroB wire p0. unfold c07_pack_rrecv. change (fun (s _ : B) => s) with (idm B).
  rewrite P_rrecv_end_to_end by lia. reflexivity.
Qed.

Lemma P_pack_move_assign : forall (B : Type) (dst src : c07_pack B), c07_pk_move_assign B dst src = src.
Proof. intros B dst [b p]. reflexivity. Qed.
