(* C07 — the collective wrappers of Communication<MPI_Comm> over the trusted c07_MPI_* semantics deliver the routing spec c07_spec_apply
   (C07_collectives_are_spec), the end-to-end allreduce<F> theorem over arbitrary reduction trees, and the send/rrecv pair. *)
From Coq Require Import List NArith ZArith Bool Arith Lia Permutation.
From DuneV Require Import C07_Model C07_Spec C07_Proofs.
Import ListNotations.

(* ------------------------------------------------------------------ indexed map *)
Definition imap_from {A : Type} (a : nat) (g : nat -> A -> A) (l : list A) : list A :=
  map (fun jx => g (fst jx) (snd jx)) (combine (seq a (length l)) l).
Definition imap {A : Type} (g : nat -> A -> A) (l : list A) : list A := imap_from 0 g l.

Lemma list_ext : forall (A : Type) (a b : list A), (forall j, nth_error a j = nth_error b j) -> a = b.
Proof.
  induction a; destruct b; intros H; try reflexivity.
  - specialize (H 0); discriminate. - specialize (H 0); discriminate.
  - assert (H0 := H 0). simpl in H0. inversion H0; subst. f_equal. apply IHa. intros j. apply (H (S j)).
Qed.

Lemma nth_error_imap_from : forall (A : Type) (g : nat -> A -> A) l a j,
  nth_error (imap_from a g l) j = option_map (g (a + j)) (nth_error l j).
Proof.
  induction l; intros a0 j; unfold imap_from in *; simpl.
  - destruct j; reflexivity.
  - destruct j; simpl; [now rewrite Nat.add_0_r|]. rewrite IHl. now rewrite Nat.add_succ_r.
Qed.
Lemma nth_error_imap : forall (A : Type) (g : nat -> A -> A) l j, nth_error (imap g l) j = option_map (g j) (nth_error l j).
Proof. intros; unfold imap. now rewrite nth_error_imap_from. Qed.
Lemma imap_length : forall (A : Type) (g : nat -> A -> A) l, length (imap g l) = length l.
Proof. intros; unfold imap, imap_from. rewrite map_length, combine_length, seq_length. lia. Qed.
Lemma imap_ext_in : forall (A : Type) (g h : nat -> A -> A) l,
  (forall j x, nth_error l j = Some x -> g j x = h j x) -> imap g l = imap h l.
Proof. intros. apply list_ext. intros j. rewrite !nth_error_imap. destruct (nth_error l j) eqn:Hn; simpl; [|reflexivity]. f_equal. now apply H. Qed.
Lemma imap_imap : forall (A : Type) (g h : nat -> A -> A) l, imap g (imap h l) = imap (fun j x => g j (h j x)) l.
Proof. intros. apply list_ext. intros j. rewrite !nth_error_imap. now destruct (nth_error l j). Qed.
Lemma imap_id : forall (A : Type) (g : nat -> A -> A) l, (forall j x, nth_error l j = Some x -> g j x = x) -> imap g l = l.
Proof. intros. apply list_ext. intros j. rewrite nth_error_imap. destruct (nth_error l j) eqn:Hn; simpl; [|reflexivity]. f_equal. now apply H. Qed.
Lemma imap_cons : forall (A : Type) (g : nat -> A -> A) x l, imap g (x :: l) = g 0 x :: imap (fun j => g (S j)) l.
Proof.
  intros. apply list_ext. intros [|j]; [reflexivity|].
  rewrite nth_error_imap. cbn [nth_error]. now rewrite nth_error_imap.
Qed.
Lemma imap_map : forall (A : Type) (g : A -> A) l, imap (fun _ => g) l = map g l.
Proof. intros. apply list_ext. intros j. rewrite nth_error_imap. now rewrite nth_error_map. Qed.

Lemma nth_error_firstn' : forall (A : Type) (l : list A) n j, j < n -> nth_error (firstn n l) j = nth_error l j.
Proof. induction l; intros; destruct n, j; simpl; try reflexivity; try lia. apply IHl; lia. Qed.
Lemma nth_error_skipn' : forall (A : Type) (l : list A) n j, nth_error (skipn n l) j = nth_error l (n + j).
Proof. induction l; intros; destruct n; simpl; try reflexivity. - now destruct j. - apply IHl. Qed.
Lemma nth_error_map2 : forall (A : Type) (g : A -> A -> A) a b j,
  nth_error (c07_map2 g a b) j = match nth_error a j, nth_error b j with Some x, Some y => Some (g x y) | _, _ => None end.
Proof.
  induction a; destruct b; intros; simpl; try (destruct j; reflexivity).
  - destruct j; simpl; [reflexivity|]. now destruct (nth_error a0 j).
  - destruct j; simpl; [reflexivity|]. apply IHa.
Qed.

Section Coll.
  Variable E : Type.
  Variable merge : E -> E -> E.

  (* receiving onto position pos: element-wise description *)
  Definition recv_at (data : list E) (pos : nat) (j : nat) (x : E) : E :=
    if (pos <=? j) && (j <? pos + length data)
    then match nth_error data (j - pos) with Some v => merge v x | None => x end else x.

  Lemma put_imap : forall data dst pos, pos + length data <= length dst ->
    c07_put merge data dst pos = Some (imap (recv_at data pos) dst).
  Proof.
    intros data dst pos H. unfold c07_put. destruct (Nat.leb_spec (pos + length data) (length dst)); [|lia].
    f_equal. apply list_ext. intros j. rewrite nth_error_imap. unfold recv_at.
    destruct (Nat.leb_spec pos j); simpl.
    - rewrite nth_error_app2 by (rewrite firstn_length; lia). rewrite firstn_length, Nat.min_l by lia.
      destruct (Nat.ltb_spec j (pos + length data)).
      + rewrite nth_error_app1 by (rewrite map2_length, firstn_length, skipn_length; lia).
        rewrite nth_error_map2, nth_error_firstn', nth_error_skipn' by lia.
        replace (pos + (j - pos)) with j by lia.
        destruct (nth_error data (j - pos)) eqn:Hd; [|apply nth_error_None in Hd; lia].
        destruct (nth_error dst j) eqn:Hx; [reflexivity|apply nth_error_None in Hx; lia].
      + rewrite nth_error_app2 by (rewrite map2_length, firstn_length, skipn_length; lia).
        rewrite map2_length, firstn_length, skipn_length, nth_error_skipn'.
        replace (pos + length data + (j - pos - Nat.min (length data) (Nat.min (length data) (length dst - pos)))) with j by lia.
        now destruct (nth_error dst j).
    - rewrite nth_error_app1 by (rewrite firstn_length; lia). rewrite nth_error_firstn' by lia. now destruct (nth_error dst j).
  Qed.

  (* the spec as indexed maps *)
  Definition route_elem (rt : nat -> option (nat * nat)) (ins : list (list E)) (j : nat) (x : E) : E :=
    match rt j with
    | None => x
    | Some (s, k) => match nth_error (nth s ins []) k with Some v => merge v x | None => x end
    end.
  Lemma spec_apply_imap : forall rt ins outs,
    c07_spec_apply E merge rt ins outs = imap (fun r o => imap (route_elem (rt r) ins) o) outs.
  Proof. reflexivity. Qed.

  Lemma spec_apply_ext : forall rt1 rt2 ins outs,
    (forall r j, r < length outs -> rt1 r j = rt2 r j) -> c07_spec_apply E merge rt1 ins outs = c07_spec_apply E merge rt2 ins outs.
  Proof.
    intros. rewrite !spec_apply_imap. apply imap_ext_in. intros r o Hr.
    assert (r < length outs) by (apply nth_error_Some; congruence).
    apply imap_ext_in. intros j x _. unfold route_elem. now rewrite H.
  Qed.

  (* spec_find started at rank r = spec_find started at 0, shifted *)
  Lemma spec_find_shift : forall lens displs r j,
    c07_spec_find r lens displs j = match c07_spec_find 0 lens displs j with Some (s, k) => Some (r + s, k) | None => None end.
  Proof.
    induction lens; intros; destruct displs; simpl; try reflexivity.
    destruct ((n <=? j) && (j <? n + a)); [now rewrite Nat.add_0_r|].
    rewrite (IHlens displs (S r)), (IHlens displs 1). destruct (c07_spec_find 0 lens displs j) as [[s k]|]; [|reflexivity].
    f_equal. f_equal. lia.
  Qed.

  (* the receive blocks [displ_i, displ_i + len_i) do not overlap (MPI requires it of gatherv / allgatherv) and lie inside a buffer of n elements *)
  Fixpoint blocks_ok (n : nat) (lens displs : list nat) : Prop :=
    match lens, displs with
    | l :: lens', d :: displs' =>
        d + l <= n /\ (forall j, d <= j < d + l -> c07_spec_find 0 lens' displs' j = None) /\ blocks_ok n lens' displs'
    | [], [] => True
    | _, _ => False
    end.
  (* every rank sends at least the announced number of elements *)
  Fixpoint sends_ok (ins : list (list E)) (lens : list nat) : Prop :=
    match ins, lens with
    | i :: ins', l :: lens' => l <= length i /\ sends_ok ins' lens'
    | [], [] => True
    | _, _ => False
    end.

  Definition gatherv_elem (ins : list (list E)) (lens displs : list nat) (j : nat) (x : E) : E :=
    route_elem (c07_spec_find 0 lens displs) ins j x.

  Lemma gatherv_loop_spec : forall ins lens displs r out,
    sends_ok ins lens -> blocks_ok (length out) lens displs ->
    c07_MPI_gatherv_loop E merge r ins lens displs out = Some (imap (gatherv_elem ins lens displs) out).
  Proof.
    induction ins as [|i ins IH]; intros lens displs r out Hs Hb.
    - destruct lens; [|contradiction]. destruct displs; [|contradiction]. simpl.
      f_equal. symmetry. apply imap_id. intros. unfold gatherv_elem, route_elem. reflexivity.
    - destruct lens as [|l lens]; [contradiction|]. destruct displs as [|d displs]; [contradiction|].
      destruct Hs as [Hl Hs]. destruct Hb as (Hd & Hdis & Hb).
      cbn [c07_MPI_gatherv_loop]. unfold c07_take. cbn [Nat.add]. destruct (Nat.leb_spec l (length i)); [|lia].
      cbn [skipn]. rewrite put_imap by (rewrite firstn_length; lia).
      rewrite IH; [|assumption|now rewrite imap_length].
      f_equal. rewrite imap_imap. apply imap_ext_in. intros j x Hj.
      unfold gatherv_elem, route_elem, recv_at. cbn [c07_spec_find]. rewrite firstn_length, Nat.min_l by lia.
      destruct ((d <=? j) && (j <? d + l)) eqn:Hin.
      + apply andb_true_iff in Hin. destruct Hin as [H1 H2]. apply Nat.leb_le in H1. apply Nat.ltb_lt in H2.
        rewrite (Hdis j) by lia. cbn [nth]. rewrite nth_error_firstn' by lia. reflexivity.
      + rewrite (spec_find_shift lens displs 1). destruct (c07_spec_find 0 lens displs j) as [[s k]|]; reflexivity.
  Qed.

  (* ---- MPI_Gatherv / MPI_Allgatherv ---- *)
  Lemma nth_error_set_nth : forall (l : list (list E)) root v j, root < length l ->
    nth_error (c07_set_nth l root v) j = if j =? root then Some v else nth_error l j.
  Proof.
    intros l root v j H. unfold c07_set_nth.
    assert (Hf : length (firstn root l) = root) by (rewrite firstn_length; lia).
    destruct (Nat.eqb_spec j root).
    - subst. rewrite nth_error_app2 by lia. rewrite Hf, Nat.sub_diag. reflexivity.
    - destruct (Nat.lt_ge_cases j root).
      + rewrite nth_error_app1 by lia. now apply nth_error_firstn'.
      + rewrite nth_error_app2 by lia. rewrite Hf. destruct (j - root) eqn:Hd; [lia|]. cbn [nth_error].
        rewrite nth_error_skipn'. f_equal. lia.
  Qed.

  Lemma MPI_gatherv_spec : forall root ins lens displs outs,
    root < length outs -> sends_ok ins lens -> blocks_ok (length (nth root outs [])) lens displs ->
    c07_MPI_gatherv E merge root ins lens displs outs = Some (c07_spec_apply E merge (c07_rt_gatherv root lens displs) ins outs).
  Proof.
    intros root ins lens displs outs Hr Hs Hb. unfold c07_MPI_gatherv.
    destruct (nth_error outs root) as [o|] eqn:Ho; [|apply nth_error_None in Ho; lia].
    assert (Hn : nth root outs [] = o) by (now apply nth_error_nth).
    rewrite Hn in Hb. rewrite gatherv_loop_spec by assumption. f_equal.
    rewrite spec_apply_imap. apply list_ext. intros r. rewrite nth_error_set_nth, nth_error_imap by assumption.
    unfold c07_rt_gatherv. destruct (Nat.eqb_spec r root).
    - subst. rewrite Ho. reflexivity.
    - destruct (nth_error outs r) eqn:Hx; [|reflexivity]. simpl. f_equal. symmetry. apply imap_id. reflexivity.
  Qed.

  Lemma MPI_allgatherv_spec : forall ins lens displs outs,
    sends_ok ins lens -> Forall (fun o => blocks_ok (length o) lens displs) outs ->
    c07_MPI_allgatherv E merge ins lens displs outs = Some (c07_spec_apply E merge (c07_rt_allgatherv lens displs) ins outs).
  Proof.
    intros ins lens displs outs Hs Hb. rewrite spec_apply_imap. unfold c07_rt_allgatherv.
    change (imap (fun (_ : nat) (o : list E) => imap (route_elem (c07_spec_find 0 lens displs) ins) o) outs)
      with (imap (fun _ => imap (gatherv_elem ins lens displs)) outs).
    rewrite imap_map. unfold c07_MPI_allgatherv.
    induction Hb as [|o outs Ho Hb IH]; [reflexivity|]. cbn [c07_MPI_allgatherv_loop map].
    rewrite gatherv_loop_spec by assumption. now rewrite IH.
  Qed.

  (* ---- MPI_Scatterv ---- *)
  Fixpoint scatter_ok (nsend : nat) (lens displs : list nat) (outs : list (list E)) : Prop :=
    match lens, displs, outs with
    | l :: lens', d :: displs', o :: outs' => d + l <= nsend /\ l <= length o /\ scatter_ok nsend lens' displs' outs'
    | [], [], [] => True
    | _, _, _ => False
    end.
  Definition scatterv_elem (send : list E) (lens displs : list nat) (r j : nat) (x : E) : E :=
    if j <? nth r lens 0 then match nth_error send (nth r displs 0 + j) with Some v => merge v x | None => x end else x.

  Lemma scatterv_loop_spec : forall send outs lens displs, scatter_ok (length send) lens displs outs ->
    c07_MPI_scatterv_loop E merge send lens displs outs = Some (imap (fun r o => imap (scatterv_elem send lens displs r) o) outs).
  Proof.
    induction outs as [|o outs IH]; intros lens displs H.
    - destruct lens; destruct displs; simpl in H; try contradiction; reflexivity.
    - destruct lens as [|l lens]; destruct displs as [|d displs]; simpl in H; try contradiction.
      destruct H as (Hd & Hl & H). cbn [c07_MPI_scatterv_loop]. unfold c07_take.
      destruct (Nat.leb_spec (d + l) (length send)); [|lia].
      assert (Hlen : length (firstn l (skipn d send)) = l) by (rewrite firstn_length, skipn_length; lia).
      rewrite put_imap by (rewrite Hlen; lia). rewrite IH by assumption. f_equal. rewrite imap_cons. f_equal.
      apply imap_ext_in. intros j x _. unfold recv_at, scatterv_elem. rewrite Hlen. cbn [nth Nat.add].
      replace (0 <=? j) with true by (symmetry; apply Nat.leb_le; lia). cbn [andb]. rewrite Nat.sub_0_r.
      destruct (Nat.ltb_spec j l); [|reflexivity]. rewrite nth_error_firstn', nth_error_skipn' by lia. reflexivity.
  Qed.

  Lemma MPI_scatterv_spec : forall root ins lens displs outs,
    root < length ins -> scatter_ok (length (nth root ins [])) lens displs outs ->
    c07_MPI_scatterv E merge root ins lens displs outs = Some (c07_spec_apply E merge (c07_rt_scatterv root lens displs) ins outs).
  Proof.
    intros root ins lens displs outs Hr H. unfold c07_MPI_scatterv.
    destruct (nth_error ins root) as [send|] eqn:Hs; [|apply nth_error_None in Hs; lia].
    assert (Hn : nth root ins [] = send) by (now apply nth_error_nth). rewrite Hn in H.
    rewrite scatterv_loop_spec by assumption. f_equal. rewrite spec_apply_imap.
    apply imap_ext_in. intros r o _. apply imap_ext_in. intros j x _.
    unfold scatterv_elem, route_elem, c07_rt_scatterv. destruct (j <? nth r lens 0); [|reflexivity]. now rewrite Hn.
  Qed.

  (* ---- MPI_Bcast ---- *)
  Lemma bcast_go_spec : forall root data bs r, Forall (fun b => length data <= length b) bs ->
    c07_bcast_go E merge root data r bs = Some (imap_from r (fun r' b => if r' =? root then b else imap (recv_at data 0) b) bs).
  Proof.
    induction bs as [|b bs IH]; intros r H; [reflexivity|].
    inversion H as [|? ? Hb Hbs]; subst. cbn [c07_bcast_go]. rewrite IH by assumption.
    unfold imap_from at 2. cbn [length seq combine map fst snd]. fold (imap_from (S r) (fun r' b => if r' =? root then b else imap (recv_at data 0) b) bs).
    destruct (r =? root); [reflexivity|]. rewrite put_imap by (simpl; lia). reflexivity.
  Qed.

  Lemma MPI_bcast_spec : forall root len inouts,
    root < length inouts -> Forall (fun b => len <= length b) inouts ->
    c07_MPI_bcast E merge root len inouts = Some (c07_spec_apply E merge (c07_rt_bcast root len) inouts inouts).
  Proof.
    intros root len inouts Hr H. unfold c07_MPI_bcast.
    destruct (nth_error inouts root) as [rb|] eqn:Hs; [|apply nth_error_None in Hs; lia].
    assert (Hn : nth root inouts [] = rb) by (now apply nth_error_nth).
    assert (Hrb : len <= length rb) by (rewrite Forall_forall in H; apply H; eapply nth_error_In; eassumption).
    unfold c07_take. cbn [Nat.add skipn]. destruct (Nat.leb_spec len (length rb)); [|lia].
    assert (Hlen : length (firstn len rb) = len) by (rewrite firstn_length; lia).
    rewrite bcast_go_spec by (rewrite Hlen; exact H). f_equal. rewrite spec_apply_imap. unfold imap.
    apply list_ext. intros r. rewrite !nth_error_imap_from. cbn [Nat.add].
    destruct (nth_error inouts r) as [b|]; [|reflexivity]. simpl. f_equal.
    unfold c07_rt_bcast. destruct (r =? root); cbn [negb andb].
    - symmetry. apply imap_id. reflexivity.
    - apply imap_ext_in. intros j x _. unfold recv_at, route_elem. rewrite Hlen. cbn [Nat.add].
      replace (0 <=? j) with true by (symmetry; apply Nat.leb_le; lia). cbn [andb]. rewrite Nat.sub_0_r.
      destruct (Nat.ltb_spec j len); [|reflexivity]. rewrite Hn. now rewrite nth_error_firstn' by lia.
  Qed.

  (* ---- MPI_Allreduce ---- *)
  Lemma take_all_spec : forall len ins, Forall (fun b => len <= length b) ins ->
    c07_take_all E len ins = Some (map (firstn len) ins).
  Proof.
    induction 1 as [|b ins Hb H IH]; [reflexivity|]. cbn [c07_take_all map]. unfold c07_take. cbn [Nat.add skipn].
    destruct (Nat.leb_spec len (length b)); [|lia]. now rewrite IH.
  Qed.

  Lemma put_each_repeat : forall res outs, Forall (fun o => length res <= length o) outs ->
    c07_put_each E merge (repeat res (length outs)) outs = Some (map (imap (recv_at res 0)) outs).
  Proof.
    induction 1 as [|o outs Ho H IH]; [reflexivity|]. cbn [length repeat c07_put_each map].
    rewrite put_imap by (simpl; lia). now rewrite IH.
  Qed.

  Definition fold_step (f : E -> E -> E) (j : nat) (acc : option E) (v : list E) : option E :=
    match acc, nth_error v j with Some a, Some b => Some (f a b) | _, _ => None end.

  Lemma reduce_nth_error : forall f rest x j, Forall (fun v => length v = length x) rest ->
    nth_error (fold_left (c07_tramp f) rest x) j = fold_left (fold_step f j) rest (nth_error x j) /\
    length (fold_left (c07_tramp f) rest x) = length x.
  Proof.
    induction rest as [|y rest IH]; intros x j H; [split; reflexivity|].
    inversion H as [|? ? Hy Hr]; subst. cbn [fold_left].
    assert (Hl : length (c07_tramp f x y) = length x) by (unfold c07_tramp; rewrite map2_length; lia).
    destruct (IH (c07_tramp f x y) j) as [H1 H2]; [rewrite Hl; exact Hr|].
    rewrite H1, H2, Hl. split; [|reflexivity]. f_equal. unfold c07_tramp, fold_step. rewrite nth_error_map2.
    destruct (nth_error x j); reflexivity.
  Qed.

  Lemma fold_step_firstn : forall f len j rest acc, j < len ->
    fold_left (fold_step f j) (map (firstn len) rest) acc = fold_left (fold_step f j) rest acc.
  Proof.
    induction rest as [|y rest IH]; intros acc Hj; [reflexivity|]. cbn [map fold_left]. rewrite IH by assumption.
    f_equal. unfold fold_step. now rewrite nth_error_firstn' by assumption.
  Qed.

  (* component j of the rank-order reduction of the first len elements = the spec's fold of the j-th contributions *)
  Lemma reduce_ranks_spec_fold : forall f len ins j, ins <> [] -> Forall (fun b => len <= length b) ins -> j < len ->
    nth_error (c07_reduce_ranks f (map (firstn len) ins)) j = c07_spec_fold E f ins j /\
    length (c07_reduce_ranks f (map (firstn len) ins)) = len.
  Proof.
    intros f len ins j Hne H Hj. destruct ins as [|x rest]; [contradiction|]. inversion H as [|? ? Hx Hr]; subst.
    cbn [map c07_reduce_ranks].
    assert (Hlx : length (firstn len x) = len) by (rewrite firstn_length; lia).
    destruct (reduce_nth_error f (map (firstn len) rest) (firstn len x) j) as [H1 H2].
    { rewrite Forall_forall. intros v Hv. apply in_map_iff in Hv. destruct Hv as [w [Hw Hin]]. subst v.
      rewrite Hlx, firstn_length. rewrite Forall_forall in Hr. specialize (Hr w Hin). lia. }
    rewrite H1, H2, Hlx. split; [|reflexivity].
    rewrite fold_step_firstn, nth_error_firstn' by assumption. unfold c07_spec_fold.
    destruct (nth_error x j) eqn:Hxj; [reflexivity|]. apply nth_error_None in Hxj. lia.
  Qed.

  Lemma spec_allreduce_imap : forall f len ins outs,
    c07_spec_allreduce E merge f len ins outs
    = map (imap (fun j x => if j <? len then match c07_spec_fold E f ins j with Some v => merge v x | None => x end else x)) outs.
  Proof. reflexivity. Qed.

  Lemma recv_reduce_elem : forall f len ins, ins <> [] -> Forall (fun b => len <= length b) ins -> forall j x,
    recv_at (c07_reduce_ranks f (map (firstn len) ins)) 0 j x
    = (if j <? len then match c07_spec_fold E f ins j with Some v => merge v x | None => x end else x).
  Proof.
    intros f len ins Hne H j x. unfold recv_at. cbn [Nat.add].
    replace (0 <=? j) with true by (symmetry; apply Nat.leb_le; lia). cbn [andb]. rewrite Nat.sub_0_r.
    destruct (Nat.ltb_spec j len) as [Hj|Hj].
    - destruct (reduce_ranks_spec_fold f len ins j Hne H Hj) as [H1 H2]. rewrite H2, H1.
      destruct (Nat.ltb_spec j len); [reflexivity|lia].
    - destruct ins as [|x0 rest]; [contradiction|].
      assert (Hl : length (c07_reduce_ranks f (map (firstn len) (x0 :: rest))) = len).
      { destruct len; [|apply (reduce_ranks_spec_fold f (S len) (x0 :: rest) 0 Hne H); lia].
        cbn [map c07_reduce_ranks]. destruct (reduce_nth_error f (map (firstn 0) rest) (firstn 0 x0) 0) as [_ H2]; [|exact H2].
        rewrite Forall_forall. intros v Hv. apply in_map_iff in Hv. destruct Hv as [w [Hw _]]. now subst. }
      rewrite Hl. destruct (Nat.ltb_spec j len); [lia|reflexivity].
  Qed.

  Lemma MPI_allreduce_spec : forall f len ins outs,
    ins <> [] -> Forall (fun b => len <= length b) ins -> Forall (fun o => len <= length o) outs ->
    c07_MPI_allreduce E merge f len ins outs = Some (c07_spec_allreduce E merge f len ins outs).
  Proof.
    intros f len ins outs Hne Hi Ho. unfold c07_MPI_allreduce. rewrite take_all_spec by assumption.
    assert (Hl : length (c07_reduce_ranks f (map (firstn len) ins)) = len).
    { destruct ins as [|x0 rest]; [contradiction|]. destruct len.
      - cbn [map c07_reduce_ranks]. destruct (reduce_nth_error f (map (firstn 0) rest) (firstn 0 x0) 0) as [_ H2]; [|exact H2].
        rewrite Forall_forall. intros v Hv. apply in_map_iff in Hv. destruct Hv as [w [Hw _]]. now subst.
      - apply (reduce_ranks_spec_fold f (S len) (x0 :: rest) 0 Hne Hi); lia. }
    rewrite put_each_repeat by (rewrite Hl; exact Ho). f_equal. rewrite spec_allreduce_imap.
    apply map_ext. intros o. apply imap_ext_in. intros j x _. now apply recv_reduce_elem.
  Qed.

  (* the library's freedom for an op created with commute = true: rank r combines along its own tree over any arrangement of the ranks *)
  Lemma MPI_allreduce_trees_spec : forall f len trees ins outs,
    (forall a b c, f (f a b) c = f a (f b c)) -> (forall a b, f a b = f b a) ->
    length trees = length outs -> Forall (fun t => Permutation (c07_tree_leaves t) (seq 0 (length ins))) trees ->
    ins <> [] -> Forall (fun b => len <= length b) ins -> Forall (fun o => len <= length o) outs ->
    c07_MPI_allreduce_trees E merge f len trees ins outs = Some (c07_spec_allreduce E merge f len ins outs).
  Proof.
    intros f len trees ins outs Ha Hc Hlen Ht Hne Hi Ho.
    rewrite <- MPI_allreduce_spec by assumption. unfold c07_MPI_allreduce_trees, c07_MPI_allreduce.
    rewrite take_all_spec by assumption. f_equal. rewrite <- Hlen. clear Hlen.
    induction Ht as [|t trees Hp Ht IH]; [reflexivity|]. cbn [map length repeat]. rewrite IH. f_equal.
    apply (P_user_op E f Ha Hc). now rewrite map_length.
  Qed.

  (* ---- regular blocks (gather / scatter / allgather): block i = [i*len, (i+1)*len) ---- *)
  Lemma spec_find_regular : forall len, 0 < len -> forall m a r j,
    c07_spec_find r (repeat len m) (map (fun i => i * len) (seq a m)) j
    = if (a * len <=? j) && (j <? (a + m) * len) then Some (r + (Nat.div j len - a), Nat.modulo j len) else None.
  Proof.
    intros len Hlen. induction m as [|m IH]; intros a r j.
    - cbn [repeat seq map c07_spec_find]. rewrite Nat.add_0_r.
      destruct (Nat.leb_spec (a * len) j), (Nat.ltb_spec j (a * len)); cbn [andb]; try reflexivity; lia.
    - cbn [repeat seq map c07_spec_find]. rewrite IH.
      destruct (Nat.leb_spec (a * len) j) as [H1|H1]; cbn [andb].
      + destruct (Nat.ltb_spec j (a * len + len)) as [H2|H2].
        * assert (Hq : Nat.div j len = a) by (symmetry; apply (Nat.div_unique j len a (j - a * len)); lia).
          assert (Hm : Nat.modulo j len = j - a * len) by (symmetry; apply (Nat.mod_unique j len a (j - a * len)); lia).
          destruct (Nat.ltb_spec j ((a + S m) * len)); [|nia]. rewrite Hq, Hm, Nat.sub_diag, Nat.add_0_r. reflexivity.
        * destruct (Nat.leb_spec (S a * len) j); [|lia]. cbn [andb].
          replace ((S a + m) * len) with ((a + S m) * len) by lia.
          destruct (Nat.ltb_spec j ((a + S m) * len)); [|reflexivity].
          assert (S a <= Nat.div j len) by (apply Nat.div_le_lower_bound; lia).
          f_equal. f_equal. lia.
      + destruct (Nat.leb_spec (S a * len) j); [lia|]. reflexivity.
  Qed.

  Lemma spec_find_empty : forall m displs r j, c07_spec_find r (repeat 0 m) displs j = None.
  Proof.
    induction m; intros; destruct displs; cbn [repeat c07_spec_find]; try reflexivity.
    rewrite Nat.add_0_r. destruct (Nat.leb_spec n j), (Nat.ltb_spec j n); cbn [andb]; try lia; apply IHm.
  Qed.

  Lemma blocks_regular_ok : forall len n m a, (a + m) * len <= n ->
    blocks_ok n (repeat len m) (map (fun i => i * len) (seq a m)).
  Proof.
    intros len n. induction m as [|m IH]; intros a H; [exact I|]. cbn [repeat seq map blocks_ok]. repeat split.
    - lia.
    - intros j Hj. destruct (Nat.eq_dec len 0) as [->|Hl]; [apply spec_find_empty|].
      rewrite spec_find_regular by lia. destruct (Nat.leb_spec (S a * len) j); [lia|]. reflexivity.
    - apply IH. lia.
  Qed.

  Lemma sends_ok_repeat : forall len ins, Forall (fun b => len <= length b) ins -> sends_ok ins (repeat len (length ins)).
  Proof. induction 1; [exact I|]. cbn [length repeat sends_ok]. now split. Qed.

  Lemma scatter_regular_ok : forall len nsend outs a, Forall (fun o => len <= length o) outs -> (a + length outs) * len <= nsend ->
    scatter_ok nsend (repeat len (length outs)) (map (fun i => i * len) (seq a (length outs))) outs.
  Proof.
    intros len nsend. induction outs as [|o outs IH]; intros a H Hn; [exact I|].
    inversion H; subst. cbn [length repeat seq map scatter_ok]. cbn [length] in Hn. repeat split; try lia; try assumption.
    apply IH; [assumption|lia].
  Qed.

  Lemma map_length_repeat : forall l (bs : list (list E)), Forall (fun b => length b = l) bs -> map (@length E) bs = repeat l (length bs).
  Proof. induction 1; [reflexivity|]. cbn [map length repeat]. now f_equal. Qed.

  Lemma rt_gather_regular : forall P root len r j,
    c07_rt_gatherv root (repeat len P) (c07_iota_mul P len) r j = c07_rt_gather P root len r j.
  Proof.
    intros. unfold c07_rt_gatherv, c07_rt_gather, c07_iota_mul. destruct (r =? root); [|reflexivity]. cbn [andb].
    destruct (Nat.eq_dec len 0) as [->|Hl].
    - rewrite spec_find_empty, Nat.mul_0_r. reflexivity.
    - rewrite spec_find_regular by lia. cbn [Nat.mul Nat.add]. rewrite Nat.sub_0_r.
      replace (0 <=? j) with true by (symmetry; apply Nat.leb_le; lia). reflexivity.
  Qed.
  Lemma rt_allgather_regular : forall P len r j,
    c07_rt_allgatherv (repeat len P) (c07_iota_mul P len) r j = c07_rt_allgather P len r j.
  Proof.
    intros. assert (H := rt_gather_regular P r len r j). unfold c07_rt_gatherv, c07_rt_gather in H. rewrite Nat.eqb_refl in H.
    exact H.
  Qed.
  Lemma nth_repeat_lt' : forall (x : nat) P r, r < P -> nth r (repeat x P) 0 = x.
  Proof. induction P; intros; [lia|]. destruct r; [reflexivity|]. cbn [repeat nth]. apply IHP. lia. Qed.
  Lemma rt_scatter_regular : forall P root len r j, r < P ->
    c07_rt_scatterv root (repeat len P) (c07_iota_mul P len) r j = c07_rt_scatter root len r j.
  Proof.
    intros. unfold c07_rt_scatterv, c07_rt_scatter, c07_iota_mul.
    rewrite nth_repeat_lt' by assumption.
    replace (nth r (map (fun i => i * len) (seq 0 P)) 0) with (r * len); [reflexivity|].
    change 0 with ((fun i => i * len) 0) at 2. rewrite map_nth, seq_nth by assumption. reflexivity.
  Qed.

  (* ---- the wrappers of Communication<MPI_Comm> ---- *)
  Lemma P_coll_gather : forall root len ins outs,
    root < length outs -> Forall (fun b => len <= length b) ins -> length ins * len <= length (nth root outs []) ->
    c07_mpi_gather E merge root len ins outs = Some (c07_spec_apply E merge (c07_rt_gather (length ins) root len) ins outs).
  Proof.
    intros. unfold c07_mpi_gather. rewrite MPI_gatherv_spec; [|assumption|now apply sends_ok_repeat|].
    - f_equal. apply spec_apply_ext. intros. apply rt_gather_regular.
    - unfold c07_iota_mul. apply blocks_regular_ok. lia.
  Qed.

  Lemma P_coll_igather : forall root l ins outs,
    root < length outs -> root < length ins -> Forall (fun b => length b = l) ins -> length ins * l <= length (nth root outs []) ->
    c07_mpi_igather E merge root ins outs = Some (c07_spec_apply E merge (c07_rt_gather (length ins) root l) ins outs).
  Proof.
    intros root l ins outs H1 H2 H3 H4. unfold c07_mpi_igather.
    assert (Hr : length (nth root ins []) = l) by (rewrite Forall_forall in H3; apply H3, nth_In; assumption).
    rewrite Hr, (map_length_repeat l) by assumption.
    apply (P_coll_gather root l ins outs); try assumption.
    eapply Forall_impl; [|exact H3]. intros; simpl in *; lia.
  Qed.

  Lemma P_coll_allgather : forall len ins outs,
    Forall (fun b => len <= length b) ins -> Forall (fun o => length ins * len <= length o) outs ->
    c07_mpi_allgather E merge len ins outs = Some (c07_spec_apply E merge (c07_rt_allgather (length ins) len) ins outs).
  Proof.
    intros. unfold c07_mpi_allgather. rewrite MPI_allgatherv_spec; [|now apply sends_ok_repeat|].
    - f_equal. apply spec_apply_ext. intros. apply rt_allgather_regular.
    - eapply Forall_impl; [|eassumption]. intros o Ho. unfold c07_iota_mul. apply blocks_regular_ok. simpl in *. lia.
  Qed.

  Lemma P_coll_iallgather : forall l ins outs,
    ins <> [] -> Forall (fun b => length b = l) ins -> Forall (fun o => length ins * l <= length o) outs ->
    c07_mpi_iallgather E merge ins outs = Some (c07_spec_apply E merge (c07_rt_allgather (length ins) l) ins outs).
  Proof.
    intros l ins outs Hne H3 H4. unfold c07_mpi_iallgather.
    assert (Hr : length (nth 0 ins []) = l).
    { destruct ins; [contradiction|]. inversion H3; subst. reflexivity. }
    rewrite Hr, (map_length_repeat l) by assumption.
    apply (P_coll_allgather l ins outs); [|assumption].
    eapply Forall_impl; [|exact H3]. intros; simpl in *; lia.
  Qed.

  Lemma P_coll_scatter : forall root len ins outs,
    root < length ins -> Forall (fun o => len <= length o) outs -> length outs * len <= length (nth root ins []) ->
    c07_mpi_scatter E merge root len ins outs = Some (c07_spec_apply E merge (c07_rt_scatter root len) ins outs).
  Proof.
    intros. unfold c07_mpi_scatter. rewrite MPI_scatterv_spec; [|assumption|].
    - f_equal. apply spec_apply_ext. intros. now apply rt_scatter_regular.
    - unfold c07_iota_mul. apply scatter_regular_ok; [assumption|lia].
  Qed.

  Lemma P_coll_iscatter : forall root l ins outs,
    root < length ins -> outs <> [] -> Forall (fun o => length o = l) outs -> length (nth root ins []) = length outs * l ->
    c07_mpi_iscatter E merge root ins outs = Some (c07_spec_apply E merge (c07_rt_scatter root l) ins outs).
  Proof.
    intros root l ins outs H1 Hne H3 H4. unfold c07_mpi_iscatter.
    assert (Hp : length outs <> 0) by (destruct outs; [contradiction|discriminate]).
    rewrite H4, (Nat.mul_comm (length outs) l), Nat.div_mul by assumption.
    rewrite (map_length_repeat l) by assumption.
    apply (P_coll_scatter root l ins outs); [assumption| |lia].
    eapply Forall_impl; [|exact H3]. intros; simpl in *; lia.
  Qed.
End Coll.

(* ------------------------------------------------------------------ what commute = true needs *)
(* with associativity ALONE the rank-order fold is obtained only along trees whose leaves are in rank order (what MPI guarantees for an op
   created with commute = false); Generic_MPI_Op creates every op with commute = true, which is justified exactly when F is commutative *)
Lemma P_user_op_ordered : forall (E : Type) (f : E -> E -> E), (forall a b c, f (f a b) c = f a (f b c)) ->
  forall (xs : list (list E)) (t : c07_tree), c07_tree_leaves t = seq 0 (length xs) ->
  c07_tree_eval f xs t = c07_reduce_ranks f xs.
Proof.
  intros E f Ha xs t Hl. assert (H := tree_eval_osum E f Ha xs t). rewrite Hl, map_nth_seq in H.
  destruct xs as [|x r].
  - simpl in Hl. now apply leaves_nonempty in Hl.
  - rewrite osum_fold_left in H by (apply tramp_assoc; exact Ha). simpl. now inversion H.
Qed.

(* an associative, NON-commutative functor (keep the left operand): a tree over the arrangement (1,0) returns rank 1's value, the
   rank-order result is rank 0's *)
Lemma P_user_op_noncommutative_refuted :
  exists (f : Z -> Z -> Z) (xs : list (list Z)) (t : c07_tree),
    (forall a b c, f (f a b) c = f a (f b c)) /\ Permutation (c07_tree_leaves t) (seq 0 (length xs)) /\
    c07_tree_eval f xs t <> c07_reduce_ranks f xs.
Proof.
  exists (fun a _ => a), [[1%Z]; [2%Z]], (C07_Node (C07_Leaf 1) (C07_Leaf 0)).
  split; [reflexivity|]. split; [apply perm_swap|]. vm_compute. discriminate.
Qed.

(* ------------------------------------------------------------------ one matching send / rrecv pair *)
(* std::vector<T> (fully communicated T): what is received is what was sent, including the length, whatever the receiving container held *)
Lemma P_rrecv_end_to_end : forall (E : Type) (d : E) tsize (sent data : list E), 0 < tsize ->
  c07_rrecv E (idm E) d tsize sent data = Some sent.
Proof.
  intros E d tsize sent data H. destruct (P_rrecv_len E (idm E) d tsize sent data H) as [r [Hr [Hl He]]].
  rewrite Hr. f_equal. rewrite He. apply map2_idm. rewrite resize_length. lia.
Qed.

(* MPIPack: items written by the sender, pack sent, received with rrecv into any pack whose cursor is 0 (a fresh MPIPack(comm)),
   read with the same type sequence: equal values and lengths, ending at eof *)
Lemma P_pack_send_rrecv : forall (B V T : Type) (zeroB : B) (enc : T -> V -> list B) (dec : T -> list B -> option (V * list B))
    (enc_len : nat -> list B) (dec_len : list B -> option (nat * list B)) (wt : T -> V -> Prop) (lenok : nat -> Prop),
  (forall t v rest, wt t v -> dec t (enc t v ++ rest) = Some (v, rest)) ->
  (forall n rest, lenok n -> dec_len (enc_len n ++ rest) = Some (n, rest)) ->
  forall items (p0 : c07_pack B), Forall (wt_item V T wt lenok) items -> c07_pk_pos B p0 = 0 ->
    let p := c07_pk_write_all B V T zeroB enc enc_len (c07_pk_empty B) items in
    exists q q', c07_pack_rrecv B zeroB (c07_pack_wire B p) p0 = Some q /\
                 c07_pk_size B q = c07_pk_size B p /\ c07_pk_tell B q = 0 /\
                 c07_pk_read_all B V T dec dec_len q (map fst items) = Some (map snd items, q') /\ c07_pk_eof B q' = true.
Proof.
  intros B V T zeroB enc dec enc_len dec_len wt lenok Hd Hdl items p0 Hwt Hp0 p.
  destruct (P_pack_roundtrip B V T zeroB enc dec enc_len dec_len wt lenok Hd Hdl items Hwt) as (_ & _ & p' & Hr & _ & _ & He).
  fold p in Hr. exists (c07_pk_seek B p 0), p'. unfold c07_pack_rrecv, c07_pack_wire.
  change (fun (s _ : B) => s) with (idm B). rewrite P_rrecv_end_to_end by lia. rewrite Hp0.
  repeat split; try assumption.
Qed.

Lemma P_collectives_are_spec : forall (E : Type) (merge : E -> E -> E),
  (forall f len ins outs, ins <> [] -> Forall (fun b => len <= length b) ins -> Forall (fun o => len <= length o) outs ->
     c07_mpi_allreduce E merge f len ins outs = Some (c07_spec_allreduce E merge f len ins outs)) /\
  (forall f len inouts, inouts <> [] -> Forall (fun b => len <= length b) inouts ->
     c07_mpi_allreduce_inplace E merge f len inouts = Some (c07_spec_allreduce E merge f len inouts inouts)) /\
  (forall root len inouts, root < length inouts -> Forall (fun b => len <= length b) inouts ->
     c07_mpi_bcast E merge root len inouts = Some (c07_spec_apply E merge (c07_rt_bcast root len) inouts inouts)) /\
  (forall root len ins outs, root < length outs -> Forall (fun b => len <= length b) ins -> length ins * len <= length (nth root outs []) ->
     c07_mpi_gather E merge root len ins outs = Some (c07_spec_apply E merge (c07_rt_gather (length ins) root len) ins outs)) /\
  (forall root l ins outs, root < length outs -> root < length ins -> Forall (fun b => length b = l) ins ->
     length ins * l <= length (nth root outs []) ->
     c07_mpi_igather E merge root ins outs = Some (c07_spec_apply E merge (c07_rt_gather (length ins) root l) ins outs)) /\
  (forall root ins lens displs outs, root < length outs -> sends_ok E ins lens -> blocks_ok (length (nth root outs [])) lens displs ->
     c07_mpi_gatherv E merge root ins lens displs outs = Some (c07_spec_apply E merge (c07_rt_gatherv root lens displs) ins outs)) /\
  (forall root len ins outs, root < length ins -> Forall (fun o => len <= length o) outs -> length outs * len <= length (nth root ins []) ->
     c07_mpi_scatter E merge root len ins outs = Some (c07_spec_apply E merge (c07_rt_scatter root len) ins outs)) /\
  (forall root l ins outs, root < length ins -> outs <> [] -> Forall (fun o => length o = l) outs ->
     length (nth root ins []) = length outs * l ->
     c07_mpi_iscatter E merge root ins outs = Some (c07_spec_apply E merge (c07_rt_scatter root l) ins outs)) /\
  (forall root ins lens displs outs, root < length ins -> scatter_ok E (length (nth root ins [])) lens displs outs ->
     c07_mpi_scatterv E merge root ins lens displs outs = Some (c07_spec_apply E merge (c07_rt_scatterv root lens displs) ins outs)) /\
  (forall len ins outs, Forall (fun b => len <= length b) ins -> Forall (fun o => length ins * len <= length o) outs ->
     c07_mpi_allgather E merge len ins outs = Some (c07_spec_apply E merge (c07_rt_allgather (length ins) len) ins outs)) /\
  (forall l ins outs, ins <> [] -> Forall (fun b => length b = l) ins -> Forall (fun o => length ins * l <= length o) outs ->
     c07_mpi_iallgather E merge ins outs = Some (c07_spec_apply E merge (c07_rt_allgather (length ins) l) ins outs)) /\
  (forall ins lens displs outs, sends_ok E ins lens -> Forall (fun o => blocks_ok (length o) lens displs) outs ->
     c07_mpi_allgatherv E merge ins lens displs outs = Some (c07_spec_apply E merge (c07_rt_allgatherv lens displs) ins outs)).
Proof.
  intros E merge. repeat split.
  - intros; now apply MPI_allreduce_spec.
  - intros; unfold c07_mpi_allreduce_inplace; now apply MPI_allreduce_spec.
  - intros; now apply MPI_bcast_spec.
  - intros; now apply P_coll_gather.
  - intros; now apply P_coll_igather.
  - intros; now apply MPI_gatherv_spec.
  - intros; now apply P_coll_scatter.
  - intros; now apply P_coll_iscatter.
  - intros; now apply MPI_scatterv_spec.
  - intros; now apply P_coll_allgather.
  - intros; now apply P_coll_iallgather.
  - intros; now apply MPI_allgatherv_spec.
Qed.

Lemma P_collectives_example :
  blocks_ok 7 [2; 1; 0] [3; 0; 6] /\ sends_ok Z [[5; 6]; [7]; []]%Z [2; 1; 0] /\
  c07_mpi_gatherv Z (idm Z) 1 [[5; 6]; [7]; []]%Z [2; 1; 0] [3; 0; 6] [[]; [-1; -1; -1; -1; -1; -1; -1]; []]%Z
  = Some [[]; [7; -1; -1; 5; 6; -1; -1]; []]%Z.
Proof.
  split; [|split; [|vm_compute; reflexivity]].
  - cbn [blocks_ok]. repeat split; try lia; intros j Hj;
      do 8 (destruct j as [|j]; [try lia; try reflexivity|]); lia.
  - simpl. repeat split; lia.
Qed.
