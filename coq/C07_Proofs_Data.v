(* C07 — data descriptions: source tables (ops, traits), MPIData views and the (count, datatype) agreement of the non-blocking
   collectives, "every field once", MPIPack resize/enlarge, the commute flag. *)
From Coq Require Import List NArith ZArith Bool Arith Lia Permutation.
From DuneV Require Import Params_gen C07_Model C07_Spec C07_Proofs C07_Proofs_Coll.
Import ListNotations.

(* ------------------------------------------------------------------ source tables *)
Lemma P_traits_table_ok : c07_traits_table_ok = true.
Proof. vm_compute. reflexivity. Qed.

Lemma P_builtin_ops_are_functors : forall i a b, i < 4 -> c07_intrinsic_reduce i a b = c07_functor_sem i a b.
Proof.
  intros i a b Hi. unfold c07_intrinsic_reduce.
  destruct i as [|[|[|[|i]]]]; try lia; try reflexivity.
  - change (c07_builtin_op 2) with 2. simpl. destruct (Z.ltb_spec b a); [apply Z.min_r|apply Z.min_l]; lia.
  - change (c07_builtin_op 3) with 3. simpl. destruct (Z.ltb_spec a b); [apply Z.max_r|apply Z.max_l]; lia.
Qed.

Lemma P_prefix_bytes : c07_prefix_bytes = 4 /\ c07_digit_bytes = 2.
Proof. split; reflexivity. Qed.

(* ------------------------------------------------------------------ size prefix decision of MPIPack *)
Lemma P_pack_prefix_decision :
  (forall k, c07_pack_writes_prefix k = c07_unpack_reads_prefix k) /\
  c07_pack_writes_prefix C07_KObject = false /\ c07_pack_writes_prefix (C07_KRange false) = false /\
  c07_pack_writes_prefix (C07_KRange true) = true /\ c07_pack_writes_prefix C07_KPack = true /\
  (* had pack() asked the MPIData of const T it holds, vectors / strings / packs would be written WITHOUT the prefix unpack expects *)
  (forall k, c07_pack_writes_prefix_const_view k = false).
Proof. repeat split; try reflexivity. intros k; destruct k as [|[|]|]; reflexivity. Qed.

(* ------------------------------------------------------------------ signatures and layouts *)
Lemma entries_eqb_eq : forall a b, c07_entries_eqb a b = true -> a = b.
Proof.
  induction a as [|[x1 x2] a IH]; destruct b as [|[y1 y2] b]; simpl; intros H; try discriminate; [reflexivity|].
  apply andb_true_iff in H. destruct H as [H H3]. apply andb_true_iff in H. destruct H as [H1 H2].
  apply Nat.eqb_eq in H1, H2. subst. f_equal. now apply IH.
Qed.

Lemma signature_entries : forall d, c07_md_signature d = map snd (c07_md_entries d).
Proof.
  intros [n tm]. unfold c07_md_signature, c07_md_entries, c07_dt_contiguous, c07_shift_entries. simpl.
  generalize 0. induction n as [|n IH]; intros a; simpl; [reflexivity|].
  rewrite map_app, map_map. simpl. rewrite <- IH. reflexivity.
Qed.

Lemma same_layout_signature : forall d1 d2, c07_md_same_layout d1 d2 = true -> c07_md_signature d1 = c07_md_signature d2.
Proof. intros d1 d2 H. rewrite !signature_entries. f_equal. now apply entries_eqb_eq. Qed.

(* (count, datatype) AGREEMENT of the two sides *)
Lemma P_igather_agreement : forall root din dout,
  c07_xa_recv_sig (c07_igather_args root root din dout) = c07_xa_send_sig (c07_igather_args root root din dout) /\
  (forall me, me <> root -> c07_xa_recv_sig (c07_igather_args me root din dout) = []).
Proof.
  intros root din dout. unfold c07_xa_recv_sig, c07_xa_send_sig, c07_igather_args, c07_md_signature. simpl.
  change c07_param_igather_recv_sendtype with true. cbv iota. split.
  - rewrite Nat.eqb_refl. simpl. now rewrite Nat.add_0_r.
  - intros me Hme. destruct (Nat.eqb_spec me root); [contradiction|]. reflexivity.
Qed.

Lemma P_iallgather_agreement : forall din dout,
  c07_xa_recv_sig (c07_iallgather_args din dout) = c07_xa_send_sig (c07_iallgather_args din dout).
Proof. intros. unfold c07_xa_recv_sig, c07_xa_send_sig, c07_iallgather_args. change c07_param_iallgather_recv_sendtype with true. reflexivity. Qed.

(* iscatter: the root sends in.size()/procs items of in's type to every rank; it agrees with what a rank receives exactly when that
   block and the receiving object are two descriptions of the same layout (the caller's obligation) *)
Lemma P_iscatter_agreement : forall root procs k din dout, 0 < procs -> c07_md_count din = procs * k ->
  c07_md_same_layout (C07_MD k (c07_md_tm din)) dout = true ->
  c07_xa_send_sig (c07_iscatter_args root root procs din dout) = c07_xa_recv_sig (c07_iscatter_args root root procs din dout).
Proof.
  intros root procs k din dout Hp Hc Hl. unfold c07_xa_recv_sig, c07_xa_send_sig, c07_iscatter_args.
  change c07_param_iscatter_divides_by_procs with true. cbv iota. rewrite Nat.eqb_refl. simpl c07_b2n. rewrite Nat.mul_1_l, Hc.
  rewrite Nat.mul_comm, Nat.div_mul by lia. simpl.
  rewrite (same_layout_signature _ _ Hl). destruct dout; reflexivity.
Qed.

(* the pre-954025b igather: FieldVector<double,3> (3 x double as MPIData) gathered into std::vector<FieldVector<double,3>> *)
Lemma P_igather_old_refuted :
  let din := c07_md_range 3 (c07_dt_basic 8 8) in
  let dout := c07_md_range 2 (c07_traits_fieldvector 3 (c07_dt_basic 8 8) 0) in
  c07_xa_recv_sig (c07_igather_args_old 0 0 din dout) <> c07_xa_send_sig (c07_igather_args_old 0 0 din dout) /\
  c07_md_same_layout din (c07_md_object (c07_traits_fieldvector 3 (c07_dt_basic 8 8) 0)) = true.
Proof. split; [vm_compute; discriminate|vm_compute; reflexivity]. Qed.

(* two descriptions touching the same bytes in the same order transfer the same bytes *)
Lemma covered_app : forall a b x, c07_covered (a ++ b) x = c07_covered a x || c07_covered b x.
Proof. intros; unfold c07_covered. apply existsb_app. Qed.
Lemma covered_shift : forall es d x, c07_covered (c07_shift_entries d es) x = (d <=? x) && c07_covered es (x - d).
Proof.
  induction es as [|[o s] es IH]; intros d x; simpl; [now rewrite andb_false_r|].
  unfold c07_covered in *. simpl. rewrite IH.
  destruct (Nat.leb_spec d x); simpl.
  - f_equal. destruct (Nat.leb_spec (d + o) x), (Nat.leb_spec o (x - d)), (Nat.ltb_spec x (d + o + s)), (Nat.ltb_spec (x - d) (o + s)); simpl; try reflexivity; lia.
  - destruct (Nat.leb_spec (d + o) x); simpl; [lia|reflexivity].
Qed.

Lemma covered_n_entries : forall tm count base x,
  covered_n tm count base x = covered_at (c07_md_entries (C07_MD count tm)) base x.
Proof.
  intros tm count base x. unfold covered_n, c07_md_entries, c07_dt_contiguous, covered_at. simpl.
  generalize 0. induction count as [|c IH]; intros a; simpl; [now rewrite andb_false_r|].
  rewrite covered_app, covered_shift, IH. unfold covered_at.
  destruct (Nat.leb_spec base x); simpl.
  - f_equal. destruct (Nat.leb_spec (base + a * c07_tm_extent tm) x), (Nat.leb_spec (a * c07_tm_extent tm) (x - base)); simpl; try lia; try reflexivity.
    f_equal. lia.
  - destruct (Nat.leb_spec (base + a * c07_tm_extent tm) x); simpl; [lia|reflexivity].
Qed.

Lemma P_two_descriptions : forall d1 d2, c07_md_same_layout d1 d2 = true -> forall (src dst : c07_mem) base x,
  c07_unpack_dt (c07_md_tm d1) (c07_md_count d1) (c07_pack_dt (c07_md_tm d1) (c07_md_count d1) src base) dst base x
  = c07_unpack_dt (c07_md_tm d2) (c07_md_count d2) (c07_pack_dt (c07_md_tm d2) (c07_md_count d2) src base) dst base x.
Proof.
  intros [c1 t1] [c2 t2] H src dst base x. simpl. rewrite !P_dt_content_mem, !covered_n_entries.
  apply entries_eqb_eq in H. now rewrite H.
Qed.

(* ------------------------------------------------------------------ every field once *)
Lemma P_fields_once : forall tm sz x, c07_tm_wfb tm sz = true ->
  length (filter (fun e => (fst e <=? x) && (x <? fst e + snd e)) (c07_tm_entries tm)) <= 1.
Proof.
  intros tm sz x H. unfold c07_tm_wfb in H. apply andb_true_iff in H. destruct H as [H _]. apply andb_true_iff in H. destruct H as [_ H].
  induction (c07_tm_entries tm) as [|e es IH]; [simpl; lia|].
  simpl in H. apply andb_true_iff in H. destruct H as [Hd Hr]. specialize (IH Hr). simpl.
  destruct ((fst e <=? x) && (x <? fst e + snd e)) eqn:He; [|exact IH]. simpl.
  assert (Hn : filter (fun e0 => (fst e0 <=? x) && (x <? fst e0 + snd e0)) es = []).
  { clear IH Hr. induction es as [|e' es IH']; [reflexivity|]. simpl in Hd. apply andb_true_iff in Hd. destruct Hd as [H1 H2].
    simpl. apply andb_true_iff in He. destruct He as [Ha Hb]. apply Nat.leb_le in Ha. apply Nat.ltb_lt in Hb.
    unfold c07_range_disjoint in H1. apply orb_true_iff in H1.
    destruct (Nat.leb_spec (fst e') x), (Nat.ltb_spec x (fst e' + snd e')); simpl; try (apply IH'; assumption).
    destruct H1 as [H1|H1]; apply Nat.leb_le in H1; lia. }
  rewrite Hn. simpl. lia.
Qed.

(* ------------------------------------------------------------------ MPIPack::resize / enlarge *)
Lemma P_pk_resize : forall (B : Type) (zeroB : B) (p : c07_pack B) n,
  let p' := c07_pk_resize B zeroB p n in
  c07_pk_size B p' = n /\ c07_pk_tell B p' = c07_pk_tell B p /\
  firstn (Nat.min n (c07_pk_size B p)) (c07_pk_buf B p') = firstn (Nat.min n (c07_pk_size B p)) (c07_pk_buf B p) /\
  (forall s, c07_pk_buf B (c07_pk_enlarge B zeroB p s) = c07_pk_buf B p ++ repeat zeroB s).
Proof.
  intros B zeroB p n. unfold c07_pk_resize, c07_pk_enlarge, c07_pk_size, c07_pk_tell. simpl. repeat split.
  - rewrite app_length, firstn_length, repeat_length. lia.
  - rewrite firstn_app, firstn_firstn, firstn_length.
    replace (Nat.min n (length (c07_pk_buf B p)) - Nat.min n (length (c07_pk_buf B p))) with 0 by lia. simpl. rewrite app_nil_r.
    f_equal. lia.
  - intros s. rewrite firstn_all2 by lia. f_equal. f_equal. lia.
Qed.

(* ------------------------------------------------------------------ the commute flag of the source *)
Lemma P_user_op_flag : forall (E : Type) (f : E -> E -> E),
  (forall a b c, f (f a b) c = f a (f b c)) -> (c07_param_op_commute = true -> forall a b, f a b = f b a) ->
  forall (xs : list (list E)) (t : c07_tree), c07_tree_ok c07_param_op_commute (length xs) t ->
  c07_tree_eval f xs t = c07_reduce_ranks f xs.
Proof.
  intros E f Ha Hc xs t Ht. unfold c07_tree_ok in Ht. destruct c07_param_op_commute eqn:Hf.
  - apply P_user_op; auto.
  - now apply P_user_op_ordered.
Qed.

(* ------------------------------------------------------------------ the measured predicate follows from the natural layout facts *)
Lemma P_traits_wf : forall s1 a1 s2 a2 d1 d2 szp szg alg dg dl da szpli szip,
  (d1 + s1 <= d2 -> d2 + s2 <= szp ->
     c07_tm_wfb (c07_traits_pair (c07_dt_basic s1 a1) (c07_dt_basic s2 a2) d1 d2 szp) szp = true) /\
  (da + 1 <= szpli -> c07_tm_wfb (c07_traits_plocalindex da szpli) szpli = true) /\
  (dg + szg <= dl + da -> dl + da + 1 <= szip ->
     c07_tm_wfb (c07_traits_indexpair (c07_dt_basic szg alg) dg dl (c07_traits_plocalindex da szpli) szip) szip = true).
Proof.
  intros. repeat split; intros; unfold c07_tm_wfb.
  - destruct (P_traits_entries 0 0 0 0 0 0 0 0 0 0 0 0 0 s1 a1 s2 a2 d1 d2 szp) as (_ & _ & _ & _ & He & Hx & _). rewrite He, Hx.
    simpl. unfold c07_range_disjoint. simpl.
    repeat (apply andb_true_iff; split); try apply Nat.leb_le; try apply Nat.eqb_refl; try reflexivity; try lia.
    apply orb_true_iff. left. apply Nat.leb_le. lia.
  - destruct (P_traits_entries 0 0 0 0 da szpli 0 0 0 0 0 0 0 0 0 0 0 0 0 0) as (_ & _ & He & Hx & _). rewrite He, Hx.
    simpl. repeat (apply andb_true_iff; split); try apply Nat.leb_le; try apply Nat.eqb_refl; try reflexivity; lia.
  - destruct (P_traits_entries szg alg dg dl da szpli szip 0 0 0 0 0 0 0 0 0 0 0 0 0) as (He & Hx & _). rewrite He, Hx.
    simpl. unfold c07_range_disjoint. simpl.
    repeat (apply andb_true_iff; split); try apply Nat.leb_le; try apply Nat.eqb_refl; try reflexivity; try lia.
    apply orb_true_iff. left. apply Nat.leb_le. lia.
Qed.

(* ------------------------------------------------------------------ the sequential stand-in delivers the routing spec at P = 1 *)
Lemma P_sequential_is_spec : forall (E : Type) len sendlen displ (inb out : list E),
  (len <= length inb -> len <= length out ->
     wrap E (c07_seq_gather E len inb out) = Some (c07_spec_apply E (idm E) (c07_rt_gather 1 0 len) [inb] [out]) /\
     wrap E (c07_seq_scatter E len inb out) = Some (c07_spec_apply E (idm E) (c07_rt_scatter 0 len) [inb] [out]) /\
     wrap E (c07_seq_allgather E len inb out) = Some (c07_spec_apply E (idm E) (c07_rt_allgather 1 len) [inb] [out])) /\
  (sendlen <= length inb -> displ + sendlen <= length out ->
     wrap E (c07_seq_gatherv E sendlen displ inb out) = Some (c07_spec_apply E (idm E) (c07_rt_gatherv 0 [sendlen] [displ]) [inb] [out]) /\
     wrap E (c07_seq_allgatherv E sendlen displ inb out) = Some (c07_spec_apply E (idm E) (c07_rt_allgatherv [sendlen] [displ]) [inb] [out])) /\
  (displ + sendlen <= length inb -> sendlen <= length out ->
     wrap E (c07_seq_scatterv E sendlen displ inb out) = Some (c07_spec_apply E (idm E) (c07_rt_scatterv 0 [sendlen] [displ]) [inb] [out])).
Proof.
  intros E len sendlen displ inb out.
  destruct (P_collectives_are_spec E (idm E)) as (_ & _ & _ & Hg & _ & Hgv & Hs & _ & Hsv & Hag & _ & Hagv).
  split; [intros H H0; repeat split|split; [intros H H0; split|intros H H0]].
  - destruct (P_seq_fixed_len E (fun a _ => a) len inb out H H0) as (H1 & _). rewrite H1. apply (Hg 0 len [inb] [out]); simpl; [lia|repeat constructor; lia|lia].
  - destruct (P_seq_fixed_len E (fun a _ => a) len inb out H H0) as (_ & H1 & _). rewrite H1. apply (Hs 0 len [inb] [out]); simpl; [lia|repeat constructor; lia|lia].
  - destruct (P_seq_fixed_len E (fun a _ => a) len inb out H H0) as (_ & _ & H1 & _). rewrite H1. apply (Hag len [inb] [out]); simpl; repeat constructor; simpl; lia.
  - destruct (P_seq_v E sendlen displ inb out) as [Hv _]. destruct (Hv H H0) as [H1 _]. rewrite H1.
    apply (Hgv 0 [inb] [sendlen] [displ] [out]); simpl; [lia|split; [lia|exact I]|repeat split; try lia; intros; reflexivity].
  - destruct (P_seq_v E sendlen displ inb out) as [Hv _]. destruct (Hv H H0) as [_ H1]. rewrite H1.
    apply (Hagv [inb] [sendlen] [displ] [out]); simpl; [split; [lia|exact I]|repeat constructor; simpl; try lia; intros; reflexivity].
  - destruct (P_seq_v E sendlen displ inb out) as [_ Hv]. rewrite (Hv H H0).
    apply (Hsv 0 [inb] [sendlen] [displ] [out]); simpl; [lia|repeat split; lia].
Qed.

(* ------------------------------------------------------------------ a receive object re-used for a second (longer or SHORTER) message *)
Lemma P_rrecv_reuse : forall (E : Type) (merge : E -> E -> E) (d : E) tsize (s1 s2 data : list E), 0 < tsize ->
  (exists r1 r2, c07_rrecv E merge d tsize s1 data = Some r1 /\ c07_rrecv E merge d tsize s2 r1 = Some r2 /\ length r2 = length s2) /\
  (c07_rrecv E (idm E) d tsize s1 data = Some s1 /\ c07_rrecv E (idm E) d tsize s2 s1 = Some s2).
Proof.
  intros E merge d tsize s1 s2 data H. split.
  - destruct (P_rrecv_len E merge d tsize s1 data H) as [r1 [H1 _]].
    destruct (P_rrecv_len E merge d tsize s2 r1 H) as [r2 [H2 [L2 _]]]. exists r1, r2. auto.
  - split; now apply P_rrecv_end_to_end.
Qed.
