(* C07 — the abstract statement, and the executable oracle.
   A collective is a ROUTING: the element that ends up at position j of rank r's output buffer is either
   what was there (None) or the element k of rank s's contribution (Some (s,k)), received with [merge]
   (identity on fully communicated types).  Reductions deliver the rank-order fold  x0 f x1 f ... f x(P-1). *)
From Coq Require Import List NArith ZArith Bool Arith.
From DuneV Require Import C07_Model.
Import ListNotations.

Section Spec.
  Variable E : Type.
  Variable merge : E -> E -> E.

  Definition c07_route := nat -> nat -> option (nat * nat).
  Definition c07_spec_apply (rt : c07_route) (ins outs : list (list E)) : list (list E) :=
    map (fun ro => let r := fst ro in
      map (fun jx => match rt r (fst jx) with
                     | None => snd jx
                     | Some (s, k) => match nth_error (nth s ins []) k with Some v => merge v (snd jx) | None => snd jx end
                     end) (combine (seq 0 (length (snd ro))) (snd ro)))
        (combine (seq 0 (length outs)) outs).

  (* first rank (in rank order) whose block [displ, displ+len) contains j *)
  Fixpoint c07_spec_find (r : nat) (lens displs : list nat) (j : nat) : option (nat * nat) :=
    match lens, displs with
    | n :: lens', d :: displs' => if (d <=? j) && (j <? d + n) then Some (r, j - d) else c07_spec_find (S r) lens' displs' j
    | _, _ => None
    end.

  Definition c07_rt_gather (P root len : nat) : c07_route :=
    fun r j => if (r =? root) && (j <? P * len) then Some (Nat.div j len, Nat.modulo j len) else None.
  Definition c07_rt_allgather (P len : nat) : c07_route :=
    fun r j => if j <? P * len then Some (Nat.div j len, Nat.modulo j len) else None.
  Definition c07_rt_scatter (root len : nat) : c07_route :=
    fun r j => if j <? len then Some (root, r * len + j) else None.
  Definition c07_rt_bcast (root len : nat) : c07_route :=
    fun r j => if negb (r =? root) && (j <? len) then Some (root, j) else None.
  Definition c07_rt_gatherv (root : nat) (lens displs : list nat) : c07_route :=
    fun r j => if r =? root then c07_spec_find 0 lens displs j else None.
  Definition c07_rt_allgatherv (lens displs : list nat) : c07_route :=
    fun r j => c07_spec_find 0 lens displs j.
  Definition c07_rt_scatterv (root : nat) (lens displs : list nat) : c07_route :=
    fun r j => if j <? nth r lens 0 then Some (root, nth r displs 0 + j) else None.

  (* rank-order fold of the j-th components *)
  Definition c07_spec_fold (f : E -> E -> E) (ins : list (list E)) (j : nat) : option E :=
    match ins with
    | [] => None
    | x :: rest => match nth_error x j with
                   | None => None
                   | Some x0 => fold_left (fun acc v => match acc, nth_error v j with Some a, Some b => Some (f a b) | _, _ => None end)
                                          rest (Some x0)
                   end
    end.
  Definition c07_spec_allreduce (f : E -> E -> E) (len : nat) (ins outs : list (list E)) : list (list E) :=
    map (fun o => map (fun jx => if fst jx <? len then match c07_spec_fold f ins (fst jx) with Some v => merge v (snd jx) | None => snd jx end
                                 else snd jx) (combine (seq 0 (length o)) o)) outs.
End Spec.

(* datatype content: exactly the bytes of the communicated fields (given per element as (offset,size) inside
   [0,sizeofT)) of the first [count] elements move *)
Definition c07_spec_transfer (fields : list (nat * nat)) (sizeofT count : nat) (src dst : list N) : list N :=
  map (fun x => if (x <? count * sizeofT) && c07_covered fields (Nat.modulo x sizeofT) then nth x src 0%N else nth x dst 0%N)
      (seq 0 (length dst)).
