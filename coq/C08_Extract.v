(* Extraction of the C08 model for the correspondence check (ExtrOcamlBasic only; Z, positive, nat stay Coq
   inductives; Flocq's proof arguments are erased). *)
From Coq Require Import Extraction ExtrOcamlBasic.
From Coq Require Import ZArith List.
From Flocq Require Import Core BinarySingleNaN.
From DuneV Require Import C08_Model.
Extraction Language OCaml.
Extraction "c08_model.ml"
  c08_b64_of_bits c08_b64_to_bits c08_b64_eigenvalues2 c08_b64_eigenvaluesvectors2 c08_eig1 c08_b64_ops
  c08_b64_eig0 c08_b64_orthocomp c08_b64_eig1
  c08_b32_of_bits c08_b32_to_bits c08_b32_eigenvalues2 c08_b32_eigenvaluesvectors2 c08_b32_ops
  c08_flatten c08_colmajor c08_rows c08_rows_list
  c08_sym_lapack c08_eigenvalues_lapack c08_eigenvaluesvectors_lapack c08_eigenvalues_generic
  c08_nonsym_dyn c08_nonsym_dyn_fixed c08_nonsym_dyn_src c08_nonsym_fm.
