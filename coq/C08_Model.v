(* C08 — executable model of the eigenvalue routines of dune/common/fmatrixev.hh and dynmatrixev.hh.
   Definitions only (no proofs).

   Part 1  closed forms n = 1, 2 written ONCE over an operation record [c08_ops T]; the same Gallina text is
           (a) instantiated at the real numbers (C08_Spec.v, exact arithmetic: the theorems) and
           (b) instantiated at Flocq binary64 (below, [c08_b64_*]: bit-exact with the C++ `double` code, run by
               extraction and diffed against the implementation on every check run).
           Thresholds (the literals 1e-14 of the source) are parameters.
   Part 2  the LAPACK hand-over (row-major array handed to a column-major Fortran routine, results read back),
           polymorphic in the entry type, LAPACK itself a function parameter.
   Part 3  the 3x3 eigenvalue formula (Smith 1961) lives in C08_Spec.v/C08_Proofs_3x3.v over R only (acos/cos
           have no Flocq counterpart); it is not executable and is tied to the code by tolerance TESTS only. *)
From Coq Require Import List ZArith Bool.
From Flocq Require Import Core BinarySingleNaN.
From DuneV Require Import Params_gen.
Import ListNotations.

(* ------------------------------------------------------------------------------------------------ Part 1 *)
Record c08_ops (T : Type) := C08Ops {
  c08_zero : T; c08_one : T; c08_half : T;
  c08_add : T -> T -> T; c08_sub : T -> T -> T; c08_mul : T -> T -> T; c08_div : T -> T -> T;
  c08_neg : T -> T; c08_sqrt : T -> T; c08_abs : T -> T;
  c08_ltb : T -> T -> bool;            (* a <  b  (false when unordered) *)
  c08_leb : T -> T -> bool;            (* a <= b  (false when unordered) *)
  c08_baddiv : T -> bool               (* divisors for which `/` has no value in the carrier: 0 over the reals,
                                          nothing over IEEE floats (division is total there) *)
}.
Arguments c08_zero {T}. Arguments c08_one {T}. Arguments c08_half {T}. Arguments c08_add {T}. Arguments c08_sub {T}.
Arguments c08_mul {T}. Arguments c08_div {T}. Arguments c08_neg {T}. Arguments c08_sqrt {T}. Arguments c08_abs {T}.
Arguments c08_ltb {T}. Arguments c08_leb {T}. Arguments c08_baddiv {T}.

(* results: value, DUNE_THROW(MathError) "complex eigenvalue", or a division the carrier cannot perform *)
Inductive c08_res (A : Type) := C08_Ok (a : A) | C08_MathError | C08_DivByZero.
Arguments C08_Ok {A}. Arguments C08_MathError {A}. Arguments C08_DivByZero {A}.
Definition c08_bind {A B} (x : c08_res A) (f : A -> c08_res B) : c08_res B :=
  match x with C08_Ok a => f a | C08_MathError => C08_MathError | C08_DivByZero => C08_DivByZero end.

(* a 2x2 matrix [[m00,m01],[m10,m11]] as a 4-tuple; a 2-vector as a pair *)
Definition c08_mat2 (T : Type) := (T * T * T * T)%type.
Definition c08_vec2 (T : Type) := (T * T)%type.

Section C08Closed.
Context {T : Type} (o : c08_ops T).
Notation "x +! y" := (c08_add o x y) (at level 50, left associativity).
Notation "x -! y" := (c08_sub o x y) (at level 50, left associativity).
Notation "x *! y" := (c08_mul o x y) (at level 40, left associativity).

Definition c08_divc (x y : T) : c08_res T := if c08_baddiv o y then C08_DivByZero else C08_Ok (c08_div o x y).
(* std::max(a,b) = (a < b) ? b : a *)
Definition c08_max (a b : T) : T := if c08_ltb o a b then b else a.

(* n = 1: eigenValues[0] = matrix[0][0]; eigenVectors[0] = {1.0} *)
Definition c08_eig1 (m : T) : T * T := (m, c08_one o).

(* eigenValues2dImpl; thrq is the literal of `q > -1e-14` *)
Definition c08_ev2 (thrq : T) (m : c08_mat2 T) : c08_res (T * T) :=
  let '(m00, m01, m10, m11) := m in
  let p := c08_half o *! (m00 +! m11) in
  let p2 := p -! m11 in
  let q := p2 *! p2 +! m10 *! m01 in
  let q := if c08_ltb o q (c08_zero o) && c08_ltb o (c08_neg o thrq) q then c08_zero o else q in
  if c08_ltb o q (c08_zero o) then C08_MathError
  else let s := c08_sqrt o q in C08_Ok (p -! s, p +! s).

(* DenseVector::two_norm2 / two_norm / one_norm for size 2:  result(0); result += ... *)
Definition c08_norm2sq (v : c08_vec2 T) : T := c08_zero o +! fst v *! fst v +! snd v *! snd v.
Definition c08_norm2 (v : c08_vec2 T) : T := c08_sqrt o (c08_norm2sq v).
Definition c08_onenorm (v : c08_vec2 T) : T := c08_zero o +! c08_abs o (fst v) +! c08_abs o (snd v).
(* DenseMatrix::infinity_norm for a NaN-capable field: norm * (isNaN / isNaN) *)
Definition c08_infnorm2 (m : c08_mat2 T) : c08_res T :=
  let '(m00, m01, m10, m11) := m in
  let a0 := c08_onenorm (m00, m01) in
  let norm := c08_max a0 (c08_zero o) in
  let isnan := c08_one o +! a0 in
  let a1 := c08_onenorm (m10, m11) in
  let norm := c08_max a1 norm in
  let isnan := isnan +! a1 in
  c08_bind (c08_divc isnan isnan) (fun r => C08_Ok (norm *! r)).
(* v / v.two_norm() *)
Definition c08_normalize (v : c08_vec2 T) : c08_res (c08_vec2 T) :=
  let nrm := c08_norm2 v in
  c08_bind (c08_divc (fst v) nrm) (fun x => c08_bind (c08_divc (snd v) nrm) (fun y => C08_Ok (x, y))).
(* (ev0.two_norm2() >= ev1.two_norm2()) ? ev0/ev0.two_norm() : ev1/ev1.two_norm() *)
Definition c08_pick (ev0 ev1 : c08_vec2 T) : c08_res (c08_vec2 T) :=
  if c08_leb o (c08_norm2sq ev1) (c08_norm2sq ev0) then c08_normalize ev0 else c08_normalize ev1.

(* eigenvector part of the 2d specialisation of eigenValuesVectorsImpl; result: (eigenVectors[0], eigenVectors[1]).
   Two switches select the variant of the source text (the check reads them off the working tree):
     rel = false : `temp.infinity_norm() <= 1e-14`                       thrid is the literal (absolute threshold)
     rel = true  : `temp.infinity_norm() <= epsilon * matrix.infinity_norm()`   thrid is epsilon (fixes/C08-1.patch)
     perp = false: second eigenvector from the columns of A - l0 I (as the first one from A - l1 I)
     perp = true : second eigenvector = first one rotated by 90 degrees  (fixes/C08-3.patch) *)
Definition c08_evec2 (rel perp : bool) (thrid : T) (m : c08_mat2 T) (ev : T * T) : c08_res (c08_vec2 T * c08_vec2 T) :=
  let '(m00, m01, m10, m11) := m in
  let '(l0, l1) := ev in
  c08_bind (c08_infnorm2 (m00 -! l0, m01, m10, m11 -! l0)) (fun nrm =>
  c08_bind (if rel then c08_bind (c08_infnorm2 m) (fun na => C08_Ok (thrid *! na)) else C08_Ok thrid) (fun thr =>
  if c08_leb o nrm thr then C08_Ok ((c08_one o, c08_zero o), (c08_zero o, c08_one o))
  else
    c08_bind (c08_pick (m00 -! l1, m10) (m01, m11 -! l1)) (fun v0 =>
    if perp then C08_Ok (v0, (c08_neg o (snd v0), fst v0))
    else c08_bind (c08_pick (m00 -! l0, m10) (m01, m11 -! l0)) (fun v1 => C08_Ok (v0, v1))))).

(* the two entry points: FMatrixHelp::eigenValues (Tag = OnlyEigenvalues) and eigenValuesVectors *)
Definition c08_eigenvalues2 (thrq : T) (m : c08_mat2 T) : c08_res (T * T) := c08_ev2 thrq m.
Definition c08_eigenvaluesvectors2 (rel perp : bool) (thrq thrid : T) (m : c08_mat2 T)
  : c08_res ((T * T) * (c08_vec2 T * c08_vec2 T)) :=
  c08_bind (c08_ev2 thrq m) (fun ev => c08_bind (c08_evec2 rel perp thrid m ev) (fun vs => C08_Ok (ev, vs))).
End C08Closed.

(* ------------------------------------------------------------------------------------------------ Part 1b
   The 3x3 eigenvector kernels Impl::crossProduct / eig0 / orthoComp / eig1 over the same operation record, operation by
   operation in the order the C++ expressions evaluate (FieldVector/FieldMatrix helpers inlined: two_norm = sqrt(0 + x^2 + ...),
   mv: y_i = 0; y_i += a_ij x_j, dot: result(0); result += x_i y_i).  Instantiated at R these ARE the functions of C08_Spec.v the
   theorems C08_3x3_* are about (C08_Proofs_Kernels.v); instantiated at binary64 they are diffed bit for bit against the code. *)
Section C08Kernels3.
Context {T : Type} (o : c08_ops T).
Notation "x +! y" := (c08_add o x y) (at level 50, left associativity).
Notation "x -! y" := (c08_sub o x y) (at level 50, left associativity).
Notation "x *! y" := (c08_mul o x y) (at level 40, left associativity).
Definition c08g_vec3 := (T * T * T)%type.
Definition c08g_mat3 := (c08g_vec3 * c08g_vec3 * c08g_vec3)%type.

Definition c08g_cross (u v : c08g_vec3) : c08g_vec3 :=
  let '(u0, u1, u2) := u in let '(v0, v1, v2) := v in
  (u1 *! v2 -! u2 *! v1, u2 *! v0 -! u0 *! v2, u0 *! v1 -! u1 *! v0).
Definition c08g_norm3 (v : c08g_vec3) : T :=
  let '(v0, v1, v2) := v in c08_sqrt o (c08_zero o +! v0 *! v0 +! v1 *! v1 +! v2 *! v2).
Definition c08g_div3 (v : c08g_vec3) (d : T) : c08_res c08g_vec3 :=
  let '(v0, v1, v2) := v in
  c08_bind (c08_divc o v0 d) (fun x => c08_bind (c08_divc o v1 d) (fun y => c08_bind (c08_divc o v2 d) (fun z => C08_Ok (x, y, z)))).
Definition c08g_dot3 (u v : c08g_vec3) : T :=
  let '(u0, u1, u2) := u in let '(v0, v1, v2) := v in c08_zero o +! u0 *! v0 +! u1 *! v1 +! u2 *! v2.
Definition c08g_mv3 (A : c08g_mat3) (x : c08g_vec3) : c08g_vec3 :=
  let '(r0, r1, r2) := A in (c08g_dot3 r0 x, c08g_dot3 r1 x, c08g_dot3 r2 x).
Definition c08g_smul3 (k : T) (v : c08g_vec3) : c08g_vec3 := let '(v0, v1, v2) := v in (k *! v0, k *! v1, k *! v2).
Definition c08g_sub3 (u v : c08g_vec3) : c08g_vec3 :=
  let '(u0, u1, u2) := u in let '(v0, v1, v2) := v in (u0 -! v0, u1 -! v1, u2 -! v2).

(* eig0: (imax, evec0) *)
Definition c08g_eig0 (A : c08g_mat3) (l : T) : c08_res (nat * c08g_vec3) :=
  let '((a00, a01, a02), (a10, a11, a12), (a20, a21, a22)) := A in
  let row0 := (a00 -! l, a01, a02) in let row1 := (a10, a11 -! l, a12) in let row2 := (a20, a21, a22 -! l) in
  let r0xr1 := c08g_cross row0 row1 in let r0xr2 := c08g_cross row0 row2 in let r1xr2 := c08g_cross row1 row2 in
  let d0 := c08g_norm3 r0xr1 in let d1 := c08g_norm3 r0xr2 in let d2 := c08g_norm3 r1xr2 in
  let '(dmax, imax) := if c08_ltb o d0 d1 then (d1, 1%nat) else (d0, 0%nat) in
  let imax := if c08_ltb o dmax d2 then 2%nat else imax in
  match imax with
  | 0%nat => c08_bind (c08g_div3 r0xr1 d0) (fun v => C08_Ok (0%nat, v))
  | 1%nat => c08_bind (c08g_div3 r0xr2 d1) (fun v => C08_Ok (1%nat, v))
  | _ => c08_bind (c08g_div3 r1xr2 d2) (fun v => C08_Ok (2%nat, v))
  end.

(* orthoComp: (u, v) *)
Definition c08g_orthocomp (e : c08g_vec3) : c08_res (c08g_vec3 * c08g_vec3) :=
  let '(e0, e1, e2) := e in
  c08_bind (if c08_ltb o (c08_abs o e1) (c08_abs o e0)
            then c08_bind (c08_divc o (c08_one o) (c08_sqrt o (c08_zero o +! e0 *! e0 +! e2 *! e2)))
                          (fun L => C08_Ok (c08g_smul3 L (c08_neg o e2, c08_zero o, e0)))
            else c08_bind (c08_divc o (c08_one o) (c08_sqrt o (c08_zero o +! e1 *! e1 +! e2 *! e2)))
                          (fun L => C08_Ok (c08g_smul3 L (c08_zero o, e2, c08_neg o e1))))
    (fun u => C08_Ok (u, c08g_cross e u)).

(* eig1 *)
Definition c08g_eig1 (A : c08g_mat3) (e : c08g_vec3) (l1 : T) : c08_res c08g_vec3 :=
  c08_bind (c08g_orthocomp e) (fun uv =>
  let '(u, v) := uv in
  let Au := c08g_mv3 A u in let Av := c08g_mv3 A v in
  let m00 := c08g_dot3 u Au -! l1 in let m01 := c08g_dot3 u Av in let m11 := c08g_dot3 v Av -! l1 in
  let absM00 := c08_abs o m00 in let absM01 := c08_abs o m01 in let absM11 := c08_abs o m11 in
  let unitc (t : T) := c08_divc o (c08_one o) (c08_sqrt o (c08_one o +! t *! t)) in
  if c08_leb o absM11 absM00 then
    if c08_ltb o (c08_zero o) (c08_max o absM00 absM01) then
      if c08_leb o absM01 absM00 then
        c08_bind (c08_divc o m01 m00) (fun t => c08_bind (unitc t) (fun c =>
          C08_Ok (c08g_sub3 (c08g_smul3 (t *! c) u) (c08g_smul3 c v))))
      else
        c08_bind (c08_divc o m00 m01) (fun t => c08_bind (unitc t) (fun c =>
          C08_Ok (c08g_sub3 (c08g_smul3 c u) (c08g_smul3 (t *! c) v))))
    else C08_Ok u
  else
    if c08_ltb o (c08_zero o) (c08_max o absM11 absM01) then
      if c08_leb o absM01 absM11 then
        c08_bind (c08_divc o m01 m11) (fun t => c08_bind (unitc t) (fun c =>
          C08_Ok (c08g_sub3 (c08g_smul3 c u) (c08g_smul3 (t *! c) v))))
      else
        c08_bind (c08_divc o m11 m01) (fun t => c08_bind (unitc t) (fun c =>
          C08_Ok (c08g_sub3 (c08g_smul3 (t *! c) u) (c08g_smul3 c v))))
    else C08_Ok u).
End C08Kernels3.

(* ---- instance (b): IEEE binary64, round to nearest even (x86-64 SSE2 double, no FMA contraction) ---- *)
Definition c08_prec64 := 53%Z.
Definition c08_emax64 := 1024%Z.
Definition c08_Hprec64 : Prec_gt_0 c08_prec64 := eq_refl.
Definition c08_Hmax64 : Prec_lt_emax c08_prec64 c08_emax64 := eq_refl.
#[local] Existing Instance c08_Hprec64.
#[local] Existing Instance c08_Hmax64.
Definition c08_b64 := binary_float c08_prec64 c08_emax64.

Definition c08_b64_of_Z (z : Z) (e : Z) : c08_b64 :=
  binary_normalize c08_prec64 c08_emax64 c08_Hprec64 c08_Hmax64 mode_NE z e false.

Definition c08_b64_ops : c08_ops c08_b64 := {|
  c08_zero := B754_zero false;
  c08_one := c08_b64_of_Z 1 0;
  c08_half := c08_b64_of_Z 1 (-1);
  c08_add := Bplus mode_NE; c08_sub := Bminus mode_NE; c08_mul := Bmult mode_NE; c08_div := Bdiv mode_NE;
  c08_neg := Bopp; c08_sqrt := Bsqrt mode_NE; c08_abs := Babs;
  c08_ltb := Bltb; c08_leb := Bleb;
  c08_baddiv := fun _ => false |}.

(* IEEE-754 binary64 bit pattern <-> value (one NaN: the model has a single NaN datum) *)
Definition c08_b64_of_bits (x : Z) : c08_b64 :=
  let frac := (x mod 2 ^ 52)%Z in
  let eb := ((x / 2 ^ 52) mod 2 ^ 11)%Z in
  let s := Z.odd (x / 2 ^ 63) in
  if (eb =? 2047)%Z then (if (frac =? 0)%Z then B754_infinity s else B754_nan)
  else if (eb =? 0)%Z then
    (if (frac =? 0)%Z then B754_zero s
     else binary_normalize c08_prec64 c08_emax64 c08_Hprec64 c08_Hmax64 mode_NE (cond_Zopp s frac) (-1074) s)
  else binary_normalize c08_prec64 c08_emax64 c08_Hprec64 c08_Hmax64 mode_NE
         (cond_Zopp s (frac + 2 ^ 52)) (eb - 1075) s.
Definition c08_b64_to_bits (v : c08_b64) : option Z :=       (* None = NaN *)
  let sb (s : bool) := if s then (2 ^ 63)%Z else 0%Z in
  match v with
  | B754_zero s => Some (sb s)
  | B754_infinity s => Some (sb s + 2047 * 2 ^ 52)%Z
  | B754_nan => None
  | B754_finite s m e _ =>
    if (Zpos m <? 2 ^ 52)%Z then Some (sb s + Zpos m)%Z
    else Some (sb s + (e + 1075) * 2 ^ 52 + (Zpos m - 2 ^ 52))%Z
  end.

Definition c08_b64_eig0 := c08g_eig0 c08_b64_ops.
Definition c08_b64_orthocomp := c08g_orthocomp c08_b64_ops.
Definition c08_b64_eig1 := c08g_eig1 c08_b64_ops.
Definition c08_b64_eigenvalues2 := c08_eigenvalues2 c08_b64_ops.
Definition c08_b64_eigenvaluesvectors2 := c08_eigenvaluesvectors2 c08_b64_ops.

(* ---- instance (c): IEEE binary32 (FieldMatrix<float,2,2>).  The source compares K values with the double literals
   (`q > -1e-14`, `<= 1e-14`): the check passes the literal rounded up (thrq) resp. down (thrid) to binary32, which decides
   the comparison of a binary32 value with the double literal identically. `0.5 * x` is evaluated in double and converted
   back: one rounding of the exact product, as the binary32 multiplication by 0.5. ---- *)
Definition c08_prec32 := 24%Z.
Definition c08_emax32 := 128%Z.
Definition c08_Hprec32 : Prec_gt_0 c08_prec32 := eq_refl.
Definition c08_Hmax32 : Prec_lt_emax c08_prec32 c08_emax32 := eq_refl.
#[local] Existing Instance c08_Hprec32.
#[local] Existing Instance c08_Hmax32.
Definition c08_b32 := binary_float c08_prec32 c08_emax32.
Definition c08_b32_of_Z (z : Z) (e : Z) : c08_b32 :=
  binary_normalize c08_prec32 c08_emax32 c08_Hprec32 c08_Hmax32 mode_NE z e false.
Definition c08_b32_ops : c08_ops c08_b32 := {|
  c08_zero := B754_zero false;
  c08_one := c08_b32_of_Z 1 0;
  c08_half := c08_b32_of_Z 1 (-1);
  c08_add := Bplus mode_NE; c08_sub := Bminus mode_NE; c08_mul := Bmult mode_NE; c08_div := Bdiv mode_NE;
  c08_neg := Bopp; c08_sqrt := Bsqrt mode_NE; c08_abs := Babs;
  c08_ltb := Bltb; c08_leb := Bleb;
  c08_baddiv := fun _ => false |}.
Definition c08_b32_of_bits (x : Z) : c08_b32 :=
  let frac := (x mod 2 ^ 23)%Z in
  let eb := ((x / 2 ^ 23) mod 2 ^ 8)%Z in
  let s := Z.odd (x / 2 ^ 31) in
  if (eb =? 255)%Z then (if (frac =? 0)%Z then B754_infinity s else B754_nan)
  else if (eb =? 0)%Z then
    (if (frac =? 0)%Z then B754_zero s
     else binary_normalize c08_prec32 c08_emax32 c08_Hprec32 c08_Hmax32 mode_NE (cond_Zopp s frac) (-149) s)
  else binary_normalize c08_prec32 c08_emax32 c08_Hprec32 c08_Hmax32 mode_NE
         (cond_Zopp s (frac + 2 ^ 23)) (eb - 150) s.
Definition c08_b32_to_bits (v : c08_b32) : option Z :=
  let sb (s : bool) := if s then (2 ^ 31)%Z else 0%Z in
  match v with
  | B754_zero s => Some (sb s)
  | B754_infinity s => Some (sb s + 255 * 2 ^ 23)%Z
  | B754_nan => None
  | B754_finite s m e _ =>
    if (Zpos m <? 2 ^ 23)%Z then Some (sb s + Zpos m)%Z
    else Some (sb s + (e + 150) * 2 ^ 23 + (Zpos m - 2 ^ 23))%Z
  end.
Definition c08_b32_eigenvalues2 := c08_eigenvalues2 c08_b32_ops.
Definition c08_b32_eigenvaluesvectors2 := c08_eigenvaluesvectors2 c08_b32_ops.

(* ------------------------------------------------------------------------------------------------ Part 2 *)
(* value, or DUNE_THROW(InvalidStateException) when LAPACK reports info != 0 *)
Inductive c08_lres (A : Type) := C08_LOk (a : A) | C08_InvalidState.
Arguments C08_LOk {A}. Arguments C08_InvalidState {A}.

Section C08Handover.
Context {T : Type} (d : T).

(* `row = 0; for i < dim: for j < dim: matrixVector[row++] = matrix[i][j]`: the sequence of writes *)
Definition c08_flatten (n : nat) (A : nat -> nat -> T) : list T :=
  flat_map (fun i => map (fun j => A i j) (seq 0 n)) (seq 0 n).
(* what a Fortran routine with leading dimension lda sees at (i,j) (0-based) *)
Definition c08_colmajor (lda : nat) (a : list T) (i j : nat) : T := nth (i + j * lda) a d.
(* `row = 0; for i: for j: eigenVectors[i][j] = matrixVector[row++]`, and, for DynamicMatrix,
   `std::copy(vr + N*i, vr + N*(i+1), &v[0])`: entry j of output row i *)
Definition c08_rows (n : nat) (a : list T) (i j : nat) : T := nth (i * n + j) a d.
Definition c08_rows_list (n : nat) (a : list T) : list (list T) :=
  map (fun i => map (fun j => c08_rows n a i j) (seq 0 n)) (seq 0 n).

(* arguments of the ?syev call as the code passes them, and its outputs (w, a on exit, info) *)
Record c08_syev_args := C08Syev { c08_jobz : bool (* 'v' *); c08_uplo_upper : bool; c08_sy_n : nat; c08_sy_a : list T;
                                  c08_sy_lda : nat; c08_sy_lwork : nat }.

(* the call as the source writes it; the job character "nv"[Tag], uplo and the workspace formula lwork = 3*N - 1 are re-read
   from the source (Params_gen.v, tools/params.d/C08.py) *)
Definition c08_lwork_sym (n : nat) : nat := c08_param_lwork_sym_mul * n - c08_param_lwork_sym_sub.
Definition c08_syev_call (tag : bool) (n : nat) (A : nat -> nat -> T) : c08_syev_args :=
  C08Syev (if tag then c08_param_jobz_tag1_v else c08_param_jobz_tag0_v) c08_param_uplo_upper n (c08_flatten n A) n (c08_lwork_sym n).

(* eigenValuesVectorsLapackImpl<Tag>: tag = true for EigenvaluesEigenvectors.  Returns (eigenvalues, eigenvector rows);
   with tag = false the eigenvector matrix is left untouched (None). *)
Definition c08_sym_lapack (syev : c08_syev_args -> list T * list T * Z) (tag : bool) (n : nat) (A : nat -> nat -> T)
  : c08_lres (list T * option (list (list T))) :=
  let '(w, a', info) := syev (c08_syev_call tag n A) in
  if (info =? 0)%Z then C08_LOk (w, if tag then Some (c08_rows_list n a') else None) else C08_InvalidState.

(* entry points: eigenValuesLapack passes Tag = EigenvaluesEigenvectors with a dummy matrix and drops it *)
Definition c08_eigenvalues_lapack syev n A :=
  match c08_sym_lapack syev true n A with C08_LOk (w, _) => C08_LOk w | C08_InvalidState => C08_InvalidState end.
Definition c08_eigenvaluesvectors_lapack syev n A := c08_sym_lapack syev true n A.
(* generic specialisation dim >= 4 of eigenValues: Tag = OnlyEigenvalues *)
Definition c08_eigenvalues_generic syev n A :=
  match c08_sym_lapack syev false n A with C08_LOk (w, _) => C08_LOk w | C08_InvalidState => C08_InvalidState end.

(* ?geev *)
Record c08_geev_args := C08Geev { c08_jobvl : bool; c08_jobvr : bool; c08_ge_n : nat; c08_ge_a : list T; c08_ge_lda : nat;
                                  c08_ge_ldvl : nat; c08_ge_ldvr : nat; c08_ge_lwork : nat }.
(* outputs of geev: wr, wi, vl, vr, info *)
Definition c08_geev_out := (list T * list T * list T * list T * Z)%type.

(* DynamicMatrixHelp::eigenValuesNonSym as it is: jobvl = 'n', jobvr = want ? 'v' : 'n', vectors read from vr.
   Result: list of (re, im) and, if wanted, the N vectors. *)
Definition c08_nonsym_dyn (geev : c08_geev_args -> c08_geev_out) (want : bool) (n : nat) (A : nat -> nat -> T)
  : c08_lres (list (T * T) * option (list (list T))) :=
  let '(wr, wi, vl, vr, info) := geev (C08Geev false want n (c08_flatten n A) n n n ((if want then 4 else 3) * n)) in
  if (info =? 0)%Z then C08_LOk (combine wr wi, if want then Some (c08_rows_list n vr) else None)
  else C08_InvalidState.
(* the proposed repair (fixes/C08-2.patch): ask for the LEFT eigenvectors of the array handed over and read vl *)
Definition c08_nonsym_dyn_fixed (geev : c08_geev_args -> c08_geev_out) (want : bool) (n : nat) (A : nat -> nat -> T)
  : c08_lres (list (T * T) * option (list (list T))) :=
  let '(wr, wi, vl, vr, info) := geev (C08Geev want false n (c08_flatten n A) n n n ((if want then 4 else 3) * n)) in
  if (info =? 0)%Z then C08_LOk (combine wr wi, if want then Some (c08_rows_list n vl) else None)
  else C08_InvalidState.
(* DynamicMatrixHelp::eigenValuesNonSym AS THE SOURCE NOW WRITES IT: job characters, workspace formula and the array the
   vectors are copied from are re-read from the source (Params_gen.v) *)
Definition c08_dyn_call (want : bool) (n : nat) (A : nat -> nat -> T) : c08_geev_args :=
  C08Geev (if want then c08_param_dyn_jobvl_want_v else c08_param_dyn_jobvl_nowant_v)
          (if want then c08_param_dyn_jobvr_want_v else c08_param_dyn_jobvr_nowant_v)
          n (c08_flatten n A) n n n ((if want then c08_param_dyn_lwork_want_mul else c08_param_dyn_lwork_nowant_mul) * n).
Definition c08_nonsym_dyn_src (geev : c08_geev_args -> c08_geev_out) (want : bool) (n : nat) (A : nat -> nat -> T)
  : c08_lres (list (T * T) * option (list (list T))) :=
  let '(wr, wi, vl, vr, info) := geev (c08_dyn_call want n A) in
  if (info =? 0)%Z then C08_LOk (combine wr wi, if want then Some (c08_rows_list n (if c08_param_dyn_read_vl then vl else vr)) else None)
  else C08_InvalidState.
(* FMatrixHelp::eigenValuesNonSym (FieldMatrix): eigenvalues only *)
Definition c08_nonsym_fm (geev : c08_geev_args -> c08_geev_out) (n : nat) (A : nat -> nat -> T)
  : c08_lres (list (T * T)) :=
  let '(wr, wi, vl, vr, info) := geev (C08Geev c08_param_fm_jobvl_v c08_param_fm_jobvr_v n (c08_flatten n A) n n n (c08_param_fm_lwork_mul * n)) in
  if (info =? 0)%Z then C08_LOk (combine wr wi) else C08_InvalidState.
End C08Handover.
