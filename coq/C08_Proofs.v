(* C08 — proofs, part 1: structural facts that hold for EVERY operation record (hence also for the binary64
   instance that is diffed against the C++ code). *)
From Coq Require Import List ZArith Bool.
From DuneV Require Import C08_Model.
Import ListNotations.

(* eigenvalue-only and eigenvalue+vector entry points run the same eigenvalue computation *)
Lemma P_entrypoints_agree_2 : forall (T : Type) (o : c08_ops T) rel perp thrq thrid m ev vs,
  c08_eigenvaluesvectors2 o rel perp thrq thrid m = C08_Ok (ev, vs) -> c08_eigenvalues2 o thrq m = C08_Ok ev.
Proof.
  intros T o rel perp thrq thrid m ev vs. unfold c08_eigenvaluesvectors2, c08_eigenvalues2.
  destruct (c08_ev2 o thrq m) as [e| |]; simpl; try discriminate.
  destruct (c08_evec2 o rel perp thrid m e) as [v| |]; simpl; try discriminate.
  intros H; inversion H; reflexivity.
Qed.

(* ... and a complex-eigenvalue MathError is raised by both or by neither *)
Lemma P_entrypoints_agree_2_err : forall (T : Type) (o : c08_ops T) rel perp thrq thrid m,
  c08_eigenvalues2 o thrq m = C08_MathError <-> c08_eigenvaluesvectors2 o rel perp thrq thrid m = C08_MathError.
Proof.
  intros T o rel perp thrq thrid m. unfold c08_eigenvaluesvectors2, c08_eigenvalues2.
  destruct (c08_ev2 o thrq m) as [e| |]; simpl; split; try discriminate; try reflexivity.
  destruct (c08_evec2 o rel perp thrid m e) as [v| |] eqn:E; simpl; try discriminate.
  (* c08_evec2 never raises MathError *)
  exfalso. unfold c08_evec2 in E. destruct m as [[[m00 m01] m10] m11]. destruct e as [l0 l1].
  unfold c08_infnorm2, c08_pick, c08_normalize, c08_divc, c08_bind in E.
  repeat match type of E with
  | context [if ?b then _ else _] => destruct b; try discriminate
  end.
Qed.

(* LAPACK entry points: eigenValuesLapack returns the eigenvalues eigenValuesVectorsLapack returns *)
Lemma P_entrypoints_agree_lapack : forall (T : Type) (d : T) syev n A,
  c08_eigenvalues_lapack d syev n A =
  match c08_eigenvaluesvectors_lapack d syev n A with C08_LOk (w, _) => C08_LOk w | C08_InvalidState => C08_InvalidState end.
Proof. reflexivity. Qed.

Lemma P_entrypoints_agree : forall (T : Type) (o : c08_ops T) rel perp thrq thrid m,
  (forall ev vs, c08_eigenvaluesvectors2 o rel perp thrq thrid m = C08_Ok (ev, vs) -> c08_eigenvalues2 o thrq m = C08_Ok ev) /\
  (c08_eigenvalues2 o thrq m = C08_MathError <-> c08_eigenvaluesvectors2 o rel perp thrq thrid m = C08_MathError).
Proof. intros. split. apply P_entrypoints_agree_2. apply P_entrypoints_agree_2_err. Qed.
