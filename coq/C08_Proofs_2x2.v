(* C08 — proofs, part 3: the 2x2 closed form in exact real arithmetic (instance c08_R_ops of the generic model). *)
From Coq Require Import Reals List ZArith Bool Lra Lia.
From DuneV Require Import Params_gen C08_Model C08_Spec.
Import ListNotations.
Local Open Scope R_scope.

Lemma Rltb_false : forall a b, b <= a -> c08_Rltb a b = false.
Proof. intros. unfold c08_Rltb. destruct (Rlt_dec a b); [lra | reflexivity]. Qed.
Lemma Rltb_true : forall a b, a < b -> c08_Rltb a b = true.
Proof. intros. unfold c08_Rltb. destruct (Rlt_dec a b); [reflexivity | lra]. Qed.
Lemma Rleb_true : forall a b, a <= b -> c08_Rleb a b = true.
Proof. intros. unfold c08_Rleb. destruct (Rle_dec a b); [reflexivity | lra]. Qed.
Lemma Rleb_false : forall a b, b < a -> c08_Rleb a b = false.
Proof. intros. unfold c08_Rleb. destruct (Rle_dec a b); [lra | reflexivity]. Qed.
Lemma Rzerob_false : forall a, a <> 0 -> c08_Rzerob a = false.
Proof. intros. unfold c08_Rzerob. destruct (Req_EM_T a 0); [contradiction | reflexivity]. Qed.

Lemma max_is_Rmax : forall a b, c08_max c08_R_ops a b = Rmax a b.
Proof.
  intros. unfold c08_max. simpl. unfold c08_Rltb, Rmax.
  destruct (Rlt_dec a b), (Rle_dec a b); try reflexivity; lra.
Qed.

Definition c08_nrm2x2 (m : c08_mat2 R) : R :=
  let '(a, b, c, d) := m in Rmax (Rabs c + Rabs d) (Rmax (Rabs a + Rabs b) 0).

Lemma infnorm_R : forall x00 x01 x10 x11,
  c08_infnorm2 c08_R_ops (x00, x01, x10, x11) = C08_Ok (Rmax (Rabs x10 + Rabs x11) (Rmax (Rabs x00 + Rabs x01) 0)).
Proof.
  intros. unfold c08_infnorm2, c08_onenorm, c08_divc. rewrite !max_is_Rmax. simpl.
  pose proof (Rabs_pos x00). pose proof (Rabs_pos x01). pose proof (Rabs_pos x10). pose proof (Rabs_pos x11).
  rewrite Rzerob_false by lra. simpl. f_equal.
  rewrite !Rplus_0_l. field. lra.
Qed.

Lemma nrm_nonneg : forall u v, 0 <= Rmax u (Rmax v 0).
Proof. intros. eapply Rle_trans; [|apply Rmax_r]. apply Rmax_r. Qed.

Lemma nrm_zero : forall x00 x01 x10 x11, Rmax (Rabs x10 + Rabs x11) (Rmax (Rabs x00 + Rabs x01) 0) <= 0 ->
  x00 = 0 /\ x01 = 0 /\ x10 = 0 /\ x11 = 0.
Proof.
  intros x00 x01 x10 x11 H.
  pose proof (Rmax_l (Rabs x10 + Rabs x11) (Rmax (Rabs x00 + Rabs x01) 0)).
  pose proof (Rmax_r (Rabs x10 + Rabs x11) (Rmax (Rabs x00 + Rabs x01) 0)).
  pose proof (Rmax_l (Rabs x00 + Rabs x01) 0).
  pose proof (Rabs_pos x00). pose proof (Rabs_pos x01). pose proof (Rabs_pos x10). pose proof (Rabs_pos x11).
  assert (Rabs x00 = 0) by lra. assert (Rabs x01 = 0) by lra. assert (Rabs x10 = 0) by lra. assert (Rabs x11 = 0) by lra.
  assert (forall x, Rabs x = 0 -> x = 0) as Z.
  { intros x E. destruct (Req_dec x 0) as [E'|E']; [exact E' | apply Rabs_no_R0 in E'; contradiction]. }
  repeat split; apply Z; assumption.
Qed.

(* ---- eigenvalues ---- *)
Definition c08_p (a d : R) := / 2 * (a + d).
Definition c08_s (a b d : R) := sqrt ((c08_p a d - d) * (c08_p a d - d) + b * b).

Lemma ev2_sym : forall thrq a b d,
  c08_ev2 c08_R_ops thrq (a, b, b, d) = C08_Ok (c08_p a d - c08_s a b d, c08_p a d + c08_s a b d).
Proof.
  intros. unfold c08_ev2. simpl. fold (c08_p a d).
  assert (0 <= (c08_p a d - d) * (c08_p a d - d) + b * b).
  { pose proof (Rle_0_sqr (c08_p a d - d)). pose proof (Rle_0_sqr b). unfold Rsqr in *. lra. }
  rewrite (Rltb_false ((c08_p a d - d) * (c08_p a d - d) + b * b) 0) by assumption. simpl.
  rewrite ?(Rltb_false ((c08_p a d - d) * (c08_p a d - d) + b * b) 0) by assumption. reflexivity.
Qed.

Lemma s_facts : forall a b d, 0 <= c08_s a b d /\ c08_s a b d * c08_s a b d = (c08_p a d - d) * (c08_p a d - d) + b * b.
Proof.
  intros. unfold c08_s. split. apply sqrt_pos. apply sqrt_sqrt.
  pose proof (Rle_0_sqr (c08_p a d - d)). pose proof (Rle_0_sqr b). unfold Rsqr in *. lra.
Qed.

Lemma evals_ok : forall a b d, c08_evals2_ok (a, b, b, d) (c08_p a d - c08_s a b d, c08_p a d + c08_s a b d).
Proof.
  intros. destruct (s_facts a b d) as [H0 H1]. unfold c08_evals2_ok, c08_charpoly2, c08_trace2. simpl.
  unfold c08_p in *. repeat split; nra.
Qed.

Lemma vieta : forall a b d, let l0 := c08_p a d - c08_s a b d in let l1 := c08_p a d + c08_s a b d in
  l0 + l1 = a + d /\ l0 * l1 = a * d - b * b.
Proof. intros. destruct (s_facts a b d) as [H0 H1]. unfold l0, l1, c08_p in *. split; nra. Qed.

(* ---- eigenvectors ---- *)
Lemma normalize_R : forall x y, ~ (x = 0 /\ y = 0) ->
  let r := sqrt (x * x + y * y) in r <> 0 /\ r * r = x * x + y * y /\ c08_normalize c08_R_ops (x, y) = C08_Ok (x / r, y / r).
Proof.
  intros x y H r.
  assert (0 < x * x + y * y) as Hp.
  { destruct (Req_dec x 0) as [E|E]; [destruct (Req_dec y 0); [tauto | nra] | nra]. }
  assert (r <> 0) as Hr by (unfold r; intros E; apply sqrt_eq_0 in E; lra).
  split; [exact Hr|]. split; [unfold r; apply sqrt_sqrt; lra|].
  unfold c08_normalize, c08_norm2, c08_norm2sq, c08_divc. simpl. rewrite !Rplus_0_l. fold r.
  rewrite Rzerob_false by exact Hr. reflexivity.
Qed.

Lemma pick_R : forall x0 y0 x1 y1, ~ (x0 = 0 /\ y0 = 0 /\ x1 = 0 /\ y1 = 0) ->
  exists x y, ((x, y) = (x0, y0) \/ (x, y) = (x1, y1)) /\
    let r := sqrt (x * x + y * y) in r <> 0 /\ r * r = x * x + y * y /\
    c08_pick c08_R_ops (x0, y0) (x1, y1) = C08_Ok (x / r, y / r).
Proof.
  intros x0 y0 x1 y1 H. unfold c08_pick, c08_norm2sq. simpl. rewrite !Rplus_0_l.
  unfold c08_Rleb. destruct (Rle_dec (x1 * x1 + y1 * y1) (x0 * x0 + y0 * y0)) as [L|L].
  - exists x0, y0. split; [left; reflexivity|]. apply normalize_R. intros [E1 E2]. subst.
    assert (x1 = 0) by nra. assert (y1 = 0) by nra. tauto.
  - exists x1, y1. split; [right; reflexivity|]. apply normalize_R. intros [E1 E2]. subst. nra.
Qed.

Lemma eig_scale : forall a b c d l x y r, a * x + b * y = l * x -> c * x + d * y = l * y ->
  c08_eigpair2 (a, b, c, d) l (x / r, y / r).
Proof.
  intros. unfold c08_eigpair2, c08_mv2. simpl. f_equal.
  - replace (a * (x / r) + b * (y / r)) with ((a * x + b * y) / r) by (unfold Rdiv; ring). rewrite H. unfold Rdiv; ring.
  - replace (c * (x / r) + d * (y / r)) with ((c * x + d * y) / r) by (unfold Rdiv; ring). rewrite H0. unfold Rdiv; ring.
Qed.

Lemma unit_scale : forall x y r, r <> 0 -> r * r = x * x + y * y -> c08_unit2 (x / r, y / r).
Proof.
  intros x y r Hr H. unfold c08_unit2. simpl.
  replace (x / r * (x / r) + y / r * (y / r)) with ((x * x + y * y) / (r * r)) by (field; exact Hr).
  rewrite <- H. field. exact Hr.
Qed.

Lemma orth_scale : forall x0 y0 r0 x1 y1 r1, x0 * x1 + y0 * y1 = 0 -> c08_orth2 (x0 / r0, y0 / r0) (x1 / r1, y1 / r1).
Proof.
  intros. unfold c08_orth2. simpl.
  replace (x0 / r0 * (x1 / r1) + y0 / r0 * (y1 / r1)) with ((x0 * x1 + y0 * y1) * (/ r0 * / r1)) by (unfold Rdiv; ring).
  rewrite H. ring.
Qed.

(* the columns of A - l' I are eigenvectors for l  (Cayley-Hamilton), given l + l' = trace and l l' = det *)
Lemma col_eig : forall a b d l l', l + l' = a + d -> l * l' = a * d - b * b ->
  (a * (a - l') + b * b = l * (a - l')) /\ (b * (a - l') + d * b = l * b) /\
  (a * b + b * (d - l') = l * b) /\ (b * b + d * (d - l') = l * (d - l')).
Proof. intros. repeat split; nra. Qed.

(* effective threshold of the identity special case *)
Definition c08_thr_eff (rel : bool) (thrid : R) (m : c08_mat2 R) : R := if rel then thrid * c08_nrm2x2 m else thrid.

Lemma evec2_identity : forall rel perp thrid a b d l0 l1,
  c08_dev2 (a, b, b, d) l0 <= c08_thr_eff rel thrid (a, b, b, d) ->
  c08_evec2 c08_R_ops rel perp thrid (a, b, b, d) (l0, l1) = C08_Ok ((1, 0), (0, 1)).
Proof.
  intros rel perp thrid a b d l0 l1 H.
  unfold c08_thr_eff, c08_nrm2x2, c08_dev2 in H.
  destruct rel; unfold c08_evec2; change (c08_sub c08_R_ops) with Rminus; rewrite !infnorm_R; cbn [c08_bind];
    change (c08_leb c08_R_ops) with c08_Rleb; change (c08_mul c08_R_ops) with Rmult;
    rewrite Rleb_true by exact H; reflexivity.
Qed.

Lemma evec2_ok : forall rel perp thrid a b d l0 l1,
  l0 + l1 = a + d -> l0 * l1 = a * d - b * b ->
  0 <= c08_thr_eff rel thrid (a, b, b, d) ->
  c08_thr_eff rel thrid (a, b, b, d) < c08_dev2 (a, b, b, d) l0 \/ c08_dev2 (a, b, b, d) l0 = 0 ->
  exists vs, c08_evec2 c08_R_ops rel perp thrid (a, b, b, d) (l0, l1) = C08_Ok vs /\ c08_evecs2_ok (a, b, b, d) (l0, l1) vs.
Proof.
  intros rel perp thrid a b d l0 l1 H1 H2 Ht [Hbig | Hz].
  2: { (* multiple of the identity *)
    exists ((1, 0), (0, 1)). split. apply evec2_identity. lra.
    unfold c08_dev2 in Hz. destruct (nrm_zero (a - l0) b b (d - l0)) as (E1 & E2 & _ & E4). lra.
    unfold c08_evecs2_ok, c08_eigpair2, c08_mv2, c08_unit2, c08_orth2. simpl.
    assert (l1 = d) by lra. subst b. repeat split; try (f_equal; lra); lra. }
  (* generic branch *)
  assert (0 < c08_dev2 (a, b, b, d) l0) as Hpos by lra.
  assert (~ (a - l0 = 0 /\ b = 0 /\ b = 0 /\ d - l0 = 0)) as Hnz0.
  { intros (E1 & E2 & _ & E4). unfold c08_dev2 in Hpos. rewrite E1, E2, E4 in Hpos.
    rewrite Rabs_R0, Rplus_0_l in Hpos. unfold Rmax in Hpos. repeat destruct (Rle_dec _ _) in Hpos; lra. }
  assert (~ (a - l1 = 0 /\ b = 0 /\ b = 0 /\ d - l1 = 0)) as Hnz1.
  { intros (E1 & E2 & _ & E4). apply Hnz0. repeat split; lra. }
  destruct (col_eig a b d l0 l1 H1 H2) as (C1 & C2 & C3 & C4).
  assert (l1 + l0 = a + d) as H1' by lra. assert (l1 * l0 = a * d - b * b) as H2' by lra.
  destruct (col_eig a b d l1 l0 H1' H2') as (D1 & D2 & D3 & D4).
  destruct (pick_R (a - l1) b b (d - l1) Hnz1) as (x0 & y0 & Hsel0 & Hr0 & Hrr0 & Hp0).
  destruct (pick_R (a - l0) b b (d - l0) Hnz0) as (x1 & y1 & Hsel1 & Hr1 & Hrr1 & Hp1).
  set (r0 := sqrt (x0 * x0 + y0 * y0)) in *. set (r1 := sqrt (x1 * x1 + y1 * y1)) in *.
  assert (a * x0 + b * y0 = l0 * x0 /\ b * x0 + d * y0 = l0 * y0) as [E0a E0b].
  { destruct Hsel0 as [E|E]; inversion E; subst; split; lra. }
  assert (a * x1 + b * y1 = l1 * x1 /\ b * x1 + d * y1 = l1 * y1) as [E1a E1b].
  { destruct Hsel1 as [E|E]; inversion E; subst; split; lra. }
  assert (x0 * x1 + y0 * y1 = 0) as Horth.
  { destruct Hsel0 as [E|E]; inversion E; destruct Hsel1 as [F|F]; inversion F; subst; nra. }
  assert (c08_evec2 c08_R_ops rel perp thrid (a, b, b, d) (l0, l1) =
          C08_Ok ((x0 / r0, y0 / r0), if perp then (- (y0 / r0), x0 / r0) else (x1 / r1, y1 / r1))) as Hrun.
  { unfold c08_thr_eff, c08_nrm2x2, c08_dev2 in Hbig.
    destruct rel; unfold c08_evec2; change (c08_sub c08_R_ops) with Rminus; rewrite !infnorm_R; cbn [c08_bind];
      change (c08_leb c08_R_ops) with c08_Rleb; change (c08_mul c08_R_ops) with Rmult;
      rewrite Rleb_false by exact Hbig; rewrite Hp0; cbn [c08_bind];
      (destruct perp; [reflexivity|]); rewrite Hp1; reflexivity. }
  eexists. split; [exact Hrun|].
  unfold c08_evecs2_ok. simpl fst. simpl snd.
  split; [apply eig_scale; assumption|].
  destruct perp.
  - split.
    { replace (- (y0 / r0)) with ((- y0) / r0) by (unfold Rdiv; ring). apply eig_scale; nra. }
    split; [apply unit_scale; assumption|]. split.
    { replace (- (y0 / r0)) with ((- y0) / r0) by (unfold Rdiv; ring). apply unit_scale; [assumption | lra]. }
    replace (- (y0 / r0)) with ((- y0) / r0) by (unfold Rdiv; ring). apply orth_scale. ring.
  - split; [apply eig_scale; assumption|].
    split; [apply unit_scale; assumption|]. split; [apply unit_scale; assumption|].
    apply orth_scale. exact Horth.
Qed.

(* ------------------------------------------------------------------ main statements *)
Definition c08_l0 (a b d : R) := c08_p a d - c08_s a b d.
Definition c08_l1 (a b d : R) := c08_p a d + c08_s a b d.

(* when the identity special case is not taken wrongly, the result is an eigen-decomposition: any variant, any thresholds *)
Lemma P_2x2_general : forall rel perp thrq thrid a b d,
  0 <= c08_thr_eff rel thrid (a, b, b, d) ->
  c08_thr_eff rel thrid (a, b, b, d) < c08_dev2 (a, b, b, d) (c08_l0 a b d) \/ c08_dev2 (a, b, b, d) (c08_l0 a b d) = 0 ->
  exists r, c08_eigenvaluesvectors2 c08_R_ops rel perp thrq thrid (a, b, b, d) = C08_Ok r /\
            fst r = (c08_l0 a b d, c08_l1 a b d) /\ c08_decomp2 (a, b, b, d) r.
Proof.
  intros rel perp thrq thrid a b d Ht Hc.
  destruct (vieta a b d) as [V1 V2].
  destruct (evec2_ok rel perp thrid a b d (c08_l0 a b d) (c08_l1 a b d) V1 V2 Ht Hc) as (vs & Hrun & Hok).
  exists ((c08_l0 a b d, c08_l1 a b d), vs). split; [|split; [reflexivity|]].
  - unfold c08_eigenvaluesvectors2. rewrite ev2_sym. cbn [c08_bind]. fold (c08_l0 a b d) (c08_l1 a b d).
    rewrite Hrun. reflexivity.
  - split; [apply evals_ok | exact Hok].
Qed.

(* C08_2x2_exact: thresholds 0 (either variant of either switch): every real symmetric matrix *)
Lemma P_2x2_exact : forall rel perp thrq m, c08_sym2 m ->
  exists r, c08_eigenvaluesvectors2 c08_R_ops rel perp thrq 0 m = C08_Ok r /\ c08_decomp2 m r.
Proof.
  intros rel perp thrq [[[a b] c] d] Hs. simpl in Hs. subst c.
  assert (c08_thr_eff rel 0 (a, b, b, d) = 0) as E by (unfold c08_thr_eff; destruct rel; [apply Rmult_0_l | reflexivity]).
  destruct (P_2x2_general rel perp thrq 0 a b d) as (r & H1 & _ & H2).
  - rewrite E. lra.
  - rewrite E. unfold c08_dev2. pose proof (nrm_nonneg (Rabs b + Rabs (d - c08_l0 a b d)) (Rabs (a - c08_l0 a b d) + Rabs b)). lra.
  - exists r. tauto.
Qed.

(* the eigenvalue part holds for every threshold and both entry points *)
Lemma P_2x2_eigenvalues : forall thrq m, c08_sym2 m ->
  exists ev, c08_eigenvalues2 c08_R_ops thrq m = C08_Ok ev /\ c08_evals2_ok m ev.
Proof.
  intros thrq [[[a b] c] d] Hs. simpl in Hs. subst c. eexists. split.
  unfold c08_eigenvalues2. apply ev2_sym. apply evals_ok.
Qed.

(* ---- F-C08-1: every positive ABSOLUTE threshold is refuted ---- *)
Lemma witness_values : forall t, 0 <= t -> c08_l0 (2 * t) t (2 * t) = t /\ c08_l1 (2 * t) t (2 * t) = 3 * t.
Proof.
  intros t Ht. unfold c08_l0, c08_l1, c08_s.
  assert (c08_p (2 * t) (2 * t) = 2 * t) as Ep by (unfold c08_p; field). rewrite Ep.
  replace ((2 * t - 2 * t) * (2 * t - 2 * t) + t * t) with (t * t) by ring.
  rewrite sqrt_square by exact Ht. split; ring.
Qed.

Lemma witness_dev : forall t, 0 <= t -> c08_dev2 (2 * t, t, t, 2 * t) t = 2 * t.
Proof.
  intros t Ht. unfold c08_dev2. replace (2 * t - t) with t by ring. rewrite (Rabs_pos_eq t Ht).
  rewrite (Rmax_left (t + t) 0) by lra. rewrite Rmax_left by lra. ring.
Qed.

Lemma P_2x2_abs_refuted : forall perp thrq thrid, 0 < thrid ->
  exists m, c08_sym2 m /\ exists r, c08_eigenvaluesvectors2 c08_R_ops false perp thrq thrid m = C08_Ok r /\ ~ c08_decomp2 m r.
Proof.
  intros perp thrq thrid Hpos. set (t := thrid / 4). assert (0 < t) as Ht by (unfold t; lra).
  exists (2 * t, t, t, 2 * t). split; [reflexivity|].
  destruct (witness_values t (Rlt_le _ _ Ht)) as [E0 E1].
  exists ((t, 3 * t), ((1, 0), (0, 1))). split.
  - unfold c08_eigenvaluesvectors2. rewrite ev2_sym. cbn [c08_bind].
    fold (c08_l0 (2 * t) t (2 * t)) (c08_l1 (2 * t) t (2 * t)). rewrite E0, E1.
    rewrite evec2_identity. reflexivity.
    rewrite witness_dev by lra. unfold c08_thr_eff, t. lra.
  - intros [_ (H & _)]. unfold c08_eigpair2, c08_mv2 in H. simpl in H. inversion H. lra.
Qed.

(* ... and so is scale invariance: A is decomposed correctly, A/4 is not *)
Lemma P_2x2_scale_refuted : forall perp thrq thrid, 0 < thrid ->
  exists m s, c08_sym2 m /\ 0 < s /\
    (exists r, c08_eigenvaluesvectors2 c08_R_ops false perp thrq thrid m = C08_Ok r /\ c08_decomp2 m r) /\
    (exists r', c08_eigenvaluesvectors2 c08_R_ops false perp thrq thrid (c08_scale2 s m) = C08_Ok r' /\ ~ c08_decomp2 (c08_scale2 s m) r').
Proof.
  intros perp thrq thrid Hpos. set (t := thrid / 4). assert (0 < t) as Ht by (unfold t; lra).
  exists (2 * thrid, thrid, thrid, 2 * thrid), (/ 4). split; [reflexivity|]. split; [lra|]. split.
  - destruct (P_2x2_general false perp thrq thrid (2 * thrid) thrid (2 * thrid)) as (r & H1 & _ & H2).
    + simpl. lra.
    + left. destruct (witness_values thrid (Rlt_le _ _ Hpos)) as [E0 _]. rewrite E0. rewrite witness_dev by lra. simpl. lra.
    + exists r. tauto.
  - destruct (witness_values t (Rlt_le _ _ Ht)) as [E0 E1].
    exists ((t, 3 * t), ((1, 0), (0, 1))).
    assert (c08_scale2 (/ 4) (2 * thrid, thrid, thrid, 2 * thrid) = (2 * t, t, t, 2 * t)) as Es.
    { unfold c08_scale2, t. f_equal; [f_equal; [f_equal|]|]; field. }
    rewrite Es. split.
    + unfold c08_eigenvaluesvectors2. rewrite ev2_sym. cbn [c08_bind].
      fold (c08_l0 (2 * t) t (2 * t)) (c08_l1 (2 * t) t (2 * t)). rewrite E0, E1.
      rewrite evec2_identity. reflexivity.
      rewrite witness_dev by lra. unfold c08_thr_eff, t. lra.
    + intros [_ (H & _)]. unfold c08_eigpair2, c08_mv2 in H. simpl in H. inversion H. lra.
Qed.

(* ---- the RELATIVE threshold (fixes/C08-1.patch): validity of the result is invariant under scaling ---- *)
Lemma p_scale : forall s a d, c08_p (s * a) (s * d) = s * c08_p a d.
Proof. intros. unfold c08_p. ring. Qed.
Lemma s_scale : forall s a b d, 0 <= s -> c08_s (s * a) (s * b) (s * d) = s * c08_s a b d.
Proof.
  intros s a b d Hs. unfold c08_s. rewrite p_scale.
  replace ((s * c08_p a d - s * d) * (s * c08_p a d - s * d) + s * b * (s * b))
    with ((s * s) * ((c08_p a d - d) * (c08_p a d - d) + b * b)) by ring.
  rewrite sqrt_mult.
  - rewrite sqrt_square by exact Hs. reflexivity.
  - nra.
  - pose proof (Rle_0_sqr (c08_p a d - d)). pose proof (Rle_0_sqr b). unfold Rsqr in *. lra.
Qed.
Lemma abs_scale : forall s x, 0 <= s -> Rabs (s * x) = s * Rabs x.
Proof. intros. rewrite Rabs_mult, (Rabs_pos_eq s) by assumption. reflexivity. Qed.
Lemma nrmform_scale : forall s x00 x01 x10 x11, 0 <= s ->
  Rmax (Rabs (s * x10) + Rabs (s * x11)) (Rmax (Rabs (s * x00) + Rabs (s * x01)) 0) =
  s * Rmax (Rabs x10 + Rabs x11) (Rmax (Rabs x00 + Rabs x01) 0).
Proof.
  intros. rewrite !abs_scale by assumption. rewrite <- !Rmult_plus_distr_l.
  replace 0 with (s * 0) at 1 by ring. rewrite !RmaxRmult by assumption. reflexivity.
Qed.

Lemma P_2x2_rel_scale : forall perp thrq thrid a b d s, 0 < s -> 0 <= thrid ->
  c08_thr_eff true thrid (a, b, b, d) < c08_dev2 (a, b, b, d) (c08_l0 a b d) \/ c08_dev2 (a, b, b, d) (c08_l0 a b d) = 0 ->
  exists r', c08_eigenvaluesvectors2 c08_R_ops true perp thrq thrid (c08_scale2 s (a, b, b, d)) = C08_Ok r' /\
             fst r' = (s * c08_l0 a b d, s * c08_l1 a b d) /\ c08_decomp2 (c08_scale2 s (a, b, b, d)) r'.
Proof.
  intros perp thrq thrid a b d s Hs Ht Hc. unfold c08_scale2.
  assert (c08_l0 (s * a) (s * b) (s * d) = s * c08_l0 a b d) as E0.
  { unfold c08_l0. rewrite p_scale, s_scale by lra. ring. }
  assert (c08_l1 (s * a) (s * b) (s * d) = s * c08_l1 a b d) as E1.
  { unfold c08_l1. rewrite p_scale, s_scale by lra. ring. }
  assert (c08_dev2 (s * a, s * b, s * b, s * d) (s * c08_l0 a b d) = s * c08_dev2 (a, b, b, d) (c08_l0 a b d)) as Ed.
  { unfold c08_dev2. rewrite <- !Rmult_minus_distr_l. apply nrmform_scale. lra. }
  assert (c08_thr_eff true thrid (s * a, s * b, s * b, s * d) = s * c08_thr_eff true thrid (a, b, b, d)) as Et.
  { unfold c08_thr_eff, c08_nrm2x2. rewrite nrmform_scale by lra. ring. }
  assert (0 <= c08_thr_eff true thrid (a, b, b, d)) as Hn.
  { unfold c08_thr_eff, c08_nrm2x2. apply Rmult_le_pos; [exact Ht | apply nrm_nonneg]. }
  destruct (P_2x2_general true perp thrq thrid (s * a) (s * b) (s * d)) as (r & H1 & H2 & H3).
  - rewrite Et. apply Rmult_le_pos; lra.
  - rewrite E0, Ed, Et. destruct Hc as [Hc|Hc]; [left; apply Rmult_lt_compat_l; assumption | right; rewrite Hc; ring].
  - exists r. rewrite <- E0, <- E1. tauto.
Qed.

(* non-vacuity: symmetric and non-symmetric matrices exist; a concrete run of the model *)
Lemma P_ex_sym2 : c08_sym2 (2, 1, 1, 2) /\ ~ c08_sym2 (1, 2, 0, 3) /\
  exists vs, c08_eigenvaluesvectors2 c08_R_ops false false (/ 10 ^ 14) 0 (2, 1, 1, 2) = C08_Ok ((1, 3), vs).
Proof.
  split; [reflexivity|]. split; [simpl; lra|].
  destruct (P_2x2_general false false (/ 10 ^ 14) 0 2 1 2) as (r & H1 & H2 & _).
  - simpl. lra.
  - unfold c08_dev2. simpl. pose proof (nrm_nonneg (Rabs 1 + Rabs (2 - c08_l0 2 1 2)) (Rabs (2 - c08_l0 2 1 2) + Rabs 1)). lra.
  - destruct r as [ev vs]. simpl in H2. exists vs. rewrite H1. f_equal. f_equal. rewrite H2.
    destruct (witness_values 1) as [E0 E1]; [lra|]. rewrite !Rmult_1_r in E0, E1. rewrite E0, E1. f_equal; ring.
Qed.

(* ---- C08_scaling_exact, eigenvalue part (both entry points, every threshold): ev(s A) = s ev(A) for s >= 0 ---- *)
Lemma P_2x2_eigenvalues_scale : forall thrq a b d s, 0 <= s ->
  c08_eigenvalues2 c08_R_ops thrq (a, b, b, d) = C08_Ok (c08_l0 a b d, c08_l1 a b d) /\
  c08_eigenvalues2 c08_R_ops thrq (c08_scale2 s (a, b, b, d)) = C08_Ok (s * c08_l0 a b d, s * c08_l1 a b d).
Proof.
  intros thrq a b d s Hs. unfold c08_eigenvalues2, c08_scale2. rewrite !ev2_sym. split; [reflexivity|].
  rewrite p_scale, s_scale by exact Hs. unfold c08_l0, c08_l1. f_equal. f_equal; ring.
Qed.

(* ---- n = 1 ---- *)
Lemma P_1x1_exact : forall m : R, let '(w, v) := c08_eig1 c08_R_ops m in w = m /\ m * v = w * v /\ v * v = 1.
Proof. intros m. simpl. repeat split; ring. Qed.

(* ---- the variant of the source text (re-read on every run): relative identity threshold, rotated second vector ---- *)
Lemma P_2x2_source_variant : c08_param_id_rel = true /\ c08_param_perp = true.
Proof. split; reflexivity. Qed.

(* hence the routine AS THE SOURCE NOW WRITES IT (threshold factor thrid >= 0, e.g. epsilon) is scale invariant *)
Lemma P_2x2_source_scale : forall thrq thrid a b d s, 0 < s -> 0 <= thrid ->
  c08_thr_eff c08_param_id_rel thrid (a, b, b, d) < c08_dev2 (a, b, b, d) (c08_l0 a b d) \/ c08_dev2 (a, b, b, d) (c08_l0 a b d) = 0 ->
  exists r', c08_eigenvaluesvectors2 c08_R_ops c08_param_id_rel c08_param_perp thrq thrid (c08_scale2 s (a, b, b, d)) = C08_Ok r' /\
             fst r' = (s * c08_l0 a b d, s * c08_l1 a b d) /\ c08_decomp2 (c08_scale2 s (a, b, b, d)) r'.
Proof. exact (P_2x2_rel_scale c08_param_perp). Qed.

(* ---- the only inexact branch (thresholds > 0): the identity special case has residual at most the threshold ---- *)
Lemma P_2x2_identity_residual : forall rel perp thrq thrid a b d,
  c08_dev2 (a, b, b, d) (c08_l0 a b d) <= c08_thr_eff rel thrid (a, b, b, d) ->
  let t := c08_thr_eff rel thrid (a, b, b, d) in
  c08_eigenvaluesvectors2 c08_R_ops rel perp thrq thrid (a, b, b, d) = C08_Ok ((c08_l0 a b d, c08_l1 a b d), ((1, 0), (0, 1))) /\
  c08_evals2_ok (a, b, b, d) (c08_l0 a b d, c08_l1 a b d) /\
  (* A e0 - l0 e0 = (a - l0, b) and A e1 - l1 e1 = (b, d - l1), componentwise at most the (effective) threshold *)
  Rabs (a - c08_l0 a b d) <= t /\ Rabs b <= t /\ Rabs (d - c08_l1 a b d) <= t.
Proof.
  intros rel perp thrq thrid a b d H t. fold t in H.
  split; [|split; [apply evals_ok|]].
  - unfold c08_eigenvaluesvectors2. rewrite ev2_sym. cbn [c08_bind]. fold (c08_l0 a b d) (c08_l1 a b d).
    rewrite evec2_identity by exact H. reflexivity.
  - unfold c08_dev2 in H. set (l0 := c08_l0 a b d) in *.
    pose proof (Rmax_l (Rabs b + Rabs (d - l0)) (Rmax (Rabs (a - l0) + Rabs b) 0)) as M1.
    pose proof (Rmax_r (Rabs b + Rabs (d - l0)) (Rmax (Rabs (a - l0) + Rabs b) 0)) as M2.
    pose proof (Rmax_l (Rabs (a - l0) + Rabs b) 0) as M3.
    pose proof (Rabs_pos (a - l0)). pose proof (Rabs_pos b). pose proof (Rabs_pos (d - l0)).
    assert (d - c08_l1 a b d = - (a - l0)) as E by (unfold l0, c08_l0, c08_l1, c08_p; field).
    rewrite E, Rabs_Ropp. repeat split; lra.
Qed.

(* complete characterisation for ANY non-negative threshold (absolute or relative): the routine never fails on symmetric input;
   either it returns an exact eigen-decomposition, or it took the identity special case and the residuals are <= threshold *)
Lemma P_2x2_any_threshold : forall rel perp thrq thrid a b d,
  let t := c08_thr_eff rel thrid (a, b, b, d) in 0 <= t ->
  exists vs, c08_eigenvaluesvectors2 c08_R_ops rel perp thrq thrid (a, b, b, d) = C08_Ok ((c08_l0 a b d, c08_l1 a b d), vs) /\
    c08_evals2_ok (a, b, b, d) (c08_l0 a b d, c08_l1 a b d) /\
    (c08_evecs2_ok (a, b, b, d) (c08_l0 a b d, c08_l1 a b d) vs \/
     (vs = ((1, 0), (0, 1)) /\ Rabs (a - c08_l0 a b d) <= t /\ Rabs b <= t /\ Rabs (d - c08_l1 a b d) <= t)).
Proof.
  intros rel perp thrq thrid a b d t Ht. fold t.
  destruct (Rle_lt_dec (c08_dev2 (a, b, b, d) (c08_l0 a b d)) t) as [Hle|Hlt].
  - destruct (P_2x2_identity_residual rel perp thrq thrid a b d Hle) as (H1 & H2 & H3).
    exists ((1, 0), (0, 1)). split; [exact H1|]. split; [exact H2|]. right. split; [reflexivity | exact H3].
  - destruct (P_2x2_general rel perp thrq thrid a b d Ht (or_introl Hlt)) as ([ev vs] & H1 & H2 & H3).
    simpl in H2. subst ev. exists vs. split; [exact H1|]. destruct H3 as [H3 H4]. split; [exact H3|]. left. exact H4.
Qed.
