(* C08 — proofs, part 4: Smith's trigonometric formula for the eigenvalues of a real symmetric 3x3 matrix
   (eigenValues3dImpl, non-diagonal branch) in exact real arithmetic: acos / cos are the real functions. *)
From Coq Require Import Reals Lra Lia.
From DuneV Require Import C08_Spec.
Local Open Scope R_scope.

Lemma cos_3a : forall x, cos (3 * x) = 4 * (cos x * cos x * cos x) - 3 * cos x.
Proof.
  intros x. replace (3 * x) with (2 * x + x) by ring.
  rewrite cos_plus, cos_2a_cos, sin_2a. pose proof (sin2_cos2 x) as H. unfold Rsqr in H.
  assert (sin x * sin x = 1 - cos x * cos x) as E by lra.
  replace (2 * sin x * cos x * sin x) with (2 * cos x * (sin x * sin x)) by ring. rewrite E. ring.
Qed.

Lemma cos_2PI3 : cos (2 * PI / 3) = - / 2.
Proof.
  replace (2 * PI / 3) with (PI - PI / 3) by field.
  rewrite cos_minus, cos_PI, sin_PI, cos_PI3. lra.
Qed.

Lemma cos_sum3 : forall x, cos (x - 2 * PI / 3) = - cos x - cos (x + 2 * PI / 3).
Proof. intros x. rewrite cos_minus, cos_plus, cos_2PI3. lra. Qed.

(* the quantity r = det(B)/2 of eigenValues3dImpl BEFORE the clamp to [-1,1] *)
Definition c08_smith3_r (a00 a01 a02 a11 a12 a22 : R) : R :=
  let p1 := a01 * a01 + a02 * a02 + a12 * a12 in
  let q := a00 / 3 + a11 / 3 + a22 / 3 in
  let p2 := (a00 - q) * (a00 - q) + (a11 - q) * (a11 - q) + (a22 - q) * (a22 - q) + 2 * p1 in
  let p := sqrt (p2 / 6) in
  c08_det3 (1 / p * (a00 - q * 1)) (1 / p * (a01 - q * 0)) (1 / p * (a02 - q * 0))
           (1 / p * (a01 - q * 0)) (1 / p * (a11 - q * 1)) (1 / p * (a12 - q * 0))
           (1 / p * (a02 - q * 0)) (1 / p * (a12 - q * 0)) (1 / p * (a22 - q * 1)) / 2.

Section Smith.
Variables a00 a01 a02 a11 a12 a22 : R.
Let q := a00 / 3 + a11 / 3 + a22 / 3.
Let p1 := a01 * a01 + a02 * a02 + a12 * a12.
Let p2 := (a00 - q) * (a00 - q) + (a11 - q) * (a11 - q) + (a22 - q) * (a22 - q) + 2 * p1.
Let p := sqrt (p2 / 6).
Let rraw := c08_det3 (1 / p * (a00 - q * 1)) (1 / p * (a01 - q * 0)) (1 / p * (a02 - q * 0))
                     (1 / p * (a01 - q * 0)) (1 / p * (a11 - q * 1)) (1 / p * (a12 - q * 0))
                     (1 / p * (a02 - q * 0)) (1 / p * (a12 - q * 0)) (1 / p * (a22 - q * 1)) / 2.

Hypothesis Hp1 : 0 < p1.                      (* the non-diagonal branch (the code tests p1 > epsilon) *)
Hypothesis Hclamp : -1 <= rraw <= 1.          (* the clamp is inactive *)

Lemma p2_pos : 0 < p2.
Proof.
  unfold p2. pose proof (Rle_0_sqr (a00 - q)). pose proof (Rle_0_sqr (a11 - q)). pose proof (Rle_0_sqr (a22 - q)).
  unfold Rsqr in *. lra.
Qed.
Lemma p_pos : 0 < p.
Proof. unfold p. apply sqrt_lt_R0. pose proof p2_pos. lra. Qed.
Lemma p_sq : p * p = p2 / 6.
Proof. unfold p. apply sqrt_sqrt. pose proof p2_pos. lra. Qed.

(* every angle theta with cos(3 theta) = r gives a root q + 2 p cos(theta) of the characteristic polynomial *)
Lemma root_of_angle : forall theta, cos (3 * theta) = rraw ->
  c08_charpoly3 a00 a01 a02 a11 a12 a22 (q + 2 * p * cos theta) = 0.
Proof.
  intros theta H. rewrite cos_3a in H. set (c := cos theta) in *.
  pose proof p_pos as Hp. pose proof p_sq as Hpp.
  set (D := c08_det3 (a00 - q) a01 a02 a01 (a11 - q) a12 a02 a12 (a22 - q)).
  assert (2 * rraw * (p * p * p) = D) as HD.
  { unfold rraw, D, c08_det3. field. lra. }
  assert (c08_charpoly3 a00 a01 a02 a11 a12 a22 (q + 2 * p * c) =
          (2 * p * c) * (2 * p * c) * (2 * p * c) - (p2 / 2) * (2 * p * c) - D) as E.
  { unfold c08_charpoly3, D, c08_det3, p2, p1, q. field. }
  rewrite E. rewrite <- HD.
  replace (p2 / 2) with (3 * (p * p)) by (rewrite Hpp; field).
  replace (2 * p * c * (2 * p * c) * (2 * p * c) - 3 * (p * p) * (2 * p * c) - 2 * rraw * (p * p * p))
    with (2 * (p * p * p) * (4 * (c * c * c) - 3 * c - rraw)) by ring.
  rewrite H. ring.
Qed.

Definition smith := c08_smith3 a00 a01 a02 a11 a12 a22.

Lemma smith_unfold : let phi := acos rraw / 3 in
  smith = (q + 2 * p * cos (phi + 2 * PI / 3), q + 2 * p * cos (phi - 2 * PI / 3), q + 2 * p * cos phi).
Proof.
  intros phi. unfold smith, c08_smith3. cbv zeta. fold q. fold p1. fold p2. fold p. fold rraw.
  assert (c08_clamp rraw (-1) 1 = rraw) as Ec.
  { unfold c08_clamp. destruct (Rlt_dec rraw (-1)); [lra|]. destruct (Rlt_dec 1 rraw); [lra | reflexivity]. }
  rewrite Ec. fold phi. f_equal. f_equal. rewrite cos_sum3. ring.
Qed.

Lemma P_smith3 : let '(e0, e1, e2) := smith in
  e0 <= e1 /\ e1 <= e2 /\ e0 + e1 + e2 = a00 + a11 + a22 /\
  c08_charpoly3 a00 a01 a02 a11 a12 a22 e0 = 0 /\ c08_charpoly3 a00 a01 a02 a11 a12 a22 e1 = 0 /\
  c08_charpoly3 a00 a01 a02 a11 a12 a22 e2 = 0.
Proof.
  rewrite smith_unfold. set (phi := acos rraw / 3).
  pose proof p_pos as Hp. pose proof (acos_bound rraw) as [Hb0 Hb1]. pose proof PI_RGT_0 as Hpi.
  assert (0 <= phi <= PI / 3) as [Hphi0 Hphi1] by (unfold phi; split; lra).
  assert (cos (3 * phi) = rraw) as H3.
  { unfold phi. replace (3 * (acos rraw / 3)) with (acos rraw) by field. apply cos_acos; lra. }
  assert (cos (phi + 2 * PI / 3) <= cos (phi - 2 * PI / 3)) as O1.
  { rewrite <- (cos_neg (phi - 2 * PI / 3)). apply cos_decr_1; lra. }
  assert (cos (phi - 2 * PI / 3) <= cos phi) as O2.
  { rewrite <- (cos_neg (phi - 2 * PI / 3)). apply cos_decr_1; lra. }
  split; [nra|]. split; [nra|]. split.
  - rewrite cos_sum3. unfold q. field.
  - split; [|split]; apply root_of_angle.
    + replace (3 * (phi + 2 * PI / 3)) with (3 * phi + 2 * PI) by field. rewrite cos_plus, cos_2PI, sin_2PI. lra.
    + replace (3 * (phi - 2 * PI / 3)) with (3 * phi - 2 * PI) by field. rewrite cos_minus, cos_2PI, sin_2PI. lra.
    + exact H3.
Qed.
End Smith.

(* readable form.  PARTIAL: (a) hypothesis "the clamp is inactive": in exact arithmetic |det B| <= 2 holds for every
   trace-free symmetric B with tr(B^2) = 6 (non-negativity of the discriminant of a symmetric matrix), which is not proved
   here; (b) eigenvalue part only: Eberly's eigenvector construction (eig0/eig1/orthoComp) is not modelled;
   (c) the diagonal shortcut (p1 <= epsilon) returns the sorted diagonal, which is exact only for p1 = 0. *)
Lemma P_smith3_partial : forall a00 a01 a02 a11 a12 a22,
  0 < a01 * a01 + a02 * a02 + a12 * a12 ->
  -1 <= c08_smith3_r a00 a01 a02 a11 a12 a22 <= 1 ->
  let '(e0, e1, e2) := c08_smith3 a00 a01 a02 a11 a12 a22 in
  e0 <= e1 /\ e1 <= e2 /\ e0 + e1 + e2 = a00 + a11 + a22 /\
  c08_charpoly3 a00 a01 a02 a11 a12 a22 e0 = 0 /\ c08_charpoly3 a00 a01 a02 a11 a12 a22 e1 = 0 /\
  c08_charpoly3 a00 a01 a02 a11 a12 a22 e2 = 0.
Proof. intros a00 a01 a02 a11 a12 a22 H1 H2. exact (P_smith3 a00 a01 a02 a11 a12 a22 H1 H2). Qed.

(* the hypotheses are satisfiable: [[0,1,0],[1,0,0],[0,0,0]] (eigenvalues -1, 0, 1): r = 0 *)
Lemma P_ex_smith3 : 0 < 1 * 1 + 0 * 0 + 0 * 0 /\ -1 <= c08_smith3_r 0 1 0 0 0 0 <= 1.
Proof.
  split; [lra|]. unfold c08_smith3_r, c08_det3. cbv zeta.
  set (p := sqrt _). replace (_ / 2) with 0. lra.
  unfold Rdiv. ring.
Qed.
