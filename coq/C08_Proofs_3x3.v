(* C08 — proofs, part 4: Smith's trigonometric formula for the eigenvalues of a real symmetric 3x3 matrix
   (eigenValues3dImpl, non-diagonal branch) in exact real arithmetic: acos / cos are the real functions. *)
From Coq Require Import Reals Lra Lia.
From DuneV Require Import Params_gen C08_Spec.
Local Open Scope R_scope.

Lemma cos_3a : forall x, cos (3 * x) = 4 * (cos x * cos x * cos x) - 3 * cos x.
Proof.
  intros x. replace (3 * x) with (2 * x + x) by ring.
  rewrite cos_plus, cos_2a_cos, sin_2a. pose proof (sin2_cos2 x) as H. unfold Rsqr in H.
  assert (sin x * sin x = 1 - cos x * cos x) as E by lra.
  replace (2 * sin x * cos x * sin x) with (2 * cos x * (sin x * sin x)) by ring. rewrite E. ring.
Qed.

Lemma cos_2PI3 : cos (2 * PI / 3) = - / 2.
Proof.
  replace (2 * PI / 3) with (PI - PI / 3) by field.
  rewrite cos_minus, cos_PI, sin_PI, cos_PI3. lra.
Qed.

Lemma cos_sum3 : forall x, cos (x - 2 * PI / 3) = - cos x - cos (x + 2 * PI / 3).
Proof. intros x. rewrite cos_minus, cos_plus, cos_2PI3. lra. Qed.

(* |det B| <= 2 for every trace-free symmetric 3x3 matrix B with tr(B^2) = 6, WITHOUT the spectral theorem:
   Cauchy-Schwarz for <B, C> with C = B^2 - 2 I:  <B,C> = tr(B^3) = 3 det B,  <B,B> = 6,  <C,C> = tr(B^4) - 4 tr(B^2) + 12 = 6
   (tr(B^4) = tr(B^2)^2 / 2 for trace-free 3x3 matrices), written as 0 <= |C - (det B / 2) B|^2. *)
Lemma det_bound : forall b00 b01 b02 b11 b12 b22,
  b00 + b11 + b22 = 0 ->
  b00 * b00 + b11 * b11 + b22 * b22 + 2 * (b01 * b01 + b02 * b02 + b12 * b12) = 6 ->
  -2 <= c08_det3 b00 b01 b02 b01 b11 b12 b02 b12 b22 <= 2.
Proof.
  intros b00 b01 b02 b11 b12 b22 Htr HS.
  assert (b22 = - b00 - b11) by lra. subst b22. clear Htr.
  set (d := c08_det3 b00 b01 b02 b01 b11 b12 b02 b12 (- b00 - b11)).
  set (S := b00 * b00 + b11 * b11 + (- b00 - b11) * (- b00 - b11) + 2 * (b01 * b01 + b02 * b02 + b12 * b12)) in *.
  set (b22 := - b00 - b11) in *.
  set (k := d / 2).
  set (c00 := b00 * b00 + b01 * b01 + b02 * b02 - 2).
  set (c11 := b01 * b01 + b11 * b11 + b12 * b12 - 2).
  set (c22 := b02 * b02 + b12 * b12 + b22 * b22 - 2).
  set (c01 := b00 * b01 + b01 * b11 + b02 * b12).
  set (c02 := b00 * b02 + b01 * b12 + b02 * b22).
  set (c12 := b01 * b02 + b11 * b12 + b12 * b22).
  assert (0 <= (c00 - k * b00) * (c00 - k * b00) + (c11 - k * b11) * (c11 - k * b11) + (c22 - k * b22) * (c22 - k * b22)
             + 2 * ((c01 - k * b01) * (c01 - k * b01) + (c02 - k * b02) * (c02 - k * b02) + (c12 - k * b12) * (c12 - k * b12))) as Hsq.
  { pose proof (Rle_0_sqr (c00 - k * b00)). pose proof (Rle_0_sqr (c11 - k * b11)). pose proof (Rle_0_sqr (c22 - k * b22)).
    pose proof (Rle_0_sqr (c01 - k * b01)). pose proof (Rle_0_sqr (c02 - k * b02)). pose proof (Rle_0_sqr (c12 - k * b12)).
    unfold Rsqr in *. lra. }
  assert ((c00 - k * b00) * (c00 - k * b00) + (c11 - k * b11) * (c11 - k * b11) + (c22 - k * b22) * (c22 - k * b22)
             + 2 * ((c01 - k * b01) * (c01 - k * b01) + (c02 - k * b02) * (c02 - k * b02) + (c12 - k * b12) * (c12 - k * b12))
          = (S * S / 2 - 4 * S + 12) - 2 * k * (3 * d) + k * k * S) as E.
  { unfold c00, c11, c22, c01, c02, c12, S, d, c08_det3, b22. field. }
  rewrite E in Hsq. rewrite HS in Hsq. unfold k in Hsq.
  assert (d * d <= 4) by nra. nra.
Qed.

Lemma sin_2PI3 : sin (2 * PI / 3) = sqrt 3 / 2.
Proof.
  replace (2 * PI / 3) with (PI - PI / 3) by field.
  rewrite sin_minus, cos_PI, sin_PI, sin_PI3. lra.
Qed.

(* (t - 2cos(phi+2pi/3)) (t - 2cos(phi-2pi/3)) (t - 2cos phi) = t^3 - 3t - 2cos(3phi) *)
Lemma cubic_factor : forall phi t,
  (t - 2 * cos (phi + 2 * PI / 3)) * (t - 2 * cos (phi - 2 * PI / 3)) * (t - 2 * cos phi) =
  t * t * t - 3 * t - 2 * cos (3 * phi).
Proof.
  intros phi t. rewrite cos_3a, cos_plus, cos_minus, cos_2PI3, sin_2PI3.
  set (c := cos phi). set (s := sin phi). set (w := sqrt 3).
  assert (w * w = 3) as W by (unfold w; apply sqrt_sqrt; lra).
  assert (s * s = 1 - c * c) as H by (pose proof (sin2_cos2 phi) as E; unfold Rsqr in E; fold c s in E; lra).
  replace ((t - 2 * (c * - / 2 - s * (w / 2))) * (t - 2 * (c * - / 2 + s * (w / 2))))
    with (t * t + 2 * c * t + (c * c - (w * w) * (s * s))) by field.
  rewrite W, H. ring.
Qed.

(* the quantity r = det(B)/2 of eigenValues3dImpl BEFORE the clamp to [-1,1] *)
Definition c08_smith3_r (a00 a01 a02 a11 a12 a22 : R) : R :=
  let p1 := a01 * a01 + a02 * a02 + a12 * a12 in
  let q := a00 / 3 + a11 / 3 + a22 / 3 in
  let p2 := (a00 - q) * (a00 - q) + (a11 - q) * (a11 - q) + (a22 - q) * (a22 - q) + 2 * p1 in
  let p := sqrt (p2 / 6) in
  c08_det3 (1 / p * (a00 - q * 1)) (1 / p * (a01 - q * 0)) (1 / p * (a02 - q * 0))
           (1 / p * (a01 - q * 0)) (1 / p * (a11 - q * 1)) (1 / p * (a12 - q * 0))
           (1 / p * (a02 - q * 0)) (1 / p * (a12 - q * 0)) (1 / p * (a22 - q * 1)) / 2.

Section Smith.
Variables a00 a01 a02 a11 a12 a22 : R.
Let q := a00 / 3 + a11 / 3 + a22 / 3.
Let p1 := a01 * a01 + a02 * a02 + a12 * a12.
Let p2 := (a00 - q) * (a00 - q) + (a11 - q) * (a11 - q) + (a22 - q) * (a22 - q) + 2 * p1.
Let p := sqrt (p2 / 6).
Let rraw := c08_det3 (1 / p * (a00 - q * 1)) (1 / p * (a01 - q * 0)) (1 / p * (a02 - q * 0))
                     (1 / p * (a01 - q * 0)) (1 / p * (a11 - q * 1)) (1 / p * (a12 - q * 0))
                     (1 / p * (a02 - q * 0)) (1 / p * (a12 - q * 0)) (1 / p * (a22 - q * 1)) / 2.

Hypothesis Hp1 : 0 < p1.                      (* the non-diagonal branch (the code tests p1 > epsilon) *)

Lemma p2_pos : 0 < p2.
Proof.
  unfold p2. pose proof (Rle_0_sqr (a00 - q)). pose proof (Rle_0_sqr (a11 - q)). pose proof (Rle_0_sqr (a22 - q)).
  unfold Rsqr in *. lra.
Qed.
Lemma p_pos : 0 < p.
Proof. unfold p. apply sqrt_lt_R0. pose proof p2_pos. lra. Qed.
Lemma p_sq : p * p = p2 / 6.
Proof. unfold p. apply sqrt_sqrt. pose proof p2_pos. lra. Qed.

(* the clamp of r to [-1,1] is inactive in exact arithmetic *)
Lemma Hclamp : -1 <= rraw <= 1.
Proof.
  pose proof p_pos as Hp. pose proof p_sq as Hpp. pose proof p2_pos as Hp2.
  assert (-2 <= 2 * rraw <= 2) as H; [|lra].
  unfold rraw. replace (2 * (c08_det3 (1 / p * (a00 - q * 1)) (1 / p * (a01 - q * 0)) (1 / p * (a02 - q * 0))
                     (1 / p * (a01 - q * 0)) (1 / p * (a11 - q * 1)) (1 / p * (a12 - q * 0))
                     (1 / p * (a02 - q * 0)) (1 / p * (a12 - q * 0)) (1 / p * (a22 - q * 1)) / 2))
    with (c08_det3 (1 / p * (a00 - q * 1)) (1 / p * (a01 - q * 0)) (1 / p * (a02 - q * 0))
                     (1 / p * (a01 - q * 0)) (1 / p * (a11 - q * 1)) (1 / p * (a12 - q * 0))
                     (1 / p * (a02 - q * 0)) (1 / p * (a12 - q * 0)) (1 / p * (a22 - q * 1))) by field.
  apply det_bound.
  - unfold q. field. lra.
  - replace (1 / p * (a00 - q * 1) * (1 / p * (a00 - q * 1)) + 1 / p * (a11 - q * 1) * (1 / p * (a11 - q * 1)) +
             1 / p * (a22 - q * 1) * (1 / p * (a22 - q * 1)) +
             2 * (1 / p * (a01 - q * 0) * (1 / p * (a01 - q * 0)) + 1 / p * (a02 - q * 0) * (1 / p * (a02 - q * 0)) +
                  1 / p * (a12 - q * 0) * (1 / p * (a12 - q * 0))))
      with (p2 / (p * p)) by (unfold p2, p1; field; lra).
    rewrite Hpp. field. lra.
Qed.

(* every angle theta with cos(3 theta) = r gives a root q + 2 p cos(theta) of the characteristic polynomial *)
Lemma root_of_angle : forall theta, cos (3 * theta) = rraw ->
  c08_charpoly3 a00 a01 a02 a11 a12 a22 (q + 2 * p * cos theta) = 0.
Proof.
  intros theta H. rewrite cos_3a in H. set (c := cos theta) in *.
  pose proof p_pos as Hp. pose proof p_sq as Hpp.
  set (D := c08_det3 (a00 - q) a01 a02 a01 (a11 - q) a12 a02 a12 (a22 - q)).
  assert (2 * rraw * (p * p * p) = D) as HD.
  { unfold rraw, D, c08_det3. field. lra. }
  assert (c08_charpoly3 a00 a01 a02 a11 a12 a22 (q + 2 * p * c) =
          (2 * p * c) * (2 * p * c) * (2 * p * c) - (p2 / 2) * (2 * p * c) - D) as E.
  { unfold c08_charpoly3, D, c08_det3, p2, p1, q. field. }
  rewrite E. rewrite <- HD.
  replace (p2 / 2) with (3 * (p * p)) by (rewrite Hpp; field).
  replace (2 * p * c * (2 * p * c) * (2 * p * c) - 3 * (p * p) * (2 * p * c) - 2 * rraw * (p * p * p))
    with (2 * (p * p * p) * (4 * (c * c * c) - 3 * c - rraw)) by ring.
  rewrite H. ring.
Qed.

(* det(x I - A) at x = q + p t *)
Lemma charpoly_shift : forall t,
  c08_charpoly3 a00 a01 a02 a11 a12 a22 (q + p * t) = p * p * p * (t * t * t - 3 * t - 2 * rraw).
Proof.
  intros t. pose proof p_pos as Hp. pose proof p_sq as Hpp.
  set (D := c08_det3 (a00 - q) a01 a02 a01 (a11 - q) a12 a02 a12 (a22 - q)).
  assert (2 * rraw * (p * p * p) = D) as HD.
  { unfold rraw, D, c08_det3. field. lra. }
  assert (c08_charpoly3 a00 a01 a02 a11 a12 a22 (q + p * t) = (p * t) * (p * t) * (p * t) - (p2 / 2) * (p * t) - D) as E.
  { unfold c08_charpoly3, D, c08_det3, p2, p1, q. field. }
  rewrite E. rewrite <- HD. replace (p2 / 2) with (3 * (p * p)) by (rewrite Hpp; field). ring.
Qed.

Definition smith := c08_smith3 a00 a01 a02 a11 a12 a22.

Lemma smith_unfold : let phi := acos rraw / 3 in
  smith = (q + 2 * p * cos (phi + 2 * PI / 3), q + 2 * p * cos (phi - 2 * PI / 3), q + 2 * p * cos phi).
Proof.
  intros phi. pose proof Hclamp as Hc. unfold smith, c08_smith3. cbv zeta. fold q. fold p1. fold p2. fold p. fold rraw.
  assert (c08_clamp rraw (-1) 1 = rraw) as Ec.
  { unfold c08_clamp. destruct (Rlt_dec rraw (-1)); [lra|]. destruct (Rlt_dec 1 rraw); [lra | reflexivity]. }
  rewrite Ec. fold phi. f_equal. f_equal. rewrite cos_sum3. ring.
Qed.

Lemma P_smith3 : let '(e0, e1, e2) := smith in
  e0 <= e1 /\ e1 <= e2 /\ e0 + e1 + e2 = a00 + a11 + a22 /\
  c08_charpoly3 a00 a01 a02 a11 a12 a22 e0 = 0 /\ c08_charpoly3 a00 a01 a02 a11 a12 a22 e1 = 0 /\
  c08_charpoly3 a00 a01 a02 a11 a12 a22 e2 = 0.
Proof.
  rewrite smith_unfold. set (phi := acos rraw / 3). pose proof Hclamp as Hc.
  pose proof p_pos as Hp. pose proof (acos_bound rraw) as [Hb0 Hb1]. pose proof PI_RGT_0 as Hpi.
  assert (0 <= phi <= PI / 3) as [Hphi0 Hphi1] by (unfold phi; split; lra).
  assert (cos (3 * phi) = rraw) as H3.
  { unfold phi. replace (3 * (acos rraw / 3)) with (acos rraw) by field. apply cos_acos; lra. }
  assert (cos (phi + 2 * PI / 3) <= cos (phi - 2 * PI / 3)) as O1.
  { rewrite <- (cos_neg (phi - 2 * PI / 3)). apply cos_decr_1; lra. }
  assert (cos (phi - 2 * PI / 3) <= cos phi) as O2.
  { rewrite <- (cos_neg (phi - 2 * PI / 3)). apply cos_decr_1; lra. }
  split; [nra|]. split; [nra|]. split.
  - rewrite cos_sum3. unfold q. field.
  - split; [|split]; apply root_of_angle.
    + replace (3 * (phi + 2 * PI / 3)) with (3 * phi + 2 * PI) by field. rewrite cos_plus, cos_2PI, sin_2PI. lra.
    + replace (3 * (phi - 2 * PI / 3)) with (3 * phi - 2 * PI) by field. rewrite cos_minus, cos_2PI, sin_2PI. lra.
    + exact H3.
Qed.

(* the three returned values are ALL the roots, with multiplicity: det(x I - A) = (x - e0)(x - e1)(x - e2) *)
Lemma P_smith3_factor : let '(e0, e1, e2) := smith in
  forall x, c08_charpoly3 a00 a01 a02 a11 a12 a22 x = (x - e0) * (x - e1) * (x - e2).
Proof.
  rewrite smith_unfold. set (phi := acos rraw / 3). intros x.
  pose proof p_pos as Hp. pose proof Hclamp as Hc.
  assert (cos (3 * phi) = rraw) as H3.
  { unfold phi. replace (3 * (acos rraw / 3)) with (acos rraw) by field. apply cos_acos; lra. }
  set (t := (x - q) / p). replace x with (q + p * t) by (unfold t; field; lra).
  rewrite charpoly_shift. rewrite <- H3, <- cubic_factor. ring.
Qed.

(* the extreme eigenvalue eig0 is called for (largest if r >= 0, smallest otherwise) is strictly separated from the middle one *)
Lemma P_smith3_separated : let '(e0, e1, e2) := smith in
  (0 <= rraw -> e1 < e2) /\ (rraw < 0 -> e0 < e1).
Proof.
  rewrite smith_unfold. set (phi := acos rraw / 3).
  pose proof p_pos as Hp. pose proof (acos_bound rraw) as [Hb0 Hb1]. pose proof PI_RGT_0 as Hpi. pose proof Hclamp as Hc.
  split; intros Hr.
  - assert (acos rraw <= PI / 2) as Ha.
    { destruct (Rle_lt_dec (acos rraw) (PI / 2)) as [|L]; [assumption|]. exfalso.
      assert (cos (acos rraw) < cos (PI / 2)) by (apply cos_decreasing_1; lra).
      rewrite cos_acos, cos_PI2 in H by lra. lra. }
    assert (cos (phi - 2 * PI / 3) < cos phi).
    { rewrite <- (cos_neg (phi - 2 * PI / 3)). apply cos_decreasing_1; unfold phi; lra. }
    nra.
  - assert (0 < acos rraw) as Ha.
    { destruct Hb0 as [|E]; [assumption|]. exfalso. assert (cos (acos rraw) = 1) by (rewrite <- E; apply cos_0).
      rewrite cos_acos in H by lra. lra. }
    assert (cos (phi + 2 * PI / 3) < cos (phi - 2 * PI / 3)).
    { rewrite <- (cos_neg (phi - 2 * PI / 3)). apply cos_decreasing_1; unfold phi; lra. }
    nra.
Qed.
End Smith.

(* ---- the diagonal shortcut and the whole of eigenValues3dImpl ---- *)
(* std::sort of three values (any correct sort returns this: the ascending arrangement) *)
Definition c08_sort3 (x y z : R) : R * R * R :=
  let '(x, y) := if Rlt_dec y x then (y, x) else (x, y) in
  let '(y, z) := if Rlt_dec z y then (z, y) else (y, z) in
  let '(x, y) := if Rlt_dec y x then (y, x) else (x, y) in (x, y, z).
(* eigenValues3dImpl with the threshold of `p1 <= epsilon` as a parameter *)
Definition c08_eig3 (eps a00 a01 a02 a11 a12 a22 : R) : R * R * R :=
  if Rle_dec (a01 * a01 + a02 * a02 + a12 * a12) eps then c08_sort3 a00 a11 a22
  else let '(e0, e1, e2) := c08_smith3 a00 a01 a02 a11 a12 a22 in
       if c08_param_eig3_sorted then c08_sort3 e0 e1 e2 else (e0, e1, e2).   (* std::sort added by fix 3c4d542: re-read from the source *)

Lemma sort3_ok : forall x y z, let '(u, v, w) := c08_sort3 x y z in
  u <= v /\ v <= w /\ forall t, (t - x) * (t - y) * (t - z) = (t - u) * (t - v) * (t - w).
Proof.
  intros x y z. unfold c08_sort3.
  destruct (Rlt_dec y x); destruct (Rlt_dec z _); destruct (Rlt_dec _ _); repeat split; try lra; intros; ring.
Qed.

Lemma sort3_id : forall x y z, x <= y -> y <= z -> c08_sort3 x y z = (x, y, z).
Proof.
  intros x y z H1 H2. unfold c08_sort3. destruct (Rlt_dec y x); [lra|]. destruct (Rlt_dec z y); [lra|]. destruct (Rlt_dec y x); [lra | reflexivity].
Qed.

(* the sort is the identity on Smith's values (exact arithmetic) *)
Lemma eig3_smith : forall eps a00 a01 a02 a11 a12 a22, 0 <= eps -> eps < a01 * a01 + a02 * a02 + a12 * a12 ->
  c08_eig3 eps a00 a01 a02 a11 a12 a22 = c08_smith3 a00 a01 a02 a11 a12 a22.
Proof.
  intros eps a00 a01 a02 a11 a12 a22 He Hp. unfold c08_eig3, c08_param_eig3_sorted. destruct (Rle_dec _ eps); [lra|].
  assert (0 < a01 * a01 + a02 * a02 + a12 * a12) as Hp1 by lra.
  pose proof (P_smith3 a00 a01 a02 a11 a12 a22 Hp1) as H. unfold smith in H.
  destruct (c08_smith3 a00 a01 a02 a11 a12 a22) as [[e0 e1] e2]. destruct H as (H1 & H2 & _). apply sort3_id; assumption.
Qed.

(* C08_3x3_exact, eigenvalue part, FULL: threshold 0, every real symmetric 3x3 matrix, both branches *)
Lemma P_eig3 : forall a00 a01 a02 a11 a12 a22,
  let '(e0, e1, e2) := c08_eig3 0 a00 a01 a02 a11 a12 a22 in
  e0 <= e1 /\ e1 <= e2 /\ e0 + e1 + e2 = a00 + a11 + a22 /\
  forall x, c08_charpoly3 a00 a01 a02 a11 a12 a22 x = (x - e0) * (x - e1) * (x - e2).
Proof.
  intros a00 a01 a02 a11 a12 a22. unfold c08_eig3.
  destruct (Rle_dec (a01 * a01 + a02 * a02 + a12 * a12) 0) as [Hd|Hn].
  - assert (a01 = 0 /\ a02 = 0 /\ a12 = 0) as (E1 & E2 & E3).
    { pose proof (Rle_0_sqr a01). pose proof (Rle_0_sqr a02). pose proof (Rle_0_sqr a12). unfold Rsqr in *.
      assert (forall x, x * x = 0 -> x = 0) as Z by (intros x Hx; destruct (Rmult_integral _ _ Hx); assumption).
      repeat split; apply Z; lra. }
    subst. pose proof (sort3_ok a00 a11 a22) as H. destruct (c08_sort3 a00 a11 a22) as [[u v] w].
    destruct H as (H1 & H2 & H3). split; [exact H1|]. split; [exact H2|].
    assert (forall x, c08_charpoly3 a00 0 0 a11 0 a22 x = (x - u) * (x - v) * (x - w)) as F.
    { intros x. rewrite <- H3. unfold c08_charpoly3, c08_det3. ring. }
    split; [|exact F].
    (* the sum is the coefficient of x^2: compare the two cubics at three points *)
    pose proof (H3 0) as P0. pose proof (H3 1) as P1. pose proof (H3 (-1)) as P2. lra.
  - assert (0 < a01 * a01 + a02 * a02 + a12 * a12) as Hp1 by lra.
    pose proof (eig3_smith 0 a00 a01 a02 a11 a12 a22 (Rle_refl 0) Hp1) as Es. unfold c08_eig3 in Es.
    destruct (Rle_dec (a01 * a01 + a02 * a02 + a12 * a12) 0) as [C|_] in Es; [lra|]. rewrite Es. clear Es.
    pose proof (P_smith3 a00 a01 a02 a11 a12 a22 Hp1) as H. pose proof (P_smith3_factor a00 a01 a02 a11 a12 a22 Hp1) as F.
    unfold smith in *. destruct (c08_smith3 a00 a01 a02 a11 a12 a22) as [[e0 e1] e2].
    destruct H as (H1 & H2 & H3 & _). repeat split; assumption.
Qed.

(* for a non-zero threshold the diagonal shortcut is REFUTED as an exact statement: [[0,t,0],[t,0,0],[0,0,5]] with
   0 < t*t <= eps is declared diagonal (eigenvalues 0,0,5) although its eigenvalues are -t, t, 5 *)
Lemma P_eig3_eps_refuted : forall eps, 0 < eps -> exists a00 a01 a02 a11 a12 a22,
  let '(e0, e1, e2) := c08_eig3 eps a00 a01 a02 a11 a12 a22 in
  c08_charpoly3 a00 a01 a02 a11 a12 a22 e0 <> 0.
Proof.
  intros eps He. set (t := Rmin 1 eps). assert (0 < t <= 1 /\ t <= eps) as [[T0 T1] T2].
  { unfold t. split; [split|]; [apply Rmin_glb_lt; lra | apply Rmin_l | apply Rmin_r]. }
  exists 0, t, 0, 0, 0, 5. unfold c08_eig3.
  destruct (Rle_dec (t * t + 0 * 0 + 0 * 0) eps) as [H|H]; [|exfalso; apply H; nra].
  unfold c08_sort3. destruct (Rlt_dec 0 0) as [L|_]; [exfalso; lra|].
  destruct (Rlt_dec 5 0) as [L|_]; [exfalso; lra|]. destruct (Rlt_dec 0 0) as [L|_]; [exfalso; lra|].
  unfold c08_charpoly3, c08_det3. intros E. nra.
Qed.
