(* C08 — proofs, part 9: the WHOLE 3d specialisation of eigenValuesVectorsImpl over R (pre-scaling, eigenValues3dImpl with its
   diagonal shortcut, eigenvectors of both branches, joint sorting of (value, vector) pairs, un-scaling) and C08_3x3_all:
   with threshold 0 it returns an orthonormal eigen-decomposition of EVERY real symmetric 3x3 matrix; orthoComp's choice. *)
From Coq Require Import Reals Lra Lia.
From DuneV Require Import Params_gen C08_Spec C08_Proofs_3x3 C08_Proofs_Eig0 C08_Proofs_Eigvec3 C08_Proofs_3x3_Full.
Local Open Scope R_scope.

(* ---- the model ---- *)
Definition c08_E0 : c08_vec3 := (1, 0, 0).
Definition c08_E1 : c08_vec3 := (0, 1, 0).
Definition c08_E2 : c08_vec3 := (0, 0, 1).
(* everything the 3d specialisation does on the scaled matrix; eps is the literal of both `<= epsilon` tests *)
Definition c08_evv3_core (eps s00 s01 s02 s11 s12 s22 : R) : (R * R * R) * option (c08_vec3 * c08_vec3 * c08_vec3) :=
  let ev := c08_eig3 eps s00 s01 s02 s11 s12 s22 in                                  (* eigenValues3dImpl, returns r *)
  let r := if Rle_dec (s01 * s01 + s02 * s02 + s12 * s12) eps then 0 else c08_clamp (c08_smith3_r s00 s01 s02 s11 s12 s22) (-1) 1 in
  if Rle_dec (0 + s01 * s01 + s02 * s02 + s12 * s12) eps then                        (* offDiagNorm <= epsilon *)
    let '(p0, p1, p2) := c08_bubble3 (s00, c08_E0) (s11, c08_E1) (s22, c08_E2) in
    ((fst p0, fst p1, fst p2), Some (snd p0, snd p1, snd p2))
  else
    match c08_eigvecs3 (c08_symm s00 s01 s02 s11 s12 s22) r ev with
    | Some (w0, w1, w2) =>
      let '(l0, l1, l2) := ev in
      let '(p0, p1, p2) := c08_bubble3 (l0, w0) (l1, w1) (l2, w2) in
      ((fst p0, fst p1, fst p2), Some (snd p0, snd p1, snd p2))
    | None => (ev, None)
    end.
Definition c08_eigenvaluesvectors3 (eps a00 a01 a02 a11 a12 a22 : R) := c08_prescaled (c08_evv3_core eps) a00 a01 a02 a11 a12 a22.

(* what "an orthonormal eigen-decomposition of the symmetric matrix A" means for a result *)
Definition c08_decomp3 (a00 a01 a02 a11 a12 a22 : R) (ev : R * R * R) (ws : c08_vec3 * c08_vec3 * c08_vec3) : Prop :=
  let A := c08_symm a00 a01 a02 a11 a12 a22 in
  let '(l0, l1, l2) := ev in let '(w0, w1, w2) := ws in
  l0 <= l1 /\ l1 <= l2 /\ l0 + l1 + l2 = a00 + a11 + a22 /\
  (forall x, c08_charpoly3 a00 a01 a02 a11 a12 a22 x = (x - l0) * (x - l1) * (x - l2)) /\
  c08_eigvec_of A l0 w0 /\ c08_eigvec_of A l1 w1 /\ c08_eigvec_of A l2 w2 /\
  c08_dot3 w0 w0 = 1 /\ c08_dot3 w1 w1 = 1 /\ c08_dot3 w2 w2 = 1 /\
  c08_dot3 w0 w1 = 0 /\ c08_dot3 w0 w2 = 0 /\ c08_dot3 w1 w2 = 0.

(* ---- joint sorting ---- *)
Lemma bubble3_spec : forall (X : Type) (p0 p1 p2 : R * X),
  let '(q0, q1, q2) := c08_bubble3 p0 p1 p2 in
  fst q0 <= fst q1 /\ fst q1 <= fst q2 /\
  ((q0, q1, q2) = (p0, p1, p2) \/ (q0, q1, q2) = (p0, p2, p1) \/ (q0, q1, q2) = (p1, p0, p2) \/
   (q0, q1, q2) = (p1, p2, p0) \/ (q0, q1, q2) = (p2, p0, p1) \/ (q0, q1, q2) = (p2, p1, p0)).
Proof.
  intros X [a x] [b y] [c z]. unfold c08_bubble3, c08_cswap. simpl.
  destruct (Rlt_dec b a); simpl; destruct (Rlt_dec c _); simpl; destruct (Rlt_dec _ _); simpl;
    (split; [lra | split; [lra | tauto]]).
Qed.

(* sorting the pairs of a decomposition whose eigen-pairs are listed in ANY order gives a decomposition *)
Lemma sorted_decomp : forall a00 a01 a02 a11 a12 a22 l0 l1 l2 w0 w1 w2,
  let A := c08_symm a00 a01 a02 a11 a12 a22 in
  l0 + l1 + l2 = a00 + a11 + a22 ->
  (forall x, c08_charpoly3 a00 a01 a02 a11 a12 a22 x = (x - l0) * (x - l1) * (x - l2)) ->
  c08_eigvec_of A l0 w0 -> c08_eigvec_of A l1 w1 -> c08_eigvec_of A l2 w2 ->
  c08_dot3 w0 w0 = 1 -> c08_dot3 w1 w1 = 1 -> c08_dot3 w2 w2 = 1 ->
  c08_dot3 w0 w1 = 0 -> c08_dot3 w0 w2 = 0 -> c08_dot3 w1 w2 = 0 ->
  let '(p0, p1, p2) := c08_bubble3 (l0, w0) (l1, w1) (l2, w2) in
  c08_decomp3 a00 a01 a02 a11 a12 a22 (fst p0, fst p1, fst p2) (snd p0, snd p1, snd p2).
Proof.
  intros a00 a01 a02 a11 a12 a22 l0 l1 l2 w0 w1 w2 A Htr F E0 E1 E2 U0 U1 U2 O01 O02 O12.
  pose proof (bubble3_spec _ (l0, w0) (l1, w1) (l2, w2)) as H.
  destruct (c08_bubble3 (l0, w0) (l1, w1) (l2, w2)) as [[q0 q1] q2]. destruct H as (A1 & A2 & P).
  pose proof (dot3_comm w0 w1) as C01. pose proof (dot3_comm w0 w2) as C02. pose proof (dot3_comm w1 w2) as C12.
  unfold c08_decomp3. fold A.
  destruct P as [P|[P|[P|[P|[P|P]]]]]; inversion P; subst q0 q1 q2; simpl in *;
    (split; [exact A1|]); (split; [exact A2|]); (split; [lra|]); (split; [intros x; rewrite F; ring|]);
    repeat split; try assumption; lra.
Qed.

(* ---- the diagonal branch ---- *)
Lemma diag_decomp : forall s00 s11 s22,
  let '(p0, p1, p2) := c08_bubble3 (s00, c08_E0) (s11, c08_E1) (s22, c08_E2) in
  c08_decomp3 s00 0 0 s11 0 s22 (fst p0, fst p1, fst p2) (snd p0, snd p1, snd p2).
Proof.
  intros s00 s11 s22. apply sorted_decomp; try ring;
    try (unfold c08_eigvec_of, c08_symm, c08_shift3, c08_mv3, c08_dot3, c08_E0, c08_E1, c08_E2; f_equal; [f_equal|]; ring);
    try (unfold c08_dot3, c08_E0, c08_E1, c08_E2; ring).
  intros x. unfold c08_charpoly3, c08_det3. ring.
Qed.

(* ---- core: on the matrix it is given, with threshold 0 ---- *)
Lemma core_decomp : forall s00 s01 s02 s11 s12 s22,
  let '(ev, ows) := c08_evv3_core 0 s00 s01 s02 s11 s12 s22 in
  exists ws, ows = Some ws /\ c08_decomp3 s00 s01 s02 s11 s12 s22 ev ws.
Proof.
  intros s00 s01 s02 s11 s12 s22. unfold c08_evv3_core.
  destruct (Rle_dec (0 + s01 * s01 + s02 * s02 + s12 * s12) 0) as [Hd|Hn].
  - assert (s01 = 0 /\ s02 = 0 /\ s12 = 0) as (E1 & E2 & E3).
    { pose proof (Rle_0_sqr s01). pose proof (Rle_0_sqr s02). pose proof (Rle_0_sqr s12). unfold Rsqr in *.
      assert (forall x, x * x = 0 -> x = 0) as Z by (intros x Hx; destruct (Rmult_integral _ _ Hx); assumption).
      repeat split; apply Z; lra. }
    subst. pose proof (diag_decomp s00 s11 s22) as H.
    destruct (c08_bubble3 (s00, c08_E0) (s11, c08_E1) (s22, c08_E2)) as [[p0 p1] p2].
    eexists. split; [reflexivity | exact H].
  - assert (0 < s01 * s01 + s02 * s02 + s12 * s12) as Hp1 by lra.
    destruct (Rle_dec (s01 * s01 + s02 * s02 + s12 * s12) 0) as [C|_]; [lra|].
    assert (c08_eig3 0 s00 s01 s02 s11 s12 s22 = c08_smith3 s00 s01 s02 s11 s12 s22) as Ee.
    { apply eig3_smith; lra. }
    rewrite Ee. pose proof (P_3x3_exact s00 s01 s02 s11 s12 s22 Hp1) as H. cbv zeta in H.
    destruct (c08_smith3 s00 s01 s02 s11 s12 s22) as [[l0 l1] l2].
    destruct H as (_ & _ & Htr & F & w0 & w1 & w2 & Hrun & E0 & E1 & E2 & U0 & U1 & U2 & O01 & O02 & O12).
    rewrite Hrun.
    pose proof (sorted_decomp s00 s01 s02 s11 s12 s22 l0 l1 l2 w0 w1 w2 Htr F E0 E1 E2 U0 U1 U2 O01 O02 O12) as Hs.
    destruct (c08_bubble3 (l0, w0) (l1, w1) (l2, w2)) as [[p0 p1] p2].
    eexists. split; [reflexivity | exact Hs].
Qed.

(* ---- un-scaling: a decomposition of A / m (m > 0) gives one of A with the eigenvalues multiplied by m ---- *)
Lemma unscale_decomp : forall m a00 a01 a02 a11 a12 a22 l0 l1 l2 ws, 0 < m ->
  c08_decomp3 (a00 / m) (a01 / m) (a02 / m) (a11 / m) (a12 / m) (a22 / m) (l0, l1, l2) ws ->
  c08_decomp3 a00 a01 a02 a11 a12 a22 (l0 * m, l1 * m, l2 * m) ws.
Proof.
  intros m a00 a01 a02 a11 a12 a22 l0 l1 l2 [[w0 w1] w2] Hm H. unfold c08_decomp3 in *.
  destruct H as (A1 & A2 & Htr & F & E0 & E1 & E2 & Rest).
  assert (forall l w, c08_eigvec_of (c08_symm (a00 / m) (a01 / m) (a02 / m) (a11 / m) (a12 / m) (a22 / m)) l w ->
                      c08_eigvec_of (c08_symm a00 a01 a02 a11 a12 a22) (l * m) w) as Hv.
  { intros l [[x y] z] Hl. unfold c08_eigvec_of, c08_symm, c08_shift3, c08_mv3, c08_dot3 in *. injection Hl as H0 H1 H2.
    f_equal; [f_equal|].
    - replace ((a00 - l * m) * x + a01 * y + a02 * z) with (m * ((a00 / m - l) * x + a01 / m * y + a02 / m * z)) by (field; lra). rewrite H0; ring.
    - replace (a01 * x + (a11 - l * m) * y + a12 * z) with (m * (a01 / m * x + (a11 / m - l) * y + a12 / m * z)) by (field; lra). rewrite H1; ring.
    - replace (a02 * x + a12 * y + (a22 - l * m) * z) with (m * (a02 / m * x + a12 / m * y + (a22 / m - l) * z)) by (field; lra). rewrite H2; ring. }
  split; [nra|]. split; [nra|]. split.
  { replace (l0 * m + l1 * m + l2 * m) with ((l0 + l1 + l2) * m) by ring. rewrite Htr. field. lra. }
  split.
  { intros x. specialize (F (x / m)).
    assert (c08_charpoly3 a00 a01 a02 a11 a12 a22 x = m * m * m * c08_charpoly3 (a00 / m) (a01 / m) (a02 / m) (a11 / m) (a12 / m) (a22 / m) (x / m)) as E
      by (unfold c08_charpoly3, c08_det3; field; lra).
    rewrite E, F. field. lra. }
  split; [apply Hv; exact E0|]. split; [apply Hv; exact E1|]. split; [apply Hv; exact E2|]. exact Rest.
Qed.

Lemma infnorm3_nonneg : forall a00 a01 a02 a11 a12 a22, 0 <= c08_infnorm3 a00 a01 a02 a11 a12 a22.
Proof. intros. unfold c08_infnorm3. eapply Rle_trans; [|apply Rmax_r]. eapply Rle_trans; [|apply Rmax_r]. apply Rmax_r. Qed.

(* C08_3x3_all *)
Lemma P_3x3_all : forall a00 a01 a02 a11 a12 a22,
  let '(ev, ows) := c08_eigenvaluesvectors3 0 a00 a01 a02 a11 a12 a22 in
  exists ws, ows = Some ws /\ c08_decomp3 a00 a01 a02 a11 a12 a22 ev ws.
Proof.
  intros a00 a01 a02 a11 a12 a22. unfold c08_eigenvaluesvectors3, c08_prescaled.
  pose proof (infnorm3_nonneg a00 a01 a02 a11 a12 a22) as Hn. set (n := c08_infnorm3 a00 a01 a02 a11 a12 a22) in *.
  set (m := if Req_EM_T n 0 then 1 else n).
  assert (0 < m) as Hm by (unfold m; destruct (Req_EM_T n 0); lra).
  pose proof (core_decomp (a00 / m) (a01 / m) (a02 / m) (a11 / m) (a12 / m) (a22 / m)) as H.
  destruct (c08_evv3_core 0 (a00 / m) (a01 / m) (a02 / m) (a11 / m) (a12 / m) (a22 / m)) as [[[l0 l1] l2] ows].
  destruct H as (ws & Hs & Hd). exists ws. split; [exact Hs|]. apply unscale_decomp; assumption.
Qed.

(* ---- orthoComp: u is built from a NON-DEGENERATE pair ---- *)
(* the pair under the square root keeps the larger of |e0|, |e1|: its squared length is at least 1/2 for a unit vector *)
Lemma P_orthocomp_pair : forall e0 e1 e2, c08_dot3 (e0, e1, e2) (e0, e1, e2) = 1 ->
  (Rabs e1 < Rabs e0 -> / 2 <= e0 * e0 + e2 * e2) /\ (~ Rabs e1 < Rabs e0 -> / 2 <= e1 * e1 + e2 * e2).
Proof.
  intros e0 e1 e2 H. unfold c08_dot3 in H.
  assert (forall x, Rabs x * Rabs x = x * x) as Sq by (intros x; rewrite <- Rabs_mult; apply Rabs_pos_eq; nra).
  pose proof (Rabs_pos e0). pose proof (Rabs_pos e1). pose proof (Sq e0). pose proof (Sq e1).
  split; intros L; nra.
Qed.

(* the flipped comparison (seeded change) is refuted: it divides by zero for the axis-aligned unit vector (1,0,0),
   while the code's choice succeeds for every unit vector (orthocomp_ok) *)
Lemma P_orthocomp_flipped_refuted : c08_dot3 (1, 0, 0) (1, 0, 0) = 1 /\ c08_orthocomp_flipped (1, 0, 0) = None.
Proof.
  split; [unfold c08_dot3; ring|]. unfold c08_orthocomp_flipped, c08_divo.
  rewrite Rabs_R0, Rabs_R1. destruct (Rlt_dec 1 0); [lra|].
  replace (0 + 0 * 0 + 0 * 0) with 0 by ring. rewrite sqrt_0. destruct (Req_EM_T 0 0); [reflexivity | contradiction].
Qed.

(* ---- the eigenvalue-only entry point (Tag = OnlyEigenvalues) and entry-point agreement, EVERY threshold ---- *)
Definition c08_eigenvalues3 (eps a00 a01 a02 a11 a12 a22 : R) : R * R * R :=
  fst (c08_prescaled (fun s00 s01 s02 s11 s12 s22 => (c08_eig3 eps s00 s01 s02 s11 s12 s22, tt)) a00 a01 a02 a11 a12 a22).

Lemma bubble3_firsts : forall (X : Type) (p0 p1 p2 : R * X),
  let '(q0, q1, q2) := c08_bubble3 p0 p1 p2 in (fst q0, fst q1, fst q2) = c08_sort3 (fst p0) (fst p1) (fst p2).
Proof.
  intros X [a x] [b y] [c z]. unfold c08_bubble3, c08_cswap, c08_sort3. simpl.
  destruct (Rlt_dec b a); simpl; destruct (Rlt_dec c _); simpl; destruct (Rlt_dec _ _); reflexivity.
Qed.

Lemma sort3_idem : forall x y z, let '(u, v, w) := c08_sort3 x y z in c08_sort3 u v w = (u, v, w).
Proof.
  intros x y z. pose proof (sort3_ok x y z) as H. destruct (c08_sort3 x y z) as [[u v] w]. destruct H as (H1 & H2 & _).
  apply sort3_id; assumption.
Qed.

Lemma core_values : forall eps s00 s01 s02 s11 s12 s22,
  fst (c08_evv3_core eps s00 s01 s02 s11 s12 s22) = c08_eig3 eps s00 s01 s02 s11 s12 s22.
Proof.
  intros eps s00 s01 s02 s11 s12 s22. unfold c08_evv3_core.
  replace (0 + s01 * s01 + s02 * s02 + s12 * s12) with (s01 * s01 + s02 * s02 + s12 * s12) by ring.
  destruct (Rle_dec (s01 * s01 + s02 * s02 + s12 * s12) eps) as [Hd|Hn].
  - pose proof (bubble3_firsts _ (s00, c08_E0) (s11, c08_E1) (s22, c08_E2)) as H.
    destruct (c08_bubble3 (s00, c08_E0) (s11, c08_E1) (s22, c08_E2)) as [[p0 p1] p2]. simpl in *.
    unfold c08_eig3. destruct (Rle_dec _ eps); [exact H | contradiction].
  - destruct (c08_eigvecs3 _ _ _) as [[[w0 w1] w2]|]; [|reflexivity].
    assert (exists u v w, c08_eig3 eps s00 s01 s02 s11 s12 s22 = (u, v, w) /\ c08_sort3 u v w = (u, v, w)) as (u & v & w & E & Hid).
    { unfold c08_eig3, c08_param_eig3_sorted. destruct (Rle_dec _ eps); [contradiction|]. destruct (c08_smith3 s00 s01 s02 s11 s12 s22) as [[e0 e1] e2].
      pose proof (sort3_idem e0 e1 e2) as H. destruct (c08_sort3 e0 e1 e2) as [[u v] w]. exists u, v, w. split; [reflexivity | exact H]. }
    rewrite E. pose proof (bubble3_firsts _ (u, w0) (v, w1) (w, w2)) as H.
    destruct (c08_bubble3 (u, w0) (v, w1) (w, w2)) as [[p0 p1] p2]. simpl in *. rewrite H. exact Hid.
Qed.

Lemma P_3x3_entrypoints_agree : forall eps a00 a01 a02 a11 a12 a22,
  fst (c08_eigenvaluesvectors3 eps a00 a01 a02 a11 a12 a22) = c08_eigenvalues3 eps a00 a01 a02 a11 a12 a22.
Proof.
  intros. unfold c08_eigenvaluesvectors3, c08_eigenvalues3, c08_prescaled.
  set (m := if Req_EM_T _ 0 then 1 else _).
  pose proof (core_values eps (a00 / m) (a01 / m) (a02 / m) (a11 / m) (a12 / m) (a22 / m)) as H.
  destruct (c08_evv3_core eps (a00 / m) (a01 / m) (a02 / m) (a11 / m) (a12 / m) (a22 / m)) as [[[l0 l1] l2] ows]. simpl in H.
  rewrite <- H. reflexivity.
Qed.
