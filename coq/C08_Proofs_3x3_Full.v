(* C08 — proofs, part 8: C08_3x3_exact for the non-diagonal branch: Smith's eigenvalues + Eberly's eigenvectors, no hypotheses
   beyond "A is real symmetric and not diagonal" (threshold 0). *)
From Coq Require Import Reals Lra Lia.
From DuneV Require Import C08_Spec C08_Proofs_3x3 C08_Proofs_Eig0 C08_Proofs_Eigvec3.
Local Open Scope R_scope.

Lemma det_charpoly : forall a00 a01 a02 a11 a12 a22 l,
  c08_det3m (c08_shift3 (c08_symm a00 a01 a02 a11 a12 a22) l) = - c08_charpoly3 a00 a01 a02 a11 a12 a22 l.
Proof. intros. unfold c08_det3m, c08_shift3, c08_symm, c08_charpoly3, c08_det3. ring. Qed.

(* a SIMPLE root l of det(x I - A) = (x - l)(x - m)(x - n) has rank(A - l I) = 2 (A symmetric): if all 2x2 minors of A - l I
   vanished, the linear coefficient (l - m)(l - n) of the polynomial in y = x - l would vanish *)
Lemma rank2_of_simple : forall a00 a01 a02 a11 a12 a22 l m n,
  (forall x, c08_charpoly3 a00 a01 a02 a11 a12 a22 x = (x - l) * (x - m) * (x - n)) -> m <> l -> n <> l ->
  c08_rank2 (c08_symm a00 a01 a02 a11 a12 a22) l.
Proof.
  intros a00 a01 a02 a11 a12 a22 l m n F Hm Hn. unfold c08_rank2, c08_symm, c08_shift3, c08_cross, is_zero3.
  intros ((X0 & X1 & X2) & (Y0 & Y1 & Y2) & (Z0 & Z1 & Z2)).
  pose proof (F (l + 1)) as F1. pose proof (F (l - 1)) as F2. unfold c08_charpoly3, c08_det3 in F1, F2.
  set (b00 := a00 - l) in *. set (b11 := a11 - l) in *. set (b22 := a22 - l) in *.
  assert ((l - m) * (l - n) = 0) as E.
  { assert ((l + 1 - a00) = 1 - b00) as S0 by (unfold b00; ring). assert ((l + 1 - a11) = 1 - b11) as S1 by (unfold b11; ring).
    assert ((l + 1 - a22) = 1 - b22) as S2 by (unfold b22; ring).
    assert ((l - 1 - a00) = -1 - b00) as T0 by (unfold b00; ring). assert ((l - 1 - a11) = -1 - b11) as T1 by (unfold b11; ring).
    assert ((l - 1 - a22) = -1 - b22) as T2 by (unfold b22; ring).
    rewrite S0, S1, S2 in F1. rewrite T0, T1, T2 in F2.
    (* f(1) - f(-1) = 2 + 2 (sum of the principal 2x2 minors) *)
    assert (((1 - b00) * ((1 - b11) * (1 - b22) - - a12 * - a12) - - a01 * (- a01 * (1 - b22) - - a12 * - a02) + - a02 * (- a01 * - a12 - (1 - b11) * - a02))
          - ((-1 - b00) * ((-1 - b11) * (-1 - b22) - - a12 * - a12) - - a01 * (- a01 * (-1 - b22) - - a12 * - a02) + - a02 * (- a01 * - a12 - (-1 - b11) * - a02))
          = 2 + 2 * ((b00 * b11 - a01 * a01) + - (a02 * a02 - b00 * b22) + (b11 * b22 - a12 * a12))) as G by ring.
    rewrite X2, Y1, Z0 in G. rewrite F1, F2 in G. nra. }
  apply Rmult_integral in E. destruct E; [apply Hm | apply Hn]; lra.
Qed.

(* C08_3x3_exact, non-diagonal branch, threshold 0 *)
Lemma P_3x3_exact : forall a00 a01 a02 a11 a12 a22,
  0 < a01 * a01 + a02 * a02 + a12 * a12 ->
  let A := c08_symm a00 a01 a02 a11 a12 a22 in
  let ev := c08_smith3 a00 a01 a02 a11 a12 a22 in
  let r := c08_clamp (c08_smith3_r a00 a01 a02 a11 a12 a22) (-1) 1 in
  let '(l0, l1, l2) := ev in
  l0 <= l1 /\ l1 <= l2 /\ l0 + l1 + l2 = a00 + a11 + a22 /\
  (forall x, c08_charpoly3 a00 a01 a02 a11 a12 a22 x = (x - l0) * (x - l1) * (x - l2)) /\
  exists w0 w1 w2, c08_eigvecs3 A r ev = Some (w0, w1, w2) /\
    c08_eigvec_of A l0 w0 /\ c08_eigvec_of A l1 w1 /\ c08_eigvec_of A l2 w2 /\
    c08_dot3 w0 w0 = 1 /\ c08_dot3 w1 w1 = 1 /\ c08_dot3 w2 w2 = 1 /\
    c08_dot3 w0 w1 = 0 /\ c08_dot3 w0 w2 = 0 /\ c08_dot3 w1 w2 = 0.
Proof.
  intros a00 a01 a02 a11 a12 a22 Hp1 A ev r.
  pose proof (P_smith3 a00 a01 a02 a11 a12 a22 Hp1) as H. pose proof (P_smith3_factor a00 a01 a02 a11 a12 a22 Hp1) as F.
  pose proof (P_smith3_separated a00 a01 a02 a11 a12 a22 Hp1) as S. pose proof (Hclamp a00 a01 a02 a11 a12 a22 Hp1) as Hc.
  unfold smith in *. fold (c08_smith3_r a00 a01 a02 a11 a12 a22) in S, Hc.
  assert (r = c08_smith3_r a00 a01 a02 a11 a12 a22) as Er.
  { unfold r, c08_clamp. destruct (Rlt_dec _ (-1)); [lra|]. destruct (Rlt_dec 1 _); [lra | reflexivity]. }
  unfold ev. destruct (c08_smith3 a00 a01 a02 a11 a12 a22) as [[l0 l1] l2] eqn:Eev.
  destruct H as (O1 & O2 & Htr & _). destruct S as [Spos Sneg].
  split; [exact O1|]. split; [exact O2|]. split; [exact Htr|]. split; [exact F|].
  assert (forall l, c08_charpoly3 a00 a01 a02 a11 a12 a22 l = 0 -> c08_det3m (c08_shift3 A l) = 0) as Hd.
  { intros l Hl. unfold A. rewrite det_charpoly, Hl. ring. }
  apply (P_eigvec3 a00 a01 a02 a11 a12 a22 r l0 l1 l2).
  - apply Hd. rewrite F. ring.
  - apply Hd. rewrite F. ring.
  - apply Hd. rewrite F. ring.
  - exact Htr.
  - intros Hr. rewrite Er in Hr. specialize (Spos Hr). split; [lra|].
    apply (rank2_of_simple a00 a01 a02 a11 a12 a22 l2 l0 l1); [intros x; rewrite F; ring | lra | lra].
  - intros Hr. rewrite Er in Hr. specialize (Sneg Hr). split; [lra|].
    apply (rank2_of_simple a00 a01 a02 a11 a12 a22 l0 l1 l2); [intros x; rewrite F; ring | lra | lra].
Qed.

Lemma P_ex_p1 : 0 < 2 * 2 + 0 * 0 + 0 * 0.
Proof. lra. Qed.
