(* C08 — proofs, part 6: C08_3x3_scale_invariant.  Because the whole 3x3 computation runs on A / ||A||_inf, the result for
   s A (s > 0) is s times the eigenvalues and EXACTLY the same eigenvectors, whatever the computation on the scaled matrix is
   (any thresholds, eigenvalue-only or with eigenvectors). *)
From Coq Require Import Reals Lra.
From DuneV Require Import C08_Spec.
Local Open Scope R_scope.

Lemma infnorm3_scale : forall s a00 a01 a02 a11 a12 a22, 0 <= s ->
  c08_infnorm3 (s * a00) (s * a01) (s * a02) (s * a11) (s * a12) (s * a22) = s * c08_infnorm3 a00 a01 a02 a11 a12 a22.
Proof.
  intros. unfold c08_infnorm3.
  assert (forall x, Rabs (s * x) = s * Rabs x) as Ab by (intros; rewrite Rabs_mult, (Rabs_pos_eq s) by assumption; reflexivity).
  rewrite !Ab. rewrite <- !Rmult_plus_distr_l. replace 0 with (s * 0) at 1 by ring. rewrite !RmaxRmult by assumption. reflexivity.
Qed.

Lemma P_3x3_scale_invariant : forall (X : Type) (core : R -> R -> R -> R -> R -> R -> (R * R * R) * X)
  s a00 a01 a02 a11 a12 a22, 0 < s -> c08_infnorm3 a00 a01 a02 a11 a12 a22 <> 0 ->
  c08_prescaled core (s * a00) (s * a01) (s * a02) (s * a11) (s * a12) (s * a22) =
  let '((e0, e1, e2), x) := c08_prescaled core a00 a01 a02 a11 a12 a22 in ((s * e0, s * e1, s * e2), x).
Proof.
  intros X core s a00 a01 a02 a11 a12 a22 Hs Hn. unfold c08_prescaled.
  rewrite infnorm3_scale by lra. set (n := c08_infnorm3 a00 a01 a02 a11 a12 a22) in *.
  destruct (Req_EM_T n 0) as [E|_]; [contradiction|].
  destruct (Req_EM_T (s * n) 0) as [E|_]; [exfalso; apply Rmult_integral in E; destruct E; [lra | contradiction]|].
  replace (s * a00 / (s * n)) with (a00 / n) by (field; split; lra || assumption).
  replace (s * a01 / (s * n)) with (a01 / n) by (field; split; lra || assumption).
  replace (s * a02 / (s * n)) with (a02 / n) by (field; split; lra || assumption).
  replace (s * a11 / (s * n)) with (a11 / n) by (field; split; lra || assumption).
  replace (s * a12 / (s * n)) with (a12 / n) by (field; split; lra || assumption).
  replace (s * a22 / (s * n)) with (a22 / n) by (field; split; lra || assumption).
  destruct (core _ _ _ _ _ _) as [[[e0 e1] e2] x]. f_equal. f_equal; [f_equal|]; ring.
Qed.
