(* C08 — proofs, part 5: Impl::eig0 (3x3 closed-form eigenvector for a simple eigenvalue) in exact real arithmetic.
   The choice of the row pair is a proof obligation here: the selected pair has the LARGEST cross product (the documented
   robustness rule), hence a non-zero one whenever A - l I has rank 2, and the normalised cross product is a unit eigenvector. *)
From Coq Require Import Reals Lra Lia List.
From DuneV Require Import C08_Spec.
Local Open Scope R_scope.

Lemma norm3_nonneg : forall v, 0 <= c08_norm3 v.
Proof. intros [[a b] c]. apply sqrt_pos. Qed.

Lemma norm3_sq : forall a b c, c08_norm3 (a, b, c) * c08_norm3 (a, b, c) = a * a + b * b + c * c.
Proof.
  intros. unfold c08_norm3. rewrite Rplus_0_l. apply sqrt_sqrt.
  pose proof (Rle_0_sqr a). pose proof (Rle_0_sqr b). pose proof (Rle_0_sqr c). unfold Rsqr in *. lra.
Qed.

Lemma norm3_zero : forall a b c, c08_norm3 (a, b, c) = 0 -> a = 0 /\ b = 0 /\ c = 0.
Proof.
  intros a b c H. pose proof (norm3_sq a b c) as E. rewrite H in E.
  pose proof (Rle_0_sqr a). pose proof (Rle_0_sqr b). pose proof (Rle_0_sqr c). unfold Rsqr in *.
  assert (a * a = 0) by lra. assert (b * b = 0) by lra. assert (c * c = 0) by lra.
  assert (forall x, x * x = 0 -> x = 0) as Z by (intros x Hx; destruct (Rmult_integral _ _ Hx); assumption).
  repeat split; apply Z; assumption.
Qed.

Lemma unit_div3 : forall a b c, c08_norm3 (a, b, c) <> 0 ->
  c08_dot3 (c08_div3 (a, b, c) (c08_norm3 (a, b, c))) (c08_div3 (a, b, c) (c08_norm3 (a, b, c))) = 1.
Proof.
  intros a b c H. set (d := c08_norm3 (a, b, c)) in *. pose proof (norm3_sq a b c) as E. fold d in E.
  unfold c08_div3, c08_dot3.
  replace (a / d * (a / d) + b / d * (b / d) + c / d * (c / d)) with ((a * a + b * b + c * c) / (d * d)) by (field; exact H).
  rewrite <- E. field. exact H.
Qed.

Definition is_zero3 (v : c08_vec3) : Prop := let '(a, b, c) := v in a = 0 /\ b = 0 /\ c = 0.

Lemma P_eig0 : forall (A : c08_mat3) (l : R),
  c08_det3m (c08_shift3 A l) = 0 ->                                        (* l is an eigenvalue *)
  (let '(r0, r1, r2) := c08_shift3 A l in
   ~ (is_zero3 (c08_cross r0 r1) /\ is_zero3 (c08_cross r0 r2) /\ is_zero3 (c08_cross r1 r2))) ->   (* A - l I has rank 2 *)
  let '(imax, v) := c08_eig0 A l in
  let '(d0, d1, d2) := c08_eig0_d A l in
  c08_mv3 (c08_shift3 A l) v = (0, 0, 0) /\ c08_dot3 v v = 1 /\
  nth imax (d0 :: d1 :: d2 :: nil) 0 = Rmax d0 (Rmax d1 d2) /\ 0 < Rmax d0 (Rmax d1 d2).
Proof.
  intros [[[[a00 a01] a02] [[a10 a11] a12]] [[a20 a21] a22]] l Hdet Hrk.
  unfold c08_eig0, c08_eig0_d. unfold c08_shift3 in *. unfold c08_det3m, c08_det3 in Hdet.
  set (b00 := a00 - l) in *. set (b11 := a11 - l) in *. set (b22 := a22 - l) in *.
  unfold c08_cross in *.
  set (x0 := a01 * a12 - a02 * b11) in *. set (x1 := a02 * a10 - b00 * a12) in *. set (x2 := b00 * b11 - a01 * a10) in *.
  set (y0 := a01 * b22 - a02 * a21) in *. set (y1 := a02 * a20 - b00 * b22) in *. set (y2 := b00 * a21 - a01 * a20) in *.
  set (z0 := b11 * b22 - a12 * a21) in *. set (z1 := a12 * a20 - a10 * b22) in *. set (z2 := a10 * a21 - b11 * a20) in *.
  pose proof (norm3_nonneg (x0, x1, x2)) as N0. pose proof (norm3_nonneg (y0, y1, y2)) as N1. pose proof (norm3_nonneg (z0, z1, z2)) as N2.
  set (d0 := c08_norm3 (x0, x1, x2)) in *. set (d1 := c08_norm3 (y0, y1, y2)) in *. set (d2 := c08_norm3 (z0, z1, z2)) in *.
  assert (0 < Rmax d0 (Rmax d1 d2)) as Hpos.
  { destruct (Rle_lt_dec (Rmax d0 (Rmax d1 d2)) 0) as [Hle|]; [|assumption]. exfalso. apply Hrk.
    pose proof (Rmax_l d0 (Rmax d1 d2)). pose proof (Rmax_r d0 (Rmax d1 d2)). pose proof (Rmax_l d1 d2). pose proof (Rmax_r d1 d2).
    assert (d0 = 0) as E0 by lra. assert (d1 = 0) as E1 by lra. assert (d2 = 0) as E2 by lra.
    unfold is_zero3. split; [|split]; apply norm3_zero; assumption. }
  (* the three orthogonality facts of each cross product; the third one is +-det = 0 *)
  unfold z0, z2 in Hdet.
  assert (b00 * x0 + a01 * x1 + a02 * x2 = 0) as X0 by (unfold x0, x1, x2; ring).
  assert (a10 * x0 + b11 * x1 + a12 * x2 = 0) as X1 by (unfold x0, x1, x2; ring).
  assert (a20 * x0 + a21 * x1 + b22 * x2 = 0) as X2 by (unfold x0, x1, x2; replace (a20 * (a01 * a12 - a02 * b11) + a21 * (a02 * a10 - b00 * a12) + b22 * (b00 * b11 - a01 * a10)) with (1 * (b00 * (b11 * b22 - a12 * a21) - a01 * (a10 * b22 - a12 * a20) + a02 * (a10 * a21 - b11 * a20))) by ring; rewrite Hdet; ring).
  assert (b00 * y0 + a01 * y1 + a02 * y2 = 0) as Y0 by (unfold y0, y1, y2; ring).
  assert (a10 * y0 + b11 * y1 + a12 * y2 = 0) as Y1 by (unfold y0, y1, y2; replace (a10 * (a01 * b22 - a02 * a21) + b11 * (a02 * a20 - b00 * b22) + a12 * (b00 * a21 - a01 * a20)) with (-1 * (b00 * (b11 * b22 - a12 * a21) - a01 * (a10 * b22 - a12 * a20) + a02 * (a10 * a21 - b11 * a20))) by ring; rewrite Hdet; ring).
  assert (a20 * y0 + a21 * y1 + b22 * y2 = 0) as Y2 by (unfold y0, y1, y2; ring).
  assert (b00 * z0 + a01 * z1 + a02 * z2 = 0) as Z0 by (unfold z0, z1, z2; replace (b00 * (b11 * b22 - a12 * a21) + a01 * (a12 * a20 - a10 * b22) + a02 * (a10 * a21 - b11 * a20)) with (1 * (b00 * (b11 * b22 - a12 * a21) - a01 * (a10 * b22 - a12 * a20) + a02 * (a10 * a21 - b11 * a20))) by ring; rewrite Hdet; ring).
  assert (a10 * z0 + b11 * z1 + a12 * z2 = 0) as Z1 by (unfold z0, z1, z2; ring).
  assert (a20 * z0 + a21 * z1 + b22 * z2 = 0) as Z2 by (unfold z0, z1, z2; ring).
  assert (forall r0 r1 r2 v0 v1 v2 d, r0 * v0 + r1 * v1 + r2 * v2 = 0 -> r0 * (v0 / d) + r1 * (v1 / d) + r2 * (v2 / d) = 0) as Hs.
  { intros. replace (r0 * (v0 / d) + r1 * (v1 / d) + r2 * (v2 / d)) with ((r0 * v0 + r1 * v1 + r2 * v2) / d) by (unfold Rdiv; ring).
    rewrite H. unfold Rdiv. ring. }
  destruct (Rlt_dec d0 d1) as [L01|L01]; [destruct (Rlt_dec d1 d2) as [L|L] | destruct (Rlt_dec d0 d2) as [L|L]]; simpl nth.
  - (* pair (row1,row2) *)
    assert (Rmax d0 (Rmax d1 d2) = d2) as E by (rewrite (Rmax_right d1 d2) by lra; apply Rmax_right; lra).
    rewrite E in *. split; [|split; [|split; [reflexivity | exact Hpos]]].
    + unfold c08_mv3, c08_div3, c08_dot3. f_equal; [f_equal|]; apply Hs; assumption.
    + apply unit_div3. fold d2. lra.
  - (* pair (row0,row2) *)
    assert (Rmax d0 (Rmax d1 d2) = d1) as E by (rewrite (Rmax_left d1 d2) by lra; apply Rmax_right; lra).
    rewrite E in *. split; [|split; [|split; [reflexivity | exact Hpos]]].
    + unfold c08_mv3, c08_div3, c08_dot3. f_equal; [f_equal|]; apply Hs; assumption.
    + apply unit_div3. fold d1. lra.
  - (* pair (row1,row2) *)
    assert (Rmax d0 (Rmax d1 d2) = d2) as E by (rewrite (Rmax_right d1 d2) by lra; apply Rmax_right; lra).
    rewrite E in *. split; [|split; [|split; [reflexivity | exact Hpos]]].
    + unfold c08_mv3, c08_div3, c08_dot3. f_equal; [f_equal|]; apply Hs; assumption.
    + apply unit_div3. fold d2. lra.
  - (* pair (row0,row1) *)
    assert (Rmax d0 (Rmax d1 d2) = d0) as E.
    { apply Rmax_left. apply Rmax_lub; lra. }
    rewrite E in *. split; [|split; [|split; [reflexivity | exact Hpos]]].
    + unfold c08_mv3, c08_div3, c08_dot3. f_equal; [f_equal|]; apply Hs; assumption.
    + apply unit_div3. fold d0. lra.
Qed.

(* the hypotheses are satisfiable by the matrix of the missed seeded change: [[1,0,2],[0,-5,0],[2,0,3]], l = -5
   (row 1 of A - l I vanishes: only the pair (row0,row2) has a non-zero cross product, (0,-44,0)) *)
Definition c08_ex_A3 : c08_mat3 := ((1, 0, 2), (0, -5, 0), (2, 0, 3)).
Lemma P_ex_eig0 : c08_det3m (c08_shift3 c08_ex_A3 (-5)) = 0 /\
  (let '(r0, r1, r2) := c08_shift3 c08_ex_A3 (-5) in
   ~ (is_zero3 (c08_cross r0 r1) /\ is_zero3 (c08_cross r0 r2) /\ is_zero3 (c08_cross r1 r2))) /\
  fst (c08_eig0 c08_ex_A3 (-5)) = 1%nat.
Proof.
  split; [|split].
  - unfold c08_ex_A3, c08_shift3, c08_det3m, c08_det3. ring.
  - unfold c08_ex_A3, c08_shift3, c08_cross, is_zero3. intros (_ & (_ & H & _) & _). lra.
  - pose proof (P_eig0 c08_ex_A3 (-5)) as H.
    unfold c08_ex_A3, c08_eig0, c08_shift3, c08_cross in *.
    replace (0 * 0 - 2 * (-5 - -5)) with 0 by ring. replace (2 * 0 - (1 - -5) * 0) with 0 by ring.
    replace ((1 - -5) * (-5 - -5) - 0 * 0) with 0 by ring.
    replace ((-5 - -5) * (3 - -5) - 0 * 0) with 0 by ring. replace (0 * 2 - 0 * (3 - -5)) with 0 by ring.
    replace (0 * 0 - (-5 - -5) * 2) with 0 by ring.
    assert (c08_norm3 (0, 0, 0) = 0) as E0 by (unfold c08_norm3; replace (0 + 0 * 0 + 0 * 0 + 0 * 0) with 0 by ring; apply sqrt_0).
    rewrite E0.
    assert (0 < c08_norm3 (0 * (3 - -5) - 2 * 0, 2 * 2 - (1 - -5) * (3 - -5), (1 - -5) * 0 - 0 * 2)) as Hp.
    { unfold c08_norm3. apply sqrt_lt_R0. nra. }
    destruct (Rlt_dec 0 _) as [L|L]; [|contradiction].
    destruct (Rlt_dec _ 0) as [L2|L2]; [lra | reflexivity].
Qed.
