(* C08 — proofs, part 7: the 3x3 eigenvector construction (orthoComp, eig1, third vector by cross product) over R. *)
From Coq Require Import Reals Lra Lia.
From DuneV Require Import C08_Spec C08_Proofs_Eig0.
Local Open Scope R_scope.

Definition c08_det_rows (e u v : c08_vec3) : R :=
  let '(e0, e1, e2) := e in let '(u0, u1, u2) := u in let '(v0, v1, v2) := v in
  e0 * (u1 * v2 - u2 * v1) - e1 * (u0 * v2 - u2 * v0) + e2 * (u0 * v1 - u1 * v0).

(* Cramer: a vector orthogonal to three independent vectors vanishes *)
Lemma cramer3 : forall e u v z, c08_det_rows e u v <> 0 ->
  c08_dot3 z e = 0 -> c08_dot3 z u = 0 -> c08_dot3 z v = 0 -> z = (0, 0, 0).
Proof.
  intros [[e0 e1] e2] [[u0 u1] u2] [[v0 v1] v2] [[z0 z1] z2] D Ze Zu Zv. unfold c08_det_rows, c08_dot3 in *.
  set (det := e0 * (u1 * v2 - u2 * v1) - e1 * (u0 * v2 - u2 * v0) + e2 * (u0 * v1 - u1 * v0)) in *.
  assert (z0 * det = (z0 * e0 + z1 * e1 + z2 * e2) * (u1 * v2 - u2 * v1) + (z0 * u0 + z1 * u1 + z2 * u2) * (v1 * e2 - v2 * e1)
                     + (z0 * v0 + z1 * v1 + z2 * v2) * (e1 * u2 - e2 * u1)) as C0 by (unfold det; ring).
  assert (z1 * det = (z0 * e0 + z1 * e1 + z2 * e2) * (u2 * v0 - u0 * v2) + (z0 * u0 + z1 * u1 + z2 * u2) * (v2 * e0 - v0 * e2)
                     + (z0 * v0 + z1 * v1 + z2 * v2) * (e2 * u0 - e0 * u2)) as C1 by (unfold det; ring).
  assert (z2 * det = (z0 * e0 + z1 * e1 + z2 * e2) * (u0 * v1 - u1 * v0) + (z0 * u0 + z1 * u1 + z2 * u2) * (v0 * e1 - v1 * e0)
                     + (z0 * v0 + z1 * v1 + z2 * v2) * (e0 * u1 - e1 * u0)) as C2 by (unfold det; ring).
  rewrite Ze, Zu, Zv in C0, C1, C2.
  assert (forall x, x * det = 0 * (u1 * v2 - u2 * v1) + 0 * (v1 * e2 - v2 * e1) + 0 * (e1 * u2 - e2 * u1) -> x = 0) as Z.
  { intros x Hx. assert (x * det = 0) as Hx' by lra. apply Rmult_integral in Hx'. destruct Hx'; [assumption | contradiction]. }
  assert (forall x a b c, x * det = 0 * a + 0 * b + 0 * c -> x = 0) as Z'.
  { intros x a b c Hx. assert (x * det = 0) as Hx' by lra. apply Rmult_integral in Hx'. destruct Hx'; [assumption | contradiction]. }
  f_equal; [f_equal|]; eapply Z'; eassumption.
Qed.

(* e, u orthonormal, v = e x u: an orthonormal right-handed frame *)
Lemma frame_facts : forall e u, c08_dot3 e e = 1 -> c08_dot3 u u = 1 -> c08_dot3 e u = 0 ->
  let v := c08_cross e u in
  c08_dot3 v v = 1 /\ c08_dot3 e v = 0 /\ c08_dot3 u v = 0 /\ c08_det_rows e u v = 1.
Proof.
  intros [[e0 e1] e2] [[u0 u1] u2] Hee Huu Heu v. unfold v, c08_cross, c08_dot3, c08_det_rows in *.
  assert (forall X, X = (e0 * e0 + e1 * e1 + e2 * e2) * (u0 * u0 + u1 * u1 + u2 * u2) - (e0 * u0 + e1 * u1 + e2 * u2) * (e0 * u0 + e1 * u1 + e2 * u2) -> X = 1) as L.
  { intros X HX. rewrite HX, Hee, Huu, Heu. ring. }
  repeat split; try ring; apply L; ring.
Qed.

(* ---- symmetric A, a unit eigenvector e (eigenvalue l0), an orthonormal frame (e,u,v) with det 1 ---- *)
Section Eig1.
Variables a00 a01 a02 a11 a12 a22 l0 l1 : R.
Variables e0 e1 e2 u0 u1 u2 v0 v1 v2 : R.
Let A := c08_symm a00 a01 a02 a11 a12 a22.
Let e : c08_vec3 := (e0, e1, e2).
Let u : c08_vec3 := (u0, u1, u2).
Let v : c08_vec3 := (v0, v1, v2).
Hypothesis HAe : c08_mv3 A e = c08_smul3 l0 e.
Hypothesis Hee : c08_dot3 e e = 1.
Hypothesis Huu : c08_dot3 u u = 1.
Hypothesis Hvv : c08_dot3 v v = 1.
Hypothesis Heu : c08_dot3 e u = 0.
Hypothesis Hev : c08_dot3 e v = 0.
Hypothesis Huv : c08_dot3 u v = 0.
Hypothesis Hdet : c08_det_rows e u v = 1.

Let m00 := c08_dot3 u (c08_mv3 A u) - l1.
Let m01 := c08_dot3 u (c08_mv3 A v).
Let m11 := c08_dot3 v (c08_mv3 A v) - l1.

(* det(A - l1 I) = (l0 - l1) det M: A - l1 I in the basis (e,u,v) is diag(l0 - l1, M) *)
Lemma detM : c08_det3m (c08_shift3 A l1) = (l0 - l1) * (m00 * m11 - m01 * m01).
Proof.
  unfold m00, m01, m11, e, u, v in *.
  unfold A, c08_symm, c08_shift3, c08_det3m, c08_det3, c08_mv3, c08_dot3, c08_smul3, c08_det_rows in *.
  inversion HAe as [[E0 E1 E2]]. clear HAe.
  set (b00 := a00 - l1). set (b11 := a11 - l1). set (b22 := a22 - l1).
  (* B q for q = e, u, v *)
  set (Be0 := b00 * e0 + a01 * e1 + a02 * e2). set (Be1 := a01 * e0 + b11 * e1 + a12 * e2). set (Be2 := a02 * e0 + a12 * e1 + b22 * e2).
  set (Bu0 := b00 * u0 + a01 * u1 + a02 * u2). set (Bu1 := a01 * u0 + b11 * u1 + a12 * u2). set (Bu2 := a02 * u0 + a12 * u1 + b22 * u2).
  set (Bv0 := b00 * v0 + a01 * v1 + a02 * v2). set (Bv1 := a01 * v0 + b11 * v1 + a12 * v2). set (Bv2 := a02 * v0 + a12 * v1 + b22 * v2).
  set (G00 := e0 * Be0 + e1 * Be1 + e2 * Be2). set (G01 := e0 * Bu0 + e1 * Bu1 + e2 * Bu2). set (G02 := e0 * Bv0 + e1 * Bv1 + e2 * Bv2).
  set (G10 := u0 * Be0 + u1 * Be1 + u2 * Be2). set (G11 := u0 * Bu0 + u1 * Bu1 + u2 * Bu2). set (G12 := u0 * Bv0 + u1 * Bv1 + u2 * Bv2).
  set (G20 := v0 * Be0 + v1 * Be1 + v2 * Be2). set (G21 := v0 * Bu0 + v1 * Bu1 + v2 * Bu2). set (G22 := v0 * Bv0 + v1 * Bv1 + v2 * Bv2).
  set (dQ := e0 * (u1 * v2 - u2 * v1) - e1 * (u0 * v2 - u2 * v0) + e2 * (u0 * v1 - u1 * v0)) in *.
  set (dB := b00 * (b11 * b22 - a12 * a12) - a01 * (a01 * b22 - a12 * a02) + a02 * (a01 * a12 - b11 * a02)).
  assert (dQ * dB * dQ = G00 * (G11 * G22 - G12 * G21) - G01 * (G10 * G22 - G12 * G20) + G02 * (G10 * G21 - G11 * G20)) as Mult.
  { unfold dQ, dB, G00, G01, G02, G10, G11, G12, G20, G21, G22, Be0, Be1, Be2, Bu0, Bu1, Bu2, Bv0, Bv1, Bv2. ring. }
  assert (Be0 = (l0 - l1) * e0) as F0 by (unfold Be0, b00; lra).
  assert (Be1 = (l0 - l1) * e1) as F1 by (unfold Be1, b11; lra).
  assert (Be2 = (l0 - l1) * e2) as F2 by (unfold Be2, b22; lra).
  assert (G00 = l0 - l1) as H00 by (unfold G00; rewrite F0, F1, F2; replace (e0 * ((l0 - l1) * e0) + e1 * ((l0 - l1) * e1) + e2 * ((l0 - l1) * e2)) with ((l0 - l1) * (e0 * e0 + e1 * e1 + e2 * e2)) by ring; rewrite Hee; ring).
  assert (G10 = 0) as H10 by (unfold G10; rewrite F0, F1, F2; replace (u0 * ((l0 - l1) * e0) + u1 * ((l0 - l1) * e1) + u2 * ((l0 - l1) * e2)) with ((l0 - l1) * (e0 * u0 + e1 * u1 + e2 * u2)) by ring; rewrite Heu; ring).
  assert (G20 = 0) as H20 by (unfold G20; rewrite F0, F1, F2; replace (v0 * ((l0 - l1) * e0) + v1 * ((l0 - l1) * e1) + v2 * ((l0 - l1) * e2)) with ((l0 - l1) * (e0 * v0 + e1 * v1 + e2 * v2)) by ring; rewrite Hev; ring).
  assert (G01 = G10) as S01 by (unfold G01, G10, Be0, Be1, Be2, Bu0, Bu1, Bu2; ring).
  assert (G02 = G20) as S02 by (unfold G02, G20, Be0, Be1, Be2, Bv0, Bv1, Bv2; ring).
  assert (G21 = G12) as S12 by (unfold G21, G12, Bu0, Bu1, Bu2, Bv0, Bv1, Bv2; ring).
  assert (G11 = u0 * (a00 * u0 + a01 * u1 + a02 * u2) + u1 * (a01 * u0 + a11 * u1 + a12 * u2) + u2 * (a02 * u0 + a12 * u1 + a22 * u2) - l1) as H11.
  { unfold G11, Bu0, Bu1, Bu2, b00, b11, b22.
    replace (u0 * ((a00 - l1) * u0 + a01 * u1 + a02 * u2) + u1 * (a01 * u0 + (a11 - l1) * u1 + a12 * u2) + u2 * (a02 * u0 + a12 * u1 + (a22 - l1) * u2))
      with (u0 * (a00 * u0 + a01 * u1 + a02 * u2) + u1 * (a01 * u0 + a11 * u1 + a12 * u2) + u2 * (a02 * u0 + a12 * u1 + a22 * u2) - l1 * (u0 * u0 + u1 * u1 + u2 * u2)) by ring.
    rewrite Huu. ring. }
  assert (G22 = v0 * (a00 * v0 + a01 * v1 + a02 * v2) + v1 * (a01 * v0 + a11 * v1 + a12 * v2) + v2 * (a02 * v0 + a12 * v1 + a22 * v2) - l1) as H22.
  { unfold G22, Bv0, Bv1, Bv2, b00, b11, b22.
    replace (v0 * ((a00 - l1) * v0 + a01 * v1 + a02 * v2) + v1 * (a01 * v0 + (a11 - l1) * v1 + a12 * v2) + v2 * (a02 * v0 + a12 * v1 + (a22 - l1) * v2))
      with (v0 * (a00 * v0 + a01 * v1 + a02 * v2) + v1 * (a01 * v0 + a11 * v1 + a12 * v2) + v2 * (a02 * v0 + a12 * v1 + a22 * v2) - l1 * (v0 * v0 + v1 * v1 + v2 * v2)) by ring.
    rewrite Hvv. ring. }
  assert (G12 = u0 * (a00 * v0 + a01 * v1 + a02 * v2) + u1 * (a01 * v0 + a11 * v1 + a12 * v2) + u2 * (a02 * v0 + a12 * v1 + a22 * v2)) as H12.
  { unfold G12, Bv0, Bv1, Bv2, b00, b11, b22.
    replace (u0 * ((a00 - l1) * v0 + a01 * v1 + a02 * v2) + u1 * (a01 * v0 + (a11 - l1) * v1 + a12 * v2) + u2 * (a02 * v0 + a12 * v1 + (a22 - l1) * v2))
      with (u0 * (a00 * v0 + a01 * v1 + a02 * v2) + u1 * (a01 * v0 + a11 * v1 + a12 * v2) + u2 * (a02 * v0 + a12 * v1 + a22 * v2) - l1 * (u0 * v0 + u1 * v1 + u2 * v2)) by ring.
    rewrite Huv. ring. }
  rewrite Hdet in Mult. rewrite S01, S02, S12, H10, H20, H00 in Mult.
  rewrite <- H11, <- H22, <- H12. fold dB. lra.
Qed.

(* any combination w = x u + y v with M (x,y)^T = 0 is an eigenvector for l1, orthogonal to e; unit if x^2 + y^2 = 1 *)
Lemma combo_eig : forall x y, m00 * x + m01 * y = 0 -> m01 * x + m11 * y = 0 ->
  let w : c08_vec3 := (x * u0 + y * v0, x * u1 + y * v1, x * u2 + y * v2) in
  c08_mv3 (c08_shift3 A l1) w = (0, 0, 0) /\ c08_dot3 e w = 0 /\ (x * x + y * y = 1 -> c08_dot3 w w = 1).
Proof.
  intros x y M0 M1 w.
  assert (c08_dot3 e w = 0) as Hew.
  { unfold w, e, c08_dot3 in *. unfold u, v, e, c08_dot3 in Heu, Hev.
    replace (e0 * (x * u0 + y * v0) + e1 * (x * u1 + y * v1) + e2 * (x * u2 + y * v2))
      with (x * (e0 * u0 + e1 * u1 + e2 * u2) + y * (e0 * v0 + e1 * v1 + e2 * v2)) by ring.
    rewrite Heu, Hev. ring. }
  split; [|split; [exact Hew|]].
  - apply (cramer3 e u v); [rewrite Hdet; lra| | |].
    + (* z . e = (l0 - l1) (w . e) *)
      unfold w, e, u, v, c08_dot3 in Hew. unfold A, c08_symm, c08_shift3, c08_mv3, c08_dot3, c08_smul3, e, u, v, w in *.
      inversion HAe as [[E0 E1 E2]].
      replace ((((a00 - l1) * (x * u0 + y * v0) + a01 * (x * u1 + y * v1) + a02 * (x * u2 + y * v2)) * e0 +
                (a01 * (x * u0 + y * v0) + (a11 - l1) * (x * u1 + y * v1) + a12 * (x * u2 + y * v2)) * e1 +
                (a02 * (x * u0 + y * v0) + a12 * (x * u1 + y * v1) + (a22 - l1) * (x * u2 + y * v2)) * e2))
        with ((x * u0 + y * v0) * ((a00 * e0 + a01 * e1 + a02 * e2) - l1 * e0) + (x * u1 + y * v1) * ((a01 * e0 + a11 * e1 + a12 * e2) - l1 * e1)
              + (x * u2 + y * v2) * ((a02 * e0 + a12 * e1 + a22 * e2) - l1 * e2)) by ring.
      rewrite E0, E1, E2.
      replace ((x * u0 + y * v0) * (l0 * e0 - l1 * e0) + (x * u1 + y * v1) * (l0 * e1 - l1 * e1) + (x * u2 + y * v2) * (l0 * e2 - l1 * e2))
        with ((l0 - l1) * (e0 * (x * u0 + y * v0) + e1 * (x * u1 + y * v1) + e2 * (x * u2 + y * v2))) by ring.
      rewrite Hew. ring.
    + (* z . u = m00 x + m01 y *)
      rewrite <- M0. unfold m00, m01. unfold A, c08_symm, c08_shift3, c08_mv3, c08_dot3, e, u, v, w in *.
      replace (((a00 - l1) * (x * u0 + y * v0) + a01 * (x * u1 + y * v1) + a02 * (x * u2 + y * v2)) * u0 +
               (a01 * (x * u0 + y * v0) + (a11 - l1) * (x * u1 + y * v1) + a12 * (x * u2 + y * v2)) * u1 +
               (a02 * (x * u0 + y * v0) + a12 * (x * u1 + y * v1) + (a22 - l1) * (x * u2 + y * v2)) * u2)
        with ((u0 * (a00 * u0 + a01 * u1 + a02 * u2) + u1 * (a01 * u0 + a11 * u1 + a12 * u2) + u2 * (a02 * u0 + a12 * u1 + a22 * u2)
               - l1 * (u0 * u0 + u1 * u1 + u2 * u2)) * x +
              (u0 * (a00 * v0 + a01 * v1 + a02 * v2) + u1 * (a01 * v0 + a11 * v1 + a12 * v2) + u2 * (a02 * v0 + a12 * v1 + a22 * v2)
               - l1 * (u0 * v0 + u1 * v1 + u2 * v2)) * y) by ring.
      rewrite Huu, Huv. ring.
    + (* z . v = m01 x + m11 y *)
      rewrite <- M1. unfold m01, m11. unfold A, c08_symm, c08_shift3, c08_mv3, c08_dot3, e, u, v, w in *.
      replace (((a00 - l1) * (x * u0 + y * v0) + a01 * (x * u1 + y * v1) + a02 * (x * u2 + y * v2)) * v0 +
               (a01 * (x * u0 + y * v0) + (a11 - l1) * (x * u1 + y * v1) + a12 * (x * u2 + y * v2)) * v1 +
               (a02 * (x * u0 + y * v0) + a12 * (x * u1 + y * v1) + (a22 - l1) * (x * u2 + y * v2)) * v2)
        with ((u0 * (a00 * v0 + a01 * v1 + a02 * v2) + u1 * (a01 * v0 + a11 * v1 + a12 * v2) + u2 * (a02 * v0 + a12 * v1 + a22 * v2)
               - l1 * (u0 * v0 + u1 * v1 + u2 * v2)) * x +
              (v0 * (a00 * v0 + a01 * v1 + a02 * v2) + v1 * (a01 * v0 + a11 * v1 + a12 * v2) + v2 * (a02 * v0 + a12 * v1 + a22 * v2)
               - l1 * (v0 * v0 + v1 * v1 + v2 * v2)) * y) by ring.
      rewrite Hvv, Huv. ring.
  - intros Hxy. unfold w, u, v, c08_dot3 in *.
    replace ((x * u0 + y * v0) * (x * u0 + y * v0) + (x * u1 + y * v1) * (x * u1 + y * v1) + (x * u2 + y * v2) * (x * u2 + y * v2))
      with (x * x * (u0 * u0 + u1 * u1 + u2 * u2) + 2 * x * y * (u0 * v0 + u1 * v1 + u2 * v2) + y * y * (v0 * v0 + v1 * v1 + v2 * v2)) by ring.
    rewrite Huu, Huv, Hvv. lra.
Qed.
End Eig1.

(* ---- the coefficient computation of eig1 (four branches) ---- *)
Lemma unitc_ok : forall t, sqrt (1 + t * t) <> 0 /\ (1 / sqrt (1 + t * t)) * (1 / sqrt (1 + t * t)) * (1 + t * t) = 1.
Proof.
  intros t. assert (0 < 1 + t * t) as H by nra. assert (sqrt (1 + t * t) <> 0) as Hs by (intros E; apply sqrt_eq_0 in E; lra).
  split; [exact Hs|]. pose proof (sqrt_sqrt (1 + t * t) (Rlt_le _ _ H)) as Hq.
  set (s := sqrt (1 + t * t)) in *. rewrite <- Hq. field. exact Hs.
Qed.

Lemma coefA1 : forall p q r t c, p <> 0 -> t = q / p -> p * r - q * q = 0 -> c * c * (1 + t * t) = 1 ->
  p * (t * c) + q * (- c) = 0 /\ q * (t * c) + r * (- c) = 0 /\ (t * c) * (t * c) + (- c) * (- c) = 1.
Proof.
  intros p q r t c Hp Ht Hd Hc. assert (p * t = q) as E1 by (subst t; field; exact Hp).
  assert (q * t = r) as E2. { apply (Rmult_eq_reg_l p); [|exact Hp]. replace (p * (q * t)) with (q * (p * t)) by ring. rewrite E1. lra. }
  repeat split; [replace (p * (t * c) + q * - c) with (c * (p * t - q)) by ring; rewrite E1; ring
                |replace (q * (t * c) + r * - c) with (c * (q * t - r)) by ring; rewrite E2; ring | lra].
Qed.
Lemma coefA2 : forall p q r t c, q <> 0 -> t = p / q -> p * r - q * q = 0 -> c * c * (1 + t * t) = 1 ->
  p * c + q * (- (t * c)) = 0 /\ q * c + r * (- (t * c)) = 0 /\ c * c + (- (t * c)) * (- (t * c)) = 1.
Proof.
  intros p q r t c Hq Ht Hd Hc. assert (q * t = p) as E1 by (subst t; field; exact Hq).
  assert (r * t = q) as E2. { apply (Rmult_eq_reg_l q); [|exact Hq]. replace (q * (r * t)) with (r * (q * t)) by ring. rewrite E1. lra. }
  repeat split; [replace (p * c + q * - (t * c)) with (c * (p - q * t)) by ring; rewrite E1; ring
                |replace (q * c + r * - (t * c)) with (c * (q - r * t)) by ring; rewrite E2; ring | lra].
Qed.
Lemma coefB1 : forall p q r t c, r <> 0 -> t = q / r -> p * r - q * q = 0 -> c * c * (1 + t * t) = 1 ->
  p * c + q * (- (t * c)) = 0 /\ q * c + r * (- (t * c)) = 0 /\ c * c + (- (t * c)) * (- (t * c)) = 1.
Proof.
  intros p q r t c Hr Ht Hd Hc. assert (r * t = q) as E2 by (subst t; field; exact Hr).
  assert (q * t = p) as E1. { apply (Rmult_eq_reg_l r); [|exact Hr]. replace (r * (q * t)) with (q * (r * t)) by ring. rewrite E2. lra. }
  repeat split; [replace (p * c + q * - (t * c)) with (c * (p - q * t)) by ring; rewrite E1; ring
                |replace (q * c + r * - (t * c)) with (c * (q - r * t)) by ring; rewrite E2; ring | lra].
Qed.
Lemma coefB2 : forall p q r t c, q <> 0 -> t = r / q -> p * r - q * q = 0 -> c * c * (1 + t * t) = 1 ->
  p * (t * c) + q * (- c) = 0 /\ q * (t * c) + r * (- c) = 0 /\ (t * c) * (t * c) + (- c) * (- c) = 1.
Proof.
  intros p q r t c Hq Ht Hd Hc. assert (q * t = r) as E2 by (subst t; field; exact Hq).
  assert (p * t = q) as E1. { apply (Rmult_eq_reg_l q); [|exact Hq]. replace (q * (p * t)) with (p * (q * t)) by ring. rewrite E2. lra. }
  repeat split; [replace (p * (t * c) + q * - c) with (c * (p * t - q)) by ring; rewrite E1; ring
                |replace (q * (t * c) + r * - c) with (c * (q * t - r)) by ring; rewrite E2; ring | lra].
Qed.

Lemma orthocomp_ok : forall e, c08_dot3 e e = 1 ->
  exists u, c08_orthocomp e = Some (u, c08_cross e u) /\ c08_dot3 u u = 1 /\ c08_dot3 e u = 0.
Proof.
  intros [[e0 e1] e2] He. unfold c08_orthocomp, c08_divo, c08_dot3 in *.
  assert (forall a b, 0 < a * a + b * b -> let s := sqrt (0 + a * a + b * b) in s <> 0 /\ s * s = a * a + b * b) as Hs.
  { intros a b H s. unfold s. rewrite Rplus_0_l. split; [intros E; apply sqrt_eq_0 in E; lra | apply sqrt_sqrt; lra]. }
  destruct (Rlt_dec (Rabs e1) (Rabs e0)) as [L|L].
  - assert (0 < e0 * e0 + e2 * e2) as Hp.
    { pose proof (Rabs_pos e1). assert (e0 <> 0) by (intros E; subst; rewrite Rabs_R0 in L; lra). nra. }
    destruct (Hs e0 e2 Hp) as [Hn Hq]. set (s := sqrt (0 + e0 * e0 + e2 * e2)) in *.
    destruct (Req_EM_T s 0) as [E|_]; [contradiction|]. simpl.
    exists (1 / s * - e2, 1 / s * 0, 1 / s * e0). split; [reflexivity|]. simpl. split.
    + replace (1 / s * - e2 * (1 / s * - e2) + 1 / s * 0 * (1 / s * 0) + 1 / s * e0 * (1 / s * e0)) with ((e0 * e0 + e2 * e2) / (s * s)) by (field; exact Hn).
      rewrite Hq. field. lra.
    + field. exact Hn.
  - assert (0 < e1 * e1 + e2 * e2) as Hp.
    { destruct (Req_dec e1 0) as [E1|E1]; [|nra]. subst e1. rewrite Rabs_R0 in L.
      assert (e0 = 0) by (pose proof (Rabs_pos e0); destruct (Req_dec e0 0); [assumption | apply Rabs_pos_lt in H0; lra]). subst e0. nra. }
    destruct (Hs e1 e2 Hp) as [Hn Hq]. set (s := sqrt (0 + e1 * e1 + e2 * e2)) in *.
    destruct (Req_EM_T s 0) as [E|_]; [contradiction|]. simpl.
    exists (1 / s * 0, 1 / s * e2, 1 / s * - e1). split; [reflexivity|]. simpl. split.
    + replace (1 / s * 0 * (1 / s * 0) + 1 / s * e2 * (1 / s * e2) + 1 / s * - e1 * (1 / s * - e1)) with ((e1 * e1 + e2 * e2) / (s * s)) by (field; exact Hn).
      rewrite Hq. field. lra.
    + field. exact Hn.
Qed.

Lemma rabs_pos_nz : forall x, 0 < Rabs x -> x <> 0.
Proof. intros x H E. subst. rewrite Rabs_R0 in H. lra. Qed.

(* eig1: a unit eigenvector for l1 orthogonal to evec0, for every symmetric A, every eigenvalue l1 <> l0 (l1 may be a double
   eigenvalue: then M = 0 and the code returns u) *)
Lemma P_eig1 : forall a00 a01 a02 a11 a12 a22 l0 l1 e,
  let A := c08_symm a00 a01 a02 a11 a12 a22 in
  c08_mv3 A e = c08_smul3 l0 e -> c08_dot3 e e = 1 ->
  c08_det3m (c08_shift3 A l1) = 0 -> l1 <> l0 ->
  exists w, c08_eig1v A e l1 = Some w /\ c08_mv3 (c08_shift3 A l1) w = (0, 0, 0) /\ c08_dot3 w w = 1 /\ c08_dot3 e w = 0.
Proof.
  intros a00 a01 a02 a11 a12 a22 l0 l1 e A HAe Hee Hdet Hne.
  destruct (orthocomp_ok e Hee) as (u & Hoc & Huu & Heu).
  pose proof (frame_facts e u Hee Huu Heu) as Hf. cbv zeta in Hf.
  destruct e as [[e0 e1] e2]. destruct u as [[u0 u1] u2].
  remember (c08_cross (e0, e1, e2) (u0, u1, u2)) as v eqn:Ev. destruct v as [[v0 v1] v2].
  destruct Hf as (Hvv & Hev & Huv & HdQ).
  pose proof (detM a00 a01 a02 a11 a12 a22 l0 l1 e0 e1 e2 u0 u1 u2 v0 v1 v2 HAe Hee Huu Hvv Heu Hev Huv HdQ) as HM.
  pose proof (combo_eig a00 a01 a02 a11 a12 a22 l0 l1 e0 e1 e2 u0 u1 u2 v0 v1 v2 HAe Huu Hvv Heu Hev Huv HdQ) as Hcombo.
  fold A in HM, Hcombo. rewrite Hdet in HM.
  unfold c08_eig1v. rewrite Hoc. cbn [c08_obind]. cbv zeta.
  set (m00 := c08_dot3 (u0, u1, u2) (c08_mv3 A (u0, u1, u2)) - l1) in *.
  set (m01 := c08_dot3 (u0, u1, u2) (c08_mv3 A (v0, v1, v2))) in *.
  set (m11 := c08_dot3 (v0, v1, v2) (c08_mv3 A (v0, v1, v2)) - l1) in *.
  assert (m00 * m11 - m01 * m01 = 0) as HdM.
  { assert (l0 - l1 <> 0) by lra. apply (Rmult_eq_reg_l (l0 - l1)); [lra | assumption]. }
  pose proof (Rabs_pos m00) as P00. pose proof (Rabs_pos m01) as P01. pose proof (Rabs_pos m11) as P11.
  (* the result of a branch: c1 u - c2 v is the combination x = c1, y = - c2 *)
  assert (forall c1 c2, m00 * c1 + m01 * (- c2) = 0 -> m01 * c1 + m11 * (- c2) = 0 -> c1 * c1 + (- c2) * (- c2) = 1 ->
    let w := c08_sub3 (c08_smul3 c1 (u0, u1, u2)) (c08_smul3 c2 (v0, v1, v2)) in
    c08_mv3 (c08_shift3 A l1) w = (0, 0, 0) /\ c08_dot3 w w = 1 /\ c08_dot3 (e0, e1, e2) w = 0) as Hres.
  { intros c1 c2 M0 M1 Hu w. destruct (Hcombo c1 (- c2) M0 M1) as (R1 & R2 & R3).
    assert (w = (c1 * u0 + - c2 * v0, c1 * u1 + - c2 * v1, c1 * u2 + - c2 * v2)) as Ew by (unfold w; simpl; f_equal; [f_equal|]; ring).
    rewrite Ew. repeat split; [exact R1 | exact (R3 Hu) | exact R2]. }
  assert (forall t, exists c, c08_divo 1 (sqrt (1 + t * t)) = Some c /\ c * c * (1 + t * t) = 1) as Hunit.
  { intros t. destruct (unitc_ok t) as [Hn Hc]. exists (1 / sqrt (1 + t * t)). unfold c08_divo.
    destruct (Req_EM_T (sqrt (1 + t * t)) 0); [contradiction|]. split; [reflexivity | exact Hc]. }
  assert (forall x y, y <> 0 -> c08_divo x y = Some (x / y)) as Hdiv.
  { intros x y Hy. unfold c08_divo. destruct (Req_EM_T y 0); [contradiction | reflexivity]. }
  destruct (Rle_dec (Rabs m11) (Rabs m00)) as [L1|L1].
  - destruct (Rlt_dec 0 (Rmax (Rabs m00) (Rabs m01))) as [Lm|Lm].
    + destruct (Rle_dec (Rabs m01) (Rabs m00)) as [L2|L2].
      * assert (m00 <> 0) as Hnz by (apply rabs_pos_nz; rewrite Rmax_left in Lm by lra; exact Lm).
        rewrite (Hdiv m01 m00 Hnz). cbn [c08_obind]. destruct (Hunit (m01 / m00)) as (c & Hc1 & Hc2). rewrite Hc1. cbn [c08_obind].
        eexists. split; [reflexivity|]. destruct (coefA1 m00 m01 m11 (m01 / m00) c Hnz eq_refl HdM Hc2) as (Q1 & Q2 & Q3).
        apply Hres; assumption.
      * assert (m01 <> 0) as Hnz by (apply rabs_pos_nz; lra).
        rewrite (Hdiv m00 m01 Hnz). cbn [c08_obind]. destruct (Hunit (m00 / m01)) as (c & Hc1 & Hc2). rewrite Hc1. cbn [c08_obind].
        eexists. split; [reflexivity|]. destruct (coefA2 m00 m01 m11 (m00 / m01) c Hnz eq_refl HdM Hc2) as (Q1 & Q2 & Q3).
        apply Hres; assumption.
    + (* M = 0: any unit vector of the plane *)
      assert (Rabs m00 = 0 /\ Rabs m01 = 0) as [Z0 Z1].
      { pose proof (Rmax_l (Rabs m00) (Rabs m01)). pose proof (Rmax_r (Rabs m00) (Rabs m01)). split; lra. }
      assert (forall x, Rabs x = 0 -> x = 0) as Zr.
      { intros x E. destruct (Req_dec x 0) as [E'|E']; [exact E' | apply Rabs_no_R0 in E'; contradiction]. }
      assert (m00 = 0) by (apply Zr; exact Z0). assert (m01 = 0) by (apply Zr; exact Z1). assert (m11 = 0) by (apply Zr; lra).
      eexists. split; [reflexivity|].
      assert ((u0, u1, u2) = c08_sub3 (c08_smul3 1 (u0, u1, u2)) (c08_smul3 0 (v0, v1, v2))) as Eu by (simpl; f_equal; [f_equal|]; ring).
      rewrite Eu. apply Hres; [rewrite H, H0 | rewrite H0, H1 | ]; ring.
  - destruct (Rlt_dec 0 (Rmax (Rabs m11) (Rabs m01))) as [Lm|Lm].
    + destruct (Rle_dec (Rabs m01) (Rabs m11)) as [L2|L2].
      * assert (m11 <> 0) as Hnz by (apply rabs_pos_nz; lra).
        rewrite (Hdiv m01 m11 Hnz). cbn [c08_obind]. destruct (Hunit (m01 / m11)) as (c & Hc1 & Hc2). rewrite Hc1. cbn [c08_obind].
        eexists. split; [reflexivity|]. destruct (coefB1 m00 m01 m11 (m01 / m11) c Hnz eq_refl HdM Hc2) as (Q1 & Q2 & Q3).
        apply Hres; assumption.
      * assert (m01 <> 0) as Hnz by (apply rabs_pos_nz; lra).
        rewrite (Hdiv m11 m01 Hnz). cbn [c08_obind]. destruct (Hunit (m11 / m01)) as (c & Hc1 & Hc2). rewrite Hc1. cbn [c08_obind].
        eexists. split; [reflexivity|]. destruct (coefB2 m00 m01 m11 (m11 / m01) c Hnz eq_refl HdM Hc2) as (Q1 & Q2 & Q3).
        apply Hres; assumption.
    + exfalso. pose proof (Rmax_l (Rabs m11) (Rabs m01)). lra.
Qed.

(* ---- the third vector: cross product of two orthonormal eigenvectors ---- *)
Section Third.
Variables a00 a01 a02 a11 a12 a22 la lb : R.
Variables p0 p1 p2 q0 q1 q2 t0 t1 t2 : R.
Let A := c08_symm a00 a01 a02 a11 a12 a22.
Let p : c08_vec3 := (p0, p1, p2).
Let q : c08_vec3 := (q0, q1, q2).
Let t : c08_vec3 := (t0, t1, t2).
Hypothesis HAp : c08_mv3 A p = c08_smul3 la p.
Hypothesis HAq : c08_mv3 A q = c08_smul3 lb q.
Hypothesis Hpp : c08_dot3 p p = 1.
Hypothesis Hqq : c08_dot3 q q = 1.
Hypothesis Htt : c08_dot3 t t = 1.
Hypothesis Hpq : c08_dot3 p q = 0.
Hypothesis Hpt : c08_dot3 p t = 0.
Hypothesis Hqt : c08_dot3 q t = 0.
Hypothesis Hdet : c08_det_rows p q t = 1.

(* Q Q^T = I implies Q^T Q = I *)
Lemma gram_dual :
  p0 * p0 + q0 * q0 + t0 * t0 = 1 /\ p1 * p1 + q1 * q1 + t1 * t1 = 1 /\ p2 * p2 + q2 * q2 + t2 * t2 = 1 /\
  p0 * p1 + q0 * q1 + t0 * t1 = 0 /\ p0 * p2 + q0 * q2 + t0 * t2 = 0 /\ p1 * p2 + q1 * q2 + t1 * t2 = 0.
Proof.
  assert (forall k0 k1 k2 pk qk tk : R,
            pk = k0 * p0 + k1 * p1 + k2 * p2 -> qk = k0 * q0 + k1 * q1 + k2 * q2 -> tk = k0 * t0 + k1 * t1 + k2 * t2 ->
            (k0 - pk * p0 - qk * q0 - tk * t0, k1 - pk * p1 - qk * q1 - tk * t1, k2 - pk * p2 - qk * q2 - tk * t2) = (0, 0, 0)) as H.
  { intros k0 k1 k2 pk qk tk Ep Eq Et. apply (cramer3 p q t); [rewrite Hdet; lra | | |];
      unfold p, q, t, c08_dot3 in *.
    - replace ((k0 - pk * p0 - qk * q0 - tk * t0) * p0 + (k1 - pk * p1 - qk * q1 - tk * t1) * p1 + (k2 - pk * p2 - qk * q2 - tk * t2) * p2)
        with ((k0 * p0 + k1 * p1 + k2 * p2) - pk * (p0 * p0 + p1 * p1 + p2 * p2) - qk * (p0 * q0 + p1 * q1 + p2 * q2) - tk * (p0 * t0 + p1 * t1 + p2 * t2)) by ring.
      rewrite Hpp, Hpq, Hpt, <- Ep. ring.
    - replace ((k0 - pk * p0 - qk * q0 - tk * t0) * q0 + (k1 - pk * p1 - qk * q1 - tk * t1) * q1 + (k2 - pk * p2 - qk * q2 - tk * t2) * q2)
        with ((k0 * q0 + k1 * q1 + k2 * q2) - pk * (p0 * q0 + p1 * q1 + p2 * q2) - qk * (q0 * q0 + q1 * q1 + q2 * q2) - tk * (q0 * t0 + q1 * t1 + q2 * t2)) by ring.
      rewrite Hqq, Hpq, Hqt, <- Eq. ring.
    - replace ((k0 - pk * p0 - qk * q0 - tk * t0) * t0 + (k1 - pk * p1 - qk * q1 - tk * t1) * t1 + (k2 - pk * p2 - qk * q2 - tk * t2) * t2)
        with ((k0 * t0 + k1 * t1 + k2 * t2) - pk * (p0 * t0 + p1 * t1 + p2 * t2) - qk * (q0 * t0 + q1 * t1 + q2 * t2) - tk * (t0 * t0 + t1 * t1 + t2 * t2)) by ring.
      rewrite Htt, Hpt, Hqt, <- Et. ring. }
  pose proof (H 1 0 0 p0 q0 t0 ltac:(ring) ltac:(ring) ltac:(ring)) as K0. inversion K0 as [[X0 X1 X2]].
  pose proof (H 0 1 0 p1 q1 t1 ltac:(ring) ltac:(ring) ltac:(ring)) as K1. inversion K1 as [[Y0 Y1 Y2]].
  pose proof (H 0 0 1 p2 q2 t2 ltac:(ring) ltac:(ring) ltac:(ring)) as K2. inversion K2 as [[Z0 Z1 Z2]].
  repeat split; lra.
Qed.

Lemma third_eig : c08_mv3 (c08_shift3 A (a00 + a11 + a22 - la - lb)) t = (0, 0, 0).
Proof.
  destruct gram_dual as (G00 & G11 & G22 & G01 & G02 & G12).
  set (tau := a00 + a11 + a22 - la - lb).
  apply (cramer3 p q t); [rewrite Hdet; lra | | |];
    unfold A, c08_symm, c08_shift3, c08_mv3, c08_dot3, c08_smul3, p, q, t in *;
    inversion HAp as [[P0 P1 P2]]; inversion HAq as [[Q0 Q1 Q2]].
  - replace (((a00 - tau) * t0 + a01 * t1 + a02 * t2) * p0 + (a01 * t0 + (a11 - tau) * t1 + a12 * t2) * p1 + (a02 * t0 + a12 * t1 + (a22 - tau) * t2) * p2)
      with (t0 * (a00 * p0 + a01 * p1 + a02 * p2) + t1 * (a01 * p0 + a11 * p1 + a12 * p2) + t2 * (a02 * p0 + a12 * p1 + a22 * p2) - tau * (p0 * t0 + p1 * t1 + p2 * t2)) by ring.
    rewrite P0, P1, P2, Hpt. replace (t0 * (la * p0) + t1 * (la * p1) + t2 * (la * p2)) with (la * (p0 * t0 + p1 * t1 + p2 * t2)) by ring. rewrite Hpt. ring.
  - replace (((a00 - tau) * t0 + a01 * t1 + a02 * t2) * q0 + (a01 * t0 + (a11 - tau) * t1 + a12 * t2) * q1 + (a02 * t0 + a12 * t1 + (a22 - tau) * t2) * q2)
      with (t0 * (a00 * q0 + a01 * q1 + a02 * q2) + t1 * (a01 * q0 + a11 * q1 + a12 * q2) + t2 * (a02 * q0 + a12 * q1 + a22 * q2) - tau * (q0 * t0 + q1 * t1 + q2 * t2)) by ring.
    rewrite Q0, Q1, Q2, Hqt. replace (t0 * (lb * q0) + t1 * (lb * q1) + t2 * (lb * q2)) with (lb * (q0 * t0 + q1 * t1 + q2 * t2)) by ring. rewrite Hqt. ring.
  - (* t.At = trace - p.Ap - q.Aq by completeness *)
    assert (p0 * (a00 * p0 + a01 * p1 + a02 * p2) + p1 * (a01 * p0 + a11 * p1 + a12 * p2) + p2 * (a02 * p0 + a12 * p1 + a22 * p2) = la) as Rp.
    { rewrite P0, P1, P2. replace (p0 * (la * p0) + p1 * (la * p1) + p2 * (la * p2)) with (la * (p0 * p0 + p1 * p1 + p2 * p2)) by ring. rewrite Hpp. ring. }
    assert (q0 * (a00 * q0 + a01 * q1 + a02 * q2) + q1 * (a01 * q0 + a11 * q1 + a12 * q2) + q2 * (a02 * q0 + a12 * q1 + a22 * q2) = lb) as Rq.
    { rewrite Q0, Q1, Q2. replace (q0 * (lb * q0) + q1 * (lb * q1) + q2 * (lb * q2)) with (lb * (q0 * q0 + q1 * q1 + q2 * q2)) by ring. rewrite Hqq. ring. }
    replace (((a00 - tau) * t0 + a01 * t1 + a02 * t2) * t0 + (a01 * t0 + (a11 - tau) * t1 + a12 * t2) * t1 + (a02 * t0 + a12 * t1 + (a22 - tau) * t2) * t2)
      with (a00 * (p0 * p0 + q0 * q0 + t0 * t0) + a11 * (p1 * p1 + q1 * q1 + t1 * t1) + a22 * (p2 * p2 + q2 * q2 + t2 * t2)
            + 2 * a01 * (p0 * p1 + q0 * q1 + t0 * t1) + 2 * a02 * (p0 * p2 + q0 * q2 + t0 * t2) + 2 * a12 * (p1 * p2 + q1 * q2 + t1 * t2)
            - (p0 * (a00 * p0 + a01 * p1 + a02 * p2) + p1 * (a01 * p0 + a11 * p1 + a12 * p2) + p2 * (a02 * p0 + a12 * p1 + a22 * p2))
            - (q0 * (a00 * q0 + a01 * q1 + a02 * q2) + q1 * (a01 * q0 + a11 * q1 + a12 * q2) + q2 * (a02 * q0 + a12 * q1 + a22 * q2))
            - tau * (t0 * t0 + t1 * t1 + t2 * t2)) by ring.
    rewrite G00, G11, G22, G01, G02, G12, Htt.
    replace (p0 * (a00 * p0 + a01 * p1 + a02 * p2) + p1 * (a01 * p0 + a11 * p1 + a12 * p2) + p2 * (a02 * p0 + a12 * p1 + a22 * p2)) with la by (symmetry; exact Rp).
    replace (q0 * (a00 * q0 + a01 * q1 + a02 * q2) + q1 * (a01 * q0 + a11 * q1 + a12 * q2) + q2 * (a02 * q0 + a12 * q1 + a22 * q2)) with lb by (symmetry; exact Rq).
    unfold tau. ring.
Qed.
End Third.

(* ---- assembling eigenValuesVectorsImpl<3>'s eigenvector part ---- *)
Definition c08_rank2 (A : c08_mat3) (l : R) : Prop :=
  let '(r0, r1, r2) := c08_shift3 A l in
  ~ (is_zero3 (c08_cross r0 r1) /\ is_zero3 (c08_cross r0 r2) /\ is_zero3 (c08_cross r1 r2)).
Definition c08_eigvec_of (A : c08_mat3) (l : R) (w : c08_vec3) : Prop := c08_mv3 (c08_shift3 A l) w = (0, 0, 0).

Lemma shift_eig : forall A l w, c08_mv3 (c08_shift3 A l) w = (0, 0, 0) -> c08_mv3 A w = c08_smul3 l w.
Proof.
  intros [[[[a00 a01] a02] [[a10 a11] a12]] [[a20 a21] a22]] l [[w0 w1] w2] H.
  unfold c08_shift3, c08_mv3, c08_dot3, c08_smul3 in *. inversion H as [[H0 H1 H2]]. f_equal; [f_equal|]; lra.
Qed.
Lemma dot3_comm : forall u v, c08_dot3 u v = c08_dot3 v u.
Proof. intros [[u0 u1] u2] [[v0 v1] v2]. unfold c08_dot3. ring. Qed.

Lemma third_vector : forall a00 a01 a02 a11 a12 a22 la lb p q,
  let A := c08_symm a00 a01 a02 a11 a12 a22 in
  c08_eigvec_of A la p -> c08_eigvec_of A lb q -> c08_dot3 p p = 1 -> c08_dot3 q q = 1 -> c08_dot3 p q = 0 ->
  let t := c08_cross p q in
  c08_eigvec_of A (a00 + a11 + a22 - la - lb) t /\ c08_dot3 t t = 1 /\ c08_dot3 p t = 0 /\ c08_dot3 q t = 0.
Proof.
  intros a00 a01 a02 a11 a12 a22 la lb p q A Hp Hq Hpp Hqq Hpq t.
  pose proof (frame_facts p q Hpp Hqq Hpq) as Hf. cbv zeta in Hf. fold t in Hf. destruct Hf as (Htt & Hpt & Hqt & Hd).
  apply shift_eig in Hp. apply shift_eig in Hq.
  destruct p as [[p0 p1] p2]. destruct q as [[q0 q1] q2]. destruct t as [[t0 t1] t2].
  split; [|tauto].
  exact (third_eig a00 a01 a02 a11 a12 a22 la lb p0 p1 p2 q0 q1 q2 t0 t1 t2 Hp Hq Hpp Hqq Htt Hpq Hpt Hqt Hd).
Qed.

(* C08_3x3_eigvec: symmetric A, (l0,l1,l2) its eigenvalues (each a root, sum = trace); the extreme eigenvalue eig0 is called
   for is SIMPLE (rank(A - l I) = 2 and different from the middle one).  Then the three vectors are computed without any
   division by zero, are orthonormal, and A w_i = l_i w_i.  l1 may coincide with the other extreme (double eigenvalue). *)
Lemma P_eigvec3 : forall a00 a01 a02 a11 a12 a22 r l0 l1 l2,
  let A := c08_symm a00 a01 a02 a11 a12 a22 in
  c08_det3m (c08_shift3 A l0) = 0 -> c08_det3m (c08_shift3 A l1) = 0 -> c08_det3m (c08_shift3 A l2) = 0 ->
  l0 + l1 + l2 = a00 + a11 + a22 ->
  (0 <= r -> l1 <> l2 /\ c08_rank2 A l2) -> (r < 0 -> l1 <> l0 /\ c08_rank2 A l0) ->
  exists w0 w1 w2, c08_eigvecs3 A r (l0, l1, l2) = Some (w0, w1, w2) /\
    c08_eigvec_of A l0 w0 /\ c08_eigvec_of A l1 w1 /\ c08_eigvec_of A l2 w2 /\
    c08_dot3 w0 w0 = 1 /\ c08_dot3 w1 w1 = 1 /\ c08_dot3 w2 w2 = 1 /\
    c08_dot3 w0 w1 = 0 /\ c08_dot3 w0 w2 = 0 /\ c08_dot3 w1 w2 = 0.
Proof.
  intros a00 a01 a02 a11 a12 a22 r l0 l1 l2 A D0 D1 D2 Htr Hpos Hneg. unfold c08_eigvecs3.
  destruct (Rle_dec 0 r) as [Hr|Hr].
  - destruct (Hpos Hr) as [Hne Hrk].
    pose proof (P_eig0 A l2 D2 Hrk) as H0. destruct (c08_eig0 A l2) as [i w2]. destruct (c08_eig0_d A l2) as [[d0 d1] d2].
    destruct H0 as (E2 & U2 & _). simpl snd.
    destruct (P_eig1 a00 a01 a02 a11 a12 a22 l2 l1 w2 (shift_eig _ _ _ E2) U2 D1 Hne) as (w1 & Hrun & E1 & U1 & O21).
    fold A in Hrun. rewrite Hrun. cbn [c08_obind].
    assert (c08_dot3 w1 w2 = 0) as O12 by (rewrite dot3_comm; exact O21).
    destruct (third_vector a00 a01 a02 a11 a12 a22 l1 l2 w1 w2 E1 E2 U1 U2 O12) as (E0 & U0 & O10 & O20).
    replace (a00 + a11 + a22 - l1 - l2) with l0 in E0 by lra.
    exists (c08_cross w1 w2), w1, w2. split; [reflexivity|].
    repeat split; try assumption; rewrite dot3_comm; assumption.
  - assert (r < 0) as Hr' by lra. destruct (Hneg Hr') as [Hne Hrk].
    pose proof (P_eig0 A l0 D0 Hrk) as H0. destruct (c08_eig0 A l0) as [i w0]. destruct (c08_eig0_d A l0) as [[d0 d1] d2].
    destruct H0 as (E0 & U0 & _). simpl snd.
    destruct (P_eig1 a00 a01 a02 a11 a12 a22 l0 l1 w0 (shift_eig _ _ _ E0) U0 D1 Hne) as (w1 & Hrun & E1 & U1 & O01).
    fold A in Hrun. rewrite Hrun. cbn [c08_obind].
    destruct (third_vector a00 a01 a02 a11 a12 a22 l0 l1 w0 w1 E0 E1 U0 U1 O01) as (E2 & U2 & O02 & O12).
    replace (a00 + a11 + a22 - l0 - l1) with l2 in E2 by lra.
    exists w0, w1, (c08_cross w0 w1). split; [reflexivity|].
    repeat split; assumption.
Qed.
