(* C08 — proofs, part 2: the LAPACK hand-over (row-major array read column-major).  All sizes n. *)
From Coq Require Import Reals List ZArith Bool Lia Lra Arith.
From DuneV Require Import Params_gen C08_Model C08_Spec.
Import ListNotations.

Section Index.
Context {T : Type} (d : T).

Lemma nth_map_seq : forall (f : nat -> T) n j, (j < n)%nat -> nth j (map f (seq 0 n)) d = f j.
Proof.
  intros f n j H. rewrite nth_indep with (d' := f 0%nat) by (rewrite map_length, seq_length; exact H).
  rewrite map_nth. rewrite seq_nth by exact H. reflexivity.
Qed.

Lemma flat_nth : forall n (A : nat -> nat -> T) m s i j, (i < m)%nat -> (j < n)%nat ->
  nth (i * n + j) (flat_map (fun i => map (fun j => A i j) (seq 0 n)) (seq s m)) d = A (s + i)%nat j.
Proof.
  intros n A m. induction m as [|m IH]; intros s i j Hi Hj. lia.
  simpl seq. simpl flat_map.
  destruct i as [|i].
  - simpl. rewrite app_nth1 by (rewrite map_length, seq_length; exact Hj).
    rewrite nth_map_seq by exact Hj. f_equal. lia.
  - rewrite app_nth2 by (rewrite map_length, seq_length; simpl; lia).
    rewrite map_length, seq_length.
    replace (S i * n + j - n)%nat with (i * n + j)%nat by (simpl; lia).
    rewrite IH by lia. f_equal. lia.
Qed.

(* the array built by the copy loop holds A in row-major order ... *)
Lemma flatten_nth : forall n (A : nat -> nat -> T) i j, (i < n)%nat -> (j < n)%nat ->
  nth (i * n + j) (c08_flatten n A) d = A i j.
Proof. intros. unfold c08_flatten. rewrite flat_nth by assumption. reflexivity. Qed.

Lemma flatten_length : forall n (A : nat -> nat -> T), length (c08_flatten n A) = (n * n)%nat.
Proof.
  intros n A. unfold c08_flatten.
  assert (forall m s, length (flat_map (fun i => map (fun j => A i j) (seq 0 n)) (seq s m)) = (m * n)%nat) as H.
  { induction m; intros s; simpl. reflexivity. rewrite app_length, map_length, seq_length, IHm. reflexivity. }
  apply H.
Qed.

(* ... hence a column-major reader with lda = n sees the TRANSPOSE *)
Lemma colmajor_flatten : forall n (A : nat -> nat -> T) i j, (i < n)%nat -> (j < n)%nat ->
  c08_colmajor d n (c08_flatten n A) i j = A j i.
Proof. intros. unfold c08_colmajor. rewrite Nat.add_comm. apply flatten_nth; assumption. Qed.

(* reading the result back row by row: output row i, entry k  =  column i, row k of the column-major result *)
Lemma rows_colmajor : forall n (a : list T) i k, c08_rows d n a i k = c08_colmajor d n a k i.
Proof. intros. unfold c08_rows, c08_colmajor. f_equal. lia. Qed.

Lemma rows_list_nth : forall n (a : list T) i k, (i < n)%nat -> (k < n)%nat ->
  nth k (nth i (c08_rows_list d n a) []) d = c08_colmajor d n a k i.
Proof.
  intros n a i k Hi Hk. unfold c08_rows_list.
  rewrite (nth_indep _ [] (map (fun j => c08_rows d n a 0 j) (seq 0 n))) by (rewrite map_length, seq_length; exact Hi).
  rewrite (map_nth (fun i => map (fun j => c08_rows d n a i j) (seq 0 n)) (seq 0 n) 0%nat i).
  rewrite seq_nth by exact Hi. simpl.
  rewrite nth_indep with (d' := c08_rows d n a i 0) by (rewrite map_length, seq_length; exact Hk).
  rewrite (map_nth (fun j => c08_rows d n a i j) (seq 0 n) 0%nat k). rewrite seq_nth by exact Hk. simpl.
  apply rows_colmajor.
Qed.
End Index.

Local Open Scope R_scope.

Lemma sum_ext : forall n f g, (forall k, (k < n)%nat -> f k = g k) -> c08_sum n f = c08_sum n g.
Proof.
  induction n; intros f g H; simpl. reflexivity.
  rewrite (IHn f g) by (intros; apply H; lia). rewrite H by lia. reflexivity.
Qed.

Lemma right_eig_ext : forall n A A' l v v',
  (forall i j, (i < n)%nat -> (j < n)%nat -> A i j = A' i j) -> (forall k, (k < n)%nat -> v k = v' k) ->
  c08_right_eig n A l v -> c08_right_eig n A' l v'.
Proof.
  intros n A A' l v v' HA Hv H r Hr. rewrite <- (Hv r Hr). rewrite <- (H r Hr).
  apply sum_ext. intros k Hk. rewrite (HA r k Hr Hk), (Hv k Hk). reflexivity.
Qed.

Lemma left_eig_ext : forall n A A' l v v',
  (forall i j, (i < n)%nat -> (j < n)%nat -> A i j = A' i j) -> (forall k, (k < n)%nat -> v k = v' k) ->
  c08_left_eig n A l v -> c08_left_eig n A' l v'.
Proof.
  intros n A A' l v v' HA Hv H c Hc. rewrite <- (Hv c Hc). rewrite <- (H c Hc).
  apply sum_ext. intros k Hk. rewrite (HA k c Hk Hc), (Hv k Hk). reflexivity.
Qed.

(* right eigenvectors of the transpose are left eigenvectors, and vice versa *)
Lemma right_of_transpose_is_left : forall n A l v,
  c08_right_eig n (fun i j => A j i) l v <-> c08_left_eig n A l v.
Proof.
  intros n A l v. unfold c08_right_eig, c08_left_eig. split; intros H c Hc; rewrite <- (H c Hc);
  apply sum_ext; intros; ring.
Qed.

(* ------------------------------------------------------------------ symmetric routines *)
Definition c08_syev_args_of (tag : bool) (n : nat) (A : nat -> nat -> R) : c08_syev_args := c08_syev_call tag n A.

Lemma P_handover_sym : forall n A syev w V,
  c08_symmetric n A ->
  c08_syev_contract (c08_syev_args_of true n A) (syev (c08_syev_args_of true n A)) ->
  c08_sym_lapack 0 syev true n A = C08_LOk (w, Some V) ->
  length w = n /\ c08_ascending n w /\
  (forall i, (i < n)%nat -> c08_right_eig n A (nth i w 0) (c08_row_of V i)) /\
  c08_orthonormal n (c08_row_of V).
Proof.
  intros n A syev w V Hsym Hc. unfold c08_sym_lapack. unfold c08_syev_args_of in Hc.
  destruct (syev _) as [[w' a'] info]. unfold c08_syev_contract, c08_syev_call in Hc. simpl in Hc.
  destruct (info =? 0)%Z eqn:E; [|discriminate]. apply Z.eqb_eq in E.
  intros H. inversion H; subst w' V. clear H.
  destruct (Hc E) as (Hlen & Hasc & Hv). specialize (Hv eq_refl). destruct Hv as [Heig Horth].
  split; [exact Hlen|]. split; [exact Hasc|]. split.
  - intros i Hi. eapply right_eig_ext; [| |exact (Heig i Hi)].
    + intros r k Hr Hk. simpl. rewrite !colmajor_flatten by assumption.
      destruct (r <=? k)%nat; [apply Hsym; assumption | reflexivity].
    + intros k Hk. unfold c08_row_of. rewrite rows_list_nth by assumption. reflexivity.
  - intros i j Hi Hj. rewrite <- (Horth i j Hi Hj). unfold c08_dot. apply sum_ext. intros k Hk.
    unfold c08_row_of. rewrite !rows_list_nth by assumption. reflexivity.
Qed.

(* info <> 0 is reported, never swallowed *)
Lemma P_handover_sym_info : forall (syev : c08_syev_args -> list R * list R * Z) tag n A,
  (c08_sym_lapack 0 syev tag n A = C08_InvalidState <->
   snd (syev (c08_syev_call tag n A)) <> 0%Z).
Proof.
  intros syev tag n A. unfold c08_sym_lapack. destruct (syev _) as [[w a'] info]. simpl.
  destruct (info =? 0)%Z eqn:E.
  - apply Z.eqb_eq in E. split; [discriminate | intros H; contradiction].
  - apply Z.eqb_neq in E. split; [intros _; exact E | reflexivity].
Qed.

(* ------------------------------------------------------------------ non-symmetric routine *)
Definition c08_geev_args_cur (n : nat) (A : nat -> nat -> R) : c08_geev_args :=
  C08Geev false true n (c08_flatten n A) n n n (4 * n).
Definition c08_geev_args_fix (n : nat) (A : nat -> nat -> R) : c08_geev_args :=
  C08Geev true false n (c08_flatten n A) n n n (4 * n).

(* the code as it is: every vector returned for a real eigenvalue is a non-zero LEFT eigenvector of A *)
Lemma P_handover_nonsym_left : forall n A geev evs V,
  c08_geev_contract (c08_geev_args_cur n A) (geev (c08_geev_args_cur n A)) ->
  c08_nonsym_dyn 0 geev true n A = C08_LOk (evs, Some V) ->
  length evs = n /\
  forall i, (i < n)%nat -> snd (nth i evs (0, 0)) = 0 ->
    c08_left_eig n A (fst (nth i evs (0, 0))) (c08_row_of V i) /\ c08_nonzero n (c08_row_of V i).
Proof.
  intros n A geev evs V Hc. unfold c08_nonsym_dyn. fold (c08_geev_args_cur n A).
  destruct (geev _) as [[[[wr wi] vl] vr] info]. unfold c08_geev_contract, c08_geev_args_cur in Hc. simpl in Hc.
  destruct (info =? 0)%Z eqn:E; [|discriminate]. apply Z.eqb_eq in E.
  intros H. inversion H; subst evs V. clear H.
  destruct (Hc E) as (Hl1 & Hl2 & Hr & _). specialize (Hr eq_refl).
  split. { rewrite combine_length, Hl1, Hl2. apply Nat.min_id. }
  intros i Hi Him. rewrite combine_nth in * by congruence. simpl in *.
  destruct (Hr i Hi Him) as [He Hnz]. split.
  - apply right_of_transpose_is_left. eapply right_eig_ext; [| |exact He].
    + intros r k Hr' Hk. simpl. apply colmajor_flatten; assumption.
    + intros k Hk. unfold c08_row_of. rewrite rows_list_nth by assumption. reflexivity.
  - destruct Hnz as (k & Hk & Hne). exists k. split; [exact Hk|].
    unfold c08_row_of. rewrite rows_list_nth by assumption. exact Hne.
Qed.

(* the repaired call: non-zero RIGHT eigenvectors of A *)
Lemma P_handover_nonsym_fixed : forall n A geev evs V,
  c08_geev_contract (c08_geev_args_fix n A) (geev (c08_geev_args_fix n A)) ->
  c08_nonsym_dyn_fixed 0 geev true n A = C08_LOk (evs, Some V) ->
  length evs = n /\
  forall i, (i < n)%nat -> snd (nth i evs (0, 0)) = 0 ->
    c08_right_eig n A (fst (nth i evs (0, 0))) (c08_row_of V i) /\ c08_nonzero n (c08_row_of V i).
Proof.
  intros n A geev evs V Hc. unfold c08_nonsym_dyn_fixed. fold (c08_geev_args_fix n A).
  destruct (geev _) as [[[[wr wi] vl] vr] info]. unfold c08_geev_contract, c08_geev_args_fix in Hc. simpl in Hc.
  destruct (info =? 0)%Z eqn:E; [|discriminate]. apply Z.eqb_eq in E.
  intros H. inversion H; subst evs V. clear H.
  destruct (Hc E) as (Hl1 & Hl2 & _ & Hl). specialize (Hl eq_refl).
  split. { rewrite combine_length, Hl1, Hl2. apply Nat.min_id. }
  intros i Hi Him. rewrite combine_nth in * by congruence. simpl in *.
  destruct (Hl i Hi Him) as [He Hnz]. split.
  - apply right_of_transpose_is_left in He.
    eapply right_eig_ext; [| |exact He].
    + intros r k Hr' Hk. simpl. apply colmajor_flatten; assumption.
    + intros k Hk. unfold c08_row_of. rewrite rows_list_nth by assumption. reflexivity.
  - destruct Hnz as (k & Hk & Hne). exists k. split; [exact Hk|].
    unfold c08_row_of. rewrite rows_list_nth by assumption. exact Hne.
Qed.

(* the refutation: for A = [[1,2],[0,3]], WHATEVER a contract-abiding geev returns, the vector delivered for the
   eigenvalue 3 is not a right eigenvector of A. *)
Definition c08_witness_A (i j : nat) : R :=
  match i, j with 0%nat, 0%nat => 1 | 0%nat, 1%nat => 2 | 1%nat, 0%nat => 0 | 1%nat, 1%nat => 3 | _, _ => 0 end.

Lemma P_handover_nonsym_refuted : forall geev evs V,
  c08_geev_contract (c08_geev_args_cur 2 c08_witness_A) (geev (c08_geev_args_cur 2 c08_witness_A)) ->
  c08_nonsym_dyn 0 geev true 2 c08_witness_A = C08_LOk (evs, Some V) ->
  forall i, (i < 2)%nat -> nth i evs (0, 0) = (3, 0) ->
    ~ c08_right_eig 2 c08_witness_A 3 (c08_row_of V i).
Proof.
  intros geev evs V Hc Hres i Hi Hev Hright.
  destruct (P_handover_nonsym_left 2 c08_witness_A geev evs V Hc Hres) as [_ H].
  specialize (H i Hi). rewrite Hev in H. simpl in H. destruct (H eq_refl) as [Hleft Hnz].
  set (v := c08_row_of V i) in *.
  pose proof (Hleft 0%nat ltac:(lia)) as L0. pose proof (Hleft 1%nat ltac:(lia)) as L1.
  pose proof (Hright 0%nat ltac:(lia)) as R0. pose proof (Hright 1%nat ltac:(lia)) as R1.
  unfold c08_sum, c08_witness_A in *. simpl in *.
  destruct Hnz as (k & Hk & Hne).
  assert (v 0%nat = 0) by lra. assert (v 1%nat = 0) by lra.
  destruct k as [|[|k]]; [contradiction | contradiction | lia].
Qed.

(* ------------------------------------------------------------------ the hypotheses are satisfiable *)
Definition c08_ex_A (i j : nat) : R :=
  match i, j with 0%nat, 0%nat => 2 | 1%nat, 1%nat => 1 | _, _ => 0 end.
Definition c08_ex_syev (_ : c08_syev_args (T:=R)) : list R * list R * Z := ([1; 2], [0; 1; 1; 0], 0%Z).

Lemma P_ex_sym : c08_symmetric 2 c08_ex_A /\
  c08_syev_contract (c08_syev_args_of true 2 c08_ex_A) (c08_ex_syev (c08_syev_args_of true 2 c08_ex_A)) /\
  c08_sym_lapack 0 c08_ex_syev true 2 c08_ex_A = C08_LOk ([1; 2], Some [[0; 1]; [1; 0]]).
Proof.
  split; [|split].
  - intros i j Hi Hj. destruct i as [|[|i]], j as [|[|j]]; try lia; reflexivity.
  - unfold c08_syev_contract, c08_ex_syev, c08_syev_args_of, c08_syev_call. simpl. intros _.
    split; [reflexivity|]. split.
    + intros i Hi. assert (i = 0%nat) by lia. subst i. simpl. lra.
    + intros _. split.
      * intros j Hj r Hr. destruct j as [|[|j]], r as [|[|r]]; try lia;
          unfold c08_sum, c08_colmajor, c08_flatten, c08_ex_A; simpl; lra.
      * intros i j Hi Hj. destruct i as [|[|i]], j as [|[|j]]; try lia;
          unfold c08_dot, c08_sum, c08_colmajor; simpl; lra.
  - reflexivity.
Qed.

Definition c08_ex_geev (_ : c08_geev_args (T:=R)) : c08_geev_out (T:=R) := ([1; 3], [0; 0], [], [1; -1; 0; 1], 0%Z).
Lemma P_ex_nonsym :
  c08_geev_contract (c08_geev_args_cur 2 c08_witness_A) (c08_ex_geev (c08_geev_args_cur 2 c08_witness_A)) /\
  c08_nonsym_dyn 0 c08_ex_geev true 2 c08_witness_A = C08_LOk ([(1, 0); (3, 0)], Some [[1; -1]; [0; 1]]).
Proof.
  split.
  - unfold c08_geev_contract, c08_ex_geev, c08_geev_args_cur. simpl. intros _.
    split; [reflexivity|]. split; [reflexivity|]. split; [|discriminate].
    intros _ j Hj _. split.
    + intros r Hr. destruct j as [|[|j]], r as [|[|r]]; try lia;
        unfold c08_sum, c08_colmajor, c08_flatten, c08_witness_A; simpl; lra.
    + destruct j as [|[|j]]; try lia.
      * exists 0%nat. split; [lia|]. unfold c08_colmajor; simpl; lra.
      * exists 1%nat. split; [lia|]. unfold c08_colmajor; simpl; lra.
  - reflexivity.
Qed.

(* the repaired call on the same matrix: a geev returning the left eigenvectors of what it is given *)
Definition c08_ex_geev_fix (_ : c08_geev_args (T:=R)) : c08_geev_out (T:=R) := ([1; 3], [0; 0], [1; 0; 1; 1], [], 0%Z).
Lemma P_ex_nonsym_fixed :
  c08_geev_contract (c08_geev_args_fix 2 c08_witness_A) (c08_ex_geev_fix (c08_geev_args_fix 2 c08_witness_A)) /\
  c08_nonsym_dyn_fixed 0 c08_ex_geev_fix true 2 c08_witness_A = C08_LOk ([(1, 0); (3, 0)], Some [[1; 0]; [1; 1]]).
Proof.
  split.
  - unfold c08_geev_contract, c08_ex_geev_fix, c08_geev_args_fix. simpl. intros _.
    split; [reflexivity|]. split; [reflexivity|]. split; [discriminate|].
    intros _ j Hj _. split.
    + intros r Hr. destruct j as [|[|j]], r as [|[|r]]; try lia;
        unfold c08_sum, c08_colmajor, c08_flatten, c08_witness_A; simpl; lra.
    + destruct j as [|[|j]]; try lia.
      * exists 0%nat. split; [lia|]. unfold c08_colmajor; simpl; lra.
      * exists 0%nat. split; [lia|]. unfold c08_colmajor; simpl; lra.
  - reflexivity.
Qed.

(* ------------------------------------------------------------------ the calls as the source writes them (constants re-read) *)
(* ?syev: jobz = 'v' exactly when eigenvectors are requested, upper triangle, lda = n, lwork = 3n - 1 *)
Lemma P_syev_call_literal : forall (T : Type) tag n (A : nat -> nat -> T),
  c08_syev_call tag n A = C08Syev tag true n (c08_flatten n A) n (3 * n - 1).
Proof. intros T tag n A. unfold c08_syev_call, c08_lwork_sym. destruct tag; reflexivity. Qed.

(* LAPACK's documented minimum workspaces: ?syev lwork >= max(1, 3n-1); ?geev lwork >= max(1, 3n), and >= 4n with vectors *)
Lemma P_workspace : forall (T : Type) tag want n (A : nat -> nat -> T), (1 <= n)%nat ->
  (Nat.max 1 (3 * n - 1) <= c08_sy_lwork (c08_syev_call tag n A))%nat /\
  (Nat.max 1 (3 * n) <= c08_ge_lwork (c08_dyn_call want n A))%nat /\
  (want = true -> (4 * n <= c08_ge_lwork (c08_dyn_call want n A))%nat) /\
  c08_sy_lda (c08_syev_call tag n A) = n /\ c08_ge_lda (c08_dyn_call want n A) = n /\
  c08_ge_ldvl (c08_dyn_call want n A) = n /\ c08_ge_ldvr (c08_dyn_call want n A) = n /\
  length (c08_sy_a (c08_syev_call tag n A)) = (n * n)%nat /\ length (c08_ge_a (c08_dyn_call want n A)) = (n * n)%nat.
Proof.
  intros T tag want n A Hn.
  unfold c08_syev_call, c08_dyn_call, c08_lwork_sym, c08_param_lwork_sym_mul, c08_param_lwork_sym_sub,
    c08_param_dyn_lwork_want_mul, c08_param_dyn_lwork_nowant_mul.
  cbn [c08_sy_lwork c08_ge_lwork c08_sy_lda c08_ge_lda c08_ge_ldvl c08_ge_ldvr c08_sy_a c08_ge_a].
  rewrite !flatten_length. destruct want; repeat split; try lia; intros; try discriminate; lia.
Qed.

(* DynamicMatrixHelp::eigenValuesNonSym as the source now writes it IS the repaired call: left vectors of the transposed data
   are requested exactly when eigenvectors are wanted, and vl is read *)
Lemma P_nonsym_src_is_fixed : forall (T : Type) (d : T) geev want n A,
  c08_nonsym_dyn_src d geev want n A = c08_nonsym_dyn_fixed d geev want n A.
Proof. intros T d geev want n A. unfold c08_nonsym_dyn_src, c08_nonsym_dyn_fixed, c08_dyn_call. destruct want; reflexivity. Qed.

Lemma P_handover_nonsym_src : forall n A geev evs V,
  c08_geev_contract (c08_geev_args_fix n A) (geev (c08_geev_args_fix n A)) ->
  c08_nonsym_dyn_src 0 geev true n A = C08_LOk (evs, Some V) ->
  length evs = n /\
  forall i, (i < n)%nat -> snd (nth i evs (0, 0)) = 0 ->
    c08_right_eig n A (fst (nth i evs (0, 0))) (c08_row_of V i) /\ c08_nonzero n (c08_row_of V i).
Proof. intros n A geev evs V Hc. rewrite P_nonsym_src_is_fixed. apply P_handover_nonsym_fixed. exact Hc. Qed.

(* info <> 0 is reported by the non-symmetric routines too, never swallowed *)
Lemma P_handover_nonsym_info : forall (geev : c08_geev_args -> c08_geev_out (T:=R)) want n A,
  (c08_nonsym_dyn_src 0 geev want n A = C08_InvalidState <-> snd (geev (c08_dyn_call want n A)) <> 0%Z) /\
  (c08_nonsym_fm geev n A = C08_InvalidState <->
   snd (geev (C08Geev c08_param_fm_jobvl_v c08_param_fm_jobvr_v n (c08_flatten n A) n n n (c08_param_fm_lwork_mul * n))) <> 0%Z).
Proof.
  intros geev want n A. unfold c08_nonsym_dyn_src, c08_nonsym_fm. split.
  - destruct (geev _) as [[[[wr wi] vl] vr] info]. simpl. destruct (info =? 0)%Z eqn:E.
    + apply Z.eqb_eq in E. split; [discriminate | intros H; contradiction].
    + apply Z.eqb_neq in E. split; [intros _; exact E | reflexivity].
  - destruct (geev _) as [[[[wr wi] vl] vr] info]. simpl. destruct (info =? 0)%Z eqn:E.
    + apply Z.eqb_eq in E. split; [discriminate | intros H; contradiction].
    + apply Z.eqb_neq in E. split; [intros _; exact E | reflexivity].
Qed.
