(* C08 — proofs, part 10: the executable operation-record kernels of C08_Model.v (Part 1b), instantiated at the reals, ARE the
   exact-real functions of C08_Spec.v that the C08_3x3_* theorems are about.  So the Gallina text that is run at binary64 and
   diffed bit for bit against Impl::eig0 / orthoComp / eig1 is the text the theorems speak of. *)
From Coq Require Import Reals Lra Lia.
From DuneV Require Import C08_Model C08_Spec C08_Proofs_2x2.
Local Open Scope R_scope.

Definition c08_res_of_option {A : Type} (x : option A) : c08_res A := match x with Some a => C08_Ok a | None => C08_DivByZero end.

Lemma K_cross : forall u v, c08g_cross c08_R_ops u v = c08_cross u v.
Proof. intros [[u0 u1] u2] [[v0 v1] v2]. reflexivity. Qed.
Lemma K_norm3 : forall v, c08g_norm3 c08_R_ops v = c08_norm3 v.
Proof. intros [[v0 v1] v2]. reflexivity. Qed.
Lemma K_dot3 : forall u v, c08g_dot3 c08_R_ops u v = c08_dot3 u v.
Proof. intros [[u0 u1] u2] [[v0 v1] v2]. unfold c08g_dot3, c08_dot3. simpl. ring. Qed.
Lemma K_mv3 : forall A x, c08g_mv3 c08_R_ops A x = c08_mv3 A x.
Proof. intros [[r0 r1] r2] x. unfold c08g_mv3, c08_mv3. rewrite !K_dot3. reflexivity. Qed.
Lemma K_smul3 : forall k v, c08g_smul3 c08_R_ops k v = c08_smul3 k v.
Proof. intros k [[v0 v1] v2]. reflexivity. Qed.
Lemma K_sub3 : forall u v, c08g_sub3 c08_R_ops u v = c08_sub3 u v.
Proof. intros [[u0 u1] u2] [[v0 v1] v2]. reflexivity. Qed.
Lemma K_divc : forall x y, c08_divc c08_R_ops x y = c08_res_of_option (c08_divo x y).
Proof. intros x y. unfold c08_divc, c08_divo. simpl. unfold c08_Rzerob. destruct (Req_EM_T y 0); reflexivity. Qed.

Lemma K_orthocomp : forall e, c08g_orthocomp c08_R_ops e = c08_res_of_option (c08_orthocomp e).
Proof.
  intros [[e0 e1] e2]. unfold c08g_orthocomp, c08_orthocomp. rewrite !K_divc.
  change (c08_ltb c08_R_ops) with c08_Rltb. change (c08_abs c08_R_ops) with Rabs. unfold c08_Rltb.
  destruct (Rlt_dec (Rabs e1) (Rabs e0)); simpl; unfold c08_divo; destruct (Req_EM_T _ 0); reflexivity.
Qed.

Lemma K_eig1 : forall A e l1, c08g_eig1 c08_R_ops A e l1 = c08_res_of_option (c08_eig1v A e l1).
Proof.
  intros A e l1. unfold c08g_eig1, c08_eig1v. rewrite K_orthocomp.
  destruct (c08_orthocomp e) as [[u v]|]; [|reflexivity]. cbn [c08_res_of_option c08_bind c08_obind].
  rewrite !K_mv3, !K_dot3, !max_is_Rmax, !K_divc.
  change (c08_sub c08_R_ops) with Rminus. change (c08_abs c08_R_ops) with Rabs. change (c08_leb c08_R_ops) with c08_Rleb.
  change (c08_ltb c08_R_ops) with c08_Rltb. change (c08_zero c08_R_ops) with 0. unfold c08_Rleb, c08_Rltb.
  set (m00 := c08_dot3 u (c08_mv3 A u) - l1). set (m01 := c08_dot3 u (c08_mv3 A v)). set (m11 := c08_dot3 v (c08_mv3 A v) - l1).
  assert (forall t, c08_divc c08_R_ops (c08_one c08_R_ops) (c08_sqrt c08_R_ops (c08_add c08_R_ops (c08_one c08_R_ops) (c08_mul c08_R_ops t t)))
                    = c08_res_of_option (c08_divo 1 (sqrt (1 + t * t)))) as Hu by (intros t; rewrite K_divc; reflexivity).
  destruct (Rle_dec (Rabs m11) (Rabs m00)); destruct (Rlt_dec 0 _); try reflexivity; destruct (Rle_dec (Rabs m01) _);
    (destruct (c08_divo _ _) as [t|]; [|reflexivity]); cbn [c08_res_of_option c08_bind c08_obind]; rewrite Hu;
    (destruct (c08_divo 1 _) as [c|]; [|reflexivity]); cbn [c08_res_of_option c08_bind c08_obind];
    rewrite K_sub3, !K_smul3; reflexivity.
Qed.

Lemma K_eig0 : forall A l, let '(d0, d1, d2) := c08_eig0_d A l in 0 < Rmax d0 (Rmax d1 d2) ->
  c08g_eig0 c08_R_ops A l = C08_Ok (c08_eig0 A l).
Proof.
  intros [[[[a00 a01] a02] [[a10 a11] a12]] [[a20 a21] a22]] l. unfold c08_eig0_d, c08g_eig0, c08_eig0, c08_shift3.
  change (c08_sub c08_R_ops) with Rminus. change (c08g_cross c08_R_ops) with c08_cross. change (c08g_norm3 c08_R_ops) with c08_norm3.
  set (x := c08_cross (a00 - l, a01, a02) (a10, a11 - l, a12)). set (y := c08_cross (a00 - l, a01, a02) (a20, a21, a22 - l)).
  set (z := c08_cross (a10, a11 - l, a12) (a20, a21, a22 - l)).
  set (d0 := c08_norm3 x). set (d1 := c08_norm3 y). set (d2 := c08_norm3 z). intros Hpos.
  change (c08_ltb c08_R_ops) with c08_Rltb. unfold c08_Rltb.
  assert (forall v d, d <> 0 -> c08g_div3 c08_R_ops v d = C08_Ok (c08_div3 v d)) as Hdiv.
  { intros [[v0 v1] v2] d Hd. unfold c08g_div3, c08_div3, c08_divc. simpl. unfold c08_Rzerob. destruct (Req_EM_T d 0); [contradiction | reflexivity]. }
  destruct (Rlt_dec d0 d1) as [L|L]; [destruct (Rlt_dec d1 d2) as [L2|L2] | destruct (Rlt_dec d0 d2) as [L2|L2]].
  - rewrite Hdiv; [reflexivity|]. rewrite (Rmax_right d1 d2), (Rmax_right d0 d2) in Hpos by lra. lra.
  - rewrite Hdiv; [reflexivity|]. rewrite (Rmax_left d1 d2), (Rmax_right d0 d1) in Hpos by lra. lra.
  - rewrite Hdiv; [reflexivity|]. rewrite (Rmax_right d1 d2), (Rmax_right d0 d2) in Hpos by lra. lra.
  - rewrite Hdiv; [reflexivity|]. rewrite (Rmax_left d0 (Rmax d1 d2)) in Hpos by (apply Rmax_lub; lra). lra.
Qed.
