(* C08 — the abstract statement: "the routine returns an eigen-decomposition of the matrix it was given",
   over the real numbers (exact arithmetic).  Floating-point accuracy, LAPACK and libm are NOT covered by any
   theorem (DESIGN section 4, C08: partial by design); they are tested with stated tolerances by checks/C08.py.

   (1) the instance of the generic closed-form model at R and the 2x2 statement;
   (2) the contracts of ?syev / ?geev as documented in fmatrixev.cc (on the column-major matrix they are GIVEN)
       and the statement for the hand-over;
   (3) Smith's 3x3 eigenvalue formula over R and its statement. *)
From Coq Require Import Reals List ZArith Bool Lra.
From DuneV Require Import C08_Model.
Import ListNotations.
Local Open Scope R_scope.

(* ------------------------------------------------------------------------------------------- (1) 2x2 *)
Definition c08_Rltb (a b : R) : bool := if Rlt_dec a b then true else false.
Definition c08_Rleb (a b : R) : bool := if Rle_dec a b then true else false.
Definition c08_Rzerob (a : R) : bool := if Req_EM_T a 0 then true else false.
Definition c08_R_ops : c08_ops R := {|
  c08_zero := 0; c08_one := 1; c08_half := / 2;
  c08_add := Rplus; c08_sub := Rminus; c08_mul := Rmult; c08_div := Rdiv;
  c08_neg := Ropp; c08_sqrt := sqrt; c08_abs := Rabs;
  c08_ltb := c08_Rltb; c08_leb := c08_Rleb; c08_baddiv := c08_Rzerob |}.

Definition c08_sym2 (m : c08_mat2 R) : Prop := let '(a, b, c, d) := m in b = c.
Definition c08_trace2 (m : c08_mat2 R) : R := let '(a, b, c, d) := m in a + d.
Definition c08_charpoly2 (m : c08_mat2 R) (l : R) : R := let '(a, b, c, d) := m in l * l - (a + d) * l + (a * d - b * c).
Definition c08_mv2 (m : c08_mat2 R) (v : c08_vec2 R) : c08_vec2 R :=
  let '(a, b, c, d) := m in (a * fst v + b * snd v, c * fst v + d * snd v).
Definition c08_eigpair2 (m : c08_mat2 R) (l : R) (v : c08_vec2 R) : Prop := c08_mv2 m v = (l * fst v, l * snd v).
Definition c08_unit2 (v : c08_vec2 R) : Prop := fst v * fst v + snd v * snd v = 1.
Definition c08_orth2 (u v : c08_vec2 R) : Prop := fst u * fst v + snd u * snd v = 0.
Definition c08_scale2 (s : R) (m : c08_mat2 R) : c08_mat2 R := let '(a, b, c, d) := m in (s * a, s * b, s * c, s * d).

(* the eigenvalue part of the property *)
Definition c08_evals2_ok (m : c08_mat2 R) (ev : R * R) : Prop :=
  fst ev <= snd ev /\ fst ev + snd ev = c08_trace2 m /\ c08_charpoly2 m (fst ev) = 0 /\ c08_charpoly2 m (snd ev) = 0.
(* the eigenvector part *)
Definition c08_evecs2_ok (m : c08_mat2 R) (ev : R * R) (vs : c08_vec2 R * c08_vec2 R) : Prop :=
  c08_eigpair2 m (fst ev) (fst vs) /\ c08_eigpair2 m (snd ev) (snd vs) /\
  c08_unit2 (fst vs) /\ c08_unit2 (snd vs) /\ c08_orth2 (fst vs) (snd vs).
Definition c08_decomp2 (m : c08_mat2 R) (r : (R * R) * (c08_vec2 R * c08_vec2 R)) : Prop :=
  c08_evals2_ok m (fst r) /\ c08_evecs2_ok m (fst r) (snd r).
(* infinity norm of A - l I: the quantity the code compares with its absolute threshold *)
Definition c08_dev2 (m : c08_mat2 R) (l : R) : R :=
  let '(a, b, c, d) := m in Rmax (Rabs c + Rabs (d - l)) (Rmax (Rabs (a - l) + Rabs b) 0).

(* ------------------------------------------------------------------------------------------- (2) hand-over *)
Fixpoint c08_sum (n : nat) (f : nat -> R) : R := match n with O => 0 | S k => c08_sum k f + f k end.
(* A v = l v  and  v^T A = l v^T  on indices below n *)
Definition c08_right_eig (n : nat) (A : nat -> nat -> R) (l : R) (v : nat -> R) : Prop :=
  forall r, (r < n)%nat -> c08_sum n (fun k => A r k * v k) = l * v r.
Definition c08_left_eig (n : nat) (A : nat -> nat -> R) (l : R) (v : nat -> R) : Prop :=
  forall c, (c < n)%nat -> c08_sum n (fun k => v k * A k c) = l * v c.
Definition c08_dot (n : nat) (u v : nat -> R) : R := c08_sum n (fun k => u k * v k).
Definition c08_nonzero (n : nat) (v : nat -> R) : Prop := exists k, (k < n)%nat /\ v k <> 0.
Definition c08_symmetric (n : nat) (A : nat -> nat -> R) : Prop := forall i j, (i < n)%nat -> (j < n)%nat -> A i j = A j i.
Definition c08_ascending (n : nat) (w : list R) : Prop := forall i, (S i < n)%nat -> nth i w 0 <= nth (S i) w 0.
Definition c08_orthonormal (n : nat) (V : nat -> nat -> R) : Prop :=     (* V i = i-th vector *)
  forall i j, (i < n)%nat -> (j < n)%nat -> c08_dot n (V i) (V j) = if Nat.eqb i j then 1 else 0.

(* ?syev as documented: "computes all eigenvalues and, optionally, eigenvectors of a symmetric matrix a; if uplo = 'u'
   the upper triangular part of a is used; on exit, if jobz = 'v' and info = 0, a contains the orthonormal eigenvectors
   (columns); w: the eigenvalues in ascending order".  Everything is about the COLUMN-MAJOR reading of the array. *)
Definition c08_syev_contract (args : c08_syev_args (T:=R)) (out : list R * list R * Z) : Prop :=
  let n := c08_sy_n args in
  let B := c08_colmajor 0 (c08_sy_lda args) (c08_sy_a args) in
  let S i j := if c08_uplo_upper args then (if (i <=? j)%nat then B i j else B j i)
               else (if (j <=? i)%nat then B i j else B j i) in
  let '(w, a', info) := out in
  info = 0%Z ->
    length w = n /\ c08_ascending n w /\
    (c08_jobz args = true ->
       let Zc j i := c08_colmajor 0 (c08_sy_lda args) a' i j in          (* Zc j = j-th column *)
       (forall j, (j < n)%nat -> c08_right_eig n S (nth j w 0) (Zc j)) /\ c08_orthonormal n Zc).

(* ?geev as documented, restricted to real eigenvalues (wi(j) = 0): "the right eigenvector v(j) of A satisfies
   A v(j) = lambda(j) v(j), the left eigenvector u(j) satisfies u(j)^T A = lambda(j) u(j)^T; stored one after
   another in the columns of vr / vl"; eigenvectors are non-zero (normalised to Euclidean norm 1). *)
Definition c08_geev_contract (args : c08_geev_args (T:=R)) (out : c08_geev_out (T:=R)) : Prop :=
  let n := c08_ge_n args in
  let B := c08_colmajor 0 (c08_ge_lda args) (c08_ge_a args) in
  let '(wr, wi, vl, vr, info) := out in
  info = 0%Z ->
    length wr = n /\ length wi = n /\
    (c08_jobvr args = true -> forall j, (j < n)%nat -> nth j wi 0 = 0 ->
       let v i := c08_colmajor 0 (c08_ge_ldvr args) vr i j in c08_right_eig n B (nth j wr 0) v /\ c08_nonzero n v) /\
    (c08_jobvl args = true -> forall j, (j < n)%nat -> nth j wi 0 = 0 ->
       let u i := c08_colmajor 0 (c08_ge_ldvl args) vl i j in c08_left_eig n B (nth j wr 0) u /\ c08_nonzero n u).

(* reading the routine's outputs *)
Definition c08_row_of (V : list (list R)) (i : nat) (k : nat) : R := nth k (nth i V []) 0.

(* ------------------------------------------------------------------------------------------- (3) 3x3 eigenvalues *)
(* eigenValues3dImpl (Smith 1961) over R, non-diagonal branch, on the matrix it is given
   (a00 a01 a02 / a01 a11 a12 / a02 a12 a22): returns (eig0, eig1, eig2). *)
Definition c08_det3 (b00 b01 b02 b10 b11 b12 b20 b21 b22 : R) : R :=
  b00 * (b11 * b22 - b12 * b21) - b01 * (b10 * b22 - b12 * b20) + b02 * (b10 * b21 - b11 * b20).
Definition c08_clamp (r lo hi : R) : R := if Rlt_dec r lo then lo else if Rlt_dec hi r then hi else r.
Definition c08_smith3 (a00 a01 a02 a11 a12 a22 : R) : R * R * R :=
  let p1 := a01 * a01 + a02 * a02 + a12 * a12 in
  let q := a00 / 3 + a11 / 3 + a22 / 3 in
  let p2 := (a00 - q) * (a00 - q) + (a11 - q) * (a11 - q) + (a22 - q) * (a22 - q) + 2 * p1 in
  let p := sqrt (p2 / 6) in
  let B i j := (1 / p) * (i - q * j) in
  let r := c08_det3 (B a00 1) (B a01 0) (B a02 0) (B a01 0) (B a11 1) (B a12 0) (B a02 0) (B a12 0) (B a22 1) / 2 in
  let r := c08_clamp r (-1) 1 in
  let phi := acos r / 3 in
  let e2 := q + 2 * p * cos phi in
  let e0 := q + 2 * p * cos (phi + 2 * PI / 3) in
  let e1 := 3 * q - e0 - e2 in
  (e0, e1, e2).
(* characteristic polynomial of the symmetric 3x3 matrix: det(l I - A) *)
Definition c08_charpoly3 (a00 a01 a02 a11 a12 a22 l : R) : R :=
  c08_det3 (l - a00) (- a01) (- a02) (- a01) (l - a11) (- a12) (- a02) (- a12) (l - a22).

(* ------------------------------------------------------------------------------------------- (4) 3x3 eigenvector, eig0
   Impl::eig0 over R: rows of A - l I, the three row cross products, the pair with the LARGEST cross product
   (running maximum dmax/imax exactly as in the code), normalised.  Result: (imax, evec0). *)
Definition c08_vec3 := (R * R * R)%type.
Definition c08_cross (u v : c08_vec3) : c08_vec3 :=
  let '(u0, u1, u2) := u in let '(v0, v1, v2) := v in (u1 * v2 - u2 * v1, u2 * v0 - u0 * v2, u0 * v1 - u1 * v0).
Definition c08_dot3 (u v : c08_vec3) : R :=
  let '(u0, u1, u2) := u in let '(v0, v1, v2) := v in u0 * v0 + u1 * v1 + u2 * v2.
Definition c08_norm3 (v : c08_vec3) : R := let '(v0, v1, v2) := v in sqrt (0 + v0 * v0 + v1 * v1 + v2 * v2).
Definition c08_div3 (v : c08_vec3) (d : R) : c08_vec3 := let '(v0, v1, v2) := v in (v0 / d, v1 / d, v2 / d).
Definition c08_mat3 := (c08_vec3 * c08_vec3 * c08_vec3)%type.          (* rows *)
Definition c08_shift3 (A : c08_mat3) (l : R) : c08_mat3 :=
  let '((a00, a01, a02), (a10, a11, a12), (a20, a21, a22)) := A in
  ((a00 - l, a01, a02), (a10, a11 - l, a12), (a20, a21, a22 - l)).
Definition c08_mv3 (A : c08_mat3) (v : c08_vec3) : c08_vec3 :=
  let '(r0, r1, r2) := A in (c08_dot3 r0 v, c08_dot3 r1 v, c08_dot3 r2 v).
Definition c08_det3m (A : c08_mat3) : R :=
  let '((a00, a01, a02), (a10, a11, a12), (a20, a21, a22)) := A in c08_det3 a00 a01 a02 a10 a11 a12 a20 a21 a22.
Definition c08_eig0 (A : c08_mat3) (l : R) : nat * c08_vec3 :=
  let '(row0, row1, row2) := c08_shift3 A l in
  let r0xr1 := c08_cross row0 row1 in let r0xr2 := c08_cross row0 row2 in let r1xr2 := c08_cross row1 row2 in
  let d0 := c08_norm3 r0xr1 in let d1 := c08_norm3 r0xr2 in let d2 := c08_norm3 r1xr2 in
  let '(dmax, imax) := if Rlt_dec d0 d1 then (d1, 1%nat) else (d0, 0%nat) in       (* if (d1 > dmax) { dmax = d1; imax = 1; } *)
  let imax := if Rlt_dec dmax d2 then 2%nat else imax in                            (* if (d2 > dmax) imax = 2; *)
  match imax with
  | 0%nat => (0%nat, c08_div3 r0xr1 d0)
  | 1%nat => (1%nat, c08_div3 r0xr2 d1)
  | _ => (2%nat, c08_div3 r1xr2 d2)
  end.
(* the three cross-product lengths eig0 compares *)
Definition c08_eig0_d (A : c08_mat3) (l : R) : R * R * R :=
  let '(row0, row1, row2) := c08_shift3 A l in
  (c08_norm3 (c08_cross row0 row1), c08_norm3 (c08_cross row0 row2), c08_norm3 (c08_cross row1 row2)).

(* ------------------------------------------------------------------------------------------- (5) 3x3 pre-scaling
   The 3d specialisation of eigenValuesVectorsImpl over R: maxAbsElement = isnormal(||A||_inf) ? ||A||_inf : 1 (over R:
   "normal" = non-zero), scaledMatrix = A / maxAbsElement, the whole computation [core] (eigenvalues, and eigenvectors if
   requested) on the scaled matrix, eigenValues *= maxAbsElement.  Symmetric matrix as its 6 entries. *)
Definition c08_infnorm3 (a00 a01 a02 a11 a12 a22 : R) : R :=
  Rmax (Rabs a02 + Rabs a12 + Rabs a22) (Rmax (Rabs a01 + Rabs a11 + Rabs a12) (Rmax (Rabs a00 + Rabs a01 + Rabs a02) 0)).
Definition c08_prescaled {X : Type} (core : R -> R -> R -> R -> R -> R -> (R * R * R) * X)
  (a00 a01 a02 a11 a12 a22 : R) : (R * R * R) * X :=
  let n := c08_infnorm3 a00 a01 a02 a11 a12 a22 in
  let m := if Req_EM_T n 0 then 1 else n in
  let '((e0, e1, e2), x) := core (a00 / m) (a01 / m) (a02 / m) (a11 / m) (a12 / m) (a22 / m) in
  ((e0 * m, e1 * m, e2 * m), x).

(* ------------------------------------------------------------------------------------------- (6) 3x3 eigenvectors: orthoComp, eig1
   Divisions are guarded: a zero divisor yields None (the theorems show it does not happen). *)
Definition c08_symm (a00 a01 a02 a11 a12 a22 : R) : c08_mat3 := ((a00, a01, a02), (a01, a11, a12), (a02, a12, a22)).
Definition c08_smul3 (k : R) (v : c08_vec3) : c08_vec3 := let '(v0, v1, v2) := v in (k * v0, k * v1, k * v2).
Definition c08_sub3 (u v : c08_vec3) : c08_vec3 :=
  let '(u0, u1, u2) := u in let '(v0, v1, v2) := v in (u0 - v0, u1 - v1, u2 - v2).
Definition c08_divo (x y : R) : option R := if Req_EM_T y 0 then None else Some (x / y).
Definition c08_obind {A B : Type} (x : option A) (f : A -> option B) : option B := match x with Some a => f a | None => None end.

(* orthoComp: a right-handed orthonormal set {u, v, evec0} *)
Definition c08_orthocomp (e : c08_vec3) : option (c08_vec3 * c08_vec3) :=
  let '(e0, e1, e2) := e in
  c08_obind (if Rlt_dec (Rabs e1) (Rabs e0)                                          (* abs(evec0[0]) > abs(evec0[1]) *)
             then c08_obind (c08_divo 1 (sqrt (0 + e0 * e0 + e2 * e2))) (fun L => Some (c08_smul3 L (- e2, 0, e0)))
             else c08_obind (c08_divo 1 (sqrt (0 + e1 * e1 + e2 * e2))) (fun L => Some (c08_smul3 L (0, e2, - e1))))
    (fun u => Some (u, c08_cross e u)).

(* eig1: the second eigenvector, in the plane orthogonal to evec0 *)
Definition c08_eig1v (A : c08_mat3) (e : c08_vec3) (l1 : R) : option c08_vec3 :=
  c08_obind (c08_orthocomp e) (fun uv =>
  let '(u, v) := uv in
  let Au := c08_mv3 A u in let Av := c08_mv3 A v in
  let m00 := c08_dot3 u Au - l1 in let m01 := c08_dot3 u Av in let m11 := c08_dot3 v Av - l1 in
  let absM00 := Rabs m00 in let absM01 := Rabs m01 in let absM11 := Rabs m11 in
  let unitc (t : R) := c08_divo 1 (sqrt (1 + t * t)) in
  if Rle_dec absM11 absM00 then                                                        (* absM00 >= absM11 *)
    if Rlt_dec 0 (Rmax absM00 absM01) then
      if Rle_dec absM01 absM00 then
        c08_obind (c08_divo m01 m00) (fun t => c08_obind (unitc t) (fun c =>           (* m01 /= m00; m00 = 1/sqrt(1+m01^2); m01 *= m00 *)
          Some (c08_sub3 (c08_smul3 (t * c) u) (c08_smul3 c v))))
      else
        c08_obind (c08_divo m00 m01) (fun t => c08_obind (unitc t) (fun c =>           (* m00 /= m01; m01 = 1/sqrt(1+m00^2); m00 *= m01 *)
          Some (c08_sub3 (c08_smul3 c u) (c08_smul3 (t * c) v))))
    else Some u
  else
    if Rlt_dec 0 (Rmax absM11 absM01) then
      if Rle_dec absM01 absM11 then
        c08_obind (c08_divo m01 m11) (fun t => c08_obind (unitc t) (fun c =>           (* m01 /= m11; m11 = 1/sqrt(1+m01^2); m01 *= m11 *)
          Some (c08_sub3 (c08_smul3 c u) (c08_smul3 (t * c) v))))
      else
        c08_obind (c08_divo m11 m01) (fun t => c08_obind (unitc t) (fun c =>           (* m11 /= m01; m01 = 1/sqrt(1+m11^2); m11 *= m01 *)
          Some (c08_sub3 (c08_smul3 (t * c) u) (c08_smul3 c v))))
    else Some u).

(* the eigenvector part of the 3d specialisation (non-diagonal branch): r >= 0: eig0 for the largest eigenvalue, eig1 for the
   middle one, the third by cross product; r < 0: the same starting from the smallest.  (The final sort of the
   (eigenvalue, eigenvector) pairs is the identity when the eigenvalues are already ascending.) *)
Definition c08_eigvecs3 (A : c08_mat3) (r : R) (ev : R * R * R) : option (c08_vec3 * c08_vec3 * c08_vec3) :=
  let '(l0, l1, l2) := ev in
  if Rle_dec 0 r then
    let w2 := snd (c08_eig0 A l2) in
    c08_obind (c08_eig1v A w2 l1) (fun w1 => Some (c08_cross w1 w2, w1, w2))
  else
    let w0 := snd (c08_eig0 A l0) in
    c08_obind (c08_eig1v A w0 l1) (fun w1 => Some (w0, w1, c08_cross w0 w1)).

(* ------------------------------------------------------------------------------------------- (7) the whole 3d specialisation
   jointly sorting three (eigenvalue, eigenvector) pairs: the three compare-exchange steps of the diagonal branch
   (`if (eigenValues[i] > eigenValues[j]) { swap values; swap vectors }`); std::sort with the comparator on .first in the
   other branch is modelled by the same network (any correct sort returns an ascending permutation; the theorems only state
   what holds for every such permutation). *)
Definition c08_cswap {X : Type} (p q : R * X) : (R * X) * (R * X) := if Rlt_dec (fst q) (fst p) then (q, p) else (p, q).
Definition c08_bubble3 {X : Type} (p0 p1 p2 : R * X) : (R * X) * (R * X) * (R * X) :=
  let '(p0, p1) := c08_cswap p0 p1 in
  let '(p1, p2) := c08_cswap p1 p2 in
  let '(p0, p1) := c08_cswap p0 p1 in (p0, p1, p2).

(* orthoComp with the comparison flipped (abs(evec0[0]) < abs(evec0[1]) picks the (0,2) pair): the variant a seeded change
   introduced; it divides by zero for axis-aligned evec0 *)
Definition c08_orthocomp_flipped (e : c08_vec3) : option (c08_vec3 * c08_vec3) :=
  let '(e0, e1, e2) := e in
  c08_obind (if Rlt_dec (Rabs e0) (Rabs e1)
             then c08_obind (c08_divo 1 (sqrt (0 + e0 * e0 + e2 * e2))) (fun L => Some (c08_smul3 L (- e2, 0, e0)))
             else c08_obind (c08_divo 1 (sqrt (0 + e1 * e1 + e2 * e2))) (fun L => Some (c08_smul3 L (0, e2, - e1))))
    (fun u => Some (u, c08_cross e u)).
