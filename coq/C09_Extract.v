(* Extraction of the C09 model for the correspondence check.  ExtrOcamlBasic only.  The functions of
   Section C09_LU take the carrier operations (sub mul div absr gt nz zero one mone) as arguments:
   the OCaml driver passes IEEE double operations. *)
From Coq Require Import Extraction ExtrOcamlBasic.
From Coq Require Import List Arith.
From DuneV Require Import C09_Model C09_Spec.
Extraction Language OCaml.
Extraction "c09_model.ml"
  c09_plan c09_nested_lanes c09_traits c09_ty_hasnan
  c09_s_solve c09_s_invert c09_s_det c09_v_solve c09_v_invert c09_v_det c09_v_trace c09_v_init
  c09_lane_vec c09_lane_mat c09_v_mv c09_s_mv c09_v_infnorm c09_s_infnorm
  c09_spec_solve c09_spec_invert c09_spec_det
  c09_s_det_full c09_s_solve_full c09_s_invert_full c09_v_det_full c09_v_solve_full c09_v_invert_full
  c09_s_umv c09_s_mmv c09_s_usmv c09_s_mtv c09_s_dot c09_s_two_norm2 c09_s_two_norm c09_s_frobenius_norm2 c09_s_frobenius_norm c09_s_vec_infnorm c09_s_one_norm
  c09_v_umv c09_v_mmv c09_v_usmv c09_v_mtv c09_v_dot c09_v_two_norm2 c09_v_two_norm c09_v_frobenius_norm2 c09_v_frobenius_norm c09_v_vec_infnorm c09_v_one_norm.
