(* C09 — executable model of Dune::LoopSIMD<T,S> (dune/common/simd/loop.hh), of the SIMD interface
   functions (simd/interface.hh, defaults.hh, standard.hh) and of the lane behaviour of the dense LU
   (dune/common/densematrix.hh: luDecomposition, solve, invert, determinant for n >= 4).
   Definitions only (no proofs).

   A LoopSIMD<T,S> is a list of S lanes.  A nested LoopSIMD<LoopSIMD<T,m>,S> is a list of S lists of m
   lanes; its flat lane l is lane (l mod m) of element (l / m)  (loop.hh:358-376).

   The dense LU is written over an UNINTERPRETED carrier: T (field_type of one lane), U (real_type),
   sub mul div : T -> T -> T, absr : T -> U, gt : U -> U -> bool, nz : U -> bool and the constants
   zero one mone, all Section variables WITHOUT laws.  Division stays whatever the platform does
   (inf / NaN for doubles): nothing is totalised away.  Equality of results is therefore identity of
   operation trees ("bit for bit").  The extracted functions take the carrier operations as
   arguments; the OCaml driver instantiates them with IEEE doubles, the refutation in C09_Proofs.v
   with rationals plus an absorbing error element. *)
From Coq Require Import List Arith Bool.
From DuneV Require Import Params_gen.
Import ListNotations.

(* ------------------------------------------------------------------------------------------ *)
(* Part 1.  LoopSIMD operators and SIMD interface functions as lane-wise list functions         *)
(* ------------------------------------------------------------------------------------------ *)

Definition c09_tab {X : Type} (n : nat) (f : nat -> X) : list X := map f (seq 0 n).

Definition c09_lane {X : Type} (d : X) (l : nat) (v : list X) : X := nth l v d.          (* Simd::lane(l, v) *)
Definition c09_bcast {X : Type} (S : nat) (x : X) : list X := repeat x S.                (* V(Scalar<V>(x)), broadcast<V>(x) *)
Definition c09_lanes {X : Type} (v : list X) : nat := length v.                          (* Simd::lanes(v) *)

(* unary operators, cmath functions, isNaN ...:  for(i<S) out[i] = f(v[i]) *)
Definition c09_map {X Y : Type} (f : X -> Y) (v : list X) : list Y := map f v.
(* binary operators vector-vector:  for(i<S) out[i] = v[i] @ w[i] *)
Fixpoint c09_map2 {X Y Z : Type} (f : X -> Y -> Z) (v : list X) (w : list Y) : list Z :=
  match v, w with
  | a :: v', b :: w' => f a b :: c09_map2 f v' w'
  | _, _ => []
  end.
(* vector @ scalar and scalar @ vector *)
Definition c09_map_vs {X Y Z : Type} (f : X -> Y -> Z) (v : list X) (s : Y) : list Z := map (fun a => f a s) v.
Definition c09_map_sv {X Y Z : Type} (f : X -> Y -> Z) (s : X) (w : list Y) : list Z := map (fun b => f s b) w.
(* compound assignment v @= w : new value of v, which is also the value of the expression *)
Definition c09_assign_vv {X Y : Type} (f : X -> Y -> X) (v : list X) (w : list Y) : list X * list X :=
  let r := c09_map2 f v w in (r, r).
Definition c09_assign_vs {X Y : Type} (f : X -> Y -> X) (v : list X) (s : Y) : list X * list X :=
  let r := c09_map_vs f v s in (r, r).
(* v @= s where s is a REFERENCE TO LANE k OF v ITSELF (v /= v[0], v -= Simd::lane(2, v)): the operator takes its scalar operand
   BY VALUE (loop.hh: `operator @=(const Simd::Scalar<T> s)`), i.e. the operand is snapshotted before the per-lane loop *)
Definition c09_assign_vs_lane {X : Type} (f : X -> X -> X) (d : X) (v : list X) (k : nat) : list X * list X :=
  c09_assign_vs f v (nth k v d).
(* the variant that is NOT the code: scalar operand taken by reference, re-read in every iteration of  for(i<S) v[i] @= s  *)
Fixpoint c09_list_upd {X : Type} (i : nat) (x : X) (v : list X) : list X :=
  match v, i with
  | [], _ => []
  | _ :: r, O => x :: r
  | y :: r, S i' => y :: c09_list_upd i' x r
  end.
Definition c09_assign_vs_lane_byref {X : Type} (f : X -> X -> X) (d : X) (v : list X) (k : nat) : list X :=
  fold_left (fun w i => c09_list_upd i (f (nth i w d) (nth k w d)) w) (seq 0 (length v)) v.

(* special members (defaulted: those of std::array<T,S>) and the explicit converting constructor LoopSIMD<T,S,A>(const LoopSIMD<T,S,OA>&):
   (the new object, the source afterwards); the alignment parameter is not part of the value.  swap(v, w): (new v, new w) *)
Definition c09_copy {X : Type} (v : list X) : list X * list X := (v, v).
Definition c09_swap {X : Type} (v w : list X) : list X * list X := (w, v).

(* ++v / --v : (value of the expression, new v);  v++ / v-- : (old v, new v) *)
Definition c09_prefix {X : Type} (f : X -> X) (v : list X) : list X * list X := let r := map f v in (r, r).
Definition c09_postfix {X : Type} (f : X -> X) (v : list X) : list X * list X := (v, map f v).

(* cond(mask, ifTrue, ifFalse): for(i<S) out[i] = mask[i] ? ifTrue[i] : ifFalse[i] *)
Fixpoint c09_cond {X : Type} (m : list bool) (a b : list X) : list X :=
  match m, a, b with
  | mi :: m', x :: a', y :: b' => (if mi then x else y) :: c09_cond m' a' b'
  | _, _, _ => []
  end.
(* cond(bool mask, ...) of interface.hh: any simd type, the whole vector is selected *)
Definition c09_cond_bool {X : Type} (m : bool) (a b : list X) : list X := if m then a else b.

(* mask reductions, with the accumulator of the code:  out = false; out |= anyTrue(mask[i]) ... *)
Definition c09_anytrue (m : list bool) : bool := fold_left (fun out mi => orb out mi) m false.
Definition c09_alltrue (m : list bool) : bool := fold_left (fun out mi => andb out mi) m true.
Definition c09_anyfalse (m : list bool) : bool := fold_left (fun out mi => orb out (negb mi)) m false.
Definition c09_allfalse (m : list bool) : bool := fold_left (fun out mi => andb out (negb mi)) m true.

(* horizontal max / min of defaults.hh:  m = lane(0,v); for l>=1: if(m < lane(l,v)) m = lane(l,v) *)
Definition c09_hmax {X : Type} (lt : X -> X -> bool) (d : X) (v : list X) : X :=
  fold_left (fun m x => if lt m x then x else m) (tl v) (hd d v).
Definition c09_hmin {X : Type} (lt : X -> X -> bool) (d : X) (v : list X) : X :=
  fold_left (fun m x => if lt x m then x else m) (tl v) (hd d v).

(* mask(v) = (v != 0),  maskOr / maskAnd *)
Definition c09_mask {X : Type} (nzb : X -> bool) (v : list X) : list bool := map nzb v.
Definition c09_maskor {X Y : Type} (nx : X -> bool) (ny : Y -> bool) (v : list X) (w : list Y) : list bool :=
  c09_map2 orb (c09_mask nx v) (c09_mask ny w).
Definition c09_maskand {X Y : Type} (nx : X -> bool) (ny : Y -> bool) (v : list X) (w : list Y) : list bool :=
  c09_map2 andb (c09_mask nx v) (c09_mask ny w).

(* implCast<V>(u) of defaults.hh: result(0); for l: lane(l,result) = lane(l,u) *)
Definition c09_implcast {X : Type} (d : X) (S : nat) (u : list X) : list X := c09_tab S (fun l => c09_lane d l u).

(* nested SIMD: lanes<LoopSIMD<V,S>>() = S * lanes<V>();  lane(l, v) = lane(l % lanes<V>(), v[l / lanes<V>()]) *)
Definition c09_nested_lanes (S m : nat) : nat := S * m.
Definition c09_nested_lane {X : Type} (d : X) (m : nat) (l : nat) (v : list (list X)) : X :=
  c09_lane d (l mod m) (nth (l / m) v []).
Definition c09_nested_all_lanes {X : Type} (d : X) (m : nat) (v : list (list X)) : list X :=
  c09_tab (c09_nested_lanes (length v) m) (fun l => c09_nested_lane d m l v).
(* an operator on a nested type applies the inner operator to every element *)
Definition c09_nested_map2 {X Y Z : Type} (f : X -> Y -> Z) (v : list (list X)) (w : list (list Y)) : list (list Z) :=
  c09_map2 (c09_map2 f) v w.
Definition c09_nested_anytrue (m : list (list bool)) : bool :=
  fold_left (fun out mi => orb out (c09_anytrue mi)) m false.
Definition c09_nested_alltrue (m : list (list bool)) : bool :=
  fold_left (fun out mi => andb out (c09_alltrue mi)) m true.

(* ---- the type grammar and the traits the generic code dispatches on.
   t ::= scalar (id, HasNaN, IsNumber)  |  LoopSIMD<t, S, A>      (A = alignment template parameter, 0 = default)
   loop.hh: ScalarType<LoopSIMD<T,S,A>> = Scalar<T>;  RebindType<U, LoopSIMD<T,S,A>> = LoopSIMD<Rebind<U,T>,S,A>;
            LaneCount<LoopSIMD<T,S,A>> = S * lanes<T>();  IsNumber<LoopSIMD<T,S,A>> = IsNumber<T>;  HasNaN<LoopSIMD<T,S,A>> = HasNaN<T>
   standard.hh: Scalar<T> = T, Rebind<U,T> = U, lanes<T>() = 1 for every other type ---- *)
Inductive c09_ty : Type :=
| C09_TScalar (id : nat) (hasnan isnumber : bool)
| C09_TSimd (lanes align : nat) (t : c09_ty).

Fixpoint c09_ty_scalar (t : c09_ty) : c09_ty :=
  match t with C09_TScalar i h n => C09_TScalar i h n | C09_TSimd _ _ t' => c09_ty_scalar t' end.
Fixpoint c09_ty_lanes (t : c09_ty) : nat :=
  match t with C09_TScalar _ _ _ => 1 | C09_TSimd n _ t' => n * c09_ty_lanes t' end.
Fixpoint c09_ty_hasnan (t : c09_ty) : bool :=
  match t with C09_TScalar _ h _ => h | C09_TSimd _ _ t' => c09_ty_hasnan t' end.
Fixpoint c09_ty_isnumber (t : c09_ty) : bool :=
  match t with C09_TScalar _ _ n => n | C09_TSimd _ _ t' => c09_ty_isnumber t' end.
Fixpoint c09_ty_rebind (u : c09_ty) (t : c09_ty) : c09_ty :=
  match t with C09_TScalar _ _ _ => u | C09_TSimd n a t' => C09_TSimd n a (c09_ty_rebind u t') end.
Fixpoint c09_ty_eqb (a b : c09_ty) : bool :=
  match a, b with
  | C09_TScalar i h n, C09_TScalar j k m => Nat.eqb i j && Bool.eqb h k && Bool.eqb n m
  | C09_TSimd n a t, C09_TSimd n' a' t' => Nat.eqb n n' && Nat.eqb a a' && c09_ty_eqb t t'
  | _, _ => false
  end.
Definition c09_ty_bool : c09_ty := C09_TScalar 0 false true.
Definition c09_ty_long : c09_ty := C09_TScalar 1 false true.
Definition c09_ty_float : c09_ty := C09_TScalar 2 true true.
Definition c09_ty_mask (t : c09_ty) : c09_ty := c09_ty_rebind c09_ty_bool t.          (* Simd::Mask<V> = Rebind<bool, V> *)
(* the observation of harness/C09/traits.hh, as (name, value of the simd type, value of the corresponding scalar type) *)
Definition c09_b2n (b : bool) : nat := if b then 1 else 0.
Definition c09_traits (t : c09_ty) : list (nat * nat) :=
  let rl := c09_ty_rebind c09_ty_long t in let rf := c09_ty_rebind c09_ty_float t in let m := c09_ty_mask t in
  [ (c09_b2n (c09_ty_hasnan t), c09_b2n (c09_ty_hasnan (c09_ty_scalar t)));
    (c09_b2n (c09_ty_isnumber t), c09_b2n (c09_ty_isnumber (c09_ty_scalar t)));
    (c09_ty_lanes t, c09_ty_lanes t);
    (c09_ty_lanes m, c09_b2n (c09_ty_eqb (c09_ty_scalar m) c09_ty_bool));
    (c09_b2n (c09_ty_hasnan m), c09_b2n (c09_ty_hasnan c09_ty_bool));
    (c09_b2n (c09_ty_eqb (c09_ty_rebind (c09_ty_scalar t) t) t), 1);
    (c09_ty_lanes rl, c09_b2n (c09_ty_eqb (c09_ty_scalar rl) c09_ty_long));
    (c09_b2n (c09_ty_hasnan rl), c09_b2n (c09_ty_hasnan c09_ty_long));
    (c09_b2n (c09_ty_hasnan rf), c09_b2n (c09_ty_hasnan c09_ty_float));
    (c09_b2n (c09_ty_isnumber rf), c09_b2n (c09_ty_isnumber c09_ty_float));
    (c09_b2n (c09_ty_eqb (c09_ty_rebind (c09_ty_scalar t) rf) t), 1) ].

(* ---- symbolic carrier: which scalar computation each lane of a result is (the plan the
        correspondence check evaluates with the C++ scalar operators) ---- *)
Inductive c09_term : Type :=
| C09_L (operand lane : nat)                 (* lane `lane` (memory order) of vector operand number `operand` *)
| C09_S (operand : nat)                      (* scalar operand *)
| C09_K (b : bool)                           (* literal false / true (accumulator seeds) *)
| C09_App (op : nat) (args : list c09_term). (* scalar operation number op (table in the driver) *)

Definition c09_sym_vec (operand S : nat) : list c09_term := c09_tab S (fun l => C09_L operand l).
Definition c09_sym_nested (operand S m : nat) : list (list c09_term) :=
  c09_tab S (fun o => c09_tab m (fun i => C09_L operand (o * m + i))).
Definition c09_app1 (op : nat) (a : c09_term) := C09_App op [a].
Definition c09_app2 (op : nat) (a b : c09_term) := C09_App op [a; b].
Definition c09_app3 (op : nat) (a b c : c09_term) := C09_App op [a; b; c].

(* operation numbers with a structural meaning (evaluated by the checker itself, not by a C++ operator) *)
Definition c09_op_sel : nat := 0.     (* sel(m, x, y) = m ? x : y *)
Definition c09_op_or : nat := 1.
Definition c09_op_and : nat := 2.
Definition c09_op_not : nat := 3.
Definition c09_op_ltsel_max : nat := 4.   (* ltsel_max(m, x) = (m < x) ? x : m *)
Definition c09_op_ltsel_min : nat := 5.   (* ltsel_min(m, x) = (x < m) ? x : m *)

Inductive c09_form : Type :=
| C09_Unary | C09_VV | C09_VS | C09_SV | C09_AssignVV | C09_AssignVS | C09_Prefix | C09_Postfix
| C09_Cond | C09_CondBool | C09_AnyTrue | C09_AllTrue | C09_AnyFalse | C09_AllFalse
| C09_HMax | C09_HMin | C09_LaneAll | C09_Bcast | C09_ImplCast | C09_MaskOr | C09_MaskAnd
(* aliasing forms: the scalar operand is (a reference to) lane k of operand a itself, the vector operand is a itself *)
| C09_AssignVSLane (k : nat) | C09_VSLane (k : nat) | C09_SVLane (k : nat) | C09_VVSelf | C09_AssignVVSelf
| C09_CondSelf | C09_CondSame | C09_CondMask
(* special members and conversions: copy / move / assignment / self-assignment / converting constructor (copy, source), swap, v = v[k] *)
| C09_Copy | C09_Swap | C09_BcastLane (k : nat) | C09_MaskOrSelf | C09_MaskAndSelf.

(* symbolic cond on terms: the mask lane is itself a term *)
Fixpoint c09_cond_sym (m a b : list c09_term) : list c09_term :=
  match m, a, b with
  | mi :: m', x :: a', y :: b' => c09_app3 c09_op_sel mi x y :: c09_cond_sym m' a' b'
  | _, _, _ => []
  end.

(* The plan: list of output vectors (each a list of lane terms), for flat lane count S*m
   (m = 1: plain LoopSIMD<T,S>; m > 1: LoopSIMD<LoopSIMD<T,m>,S>, operands numbered in memory order).
   Operand 0 = a, 1 = b, 2 = c (for cond: 0 = mask, 1 = ifTrue, 2 = ifFalse). *)
Definition c09_plan (f : c09_form) (op : nat) (S m : nat) : list (list c09_term) :=
  let flat (o : nat) := concat (c09_sym_nested o S m) in
  let a := flat 0 in let b := flat 1 in let c := flat 2 in
  match f with
  | C09_Unary => [c09_map (c09_app1 op) a]
  | C09_VV => [concat (c09_nested_map2 (c09_app2 op) (c09_sym_nested 0 S m) (c09_sym_nested 1 S m))]
  | C09_VS => [c09_map_vs (c09_app2 op) a (C09_S 1)]
  | C09_SV => [c09_map_sv (c09_app2 op) (C09_S 0) b]
  | C09_AssignVV => let r := c09_assign_vv (c09_app2 op) a b in [fst r; snd r]
  | C09_AssignVS => let r := c09_assign_vs (c09_app2 op) a (C09_S 1) in [fst r; snd r]
  | C09_Prefix => let r := c09_prefix (c09_app1 op) a in [fst r; snd r]
  | C09_Postfix => let r := c09_postfix (c09_app1 op) a in [fst r; snd r]
  | C09_Cond => [c09_cond_sym a b c]
  | C09_CondBool => [c09_map (fun x => c09_app3 c09_op_sel (C09_S 0) (fst x) (snd x)) (combine b c)]
  | C09_AnyTrue => [[fold_left (fun out mi => c09_app2 c09_op_or out
                       (fold_left (fun o2 x => c09_app2 c09_op_or o2 x) mi (C09_K false))) (c09_sym_nested 0 S m) (C09_K false)]]
  | C09_AllTrue => [[fold_left (fun out mi => c09_app2 c09_op_and out
                       (fold_left (fun o2 x => c09_app2 c09_op_and o2 x) mi (C09_K true))) (c09_sym_nested 0 S m) (C09_K true)]]
  | C09_AnyFalse => [[fold_left (fun out mi => c09_app2 c09_op_or out
                       (fold_left (fun o2 x => c09_app2 c09_op_or o2 (c09_app1 c09_op_not x)) mi (C09_K false))) (c09_sym_nested 0 S m) (C09_K false)]]
  | C09_AllFalse => [[fold_left (fun out mi => c09_app2 c09_op_and out
                       (fold_left (fun o2 x => c09_app2 c09_op_and o2 (c09_app1 c09_op_not x)) mi (C09_K true))) (c09_sym_nested 0 S m) (C09_K true)]]
  | C09_HMax => [[fold_left (fun mx y => c09_app2 c09_op_ltsel_max mx y) (tl a) (hd (C09_K false) a)]]
  | C09_HMin => [[fold_left (fun mx y => c09_app2 c09_op_ltsel_min mx y) (tl a) (hd (C09_K false) a)]]
  | C09_LaneAll => [c09_nested_all_lanes (C09_K false) m (c09_sym_nested 0 S m)]
  | C09_Bcast => [concat (c09_bcast S (c09_bcast m (C09_S 0)))]
  | C09_ImplCast => [c09_implcast (C09_K false) (S * m) a]
  | C09_MaskOr => [c09_map2 (c09_app2 c09_op_or) (c09_map (c09_app1 op) a) (c09_map (c09_app1 op) b)]
  | C09_MaskAnd => [c09_map2 (c09_app2 c09_op_and) (c09_map (c09_app1 op) a) (c09_map (c09_app1 op) b)]
  (* operands are read BEFORE the operation: every lane combines with the ORIGINAL lane k *)
  | C09_AssignVSLane k => let r := c09_assign_vs_lane (c09_app2 op) (C09_K false) a k in [fst r; snd r]
  | C09_VSLane k => [c09_map_vs (c09_app2 op) a (nth k a (C09_K false))]
  | C09_SVLane k => [c09_map_sv (c09_app2 op) (nth k a (C09_K false)) a]
  | C09_VVSelf => [c09_map2 (c09_app2 op) a a]
  | C09_AssignVVSelf => let r := c09_assign_vv (c09_app2 op) a a in [fst r; snd r]
  | C09_CondSelf => [c09_cond_sym a b c]           (* b = cond(m, b, c) *)
  | C09_CondSame => [c09_cond_sym a b b]           (* cond(m, b, b) *)
  | C09_CondMask => [c09_cond_sym b b c]           (* b = cond(b, b, c) for mask types *)
  | C09_Copy => let r := c09_copy a in [fst r; snd r]
  | C09_Swap => let r := c09_swap a b in [fst r; snd r]
  | C09_BcastLane k => [c09_bcast (length a) (nth k a (C09_K false))]
  | C09_MaskOrSelf => [c09_map2 (c09_app2 c09_op_or) (c09_map (c09_app1 op) a) (c09_map (c09_app1 op) a)]
  | C09_MaskAndSelf => [c09_map2 (c09_app2 c09_op_and) (c09_map (c09_app1 op) a) (c09_map (c09_app1 op) a)]
  end.

(* ------------------------------------------------------------------------------------------ *)
(* Part 2.  Dense LU: generic straight-line parts (same text for scalar and SIMD numbers)       *)
(* ------------------------------------------------------------------------------------------ *)

Inductive c09_res (X : Type) : Type :=
| C09_Ok (x : X)
| C09_FMatrixError (x : X).       (* DUNE_THROW(FMatrixError, "matrix is singular"); x = state at the throw (diagnostics) *)
Arguments C09_Ok {X} x.
Arguments C09_FMatrixError {X} x.

Section C09_Generic.
  Variable X : Type.                                (* field_type: T for scalars, list T for LoopSIMD<T,S> *)
  Variables xsub xmul xdiv : X -> X -> X.
  Variables xzero xone : X.

  Definition c09_g_get (A : list (list X)) (r c : nat) : X := nth c (nth r A []) xzero.
  Definition c09_g_vget (x : list X) (r : nat) : X := nth r x xzero.
  Definition c09_g_upd (n i : nat) (v : X) (x : list X) : list X :=
    c09_tab n (fun r => if r =? i then v else c09_g_vget x r).
  Definition c09_g_updrow (n i : nat) (row : list X) (A : list (list X)) : list (list X) :=
    c09_tab n (fun r => if r =? i then row else nth r A []).

  (* luDecomposition, "eliminate" block of row i (densematrix.hh:919-928):
       for k>i: factor = A[k][i]/A[i][i]; A[k][i] = factor; for j>i: A[k][j] -= factor*A[i][j]; func(factor,k,i) *)
  Definition c09_g_factor (A : list (list X)) (i k : nat) : X := xdiv (c09_g_get A k i) (c09_g_get A i i).
  Definition c09_g_elimA (n : nat) (A : list (list X)) (i : nat) : list (list X) :=
    c09_tab n (fun k => c09_tab n (fun j =>
      if i <? k then
        (if j =? i then c09_g_factor A i k
         else if i <? j then xsub (c09_g_get A k j) (xmul (c09_g_factor A i k) (c09_g_get A i j))
         else c09_g_get A k j)
      else c09_g_get A k j)).
  (* Elim<V>::operator(): rhs[k] -= factor*rhs[i] *)
  Definition c09_g_elimrhs (n : nat) (A : list (list X)) (rhs : list X) (i : nat) : list X :=
    c09_tab n (fun k => if i <? k then xsub (c09_g_vget rhs k) (xmul (c09_g_factor A i k) (c09_g_vget rhs i))
                        else c09_g_vget rhs k).

  (* solve, backsolve (densematrix.hh:999-1003), x and rhs are the same object:
       for i=n-1..0: for j>i: rhs[i] -= A[i][j]*x[j];  x[i] = rhs[i]/A[i][i] *)
  Fixpoint c09_g_rowacc (A : list (list X)) (i : nat) (js : list nat) (x : list X) (acc : X) : X :=
    match js with
    | [] => acc
    | j :: js' => c09_g_rowacc A i js' x (xsub acc (xmul (c09_g_get A i j) (c09_g_vget x j)))
    end.
  Fixpoint c09_g_backsolve (n : nat) (A : list (list X)) (rows : list nat) (x : list X) : list X :=
    match rows with
    | [] => x
    | i :: rows' =>
        let acc := c09_g_rowacc A i (seq (S i) (n - S i)) x (c09_g_vget x i) in
        c09_g_backsolve n A rows' (c09_g_upd n i (xdiv acc (c09_g_get A i i)) x)
    end.

  (* invert (densematrix.hh:1085-1105): *this = 0; diagonal 1;
       L Y = I:  for i, for j<i, for k: M[i][k] -= L[i][j]*M[j][k]
       U X = Y:  for i=n-1..0, for k: { for j>i: M[i][k] -= U[i][j]*M[j][k];  M[i][k] /= U[i][i] } *)
  Definition c09_g_identity (n : nat) : list (list X) :=
    c09_tab n (fun i => c09_tab n (fun k => if i =? k then xone else xzero)).
  Fixpoint c09_g_colacc (A M : list (list X)) (i k : nat) (js : list nat) (acc : X) : X :=
    match js with
    | [] => acc
    | j :: js' => c09_g_colacc A M i k js' (xsub acc (xmul (c09_g_get A i j) (c09_g_get M j k)))
    end.
  Fixpoint c09_g_lower (n : nat) (A : list (list X)) (rows : list nat) (M : list (list X)) : list (list X) :=
    match rows with
    | [] => M
    | i :: rows' =>
        c09_g_lower n A rows'
          (c09_g_updrow n i (c09_tab n (fun k => c09_g_colacc A M i k (seq 0 i) (c09_g_get M i k))) M)
    end.
  Fixpoint c09_g_upper (n : nat) (A : list (list X)) (rows : list nat) (M : list (list X)) : list (list X) :=
    match rows with
    | [] => M
    | i :: rows' =>
        c09_g_upper n A rows'
          (c09_g_updrow n i (c09_tab n (fun k =>
             xdiv (c09_g_colacc A M i k (seq (S i) (n - S i)) (c09_g_get M i k)) (c09_g_get A i i))) M)
    end.
  Definition c09_g_invert_tri (n : nat) (A : list (list X)) : list (list X) :=
    c09_g_upper n A (rev (seq 0 n)) (c09_g_lower n A (seq 0 n) (c09_g_identity n)).

  (* determinant: for i: det *= A[i][i] *)
  Definition c09_g_detprod (n : nat) (A : list (list X)) (d : X) : X :=
    fold_left (fun det i => xmul det (c09_g_get A i i)) (seq 0 n) d.
End C09_Generic.

(* ------------------------------------------------------------------------------------------ *)
(* Part 3.  Dense LU: the lane-specific parts, scalar numbers and S-lane numbers                 *)
(* ------------------------------------------------------------------------------------------ *)

Section C09_LU.
  Variables T U : Type.
  Variables sub mul div : T -> T -> T.
  Variable absr : T -> U.             (* fvmeta::absreal *)
  Variable gt : U -> U -> bool.       (* abs > pivmax *)
  Variable nz : U -> bool.            (* pivmax != real_type(0) *)
  Variables zero one mone : T.        (* field_type(0), field_type(1), field_type(-1) *)

  (* The three functors (Elim: rhs, ElimPivot: pivot record, ElimDet: sign) do not interact with A;
     the model carries all three at once.  ok = nonsingularLanes. *)
  Record c09_sst : Type := C09_SSt { c09_sA : list (list T); c09_srhs : list T; c09_spiv : list nat; c09_ssign : T; c09_sok : bool }.

  Definition c09_sget := c09_g_get T zero.

  (* ---------------- scalar numbers (Simd functions of standard.hh: one lane) ---------------- *)

  (* pivot search (densematrix.hh:881-888) *)
  Fixpoint c09_s_pivsearch (A : list (list T)) (i : nat) (ks : list nat) (pivmax : U) (imax : nat) : U * nat :=
    match ks with
    | [] => (pivmax, imax)
    | k :: ks' =>
        let a := absr (c09_sget A k i) in
        let mask := gt a pivmax in
        c09_s_pivsearch A i ks' (if mask then a else pivmax) (if mask then k else imax)
    end.
  (* swap rows i and p (890-903) *)
  Definition c09_s_swaprows (n : nat) (A : list (list T)) (i p : nat) : list (list T) :=
    c09_tab n (fun r => c09_tab n (fun c =>
      if r =? i then c09_sget A p c else if r =? p then c09_sget A i c else c09_sget A r c)).
  Definition c09_s_swapvec (n : nat) (x : list T) (i p : nat) : list T :=
    c09_tab n (fun r => if r =? i then nth p x zero else if r =? p then nth i x zero else nth r x zero).

  (* first half of loop body i: pivot search, row swap, func.swap, update of nonsingularLanes *)
  Definition c09_s_pivot_step (doPivoting : bool) (n i : nat) (st : c09_sst) : c09_sst :=
    let A := c09_sA st in
    let pivmax0 := absr (c09_sget A i i) in
    if doPivoting then
      let pm := c09_s_pivsearch A i (seq (S i) (n - S i)) pivmax0 i in
      let p := snd pm in
      C09_SSt (c09_s_swaprows n A i p)
              (c09_s_swapvec n (c09_srhs st) i p)                                         (* Elim::swap *)
              (c09_tab n (fun r => if r =? i then (if i =? p then nth i (c09_spiv st) 0 else p)
                                   else nth r (c09_spiv st) 0))                           (* ElimPivot::swap *)
              (mul (c09_ssign st) (if i =? p then one else mone))                         (* ElimDet::swap *)
              (c09_sok st && nz (fst pm))
    else
      C09_SSt A (c09_srhs st) (c09_spiv st) (c09_ssign st) (c09_sok st && nz pivmax0).

  Definition c09_s_elim (n i : nat) (st : c09_sst) : c09_sst :=
    C09_SSt (c09_g_elimA T sub mul div zero n (c09_sA st) i)
            (c09_g_elimrhs T sub mul div zero n (c09_sA st) (c09_srhs st) i)
            (c09_spiv st) (c09_ssign st) (c09_sok st).

  (* the loop over rows i = n-rem .. n-1 *)
  Fixpoint c09_s_loop (throwEarly doPivoting : bool) (n rem i : nat) (st : c09_sst) : c09_res c09_sst :=
    match rem with
    | O => C09_Ok st
    | S rem' =>
        let st1 := c09_s_pivot_step doPivoting n i st in
        if throwEarly then
          if negb (c09_sok st1) then C09_FMatrixError st1                       (* !allTrue(bool) *)
          else c09_s_loop throwEarly doPivoting n rem' (S i) (c09_s_elim n i st1)
        else
          if negb (c09_sok st1) then C09_Ok st1                                 (* !anyTrue(bool): return *)
          else c09_s_loop throwEarly doPivoting n rem' (S i) (c09_s_elim n i st1)
    end.

  Definition c09_s_init (n : nat) (A : list (list T)) (b : list T) : c09_sst :=
    C09_SSt A b (seq 0 n) one true.     (* ElimPivot(): pivot[i]=i;  ElimDet(): sign=1;  nonsingularLanes(true) *)

  Definition c09_s_lu (throwEarly doPivoting : bool) (n : nat) (A : list (list T)) (b : list T) : c09_res c09_sst :=
    c09_s_loop throwEarly doPivoting n n 0 (c09_s_init n A b).

  (* solve (n >= 4 branch); the throwEarly argument passed to luDecomposition is re-read from the source: Params_gen.v *)
  Definition c09_s_solve (doPivoting : bool) (n : nat) (A : list (list T)) (b : list T) : c09_res (list T) :=
    match c09_s_lu c09_param_throw_early_solve doPivoting n A b with
    | C09_FMatrixError st => C09_FMatrixError (c09_srhs st)
    | C09_Ok st => C09_Ok (c09_g_backsolve T sub mul div zero n (c09_sA st) (rev (seq 0 n)) (c09_srhs st))
    end.

  (* invert (n >= 4 branch): column un-permutation 1107-1117: for i=n-1..0: if i != pivot[i]: swap columns *)
  Definition c09_s_unperm_step (n : nat) (M : list (list T)) (i p : nat) : list (list T) :=
    c09_tab n (fun j => c09_tab n (fun c =>
      if c =? i then c09_sget M j p else if c =? p then c09_sget M j i else c09_sget M j c)).
  Fixpoint c09_s_unperm (n : nat) (piv : list nat) (cols : list nat) (M : list (list T)) : list (list T) :=
    match cols with
    | [] => M
    | i :: cols' => c09_s_unperm n piv cols' (c09_s_unperm_step n M i (nth i piv 0))
    end.
  Definition c09_s_invert (doPivoting : bool) (n : nat) (A : list (list T)) : c09_res (list (list T)) :=
    match c09_s_lu c09_param_throw_early_invert doPivoting n A [] with
    | C09_FMatrixError st => C09_FMatrixError (c09_sA st)
    | C09_Ok st => C09_Ok (c09_s_unperm n (c09_spiv st) (rev (seq 0 n))
                             (c09_g_invert_tri T sub mul div zero one n (c09_sA st)))
    end.

  (* determinant (n >= 4 branch), densematrix.hh (since 1209091):
         luDecomposition(A, ElimDet(det), nonsingularLanes, false, doPivoting);
         for i: det *= A[i][i];   det = cond(nonsingularLanes, det, 0);  return det *)
  Definition c09_s_det (doPivoting : bool) (n : nat) (A : list (list T)) : T :=
    match c09_s_lu c09_param_throw_early_det doPivoting n A [] with
    | C09_FMatrixError st => zero      (* unreachable: throwEarly = false never throws *)
    | C09_Ok st =>
        let d := c09_g_detprod T mul zero n (c09_sA st) (c09_ssign st) in
        if c09_sok st then d else zero
    end.
  (* history: the code before 1209091 applied the select BEFORE the product
         det = cond(nonsingularLanes, det, 0);  for i: det *= A[i][i]; *)
  Definition c09_s_det_before_fix (doPivoting : bool) (n : nat) (A : list (list T)) : T :=
    match c09_s_lu false doPivoting n A [] with
    | C09_FMatrixError st => zero
    | C09_Ok st => c09_g_detprod T mul zero n (c09_sA st) (if c09_sok st then c09_ssign st else zero)
    end.

  (* ---------------- S-lane numbers: LoopSIMD<T,S> ---------------- *)
  Variable W : nat.                 (* number of lanes *)

  Definition c09_dU : U := absr zero.
  (* the LoopSIMD operators restricted to S lanes (on S-lane operands they are c09_map / c09_map2 / c09_cond:
     C09_Proofs.v, c09_vmap2_is_map2 ...) *)
  Definition c09_vmap {X Y : Type} (dx : X) (f : X -> Y) (a : list X) : list Y := c09_tab W (fun l => f (nth l a dx)).
  Definition c09_vmap2 {X Y Z : Type} (dx : X) (dy : Y) (f : X -> Y -> Z) (a : list X) (b : list Y) : list Z :=
    c09_tab W (fun l => f (nth l a dx) (nth l b dy)).
  Definition c09_vcond {X : Type} (dx : X) (m : list bool) (a b : list X) : list X :=
    c09_tab W (fun l => if nth l m false then nth l a dx else nth l b dx).
  Definition c09_vbcast {X : Type} (x : X) : list X := c09_tab W (fun _ => x).

  Definition c09_vsub := c09_vmap2 zero zero sub.
  Definition c09_vmul := c09_vmap2 zero zero mul.
  Definition c09_vdiv := c09_vmap2 zero zero div.
  Definition c09_vzero : list T := c09_vbcast zero.
  Definition c09_vone : list T := c09_vbcast one.

  Record c09_vst : Type := C09_VSt { c09_vA : list (list (list T)); c09_vrhs : list (list T); c09_vpiv : list (list nat);
                                     c09_vsign : list T; c09_vok : list bool }.

  Definition c09_vget := c09_g_get (list T) c09_vzero.

  (* pivot search with per-lane imax (simd_index_type) and lane-wise cond *)
  Fixpoint c09_v_pivsearch (A : list (list (list T))) (i : nat) (ks : list nat) (pivmax : list U) (imax : list nat)
    : list U * list nat :=
    match ks with
    | [] => (pivmax, imax)
    | k :: ks' =>
        let a := c09_vmap zero absr (c09_vget A k i) in
        let mask := c09_vmap2 c09_dU c09_dU gt a pivmax in
        c09_v_pivsearch A i ks' (c09_vcond c09_dU mask a pivmax) (c09_vcond 0 mask (c09_vbcast k) imax)
    end.
  (* for j: for l: swap(lane(l, A[i][j]), lane(l, A[lane(l, imax)][j])) — for a fixed j the S swaps touch
     pairwise different lanes, and different j different entries: written as a gather per lane *)
  Definition c09_v_swaprows (n : nat) (A : list (list (list T))) (i : nat) (imax : list nat) : list (list (list T)) :=
    c09_tab n (fun r => c09_tab n (fun c => c09_tab W (fun l =>
      let p := nth l imax 0 in
      if r =? i then nth l (c09_vget A p c) zero
      else if r =? p then nth l (c09_vget A i c) zero
      else nth l (c09_vget A r c) zero))).
  (* Elim::swap: for l: swap(lane(l, rhs[i]), lane(l, rhs[lane(l, j)])) *)
  Definition c09_v_swapvec (n : nat) (x : list (list T)) (i : nat) (imax : list nat) : list (list T) :=
    c09_tab n (fun r => c09_tab W (fun l =>
      let p := nth l imax 0 in
      if r =? i then nth l (nth p x []) zero
      else if r =? p then nth l (nth i x []) zero
      else nth l (nth r x []) zero)).

  Definition c09_v_pivot_step (doPivoting : bool) (n i : nat) (st : c09_vst) : c09_vst :=
    let A := c09_vA st in
    let pivmax0 := c09_vmap zero absr (c09_vget A i i) in
    if doPivoting then
      let pm := c09_v_pivsearch A i (seq (S i) (n - S i)) pivmax0 (c09_vbcast i) in
      let imax := snd pm in
      let same := c09_vmap2 0 0 Nat.eqb (c09_vbcast i) imax in            (* simd_index_type(i) == j *)
      C09_VSt (c09_v_swaprows n A i imax)
              (c09_v_swapvec n (c09_vrhs st) i imax)
              (c09_tab n (fun r => if r =? i then c09_vcond 0 same (nth i (c09_vpiv st) []) imax
                                   else nth r (c09_vpiv st) []))
              (c09_vmul (c09_vsign st) (c09_vcond zero same (c09_vbcast one) (c09_vbcast mone)))
              (c09_vmap2 false false andb (c09_vok st) (c09_vmap c09_dU nz (fst pm)))
    else
      C09_VSt A (c09_vrhs st) (c09_vpiv st) (c09_vsign st)
              (c09_vmap2 false false andb (c09_vok st) (c09_vmap c09_dU nz pivmax0)).

  Definition c09_v_elim (n i : nat) (st : c09_vst) : c09_vst :=
    C09_VSt (c09_g_elimA (list T) c09_vsub c09_vmul c09_vdiv c09_vzero n (c09_vA st) i)
            (c09_g_elimrhs (list T) c09_vsub c09_vmul c09_vdiv c09_vzero n (c09_vA st) (c09_vrhs st) i)
            (c09_vpiv st) (c09_vsign st) (c09_vok st).

  Fixpoint c09_v_loop (throwEarly doPivoting : bool) (n rem i : nat) (st : c09_vst) : c09_res c09_vst :=
    match rem with
    | O => C09_Ok st
    | S rem' =>
        let st1 := c09_v_pivot_step doPivoting n i st in
        if throwEarly then
          if negb (c09_alltrue (c09_vok st1)) then C09_FMatrixError st1
          else c09_v_loop throwEarly doPivoting n rem' (S i) (c09_v_elim n i st1)
        else
          if negb (c09_anytrue (c09_vok st1)) then C09_Ok st1
          else c09_v_loop throwEarly doPivoting n rem' (S i) (c09_v_elim n i st1)
    end.

  Definition c09_v_init (n : nat) (A : list (list (list T))) (b : list (list T)) : c09_vst :=
    C09_VSt A b (c09_tab n (fun i => c09_vbcast i)) (c09_vbcast one) (c09_vbcast true).

  Definition c09_v_lu (throwEarly doPivoting : bool) (n : nat) (A : list (list (list T))) (b : list (list T)) : c09_res c09_vst :=
    c09_v_loop throwEarly doPivoting n n 0 (c09_v_init n A b).

  Definition c09_v_solve (doPivoting : bool) (n : nat) (A : list (list (list T))) (b : list (list T)) : c09_res (list (list T)) :=
    match c09_v_lu c09_param_throw_early_solve doPivoting n A b with
    | C09_FMatrixError st => C09_FMatrixError (c09_vrhs st)
    | C09_Ok st => C09_Ok (c09_g_backsolve (list T) c09_vsub c09_vmul c09_vdiv c09_vzero n (c09_vA st) (rev (seq 0 n)) (c09_vrhs st))
    end.

  (* for i=n-1..0: for l: pi = lane(l, pivot[i]); if(i != pi) for j: swap(lane(l, M[j][pi]), lane(l, M[j][i])) *)
  Definition c09_v_unperm_step (n : nat) (M : list (list (list T))) (i : nat) (pv : list nat) : list (list (list T)) :=
    c09_tab n (fun j => c09_tab n (fun c => c09_tab W (fun l =>
      let p := nth l pv 0 in
      if c =? i then nth l (c09_vget M j p) zero
      else if c =? p then nth l (c09_vget M j i) zero
      else nth l (c09_vget M j c) zero))).
  Fixpoint c09_v_unperm (n : nat) (piv : list (list nat)) (cols : list nat) (M : list (list (list T))) : list (list (list T)) :=
    match cols with
    | [] => M
    | i :: cols' => c09_v_unperm n piv cols' (c09_v_unperm_step n M i (nth i piv []))
    end.
  Definition c09_v_invert (doPivoting : bool) (n : nat) (A : list (list (list T))) : c09_res (list (list (list T))) :=
    match c09_v_lu c09_param_throw_early_invert doPivoting n A [] with
    | C09_FMatrixError st => C09_FMatrixError (c09_vA st)
    | C09_Ok st => C09_Ok (c09_v_unperm n (c09_vpiv st) (rev (seq 0 n))
                             (c09_g_invert_tri (list T) c09_vsub c09_vmul c09_vdiv c09_vzero c09_vone n (c09_vA st)))
    end.

  Definition c09_v_det (doPivoting : bool) (n : nat) (A : list (list (list T))) : list T :=
    match c09_v_lu c09_param_throw_early_det doPivoting n A [] with
    | C09_FMatrixError st => c09_vzero
    | C09_Ok st =>
        c09_vcond zero (c09_vok st) (c09_g_detprod (list T) c09_vmul c09_vzero n (c09_vA st) (c09_vsign st)) c09_vzero
    end.
  (* history (before 1209091) *)
  Definition c09_v_det_before_fix (doPivoting : bool) (n : nat) (A : list (list (list T))) : list T :=
    match c09_v_lu false doPivoting n A [] with
    | C09_FMatrixError st => c09_vzero
    | C09_Ok st =>
        c09_g_detprod (list T) c09_vmul c09_vzero n (c09_vA st) (c09_vcond zero (c09_vok st) (c09_vsign st) c09_vzero)
    end.

  (* deep observation for the evidence: per lane, the pivot row chosen at every step and the step at which
     the lane was found singular (n = never) in a throwEarly=false run *)
  Fixpoint c09_v_trace (doPivoting : bool) (n rem i : nat) (st : c09_vst) : list (list nat * list bool) :=
    match rem with
    | O => []
    | S rem' =>
        let st1 := c09_v_pivot_step doPivoting n i st in
        (nth i (c09_vpiv st1) [], c09_vok st1) ::
        (if negb (c09_anytrue (c09_vok st1)) then []
         else c09_v_trace doPivoting n rem' (S i) (c09_v_elim n i st1))
    end.

  (* lane projections (Simd::lane(l, .) applied entry-wise) *)
  Definition c09_lane_vec (l : nat) (x : list (list T)) : list T := map (fun v => nth l v zero) x.
  Definition c09_lane_mat (l : nat) (A : list (list (list T))) : list (list T) := map (c09_lane_vec l) A.
  Definition c09_lane_st (l : nat) (st : c09_vst) : c09_sst :=
    C09_SSt (c09_lane_mat l (c09_vA st)) (c09_lane_vec l (c09_vrhs st)) (map (fun v => nth l v 0) (c09_vpiv st))
            (nth l (c09_vsign st) zero) (nth l (c09_vok st) false).
End C09_LU.

(* products and norms (straight-line as well): DenseMatrix::mv, DenseVector::one_norm, DenseMatrix::infinity_norm in its
   two variants selected by HasNaN<value_type> *)
Section C09_GenericNorms.
  Variables X R : Type.                           (* field_type, real_type *)
  Variables (xadd xmul : X -> X -> X) (xzero : X).
  Variable xabs : X -> R.
  Variables (radd rmul rdiv rmax : R -> R -> R) (rzero rone : R).

  (* mv: for i: y[i] = 0; for j: y[i] += A[i][j] * x[j] *)
  Definition c09_g_mv (A : list (list X)) (x : list X) : list X :=
    map (fun row => fold_left (fun acc p => xadd acc (xmul (fst p) (snd p))) (combine row x) xzero) A.
  (* one_norm: result(0); for i: result += abs(v[i]) *)
  Definition c09_g_one_norm (v : list X) : R := fold_left (fun r e => radd r (xabs e)) v rzero.
  (* infinity_norm, !HasNaN: norm = 0; for rows: norm = max(row.one_norm(), norm) *)
  Definition c09_g_infnorm_plain (A : list (list X)) : R :=
    fold_left (fun norm row => rmax (c09_g_one_norm row) norm) A rzero.
  (* infinity_norm, HasNaN: additionally isNaN = 1; isNaN += a;  return norm * (isNaN / isNaN) *)
  Definition c09_g_infnorm_nan (A : list (list X)) : R :=
    let r := fold_left (fun (s : R * R) row => let a := c09_g_one_norm row in (rmax a (fst s), radd (snd s) a)) A (rzero, rone) in
    rmul (fst r) (rdiv (snd r) (snd r)).
  Definition c09_g_infnorm (hasNaN : bool) (A : list (list X)) : R :=
    if hasNaN then c09_g_infnorm_nan A else c09_g_infnorm_plain A.
End C09_GenericNorms.

Section C09_Norms.
  Variables T U : Type.
  Variables (add mul : T -> T -> T) (zero : T).
  Variable absr : T -> U.
  Variables (uadd umul udiv : U -> U -> U) (ult : U -> U -> bool) (uzero uone : U).
  Variable W : nat.
  (* std::max(a, b) = (a < b) ? b : a *)
  Definition c09_umax (a b : U) : U := if ult a b then b else a.
  Definition c09_s_mv := c09_g_mv T add mul zero.
  Definition c09_s_infnorm := c09_g_infnorm T U absr uadd umul udiv c09_umax uzero uone.
  Definition c09_nU : U := absr zero.
  Definition c09_v_mv := c09_g_mv (list T) (c09_vmap2 W zero zero add) (c09_vmap2 W zero zero mul) (c09_vbcast W zero).
  (* hasNaN = HasNaN<T>; loop.hh (since 1037165) forwards HasNaN<LoopSIMD<T,S,A>> to HasNaN<T>, so the S-lane type
     selects the same variant of infinity_norm as its scalar type *)
  Definition c09_v_infnorm := c09_g_infnorm (list T) (list U) (c09_vmap W zero absr)
      (c09_vmap2 W c09_nU c09_nU uadd) (c09_vmap2 W c09_nU c09_nU umul) (c09_vmap2 W c09_nU c09_nU udiv)
      (c09_vmap2 W c09_nU c09_nU c09_umax) (c09_vbcast W uzero) (c09_vbcast W uone).
  (* history (before 1037165): HasNaN<LoopSIMD<...>> was false whatever T, the S-lane type took the plain variant *)
  Definition c09_v_infnorm_before_fix := c09_v_infnorm false.
End C09_Norms.

(* further products and norms: umv, mmv, usmv, mtv, vector dot product, one_norm (above), two_norm2 / two_norm, frobenius_norm2 /
   frobenius_norm, DenseVector::infinity_norm in its two HasNaN variants (densematrix.hh / densevector.hh loops) *)
Section C09_GenericProducts.
  Variables X R : Type.
  Variables (xadd xsub xmul : X -> X -> X) (xzero : X).
  Variables (xabs xabs2 : X -> R).                  (* abs / fvmeta::absreal,  fvmeta::abs2 *)
  Variables (radd rmul rdiv rmax : R -> R -> R) (rsqrt : R -> R) (rzero rone : R).

  (* for j: acc (+|-)= A[i][j] * x[j] *)
  Definition c09_g_rowacc_add (row x : list X) (acc : X) : X := fold_left (fun a p => xadd a (xmul (fst p) (snd p))) (combine row x) acc.
  Definition c09_g_rowacc_sub (row x : list X) (acc : X) : X := fold_left (fun a p => xsub a (xmul (fst p) (snd p))) (combine row x) acc.
  Definition c09_g_umv (A : list (list X)) (x y : list X) : list X := map (fun p => c09_g_rowacc_add (fst p) x (snd p)) (combine A y).
  Definition c09_g_mmv (A : list (list X)) (x y : list X) : list X := map (fun p => c09_g_rowacc_sub (fst p) x (snd p)) (combine A y).
  (* usmv: y[i] += alpha * A[i][j] * x[j] *)
  Definition c09_g_usmv (alpha : X) (A : list (list X)) (x y : list X) : list X :=
    map (fun p => fold_left (fun a q => xadd a (xmul (xmul alpha (fst q)) (snd q))) (combine (fst p) x) (snd p)) (combine A y).
  (* mtv: for i<cols: y[i] = 0; for j<rows: y[i] += A[j][i] * x[j] *)
  Definition c09_g_mtv (ncols : nat) (A : list (list X)) (x : list X) : list X :=
    c09_tab ncols (fun i => fold_left (fun a p => xadd a (xmul (nth i (fst p) xzero) (snd p))) (combine A x) xzero).
  (* DenseVector::operator*: result(0); result += x[i]*y[i] *)
  Definition c09_g_dot (x y : list X) : X := fold_left (fun a p => xadd a (xmul (fst p) (snd p))) (combine x y) xzero.
  Definition c09_g_two_norm2 (v : list X) : R := fold_left (fun r e => radd r (xabs2 e)) v rzero.
  Definition c09_g_two_norm (v : list X) : R := rsqrt (c09_g_two_norm2 v).
  Definition c09_g_frobenius_norm2 (A : list (list X)) : R := fold_left (fun s row => radd s (c09_g_two_norm2 row)) A rzero.
  Definition c09_g_frobenius_norm (A : list (list X)) : R := rsqrt (c09_g_frobenius_norm2 A).
  (* DenseVector::infinity_norm: norm = max(abs(x), norm) [; isNaN += a; return norm * (isNaN / isNaN)] *)
  Definition c09_g_vec_infnorm (hasNaN : bool) (v : list X) : R :=
    if hasNaN then
      let r := fold_left (fun (s : R * R) e => let a := xabs e in (rmax a (fst s), radd (snd s) a)) v (rzero, rone) in
      rmul (fst r) (rdiv (snd r) (snd r))
    else fold_left (fun norm e => rmax (xabs e) norm) v rzero.
End C09_GenericProducts.

Section C09_Products.
  Variables T U : Type.
  Variables (add sub mul : T -> T -> T) (zero : T).
  Variables (absr abs2 : T -> U).
  Variables (uadd umul udiv : U -> U -> U) (ult : U -> U -> bool) (usqrt : U -> U) (uzero uone : U).
  Variable W : nat.
  Notation umax := (c09_umax U ult).
  Notation nU := (c09_nU T U zero absr).
  (* scalar numbers *)
  Definition c09_s_umv := c09_g_umv T add mul.
  Definition c09_s_mmv := c09_g_mmv T sub mul.
  Definition c09_s_usmv := c09_g_usmv T add mul.
  Definition c09_s_mtv := c09_g_mtv T add mul zero.
  Definition c09_s_dot := c09_g_dot T add mul zero.
  Definition c09_s_two_norm2 := c09_g_two_norm2 T U abs2 uadd uzero.
  Definition c09_s_two_norm := c09_g_two_norm T U abs2 uadd usqrt uzero.
  Definition c09_s_frobenius_norm2 := c09_g_frobenius_norm2 T U abs2 uadd uzero.
  Definition c09_s_frobenius_norm := c09_g_frobenius_norm T U abs2 uadd usqrt uzero.
  Definition c09_s_vec_infnorm := c09_g_vec_infnorm T U absr uadd umul udiv umax uzero uone.
  Definition c09_s_one_norm := c09_g_one_norm T U absr uadd uzero.
  (* W-lane numbers: the same text with the LoopSIMD operators *)
  Notation vadd := (c09_vmap2 W zero zero add).
  Notation vsub := (c09_vmap2 W zero zero sub).
  Notation vmul := (c09_vmap2 W zero zero mul).
  Notation vz := (c09_vbcast W zero).
  Notation wadd := (c09_vmap2 W nU nU uadd).
  Definition c09_v_umv := c09_g_umv (list T) vadd vmul.
  Definition c09_v_mmv := c09_g_mmv (list T) vsub vmul.
  Definition c09_v_usmv := c09_g_usmv (list T) vadd vmul.
  Definition c09_v_mtv := c09_g_mtv (list T) vadd vmul vz.
  Definition c09_v_dot := c09_g_dot (list T) vadd vmul vz.
  Definition c09_v_two_norm2 := c09_g_two_norm2 (list T) (list U) (c09_vmap W zero abs2) wadd (c09_vbcast W uzero).
  Definition c09_v_two_norm := c09_g_two_norm (list T) (list U) (c09_vmap W zero abs2) wadd (c09_vmap W nU usqrt) (c09_vbcast W uzero).
  Definition c09_v_frobenius_norm2 := c09_g_frobenius_norm2 (list T) (list U) (c09_vmap W zero abs2) wadd (c09_vbcast W uzero).
  Definition c09_v_frobenius_norm := c09_g_frobenius_norm (list T) (list U) (c09_vmap W zero abs2) wadd (c09_vmap W nU usqrt) (c09_vbcast W uzero).
  Definition c09_v_vec_infnorm := c09_g_vec_infnorm (list T) (list U) (c09_vmap W zero absr) wadd (c09_vmap2 W nU nU umul) (c09_vmap2 W nU nU udiv)
                                     (c09_vmap2 W nU nU umax) (c09_vbcast W uzero) (c09_vbcast W uone).
  Definition c09_v_one_norm := c09_g_one_norm (list T) (list U) (c09_vmap W zero absr) wadd (c09_vbcast W uzero).
End C09_Products.

(* ------------------------------------------------------------------------------------------ *)
(* Part 4.  The closed forms for rows() = 1, 2, 3 of determinant / solve / invert and the dispatch *)
(* (densematrix.hh; DUNE_FMatrix_WITH_CHECKING not defined: no singularity test in these branches) *)
(* ------------------------------------------------------------------------------------------ *)
Section C09_GenericClosed.
  Variable X : Type.
  Variables xadd xsub xmul xdiv : X -> X -> X.
  Variable xneg : X -> X.
  Variables xzero xone : X.
  Notation e := (c09_g_get X xzero).
  Notation v := (c09_g_vget X xzero).
  Infix "+" := xadd. Infix "-" := xsub. Infix "*" := xmul. Infix "/" := xdiv.

  (* determinant: rows()==1, rows()==2, rows()==3 ("code generated by maple") *)
  Definition c09_g_det1 (A : list (list X)) : X := (e A 0 0).
  Definition c09_g_det2 (A : list (list X)) : X := (e A 0 0) * (e A 1 1) - (e A 0 1) * (e A 1 0).
  Definition c09_g_det3 (A : list (list X)) : X :=
    let t4 := (e A 0 0) * (e A 1 1) in let t6 := (e A 0 0) * (e A 1 2) in let t8 := (e A 0 1) * (e A 1 0) in
    let t10 := (e A 0 2) * (e A 1 0) in let t12 := (e A 0 1) * (e A 2 0) in let t14 := (e A 0 2) * (e A 2 0) in
    t4 * (e A 2 2) - t6 * (e A 2 1) - t8 * (e A 2 2) + t10 * (e A 2 1) + t12 * (e A 1 2) - t14 * (e A 1 1).

  (* solve *)
  Definition c09_g_solve1 (A : list (list X)) (b : list X) : list X := [ (v b 0) / (e A 0 0) ].
  Definition c09_g_solve2 (A : list (list X)) (b : list X) : list X :=
    let detinv := xone / ((e A 0 0) * (e A 1 1) - (e A 0 1) * (e A 1 0)) in
    [ detinv * ((e A 1 1) * (v b 0) - (e A 0 1) * (v b 1));
      detinv * ((e A 0 0) * (v b 1) - (e A 1 0) * (v b 0)) ].
  Definition c09_g_solve3 (A : list (list X)) (b : list X) : list X :=
    let d := c09_g_det3 A in
    [ ((v b 0) * (e A 1 1) * (e A 2 2) - (v b 0) * (e A 2 1) * (e A 1 2) - (v b 1) * (e A 0 1) * (e A 2 2) + (v b 1) * (e A 2 1) * (e A 0 2)
       + (v b 2) * (e A 0 1) * (e A 1 2) - (v b 2) * (e A 1 1) * (e A 0 2)) / d;
      ((e A 0 0) * (v b 1) * (e A 2 2) - (e A 0 0) * (v b 2) * (e A 1 2) - (e A 1 0) * (v b 0) * (e A 2 2) + (e A 1 0) * (v b 2) * (e A 0 2)
       + (e A 2 0) * (v b 0) * (e A 1 2) - (e A 2 0) * (v b 1) * (e A 0 2)) / d;
      ((e A 0 0) * (e A 1 1) * (v b 2) - (e A 0 0) * (e A 2 1) * (v b 1) - (e A 1 0) * (e A 0 1) * (v b 2) + (e A 1 0) * (e A 2 1) * (v b 0)
       + (e A 2 0) * (e A 0 1) * (v b 1) - (e A 2 0) * (e A 1 1) * (v b 0)) / d ].

  (* invert *)
  Definition c09_g_invert1 (A : list (list X)) : list (list X) := [[ xone / (e A 0 0) ]].
  Definition c09_g_invert2 (A : list (list X)) : list (list X) :=
    let detinv := xone / ((e A 0 0) * (e A 1 1) - (e A 0 1) * (e A 1 0)) in
    [ [ (e A 1 1) * detinv;        xneg (e A 0 1) * detinv ];
      [ xneg (e A 1 0) * detinv;   (e A 0 0) * detinv ] ].
  Definition c09_g_invert3 (A : list (list X)) : list (list X) :=
    let t4 := (e A 0 0) * (e A 1 1) in let t6 := (e A 0 0) * (e A 1 2) in let t8 := (e A 0 1) * (e A 1 0) in
    let t10 := (e A 0 2) * (e A 1 0) in let t12 := (e A 0 1) * (e A 2 0) in let t14 := (e A 0 2) * (e A 2 0) in
    let det := t4 * (e A 2 2) - t6 * (e A 2 1) - t8 * (e A 2 2) + t10 * (e A 2 1) + t12 * (e A 1 2) - t14 * (e A 1 1) in
    let t17 := xone / det in
    [ [ ((e A 1 1) * (e A 2 2) - (e A 1 2) * (e A 2 1)) * t17;  xneg ((e A 0 1) * (e A 2 2) - (e A 0 2) * (e A 2 1)) * t17;  ((e A 0 1) * (e A 1 2) - (e A 0 2) * (e A 1 1)) * t17 ];
      [ xneg ((e A 1 0) * (e A 2 2) - (e A 1 2) * (e A 2 0)) * t17;  ((e A 0 0) * (e A 2 2) - t14) * t17;  xneg (t6 - t10) * t17 ];
      [ ((e A 1 0) * (e A 2 1) - (e A 1 1) * (e A 2 0)) * t17;  xneg ((e A 0 0) * (e A 2 1) - t12) * t17;  (t4 - t8) * t17 ] ].
End C09_GenericClosed.

Section C09_Full.
  Variables T U : Type.
  Variables add sub mul div : T -> T -> T.
  Variable neg : T -> T.
  Variable absr : T -> U.
  Variable gt : U -> U -> bool.
  Variable nz : U -> bool.
  Variables zero one mone : T.
  Variable W : nat.

  (* DenseMatrix::determinant / solve / invert with the dispatch on rows(): 1, 2, 3 closed form, otherwise the LU *)
  Definition c09_s_det_full (doPivoting : bool) (n : nat) (A : list (list T)) : T :=
    match n with
    | 1 => c09_g_det1 T zero A
    | 2 => c09_g_det2 T sub mul zero A
    | 3 => c09_g_det3 T add sub mul zero A
    | _ => c09_s_det T U sub mul div absr gt nz zero one mone doPivoting n A
    end.
  Definition c09_s_solve_full (doPivoting : bool) (n : nat) (A : list (list T)) (b : list T) : c09_res (list T) :=
    match n with
    | 1 => C09_Ok (c09_g_solve1 T div zero A b)
    | 2 => C09_Ok (c09_g_solve2 T sub mul div zero one A b)
    | 3 => C09_Ok (c09_g_solve3 T add sub mul div zero A b)
    | _ => c09_s_solve T U sub mul div absr gt nz zero one mone doPivoting n A b
    end.
  Definition c09_s_invert_full (doPivoting : bool) (n : nat) (A : list (list T)) : c09_res (list (list T)) :=
    match n with
    | 1 => C09_Ok (c09_g_invert1 T div zero one A)
    | 2 => C09_Ok (c09_g_invert2 T sub mul div neg zero one A)
    | 3 => C09_Ok (c09_g_invert3 T add sub mul div neg zero one A)
    | _ => c09_s_invert T U sub mul div absr gt nz zero one mone doPivoting n A
    end.

  (* the same text instantiated with W-lane numbers *)
  Notation vadd := (c09_vmap2 W zero zero add).
  Notation vsub := (c09_vsub T sub zero W).
  Notation vmul := (c09_vmul T mul zero W).
  Notation vdiv := (c09_vdiv T div zero W).
  Notation vneg := (c09_vmap W zero neg).
  Notation vzero := (c09_vzero T zero W).
  Notation vone := (c09_vone T one W).
  Definition c09_v_det_full (doPivoting : bool) (n : nat) (A : list (list (list T))) : list T :=
    match n with
    | 1 => c09_g_det1 (list T) vzero A
    | 2 => c09_g_det2 (list T) vsub vmul vzero A
    | 3 => c09_g_det3 (list T) vadd vsub vmul vzero A
    | _ => c09_v_det T U sub mul div absr gt nz zero one mone W doPivoting n A
    end.
  Definition c09_v_solve_full (doPivoting : bool) (n : nat) (A : list (list (list T))) (b : list (list T)) : c09_res (list (list T)) :=
    match n with
    | 1 => C09_Ok (c09_g_solve1 (list T) vdiv vzero A b)
    | 2 => C09_Ok (c09_g_solve2 (list T) vsub vmul vdiv vzero vone A b)
    | 3 => C09_Ok (c09_g_solve3 (list T) vadd vsub vmul vdiv vzero A b)
    | _ => c09_v_solve T U sub mul div absr gt nz zero one mone W doPivoting n A b
    end.
  Definition c09_v_invert_full (doPivoting : bool) (n : nat) (A : list (list (list T))) : c09_res (list (list (list T))) :=
    match n with
    | 1 => C09_Ok (c09_g_invert1 (list T) vdiv vzero vone A)
    | 2 => C09_Ok (c09_g_invert2 (list T) vsub vmul vdiv vneg vzero vone A)
    | 3 => C09_Ok (c09_g_invert3 (list T) vadd vsub vmul vdiv vneg vzero vone A)
    | _ => c09_v_invert T U sub mul div absr gt nz zero one mone W doPivoting n A
    end.
End C09_Full.

(* the per-lane swaps of luDecomposition / Elim::swap / invert as the literal loops over single lanes of single entries, e.g.
   for j: for l: swap(lane(l, A[i][j]), lane(l, A[lane(l, imax)][j]));  C09_Proofs_Swap.v shows that they compute the gathers
   c09_v_swaprows, c09_v_swapvec, c09_v_unperm_step used above *)
Section C09_SwapLoops.
  Variable T : Type.
  Variable zero : T.
  Variable W : nat.
  Definition c09_get3 (A : list (list (list T))) (r c l : nat) : T := nth l (nth c (nth r A []) []) zero.
  Definition c09_set3 (n : nat) (A : list (list (list T))) (r c l : nat) (x : T) : list (list (list T)) :=
    c09_tab n (fun r' => c09_tab n (fun c' => c09_tab W (fun l' =>
      if (r' =? r) && (c' =? c) && (l' =? l) then x else c09_get3 A r' c' l'))).
  Definition c09_swap_cell (n : nat) (A : list (list (list T))) (r1 r2 c l : nat) : list (list (list T)) :=
    let x := c09_get3 A r1 c l in let y := c09_get3 A r2 c l in
    c09_set3 n (c09_set3 n A r1 c l y) r2 c l x.
  Definition c09_v_swaprows_loops (n : nat) (A : list (list (list T))) (i : nat) (imax : list nat) : list (list (list T)) :=
    fold_left (fun A j => fold_left (fun A l => c09_swap_cell n A i (nth l imax 0) j l) (seq 0 W) A) (seq 0 n) A.

  (* Elim<V>::swap:  for l: swap(lane(l, rhs[i]), lane(l, rhs[lane(l, j)])) *)
  Definition c09_get2 (x : list (list T)) (r l : nat) : T := nth l (nth r x []) zero.
  Definition c09_set2 (n : nat) (x : list (list T)) (r l : nat) (v : T) : list (list T) :=
    c09_tab n (fun r' => c09_tab W (fun l' => if (r' =? r) && (l' =? l) then v else c09_get2 x r' l')).
  Definition c09_swap_cell2 (n : nat) (x : list (list T)) (r1 r2 l : nat) : list (list T) :=
    let a := c09_get2 x r1 l in let b := c09_get2 x r2 l in c09_set2 n (c09_set2 n x r1 l b) r2 l a.
  Definition c09_v_swapvec_loops (n : nat) (x : list (list T)) (i : nat) (imax : list nat) : list (list T) :=
    fold_left (fun x l => c09_swap_cell2 n x i (nth l imax 0) l) (seq 0 W) x.

  (* invert, column un-permutation, body of the loop over i (densematrix.hh:1109-1116):
       for l: pi = lane(l, pivot[i]); if(i != pi) for j: swap(lane(l, M[j][pi]), lane(l, M[j][i])) *)
  Definition c09_swap_cols_cell (n : nat) (M : list (list (list T))) (j c1 c2 l : nat) : list (list (list T)) :=
    let x := c09_get3 M j c1 l in let y := c09_get3 M j c2 l in
    c09_set3 n (c09_set3 n M j c1 l y) j c2 l x.
  Definition c09_v_unperm_step_loops (n : nat) (M : list (list (list T))) (i : nat) (pv : list nat) : list (list (list T)) :=
    fold_left (fun M l => let p := nth l pv 0 in
                          if i =? p then M
                          else fold_left (fun M j => c09_swap_cols_cell n M j p i l) (seq 0 n) M) (seq 0 W) M.
  Fixpoint c09_v_unperm_loops (n : nat) (piv : list (list nat)) (cols : list nat) (M : list (list (list T))) : list (list (list T)) :=
    match cols with
    | [] => M
    | i :: cols' => c09_v_unperm_loops n piv cols' (c09_v_unperm_step_loops n M i (nth i piv []))
    end.
End C09_SwapLoops.

(* first half of the loop body of luDecomposition with the swaps written as the literal loops *)
Section C09_LoopsStep.
  Variables T U : Type.
  Variable mul : T -> T -> T.
  Variable absr : T -> U.
  Variable gt : U -> U -> bool.
  Variable nz : U -> bool.
  Variables zero one mone : T.
  Variable W : nat.
  Definition c09_v_pivot_step_loops (doPivoting : bool) (n i : nat) (st : c09_vst T) : c09_vst T :=
    let A := c09_vA T st in
    let pivmax0 := c09_vmap W zero absr (c09_vget T zero W A i i) in
    if doPivoting then
      let pm := c09_v_pivsearch T U absr gt zero W A i (seq (S i) (n - S i)) pivmax0 (c09_vbcast W i) in
      let imax := snd pm in
      let same := c09_vmap2 W 0 0 Nat.eqb (c09_vbcast W i) imax in
      C09_VSt T (c09_v_swaprows_loops T zero W n A i imax)
              (c09_v_swapvec_loops T zero W n (c09_vrhs T st) i imax)
              (c09_tab n (fun r => if r =? i then c09_vcond W 0 same (nth i (c09_vpiv T st) []) imax else nth r (c09_vpiv T st) []))
              (c09_vmul T mul zero W (c09_vsign T st) (c09_vcond W zero same (c09_vbcast W one) (c09_vbcast W mone)))
              (c09_vmap2 W false false andb (c09_vok T st) (c09_vmap W (c09_dU T U absr zero) nz (fst pm)))
    else c09_v_pivot_step T U mul absr gt nz zero one mone W doPivoting n i st.
End C09_LoopsStep.
