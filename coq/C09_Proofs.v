(* C09 — proofs.  Part 1: the LoopSIMD operators / interface functions are lane-wise.
   Part 2 (C09_Proofs_LU.v): the dense LU commutes with taking a lane. *)
From Coq Require Import List Arith Bool Lia.
From DuneV Require Import C09_Model C09_Spec.
Import ListNotations.

Lemma c09_tab_length : forall X n (f : nat -> X), length (c09_tab n f) = n.
Proof. intros; unfold c09_tab; now rewrite map_length, seq_length. Qed.

Lemma c09_tab_nth : forall X n (f : nat -> X) i d, i < n -> nth i (c09_tab n f) d = f i.
Proof.
  intros X n f i d H. unfold c09_tab.
  rewrite nth_indep with (d' := f 0) by (now rewrite map_length, seq_length).
  rewrite map_nth. now rewrite seq_nth.
Qed.

Lemma c09_tab_ext : forall X n (f g : nat -> X), (forall i, i < n -> f i = g i) -> c09_tab n f = c09_tab n g.
Proof. intros. unfold c09_tab. apply map_ext_in. intros a Ha. apply in_seq in Ha. apply H. lia. Qed.

Lemma c09_map_tab : forall X Y (h : X -> Y) n (f : nat -> X), map h (c09_tab n f) = c09_tab n (fun i => h (f i)).
Proof. intros. unfold c09_tab. now rewrite map_map. Qed.

Lemma c09_map2_length : forall X Y Z (f : X -> Y -> Z) v w, length (c09_map2 f v w) = Nat.min (length v) (length w).
Proof. induction v; destruct w; simpl; auto. Qed.

Lemma c09_map2_nth : forall X Y Z (f : X -> Y -> Z) v w l dx dy dz,
  l < length v -> l < length w -> nth l (c09_map2 f v w) dz = f (nth l v dx) (nth l w dy).
Proof.
  induction v; destruct w; simpl; intros; try lia.
  destruct l; simpl; auto. apply IHv; lia.
Qed.

Lemma c09_cond_length : forall X (m : list bool) (a b : list X),
  length (c09_cond m a b) = Nat.min (length m) (Nat.min (length a) (length b)).
Proof. induction m as [|mi m IH]; intros [|x a] [|y b]; simpl; auto. Qed.

Lemma c09_cond_nth : forall X (m : list bool) (a b : list X) l d,
  l < length m -> l < length a -> l < length b ->
  nth l (c09_cond m a b) d = if nth l m false then nth l a d else nth l b d.
Proof.
  induction m as [|mi m IH]; intros [|x a] [|y b]; simpl; intros; try lia.
  destruct l; simpl; auto. apply IH; lia.
Qed.

(* ---- every operator family is lane-wise ---- *)
Lemma P_ops_lanewise : forall (X Y Z : Type) (S : nat) (dx : X) (dy : Y) (dz : Z) (f : X -> Y -> Z) (g : X -> Z),
  c09_lanewise2 S dx dy dz (c09_map2 f) f /\
  c09_lanewise1 S dx dz (c09_map g) g /\
  (forall s, c09_lanewise1 S dx dz (fun v => c09_map_vs f v s) (fun a => f a s)) /\
  (forall s, c09_lanewise1 S dy dz (fun w => c09_map_sv f s w) (fun b => f s b)).
Proof.
  intros. unfold c09_lanewise2, c09_lanewise1, c09_lane. repeat split; intros.
  - rewrite c09_map2_length. lia.
  - apply c09_map2_nth; lia.
  - unfold c09_map. now rewrite map_length.
  - unfold c09_map. rewrite nth_indep with (d' := g dx) by (rewrite map_length; lia). apply map_nth.
  - unfold c09_map_vs. now rewrite map_length.
  - unfold c09_map_vs. rewrite nth_indep with (d' := f dx s) by (rewrite map_length; lia).
    apply (map_nth (fun a => f a s)).
  - unfold c09_map_sv. now rewrite map_length.
  - unfold c09_map_sv. rewrite nth_indep with (d' := f s dy) by (rewrite map_length; lia).
    apply (map_nth (fun b => f s b)).
Qed.

(* cond(mask, a, b) selects lane by lane *)
Lemma P_cond_lanewise : forall (X : Type) (S : nat) (d : X) (m : list bool) (a b : list X),
  length m = S -> length a = S -> length b = S ->
  length (c09_cond m a b) = S /\
  forall l, l < S -> c09_lane d l (c09_cond m a b) = if c09_lane false l m then c09_lane d l a else c09_lane d l b.
Proof.
  intros. split.
  - rewrite c09_cond_length. lia.
  - intros. unfold c09_lane. apply c09_cond_nth; lia.
Qed.

(* broadcast, implCast, compound assignment, prefix / postfix *)
Lemma P_bcast_lane : forall (X : Type) (S : nat) (x d : X) l, l < S ->
  length (c09_bcast S x) = S /\ c09_lane d l (c09_bcast S x) = x.
Proof.
  intros. unfold c09_bcast, c09_lane. split. - apply repeat_length.
  - apply nth_repeat_lt || (revert l H; induction S; intros; [lia|]; destruct l; simpl; auto; apply IHS; lia).
Qed.

Lemma P_implcast : forall (X : Type) (d : X) (S : nat) (u : list X), length u = S -> c09_implcast d S u = u.
Proof.
  intros. unfold c09_implcast. apply nth_ext with (d := d) (d' := d).
  - now rewrite c09_tab_length.
  - intros n Hn. rewrite c09_tab_length in Hn. now rewrite c09_tab_nth.
Qed.

Lemma P_sideeffects : forall (X Y : Type) (f : X -> Y -> X) (g : X -> X) v w s,
  fst (c09_assign_vv f v w) = c09_map2 f v w /\ snd (c09_assign_vv f v w) = c09_map2 f v w /\
  fst (c09_assign_vs f v s) = c09_map_vs f v s /\ snd (c09_assign_vs f v s) = c09_map_vs f v s /\
  fst (c09_prefix g v) = c09_map g v /\ snd (c09_prefix g v) = c09_map g v /\
  fst (c09_postfix g v) = v /\ snd (c09_postfix g v) = c09_map g v.
Proof. intros. repeat split. Qed.

(* mask reductions *)
Lemma c09_alltrue_acc : forall m acc, fold_left (fun out mi => andb out mi) m acc = andb acc (forallb (fun b => b) m).
Proof. induction m; simpl; intros. - now rewrite andb_true_r. - rewrite IHm. now rewrite andb_assoc. Qed.
Lemma c09_anytrue_acc : forall m acc, fold_left (fun out mi => orb out mi) m acc = orb acc (existsb (fun b => b) m).
Proof. induction m; simpl; intros. - now rewrite orb_false_r. - rewrite IHm. now rewrite orb_assoc. Qed.

Lemma c09_alltrue_spec : forall m, c09_alltrue m = true <-> (forall l, l < length m -> nth l m false = true).
Proof.
  intros. unfold c09_alltrue. rewrite c09_alltrue_acc. simpl. rewrite forallb_forall. split.
  - intros H l Hl. apply H. now apply nth_In.
  - intros H x Hx. destruct (In_nth _ _ false Hx) as [l [Hl E]]. rewrite <- E. now apply H.
Qed.
Lemma c09_anytrue_spec : forall m, c09_anytrue m = true <-> (exists l, l < length m /\ nth l m false = true).
Proof.
  intros. unfold c09_anytrue. rewrite c09_anytrue_acc. simpl. rewrite existsb_exists. split.
  - intros [x [Hx E]]. destruct (In_nth _ _ false Hx) as [l [Hl E2]]. exists l. split; auto. now rewrite E2.
  - intros [l [Hl E]]. exists (nth l m false). split; auto. now apply nth_In.
Qed.

Lemma c09_anyfalse_acc : forall m acc, fold_left (fun out mi => orb out (negb mi)) m acc = orb acc (negb (forallb (fun b => b) m)).
Proof.
  induction m; simpl; intros. - now rewrite orb_false_r.
  - rewrite IHm. destruct a, acc; simpl; auto.
Qed.
Lemma c09_allfalse_acc : forall m acc, fold_left (fun out mi => andb out (negb mi)) m acc = andb acc (negb (existsb (fun b => b) m)).
Proof.
  induction m; simpl; intros. - now rewrite andb_true_r.
  - rewrite IHm. destruct a, acc; simpl; auto.
Qed.

Lemma P_reductions : forall m : list bool,
  (c09_anytrue m = true <-> exists l, l < length m /\ c09_lane false l m = true) /\
  (c09_alltrue m = true <-> forall l, l < length m -> c09_lane false l m = true) /\
  c09_anyfalse m = negb (c09_alltrue m) /\
  c09_allfalse m = negb (c09_anytrue m).
Proof.
  intros. repeat split; try apply c09_anytrue_spec; try apply c09_alltrue_spec.
  - unfold c09_anyfalse, c09_alltrue. now rewrite c09_anyfalse_acc, c09_alltrue_acc.
  - unfold c09_allfalse, c09_anytrue. now rewrite c09_allfalse_acc, c09_anytrue_acc.
Qed.

(* nested SIMD: flat lane l of LoopSIMD<LoopSIMD<T,m>,S> is element l of the memory-order concatenation;
   the div / mod of loop.hh stay in range *)
Lemma P_nested_lane : forall (X : Type) (d : X) (m : nat) (v : list (list X)) (l : nat),
  (forall x, In x v -> length x = m) -> l < c09_nested_lanes (length v) m ->
  c09_nested_lane d m l v = nth l (concat v) d /\ l / m < length v /\ l mod m < m.
Proof.
  intros X d m. unfold c09_nested_lanes, c09_nested_lane, c09_lane.
  induction v as [|x v IH]; intros l Hlen Hl; simpl in *; [lia|].
  assert (Hm : m <> 0) by (intro E; rewrite E, Nat.mul_0_r in Hl; lia).
  assert (Hx : length x = m) by (apply Hlen; auto).
  destruct (lt_dec l m) as [Hs|Hb].
  - rewrite Nat.div_small, Nat.mod_small by lia. rewrite app_nth1 by lia. repeat split; lia.
  - destruct (IH (l - m)) as [E [B1 B2]]; [intros; apply Hlen; auto | lia |].
    assert (El : l = (l - m) + 1 * m) by lia.
    remember (l - m) as q. rewrite El. clear El Heqq Hl Hb.
    rewrite Nat.div_add, Nat.mod_add by lia.
    replace (q / m + 1) with (S (q / m)) by lia.
    rewrite app_nth2 by lia. rewrite Hx. replace (q + 1 * m - m) with q by lia.
    simpl. rewrite E. repeat split; lia.
Qed.

(* the S-lane restrictions used by the LU model are the plain LoopSIMD operators on S-lane operands *)
Lemma P_vops_are_ops : forall (X Y Z : Type) (W : nat) (dx : X) (dy : Y) (f : X -> Y -> Z) (g : X -> Y)
                              (a : list X) (b : list Y) (m : list bool) (c : list X),
  length a = W -> length b = W -> length m = W -> length c = W ->
  c09_vmap2 W dx dy f a b = c09_map2 f a b /\ c09_vmap W dx g a = c09_map g a /\
  c09_vcond W dx m a c = c09_cond m a c /\ c09_vbcast W dx = c09_bcast W dx.
Proof.
  intros. repeat split.
  - destruct W.
    + destruct a, b; simpl in *; try discriminate; reflexivity.
    + apply nth_ext with (d := f dx dy) (d' := f dx dy).
      * unfold c09_vmap2. rewrite c09_tab_length, c09_map2_length. lia.
      * intros n Hn. unfold c09_vmap2 in *. rewrite c09_tab_length in Hn. rewrite c09_tab_nth by lia.
        symmetry. apply c09_map2_nth; lia.
  - unfold c09_vmap, c09_map. apply nth_ext with (d := g dx) (d' := g dx).
    + rewrite c09_tab_length, map_length. lia.
    + intros n Hn. rewrite c09_tab_length in Hn. rewrite c09_tab_nth by lia. now rewrite map_nth.
  - apply nth_ext with (d := dx) (d' := dx).
    + unfold c09_vcond. rewrite c09_tab_length, c09_cond_length. lia.
    + intros n Hn. unfold c09_vcond in *. rewrite c09_tab_length in Hn. rewrite c09_tab_nth by lia.
      symmetry. apply c09_cond_nth; lia.
  - unfold c09_vbcast, c09_bcast, c09_tab. clear. generalize 0. induction W; simpl; intros; auto. now rewrite IHW.
Qed.

(* ---- trait forwarding over the type grammar: for EVERY lane count S and EVERY alignment A at every nesting level ---- *)
Lemma c09_ty_eqb_refl : forall t, c09_ty_eqb t t = true.
Proof. induction t; simpl. - now rewrite Nat.eqb_refl, !eqb_reflx. - now rewrite !Nat.eqb_refl, IHt. Qed.

Lemma P_traits_forward : forall (t u : c09_ty), (exists i h n, u = C09_TScalar i h n) ->
  c09_ty_hasnan t = c09_ty_hasnan (c09_ty_scalar t) /\
  c09_ty_isnumber t = c09_ty_isnumber (c09_ty_scalar t) /\
  (forall S A, c09_ty_hasnan (C09_TSimd S A t) = c09_ty_hasnan t /\ c09_ty_isnumber (C09_TSimd S A t) = c09_ty_isnumber t /\
               c09_ty_lanes (C09_TSimd S A t) = S * c09_ty_lanes t /\ c09_ty_scalar (C09_TSimd S A t) = c09_ty_scalar t /\
               c09_ty_rebind u (C09_TSimd S A t) = C09_TSimd S A (c09_ty_rebind u t)) /\
  c09_ty_lanes (c09_ty_rebind u t) = c09_ty_lanes t /\
  c09_ty_scalar (c09_ty_rebind u t) = u /\
  c09_ty_hasnan (c09_ty_rebind u t) = c09_ty_hasnan u /\
  c09_ty_isnumber (c09_ty_rebind u t) = c09_ty_isnumber u /\
  c09_ty_rebind (c09_ty_scalar t) t = t /\
  c09_ty_rebind (c09_ty_scalar t) (c09_ty_rebind u t) = t /\
  (exists i h n, c09_ty_scalar t = C09_TScalar i h n).
Proof.
  intros t u [i [h [n E]]]. subst u.
  induction t as [j k m|S A t IH]; simpl.
  - repeat split; eauto.
  - destruct IH as [H1 [H2 [_ [H4 [H5 [H6 [H7 [H8 [H9 H10]]]]]]]]].
    repeat split; auto; try congruence.
Qed.

(* ---- compound assignment with an aliased scalar operand: by-value (the code) versus by-reference ---- *)
Lemma c09_list_upd_length : forall X i (x : X) v, length (c09_list_upd i x v) = length v.
Proof. induction i; destruct v; simpl; auto. Qed.

Lemma c09_list_upd_nth : forall X i (x d : X) v l, i < length v -> nth l (c09_list_upd i x v) d = if l =? i then x else nth l v d.
Proof.
  induction i; destruct v; simpl; intros; try lia.
  - destruct l; reflexivity.
  - destruct l; simpl; auto. apply IHi. lia.
Qed.

Lemma P_assign_alias_snapshot : forall (X : Type) (f : X -> X -> X) (d : X) (v : list X) (k l : nat), l < length v ->
  length (fst (c09_assign_vs_lane f d v k)) = length v /\
  snd (c09_assign_vs_lane f d v k) = fst (c09_assign_vs_lane f d v k) /\
  c09_lane d l (fst (c09_assign_vs_lane f d v k)) = f (c09_lane d l v) (c09_lane d k v).
Proof.
  intros. unfold c09_assign_vs_lane, c09_assign_vs, c09_map_vs, c09_lane. simpl. repeat split.
  - now rewrite map_length.
  - rewrite nth_indep with (d' := f d (nth k v d)) by (rewrite map_length; lia).
    apply (map_nth (fun a => f a (nth k v d))).
Qed.

Lemma P_assign_byref_lanes : forall (X : Type) (f : X -> X -> X) (d : X) (v : list X) (k l : nat), k < length v -> l < length v ->
  c09_lane d l (c09_assign_vs_lane_byref f d v k) =
  if l <=? k then f (c09_lane d l v) (c09_lane d k v) else f (c09_lane d l v) (f (c09_lane d k v) (c09_lane d k v)).
Proof.
  intros X f d v k l Hk Hl. unfold c09_assign_vs_lane_byref, c09_lane.
  assert (INV : forall j, j <= length v ->
            let w := fold_left (fun w i => c09_list_upd i (f (nth i w d) (nth k w d)) w) (seq 0 j) v in
            length w = length v /\
            forall l, nth l w d = if l <? j then (if l <=? k then f (nth l v d) (nth k v d) else f (nth l v d) (f (nth k v d) (nth k v d)))
                                  else nth l v d).
  { induction j; intros Hj.
    - simpl. split; auto.
    - rewrite seq_S, fold_left_app. simpl.
      destruct (IHj ltac:(lia)) as [L N]. cbv zeta in *.
      set (w := fold_left (fun w i => c09_list_upd i (f (nth i w d) (nth k w d)) w) (seq 0 j) v) in *.
      split. { now rewrite c09_list_upd_length. }
      intros l0. rewrite c09_list_upd_nth by lia. rewrite !N.
      destruct (l0 =? j) eqn:E.
      + apply Nat.eqb_eq in E. subst l0.
        replace (j <? S j) with true by (symmetry; apply Nat.ltb_lt; lia).
        replace (j <? j) with false by (symmetry; apply Nat.ltb_ge; lia).
        destruct (k <? j) eqn:Ek.
        * apply Nat.ltb_lt in Ek. replace (k <=? k) with true by (symmetry; apply Nat.leb_le; lia).
          replace (j <=? k) with false by (symmetry; apply Nat.leb_gt; lia). reflexivity.
        * apply Nat.ltb_ge in Ek. replace (j <=? k) with true by (symmetry; apply Nat.leb_le; lia). reflexivity.
      + apply Nat.eqb_neq in E. destruct (l0 <? j) eqn:E2.
        * apply Nat.ltb_lt in E2. replace (l0 <? S j) with true by (symmetry; apply Nat.ltb_lt; lia). reflexivity.
        * apply Nat.ltb_ge in E2. replace (l0 <? S j) with false by (symmetry; apply Nat.ltb_ge; lia). reflexivity. }
  destruct (INV (length v) (le_n _)) as [_ N]. cbv zeta in N. rewrite N.
  replace (l <? length v) with true by (symmetry; apply Nat.ltb_lt; lia). reflexivity.
Qed.

(* ---- mixed vector-scalar forms are the vector-vector forms on the broadcast scalar ---- *)
Lemma c09_map2_bcast_r : forall X Y Z (f : X -> Y -> Z) v s, c09_map2 f v (c09_bcast (length v) s) = c09_map_vs f v s.
Proof. unfold c09_bcast, c09_map_vs. induction v; simpl; intros; auto. now rewrite IHv. Qed.
Lemma c09_map2_bcast_l : forall X Y Z (f : X -> Y -> Z) s w, c09_map2 f (c09_bcast (length w) s) w = c09_map_sv f s w.
Proof. unfold c09_bcast, c09_map_sv. induction w; simpl; intros; auto. now rewrite IHw. Qed.

Lemma P_scalar_forms_are_broadcast : forall (X Y Z : Type) (f : X -> Y -> Z) (g : X -> Y -> X) (v : list X) (w : list Y) (sx : X) (sy : Y),
  c09_map_vs f v sy = c09_map2 f v (c09_bcast (c09_lanes v) sy) /\
  c09_map_sv f sx w = c09_map2 f (c09_bcast (c09_lanes w) sx) w /\
  c09_assign_vs g v sy = c09_assign_vv g v (c09_bcast (c09_lanes v) sy).
Proof.
  intros. unfold c09_lanes, c09_assign_vs, c09_assign_vv. repeat split.
  - now rewrite c09_map2_bcast_r.
  - now rewrite c09_map2_bcast_l.
  - now rewrite c09_map2_bcast_r.
Qed.

(* ---- cond(bool, ...), mask(), maskOr / maskAnd, implCast lane by lane ---- *)
Lemma P_interface_lanes : forall (X Y : Type) (dx : X) (dy : Y) (nx : X -> bool) (ny : Y -> bool) (v : list X) (w : list Y) (a b : list X) (m : bool) (S l : nat),
  length v = S -> length w = S -> l < S ->
  c09_lane dx l (c09_cond_bool m a b) = (if m then c09_lane dx l a else c09_lane dx l b) /\
  c09_lanes (c09_mask nx v) = S /\ c09_lane false l (c09_mask nx v) = nx (c09_lane dx l v) /\
  c09_lanes (c09_maskor nx ny v w) = S /\ c09_lane false l (c09_maskor nx ny v w) = nx (c09_lane dx l v) || ny (c09_lane dy l w) /\
  c09_lanes (c09_maskand nx ny v w) = S /\ c09_lane false l (c09_maskand nx ny v w) = nx (c09_lane dx l v) && ny (c09_lane dy l w) /\
  c09_lane dx l (c09_implcast dx S v) = c09_lane dx l v.
Proof.
  intros X Y dx dy nx ny v w a b m S l Hv Hw Hl. unfold c09_lane, c09_lanes, c09_cond_bool, c09_maskor, c09_maskand, c09_mask, c09_implcast.
  assert (E1 : forall l, l < S -> nth l (map nx v) false = nx (nth l v dx)).
  { intros. rewrite nth_indep with (d' := nx dx) by (rewrite map_length; lia). apply map_nth. }
  assert (E2 : forall l, l < S -> nth l (map ny w) false = ny (nth l w dy)).
  { intros. rewrite nth_indep with (d' := ny dy) by (rewrite map_length; lia). apply map_nth. }
  repeat split.
  - now destruct m.
  - now rewrite map_length.
  - now apply E1.
  - rewrite c09_map2_length, !map_length. lia.
  - rewrite c09_map2_nth with (dx := false) (dy := false) by (rewrite map_length; lia). now rewrite E1, E2.
  - rewrite c09_map2_length, !map_length. lia.
  - rewrite c09_map2_nth with (dx := false) (dy := false) by (rewrite map_length; lia). now rewrite E1, E2.
  - now rewrite c09_tab_nth.
Qed.

(* ---- nested SIMD: every operator / reduction on LoopSIMD<LoopSIMD<T,m>,S> is the flat one on the S*m lanes in memory order ---- *)
Lemma c09_nested_map2_concat : forall X Y Z (f : X -> Y -> Z) v w, Forall2 (fun a b => length a = length b) v w ->
  concat (c09_nested_map2 f v w) = c09_map2 f (concat v) (concat w).
Proof.
  intros X Y Z f. unfold c09_nested_map2. induction 1 as [|a b v w E F IH]; simpl; auto.
  rewrite IH. clear -E. revert b E. induction a; destruct b; simpl; intros; try discriminate; auto.
  injection E as E. now rewrite IHa.
Qed.

Lemma c09_anytrue_app : forall a b, c09_anytrue (a ++ b) = c09_anytrue a || c09_anytrue b.
Proof. intros. unfold c09_anytrue. rewrite !c09_anytrue_acc. simpl. now rewrite existsb_app. Qed.
Lemma c09_alltrue_app : forall a b, c09_alltrue (a ++ b) = c09_alltrue a && c09_alltrue b.
Proof. intros. unfold c09_alltrue. rewrite !c09_alltrue_acc. simpl. now rewrite forallb_app. Qed.

Lemma P_nested_ops : forall (X Y Z : Type) (f : X -> Y -> Z) (d : X) (m : nat) (v : list (list X)) (w : list (list Y)) (k : list (list bool)),
  Forall2 (fun a b => length a = length b) v w -> (forall x, In x v -> length x = m) ->
  concat (c09_nested_map2 f v w) = c09_map2 f (concat v) (concat w) /\
  c09_nested_all_lanes d m v = concat v /\
  c09_nested_anytrue k = c09_anytrue (concat k) /\
  c09_nested_alltrue k = c09_alltrue (concat k) /\
  c09_nested_lanes (length v) m = length (concat v).
Proof.
  intros X Y Z f d m v w k F Hm.
  assert (L : length (concat v) = length v * m).
  { clear F. induction v; simpl; auto. rewrite app_length, IHv by (intros; apply Hm; simpl; auto). rewrite (Hm a) by (simpl; auto). lia. }
  repeat split.
  - now apply c09_nested_map2_concat.
  - unfold c09_nested_all_lanes. apply nth_ext with (d := d) (d' := d).
    + rewrite c09_tab_length. unfold c09_nested_lanes. lia.
    + intros n Hn. rewrite c09_tab_length in Hn. rewrite c09_tab_nth by assumption. now apply P_nested_lane.
  - unfold c09_nested_anytrue. assert (G : forall acc, fold_left (fun out mi => out || c09_anytrue mi) k acc = acc || c09_anytrue (concat k)).
    { induction k as [|a k IH]; simpl; intros. - unfold c09_anytrue. simpl. now rewrite orb_false_r.
      - rewrite IH, c09_anytrue_app. now rewrite orb_assoc. }
    now rewrite G.
  - unfold c09_nested_alltrue. assert (G : forall acc, fold_left (fun out mi => out && c09_alltrue mi) k acc = acc && c09_alltrue (concat k)).
    { induction k as [|a k IH]; simpl; intros. - unfold c09_alltrue. simpl. now rewrite andb_true_r.
      - rewrite IH, c09_alltrue_app. now rewrite andb_assoc. }
    now rewrite G.
  - unfold c09_nested_lanes. lia.
Qed.

(* broadcast into a nested type (LoopSIMD(Scalar<T> i): fill(i), recursively): all S*m lanes are the scalar *)
Lemma P_nested_bcast : forall (X : Type) (S m : nat) (x : X), concat (c09_bcast S (c09_bcast m x)) = c09_bcast (S * m) x.
Proof. intros. unfold c09_bcast. induction S; simpl; auto. rewrite IHS. now rewrite repeat_app. Qed.

(* ---- horizontal max / min of defaults.hh ---- *)
Lemma c09_hmax_fold_in : forall X (lt : X -> X -> bool) l m, In (fold_left (fun m x => if lt m x then x else m) l m) (m :: l).
Proof.
  induction l; simpl; intros; auto. destruct (IHl (if lt m a then a else m)) as [E|I]; auto.
  rewrite <- E. destruct (lt m a); auto.
Qed.

(* the result is one of the lanes; and when `<` behaves like a strict weak order on the lanes (no NaN) no lane is greater.
   With NaN lanes only the fold itself (the model) characterises the result: C09_example_hmax_nan *)
Lemma c09_hmax_fold_max : forall X (lt : X -> X -> bool),
  (forall a b c, lt a b = false -> lt a c = true -> lt c b = false) -> (forall a, lt a a = false) ->
  forall l m (Q : X -> Prop), (forall x, Q x -> lt m x = false) ->
    let r := fold_left (fun m x => if lt m x then x else m) l m in
    (forall x, Q x -> lt r x = false) /\ (forall x, In x l -> lt r x = false).
Proof.
  intros X lt Htr Hirr. induction l as [|y l IH]; simpl; intros m Q HQ.
  - split; auto. intros x [].
  - set (m' := if lt m y then y else m).
    assert (HQ' : forall x, (Q x \/ x = y) -> lt m' x = false).
    { intros x [Hx|Hx]; unfold m'; destruct (lt m y) eqn:E.
      - apply Htr with (a := m); auto.
      - auto.
      - subst x. apply Hirr.
      - subst x. exact E. }
    destruct (IH m' (fun x => Q x \/ x = y) HQ') as [A B]. split.
    + intros x Hx. apply A. auto.
    + intros x [Hx|Hx]; [apply A; auto | apply B; auto].
Qed.

Lemma P_hmax : forall (X : Type) (lt : X -> X -> bool) (d : X) (v : list X), v <> [] ->
  In (c09_hmax lt d v) v /\
  ((forall a b c, lt a b = false -> lt a c = true -> lt c b = false) -> (forall a, lt a a = false) ->
   forall x, In x v -> lt (c09_hmax lt d v) x = false).
Proof.
  intros X lt d v Hne. destruct v as [|a v]; [congruence|]. unfold c09_hmax. simpl. split.
  - apply c09_hmax_fold_in.
  - intros Htr Hirr x Hx.
    destruct (c09_hmax_fold_max X lt Htr Hirr v a (fun x => x = a)) as [A B].
    + intros y Hy. subst y. apply Hirr.
    + destruct Hx as [E|I]; [apply A; auto | apply B; auto].
Qed.

(* min(v): the same loop with the comparison turned round *)
Lemma P_hmin_is_hmax : forall (X : Type) (lt : X -> X -> bool) (d : X) (v : list X),
  c09_hmin lt d v = c09_hmax (fun a b => lt b a) d v.
Proof. reflexivity. Qed.

Lemma P_horizontal_max_min : forall (X : Type) (lt : X -> X -> bool) (d : X) (v : list X), v <> [] ->
  In (c09_hmax lt d v) v /\
  ((forall a b c, lt a b = false -> lt a c = true -> lt c b = false) -> (forall a, lt a a = false) ->
   forall x, In x v -> lt (c09_hmax lt d v) x = false) /\
  c09_hmin lt d v = c09_hmax (fun a b => lt b a) d v.
Proof. intros X lt d v H. destruct (P_hmax X lt d v H) as [A B]. exact (conj A (conj B (P_hmin_is_hmax X lt d v))). Qed.

(* special members: a copy (copy / move construction, assignment, self-assignment, alignment conversion) has the source's lanes and lane count and
   leaves the source as it was; swap exchanges; assigning the own lane k broadcasts the ORIGINAL lane k *)
Lemma P_special_members : forall (X : Type) (d : X) (v w : list X) (k l : nat),
  fst (c09_copy v) = v /\ snd (c09_copy v) = v /\ c09_lanes (fst (c09_copy v)) = c09_lanes v /\
  fst (c09_swap v w) = w /\ snd (c09_swap v w) = v /\
  (l < c09_lanes v -> c09_lane d l (c09_bcast (c09_lanes v) (c09_lane d k v)) = c09_lane d k v).
Proof.
  intros. unfold c09_copy, c09_swap, c09_lanes, c09_lane. simpl. repeat split.
  intros H. apply (proj2 (P_bcast_lane X (length v) (nth k v d) d l H)).
Qed.
