(* C09 — proofs, part 2: the S-lane dense LU commutes with taking a lane. *)
From Coq Require Import List Arith Bool Lia.
From DuneV Require Import Params_gen C09_Model C09_Spec C09_Proofs.
Import ListNotations.

(* ------------------------------------------------------------------------------------------ *)
(* The generic straight-line parts commute with every homomorphism of the carrier operations  *)
(* ------------------------------------------------------------------------------------------ *)
Section Hom.
  Variables X Y : Type.
  Variables (xsub xmul xdiv : X -> X -> X) (xzero xone : X).
  Variables (ysub ymul ydiv : Y -> Y -> Y) (yzero yone : Y).
  Variable h : X -> Y.
  Hypothesis h_sub : forall a b, h (xsub a b) = ysub (h a) (h b).
  Hypothesis h_mul : forall a b, h (xmul a b) = ymul (h a) (h b).
  Hypothesis h_div : forall a b, h (xdiv a b) = ydiv (h a) (h b).
  Hypothesis h_zero : h xzero = yzero.
  Hypothesis h_one : h xone = yone.

  Let hm (A : list (list X)) : list (list Y) := map (map h) A.

  Lemma hom_get : forall A r c, h (c09_g_get X xzero A r c) = c09_g_get Y yzero (hm A) r c.
  Proof.
    intros. unfold c09_g_get, hm.
    change (@nil Y) with (map h []). rewrite map_nth. rewrite <- h_zero. now rewrite map_nth.
  Qed.

  Lemma hom_vget : forall x r, h (c09_g_vget X xzero x r) = c09_g_vget Y yzero (map h x) r.
  Proof. intros. unfold c09_g_vget. rewrite <- h_zero. now rewrite map_nth. Qed.

  Lemma hom_row : forall (A : list (list X)) r, map h (nth r A []) = nth r (hm A) [].
  Proof. intros. unfold hm. change (@nil Y) with (map h []). now rewrite map_nth. Qed.

  Lemma hom_factor : forall A i k, h (c09_g_factor X xdiv xzero A i k) = c09_g_factor Y ydiv yzero (hm A) i k.
  Proof. intros. unfold c09_g_factor. now rewrite h_div, !hom_get. Qed.

  Lemma hom_elimA : forall n A i, hm (c09_g_elimA X xsub xmul xdiv xzero n A i) = c09_g_elimA Y ysub ymul ydiv yzero n (hm A) i.
  Proof.
    intros. unfold c09_g_elimA. unfold hm at 1. rewrite c09_map_tab. apply c09_tab_ext. intros k _.
    rewrite c09_map_tab. apply c09_tab_ext. intros j _.
    destruct (i <? k); [destruct (j =? i); [|destruct (i <? j)]|];
      rewrite ?h_sub, ?h_mul, ?hom_factor, ?hom_get; reflexivity.
  Qed.

  Lemma hom_elimrhs : forall n A rhs i,
    map h (c09_g_elimrhs X xsub xmul xdiv xzero n A rhs i) = c09_g_elimrhs Y ysub ymul ydiv yzero n (hm A) (map h rhs) i.
  Proof.
    intros. unfold c09_g_elimrhs. rewrite c09_map_tab. apply c09_tab_ext. intros k _.
    destruct (i <? k); rewrite ?h_sub, ?h_mul, ?hom_factor, ?hom_vget; reflexivity.
  Qed.

  Lemma hom_upd : forall n i v x, map h (c09_g_upd X xzero n i v x) = c09_g_upd Y yzero n i (h v) (map h x).
  Proof.
    intros. unfold c09_g_upd. rewrite c09_map_tab. apply c09_tab_ext. intros r _.
    destruct (r =? i); auto. apply hom_vget.
  Qed.

  Lemma hom_updrow : forall n i row A, hm (c09_g_updrow X n i row A) = c09_g_updrow Y n i (map h row) (hm A).
  Proof.
    intros. unfold c09_g_updrow. unfold hm at 1. rewrite c09_map_tab. apply c09_tab_ext. intros r _.
    destruct (r =? i); auto. apply hom_row.
  Qed.

  Lemma hom_rowacc : forall A i js x acc,
    h (c09_g_rowacc X xsub xmul xzero A i js x acc) = c09_g_rowacc Y ysub ymul yzero (hm A) i js (map h x) (h acc).
  Proof.
    induction js; simpl; intros; auto.
    rewrite IHjs. now rewrite h_sub, h_mul, hom_get, hom_vget.
  Qed.

  Lemma hom_backsolve : forall n A rows x,
    map h (c09_g_backsolve X xsub xmul xdiv xzero n A rows x) = c09_g_backsolve Y ysub ymul ydiv yzero n (hm A) rows (map h x).
  Proof.
    induction rows; simpl; intros; auto.
    rewrite IHrows. f_equal. rewrite hom_upd. f_equal.
    now rewrite h_div, hom_rowacc, hom_get, hom_vget.
  Qed.

  Lemma hom_identity : forall n, hm (c09_g_identity X xzero xone n) = c09_g_identity Y yzero yone n.
  Proof.
    intros. unfold c09_g_identity. unfold hm. rewrite c09_map_tab. apply c09_tab_ext. intros i _.
    rewrite c09_map_tab. apply c09_tab_ext. intros k _. destruct (i =? k); auto.
  Qed.

  Lemma hom_colacc : forall A M i k js acc,
    h (c09_g_colacc X xsub xmul xzero A M i k js acc) = c09_g_colacc Y ysub ymul yzero (hm A) (hm M) i k js (h acc).
  Proof.
    induction js; simpl; intros; auto.
    rewrite IHjs. now rewrite h_sub, h_mul, !hom_get.
  Qed.

  Lemma hom_lower : forall n A rows M,
    hm (c09_g_lower X xsub xmul xzero n A rows M) = c09_g_lower Y ysub ymul yzero n (hm A) rows (hm M).
  Proof.
    induction rows; simpl; intros; auto.
    rewrite IHrows. f_equal. rewrite hom_updrow. f_equal.
    rewrite c09_map_tab. apply c09_tab_ext. intros k _. now rewrite hom_colacc, hom_get.
  Qed.

  Lemma hom_upper : forall n A rows M,
    hm (c09_g_upper X xsub xmul xdiv xzero n A rows M) = c09_g_upper Y ysub ymul ydiv yzero n (hm A) rows (hm M).
  Proof.
    induction rows; simpl; intros; auto.
    rewrite IHrows. f_equal. rewrite hom_updrow. f_equal.
    rewrite c09_map_tab. apply c09_tab_ext. intros k _. now rewrite h_div, hom_colacc, !hom_get.
  Qed.

  Lemma hom_invert_tri : forall n A,
    hm (c09_g_invert_tri X xsub xmul xdiv xzero xone n A) = c09_g_invert_tri Y ysub ymul ydiv yzero yone n (hm A).
  Proof. intros. unfold c09_g_invert_tri. now rewrite hom_upper, hom_lower, hom_identity. Qed.

  Lemma hom_detprod : forall n A d, h (c09_g_detprod X xmul xzero n A d) = c09_g_detprod Y ymul yzero n (hm A) (h d).
  Proof.
    intros n A. unfold c09_g_detprod. generalize (seq 0 n). induction l; simpl; intros; auto.
    rewrite IHl. now rewrite h_mul, hom_get.
  Qed.
End Hom.

Section Lanes.
  Variables T U : Type.
  Variables sub mul div : T -> T -> T.
  Variable absr : T -> U.
  Variable gt : U -> U -> bool.
  Variable nz : U -> bool.
  Variables zero one mone : T.
  Variable W : nat.
  Variable l : nat.
  Hypothesis l_lt : l < W.

  Notation dU := (c09_dU T U absr zero).
  Notation hl := (fun v : list T => nth l v zero).
  Notation LV := (c09_lane_vec T zero l).
  Notation LM := (c09_lane_mat T zero l).
  Notation LS := (c09_lane_st T zero l).
  Notation vzero := (c09_vzero T zero W).
  Notation sget := (c09_sget T zero).
  Notation vget := (c09_vget T zero W).

  Lemma lane_vmap : forall X Y (dx : X) (dy : Y) (f : X -> Y) a, nth l (c09_vmap W dx f a) dy = f (nth l a dx).
  Proof. intros. unfold c09_vmap. now rewrite c09_tab_nth. Qed.
  Lemma lane_vmap2 : forall X Y Z (dx : X) (dy : Y) (dz : Z) (f : X -> Y -> Z) a b,
    nth l (c09_vmap2 W dx dy f a b) dz = f (nth l a dx) (nth l b dy).
  Proof. intros. unfold c09_vmap2. now rewrite c09_tab_nth. Qed.
  Lemma lane_vcond : forall X (dx d : X) m a b, nth l (c09_vcond W dx m a b) d = if nth l m false then nth l a dx else nth l b dx.
  Proof. intros. unfold c09_vcond. now rewrite c09_tab_nth. Qed.
  Lemma lane_vbcast : forall X (x d : X), nth l (c09_vbcast W x) d = x.
  Proof. intros. unfold c09_vbcast. now rewrite c09_tab_nth. Qed.

  Lemma lane_vsub : forall a b, hl (c09_vsub T sub zero W a b) = sub (hl a) (hl b).
  Proof. intros. unfold c09_vsub. apply lane_vmap2. Qed.
  Lemma lane_vmul : forall a b, hl (c09_vmul T mul zero W a b) = mul (hl a) (hl b).
  Proof. intros. unfold c09_vmul. apply lane_vmap2. Qed.
  Lemma lane_vdiv : forall a b, hl (c09_vdiv T div zero W a b) = div (hl a) (hl b).
  Proof. intros. unfold c09_vdiv. apply lane_vmap2. Qed.
  Lemma lane_vzero : hl vzero = zero.
  Proof. unfold c09_vzero. apply lane_vbcast. Qed.
  Lemma lane_vone : hl (c09_vone T one W) = one.
  Proof. unfold c09_vone. apply lane_vbcast. Qed.

  Lemma lane_get : forall A r c, nth l (vget A r c) zero = sget (LM A) r c.
  Proof. intros. unfold c09_vget, c09_sget, c09_lane_mat, c09_lane_vec. apply (hom_get (list T) T vzero zero hl lane_vzero). Qed.

  Lemma lane_vecnth : forall (x : list (list T)) r, nth l (nth r x []) zero = nth r (LV x) zero.
  Proof.
    intros. unfold c09_lane_vec.
    assert (E : zero = hl []) by (destruct l; reflexivity).
    rewrite E at 2. now rewrite (map_nth hl).
  Qed.

  Lemma lane_pivnth : forall (p : list (list nat)) r, nth l (nth r p []) 0 = nth r (map (fun v => nth l v 0) p) 0.
  Proof.
    intros. assert (E : 0 = (fun v => nth l v 0) []) by (destruct l; reflexivity).
    rewrite E at 2. now rewrite (map_nth (fun v => nth l v 0)).
  Qed.

  (* ---- pivot search ---- *)
  Lemma lane_pivsearch : forall A i ks pivmax imax,
    let r := c09_v_pivsearch T U absr gt zero W A i ks pivmax imax in
    (nth l (fst r) dU, nth l (snd r) 0) =
    c09_s_pivsearch T U absr gt zero (LM A) i ks (nth l pivmax dU) (nth l imax 0).
  Proof.
    induction ks; simpl; intros; auto.
    rewrite IHks. rewrite !lane_vcond, !lane_vmap2, !lane_vmap, lane_vbcast, lane_get. reflexivity.
  Qed.

  Lemma lane_swaprows : forall n A i imax,
    LM (c09_v_swaprows T zero W n A i imax) = c09_s_swaprows T zero n (LM A) i (nth l imax 0).
  Proof.
    intros. unfold c09_v_swaprows, c09_s_swaprows. unfold c09_lane_mat at 1. rewrite c09_map_tab.
    apply c09_tab_ext. intros r _. unfold c09_lane_vec at 1. rewrite c09_map_tab. apply c09_tab_ext. intros c _.
    rewrite c09_tab_nth by exact l_lt. rewrite !lane_get. reflexivity.
  Qed.

  Lemma lane_swapvec : forall n x i imax,
    LV (c09_v_swapvec T zero W n x i imax) = c09_s_swapvec T zero n (LV x) i (nth l imax 0).
  Proof.
    intros. unfold c09_v_swapvec, c09_s_swapvec. unfold c09_lane_vec at 1. rewrite c09_map_tab.
    apply c09_tab_ext. intros r _. rewrite c09_tab_nth by exact l_lt. rewrite !lane_vecnth. reflexivity.
  Qed.

  (* ---- first half of the loop body ---- *)
  Lemma lane_pivot_step : forall dp n i st,
    LS (c09_v_pivot_step T U mul absr gt nz zero one mone W dp n i st) =
    c09_s_pivot_step T U mul absr gt nz zero one mone dp n i (LS st).
  Proof.
    intros. unfold c09_v_pivot_step, c09_s_pivot_step. destruct dp.
    - pose proof (lane_pivsearch (c09_vA T st) i (seq (S i) (n - S i))
                    (c09_vmap W zero absr (vget (c09_vA T st) i i)) (c09_vbcast W i)) as P.
      cbv zeta in P. rewrite lane_vmap, lane_vbcast, lane_get in P.
      unfold c09_lane_st at 1. simpl.
      remember (c09_v_pivsearch T U absr gt zero W (c09_vA T st) i (seq (S i) (n - S i))
                  (c09_vmap W zero absr (vget (c09_vA T st) i i)) (c09_vbcast W i)) as pm.
      unfold c09_lane_st; simpl.
      rewrite <- P. simpl.
      rewrite lane_swaprows, lane_swapvec. f_equal.
      + rewrite c09_map_tab. apply c09_tab_ext. intros r _.
        destruct (r =? i); [|apply lane_pivnth].
        rewrite lane_vcond, lane_vmap2, lane_vbcast. rewrite lane_pivnth. reflexivity.
      + unfold c09_vmul. rewrite lane_vmap2, lane_vcond, lane_vmap2, !lane_vbcast. reflexivity.
      + rewrite lane_vmap2, lane_vmap. reflexivity.
    - unfold c09_lane_st; simpl. f_equal.
      rewrite lane_vmap2, lane_vmap, lane_vmap, lane_get. reflexivity.
  Qed.

  Lemma lane_elim : forall n i st,
    LS (c09_v_elim T sub mul div zero W n i st) = c09_s_elim T sub mul div zero n i (LS st).
  Proof.
    intros. unfold c09_v_elim, c09_s_elim, c09_lane_st; simpl. f_equal.
    - unfold c09_lane_mat, c09_lane_vec.
      apply (hom_elimA (list T) T _ _ _ vzero sub mul div zero hl lane_vsub lane_vmul lane_vdiv lane_vzero).
    - unfold c09_lane_mat, c09_lane_vec.
      apply (hom_elimrhs (list T) T _ _ _ vzero sub mul div zero hl lane_vsub lane_vmul lane_vdiv lane_vzero).
  Qed.
End Lanes.

Section Loops.
  Variables T U : Type.
  Variables sub mul div : T -> T -> T.
  Variable absr : T -> U.
  Variable gt : U -> U -> bool.
  Variable nz : U -> bool.
  Variables zero one mone : T.
  Variable W : nat.

  Notation LV := (c09_lane_vec T zero).
  Notation LM := (c09_lane_mat T zero).
  Notation LS := (c09_lane_st T zero).
  Notation vloop := (c09_v_loop T U sub mul div absr gt nz zero one mone W).
  Notation sloop := (c09_s_loop T U sub mul div absr gt nz zero one mone).
  Notation vstep := (c09_v_pivot_step T U mul absr gt nz zero one mone W).
  Notation sstep := (c09_s_pivot_step T U mul absr gt nz zero one mone).
  Notation velim := (c09_v_elim T sub mul div zero W).
  Notation selim := (c09_s_elim T sub mul div zero).

  Lemma vstep_ok_length : forall dp n i st, length (c09_vok T (vstep dp n i st)) = W.
  Proof. intros. unfold c09_v_pivot_step. destruct dp; simpl; unfold c09_vmap2; apply c09_tab_length. Qed.

  Lemma lane_ok : forall l st, nth l (c09_vok T st) false = c09_sok T (LS l st).
  Proof. reflexivity. Qed.

  (* a lane once marked singular stays marked *)
  Lemma vstep_ok_mono : forall l dp n i st, l < W -> nth l (c09_vok T st) false = false ->
    nth l (c09_vok T (vstep dp n i st)) false = false.
  Proof.
    intros. rewrite lane_ok. rewrite (lane_pivot_step T U mul absr gt nz zero one mone W l H).
    unfold c09_s_pivot_step. destruct dp; simpl; rewrite H0; reflexivity.
  Qed.

  Lemma vloop_false_ok_mono : forall l dp n rem i st, l < W -> nth l (c09_vok T st) false = false ->
    exists st', vloop false dp n rem i st = C09_Ok st' /\ nth l (c09_vok T st') false = false.
  Proof.
    induction rem; simpl; intros.
    - eauto.
    - pose proof (vstep_ok_mono l dp n i st H H0) as M.
      destruct (negb (c09_anytrue (c09_vok T (vstep dp n i st)))); [eauto|].
      apply IHrem; auto.
  Qed.

  (* throwEarly = false (determinant mode): never throws; the nonsingular bit of lane l is that of the scalar
     run on lane l, and if it is set the whole lane-l state (packed LU, rhs, pivot record, sign) is the scalar one *)
  Lemma P_lu_lanes_noThrow : forall l dp n rem i st, l < W ->
    exists st' s', vloop false dp n rem i st = C09_Ok st' /\ sloop false dp n rem i (LS l st) = C09_Ok s' /\
      nth l (c09_vok T st') false = c09_sok T s' /\ (c09_sok T s' = true -> LS l st' = s').
  Proof.
    induction rem; simpl; intros i st Hl.
    - exists st, (LS l st). auto.
    - rewrite <- (lane_pivot_step T U mul absr gt nz zero one mone W l Hl).
      set (st1 := vstep dp n i st).
      destruct (c09_sok T (LS l st1)) eqn:Ok1; simpl.
      + (* lane l regular at this step: some lane is true, both continue *)
        assert (A : c09_anytrue (c09_vok T st1) = true).
        { apply c09_anytrue_spec. exists l. split; [unfold st1; now rewrite vstep_ok_length | exact Ok1]. }
        rewrite A. simpl.
        rewrite <- (lane_elim T sub mul div zero W l Hl). apply IHrem; auto.
      + (* lane l singular: the scalar run returns here *)
        destruct (negb (c09_anytrue (c09_vok T st1))) eqn:E.
        * exists st1, (LS l st1). repeat split; auto.
        * destruct (vloop_false_ok_mono l dp n rem (S i) (velim n i st1) Hl) as [st' [R M]].
          { exact Ok1. }
          exists st', (LS l st1). repeat split; auto.
          -- rewrite M. now rewrite Ok1.
          -- rewrite Ok1. discriminate.
  Qed.

  (* throwEarly = true (solve, invert): the S-lane run completes iff every lane's scalar run completes, and then
     every lane state is the scalar one; it throws iff some lane's scalar run throws *)
  Lemma P_lu_lanes_throwEarly : forall dp n rem i st,
    match vloop true dp n rem i st with
    | C09_Ok st' => forall l, l < W -> sloop true dp n rem i (LS l st) = C09_Ok (LS l st')
    | C09_FMatrixError st' => exists l, l < W /\ sloop true dp n rem i (LS l st) = C09_FMatrixError (LS l st')
    end.
  Proof.
    induction rem; simpl; intros i st.
    - auto.
    - set (st1 := vstep dp n i st).
      destruct (c09_alltrue (c09_vok T st1)) eqn:A; simpl.
      + pose proof (IHrem (S i) (velim n i st1)) as IH.
        assert (OkAll : forall l, l < W -> c09_sok T (LS l st1) = true).
        { intros l Hl. rewrite <- lane_ok. apply (proj1 (c09_alltrue_spec _) A). unfold st1. now rewrite vstep_ok_length. }
        destruct (vloop true dp n rem (S i) (velim n i st1)) as [st'|st'].
        * intros l Hl. rewrite <- (lane_pivot_step T U mul absr gt nz zero one mone W l Hl). fold st1.
          rewrite (OkAll l Hl). simpl. rewrite <- (lane_elim T sub mul div zero W l Hl). now apply IH.
        * destruct IH as [l [Hl E]]. exists l. split; auto.
          rewrite <- (lane_pivot_step T U mul absr gt nz zero one mone W l Hl). fold st1.
          rewrite (OkAll l Hl). simpl. rewrite <- (lane_elim T sub mul div zero W l Hl). exact E.
      + (* some lane is singular: find it *)
        assert (Ex : exists l, l < W /\ c09_sok T (LS l st1) = false).
        { destruct (forallb (fun b => b) (c09_vok T st1)) eqn:F.
          - exfalso. unfold c09_alltrue in A. rewrite c09_alltrue_acc in A. simpl in A. congruence.
          - assert (N : ~ (forall x, In x (c09_vok T st1) -> x = true)).
            { intro Hall. rewrite (proj2 (forallb_forall _ _) Hall) in F. discriminate. }
            assert (Ex2 : exists x, In x (c09_vok T st1) /\ x = false).
            { clear - F. induction (c09_vok T st1); simpl in *; [discriminate|].
              destruct a; simpl in F; [destruct (IHl F) as [x [I E]]; eauto | eauto]. }
            destruct Ex2 as [x [I E]]. destruct (In_nth _ _ false I) as [l [Hl E2]].
            exists l. split. { unfold st1 in Hl. now rewrite vstep_ok_length in Hl. }
            rewrite <- lane_ok. congruence. }
        destruct Ex as [l [Hl E]]. exists l. split; auto.
        rewrite <- (lane_pivot_step T U mul absr gt nz zero one mone W l Hl). fold st1. now rewrite E.
  Qed.

  (* ---- initial state ---- *)
  Lemma lane_init : forall l n A b, l < W -> LS l (c09_v_init T one W n A b) = c09_s_init T one n (LM l A) (LV l b).
  Proof.
    intros. unfold c09_v_init, c09_s_init, c09_lane_st; simpl. f_equal.
    - rewrite c09_map_tab. unfold c09_tab. rewrite <- (map_id (seq 0 n)) at 2. apply map_ext. intros.
      now apply lane_vbcast.
    - now apply lane_vbcast.
    - now apply lane_vbcast.
  Qed.
End Loops.

Section Final.
  Variables T U : Type.
  Variables sub mul div : T -> T -> T.
  Variable absr : T -> U.
  Variable gt : U -> U -> bool.
  Variable nz : U -> bool.
  Variables zero one mone : T.
  Variable W : nat.

  Notation LV := (c09_lane_vec T zero).
  Notation LM := (c09_lane_mat T zero).
  Notation LS := (c09_lane_st T zero).
  Notation vlu := (c09_v_lu T U sub mul div absr gt nz zero one mone W).
  Notation slu := (c09_s_lu T U sub mul div absr gt nz zero one mone).
  Notation vsolve := (c09_v_solve T U sub mul div absr gt nz zero one mone W).
  Notation ssolve := (c09_s_solve T U sub mul div absr gt nz zero one mone).
  Notation vinvert := (c09_v_invert T U sub mul div absr gt nz zero one mone W).
  Notation sinvert := (c09_s_invert T U sub mul div absr gt nz zero one mone).
  Notation vdet := (c09_v_det T U sub mul div absr gt nz zero one mone W).
  Notation sdet := (c09_s_det T U sub mul div absr gt nz zero one mone).
  Notation vdet_old := (c09_v_det_before_fix T U sub mul div absr gt nz zero one mone W).
  Notation sdet_old := (c09_s_det_before_fix T U sub mul div absr gt nz zero one mone).

  (* main theorem, both modes of luDecomposition *)
  Lemma P_lu_lanes : forall dp n A b,
    (* throwEarly = false *)
    (forall l, l < W -> exists st' s',
        vlu false dp n A b = C09_Ok st' /\ slu false dp n (LM l A) (LV l b) = C09_Ok s' /\
        nth l (c09_vok T st') false = c09_sok T s' /\ (c09_sok T s' = true -> LS l st' = s')) /\
    (* throwEarly = true *)
    match vlu true dp n A b with
    | C09_Ok st' => forall l, l < W -> slu true dp n (LM l A) (LV l b) = C09_Ok (LS l st')
    | C09_FMatrixError st' => exists l, l < W /\ slu true dp n (LM l A) (LV l b) = C09_FMatrixError (LS l st')
    end.
  Proof.
    intros. unfold c09_v_lu, c09_s_lu. split.
    - intros l Hl. rewrite <- (lane_init T zero one W l n A b Hl).
      now apply P_lu_lanes_noThrow.
    - pose proof (P_lu_lanes_throwEarly T U sub mul div absr gt nz zero one mone W dp n n 0 (c09_v_init T one W n A b)) as P.
      destruct (c09_v_loop T U sub mul div absr gt nz zero one mone W true dp n n 0 (c09_v_init T one W n A b)).
      + intros l Hl. rewrite <- (lane_init T zero one W l n A b Hl). now apply P.
      + destruct P as [l [Hl E]]. exists l. split; auto. now rewrite <- (lane_init T zero one W l n A b Hl).
  Qed.

  Lemma P_solve_lanes : forall dp n A b,
    match vsolve dp n A b with
    | C09_Ok x => forall l, l < W -> ssolve dp n (LM l A) (LV l b) = C09_Ok (LV l x)
    | C09_FMatrixError _ => exists l e, l < W /\ ssolve dp n (LM l A) (LV l b) = C09_FMatrixError e
    end.
  Proof.
    intros. unfold c09_v_solve, c09_s_solve, c09_param_throw_early_solve.
    pose proof (proj2 (P_lu_lanes dp n A b)) as P.
    destruct (vlu true dp n A b) as [st'|st'].
    - intros l Hl. rewrite (P l Hl). f_equal. unfold c09_lane_st; simpl. symmetry.
      unfold c09_lane_vec at 1, c09_lane_mat.
      apply (hom_backsolve (list T) T _ _ _ (c09_vzero T zero W) sub mul div zero (fun v => nth l v zero)
               (lane_vsub T sub zero W l Hl) (lane_vmul T mul zero W l Hl) (lane_vdiv T div zero W l Hl) (lane_vzero T zero W l Hl)).
    - destruct P as [l [Hl E]]. exists l. eexists. split; auto. rewrite E. reflexivity.
  Qed.

  Lemma lane_unperm_step : forall l n M i pv, l < W ->
    LM l (c09_v_unperm_step T zero W n M i pv) = c09_s_unperm_step T zero n (LM l M) i (nth l pv 0).
  Proof.
    intros. unfold c09_v_unperm_step, c09_s_unperm_step. unfold c09_lane_mat at 1. rewrite c09_map_tab.
    apply c09_tab_ext. intros r _. unfold c09_lane_vec at 1. rewrite c09_map_tab. apply c09_tab_ext. intros c _.
    rewrite c09_tab_nth by assumption. rewrite !(lane_get T zero W l H). reflexivity.
  Qed.

  Lemma lane_unperm : forall l n piv cols M, l < W ->
    LM l (c09_v_unperm T zero W n piv cols M) = c09_s_unperm T zero n (map (fun v => nth l v 0) piv) cols (LM l M).
  Proof.
    induction cols; simpl; intros; auto.
    rewrite IHcols by assumption. f_equal. rewrite lane_unperm_step by assumption. f_equal.
    apply (lane_pivnth W l H).
  Qed.

  Lemma P_invert_lanes : forall dp n A,
    match vinvert dp n A with
    | C09_Ok B => forall l, l < W -> sinvert dp n (LM l A) = C09_Ok (LM l B)
    | C09_FMatrixError _ => exists l e, l < W /\ sinvert dp n (LM l A) = C09_FMatrixError e
    end.
  Proof.
    intros. unfold c09_v_invert, c09_s_invert, c09_param_throw_early_invert.
    pose proof (proj2 (P_lu_lanes dp n A [])) as P.
    destruct (vlu true dp n A []) as [st'|st'].
    - intros l Hl. specialize (P l Hl). simpl in P. rewrite P. f_equal. unfold c09_lane_st; simpl. symmetry.
      rewrite lane_unperm by assumption. f_equal.
      unfold c09_lane_mat, c09_lane_vec.
      apply (hom_invert_tri (list T) T _ _ _ (c09_vzero T zero W) (c09_vone T one W) sub mul div zero one (fun v => nth l v zero)
               (lane_vsub T sub zero W l Hl) (lane_vmul T mul zero W l Hl) (lane_vdiv T div zero W l Hl)
               (lane_vzero T zero W l Hl) (lane_vone T zero one W l Hl)).
    - destruct P as [l [Hl E]]. exists l. eexists. split; auto. simpl in E. rewrite E. reflexivity.
  Qed.

  (* determinant (select applied after the product): EVERY lane, singular ones included *)
  Lemma P_det_lanes : forall dp n A l, l < W -> nth l (vdet dp n A) zero = sdet dp n (LM l A).
  Proof.
    intros dp n A l Hl. unfold c09_v_det, c09_s_det, c09_param_throw_early_det.
    destruct (proj1 (P_lu_lanes dp n A []) l Hl) as [st' [s' [R1 [R2 [Ok St]]]]].
    simpl in R2. rewrite R1, R2. rewrite (lane_vcond W l Hl). rewrite Ok.
    destruct (c09_sok T s') eqn:E.
    - rewrite <- (St eq_refl). unfold c09_lane_st; simpl.
      unfold c09_lane_mat, c09_lane_vec.
      apply (hom_detprod (list T) T _ (c09_vzero T zero W) mul zero (fun v => nth l v zero)
               (lane_vmul T mul zero W l Hl) (lane_vzero T zero W l Hl)).
    - apply (lane_vzero T zero W l Hl).
  Qed.

  (* determinant as the code stood before 1209091 (select before the product): only lanes whose scalar run stays regular *)
  Lemma P_det_lanes_before_fix_partial : forall dp n A l s', l < W ->
    slu false dp n (LM l A) [] = C09_Ok s' -> c09_sok T s' = true ->
    nth l (vdet_old dp n A) zero = sdet_old dp n (LM l A).
  Proof.
    intros dp n A l s0 Hl Hs Hok. unfold c09_v_det_before_fix, c09_s_det_before_fix.
    destruct (proj1 (P_lu_lanes dp n A []) l Hl) as [st' [s' [R1 [R2 [Ok St]]]]].
    simpl in R2. rewrite R2 in Hs. inversion Hs; subst s0.
    rewrite R1, R2. rewrite Hok. rewrite <- (St Hok).
    rewrite (hom_detprod (list T) T _ (c09_vzero T zero W) mul zero (fun v => nth l v zero)
               (lane_vmul T mul zero W l Hl) (lane_vzero T zero W l Hl)).
    unfold c09_lane_st; simpl. f_equal.
    rewrite (lane_vcond W l Hl). now rewrite Ok, Hok.
  Qed.
End Final.

(* ------------------------------------------------------------------------------------------ *)
(* products and norms                                                                          *)
(* ------------------------------------------------------------------------------------------ *)
Section HomNorms.
  Variables X R X' R' : Type.
  Variables (xadd xmul : X -> X -> X) (xzero : X) (xabs : X -> R) (radd rmul rdiv rmax : R -> R -> R) (rzero rone : R).
  Variables (yadd ymul : X' -> X' -> X') (yzero : X') (yabs : X' -> R') (sadd smul sdiv smax : R' -> R' -> R') (szero sone : R').
  Variables (h : X -> X') (k : R -> R').
  Hypothesis h_add : forall a b, h (xadd a b) = yadd (h a) (h b).
  Hypothesis h_mul : forall a b, h (xmul a b) = ymul (h a) (h b).
  Hypothesis h_zero : h xzero = yzero.
  Hypothesis k_abs : forall a, k (xabs a) = yabs (h a).
  Hypothesis k_add : forall a b, k (radd a b) = sadd (k a) (k b).
  Hypothesis k_mul : forall a b, k (rmul a b) = smul (k a) (k b).
  Hypothesis k_div : forall a b, k (rdiv a b) = sdiv (k a) (k b).
  Hypothesis k_max : forall a b, k (rmax a b) = smax (k a) (k b).
  Hypothesis k_zero : k rzero = szero.
  Hypothesis k_one : k rone = sone.

  Lemma hom_mv : forall A x, map h (c09_g_mv X xadd xmul xzero A x) = c09_g_mv X' yadd ymul yzero (map (map h) A) (map h x).
  Proof.
    intros. unfold c09_g_mv. rewrite !map_map. apply map_ext. intros row.
    rewrite <- h_zero. generalize xzero. revert x.
    induction row as [|e row IH]; intros [|y x] acc; simpl; auto.
    rewrite IH. now rewrite h_add, h_mul.
  Qed.

  Lemma hom_one_norm : forall v, k (c09_g_one_norm X R xabs radd rzero v) = c09_g_one_norm X' R' yabs sadd szero (map h v).
  Proof.
    intros. unfold c09_g_one_norm. rewrite <- k_zero. generalize rzero.
    induction v; simpl; intros; auto. rewrite IHv. now rewrite k_add, k_abs.
  Qed.

  Lemma hom_infnorm : forall hasNaN A,
    k (c09_g_infnorm X R xabs radd rmul rdiv rmax rzero rone hasNaN A)
    = c09_g_infnorm X' R' yabs sadd smul sdiv smax szero sone hasNaN (map (map h) A).
  Proof.
    intros. unfold c09_g_infnorm. destruct hasNaN.
    - unfold c09_g_infnorm_nan.
      assert (G : forall A s, (fun p => (k (fst p), k (snd p)))
                 (fold_left (fun (s : R * R) row => let a := c09_g_one_norm X R xabs radd rzero row in (rmax a (fst s), radd (snd s) a)) A s)
               = fold_left (fun (s : R' * R') row => let a := c09_g_one_norm X' R' yabs sadd szero row in (smax a (fst s), sadd (snd s) a))
                   (map (map h) A) (k (fst s), k (snd s))).
      { induction A0; simpl; intros; auto. rewrite IHA0. simpl. now rewrite k_max, k_add, hom_one_norm. }
      specialize (G A (rzero, rone)). simpl in G. rewrite k_zero, k_one in G.
      rewrite k_mul, k_div. pose proof (f_equal fst G) as G1. pose proof (f_equal snd G) as G2. simpl in G1, G2.
      now rewrite G1, G2.
    - unfold c09_g_infnorm_plain.
      assert (G : forall A acc, k (fold_left (fun norm row => rmax (c09_g_one_norm X R xabs radd rzero row) norm) A acc)
                 = fold_left (fun norm row => smax (c09_g_one_norm X' R' yabs sadd szero row) norm) (map (map h) A) (k acc)).
      { induction A0; simpl; intros; auto. rewrite IHA0. now rewrite k_max, hom_one_norm. }
      rewrite G. now rewrite k_zero.
  Qed.
End HomNorms.

Section NormLanes.
  Variables T U : Type.
  Variables (add mul : T -> T -> T) (zero : T) (absr : T -> U).
  Variables (uadd umul udiv : U -> U -> U) (ult : U -> U -> bool) (uzero uone : U).
  Variable W : nat.

  (* mv: every lane of the S-lane product is the scalar product of that lane *)
  Lemma P_mv_lanes : forall A x l, l < W ->
    c09_lane_vec T zero l (c09_v_mv T add mul zero W A x) = c09_s_mv T add mul zero (c09_lane_mat T zero l A) (c09_lane_vec T zero l x).
  Proof.
    intros. unfold c09_v_mv, c09_s_mv, c09_lane_vec, c09_lane_mat.
    apply (hom_mv (list T) T _ _ _ add mul zero (fun v => nth l v zero)).
    - intros. now apply lane_vmap2.
    - intros. now apply lane_vmap2.
    - now apply lane_vbcast.
  Qed.

  (* infinity_norm: when the S-lane type takes the same HasNaN variant as the scalar type (fixes/C09-2.patch) *)
  Lemma P_infnorm_lanes : forall hasNaN A l, l < W ->
    nth l (c09_v_infnorm T U zero absr uadd umul udiv ult uzero uone W hasNaN A) (c09_nU T U zero absr)
    = c09_s_infnorm T U absr uadd umul udiv ult uzero uone hasNaN (c09_lane_mat T zero l A).
  Proof.
    intros. unfold c09_v_infnorm, c09_s_infnorm, c09_lane_mat, c09_lane_vec.
    apply (hom_infnorm (list T) (list U) T U _ _ _ _ _ _ _ absr uadd umul udiv (c09_umax U ult) uzero uone
             (fun v => nth l v zero) (fun v => nth l v (c09_nU T U zero absr)));
      intros; try (now apply lane_vmap2); try (now apply lane_vbcast).
    now apply lane_vmap.
  Qed.
End NormLanes.

(* ------------------------------------------------------------------------------------------ *)
(* closed forms for rows() = 1, 2, 3 and the full dispatch                                     *)
(* ------------------------------------------------------------------------------------------ *)
Section HomClosed.
  Variables X Y : Type.
  Variables (xadd xsub xmul xdiv : X -> X -> X) (xneg : X -> X) (xzero xone : X).
  Variables (yadd ysub ymul ydiv : Y -> Y -> Y) (yneg : Y -> Y) (yzero yone : Y).
  Variable h : X -> Y.
  Hypothesis h_add : forall a b, h (xadd a b) = yadd (h a) (h b).
  Hypothesis h_sub : forall a b, h (xsub a b) = ysub (h a) (h b).
  Hypothesis h_mul : forall a b, h (xmul a b) = ymul (h a) (h b).
  Hypothesis h_div : forall a b, h (xdiv a b) = ydiv (h a) (h b).
  Hypothesis h_neg : forall a, h (xneg a) = yneg (h a).
  Hypothesis h_zero : h xzero = yzero.
  Hypothesis h_one : h xone = yone.
  Let hm (A : list (list X)) : list (list Y) := map (map h) A.
  Let G := hom_get X Y xzero yzero h h_zero.
  Let GV := hom_vget X Y xzero yzero h h_zero.

  Ltac push := unfold hm; repeat first [rewrite h_add | rewrite h_sub | rewrite h_mul | rewrite h_div | rewrite h_neg | rewrite h_one | rewrite G | rewrite GV].

  Lemma hom_det1 : forall A, h (c09_g_det1 X xzero A) = c09_g_det1 Y yzero (hm A).
  Proof. intros. unfold c09_g_det1. now push. Qed.
  Lemma hom_det2 : forall A, h (c09_g_det2 X xsub xmul xzero A) = c09_g_det2 Y ysub ymul yzero (hm A).
  Proof. intros. unfold c09_g_det2. now push. Qed.
  Lemma hom_det3 : forall A, h (c09_g_det3 X xadd xsub xmul xzero A) = c09_g_det3 Y yadd ysub ymul yzero (hm A).
  Proof. intros. unfold c09_g_det3. cbv zeta. now push. Qed.
  Lemma hom_solve1 : forall A b, map h (c09_g_solve1 X xdiv xzero A b) = c09_g_solve1 Y ydiv yzero (hm A) (map h b).
  Proof. intros. unfold c09_g_solve1. simpl. now push. Qed.
  Lemma hom_solve2 : forall A b, map h (c09_g_solve2 X xsub xmul xdiv xzero xone A b) = c09_g_solve2 Y ysub ymul ydiv yzero yone (hm A) (map h b).
  Proof. intros. unfold c09_g_solve2. cbv zeta. simpl. now push. Qed.
  Lemma hom_solve3 : forall A b, map h (c09_g_solve3 X xadd xsub xmul xdiv xzero A b) = c09_g_solve3 Y yadd ysub ymul ydiv yzero (hm A) (map h b).
  Proof. intros. unfold c09_g_solve3, c09_g_det3. cbv zeta. simpl. now push. Qed.
  Lemma hom_invert1 : forall A, hm (c09_g_invert1 X xdiv xzero xone A) = c09_g_invert1 Y ydiv yzero yone (hm A).
  Proof. intros. unfold c09_g_invert1. unfold hm at 1. simpl. now push. Qed.
  Lemma hom_invert2 : forall A, hm (c09_g_invert2 X xsub xmul xdiv xneg xzero xone A) = c09_g_invert2 Y ysub ymul ydiv yneg yzero yone (hm A).
  Proof. intros. unfold c09_g_invert2. cbv zeta. unfold hm at 1. simpl. now push. Qed.
  Lemma hom_invert3 : forall A, hm (c09_g_invert3 X xadd xsub xmul xdiv xneg xzero xone A) = c09_g_invert3 Y yadd ysub ymul ydiv yneg yzero yone (hm A).
  Proof. intros. unfold c09_g_invert3. cbv zeta. unfold hm at 1. simpl. now push. Qed.
End HomClosed.

Section FullLanes.
  Variables T U : Type.
  Variables add sub mul div : T -> T -> T.
  Variable neg : T -> T.
  Variable absr : T -> U.
  Variable gt : U -> U -> bool.
  Variable nz : U -> bool.
  Variables zero one mone : T.
  Variable W : nat.
  Notation LV := (c09_lane_vec T zero).
  Notation LM := (c09_lane_mat T zero).
  Notation hl l := (fun v : list T => nth l v zero).

  Lemma P_det_full_lanes : forall dp n A l, l < W ->
    nth l (c09_v_det_full T U add sub mul div absr gt nz zero one mone W dp n A) zero
    = c09_s_det_full T U add sub mul div absr gt nz zero one mone dp n (LM l A).
  Proof.
    intros dp n A l Hl. unfold c09_v_det_full, c09_s_det_full.
    destruct n as [|[|[|[|n]]]]; try (now apply P_det_lanes); unfold c09_lane_mat, c09_lane_vec.
    - apply (hom_det1 (list T) T _ zero (hl l) (lane_vzero T zero W l Hl)).
    - apply (hom_det2 (list T) T _ _ _ sub mul zero (hl l) (lane_vsub T sub zero W l Hl) (lane_vmul T mul zero W l Hl) (lane_vzero T zero W l Hl)).
    - apply (hom_det3 (list T) T _ _ _ _ add sub mul zero (hl l)); intros; try (now apply lane_vmap2);
        try apply (lane_vsub T sub zero W l Hl); try apply (lane_vmul T mul zero W l Hl); apply (lane_vzero T zero W l Hl).
  Qed.

  Lemma P_solve_full_lanes : forall dp n A b,
    match c09_v_solve_full T U add sub mul div absr gt nz zero one mone W dp n A b with
    | C09_Ok x => forall l, l < W -> c09_s_solve_full T U add sub mul div absr gt nz zero one mone dp n (LM l A) (LV l b) = C09_Ok (LV l x)
    | C09_FMatrixError _ => exists l e, l < W /\ c09_s_solve_full T U add sub mul div absr gt nz zero one mone dp n (LM l A) (LV l b) = C09_FMatrixError e
    end.
  Proof.
    intros dp n A b. unfold c09_v_solve_full, c09_s_solve_full.
    destruct n as [|[|[|[|n]]]]; try (now apply P_solve_lanes); intros l Hl; f_equal; symmetry; unfold c09_lane_mat, c09_lane_vec.
    - apply (hom_solve1 (list T) T _ _ div zero (hl l) (lane_vdiv T div zero W l Hl) (lane_vzero T zero W l Hl)).
    - apply (hom_solve2 (list T) T _ _ _ _ _ sub mul div zero one (hl l) (lane_vsub T sub zero W l Hl) (lane_vmul T mul zero W l Hl)
               (lane_vdiv T div zero W l Hl) (lane_vzero T zero W l Hl) (lane_vone T zero one W l Hl)).
    - apply (hom_solve3 (list T) T _ _ _ _ _ add sub mul div zero (hl l)); intros; try (now apply lane_vmap2);
        try apply (lane_vsub T sub zero W l Hl); try apply (lane_vmul T mul zero W l Hl); try apply (lane_vdiv T div zero W l Hl);
        apply (lane_vzero T zero W l Hl).
  Qed.

  Lemma P_invert_full_lanes : forall dp n A,
    match c09_v_invert_full T U add sub mul div neg absr gt nz zero one mone W dp n A with
    | C09_Ok B => forall l, l < W -> c09_s_invert_full T U add sub mul div neg absr gt nz zero one mone dp n (LM l A) = C09_Ok (LM l B)
    | C09_FMatrixError _ => exists l e, l < W /\ c09_s_invert_full T U add sub mul div neg absr gt nz zero one mone dp n (LM l A) = C09_FMatrixError e
    end.
  Proof.
    intros dp n A. unfold c09_v_invert_full, c09_s_invert_full.
    destruct n as [|[|[|[|n]]]]; try (now apply P_invert_lanes); intros l Hl; f_equal; symmetry; unfold c09_lane_mat, c09_lane_vec.
    - apply (hom_invert1 (list T) T _ _ _ div zero one (hl l) (lane_vdiv T div zero W l Hl) (lane_vzero T zero W l Hl) (lane_vone T zero one W l Hl)).
    - apply (hom_invert2 (list T) T _ _ _ _ _ _ sub mul div neg zero one (hl l)); intros; try (now apply lane_vmap);
        try apply (lane_vsub T sub zero W l Hl); try apply (lane_vmul T mul zero W l Hl); try apply (lane_vdiv T div zero W l Hl);
        try apply (lane_vzero T zero W l Hl); apply (lane_vone T zero one W l Hl).
    - apply (hom_invert3 (list T) T _ _ _ _ _ _ _ add sub mul div neg zero one (hl l)); intros; try (now apply lane_vmap2); try (now apply lane_vmap);
        try apply (lane_vsub T sub zero W l Hl); try apply (lane_vmul T mul zero W l Hl); try apply (lane_vdiv T div zero W l Hl);
        try apply (lane_vzero T zero W l Hl); apply (lane_vone T zero one W l Hl).
  Qed.
End FullLanes.

(* ------------------------------------------------------------------------------------------ *)
(* further products and norms                                                                  *)
(* ------------------------------------------------------------------------------------------ *)
Section HomProducts.
  Variables X R X' R' : Type.
  Variables (xadd xsub xmul : X -> X -> X) (xzero : X) (xabs xabs2 : X -> R) (radd rmul rdiv rmax : R -> R -> R) (rsqrt : R -> R) (rzero rone : R).
  Variables (yadd ysub ymul : X' -> X' -> X') (yzero : X') (yabs yabs2 : X' -> R') (sadd smul sdiv smax : R' -> R' -> R') (ssqrt : R' -> R') (szero sone : R').
  Variables (h : X -> X') (k : R -> R').
  Hypothesis h_add : forall a b, h (xadd a b) = yadd (h a) (h b).
  Hypothesis h_sub : forall a b, h (xsub a b) = ysub (h a) (h b).
  Hypothesis h_mul : forall a b, h (xmul a b) = ymul (h a) (h b).
  Hypothesis h_zero : h xzero = yzero.
  Hypothesis k_abs : forall a, k (xabs a) = yabs (h a).
  Hypothesis k_abs2 : forall a, k (xabs2 a) = yabs2 (h a).
  Hypothesis k_add : forall a b, k (radd a b) = sadd (k a) (k b).
  Hypothesis k_mul : forall a b, k (rmul a b) = smul (k a) (k b).
  Hypothesis k_div : forall a b, k (rdiv a b) = sdiv (k a) (k b).
  Hypothesis k_max : forall a b, k (rmax a b) = smax (k a) (k b).
  Hypothesis k_sqrt : forall a, k (rsqrt a) = ssqrt (k a).
  Hypothesis k_zero : k rzero = szero.
  Hypothesis k_one : k rone = sone.

  Lemma hom_rowacc_add : forall row x acc, h (c09_g_rowacc_add X xadd xmul row x acc) = c09_g_rowacc_add X' yadd ymul (map h row) (map h x) (h acc).
  Proof. unfold c09_g_rowacc_add. induction row as [|e row IH]; intros [|y x] acc; simpl; auto. rewrite IH. now rewrite h_add, h_mul. Qed.
  Lemma hom_rowacc_sub : forall row x acc, h (c09_g_rowacc_sub X xsub xmul row x acc) = c09_g_rowacc_sub X' ysub ymul (map h row) (map h x) (h acc).
  Proof. unfold c09_g_rowacc_sub. induction row as [|e row IH]; intros [|y x] acc; simpl; auto. rewrite IH. now rewrite h_sub, h_mul. Qed.

  Lemma hom_umv : forall A x y, map h (c09_g_umv X xadd xmul A x y) = c09_g_umv X' yadd ymul (map (map h) A) (map h x) (map h y).
  Proof. unfold c09_g_umv. induction A as [|row A IH]; intros x [|e y]; simpl; auto. rewrite IH. now rewrite hom_rowacc_add. Qed.
  Lemma hom_mmv : forall A x y, map h (c09_g_mmv X xsub xmul A x y) = c09_g_mmv X' ysub ymul (map (map h) A) (map h x) (map h y).
  Proof. unfold c09_g_mmv. induction A as [|row A IH]; intros x [|e y]; simpl; auto. rewrite IH. now rewrite hom_rowacc_sub. Qed.
  Lemma hom_usmv : forall alpha A x y,
    map h (c09_g_usmv X xadd xmul alpha A x y) = c09_g_usmv X' yadd ymul (h alpha) (map (map h) A) (map h x) (map h y).
  Proof.
    unfold c09_g_usmv. induction A as [|row A IH]; intros x [|e y]; simpl; auto. rewrite IH. f_equal.
    clear IH. revert x e. induction row as [|a row IHr]; intros [|b x] e; simpl; auto. rewrite IHr. now rewrite h_add, !h_mul.
  Qed.
  Lemma hom_mtv : forall n A x, map h (c09_g_mtv X xadd xmul xzero n A x) = c09_g_mtv X' yadd ymul yzero n (map (map h) A) (map h x).
  Proof.
    intros. unfold c09_g_mtv. rewrite c09_map_tab. apply c09_tab_ext. intros i _.
    assert (G : forall A x acc, h (fold_left (fun a p => xadd a (xmul (nth i (fst p) xzero) (snd p))) (combine A x) acc)
               = fold_left (fun a p => yadd a (ymul (nth i (fst p) yzero) (snd p))) (combine (map (map h) A) (map h x)) (h acc)).
    { induction A0 as [|row A0 IH]; intros [|b x0] acc; simpl; auto. rewrite IH. rewrite h_add, h_mul. rewrite <- h_zero. now rewrite map_nth. }
    rewrite G. now rewrite h_zero.
  Qed.
  Lemma hom_dot : forall x y, h (c09_g_dot X xadd xmul xzero x y) = c09_g_dot X' yadd ymul yzero (map h x) (map h y).
  Proof.
    intros. unfold c09_g_dot. rewrite <- h_zero. generalize xzero. revert y.
    induction x as [|a x IH]; intros [|b y] acc; simpl; auto. rewrite IH. now rewrite h_add, h_mul.
  Qed.
  Lemma hom_two_norm2 : forall v, k (c09_g_two_norm2 X R xabs2 radd rzero v) = c09_g_two_norm2 X' R' yabs2 sadd szero (map h v).
  Proof. intros. unfold c09_g_two_norm2. rewrite <- k_zero. generalize rzero. induction v; simpl; intros; auto. rewrite IHv. now rewrite k_add, k_abs2. Qed.
  Lemma hom_two_norm : forall v, k (c09_g_two_norm X R xabs2 radd rsqrt rzero v) = c09_g_two_norm X' R' yabs2 sadd ssqrt szero (map h v).
  Proof. intros. unfold c09_g_two_norm. now rewrite k_sqrt, hom_two_norm2. Qed.
  Lemma hom_frobenius_norm2 : forall A, k (c09_g_frobenius_norm2 X R xabs2 radd rzero A) = c09_g_frobenius_norm2 X' R' yabs2 sadd szero (map (map h) A).
  Proof.
    intros. unfold c09_g_frobenius_norm2.
    assert (G : forall A acc, k (fold_left (fun s row => radd s (c09_g_two_norm2 X R xabs2 radd rzero row)) A acc)
               = fold_left (fun s row => sadd s (c09_g_two_norm2 X' R' yabs2 sadd szero row)) (map (map h) A) (k acc)).
    { induction A0; simpl; intros; auto. rewrite IHA0. now rewrite k_add, hom_two_norm2. }
    rewrite G. now rewrite k_zero.
  Qed.
  Lemma hom_frobenius_norm : forall A, k (c09_g_frobenius_norm X R xabs2 radd rsqrt rzero A) = c09_g_frobenius_norm X' R' yabs2 sadd ssqrt szero (map (map h) A).
  Proof. intros. unfold c09_g_frobenius_norm. now rewrite k_sqrt, hom_frobenius_norm2. Qed.
  Lemma hom_vec_infnorm : forall hasNaN v,
    k (c09_g_vec_infnorm X R xabs radd rmul rdiv rmax rzero rone hasNaN v) = c09_g_vec_infnorm X' R' yabs sadd smul sdiv smax szero sone hasNaN (map h v).
  Proof.
    intros. unfold c09_g_vec_infnorm. destruct hasNaN.
    - assert (G : forall v s, (fun p => (k (fst p), k (snd p)))
                 (fold_left (fun (s : R * R) e => let a := xabs e in (rmax a (fst s), radd (snd s) a)) v s)
               = fold_left (fun (s : R' * R') e => let a := yabs e in (smax a (fst s), sadd (snd s) a)) (map h v) (k (fst s), k (snd s))).
      { induction v0; simpl; intros; auto. rewrite IHv0. simpl. now rewrite k_max, k_add, k_abs. }
      specialize (G v (rzero, rone)). simpl in G. rewrite k_zero, k_one in G.
      rewrite k_mul, k_div. pose proof (f_equal fst G) as G1. pose proof (f_equal snd G) as G2. simpl in G1, G2. now rewrite G1, G2.
    - rewrite <- k_zero. generalize rzero. induction v; simpl; intros; auto. rewrite IHv. now rewrite k_max, k_abs.
  Qed.
End HomProducts.

Section ProductLanes.
  Variables T U : Type.
  Variables (add sub mul : T -> T -> T) (zero : T).
  Variables (absr abs2 : T -> U).
  Variables (uadd umul udiv : U -> U -> U) (ult : U -> U -> bool) (usqrt : U -> U) (uzero uone : U).
  Variable W : nat.
  Notation LV := (c09_lane_vec T zero).
  Notation LM := (c09_lane_mat T zero).
  Notation nU := (c09_nU T U zero absr).

  Ltac lanes := intros; first [now apply lane_vmap2 | now apply lane_vmap | now apply lane_vbcast].

  Lemma P_products_lanes : forall (A : list (list (list T))) (x y : list (list T)) (alpha : list T) (n l : nat), l < W ->
    LV l (c09_v_umv T add mul zero W A x y) = c09_s_umv T add mul (LM l A) (LV l x) (LV l y) /\
    LV l (c09_v_mmv T sub mul zero W A x y) = c09_s_mmv T sub mul (LM l A) (LV l x) (LV l y) /\
    LV l (c09_v_usmv T add mul zero W alpha A x y) = c09_s_usmv T add mul (nth l alpha zero) (LM l A) (LV l x) (LV l y) /\
    LV l (c09_v_mtv T add mul zero W n A x) = c09_s_mtv T add mul zero n (LM l A) (LV l x) /\
    nth l (c09_v_dot T add mul zero W x y) zero = c09_s_dot T add mul zero (LV l x) (LV l y).
  Proof.
    intros A x y alpha n l Hl. unfold c09_lane_vec, c09_lane_mat. repeat split.
    - apply (hom_umv (list T) T _ _ add mul (fun v => nth l v zero)); lanes.
    - apply (hom_mmv (list T) T _ _ sub mul (fun v => nth l v zero)); lanes.
    - apply (hom_usmv (list T) T _ _ add mul (fun v => nth l v zero)); lanes.
    - apply (hom_mtv (list T) T _ _ _ add mul zero (fun v => nth l v zero)); lanes.
    - apply (hom_dot (list T) T _ _ _ add mul zero (fun v => nth l v zero)); lanes.
  Qed.

  Lemma P_norms_lanes : forall (A : list (list (list T))) (x : list (list T)) (hasNaN : bool) (l : nat), l < W ->
    nth l (c09_v_one_norm T U zero absr uadd uzero W x) nU = c09_s_one_norm T U absr uadd uzero (LV l x) /\
    nth l (c09_v_two_norm2 T U zero absr abs2 uadd uzero W x) nU = c09_s_two_norm2 T U abs2 uadd uzero (LV l x) /\
    nth l (c09_v_two_norm T U zero absr abs2 uadd usqrt uzero W x) nU = c09_s_two_norm T U abs2 uadd usqrt uzero (LV l x) /\
    nth l (c09_v_frobenius_norm2 T U zero absr abs2 uadd uzero W A) nU = c09_s_frobenius_norm2 T U abs2 uadd uzero (LM l A) /\
    nth l (c09_v_frobenius_norm T U zero absr abs2 uadd usqrt uzero W A) nU = c09_s_frobenius_norm T U abs2 uadd usqrt uzero (LM l A) /\
    nth l (c09_v_vec_infnorm T U zero absr uadd umul udiv ult uzero uone W hasNaN x) nU
      = c09_s_vec_infnorm T U absr uadd umul udiv ult uzero uone hasNaN (LV l x).
  Proof.
    intros A x hasNaN l Hl. unfold c09_lane_vec, c09_lane_mat. repeat split.
    - apply (hom_one_norm (list T) (list U) T U _ _ _ absr uadd uzero (fun v => nth l v zero) (fun v => nth l v nU)); lanes.
    - apply (hom_two_norm2 (list T) (list U) T U _ _ _ abs2 uadd uzero (fun v => nth l v zero) (fun v => nth l v nU)); lanes.
    - apply (hom_two_norm (list T) (list U) T U _ _ _ _ abs2 uadd usqrt uzero (fun v => nth l v zero) (fun v => nth l v nU)); lanes.
    - apply (hom_frobenius_norm2 (list T) (list U) T U _ _ _ abs2 uadd uzero (fun v => nth l v zero) (fun v => nth l v nU)); lanes.
    - apply (hom_frobenius_norm (list T) (list U) T U _ _ _ _ abs2 uadd usqrt uzero (fun v => nth l v zero) (fun v => nth l v nU)); lanes.
    - apply (hom_vec_infnorm (list T) (list U) T U _ _ _ _ _ _ _ absr uadd umul udiv (c09_umax U ult) uzero uone
               (fun v => nth l v zero) (fun v => nth l v nU)); lanes.
  Qed.
End ProductLanes.

(* ------------------------------------------------------------------------------------------ *)
(* facts the code establishes itself: pivot rows in range, mask accumulation                   *)
(* ------------------------------------------------------------------------------------------ *)
Section Ranges.
  Variables T U : Type.
  Variables sub mul div : T -> T -> T.
  Variable absr : T -> U.
  Variable gt : U -> U -> bool.
  Variable nz : U -> bool.
  Variables zero one mone : T.
  Variable W : nat.

  (* per lane, the pivot search returns its start value or one of the rows it looked at *)
  Lemma pivsearch_choice : forall A i ks pm imax l, l < W ->
    let r := snd (c09_v_pivsearch T U absr gt zero W A i ks pm imax) in
    nth l r 0 = nth l imax 0 \/ In (nth l r 0) ks.
  Proof.
    induction ks as [|k ks IH]; simpl; intros pm imax l Hl; auto.
    destruct (IH (c09_vcond W (c09_dU T U absr zero)
                    (c09_vmap2 W (c09_dU T U absr zero) (c09_dU T U absr zero) gt (c09_vmap W zero absr (c09_vget T zero W A k i)) pm)
                    (c09_vmap W zero absr (c09_vget T zero W A k i)) pm)
                 (c09_vcond W 0 (c09_vmap2 W (c09_dU T U absr zero) (c09_dU T U absr zero) gt (c09_vmap W zero absr (c09_vget T zero W A k i)) pm)
                    (c09_vbcast W k) imax) l Hl) as [E|I]; auto.
    rewrite E. rewrite (lane_vcond W l Hl). rewrite (lane_vbcast W l Hl).
    destruct (nth l _ false); auto.
  Qed.

  (* luDecomposition: the pivot row of every lane at step i is a row i <= p < n *)
  Lemma P_pivot_in_range : forall A n i pm l, i < n -> l < W ->
    let p := nth l (snd (c09_v_pivsearch T U absr gt zero W A i (seq (S i) (n - S i)) pm (c09_vbcast W i))) 0 in
    i <= p < n.
  Proof.
    intros A n i pm l Hi Hl. cbv zeta.
    destruct (pivsearch_choice A i (seq (S i) (n - S i)) pm (c09_vbcast W i) l Hl) as [E|I].
    - cbv zeta in E. rewrite E, (lane_vbcast W l Hl). lia.
    - apply in_seq in I. lia.
  Qed.

  Notation vstep := (c09_v_pivot_step T U mul absr gt nz zero one mone W).
  Notation velim := (c09_v_elim T sub mul div zero W).
  Notation vloop := (c09_v_loop T U sub mul div absr gt nz zero one mone W).

  (* the pivot record: entries stay row numbers below n *)
  Definition piv_ok (n : nat) (st : c09_vst T) : Prop :=
    forall r l, r < n -> l < W -> nth l (nth r (c09_vpiv T st) []) 0 < n.

  Lemma vstep_piv_ok : forall dp n i st, i < n -> piv_ok n st -> piv_ok n (vstep dp n i st).
  Proof.
    intros dp n i st Hi H r l Hr Hl. unfold c09_v_pivot_step. destruct dp; simpl; [|now apply H].
    rewrite c09_tab_nth by assumption. destruct (r =? i) eqn:E; [|now apply H].
    rewrite (lane_vcond W l Hl). destruct (nth l _ false).
    - apply H; auto.
    - pose proof (P_pivot_in_range (c09_vA T st) n i (c09_vmap W zero absr (c09_vget T zero W (c09_vA T st) i i)) l Hi Hl) as P.
      cbv zeta in P. lia.
  Qed.

  Lemma vloop_piv_ok : forall te dp n rem i st, i + rem <= n -> piv_ok n st ->
    match vloop te dp n rem i st with C09_Ok st' => piv_ok n st' | C09_FMatrixError st' => piv_ok n st' end.
  Proof.
    induction rem; simpl; intros i st Hn H; auto.
    pose proof (vstep_piv_ok dp n i st ltac:(lia) H) as H1.
    assert (H2 : piv_ok n (velim n i (vstep dp n i st))) by exact H1.
    destruct te.
    - destruct (negb (c09_alltrue (c09_vok T (vstep dp n i st)))); auto. apply IHrem; auto. lia.
    - destruct (negb (c09_anytrue (c09_vok T (vstep dp n i st)))); auto. apply IHrem; auto. lia.
  Qed.

  (* invert: every pivot index the column un-permutation reads is a column number below n *)
  Lemma P_pivot_record_in_range : forall te dp n A b,
    match c09_v_lu T U sub mul div absr gt nz zero one mone W te dp n A b with
    | C09_Ok st' | C09_FMatrixError st' => forall r l, r < n -> l < W -> nth l (nth r (c09_vpiv T st') []) 0 < n
    end.
  Proof.
    intros. unfold c09_v_lu.
    assert (I : piv_ok n (c09_v_init T one W n A b)).
    { intros r l Hr Hl. unfold c09_v_init; simpl. rewrite c09_tab_nth by assumption. now rewrite (lane_vbcast W l Hl). }
    pose proof (vloop_piv_ok te dp n n 0 (c09_v_init T one W n A b) ltac:(lia) I) as P.
    destruct (vloop te dp n n 0 (c09_v_init T one W n A b)); exact P.
  Qed.

  (* nonsingularLanes only ever loses lanes: a lane marked singular at some step is singular in the result of determinant's LU run,
     and the determinant of that lane is exactly 0 *)
  Lemma P_mask_accumulates : forall l dp n rem i st, l < W -> nth l (c09_vok T st) false = false ->
    exists st', vloop false dp n rem i st = C09_Ok st' /\ nth l (c09_vok T st') false = false.
  Proof. intros. now apply vloop_false_ok_mono. Qed.

  Lemma P_det_singular_lane_zero : forall dp n A l s', l < W ->
    c09_s_lu T U sub mul div absr gt nz zero one mone false dp n (c09_lane_mat T zero l A) [] = C09_Ok s' -> c09_sok T s' = false ->
    nth l (c09_v_det T U sub mul div absr gt nz zero one mone W dp n A) zero = zero.
  Proof.
    intros dp n A l s' Hl R Hs. rewrite (P_det_lanes T U sub mul div absr gt nz zero one mone W dp n A l Hl).
    unfold c09_s_det, c09_param_throw_early_det. rewrite R. now rewrite Hs.
  Qed.
End Ranges.

Lemma P_params_match_model :
  c09_param_closed_form_max_det = 3 /\ c09_param_closed_form_max_solve = 3 /\ c09_param_closed_form_max_invert = 3 /\
  c09_param_throw_early_solve = true /\ c09_param_throw_early_invert = true /\ c09_param_throw_early_det = false.
Proof. repeat split. Qed.
