(* C09 — proofs, part 3: the literal per-lane swap loops of luDecomposition compute the gather of the model. *)
From Coq Require Import List Arith Bool Lia.
From DuneV Require Import C09_Model C09_Proofs C09_Proofs_LU.
Import ListNotations.

Section SwapProof.
  Variable T : Type.
  Variable zero : T.
  Variable W n : nat.
  Notation get3 := (c09_get3 T zero).
  Notation set3 := (c09_set3 T zero W n).

  Lemma get3_set3 : forall A r c l x r' c' l', r' < n -> c' < n -> l' < W ->
    get3 (set3 A r c l x) r' c' l' = if (r' =? r) && (c' =? c) && (l' =? l) then x else get3 A r' c' l'.
  Proof.
    intros. unfold c09_set3. unfold c09_get3 at 1.
    rewrite (c09_tab_nth _ n _ r' []) by assumption.
    rewrite (c09_tab_nth _ n _ c' []) by assumption.
    now rewrite c09_tab_nth by assumption.
  Qed.

  Variable i : nat.
  Variable p : nat -> nat.
  Hypothesis i_lt : i < n.
  Hypothesis p_lt : forall l, l < W -> p l < n.

  Definition swapped (A : list (list (list T))) r c l : T :=
    if r =? i then get3 A (p l) c l else if r =? p l then get3 A i c l else get3 A r c l.

  Lemma get3_swap_cell : forall A j l0 r c l, r < n -> c < n -> l < W -> j < n -> l0 < W ->
    get3 (c09_swap_cell T zero W n A i (p l0) j l0) r c l =
    if (c =? j) && (l =? l0) then swapped A r c l else get3 A r c l.
  Proof.
    intros. unfold c09_swap_cell, swapped. rewrite !get3_set3 by auto.
    destruct (c =? j) eqn:Ec; destruct (l =? l0) eqn:El; simpl;
      rewrite ?andb_false_r, ?andb_true_r; auto.
    apply Nat.eqb_eq in Ec, El. subst c l.
    destruct (r =? p l0) eqn:E1; destruct (r =? i) eqn:E2; simpl; auto.
    apply Nat.eqb_eq in E1, E2. now rewrite <- E1, E2.
  Qed.

  Lemma inner_loop : forall j ls A r c l, j < n -> NoDup ls -> (forall x, In x ls -> x < W) -> r < n -> c < n -> l < W ->
    get3 (fold_left (fun A l => c09_swap_cell T zero W n A i (p l) j l) ls A) r c l =
    if (c =? j) && (if in_dec Nat.eq_dec l ls then true else false) then swapped A r c l else get3 A r c l.
  Proof.
    induction ls as [|l0 ls IH]; simpl; intros A r c l Hj ND Hls Hr Hc Hl.
    - now rewrite andb_false_r.
    - inversion ND; subst. rewrite IH; auto.
      assert (H0 : l0 < W) by (apply Hls; auto).
      destruct (c =? j) eqn:Ec; simpl.
      + destruct (in_dec Nat.eq_dec l ls) as [I|NI].
        * destruct (Nat.eq_dec l0 l) as [E|NE]; [subst; contradiction|].
          unfold swapped. rewrite !get3_swap_cell by auto.
          assert (El : (l =? l0) = false) by (apply Nat.eqb_neq; auto).
          rewrite El, !andb_false_r. reflexivity.
        * rewrite get3_swap_cell by auto. rewrite Ec. simpl.
          destruct (Nat.eq_dec l0 l) as [E|NE].
          -- subst. now rewrite Nat.eqb_refl.
          -- assert (El : (l =? l0) = false) by (apply Nat.eqb_neq; auto). now rewrite El.
      + rewrite get3_swap_cell by auto. now rewrite Ec.
  Qed.

  Lemma in_seq_dec : forall l, l < W -> (if in_dec Nat.eq_dec l (seq 0 W) then true else false) = true.
  Proof. intros. destruct (in_dec Nat.eq_dec l (seq 0 W)); auto. exfalso. apply n0. apply in_seq. lia. Qed.

  Lemma outer_loop : forall js A r c l, NoDup js -> (forall x, In x js -> x < n) -> r < n -> c < n -> l < W ->
    get3 (fold_left (fun A j => fold_left (fun A l => c09_swap_cell T zero W n A i (p l) j l) (seq 0 W) A) js A) r c l =
    if (if in_dec Nat.eq_dec c js then true else false) then swapped A r c l else get3 A r c l.
  Proof.
    induction js as [|j0 js IH]; simpl; intros A r c l ND Hjs Hr Hc Hl; auto.
    inversion ND; subst. assert (Hj0 : j0 < n) by (apply Hjs; auto).
    assert (INNER : forall r c l, r < n -> c < n -> l < W ->
              get3 (fold_left (fun A l => c09_swap_cell T zero W n A i (p l) j0 l) (seq 0 W) A) r c l =
              if c =? j0 then swapped A r c l else get3 A r c l).
    { intros. rewrite inner_loop; auto; [|apply seq_NoDup|intros x Hx; apply in_seq in Hx; lia].
      rewrite in_seq_dec by assumption. now rewrite andb_true_r. }
    rewrite IH; auto.
    destruct (in_dec Nat.eq_dec c js) as [I|NI].
    - destruct (Nat.eq_dec j0 c) as [E|NE]; [subst; contradiction|].
      assert (Ec : (c =? j0) = false) by (apply Nat.eqb_neq; auto).
      unfold swapped. rewrite !INNER by auto. now rewrite Ec.
    - rewrite INNER by auto. destruct (Nat.eq_dec j0 c) as [E|NE].
      + subst. now rewrite Nat.eqb_refl.
      + assert (Ec : (c =? j0) = false) by (apply Nat.eqb_neq; auto). now rewrite Ec.
  Qed.
End SwapProof.

(* the literal loops of luDecomposition's row swap compute the per-lane gather used by the model *)
Lemma P_swaprows_loops : forall (T : Type) (zero : T) (W n : nat) (A : list (list (list T))) (i : nat) (imax : list nat) r c l,
  i < n -> (forall l, l < W -> nth l imax 0 < n) -> r < n -> c < n -> l < W ->
  c09_get3 T zero (c09_v_swaprows_loops T zero W n A i imax) r c l =
  c09_get3 T zero (c09_v_swaprows T zero W n A i imax) r c l.
Proof.
  intros. unfold c09_v_swaprows_loops.
  rewrite (outer_loop T zero W n i (fun l => nth l imax 0)); auto; [|apply seq_NoDup|intros x Hx; apply in_seq in Hx; lia].
  destruct (in_dec Nat.eq_dec c (seq 0 n)) as [I|NI]; [|exfalso; apply NI; apply in_seq; lia].
  unfold c09_v_swaprows. unfold c09_get3 at 1.
  rewrite (c09_tab_nth _ n _ r []) by assumption. rewrite (c09_tab_nth _ n _ c []) by assumption.
  rewrite c09_tab_nth by assumption.
  assert (G : forall rr, nth l (c09_vget T zero W A rr c) zero = c09_get3 T zero A rr c l).
  { intros. unfold c09_vget, c09_g_get, c09_get3.
    destruct (lt_dec c (length (nth rr A []))) as [L|L].
    - f_equal. apply nth_indep. exact L.
    - rewrite !nth_overflow with (n := c) by lia. unfold c09_vzero, c09_vbcast. rewrite c09_tab_nth by assumption.
      now destruct l. }
  unfold swapped. rewrite !G. reflexivity.
Qed.

(* ---------------------------------------------------------------- Elim::swap (right-hand side) *)
Section SwapVecProof.
  Variable T : Type.
  Variable zero : T.
  Variable W n : nat.
  Notation get2 := (c09_get2 T zero).
  Notation set2 := (c09_set2 T zero W n).

  Lemma get2_set2 : forall x r l v r' l', r' < n -> l' < W ->
    get2 (set2 x r l v) r' l' = if (r' =? r) && (l' =? l) then v else get2 x r' l'.
  Proof.
    intros. unfold c09_set2. unfold c09_get2 at 1.
    rewrite (c09_tab_nth _ n _ r' []) by assumption. now rewrite c09_tab_nth by assumption.
  Qed.

  Variable i : nat.
  Variable p : nat -> nat.
  Hypothesis i_lt : i < n.
  Hypothesis p_lt : forall l, l < W -> p l < n.

  Definition swapped2 (x : list (list T)) r l : T :=
    if r =? i then get2 x (p l) l else if r =? p l then get2 x i l else get2 x r l.

  Lemma get2_swap_cell2 : forall x l0 r l, r < n -> l < W -> l0 < W ->
    get2 (c09_swap_cell2 T zero W n x i (p l0) l0) r l = if l =? l0 then swapped2 x r l else get2 x r l.
  Proof.
    intros. unfold c09_swap_cell2, swapped2. rewrite !get2_set2 by auto.
    destruct (l =? l0) eqn:El; rewrite ?andb_false_r, ?andb_true_r; auto.
    apply Nat.eqb_eq in El. subst l.
    destruct (r =? p l0) eqn:E1; destruct (r =? i) eqn:E2; simpl; auto.
    apply Nat.eqb_eq in E1, E2. now rewrite <- E1, E2.
  Qed.

  Lemma vec_loop : forall ls x r l, NoDup ls -> (forall y, In y ls -> y < W) -> r < n -> l < W ->
    get2 (fold_left (fun x l => c09_swap_cell2 T zero W n x i (p l) l) ls x) r l =
    if (if in_dec Nat.eq_dec l ls then true else false) then swapped2 x r l else get2 x r l.
  Proof.
    induction ls as [|l0 ls IH]; simpl; intros x r l ND Hls Hr Hl; auto.
    inversion ND; subst. assert (H0 : l0 < W) by (apply Hls; auto).
    rewrite IH; auto.
    destruct (in_dec Nat.eq_dec l ls) as [I|NI].
    - destruct (Nat.eq_dec l0 l) as [E|NE]; [subst; contradiction|].
      assert (El : (l =? l0) = false) by (apply Nat.eqb_neq; auto).
      unfold swapped2. rewrite !get2_swap_cell2 by auto. now rewrite El.
    - rewrite get2_swap_cell2 by auto. destruct (Nat.eq_dec l0 l) as [E|NE].
      + subst. now rewrite Nat.eqb_refl.
      + assert (El : (l =? l0) = false) by (apply Nat.eqb_neq; auto). now rewrite El.
  Qed.
End SwapVecProof.

Lemma P_swapvec_loops : forall (T : Type) (zero : T) (W n : nat) (x : list (list T)) (i : nat) (imax : list nat) r l,
  i < n -> (forall l, l < W -> nth l imax 0 < n) -> r < n -> l < W ->
  c09_get2 T zero (c09_v_swapvec_loops T zero W n x i imax) r l = c09_get2 T zero (c09_v_swapvec T zero W n x i imax) r l.
Proof.
  intros. unfold c09_v_swapvec_loops.
  rewrite (vec_loop T zero W n i (fun l => nth l imax 0)); auto; [|apply seq_NoDup|intros y Hy; apply in_seq in Hy; lia].
  destruct (in_dec Nat.eq_dec l (seq 0 W)) as [I|NI]; [|exfalso; apply NI; apply in_seq; lia].
  unfold c09_v_swapvec. unfold c09_get2 at 1.
  rewrite (c09_tab_nth _ n _ r []) by assumption. rewrite c09_tab_nth by assumption. reflexivity.
Qed.

(* ---------------------------------------------------------------- invert: column un-permutation, one step i *)
Section UnpermProof.
  Variable T : Type.
  Variable zero : T.
  Variable W n : nat.
  Notation get3 := (c09_get3 T zero).
  Variable i : nat.
  Variable p : nat -> nat.
  Hypothesis i_lt : i < n.
  Hypothesis p_lt : forall l, l < W -> p l < n.

  Definition colswapped (M : list (list (list T))) r c l : T :=
    if c =? i then get3 M r (p l) l else if c =? p l then get3 M r i l else get3 M r c l.

  Lemma get3_swap_cols_cell : forall M j l0 r c l, r < n -> c < n -> l < W -> j < n -> l0 < W ->
    get3 (c09_swap_cols_cell T zero W n M j (p l0) i l0) r c l =
    if (r =? j) && (l =? l0) then colswapped M r c l else get3 M r c l.
  Proof.
    intros. unfold c09_swap_cols_cell, colswapped. rewrite !(get3_set3 T zero W n) by auto.
    destruct (r =? j) eqn:Er; destruct (l =? l0) eqn:El; simpl; rewrite ?andb_false_r, ?andb_true_r; auto.
    apply Nat.eqb_eq in Er, El. subst r l.
    destruct (c =? i) eqn:E1; destruct (c =? p l0) eqn:E2; simpl; auto.
  Qed.

  (* the loop over the rows j for one lane l0 *)
  Lemma rows_loop : forall l0 js M r c l, l0 < W -> NoDup js -> (forall x, In x js -> x < n) -> r < n -> c < n -> l < W ->
    get3 (fold_left (fun M j => c09_swap_cols_cell T zero W n M j (p l0) i l0) js M) r c l =
    if (l =? l0) && (if in_dec Nat.eq_dec r js then true else false) then colswapped M r c l else get3 M r c l.
  Proof.
    induction js as [|j0 js IH]; simpl; intros M r c l Hl0 ND Hjs Hr Hc Hl.
    - now rewrite andb_false_r.
    - inversion ND; subst. assert (Hj0 : j0 < n) by (apply Hjs; auto).
      rewrite IH; auto.
      destruct (l =? l0) eqn:El; simpl.
      + destruct (in_dec Nat.eq_dec r js) as [I|NI].
        * destruct (Nat.eq_dec j0 r) as [E|NE]; [subst; contradiction|].
          assert (Er : (r =? j0) = false) by (apply Nat.eqb_neq; auto).
          unfold colswapped. rewrite !get3_swap_cols_cell by auto. now rewrite Er.
        * rewrite get3_swap_cols_cell by auto. rewrite El. destruct (Nat.eq_dec j0 r) as [E|NE].
          -- subst. now rewrite Nat.eqb_refl.
          -- assert (Er : (r =? j0) = false) by (apply Nat.eqb_neq; auto). now rewrite Er.
      + rewrite get3_swap_cols_cell by auto. now rewrite El, andb_false_r.
  Qed.

  Lemma colswapped_id : forall M r c l, i = p l -> colswapped M r c l = get3 M r c l.
  Proof.
    intros. unfold colswapped. rewrite <- H.
    destruct (c =? i) eqn:E; auto. apply Nat.eqb_eq in E. now subst.
  Qed.

  (* the loop over the lanes, with the test i != pi *)
  Lemma lanes_loop : forall ls M r c l, NoDup ls -> (forall x, In x ls -> x < W) -> r < n -> c < n -> l < W ->
    get3 (fold_left (fun M l => if i =? p l then M
                                else fold_left (fun M j => c09_swap_cols_cell T zero W n M j (p l) i l) (seq 0 n) M) ls M) r c l =
    if (if in_dec Nat.eq_dec l ls then true else false) then colswapped M r c l else get3 M r c l.
  Proof.
    induction ls as [|l0 ls IH]; simpl; intros M r c l ND Hls Hr Hc Hl; auto.
    inversion ND; subst. assert (H0 : l0 < W) by (apply Hls; auto).
    assert (STEP : forall r c l, r < n -> c < n -> l < W ->
              get3 (if i =? p l0 then M else fold_left (fun M j => c09_swap_cols_cell T zero W n M j (p l0) i l0) (seq 0 n) M) r c l =
              if l =? l0 then colswapped M r c l else get3 M r c l).
    { intros r' c' l' Hr' Hc' Hl'. destruct (i =? p l0) eqn:Ei.
      - apply Nat.eqb_eq in Ei. destruct (l' =? l0) eqn:El; auto.
        apply Nat.eqb_eq in El. subst l'. symmetry. now apply colswapped_id.
      - rewrite rows_loop; auto; [|apply seq_NoDup|intros x Hx; apply in_seq in Hx; lia].
        destruct (in_dec Nat.eq_dec r' (seq 0 n)) as [I|NI]; [|exfalso; apply NI; apply in_seq; lia].
        now rewrite andb_true_r. }
    rewrite IH; auto.
    destruct (in_dec Nat.eq_dec l ls) as [I|NI].
    - destruct (Nat.eq_dec l0 l) as [E|NE]; [subst; contradiction|].
      assert (El : (l =? l0) = false) by (apply Nat.eqb_neq; auto).
      unfold colswapped. rewrite !STEP by auto. now rewrite El.
    - rewrite STEP by auto. destruct (Nat.eq_dec l0 l) as [E|NE].
      + subst. now rewrite Nat.eqb_refl.
      + assert (El : (l =? l0) = false) by (apply Nat.eqb_neq; auto). now rewrite El.
  Qed.
End UnpermProof.

Lemma P_unperm_step_loops : forall (T : Type) (zero : T) (W n : nat) (M : list (list (list T))) (i : nat) (pv : list nat) r c l,
  i < n -> (forall l, l < W -> nth l pv 0 < n) -> r < n -> c < n -> l < W ->
  c09_get3 T zero (c09_v_unperm_step_loops T zero W n M i pv) r c l =
  c09_get3 T zero (c09_v_unperm_step T zero W n M i pv) r c l.
Proof.
  intros. unfold c09_v_unperm_step_loops.
  rewrite (lanes_loop T zero W n i (fun l => nth l pv 0)); auto; [|apply seq_NoDup|intros x Hx; apply in_seq in Hx; lia].
  destruct (in_dec Nat.eq_dec l (seq 0 W)) as [I|NI]; [|exfalso; apply NI; apply in_seq; lia].
  unfold c09_v_unperm_step. unfold c09_get3 at 1.
  rewrite (c09_tab_nth _ n _ r []) by assumption. rewrite (c09_tab_nth _ n _ c []) by assumption.
  rewrite c09_tab_nth by assumption.
  assert (G : forall cc, nth l (c09_vget T zero W M r cc) zero = c09_get3 T zero M r cc l).
  { intros. unfold c09_vget, c09_g_get, c09_get3.
    destruct (lt_dec cc (length (nth r M []))) as [L|L].
    - f_equal. apply nth_indep. exact L.
    - rewrite !nth_overflow with (n := cc) by lia. unfold c09_vzero, c09_vbcast. rewrite c09_tab_nth by assumption.
      now destruct l. }
  unfold colswapped. rewrite !G. reflexivity.
Qed.

(* ---------------------------------------------------------------- the literal loops inside the algorithms, hypotheses discharged *)
Section Canonical.
  Variable T : Type.
  Variable zero : T.
  Variable W n : nat.
  Notation get3 := (c09_get3 T zero).
  Notation get2 := (c09_get2 T zero).

  Definition canon3 (M : list (list (list T))) : Prop :=
    M = c09_tab n (fun r => c09_tab n (fun c => c09_tab W (fun l => get3 M r c l))).
  Definition canon2 (x : list (list T)) : Prop := x = c09_tab n (fun r => c09_tab W (fun l => get2 x r l)).

  Lemma canon3_tab : forall f, canon3 (c09_tab n (fun r => c09_tab n (fun c => c09_tab W (fun l => f r c l)))).
  Proof.
    intros. unfold canon3. apply c09_tab_ext. intros r Hr. apply c09_tab_ext. intros c Hc. apply c09_tab_ext. intros l Hl.
    unfold c09_get3. rewrite (c09_tab_nth _ n _ r []) by assumption. rewrite (c09_tab_nth _ n _ c []) by assumption. now rewrite c09_tab_nth.
  Qed.
  Lemma canon2_tab : forall f, canon2 (c09_tab n (fun r => c09_tab W (fun l => f r l))).
  Proof.
    intros. unfold canon2. apply c09_tab_ext. intros r Hr. apply c09_tab_ext. intros l Hl.
    unfold c09_get2. rewrite (c09_tab_nth _ n _ r []) by assumption. now rewrite c09_tab_nth.
  Qed.
  Lemma canon3_eq : forall M M', canon3 M -> canon3 M' -> (forall r c l, r < n -> c < n -> l < W -> get3 M r c l = get3 M' r c l) -> M = M'.
  Proof.
    intros M M' C C' E. rewrite C, C'. apply c09_tab_ext. intros r Hr. apply c09_tab_ext. intros c Hc. apply c09_tab_ext. intros l Hl. now apply E.
  Qed.
  Lemma canon2_eq : forall x x', canon2 x -> canon2 x' -> (forall r l, r < n -> l < W -> get2 x r l = get2 x' r l) -> x = x'.
  Proof. intros x x' C C' E. rewrite C, C'. apply c09_tab_ext. intros r Hr. apply c09_tab_ext. intros l Hl. now apply E. Qed.

  Lemma fold_last_canon : forall (X S : Type) (P : S -> Prop) (f : S -> X -> S) (l : list X) (a : S),
    l <> [] -> (forall s x, P (f s x)) -> P (fold_left f l a).
  Proof.
    intros X S P f l a Hne Hf. destruct (exists_last Hne) as [l' [x E]]. subst l. rewrite fold_left_app. simpl. apply Hf.
  Qed.

  (* with at least one row and one lane the literal loops return literally the gather *)
  Lemma swaprows_loops_eq : forall A i imax, 0 < n -> 0 < W -> i < n -> (forall l, l < W -> nth l imax 0 < n) ->
    c09_v_swaprows_loops T zero W n A i imax = c09_v_swaprows T zero W n A i imax.
  Proof.
    intros A i imax Hn HW Hi Hp. apply canon3_eq.
    - unfold c09_v_swaprows_loops. apply fold_last_canon.
      + destruct n; [lia|]. simpl. discriminate.
      + intros s j. apply fold_last_canon.
        * destruct W; [lia|]. simpl. discriminate.
        * intros s' l. unfold c09_swap_cell, c09_set3. apply canon3_tab.
    - unfold c09_v_swaprows. apply canon3_tab.
    - intros. now apply P_swaprows_loops.
  Qed.

  Lemma swapvec_loops_eq : forall x i imax, 0 < W -> i < n -> (forall l, l < W -> nth l imax 0 < n) ->
    c09_v_swapvec_loops T zero W n x i imax = c09_v_swapvec T zero W n x i imax.
  Proof.
    intros x i imax HW Hi Hp. apply canon2_eq.
    - unfold c09_v_swapvec_loops. apply fold_last_canon.
      + destruct W; [lia|]. simpl. discriminate.
      + intros s l. unfold c09_swap_cell2, c09_set2. apply canon2_tab.
    - unfold c09_v_swapvec. apply canon2_tab.
    - intros. now apply P_swapvec_loops.
  Qed.
End Canonical.

(* luDecomposition's loop body with the swaps written as the literal per-lane loops IS the model's loop body: no side condition
   beyond a valid row i and at least one lane (the pivot rows are in range because the pivot search says so) *)
Lemma P_pivot_step_loops : forall (T U : Type) (mul : T -> T -> T) (absr : T -> U) (gt : U -> U -> bool) (nz : U -> bool) (zero one mone : T)
                                  (W : nat) (dp : bool) (n i : nat) (st : c09_vst T), i < n -> 0 < W ->
  c09_v_pivot_step_loops T U mul absr gt nz zero one mone W dp n i st = c09_v_pivot_step T U mul absr gt nz zero one mone W dp n i st.
Proof.
  intros. unfold c09_v_pivot_step_loops, c09_v_pivot_step. destruct dp; auto.
  assert (R : forall l, l < W -> nth l (snd (c09_v_pivsearch T U absr gt zero W (c09_vA T st) i (seq (S i) (n - S i))
                   (c09_vmap W zero absr (c09_vget T zero W (c09_vA T st) i i)) (c09_vbcast W i))) 0 < n).
  { intros l Hl. pose proof (P_pivot_in_range T U absr gt zero W (c09_vA T st) n i (c09_vmap W zero absr (c09_vget T zero W (c09_vA T st) i i)) l H Hl) as P.
    cbv zeta in P. lia. }
  cbv zeta. rewrite swaprows_loops_eq by (auto; lia). rewrite swapvec_loops_eq by auto. reflexivity.
Qed.

(* invert: the whole column un-permutation with the literal loops, entry by entry, for pivot records in range (which luDecomposition guarantees:
   C09_pivot_record_in_range) *)
Section UnpermWhole.
  Variable T : Type.
  Variable zero : T.
  Variable W n : nat.
  Notation get3 := (c09_get3 T zero).

  Lemma lane_vget_get3 : forall M r c l, l < W -> nth l (c09_vget T zero W M r c) zero = get3 M r c l.
  Proof.
    intros. unfold c09_vget, c09_g_get, c09_get3.
    destruct (lt_dec c (length (nth r M []))) as [L|L].
    - f_equal. apply nth_indep. exact L.
    - rewrite !nth_overflow with (n := c) by lia. unfold c09_vzero, c09_vbcast. rewrite c09_tab_nth by assumption. now destruct l.
  Qed.

  Lemma unperm_step_get3 : forall M i pv r c l, r < n -> c < n -> l < W ->
    get3 (c09_v_unperm_step T zero W n M i pv) r c l =
    let p := nth l pv 0 in if c =? i then get3 M r p l else if c =? p then get3 M r i l else get3 M r c l.
  Proof.
    intros. unfold c09_v_unperm_step. unfold c09_get3 at 1.
    rewrite (c09_tab_nth _ n _ r []) by assumption. rewrite (c09_tab_nth _ n _ c []) by assumption. rewrite c09_tab_nth by assumption.
    cbv zeta. now rewrite !lane_vget_get3.
  Qed.

  Lemma P_unperm_loops : forall piv cols M M',
    (forall i, In i cols -> i < n) -> (forall i l, i < n -> l < W -> nth l (nth i piv []) 0 < n) ->
    (forall r c l, r < n -> c < n -> l < W -> get3 M r c l = get3 M' r c l) ->
    forall r c l, r < n -> c < n -> l < W ->
    get3 (c09_v_unperm_loops T zero W n piv cols M) r c l = get3 (c09_v_unperm T zero W n piv cols M') r c l.
  Proof.
    induction cols as [|i cols IH]; simpl; intros M M' Hc Hp E r c l Hr Hcc Hl; auto.
    apply IH; auto.
    intros r' c' l' Hr' Hc' Hl'.
    rewrite P_unperm_step_loops by (auto; intros; apply Hp; auto).
    rewrite !unperm_step_get3 by assumption. cbv zeta.
    assert (Pl : nth l' (nth i piv []) 0 < n) by (apply Hp; auto).
    destruct (c' =? i); [apply E; auto|]. destruct (c' =? nth l' (nth i piv []) 0); apply E; auto.
  Qed.
End UnpermWhole.
