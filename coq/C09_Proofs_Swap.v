(* C09 — proofs, part 3: the literal per-lane swap loops of luDecomposition compute the gather of the model. *)
From Coq Require Import List Arith Bool Lia.
From DuneV Require Import C09_Model C09_Proofs.
Import ListNotations.

Section SwapProof.
  Variable T : Type.
  Variable zero : T.
  Variable W n : nat.
  Notation get3 := (c09_get3 T zero).
  Notation set3 := (c09_set3 T zero W n).

  Lemma get3_set3 : forall A r c l x r' c' l', r' < n -> c' < n -> l' < W ->
    get3 (set3 A r c l x) r' c' l' = if (r' =? r) && (c' =? c) && (l' =? l) then x else get3 A r' c' l'.
  Proof.
    intros. unfold c09_set3. unfold c09_get3 at 1.
    rewrite (c09_tab_nth _ n _ r' []) by assumption.
    rewrite (c09_tab_nth _ n _ c' []) by assumption.
    now rewrite c09_tab_nth by assumption.
  Qed.

  Variable i : nat.
  Variable p : nat -> nat.
  Hypothesis i_lt : i < n.
  Hypothesis p_lt : forall l, l < W -> p l < n.

  Definition swapped (A : list (list (list T))) r c l : T :=
    if r =? i then get3 A (p l) c l else if r =? p l then get3 A i c l else get3 A r c l.

  Lemma get3_swap_cell : forall A j l0 r c l, r < n -> c < n -> l < W -> j < n -> l0 < W ->
    get3 (c09_swap_cell T zero W n A i (p l0) j l0) r c l =
    if (c =? j) && (l =? l0) then swapped A r c l else get3 A r c l.
  Proof.
    intros. unfold c09_swap_cell, swapped. rewrite !get3_set3 by auto.
    destruct (c =? j) eqn:Ec; destruct (l =? l0) eqn:El; simpl;
      rewrite ?andb_false_r, ?andb_true_r; auto.
    apply Nat.eqb_eq in Ec, El. subst c l.
    destruct (r =? p l0) eqn:E1; destruct (r =? i) eqn:E2; simpl; auto.
    apply Nat.eqb_eq in E1, E2. now rewrite <- E1, E2.
  Qed.

  Lemma inner_loop : forall j ls A r c l, j < n -> NoDup ls -> (forall x, In x ls -> x < W) -> r < n -> c < n -> l < W ->
    get3 (fold_left (fun A l => c09_swap_cell T zero W n A i (p l) j l) ls A) r c l =
    if (c =? j) && (if in_dec Nat.eq_dec l ls then true else false) then swapped A r c l else get3 A r c l.
  Proof.
    induction ls as [|l0 ls IH]; simpl; intros A r c l Hj ND Hls Hr Hc Hl.
    - now rewrite andb_false_r.
    - inversion ND; subst. rewrite IH; auto.
      assert (H0 : l0 < W) by (apply Hls; auto).
      destruct (c =? j) eqn:Ec; simpl.
      + destruct (in_dec Nat.eq_dec l ls) as [I|NI].
        * destruct (Nat.eq_dec l0 l) as [E|NE]; [subst; contradiction|].
          unfold swapped. rewrite !get3_swap_cell by auto.
          assert (El : (l =? l0) = false) by (apply Nat.eqb_neq; auto).
          rewrite El, !andb_false_r. reflexivity.
        * rewrite get3_swap_cell by auto. rewrite Ec. simpl.
          destruct (Nat.eq_dec l0 l) as [E|NE].
          -- subst. now rewrite Nat.eqb_refl.
          -- assert (El : (l =? l0) = false) by (apply Nat.eqb_neq; auto). now rewrite El.
      + rewrite get3_swap_cell by auto. now rewrite Ec.
  Qed.

  Lemma in_seq_dec : forall l, l < W -> (if in_dec Nat.eq_dec l (seq 0 W) then true else false) = true.
  Proof. intros. destruct (in_dec Nat.eq_dec l (seq 0 W)); auto. exfalso. apply n0. apply in_seq. lia. Qed.

  Lemma outer_loop : forall js A r c l, NoDup js -> (forall x, In x js -> x < n) -> r < n -> c < n -> l < W ->
    get3 (fold_left (fun A j => fold_left (fun A l => c09_swap_cell T zero W n A i (p l) j l) (seq 0 W) A) js A) r c l =
    if (if in_dec Nat.eq_dec c js then true else false) then swapped A r c l else get3 A r c l.
  Proof.
    induction js as [|j0 js IH]; simpl; intros A r c l ND Hjs Hr Hc Hl; auto.
    inversion ND; subst. assert (Hj0 : j0 < n) by (apply Hjs; auto).
    assert (INNER : forall r c l, r < n -> c < n -> l < W ->
              get3 (fold_left (fun A l => c09_swap_cell T zero W n A i (p l) j0 l) (seq 0 W) A) r c l =
              if c =? j0 then swapped A r c l else get3 A r c l).
    { intros. rewrite inner_loop; auto; [|apply seq_NoDup|intros x Hx; apply in_seq in Hx; lia].
      rewrite in_seq_dec by assumption. now rewrite andb_true_r. }
    rewrite IH; auto.
    destruct (in_dec Nat.eq_dec c js) as [I|NI].
    - destruct (Nat.eq_dec j0 c) as [E|NE]; [subst; contradiction|].
      assert (Ec : (c =? j0) = false) by (apply Nat.eqb_neq; auto).
      unfold swapped. rewrite !INNER by auto. now rewrite Ec.
    - rewrite INNER by auto. destruct (Nat.eq_dec j0 c) as [E|NE].
      + subst. now rewrite Nat.eqb_refl.
      + assert (Ec : (c =? j0) = false) by (apply Nat.eqb_neq; auto). now rewrite Ec.
  Qed.
End SwapProof.

(* the literal loops of luDecomposition's row swap compute the per-lane gather used by the model *)
Lemma P_swaprows_loops : forall (T : Type) (zero : T) (W n : nat) (A : list (list (list T))) (i : nat) (imax : list nat) r c l,
  i < n -> (forall l, l < W -> nth l imax 0 < n) -> r < n -> c < n -> l < W ->
  c09_get3 T zero (c09_v_swaprows_loops T zero W n A i imax) r c l =
  c09_get3 T zero (c09_v_swaprows T zero W n A i imax) r c l.
Proof.
  intros. unfold c09_v_swaprows_loops.
  rewrite (outer_loop T zero W n i (fun l => nth l imax 0)); auto; [|apply seq_NoDup|intros x Hx; apply in_seq in Hx; lia].
  destruct (in_dec Nat.eq_dec c (seq 0 n)) as [I|NI]; [|exfalso; apply NI; apply in_seq; lia].
  unfold c09_v_swaprows. unfold c09_get3 at 1.
  rewrite (c09_tab_nth _ n _ r []) by assumption. rewrite (c09_tab_nth _ n _ c []) by assumption.
  rewrite c09_tab_nth by assumption.
  assert (G : forall rr, nth l (c09_vget T zero W A rr c) zero = c09_get3 T zero A rr c l).
  { intros. unfold c09_vget, c09_g_get, c09_get3.
    destruct (lt_dec c (length (nth rr A []))) as [L|L].
    - f_equal. apply nth_indep. exact L.
    - rewrite !nth_overflow with (n := c) by lia. unfold c09_vzero, c09_vbcast. rewrite c09_tab_nth by assumption.
      now destruct l. }
  unfold swapped. rewrite !G. reflexivity.
Qed.
