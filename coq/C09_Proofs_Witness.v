(* C09 — a concrete carrier (rationals with an absorbing error element standing for NaN/inf) and the
   witnesses: refutation of lane transparency of determinant() as the code stood, non-vacuity examples. *)
From Coq Require Import List Arith Bool Lia QArith Qabs.
From DuneV Require Import C09_Model C09_Spec.
Import ListNotations.
Local Close Scope Q_scope.

Definition c09w_T : Type := option Q.
Definition c09w_bin (f : Q -> Q -> Q) (a b : c09w_T) : c09w_T :=
  match a, b with Some x, Some y => Some (Qred (f x y)) | _, _ => None end.
Definition c09w_sub := c09w_bin Qminus.
Definition c09w_mul := c09w_bin Qmult.
(* division by zero yields the error element (NaN / inf of the doubles); it is absorbing *)
Definition c09w_div (a b : c09w_T) : c09w_T :=
  match a, b with Some x, Some y => if Qeq_bool y 0%Q then None else Some (Qred (x / y)%Q) | _, _ => None end.
Definition c09w_abs (a : c09w_T) : c09w_T := option_map (fun x => Qred (Qabs x)) a.
Definition c09w_gt (a b : c09w_T) : bool := match a, b with Some x, Some y => negb (Qle_bool x y) | _, _ => false end.
Definition c09w_nz (a : c09w_T) : bool := match a with Some x => negb (Qeq_bool x 0%Q) | None => true end.
Definition c09w_q (z : Z) : c09w_T := Some (inject_Z z).

Definition c09w_vdet := c09_v_det c09w_T c09w_T c09w_sub c09w_mul c09w_div c09w_abs c09w_gt c09w_nz (c09w_q 0) (c09w_q 1) (c09w_q (-1)).
Definition c09w_vdet_old := c09_v_det_before_fix c09w_T c09w_T c09w_sub c09w_mul c09w_div c09w_abs c09w_gt c09w_nz (c09w_q 0) (c09w_q 1) (c09w_q (-1)).
Definition c09w_sdet_old := c09_s_det_before_fix c09w_T c09w_T c09w_sub c09w_mul c09w_div c09w_abs c09w_gt c09w_nz (c09w_q 0) (c09w_q 1) (c09w_q (-1)).
Definition c09w_sdet := c09_s_det c09w_T c09w_T c09w_sub c09w_mul c09w_div c09w_abs c09w_gt c09w_nz (c09w_q 0) (c09w_q 1) (c09w_q (-1)).
Definition c09w_vsolve := c09_v_solve c09w_T c09w_T c09w_sub c09w_mul c09w_div c09w_abs c09w_gt c09w_nz (c09w_q 0) (c09w_q 1) (c09w_q (-1)).
Definition c09w_ssolve := c09_s_solve c09w_T c09w_T c09w_sub c09w_mul c09w_div c09w_abs c09w_gt c09w_nz (c09w_q 0) (c09w_q 1) (c09w_q (-1)).
Definition c09w_vinvert := c09_v_invert c09w_T c09w_T c09w_sub c09w_mul c09w_div c09w_abs c09w_gt c09w_nz (c09w_q 0) (c09w_q 1) (c09w_q (-1)).
Definition c09w_trace := c09_v_trace c09w_T c09w_T c09w_sub c09w_mul c09w_div c09w_abs c09w_gt c09w_nz (c09w_q 0) (c09w_q 1) (c09w_q (-1)).

(* two lanes; lane 0 has a zero first column (singular at step 0), lane 1 is regular (determinant 98) — corpus/C09/cases.txt *)
Definition c09w_A0 : list (list Z) := [[0;1;2;3];[0;2;1;1];[0;1;3;1];[0;5;1;2]]%Z.
Definition c09w_A1 : list (list Z) := [[1;2;3;4];[2;1;5;1];[3;1;1;2];[1;1;2;7]]%Z.
Definition c09w_zip (A B : list (list Z)) : list (list (list c09w_T)) :=
  c09_map2 (c09_map2 (fun a b => [c09w_q a; c09w_q b])) A B.
Definition c09w_A := c09w_zip c09w_A0 c09w_A1.
(* both lanes regular, different pivot rows in every step *)
Definition c09w_B := c09w_zip c09w_A1 [[1;1;2;7];[3;1;1;2];[2;1;5;1];[1;2;3;4]]%Z.
Definition c09w_b : list (list c09w_T) := [[c09w_q 1; c09w_q 2]; [c09w_q 0; c09w_q 1]; [c09w_q 3; c09w_q (-1)]; [c09w_q 2; c09w_q 2]].

(* the determinant as the code stood before 1209091: lane 0 is the error element, the scalar determinant of lane 0 is 0 *)
Lemma P_det_lanes_before_fix_refuted :
  exists (T U : Type) sub mul div absr gt nz zero one mone W n A l, l < W /\
    nth l (c09_v_det_before_fix T U sub mul div absr gt nz zero one mone W true n A) zero
    <> c09_s_det_before_fix T U sub mul div absr gt nz zero one mone true n (c09_lane_mat T zero l A).
Proof.
  exists c09w_T, c09w_T, c09w_sub, c09w_mul, c09w_div, c09w_abs, c09w_gt, c09w_nz, (c09w_q 0), (c09w_q 1), (c09w_q (-1)), 2, 4, c09w_A, 0.
  split; [lia|]. vm_compute. discriminate.
Qed.

Lemma P_witness_values :
  c09w_vdet_old 2 true 4 c09w_A = [None; c09w_q 98] /\
  c09w_vdet 2 true 4 c09w_A = [c09w_q 0; c09w_q 98] /\
  c09w_sdet true 4 (c09_lane_mat c09w_T (c09w_q 0) 0 c09w_A) = c09w_q 0 /\
  c09w_sdet_old true 4 (c09_lane_mat c09w_T (c09w_q 0) 0 c09w_A) = c09w_q 0.
Proof. vm_compute. split; [|split; [|split]]; reflexivity. Qed.

(* non-vacuity: a solve in which the two lanes choose different pivot rows and both complete; a solve in which
   one lane is singular (the call as a whole reports FMatrixError) *)
Lemma P_example_solve :
  (exists x, c09w_vsolve 2 true 4 c09w_B c09w_b = C09_Ok x /\
             c09w_ssolve true 4 (c09_lane_mat c09w_T (c09w_q 0) 1 c09w_B) (c09_lane_vec c09w_T (c09w_q 0) 1 c09w_b)
               = C09_Ok (c09_lane_vec c09w_T (c09w_q 0) 1 x)) /\
  map fst (c09w_trace 2 true 4 4 0 (c09_v_init c09w_T (c09w_q 1) 2 4 c09w_B [])) = [[2; 1]; [2; 3]; [2; 2]; [3; 3]] /\
  (exists e, c09w_vsolve 2 true 4 c09w_A c09w_b = C09_FMatrixError e) /\
  (exists B, c09w_vinvert 2 true 4 c09w_B = C09_Ok B).
Proof.
  split; [|split; [|split]].
  - eexists. split; vm_compute; reflexivity.
  - vm_compute. reflexivity.
  - eexists. vm_compute. reflexivity.
  - eexists. vm_compute. reflexivity.
Qed.

(* ---- infinity_norm before 1037165: the S-lane type took the !HasNaN variant, the scalar type the HasNaN variant ---- *)
Definition c09w_add := c09w_bin Qplus.
Definition c09w_lt (a b : c09w_T) : bool := match a, b with Some x, Some y => negb (Qle_bool y x) | _, _ => false end.
(* one lane, 2x2, first row contains the error element *)
Definition c09w_N : list (list (list c09w_T)) := [[[None]; [c09w_q 1]]; [[c09w_q 2]; [c09w_q 3]]].

Lemma P_infnorm_before_fix_refuted :
  exists (T U : Type) (zero : T) (absr : T -> U) uadd umul udiv ult uzero uone W A l, l < W /\
    nth l (c09_v_infnorm_before_fix T U zero absr uadd umul udiv ult uzero uone W A) (c09_nU T U zero absr)
    <> c09_s_infnorm T U absr uadd umul udiv ult uzero uone true (c09_lane_mat T zero l A).
Proof.
  exists c09w_T, c09w_T, (c09w_q 0), c09w_abs, c09w_add, c09w_mul, c09w_div, c09w_lt, (c09w_q 0), (c09w_q 1), 1, c09w_N, 0.
  split; [lia|]. vm_compute. discriminate.
Qed.

Lemma P_infnorm_witness_values :
  c09_v_infnorm_before_fix c09w_T c09w_T (c09w_q 0) c09w_abs c09w_add c09w_mul c09w_div c09w_lt (c09w_q 0) (c09w_q 1) 1 c09w_N = [c09w_q 5] /\
  c09_v_infnorm c09w_T c09w_T (c09w_q 0) c09w_abs c09w_add c09w_mul c09w_div c09w_lt (c09w_q 0) (c09w_q 1) 1 true c09w_N = [None] /\
  c09_s_infnorm c09w_T c09w_T c09w_abs c09w_add c09w_mul c09w_div c09w_lt (c09w_q 0) (c09w_q 1) true (c09_lane_mat c09w_T (c09w_q 0) 0 c09w_N) = None.
Proof. vm_compute. split; [|split]; reflexivity. Qed.

(* ---- v -= v[0] on (5, 7, 9): operands read before the operation give (0, 2, 4); re-reading the aliased lane gives (0, 7, 9) ---- *)
Lemma P_assign_byref_refuted :
  exists (f : nat -> nat -> nat) (v : list nat) (k : nat), (k < length v)%nat /\
    c09_assign_vs_lane_byref f 0%nat v k <> fst (c09_assign_vs_lane f 0%nat v k).
Proof. exists Nat.sub, [5; 7; 9]%nat, 0%nat. split; [simpl; lia|]. vm_compute. discriminate. Qed.

Lemma P_assign_alias_values :
  fst (c09_assign_vs_lane Nat.sub 0%nat [5; 7; 9]%nat 0) = [0; 2; 4]%nat /\
  c09_assign_vs_lane_byref Nat.sub 0%nat [5; 7; 9]%nat 0 = [0; 7; 9]%nat /\
  c09_assign_vs_lane_byref Nat.sub 0%nat [5; 7; 9]%nat 2 = fst (c09_assign_vs_lane Nat.sub 0%nat [5; 7; 9]%nat 2).
Proof. vm_compute. split; [|split]; reflexivity. Qed.

(* ---- non-vacuity of the full-dispatch theorems (closed forms n = 2, 3) and of the horizontal maximum ---- *)
Definition c09w_neg (a : c09w_T) : c09w_T := option_map (fun x => Qred (Qopp x)) a.
Definition c09w_M3 : list (list (list c09w_T)) := c09w_zip [[2;1;0];[1;3;1];[0;1;4]]%Z [[1;2;3];[4;5;6];[7;8;10]]%Z.
Definition c09w_M2 : list (list (list c09w_T)) := c09w_zip [[2;1];[1;3]]%Z [[0;1];[1;0]]%Z.
Lemma P_example_closed_forms :
  c09_v_det_full c09w_T c09w_T c09w_add c09w_sub c09w_mul c09w_div c09w_abs c09w_gt c09w_nz (c09w_q 0) (c09w_q 1) (c09w_q (-1)) 2 true 3 c09w_M3
    = [c09w_q 18; c09w_q (-3)] /\
  c09_s_det_full c09w_T c09w_T c09w_add c09w_sub c09w_mul c09w_div c09w_abs c09w_gt c09w_nz (c09w_q 0) (c09w_q 1) (c09w_q (-1)) true 3
    (c09_lane_mat c09w_T (c09w_q 0) 1 c09w_M3) = c09w_q (-3) /\
  c09_v_invert_full c09w_T c09w_T c09w_add c09w_sub c09w_mul c09w_div c09w_neg c09w_abs c09w_gt c09w_nz (c09w_q 0) (c09w_q 1) (c09w_q (-1)) 2 true 2 c09w_M2
    = C09_Ok [[[Some (3 # 5); c09w_q 0]; [Some (-1 # 5); c09w_q 1]]; [[Some (-1 # 5); c09w_q 1]; [Some (2 # 5); c09w_q 0]]]%Q /\
  (exists x, c09_v_solve_full c09w_T c09w_T c09w_add c09w_sub c09w_mul c09w_div c09w_abs c09w_gt c09w_nz (c09w_q 0) (c09w_q 1) (c09w_q (-1)) 2 true 3 c09w_M3
               [[c09w_q 1; c09w_q 1]; [c09w_q 0; c09w_q 2]; [c09w_q 1; c09w_q 0]] = C09_Ok x).
Proof. split; [|split; [|split]]; try (vm_compute; reflexivity). eexists. vm_compute. reflexivity. Qed.

Lemma P_example_hmax :
  (forall a b c, Nat.ltb a b = false -> Nat.ltb a c = true -> Nat.ltb c b = false) /\ (forall a, Nat.ltb a a = false) /\
  c09_hmax Nat.ltb 0%nat [3; 7; 5]%nat = 7%nat /\ c09_hmin Nat.ltb 0%nat [3; 7; 2; 5]%nat = 2%nat.
Proof.
  split; [|split; [|split]]; try reflexivity.
  - intros a b c H1 H2. apply Nat.ltb_ge in H1. apply Nat.ltb_lt in H2. apply Nat.ltb_ge. lia.
  - intros. apply Nat.ltb_irrefl.
Qed.
