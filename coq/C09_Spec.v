(* C09 — the abstract statement.  A SIMD value IS the family of its lanes: every operation on SIMD
   values must produce, in lane l, what the scalar operation produces on the lane-l operands.

   For the operator table the spec is c09_lanewise below (the plan c09_plan of C09_Model.v is the
   executable form: it names, for every output lane, the scalar computation to compare with).
   For the dense-matrix algorithms the spec of the S-lane result is: run the SCALAR algorithm on the
   lane-l matrix, for every l (c09_spec_*: executable oracle, applied by the check to the lanes of the
   implementation's own output). *)
From Coq Require Import List Arith Bool.
From DuneV Require Import C09_Model.
Import ListNotations.

(* lane-wise transparency of a binary SIMD operation F with respect to the scalar operation f *)
Definition c09_lanewise2 {X Y Z : Type} (S : nat) (dx : X) (dy : Y) (dz : Z)
           (F : list X -> list Y -> list Z) (f : X -> Y -> Z) : Prop :=
  forall v w, length v = S -> length w = S ->
    length (F v w) = S /\ forall l, l < S -> c09_lane dz l (F v w) = f (c09_lane dx l v) (c09_lane dy l w).
Definition c09_lanewise1 {X Y : Type} (S : nat) (dx : X) (dy : Y) (F : list X -> list Y) (f : X -> Y) : Prop :=
  forall v, length v = S -> length (F v) = S /\ forall l, l < S -> c09_lane dy l (F v) = f (c09_lane dx l v).

Section C09_SpecLU.
  Variables T U : Type.
  Variables sub mul div : T -> T -> T.
  Variable absr : T -> U.
  Variable gt : U -> U -> bool.
  Variable nz : U -> bool.
  Variables zero one mone : T.
  Variable W : nat.

  (* what a W-lane solve / invert / determinant has to return: per lane the scalar result; the call as a
     whole reports FMatrixError iff some lane's scalar call does *)
  Definition c09_spec_solve (doPivoting : bool) (n : nat) (A : list (list (list T))) (b : list (list T))
    : list (c09_res (list T)) :=
    c09_tab W (fun l => c09_s_solve T U sub mul div absr gt nz zero one mone doPivoting n
                          (c09_lane_mat T zero l A) (c09_lane_vec T zero l b)).
  Definition c09_spec_invert (doPivoting : bool) (n : nat) (A : list (list (list T))) : list (c09_res (list (list T))) :=
    c09_tab W (fun l => c09_s_invert T U sub mul div absr gt nz zero one mone doPivoting n (c09_lane_mat T zero l A)).
  Definition c09_spec_det (doPivoting : bool) (n : nat) (A : list (list (list T))) : list T :=
    c09_tab W (fun l => c09_s_det T U sub mul div absr gt nz zero one mone doPivoting n (c09_lane_mat T zero l A)).
End C09_SpecLU.
