(* Extraction of the C10 model for the correspondence check.  ExtrOcamlBasic only:
   bool/option/unit/list/prod/sumbool map to OCaml's; N, positive, Z, nat, ascii stay Coq inductives. *)
From Coq Require Import Extraction ExtrOcamlBasic.
From Coq Require Import List NArith ZArith Ascii.
From DuneV Require Import Params_gen C10_Model C10_Spec.
Extraction Language OCaml.
Extraction "c10_model.ml"
  c10_ndigits c10_val c10_assign c10_add c10_incr c10_sub c10_mul c10_lt c10_le c10_gt c10_ge c10_ne c10_eq
  c10_div c10_mod c10_and c10_or c10_xor c10_not c10_shl c10_shr c10_touint c10_todouble c10_print
  c10_max c10_min c10_limit_digits c10_wfb
  c10_spec_binop c10_spec_cmp c10_spec_shift c10_spec_width.
