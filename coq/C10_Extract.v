(* Extraction of the C10 model for the correspondence check.  ExtrOcamlBasic only:
   bool/option/unit/list/prod/sumbool map to OCaml's; N, positive, Z, nat, ascii stay Coq inductives. *)
From Coq Require Import Extraction ExtrOcamlBasic.
From Coq Require Import List NArith ZArith Ascii.
From DuneV Require Import Params_gen C10_Model C10_Spec.
Extraction Language OCaml.
Extraction "c10_model.ml"
  c10_ndigits c10_val c10_assign c10_add c10_incr c10_sub c10_mul c10_lt c10_le c10_gt c10_ge c10_ne c10_eq
  c10_div c10_mod c10_and c10_or c10_xor c10_not c10_shl c10_shr c10_touint c10_todouble c10_print
  c10_max c10_min c10_limit_digits c10_wfb
  c10_numeric_limits c10_ctor_default c10_ctor_signed c10_to_uintmax c10_apply
  c10_free_right c10_free_left c10_free_right_conv c10_free_left_conv c10_free_right_signed c10_free_left_signed
  c10_div_alias c10_mod_alias c10_shr_checked c10_todouble_trace c10_hash c10_hash_combine c10_stream_insert
  c10_bits c10_bitmask c10_compbitmask c10_overflowmask c10_param_hexdigits c10_param_uintmax_digits
  c10_param_double_digits c10_param_size_t_bits c10_param_touint_bits
  c10_run c10_spec_run c10_print_ios c10_print_ios_written c10_put_hex c10_spec_field c10_print_case c10_hexval_ci
  c10_spec_binop c10_spec_cmp c10_spec_shift c10_spec_width c10_spec_todouble c10_spec_sigdigits.
