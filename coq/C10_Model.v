(* C10 — executable model of Dune::bigunsignedint<k> (dune/common/bigunsignedint.hh).
   Definitions only (no proofs): the model must run even when a proof breaks.
   Digits are little-endian base 2^16, as in the C++ array `digit[n]`.
   Every function below mirrors one member function, loop by loop, with the carry /
   borrow / temporary variables of the code. *)
From Coq Require Import List NArith ZArith Bool Ascii.
From DuneV Require Import Params_gen.
Import ListNotations.
Local Open Scope N_scope.

Definition c10_bits : N := c10_param_bits.            (* 16: numeric_limits<uint16_t>::digits *)
Definition c10_B : N := 2 ^ c10_bits.                 (* 65536 *)
Definition c10_bitmask : N := c10_param_bitmask.      (* 0xFFFF *)
Definition c10_compbitmask : N := c10_param_compbitmask. (* 0xFFFF0000 *)
Definition c10_overflowmask : N := c10_param_overflowmask. (* 0x1 *)

Definition big := list N.

(* n = k/bits + (k%bits != 0) *)
Definition c10_ndigits (k : N) : nat := N.to_nat (k / c10_bits + (if (k mod c10_bits =? 0) then 0 else 1)).

Fixpoint c10_val (ds : big) : N :=
  match ds with [] => 0 | d :: r => d + c10_B * c10_val r end.

Definition c10_wf (n : nat) (ds : big) : Prop := length ds = n /\ Forall (fun d => d < c10_B) ds.
Definition c10_wfb (n : nat) (ds : big) : bool := Nat.eqb (length ds) n && forallb (fun d => d <? c10_B) ds.

Definition c10_zero (n : nat) : big := repeat 0 n.

(* assign(uintmax_t x): no = min(n, 64/16) digits from x, rest zero *)
Fixpoint c10_assign_loop (no : nat) (x : N) : big :=
  match no with O => [] | S m => N.land x c10_bitmask :: c10_assign_loop m (N.shiftr x c10_bits) end.
Definition c10_assign (n : nat) (x : N) : big :=
  let no := Nat.min n (N.to_nat (c10_param_uintmax_digits / c10_bits)) in
  c10_assign_loop no x ++ repeat 0 (n - no)%nat.

(* operator+= : overflow carried in a uint_fast32_t *)
Fixpoint c10_add_loop (a b : big) (ov : N) : big :=
  match a, b with
  | x :: a', y :: b' =>
      let sum := x + y + ov in
      N.land sum c10_bitmask :: c10_add_loop a' b' (N.land (N.shiftr sum c10_bits) c10_overflowmask)
  | _, _ => []
  end.
Definition c10_add (a b : big) : big := c10_add_loop a b 0.

(* operator++ *)
Fixpoint c10_incr_loop (a : big) (ov : N) : big :=
  match a with
  | x :: a' => let sum := x + ov in
      N.land sum c10_bitmask :: c10_incr_loop a' (N.land (N.shiftr sum c10_bits) c10_overflowmask)
  | [] => []
  end.
Definition c10_incr (a : big) : big := c10_incr_loop a 1.

(* operator-= : signed borrow in an int_fast32_t *)
Fixpoint c10_sub_loop (a b : big) (ov : Z) : big :=
  match a, b with
  | x :: a', y :: b' =>
      let diff := (Z.of_N x - Z.of_N y - ov)%Z in
      if (0 <=? diff)%Z then Z.to_N diff :: c10_sub_loop a' b' 0%Z
      else Z.to_N (diff + Z.of_N c10_bitmask + 1)%Z :: c10_sub_loop a' b' 1%Z
  | _, _ => []
  end.
Definition c10_sub (a b : big) : big := c10_sub_loop a b 0%Z.

(* operator*= : one row per digit m of the right factor, written at offset m into a
   zeroed bigunsignedint<2k> (n2 digits), the row's last carry is dropped as in the code;
   rows accumulated with the 2k-wide operator+; finally the low n digits are copied. *)
Fixpoint c10_row_loop (a : big) (xm : N) (ov : N) : big :=
  match a with
  | d :: a' => let p := d * xm + ov in
      N.land p c10_bitmask :: c10_row_loop a' xm (N.land (N.shiftr p c10_bits) c10_bitmask)
  | [] => []
  end.
Definition c10_pad (n2 : nat) (l : big) : big := firstn n2 (l ++ repeat 0 n2).
Definition c10_single (n2 : nat) (a : big) (m : nat) (xm : N) : big :=
  c10_pad n2 (repeat 0 m ++ c10_row_loop a xm 0).
Fixpoint c10_mul_loop (n2 : nat) (a : big) (xs : big) (m : nat) (acc : big) : big :=
  match xs with
  | xm :: xs' => c10_mul_loop n2 a xs' (S m) (c10_add acc (c10_single n2 a m xm))
  | [] => acc
  end.
Definition c10_mul (n2 : nat) (a b : big) : big :=
  firstn (length a) (c10_mul_loop n2 a b 0 (c10_zero n2)).

(* comparisons: scan from the most significant digit *)
Fixpoint c10_cmp_rev (ra rb : big) (dflt : bool) : bool :=
  match ra, rb with
  | x :: ra', y :: rb' => if x <? y then true else if y <? x then false else c10_cmp_rev ra' rb' dflt
  | _, _ => dflt
  end.
Definition c10_lt (a b : big) : bool := c10_cmp_rev (rev a) (rev b) false.
Definition c10_le (a b : big) : bool := c10_cmp_rev (rev a) (rev b) true.
Definition c10_gt (a b : big) : bool := negb (c10_le a b).
Definition c10_ge (a b : big) : bool := negb (c10_lt a b).
Fixpoint c10_ne (a b : big) : bool :=
  match a, b with
  | x :: a', y :: b' => if x =? y then c10_ne a' b' else true
  | _, _ => false
  end.
Definition c10_eq (a b : big) : bool := negb (c10_ne a b).

(* operator/= and %= : repeated subtraction.  Results:  *)
Inductive c10_res := C10_Ok (v : big) | C10_MathError | C10_OutOfFuel
  | C10_Exception      (* Dune::Exception of the constructor from a negative signed integer *)
  | C10_OutOfBounds.   (* an index past digit[n-1] would be read/written (undefined behaviour in C++) *)
Fixpoint c10_div_loop (fuel : nat) (a x result : big) : c10_res :=
  match fuel with
  | O => C10_OutOfFuel
  | S f => if c10_ge a x then c10_div_loop f (c10_sub a x) x (c10_incr result) else C10_Ok result
  end.
Definition c10_is_zero (a : big) : bool := forallb (fun d => d =? 0) a.
Definition c10_div (fuel : nat) (a x : big) : c10_res :=
  if c10_is_zero x then C10_MathError else c10_div_loop fuel a x (c10_zero (length a)).
Fixpoint c10_mod_loop (fuel : nat) (a x : big) : c10_res :=
  match fuel with
  | O => C10_OutOfFuel
  | S f => if c10_ge a x then c10_mod_loop f (c10_sub a x) x else C10_Ok a
  end.
Definition c10_mod (fuel : nat) (a x : big) : c10_res :=
  if c10_is_zero x then C10_MathError else c10_mod_loop fuel a x.

(* bitwise *)
Fixpoint c10_map2 (f : N -> N -> N) (a b : big) : big :=
  match a, b with x :: a', y :: b' => f x y :: c10_map2 f a' b' | _, _ => [] end.
Definition c10_and := c10_map2 N.land.
Definition c10_or := c10_map2 N.lor.
Definition c10_xor := c10_map2 N.lxor.
(* ~digit[i] is computed in int and truncated to uint16_t *)
Definition c10_not (a : big) : big := map (fun d => c10_bitmask - d) a.

(* operator<< : pass 1 moves whole digits up by j = shift/bits, pass 2 shifts by r = shift%bits
   from the top digit downwards, or-ing the spill into digit i+1 *)
Definition c10_shl_digits (n : nat) (a : big) (j : nat) : big := firstn n (repeat 0 j ++ a).
(* pass 2 on the list: processing index i from n-1 down to 0 only changes digit i and digit i+1,
   and digit i+1 has already been processed, so the result is computed right-to-left as a fold
   carrying the spill of the digit below into the digit above. *)
Fixpoint c10_shl_bits (a : big) (r : N) (spill_in : N) : big :=
  match a with
  | d :: a' => let temp := N.shiftl d r in
      N.lor (N.land temp c10_bitmask) spill_in :: c10_shl_bits a' r (N.shiftr temp c10_bits)
  | [] => []
  end.
Definition c10_shl (a : big) (s : N) : big :=
  let n := length a in
  c10_shl_bits (c10_shl_digits n a (N.to_nat (s / c10_bits))) (s mod c10_bits) 0.

(* operator>> : pass 1 moves digits down by j, pass 2: temp = d << (bits - r);
   digit i = (temp & compbitmask) >> bits;  digit i-1 |= temp & bitmask *)
Definition c10_shr_digits (n : nat) (a : big) (j : nat) : big := skipn j a ++ repeat 0 (Nat.min j n).
Fixpoint c10_shr_bits (a : big) (r : N) : big :=
  match a with
  | d :: a' =>
      let hi := N.shiftr (N.land (N.shiftl d (c10_bits - r)) c10_compbitmask) c10_bits in
      let from_above := match a' with d' :: _ => N.land (N.shiftl d' (c10_bits - r)) c10_bitmask | [] => 0 end in
      N.lor hi from_above :: c10_shr_bits a' r
  | [] => []
  end.
Definition c10_shr (a : big) (s : N) : big :=
  let n := length a in
  c10_shr_bits (c10_shr_digits n a (N.to_nat (s / c10_bits))) (s mod c10_bits).

(* touint: the low 32 bits.  (digit[1] << bits) + digit[0] for n >= 2 (int arithmetic, converted
   to uint_least32_t, i.e. modulo 2^32), digit[0] for n = 1. *)
Definition c10_touint (a : big) : N :=
  match a with
  | d0 :: d1 :: _ => (N.shiftl d1 c10_bits + d0) mod 2 ^ c10_param_touint_bits
  | [d0] => d0
  | [] => 0
  end.

(* todouble: the (at most 53/16 = 3) most significant digits below the leading zero range are
   accumulated (every intermediate is an integer below 2^48, hence exactly the double the code
   holds), then scaled by 2^(bits*last) with ldexp.  The model returns (mantissa, exponent). *)
Fixpoint c10_leading_zeros (ra : big) : nat :=
  match ra with d :: r => if d =? 0 then S (c10_leading_zeros r) else O | [] => O end.
Definition c10_first_in_zero_range (a : big) : nat := (length a - c10_leading_zeros (rev a))%nat.
Definition c10_todouble (a : big) : N * N :=
  let first := c10_first_in_zero_range a in
  let repr := N.to_nat (c10_param_double_digits / c10_bits) in
  let last := if Nat.ltb repr first then (first - repr)%nat else O in
  (* digits last .. first-1, most significant first *)
  let ds := rev (firstn (first - last)%nat (skipn last a)) in
  (fold_left (fun v d => v * c10_B + d) ds 0, c10_bits * N.of_nat last).

(* print: every hex digit, most significant first (the `leading` flag of the code is never set,
   so the number is zero-padded to 4n hex digits) *)
Definition c10_hexchar (x : N) : ascii :=
  match x with
  | 0 => "0" | 1 => "1" | 2 => "2" | 3 => "3" | 4 => "4" | 5 => "5" | 6 => "6" | 7 => "7"
  | 8 => "8" | 9 => "9" | 10 => "a" | 11 => "b" | 12 => "c" | 13 => "d" | 14 => "e" | _ => "f"
  end%char.
(* for (int d=hexdigits-1; d>=0; d--)  current = (digit[i]>>(d*4))&0xF *)
Definition c10_print_digit (d : N) : list ascii :=
  map (fun s => c10_hexchar (N.land (N.shiftr d (c10_param_nibble_bits * N.of_nat s)) c10_param_nibble_mask))
      (rev (seq 0 (N.to_nat c10_param_hexdigits))).
Definition c10_print (a : big) : list ascii := flat_map c10_print_digit (rev a).

(* numeric_limits *)
Definition c10_max (n : nat) : big := repeat c10_param_max_digit n.
Definition c10_min (n : nat) : big := c10_assign n c10_param_lim_min_literal.
Definition c10_limit_digits (n : nat) : N := c10_bits * N.of_nat n.

(* every member of std::numeric_limits<bigunsignedint<k>>; the constants are re-read from the source.
   The function members other than max() are `static_cast<bigunsignedint<k>>(<literal>)`, i.e. the
   constructor from (signed) int applied to the literal. *)
Record c10_limits := {
  c10_l_is_specialized : bool; c10_l_is_signed : bool; c10_l_is_integer : bool; c10_l_is_exact : bool;
  c10_l_radix : N; c10_l_digits : N;
  c10_l_min_exponent : N; c10_l_min_exponent10 : N; c10_l_max_exponent : N; c10_l_max_exponent10 : N;
  c10_l_has_infinity : bool; c10_l_has_quiet_NaN : bool; c10_l_has_signaling_NaN : bool;
  c10_l_has_denorm_plus1 : N; c10_l_has_denorm_loss : bool;
  c10_l_is_iec559 : bool; c10_l_is_bounded : bool; c10_l_is_modulo : bool; c10_l_traps : bool; c10_l_tinyness_before : bool;
  c10_l_round_style_plus1 : N;
  c10_l_min : big; c10_l_max : big; c10_l_epsilon : big; c10_l_round_error : big;
  c10_l_infinity : big; c10_l_quiet_NaN : big; c10_l_signaling_NaN : big; c10_l_denorm_min : big }.
Definition c10_numeric_limits (n : nat) : c10_limits := {|
  c10_l_is_specialized := c10_param_lim_is_specialized; c10_l_is_signed := c10_param_lim_is_signed;
  c10_l_is_integer := c10_param_lim_is_integer; c10_l_is_exact := c10_param_lim_is_exact;
  c10_l_radix := c10_param_lim_radix; c10_l_digits := c10_limit_digits n;
  c10_l_min_exponent := c10_param_lim_min_exponent; c10_l_min_exponent10 := c10_param_lim_min_exponent10;
  c10_l_max_exponent := c10_param_lim_max_exponent; c10_l_max_exponent10 := c10_param_lim_max_exponent10;
  c10_l_has_infinity := c10_param_lim_has_infinity; c10_l_has_quiet_NaN := c10_param_lim_has_quiet_NaN;
  c10_l_has_signaling_NaN := c10_param_lim_has_signaling_NaN;
  c10_l_has_denorm_plus1 := c10_param_lim_has_denorm_plus1; c10_l_has_denorm_loss := c10_param_lim_has_denorm_loss;
  c10_l_is_iec559 := c10_param_lim_is_iec559; c10_l_is_bounded := c10_param_lim_is_bounded;
  c10_l_is_modulo := c10_param_lim_is_modulo; c10_l_traps := c10_param_lim_traps;
  c10_l_tinyness_before := c10_param_lim_tinyness_before;
  c10_l_round_style_plus1 := c10_param_lim_round_style_plus1;
  c10_l_min := c10_min n; c10_l_max := c10_max n;
  c10_l_epsilon := c10_assign n c10_param_lim_epsilon_literal;
  c10_l_round_error := c10_assign n c10_param_lim_round_error_literal;
  c10_l_infinity := c10_assign n c10_param_lim_infinity_literal;
  c10_l_quiet_NaN := c10_assign n c10_param_lim_quiet_NaN_literal;
  c10_l_signaling_NaN := c10_assign n c10_param_lim_signaling_NaN_literal;
  c10_l_denorm_min := c10_assign n c10_param_lim_denorm_min_literal |}.

(* ---------- constructors.  bigunsignedint() : assign(0u).
   template<Signed> bigunsignedint(Signed y): negative y throws Dune::Exception, otherwise assign(y)
   (y converted to uintmax_t: value preserving for y >= 0).  sbits = width of the signed type. *)
Definition c10_ctor_default (n : nat) : big := c10_assign n 0.
Definition c10_ctor_signed (n : nat) (y : Z) : c10_res :=
  if (y <? 0)%Z then C10_Exception else C10_Ok (c10_assign n (Z.to_N y)).
(* implicit conversion of a built-in integer to std::uintmax_t (modulo 2^64), as applied to the built-in
   argument of the free operator templates `operator+ (const bigunsignedint<k>&, std::uintmax_t)` etc.
   when they are called with a signed argument *)
Definition c10_to_uintmax (y : Z) : N := Z.to_N (y mod 2 ^ Z.of_N c10_param_uintmax_digits)%Z.

(* ---------- the binary operators as one table (DUNE_BINOP: temp = *this; temp OP= x; return temp) *)
Inductive c10_binop := OpAdd | OpSub | OpMul | OpDiv | OpMod | OpAnd | OpOr | OpXor.
Definition c10_apply (n2 fuel : nat) (o : c10_binop) (a b : big) : c10_res :=
  match o with
  | OpAdd => C10_Ok (c10_add a b) | OpSub => C10_Ok (c10_sub a b) | OpMul => C10_Ok (c10_mul n2 a b)
  | OpDiv => c10_div fuel a b | OpMod => c10_mod fuel a b
  | OpAnd => C10_Ok (c10_and a b) | OpOr => C10_Ok (c10_or a b) | OpXor => C10_Ok (c10_xor a b)
  end.
(* free operator templates with a built-in operand on the right / on the left:
   bigunsignedint<k> temp(y); return x OP temp;   resp.   bigunsignedint<k> temp(x); return temp OP y; *)
Definition c10_free_right (n2 fuel : nat) (o : c10_binop) (x : big) (y : N) : c10_res :=
  c10_apply n2 fuel o x (c10_assign (length x) y).
Definition c10_free_left (n2 fuel : nat) (o : c10_binop) (x : N) (y : big) : c10_res :=
  c10_apply n2 fuel o (c10_assign (length y) x) y.
(* the same with a SIGNED built-in operand.  `_conv`: the code as written (one overload taking
   std::uintmax_t: a negative argument is converted modulo 2^64 without any report);
   `_signed`: the temporary is built by the constructor that matches the argument type
   (proposed fix C10-5), so that negatives are rejected exactly as in direct construction. *)
Definition c10_free_right_conv (n2 fuel : nat) (o : c10_binop) (x : big) (y : Z) : c10_res :=
  c10_free_right n2 fuel o x (c10_to_uintmax y).
Definition c10_free_left_conv (n2 fuel : nat) (o : c10_binop) (x : Z) (y : big) : c10_res :=
  c10_free_left n2 fuel o (c10_to_uintmax x) y.
Definition c10_free_right_signed (n2 fuel : nat) (o : c10_binop) (x : big) (y : Z) : c10_res :=
  match c10_ctor_signed (length x) y with C10_Ok t => c10_apply n2 fuel o x t | e => e end.
Definition c10_free_left_signed (n2 fuel : nat) (o : c10_binop) (x : Z) (y : big) : c10_res :=
  match c10_ctor_signed (length y) x with C10_Ok t => c10_apply n2 fuel o t y | e => e end.

(* ---------- compound division with the divisor ALIASING the dividend (`a /= a`, `a %= a`) in the code as
   written: x is a reference to *this, so every `*this -= x` also zeroes the divisor the loop tests against *)
Fixpoint c10_div_alias_loop (fuel : nat) (a result : big) : c10_res :=
  match fuel with
  | O => C10_OutOfFuel
  | S f => if c10_ge a a then c10_div_alias_loop f (c10_sub a a) (c10_incr result) else C10_Ok result
  end.
Definition c10_div_alias (fuel : nat) (a : big) : c10_res :=
  if c10_is_zero a then C10_MathError else c10_div_alias_loop fuel a (c10_zero (length a)).
Fixpoint c10_mod_alias_loop (fuel : nat) (a : big) : c10_res :=
  match fuel with
  | O => C10_OutOfFuel
  | S f => if c10_ge a a then c10_mod_alias_loop f (c10_sub a a) else C10_Ok a
  end.
Definition c10_mod_alias (fuel : nat) (a : big) : c10_res :=
  if c10_is_zero a then C10_MathError else c10_mod_alias_loop fuel a.

(* ---------- operator>> with the bounds of its first loop made explicit:
   `for (unsigned int i=0; i<n-j; i++) result.digit[i] = digit[i+j]`  --  n-j is an int; for j > n it is
   negative and converted to unsigned for the comparison, the loop then runs past both arrays.
   (operator<< uses `for (int i=n-1-j; i>=0; i--)`: no iteration for j >= n, the result is zero.) *)
Definition c10_shr_checked (a : big) (s : N) : c10_res :=
  if Nat.ltb (length a) (N.to_nat (s / c10_bits)) then C10_OutOfBounds else C10_Ok (c10_shr a s).

(* ---------- todouble: the double accumulator after every iteration of
   `for(i=firstInZeroRange-1; i>=lastInRepresentableRange; --i) val = val*(1<<bits)+digit[i]` *)
Definition c10_todouble_trace (a : big) : list N :=
  let first := c10_first_in_zero_range a in
  let repr := N.to_nat (c10_param_double_digits / c10_bits) in
  let last := if Nat.ltb repr first then (first - repr)%nat else O in
  let ds := rev (firstn (first - last)%nat (skipn last a)) in
  snd (fold_left (fun '(v, tr) d => let v' := v * (N.shiftl c10_param_todouble_base_literal c10_bits) + d in (v', tr ++ [v'])) ds (0, [])).

(* ---------- hash_value(arg) = hash_range(arg.digit, arg.digit+n): seed 0, hash_combine per digit;
   hash_combiner<8> (64-bit size_t), Dune::hash<uint16_t> = std::hash<uint16_t> = the value itself *)
Definition c10_hash_combine (seed h : N) : N :=
  let M := 2 ^ c10_param_size_t_bits in
  let a := (N.lxor seed h * c10_param_hash_kmul) mod M in
  let a := N.lxor a (N.shiftr a c10_param_hash_shift_a) in
  let b := (N.lxor h a * c10_param_hash_kmul) mod M in
  let b := N.lxor b (N.shiftr b c10_param_hash_shift_b) in
  (b * c10_param_hash_kmul) mod M.
Definition c10_hash (a : big) : N := fold_left c10_hash_combine a c10_param_hash_seed0.

(* ---------- operator<< (std::ostream&, x): x.print(s).  Stream state modelled: the base the stream is
   left in (print ends with `s << std::dec` whatever the base was before). *)
Inductive c10_base := C10_dec | C10_hex | C10_oct.
Definition c10_stream_insert (st : list ascii * c10_base) (a : big) : list ascii * c10_base :=
  (fst st ++ c10_print a, C10_dec).

(* ---------- object histories: a small instruction set over a register file of bigunsignedint<k> objects.
   Every instruction is one C++ statement on the objects r[0..]; d, s, t may coincide (aliasing).
     ICompound o d s    r[d] o= r[s]                 IBinary o d s t   r[d] = r[s] o r[t]
     IIncr d            ++r[d]                       INot d s          r[d] = ~r[s]
     IShl/IShr d s c    r[d] = r[s] << c  /  >> c    ICopy d s         r[d] = r[s]  (copy/move assignment, copy construction)
     ISwap d s          std::swap(r[d], r[s])
     IBuiltinU o d u    r[d] o= u  (unsigned built-in, through the converting constructor / free operator)
     IBuiltinS o d y    r[d] o= y  (signed built-in; a negative one throws Dune::Exception)
     IBuiltinLeft o d u r[d] = u o r[d]
     ICmp c d s         r[d] c r[s]   (result recorded)   ICmpU c d u   r[d] c u (built-in converted by the constructor)
   An instruction that throws records the exception and leaves EVERY register unchanged (operator/= and %= test the
   divisor before touching *this; the constructor of the temporary throws before the operator runs). *)
Inductive c10_cmpop := CmpLt | CmpLe | CmpGt | CmpGe | CmpEq | CmpNe.
Inductive c10_instr :=
  | C10_ICompound (o : c10_binop) (d s : nat) | C10_IBinary (o : c10_binop) (d s t : nat)
  | C10_IIncr (d : nat) | C10_INot (d s : nat) | C10_IShl (d s : nat) (c : N) | C10_IShr (d s : nat) (c : N)
  | C10_ICopy (d s : nat) | C10_ISwap (d s : nat)
  | C10_IBuiltinU (o : c10_binop) (d : nat) (u : N) | C10_IBuiltinS (o : c10_binop) (d : nat) (y : Z)
  | C10_IBuiltinLeft (o : c10_binop) (d : nat) (u : N)
  | C10_ICmp (c : c10_cmpop) (d s : nat) | C10_ICmpU (c : c10_cmpop) (d : nat) (u : N).
Inductive c10_event := C10_EvBool (b : bool) | C10_EvMathError | C10_EvException | C10_EvOutOfFuel | C10_EvOutOfBounds.
Definition c10_upd {A : Type} (l : list A) (d : nat) (v : A) : list A :=
  if Nat.ltb d (length l) then firstn d l ++ v :: skipn (S d) l else l.
Definition c10_cmp_apply (c : c10_cmpop) (a b : big) : bool :=
  match c with CmpLt => c10_lt a b | CmpLe => c10_le a b | CmpGt => c10_gt a b | CmpGe => c10_ge a b
             | CmpEq => c10_eq a b | CmpNe => c10_ne a b end.
Definition c10_event_of (r : c10_res) : c10_event :=
  match r with C10_MathError => C10_EvMathError | C10_Exception => C10_EvException
             | C10_OutOfBounds => C10_EvOutOfBounds | _ => C10_EvOutOfFuel end.
Definition c10_step (n : nat) (n2 fuel : nat) (i : c10_instr) (st : list big * list c10_event) : list big * list c10_event :=
  let '(rs, ev) := st in
  let r x := nth x rs (c10_zero n) in
  let fin d (x : c10_res) := match x with C10_Ok v => (c10_upd rs d v, ev) | e => (rs, ev ++ [c10_event_of e]) end in
  match i with
  | C10_ICompound o d s => fin d (c10_apply n2 fuel o (r d) (r s))
  | C10_IBinary o d s t => fin d (c10_apply n2 fuel o (r s) (r t))
  | C10_IIncr d => fin d (C10_Ok (c10_incr (r d)))
  | C10_INot d s => fin d (C10_Ok (c10_not (r s)))
  | C10_IShl d s c => fin d (C10_Ok (c10_shl (r s) c))
  | C10_IShr d s c => fin d (c10_shr_checked (r s) c)
  | C10_ICopy d s => fin d (C10_Ok (r s))
  | C10_ISwap d s => (c10_upd (c10_upd rs d (r s)) s (r d), ev)
  | C10_IBuiltinU o d u => fin d (c10_free_right n2 fuel o (r d) u)
  | C10_IBuiltinS o d y => fin d (c10_free_right_signed n2 fuel o (r d) y)
  | C10_IBuiltinLeft o d u => fin d (c10_free_left n2 fuel o u (r d))
  | C10_ICmp c d s => (rs, ev ++ [C10_EvBool (c10_cmp_apply c (r d) (r s))])
  | C10_ICmpU c d u => (rs, ev ++ [C10_EvBool (c10_cmp_apply c (r d) (c10_assign n u))])
  end.
Definition c10_run (n n2 fuel : nat) (prog : list c10_instr) (st : list big * list c10_event) : list big * list c10_event :=
  fold_left (fun s i => c10_step n n2 fuel i s) prog st.

(* ======================= round 6: print / operator<< as a function of the STREAM STATE =======================
   Formatting state of a std::ostream as far as an integer / character insertion depends on it:
   basefield, showbase, uppercase, showpos, adjustfield, fill character, field width, and the digit grouping
   of the imbued locale's numpunct facet (group size 0 = no grouping, separator character). *)
Inductive c10_adjust := C10_adj_left | C10_adj_right | C10_adj_internal | C10_adj_other.   (* other: no bit / several bits *)
Record c10_ios := {
  c10_s_base : c10_base; c10_s_showbase : bool; c10_s_uppercase : bool; c10_s_showpos : bool;
  c10_s_adjust : c10_adjust; c10_s_fill : ascii; c10_s_width : N; c10_s_group : N; c10_s_sep : ascii }.
Definition c10_ios_set_base (s : c10_ios) (b : c10_base) : c10_ios :=
  {| c10_s_base := b; c10_s_showbase := c10_s_showbase s; c10_s_uppercase := c10_s_uppercase s; c10_s_showpos := c10_s_showpos s;
     c10_s_adjust := c10_s_adjust s; c10_s_fill := c10_s_fill s; c10_s_width := c10_s_width s; c10_s_group := c10_s_group s; c10_s_sep := c10_s_sep s |}.
Definition c10_ios_set_showbase (s : c10_ios) (b : bool) : c10_ios :=
  {| c10_s_base := c10_s_base s; c10_s_showbase := b; c10_s_uppercase := c10_s_uppercase s; c10_s_showpos := c10_s_showpos s;
     c10_s_adjust := c10_s_adjust s; c10_s_fill := c10_s_fill s; c10_s_width := c10_s_width s; c10_s_group := c10_s_group s; c10_s_sep := c10_s_sep s |}.
Definition c10_ios_set_width (s : c10_ios) (w : N) : c10_ios :=
  {| c10_s_base := c10_s_base s; c10_s_showbase := c10_s_showbase s; c10_s_uppercase := c10_s_uppercase s; c10_s_showpos := c10_s_showpos s;
     c10_s_adjust := c10_s_adjust s; c10_s_fill := c10_s_fill s; c10_s_width := w; c10_s_group := c10_s_group s; c10_s_sep := c10_s_sep s |}.
Definition c10_adjust_is_left (s : c10_ios) : bool := match c10_s_adjust s with C10_adj_left => true | _ => false end.

(* the letters a-f of a hex conversion under std::uppercase *)
Definition c10_upcase (c : ascii) : ascii :=
  match c with "a" => "A" | "b" => "B" | "c" => "C" | "d" => "D" | "e" => "E" | "f" => "F" | _ => c end%char.
Definition c10_hexchar_case (uc : bool) (x : N) : ascii := if uc then c10_upcase (c10_hexchar x) else c10_hexchar x.
(* the hex digits of v, most significant first (at least one digit) *)
Fixpoint c10_hex_of_loop (fuel : nat) (uc : bool) (v : N) (acc : list ascii) : list ascii :=
  match fuel with
  | O => acc
  | S f => if v <? 16 then c10_hexchar_case uc v :: acc else c10_hex_of_loop f uc (v / 16) (c10_hexchar_case uc (v mod 16) :: acc)
  end.
Definition c10_hex_of (uc : bool) (v : N) : list ascii := c10_hex_of_loop (S (N.to_nat (N.log2 v))) uc v [].
(* numpunct grouping (one repeated group size g > 0): a separator between groups of g digits counted from the right;
   the argument is the digit string REVERSED (least significant first), cnt = digits already in the current group *)
Fixpoint c10_group_rev (g : N) (sep : ascii) (cnt : N) (l : list ascii) : list ascii :=
  match l with
  | [] => []
  | c :: r => if (0 <? g) && (cnt =? g) then sep :: c :: c10_group_rev g sep 1 r else c :: c10_group_rev g sep (cnt + 1) r
  end.
Definition c10_group (g : N) (sep : ascii) (l : list ascii) : list ascii := rev (c10_group_rev g sep 0 (rev l)).
(* padding of a field to the width: adjustfield == left: after the text; == internal: between prefix and digits;
   every other value: in front.  The width is reset to 0 by every formatted insertion. *)
Definition c10_pad_field (s : c10_ios) (prefix body : list ascii) : list ascii :=
  let p := repeat (c10_s_fill s) (N.to_nat (c10_s_width s) - length (prefix ++ body)) in
  match c10_s_adjust s with
  | C10_adj_left => prefix ++ body ++ p
  | C10_adj_internal => prefix ++ p ++ body
  | _ => p ++ prefix ++ body
  end.
(* `s << std::hex << v` for a non-negative int v: basefield := hex; num_put: hex digits (uppercase), grouping, base prefix
   0x/0X for v != 0 under showbase (showpos has no effect on a hex conversion), padding; width := 0 *)
Definition c10_put_hex (s : c10_ios) (v : N) : list ascii * c10_ios :=
  let s := c10_ios_set_base s C10_hex in
  let digits := c10_group (c10_s_group s) (c10_s_sep s) (c10_hex_of (c10_s_uppercase s) v) in
  let prefix := if c10_s_showbase s && negb (v =? 0) then ["0"; if c10_s_uppercase s then "X" else "x"]%char else [] in
  (c10_pad_field s prefix digits, c10_ios_set_width s 0).
(* `s << c` for a char c: padded like a string of length 1; width := 0 *)
Definition c10_put_char (s : c10_ios) (c : ascii) : list ascii * c10_ios :=
  (c10_pad_field s [] [c], c10_ios_set_width s 0).
(* for (i=0; i<padding; i++) s << s.fill(); *)
Fixpoint c10_put_fill (s : c10_ios) (k : nat) : list ascii * c10_ios :=
  match k with
  | O => ([], s)
  | S k' => let '(o, s1) := c10_put_char s (c10_s_fill s) in let '(o', s2) := c10_put_fill s1 k' in (o ++ o', s2)
  end.
(* the two nested loops of print: for i = n-1..0, for d = hexdigits-1..0: s << std::hex << ((digit[i]>>(d*4))&0xF)
   (`leading` is never true, so every hex digit is written and the trailing `if (leading) s << "0"` never runs) *)
Definition c10_print_nibbles (s : c10_ios) (a : big) : list ascii * c10_ios :=
  fold_left (fun os d =>
    fold_left (fun os sh =>
      let '(c, s') := c10_put_hex (snd os) (N.land (N.shiftr d (c10_param_nibble_bits * N.of_nat sh)) c10_param_nibble_mask) in
      (fst os ++ c, s')) (rev (seq 0 (N.to_nat c10_param_hexdigits))) os) (rev a) ([], s).
(* print AS WRITTEN in /repo (c59aad0): showbase is taken off for the digits and restored, the stream is left in
   decimal; a pending field width is consumed by the FIRST hex digit alone *)
Definition c10_print_ios_written (st : c10_ios) (a : big) : list ascii * c10_ios :=
  let showbase := c10_s_showbase st in
  let s := c10_ios_set_showbase st false in
  let '(o, s) := c10_print_nibbles s a in
  let s := c10_ios_set_base s C10_dec in
  (o, if showbase then c10_ios_set_showbase s true else s).
(* print after proposed fix C10-7: the field width is taken off the stream (`s.width(0)`) and applied to the number as a
   whole: padding = width - n*hexdigits fill characters in front, or behind when adjustfield == left *)
Definition c10_print_ios (st : c10_ios) (a : big) : list ascii * c10_ios :=
  let showbase := c10_s_showbase st in
  let s := c10_ios_set_showbase st false in
  let padding := (N.to_nat (c10_s_width s) - N.to_nat c10_param_hexdigits * length a)%nat in
  let s := c10_ios_set_width s 0 in
  let left := c10_adjust_is_left s in
  let '(o1, s) := if left then ([], s) else c10_put_fill s padding in
  let '(o2, s) := c10_print_nibbles s a in
  let '(o3, s) := if left then c10_put_fill s padding else ([], s) in
  let s := c10_ios_set_base s C10_dec in
  (o1 ++ o2 ++ o3, if showbase then c10_ios_set_showbase s true else s).
