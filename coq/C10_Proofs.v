(* C10 — proofs: the digit-list model computes arithmetic modulo 2^(16 n). *)
From Coq Require Import List NArith ZArith Bool Lia Arith.
From Coq Require Import ZifyBool ZifyNat ZifyN.
From DuneV Require Import Params_gen C10_Model C10_Spec.
Import ListNotations.
Local Open Scope N_scope.

Ltac Zify.zify_post_hook ::= Z.div_mod_to_equations.

(* ---------- constants re-read from the source (Params_gen.v): the proofs depend on these facts *)
Lemma c10_bits_16 : c10_bits = 16. Proof. reflexivity. Qed.
Lemma c10_B_val : c10_B = 65536. Proof. reflexivity. Qed.
Lemma c10_bitmask_ones : c10_bitmask = N.ones 16. Proof. reflexivity. Qed.
Lemma c10_overflowmask_ones : c10_overflowmask = N.ones 1. Proof. reflexivity. Qed.
Lemma c10_compbitmask_val : c10_compbitmask = N.shiftl (N.ones 16) 16. Proof. reflexivity. Qed.

Lemma land_bitmask x : N.land x c10_bitmask = x mod 65536.
Proof. rewrite c10_bitmask_ones, N.land_ones. reflexivity. Qed.
Lemma land_ovmask x : N.land x c10_overflowmask = x mod 2.
Proof. rewrite c10_overflowmask_ones, N.land_ones. reflexivity. Qed.
Lemma shiftr_bits x : N.shiftr x c10_bits = x / 65536.
Proof. rewrite c10_bits_16, N.shiftr_div_pow2. reflexivity. Qed.

Definition digit (d : N) : Prop := d < 65536.
Definition wf (ds : big) : Prop := Forall digit ds.

Definition Bp (n : nat) : N := 65536 ^ N.of_nat n.
Lemma Bp_0 : Bp 0 = 1. Proof. reflexivity. Qed.
Lemma Bp_S n : Bp (S n) = 65536 * Bp n.
Proof. unfold Bp. rewrite Nat2N.inj_succ, N.pow_succ_r'. reflexivity. Qed.
Lemma Bp_pos n : 0 < Bp n.
Proof. unfold Bp. apply N.neq_0_lt_0, N.pow_nonzero. discriminate. Qed.
Lemma Bp_add n m : Bp (n + m) = Bp n * Bp m.
Proof. unfold Bp. rewrite Nat2N.inj_add, N.pow_add_r. reflexivity. Qed.
Lemma Bp_width n : Bp n = 2 ^ c10_spec_width n.
Proof. unfold Bp, c10_spec_width. rewrite c10_bits_16. change 65536 with (2 ^ 16). rewrite <- N.pow_mul_r. reflexivity. Qed.

Global Opaque Bp.

Lemma val_cons d r : c10_val (d :: r) = d + 65536 * c10_val r.
Proof. reflexivity. Qed.
Lemma val_nil : c10_val [] = 0. Proof. reflexivity. Qed.
Global Opaque c10_val.

Lemma val_bound ds : wf ds -> c10_val ds < Bp (length ds).
Proof.
  induction 1 as [|d r Hd Hr IH]; cbn [length].
  - rewrite val_nil, Bp_0. lia.
  - rewrite val_cons, Bp_S. unfold digit in Hd. lia.
Qed.

Lemma val_app l1 l2 : c10_val (l1 ++ l2) = c10_val l1 + Bp (length l1) * c10_val l2.
Proof.
  induction l1 as [|d r IH]; cbn [app length].
  - rewrite val_nil, Bp_0. lia.
  - rewrite !val_cons, IH, Bp_S. lia.
Qed.

Lemma val_repeat0 n : c10_val (repeat 0 n) = 0.
Proof. induction n as [|n IH]; cbn [repeat]; [apply val_nil|rewrite val_cons, IH; reflexivity]. Qed.
Lemma wf_repeat0 n : wf (repeat 0 n).
Proof. induction n; cbn [repeat]; constructor; [unfold digit; lia|assumption]. Qed.

Lemma val_inj a b : wf a -> wf b -> length a = length b -> c10_val a = c10_val b -> a = b.
Proof.
  intros Ha; revert b; induction Ha as [|x a' Hx Ha' IH]; intros b Hb Hl Hv; destruct b as [|y b']; try discriminate; [reflexivity|].
  inversion Hb as [|? ? Hy Hb']; subst. rewrite !val_cons in Hv. unfold digit in *.
  assert (x = y /\ c10_val a' = c10_val b') as [-> E] by lia.
  f_equal. apply IH; auto.
Qed.

(* the key splitting fact for one base-2^16 digit position *)
Lemma split_digit s t M : M <> 0 -> (s + 65536 * t) mod (65536 * M) = s mod 65536 + 65536 * ((s / 65536 + t) mod M).
Proof.
  intros HM. rewrite N.mod_mul_r by lia.
  replace (s + 65536 * t) with (s + t * 65536) by lia.
  rewrite N.mod_add, N.div_add by lia. reflexivity.
Qed.

(* ---------- operator+= and operator++ *)
Lemma add_loop_spec a : forall b ov, wf a -> wf b -> length a = length b -> ov <= 1 ->
  wf (c10_add_loop a b ov) /\ length (c10_add_loop a b ov) = length a /\
  c10_val (c10_add_loop a b ov) = (c10_val a + c10_val b + ov) mod Bp (length a).
Proof.
  induction a as [|x a' IH]; intros b ov Ha Hb Hl Hov; destruct b as [|y b']; try discriminate.
  - cbn [c10_add_loop length]. repeat split; [constructor|]. rewrite val_nil, Bp_0, N.mod_1_r. reflexivity.
  - inversion Ha as [|? ? Hx Ha']; inversion Hb as [|? ? Hy Hb']; subst. unfold digit in Hx, Hy.
    cbn [c10_add_loop length]. rewrite land_bitmask, land_ovmask, shiftr_bits.
    set (sum := x + y + ov).
    assert (Hs : sum < 2 * 65536) by (unfold sum; lia).
    assert (Hc : (sum / 65536) mod 2 = sum / 65536).
    { apply N.mod_small. apply N.div_lt_upper_bound; lia. }
    rewrite Hc.
    destruct (IH b' (sum / 65536) Ha' Hb') as (W & L & V); [injection Hl; auto| |].
    { apply N.lt_succ_r. apply N.div_lt_upper_bound; lia. }
    repeat split.
    + constructor; [unfold digit; apply N.mod_lt; lia|exact W].
    + rewrite L; reflexivity.
    + rewrite !val_cons, V, Bp_S.
      replace (x + 65536 * c10_val a' + (y + 65536 * c10_val b') + ov) with (sum + 65536 * (c10_val a' + c10_val b')) by (unfold sum; lia).
      rewrite split_digit by (pose proof (Bp_pos (length a')); lia).
      f_equal. f_equal. f_equal. lia.
Qed.

Lemma add_spec a b : wf a -> wf b -> length a = length b ->
  wf (c10_add a b) /\ length (c10_add a b) = length a /\
  c10_val (c10_add a b) = (c10_val a + c10_val b) mod Bp (length a).
Proof.
  intros Ha Hb Hl. destruct (add_loop_spec a b 0 Ha Hb Hl) as (W & L & V); [lia|].
  unfold c10_add. repeat split; auto. rewrite V. f_equal. lia.
Qed.

Lemma incr_loop_spec a : forall ov, wf a -> ov <= 1 ->
  wf (c10_incr_loop a ov) /\ length (c10_incr_loop a ov) = length a /\
  c10_val (c10_incr_loop a ov) = (c10_val a + ov) mod Bp (length a).
Proof.
  induction a as [|x a' IH]; intros ov Ha Hov.
  - cbn [c10_incr_loop length]. repeat split; [constructor|]. rewrite val_nil, Bp_0, N.mod_1_r. reflexivity.
  - inversion Ha as [|? ? Hx Ha']; subst. unfold digit in Hx.
    cbn [c10_incr_loop length]. rewrite land_bitmask, land_ovmask, shiftr_bits.
    set (sum := x + ov).
    assert (Hs : sum < 2 * 65536) by (unfold sum; lia).
    assert (Hc : (sum / 65536) mod 2 = sum / 65536).
    { apply N.mod_small. apply N.div_lt_upper_bound; lia. }
    rewrite Hc.
    destruct (IH (sum / 65536) Ha') as (W & L & V).
    { apply N.lt_succ_r. apply N.div_lt_upper_bound; lia. }
    repeat split.
    + constructor; [unfold digit; apply N.mod_lt; lia|exact W].
    + rewrite L; reflexivity.
    + rewrite !val_cons, V, Bp_S.
      replace (x + 65536 * c10_val a' + ov) with (sum + 65536 * c10_val a') by (unfold sum; lia).
      rewrite split_digit by (pose proof (Bp_pos (length a')); lia).
      f_equal. f_equal. f_equal. lia.
Qed.

Lemma incr_spec a : wf a ->
  wf (c10_incr a) /\ length (c10_incr a) = length a /\ c10_val (c10_incr a) = (c10_val a + 1) mod Bp (length a).
Proof. intros Ha. apply incr_loop_spec; [assumption|lia]. Qed.

(* ---------- operator-= *)
Lemma sub_loop_spec a : forall b ov, wf a -> wf b -> length a = length b -> (ov = 0 \/ ov = 1)%Z ->
  wf (c10_sub_loop a b ov) /\ length (c10_sub_loop a b ov) = length a /\
  Z.of_N (c10_val (c10_sub_loop a b ov)) = ((Z.of_N (c10_val a) - Z.of_N (c10_val b) - ov) mod Z.of_N (Bp (length a)))%Z.
Proof.
  induction a as [|x a' IH]; intros b ov Ha Hb Hl Hov; destruct b as [|y b']; try discriminate.
  - cbn [c10_sub_loop length]. repeat split; [constructor|]. rewrite val_nil, Bp_0, Z.mod_1_r. reflexivity.
  - inversion Ha as [|? ? Hx Ha']; inversion Hb as [|? ? Hy Hb']; subst. unfold digit in Hx, Hy.
    cbn [c10_sub_loop length].
    assert (Hm : Z.of_N c10_bitmask = 65535%Z) by reflexivity. rewrite Hm.
    set (diff := (Z.of_N x - Z.of_N y - ov)%Z).
    assert (Hl' : length a' = length b') by (injection Hl; auto).
    pose proof (Bp_pos (length a')) as HP.
    destruct (Z.leb_spec 0 diff) as [Hd|Hd].
    + destruct (IH b' 0%Z Ha' Hb' Hl') as (W & L & V); [auto|].
      repeat split.
      * constructor; [unfold digit, diff in *; lia|exact W].
      * cbn [length]. rewrite L; reflexivity.
      * rewrite !val_cons, Bp_S. rewrite !N2Z.inj_add, !N2Z.inj_mul, V, Z2N.id by lia.
        change (Z.of_N 65536) with 65536%Z.
        set (va := Z.of_N (c10_val a')) in *. set (vb := Z.of_N (c10_val b')) in *. set (M := Z.of_N (Bp (length a'))) in *.
        assert (0 < M)%Z by (unfold M; lia).
        replace (Z.of_N x + 65536 * va - (Z.of_N y + 65536 * vb) - ov)%Z with (diff + (va - vb - 0) * 65536)%Z by (unfold diff; lia).
        rewrite Z.rem_mul_r by lia. rewrite Z.mod_add, Z.div_add by lia.
        rewrite (Z.mod_small diff), (Z.div_small diff) by (unfold diff in *; lia). f_equal.
    + destruct (IH b' 1%Z Ha' Hb' Hl') as (W & L & V); [auto|].
      repeat split.
      * constructor; [unfold digit, diff in *; lia|exact W].
      * cbn [length]. rewrite L; reflexivity.
      * rewrite !val_cons, Bp_S. rewrite !N2Z.inj_add, !N2Z.inj_mul, V, Z2N.id by (unfold diff in *; lia).
        change (Z.of_N 65536) with 65536%Z.
        set (va := Z.of_N (c10_val a')) in *. set (vb := Z.of_N (c10_val b')) in *. set (M := Z.of_N (Bp (length a'))) in *.
        assert (0 < M)%Z by (unfold M; lia).
        replace (Z.of_N x + 65536 * va - (Z.of_N y + 65536 * vb) - ov)%Z with ((diff + 65535 + 1) + (va - vb - 1) * 65536)%Z by (unfold diff; lia).
        rewrite Z.rem_mul_r by lia. rewrite Z.mod_add, Z.div_add by lia.
        rewrite (Z.mod_small (diff + 65535 + 1)), (Z.div_small (diff + 65535 + 1)) by (unfold diff in *; lia). f_equal.
Qed.

Lemma sub_spec a b : wf a -> wf b -> length a = length b ->
  wf (c10_sub a b) /\ length (c10_sub a b) = length a /\
  c10_val (c10_sub a b) = (c10_val a + Bp (length a) - c10_val b mod Bp (length a)) mod Bp (length a).
Proof.
  intros Ha Hb Hl. destruct (sub_loop_spec a b 0%Z Ha Hb Hl) as (W & L & V); [auto|].
  unfold c10_sub. repeat split; auto.
  pose proof (Bp_pos (length a)) as HP. pose proof (val_bound b Hb) as Bb. rewrite <- Hl in Bb.
  rewrite (N.mod_small (c10_val b)) by assumption.
  apply N2Z.inj. rewrite V. rewrite N2Z.inj_mod, N2Z.inj_sub, N2Z.inj_add by lia.
  set (M := Z.of_N (Bp (length a))). assert (0 < M)%Z by (unfold M; lia).
  replace (Z.of_N (c10_val a) + M - Z.of_N (c10_val b))%Z with (Z.of_N (c10_val a) - Z.of_N (c10_val b) - 0 + 1 * M)%Z by lia.
  rewrite Z.mod_add by lia. reflexivity.
Qed.

(* a - b when b <= a: the plain difference *)
Lemma sub_spec_le a b : wf a -> wf b -> length a = length b -> c10_val b <= c10_val a ->
  c10_val (c10_sub a b) = c10_val a - c10_val b.
Proof.
  intros Ha Hb Hl Hle. destruct (sub_spec a b Ha Hb Hl) as (_ & _ & V). rewrite V.
  pose proof (val_bound a Ha). pose proof (val_bound b Hb) as Bb. rewrite <- Hl in Bb.
  rewrite (N.mod_small (c10_val b)) by assumption.
  replace (c10_val a + Bp (length a) - c10_val b) with ((c10_val a - c10_val b) + 1 * Bp (length a)) by lia.
  rewrite N.mod_add by lia. apply N.mod_small. lia.
Qed.

(* ---------- comparisons *)
Lemma length_rev_eq (a b : big) : length a = length b -> length (rev a) = length (rev b).
Proof. rewrite !rev_length; auto. Qed.

Lemma cmp_rev_spec ra : forall rb dflt, wf ra -> wf rb -> length ra = length rb ->
  c10_cmp_rev ra rb dflt =
    if c10_val (rev ra) <? c10_val (rev rb) then true
    else if c10_val (rev rb) <? c10_val (rev ra) then false else dflt.
Proof.
  induction ra as [|x ra' IH]; intros rb dflt Ha Hb Hl; destruct rb as [|y rb']; try discriminate.
  - cbn [c10_cmp_rev rev]. rewrite val_nil. reflexivity.
  - inversion Ha as [|? ? Hx Ha']; inversion Hb as [|? ? Hy Hb']; subst. unfold digit in Hx, Hy.
    cbn [c10_cmp_rev rev]. rewrite !val_app, !val_cons, !val_nil, !rev_length.
    assert (Hl' : length ra' = length rb') by (injection Hl; auto). rewrite <- Hl'.
    assert (Wa : wf (rev ra')) by (apply Forall_rev; assumption).
    assert (Wb : wf (rev rb')) by (apply Forall_rev; assumption).
    pose proof (val_bound _ Wa) as Ba. pose proof (val_bound _ Wb) as Bb. rewrite rev_length in Ba, Bb. rewrite <- Hl' in Bb.
    set (P := Bp (length ra')) in *. set (u := c10_val (rev ra')) in *. set (v := c10_val (rev rb')) in *.
    rewrite (IH rb' dflt Ha' Hb' Hl'). fold u v.
    destruct (N.ltb_spec x y); destruct (N.ltb_spec y x); try lia;
    destruct (N.ltb_spec u v); destruct (N.ltb_spec v u);
    destruct (N.ltb_spec (u + P * (x + 65536 * 0)) (v + P * (y + 65536 * 0)));
    destruct (N.ltb_spec (v + P * (y + 65536 * 0)) (u + P * (x + 65536 * 0))); try reflexivity; try nia.
Qed.

Lemma lt_spec a b : wf a -> wf b -> length a = length b -> c10_lt a b = (c10_val a <? c10_val b).
Proof.
  intros Ha Hb Hl. unfold c10_lt. rewrite cmp_rev_spec, !rev_involutive by (try apply Forall_rev; auto using length_rev_eq).
  destruct (N.ltb_spec (c10_val a) (c10_val b)); [reflexivity|]. destruct (N.ltb_spec (c10_val b) (c10_val a)); reflexivity.
Qed.
Lemma le_spec a b : wf a -> wf b -> length a = length b -> c10_le a b = (c10_val a <=? c10_val b).
Proof.
  intros Ha Hb Hl. unfold c10_le. rewrite cmp_rev_spec, !rev_involutive by (try apply Forall_rev; auto using length_rev_eq).
  destruct (N.ltb_spec (c10_val a) (c10_val b)); destruct (N.ltb_spec (c10_val b) (c10_val a)); destruct (N.leb_spec (c10_val a) (c10_val b)); try reflexivity; lia.
Qed.
Lemma gt_spec a b : wf a -> wf b -> length a = length b -> c10_gt a b = (c10_val b <? c10_val a).
Proof. intros. unfold c10_gt. rewrite le_spec by auto. destruct (N.leb_spec (c10_val a) (c10_val b)); destruct (N.ltb_spec (c10_val b) (c10_val a)); try reflexivity; lia. Qed.
Lemma ge_spec a b : wf a -> wf b -> length a = length b -> c10_ge a b = (c10_val b <=? c10_val a).
Proof. intros. unfold c10_ge. rewrite lt_spec by auto. destruct (N.ltb_spec (c10_val a) (c10_val b)); destruct (N.leb_spec (c10_val b) (c10_val a)); try reflexivity; lia. Qed.

Lemma ne_spec a : forall b, wf a -> wf b -> length a = length b -> c10_ne a b = negb (c10_val a =? c10_val b).
Proof.
  induction a as [|x a' IH]; intros b Ha Hb Hl; destruct b as [|y b']; try discriminate.
  - reflexivity.
  - inversion Ha as [|? ? Hx Ha']; inversion Hb as [|? ? Hy Hb']; subst. unfold digit in Hx, Hy.
    cbn [c10_ne]. rewrite !val_cons. rewrite (IH b') by (auto; injection Hl; auto).
    destruct (N.eqb_spec x y); destruct (N.eqb_spec (c10_val a') (c10_val b'));
    destruct (N.eqb_spec (x + 65536 * c10_val a') (y + 65536 * c10_val b')); try reflexivity; lia.
Qed.
Lemma eq_spec a b : wf a -> wf b -> length a = length b -> c10_eq a b = (c10_val a =? c10_val b).
Proof. intros. unfold c10_eq. rewrite ne_spec by auto. apply negb_involutive. Qed.

(* ---------- operator*= *)
Lemma row_loop_spec a : forall xm ov, wf a -> xm < 65536 -> ov < 65536 ->
  wf (c10_row_loop a xm ov) /\ length (c10_row_loop a xm ov) = length a /\
  c10_val (c10_row_loop a xm ov) = (c10_val a * xm + ov) mod Bp (length a).
Proof.
  induction a as [|d a' IH]; intros xm ov Ha Hxm Hov.
  - cbn [c10_row_loop length]. repeat split; [constructor|]. rewrite val_nil, Bp_0, N.mod_1_r. reflexivity.
  - inversion Ha as [|? ? Hd Ha']; subst. unfold digit in Hd.
    cbn [c10_row_loop length]. rewrite !land_bitmask, shiftr_bits.
    set (p := d * xm + ov).
    assert (Hp : p < 65536 * 65536) by (unfold p; nia).
    assert (Hq : p / 65536 < 65536) by (apply N.div_lt_upper_bound; lia).
    rewrite (N.mod_small (p / 65536)) by assumption.
    destruct (IH xm (p / 65536) Ha' Hxm Hq) as (W & L & V).
    repeat split.
    + constructor; [unfold digit; apply N.mod_lt; lia|exact W].
    + rewrite L; reflexivity.
    + rewrite !val_cons, V, Bp_S.
      replace ((d + 65536 * c10_val a') * xm + ov) with (p + 65536 * (c10_val a' * xm)) by (unfold p; lia).
      rewrite split_digit by (pose proof (Bp_pos (length a')); lia).
      f_equal. f_equal. f_equal. lia.
Qed.

Lemma wf_app l1 l2 : wf l1 -> wf l2 -> wf (l1 ++ l2).
Proof. intros; apply Forall_app; auto. Qed.
Lemma wf_firstn n l : wf l -> wf (firstn n l).
Proof. intros H. revert n; induction H; intros [|n]; cbn [firstn]; try constructor; auto. apply IHForall. Qed.
Lemma wf_skipn n l : wf l -> wf (skipn n l).
Proof. intros H. revert n; induction H as [|d r Hd Hr IH]; intros [|n]; cbn [skipn]; auto; constructor; auto. Qed.

Lemma val_firstn n : forall l, wf l -> (n <= length l)%nat -> c10_val (firstn n l) = c10_val l mod Bp n.
Proof.
  induction n as [|n IH]; intros l Hl Hn.
  - cbn [firstn]. rewrite val_nil, Bp_0, N.mod_1_r. reflexivity.
  - destruct l as [|d r]; [cbn in Hn; lia|]. inversion Hl as [|? ? Hd Hr]; subst. unfold digit in Hd.
    cbn [firstn]. rewrite !val_cons, IH by (auto; cbn in Hn; lia). rewrite Bp_S.
    rewrite split_digit by (pose proof (Bp_pos n); lia).
    rewrite (N.mod_small d), (N.div_small d) by lia. reflexivity.
Qed.

Lemma pad_spec n2 l : wf l -> wf (c10_pad n2 l) /\ length (c10_pad n2 l) = n2 /\ c10_val (c10_pad n2 l) = c10_val l mod Bp n2.
Proof.
  intros Hl. unfold c10_pad.
  assert (W : wf (l ++ repeat 0 n2)) by (apply wf_app; auto using wf_repeat0).
  assert (L : (n2 <= length (l ++ repeat 0%N n2))%nat) by (rewrite app_length, repeat_length; lia).
  repeat split.
  - apply wf_firstn; assumption.
  - rewrite firstn_length. lia.
  - rewrite val_firstn by assumption. rewrite val_app, val_repeat0. f_equal. lia.
Qed.

Lemma single_spec n2 a m xm : wf a -> xm < 65536 ->
  wf (c10_single n2 a m xm) /\ length (c10_single n2 a m xm) = n2 /\
  c10_val (c10_single n2 a m xm) = (Bp m * ((c10_val a * xm) mod Bp (length a))) mod Bp n2.
Proof.
  intros Ha Hx. unfold c10_single.
  destruct (row_loop_spec a xm 0 Ha Hx) as (W & L & V); [lia|].
  destruct (pad_spec n2 (repeat 0 m ++ c10_row_loop a xm 0)) as (W' & L' & V').
  { apply wf_app; auto using wf_repeat0. }
  repeat split; auto. rewrite V', val_app, val_repeat0, repeat_length, V. rewrite N.add_0_l, N.add_0_r. reflexivity.
Qed.

Lemma mul_loop_spec n2 a : forall xs m acc, wf a -> wf xs -> wf acc -> length acc = n2 -> (length a <= n2)%nat ->
  wf (c10_mul_loop n2 a xs m acc) /\ length (c10_mul_loop n2 a xs m acc) = n2 /\
  c10_val (c10_mul_loop n2 a xs m acc) mod Bp (length a) = (c10_val acc + c10_val a * (Bp m * c10_val xs)) mod Bp (length a).
Proof.
  induction xs as [|xm xs' IH]; intros m acc Ha Hxs Hacc Hl Hn.
  - cbn [c10_mul_loop]. repeat split; auto. rewrite val_nil. f_equal. lia.
  - inversion Hxs as [|? ? Hx Hxs']; subst. unfold digit in Hx.
    cbn [c10_mul_loop].
    destruct (single_spec (length acc) a m xm Ha Hx) as (Ws & Ls & Vs).
    destruct (add_spec acc (c10_single (length acc) a m xm) Hacc Ws) as (Wa & La & Va); [auto|].
    destruct (IH (S m) _ Ha Hxs' Wa La Hn) as (W & L & V).
    repeat split; auto.
    rewrite V, Va, Vs, val_cons, Bp_S.
    assert (HQ : exists R, Bp (length acc) = Bp (length a) * R /\ 0 < R).
    { exists (Bp (length acc - length a)). split; [|apply Bp_pos]. rewrite <- Bp_add. f_equal.
      rewrite Nat.add_comm, Nat.sub_add; [reflexivity|assumption]. }
    set (P := Bp (length a)) in *. set (Q := Bp (length acc)) in *.
    assert (HP : 0 < P) by apply Bp_pos.
    destruct HQ as (R & -> & HR).
    set (va := c10_val a) in *. set (vacc := c10_val acc) in *. set (vx := c10_val xs') in *. set (Bm := Bp m) in *.
    (* reduce everything modulo P *)
    assert (E1 : forall t, (t mod (P * R)) mod P = t mod P).
    { intro t. rewrite N.mod_mul_r by lia. rewrite (N.mul_comm P ((t / P) mod R)), N.mod_add by lia. apply N.mod_mod; lia. }
    set (X := va * (65536 * Bm * vx)).
    rewrite <- (N.add_mod_idemp_l ((vacc + (Bm * ((va * xm) mod P)) mod (P * R)) mod (P * R))) by lia.
    rewrite E1, N.add_mod_idemp_l by lia.
    replace (vacc + (Bm * ((va * xm) mod P)) mod (P * R) + X) with ((Bm * ((va * xm) mod P)) mod (P * R) + (vacc + X)) by lia.
    rewrite <- (N.add_mod_idemp_l ((Bm * ((va * xm) mod P)) mod (P * R))) by lia.
    rewrite E1, N.mul_mod_idemp_r, N.add_mod_idemp_l by lia.
    f_equal. unfold X. ring.
Qed.

Lemma length_zero n : length (c10_zero n) = n. Proof. apply repeat_length. Qed.

Lemma mul_spec n2 a b : wf a -> wf b -> length a = length b -> (length a <= n2)%nat ->
  wf (c10_mul n2 a b) /\ length (c10_mul n2 a b) = length a /\
  c10_val (c10_mul n2 a b) = (c10_val a * c10_val b) mod Bp (length a).
Proof.
  intros Ha Hb Hl Hn. unfold c10_mul.
  destruct (mul_loop_spec n2 a b 0%nat (c10_zero n2) Ha Hb (wf_repeat0 n2) (length_zero n2) Hn) as (W & L & V).
  repeat split.
  - apply wf_firstn; assumption.
  - rewrite firstn_length. lia.
  - rewrite val_firstn by (auto; lia). rewrite V. unfold c10_zero. rewrite val_repeat0, Bp_0. f_equal. lia.
Qed.

Lemma ndigits_double k : (c10_ndigits k <= c10_ndigits (2 * k))%nat.
Proof.
  unfold c10_ndigits. rewrite c10_bits_16.
  destruct (N.eqb_spec (k mod 16) 0); destruct (N.eqb_spec ((2 * k) mod 16) 0); lia.
Qed.

(* ---------- operator/= and operator%= (repeated subtraction, fuel = number of subtractions + 1) *)
Lemma is_zero_spec a : wf a -> c10_is_zero a = (c10_val a =? 0).
Proof.
  induction 1 as [|d r Hd Hr IH]; [reflexivity|]. cbn [c10_is_zero forallb]. fold (c10_is_zero r). rewrite IH, val_cons.
  unfold digit in Hd. destruct (N.eqb_spec d 0); destruct (N.eqb_spec (c10_val r) 0); destruct (N.eqb_spec (d + 65536 * c10_val r) 0); cbn; try reflexivity; lia.
Qed.

Lemma mod_loop_spec fuel : forall a x, wf a -> wf x -> length a = length x -> c10_val x <> 0 ->
  (N.to_nat (c10_val a / c10_val x) < fuel)%nat ->
  exists r, c10_mod_loop fuel a x = C10_Ok r /\ wf r /\ length r = length a /\ c10_val r = c10_val a mod c10_val x.
Proof.
  induction fuel as [|f IH]; intros a x Ha Hx Hl Hx0 Hf; [exfalso; revert Hf; apply Nat.nlt_0_r|].
  cbn [c10_mod_loop]. rewrite ge_spec by auto.
  destruct (N.leb_spec (c10_val x) (c10_val a)) as [Hle|Hlt].
  - destruct (sub_spec a x Ha Hx Hl) as (W & L & _). pose proof (sub_spec_le a x Ha Hx Hl Hle) as V.
    destruct (IH (c10_sub a x) x W Hx) as (r & E & Wr & Lr & Vr); [congruence|assumption| |].
    + rewrite V. replace (c10_val a) with ((c10_val a - c10_val x) + 1 * c10_val x) in Hf by lia.
      rewrite N.div_add in Hf by assumption. lia.
    + exists r. repeat split; auto; [congruence|]. rewrite Vr, V.
      replace (c10_val a) with ((c10_val a - c10_val x) + 1 * c10_val x) at 2 by lia.
      rewrite N.mod_add by assumption. reflexivity.
  - exists a. repeat split; auto. symmetry. apply N.mod_small. assumption.
Qed.

Lemma mod_spec fuel a x : wf a -> wf x -> length a = length x ->
  (c10_val x = 0 -> c10_mod fuel a x = C10_MathError) /\
  (c10_val x <> 0 -> (N.to_nat (c10_val a / c10_val x) < fuel)%nat ->
     exists r, c10_mod fuel a x = C10_Ok r /\ wf r /\ length r = length a /\ c10_val r = c10_val a mod c10_val x).
Proof.
  intros Ha Hx Hl. unfold c10_mod. rewrite is_zero_spec by assumption. split; intros H0.
  - rewrite H0. reflexivity.
  - intros Hf. destruct (N.eqb_spec (c10_val x) 0); [contradiction|]. apply mod_loop_spec; auto.
Qed.

Lemma div_loop_spec fuel : forall a x res, wf a -> wf x -> wf res -> length a = length x -> length res = length a -> c10_val x <> 0 ->
  (N.to_nat (c10_val a / c10_val x) < fuel)%nat -> c10_val res + c10_val a / c10_val x < Bp (length a) ->
  exists r, c10_div_loop fuel a x res = C10_Ok r /\ wf r /\ length r = length a /\ c10_val r = c10_val res + c10_val a / c10_val x.
Proof.
  induction fuel as [|f IH]; intros a x res Ha Hx Hr Hl Hlr Hx0 Hf Hb; [exfalso; revert Hf; apply Nat.nlt_0_r|].
  cbn [c10_div_loop]. rewrite ge_spec by auto.
  destruct (N.leb_spec (c10_val x) (c10_val a)) as [Hle|Hlt].
  - destruct (sub_spec a x Ha Hx Hl) as (W & L & _). pose proof (sub_spec_le a x Ha Hx Hl Hle) as V.
    destruct (incr_spec res Hr) as (Wi & Li & Vi).
    assert (Hq : c10_val a / c10_val x = (c10_val a - c10_val x) / c10_val x + 1).
    { replace (c10_val a) with ((c10_val a - c10_val x) + 1 * c10_val x) at 1 by lia. rewrite N.div_add by assumption. reflexivity. }
    rewrite Hlr in Vi. rewrite <- V in Hq.
    set (q := c10_val a / c10_val x) in *. set (q' := c10_val (c10_sub a x) / c10_val x) in *.
    rewrite N.mod_small in Vi by lia.
    destruct (IH (c10_sub a x) x (c10_incr res) W Hx Wi) as (r & E & Wr & Lr & Vr); try congruence.
    + fold q'. lia.
    + fold q'. rewrite Vi, L. lia.
    + exists r. repeat split; auto; [congruence|]. rewrite Vr, Vi. fold q'. lia.
  - exists res. repeat split; auto. rewrite N.div_small by assumption. lia.
Qed.

Lemma div_spec fuel a x : wf a -> wf x -> length a = length x ->
  (c10_val x = 0 -> c10_div fuel a x = C10_MathError) /\
  (c10_val x <> 0 -> (N.to_nat (c10_val a / c10_val x) < fuel)%nat ->
     exists r, c10_div fuel a x = C10_Ok r /\ wf r /\ length r = length a /\ c10_val r = c10_val a / c10_val x).
Proof.
  intros Ha Hx Hl. unfold c10_div. rewrite is_zero_spec by assumption. split; intros H0.
  - rewrite H0. reflexivity.
  - intros Hf. destruct (N.eqb_spec (c10_val x) 0); [contradiction|].
    destruct (div_loop_spec fuel a x (c10_zero (length a)) Ha Hx (wf_repeat0 _) Hl (length_zero _) H0 Hf) as (r & E & W & L & V).
    + unfold c10_zero. rewrite val_repeat0. pose proof (val_bound a Ha).
      assert (c10_val a / c10_val x <= c10_val a) by (apply N.div_le_upper_bound; [assumption|nia]). lia.
    + exists r. repeat split; auto. rewrite V. unfold c10_zero. rewrite val_repeat0. lia.
Qed.

(* the old operator%= (no zero test) diverges on a zero divisor: for EVERY fuel the loop runs out *)
Lemma mod_loop_zero_diverges fuel : forall a x, wf a -> wf x -> length a = length x -> c10_val x = 0 ->
  c10_mod_loop fuel a x = C10_OutOfFuel.
Proof.
  induction fuel as [|f IH]; intros a x Ha Hx Hl H0; [reflexivity|].
  cbn [c10_mod_loop]. rewrite ge_spec by auto. rewrite H0.
  destruct (N.leb_spec 0 (c10_val a)); [|lia].
  destruct (sub_spec a x Ha Hx Hl) as (W & L & _). apply IH; auto. congruence.
Qed.

(* ---------- bitwise operators *)
Lemma testbit_digit_high d i : d < 65536 -> 16 <= i -> N.testbit d i = false.
Proof.
  intros Hd Hi. destruct (N.eq_dec d 0) as [->|Hz]; [apply N.bits_0|].
  apply N.bits_above_log2. apply N.lt_le_trans with 16; [|assumption].
  apply N.log2_lt_pow2; [lia|]. exact Hd.
Qed.

Lemma land_digit_shiftl d v : d < 65536 -> N.land d (N.shiftl v 16) = 0.
Proof.
  intros Hd. apply N.bits_inj_0; intro i; rewrite N.land_spec.
  destruct (N.lt_ge_cases i 16) as [Hi|Hi].
  - rewrite N.shiftl_spec_low by assumption. apply andb_false_r.
  - rewrite testbit_digit_high by assumption. reflexivity.
Qed.

Lemma val_cons_lor d r : d < 65536 -> c10_val (d :: r) = N.lor d (N.shiftl (c10_val r) 16).
Proof.
  intros Hd. rewrite val_cons.
  assert (E : 65536 * c10_val r = N.shiftl (c10_val r) 16).
  { rewrite N.shiftl_mul_pow2. change (2 ^ 16) with 65536. lia. }
  rewrite E. rewrite <- N.lxor_lor by (apply land_digit_shiftl; assumption).
  apply N.add_nocarry_lxor. apply land_digit_shiftl; assumption.
Qed.

Lemma testbit_val_cons d r i : d < 65536 ->
  N.testbit (c10_val (d :: r)) i = if i <? 16 then N.testbit d i else N.testbit (c10_val r) (i - 16).
Proof.
  intros Hd. rewrite val_cons_lor by assumption. rewrite N.lor_spec.
  destruct (N.ltb_spec i 16) as [Hi|Hi].
  - rewrite N.shiftl_spec_low by assumption. apply orb_false_r.
  - rewrite testbit_digit_high, N.shiftl_spec_high' by assumption. reflexivity.
Qed.

Lemma map2_spec (f : N -> N -> N) (fb : bool -> bool -> bool) :
  (forall x y i, N.testbit (f x y) i = fb (N.testbit x i) (N.testbit y i)) -> fb false false = false ->
  forall a b, wf a -> wf b -> length a = length b ->
  wf (c10_map2 f a b) /\ length (c10_map2 f a b) = length a /\ c10_val (c10_map2 f a b) = f (c10_val a) (c10_val b).
Proof.
  intros Hf Hff. 
  assert (Hdig : forall x y, x < 65536 -> y < 65536 -> f x y < 65536).
  { intros x y Hx Hy. destruct (N.eq_dec (f x y) 0) as [->|Hz]; [lia|].
    change 65536 with (2 ^ 16). apply N.log2_lt_pow2; [lia|].
    destruct (N.lt_ge_cases (N.log2 (f x y)) 16) as [|Hge]; [assumption|exfalso].
    pose proof (N.bit_log2 (f x y) Hz) as Hb. rewrite Hf, !testbit_digit_high, Hff in Hb by assumption. discriminate. }
  induction a as [|x a' IH]; intros b Ha Hb Hl; destruct b as [|y b']; try discriminate.
  - cbn [c10_map2 length]. repeat split; [constructor|]. rewrite val_nil. apply N.bits_inj; intro i. rewrite Hf, !N.bits_0, Hff. reflexivity.
  - inversion Ha as [|? ? Hx Ha']; inversion Hb as [|? ? Hy Hb']; subst. unfold digit in Hx, Hy.
    destruct (IH b' Ha' Hb') as (W & L & V); [injection Hl; auto|].
    cbn [c10_map2 length]. repeat split.
    + constructor; [apply Hdig; assumption|exact W].
    + rewrite L; reflexivity.
    + apply N.bits_inj; intro i. rewrite Hf, !testbit_val_cons by auto. rewrite V, !Hf.
      destruct (i <? 16); reflexivity.
Qed.

Lemma and_spec a b : wf a -> wf b -> length a = length b ->
  wf (c10_and a b) /\ length (c10_and a b) = length a /\ c10_val (c10_and a b) = N.land (c10_val a) (c10_val b).
Proof. apply (map2_spec N.land andb); [intros; apply N.land_spec|reflexivity]. Qed.
Lemma or_spec a b : wf a -> wf b -> length a = length b ->
  wf (c10_or a b) /\ length (c10_or a b) = length a /\ c10_val (c10_or a b) = N.lor (c10_val a) (c10_val b).
Proof. apply (map2_spec N.lor orb); [intros; apply N.lor_spec|reflexivity]. Qed.
Lemma xor_spec a b : wf a -> wf b -> length a = length b ->
  wf (c10_xor a b) /\ length (c10_xor a b) = length a /\ c10_val (c10_xor a b) = N.lxor (c10_val a) (c10_val b).
Proof. apply (map2_spec N.lxor xorb); [intros; apply N.lxor_spec|reflexivity]. Qed.

Lemma not_spec a : wf a ->
  wf (c10_not a) /\ length (c10_not a) = length a /\ c10_val (c10_not a) = Bp (length a) - 1 - c10_val a.
Proof.
  induction 1 as [|d r Hd Hr IH].
  - cbn [c10_not map length]. repeat split. constructor.
  - destruct IH as (W & L & V). unfold c10_not in *. cbn [map length]. unfold digit in Hd.
    assert (Hm : c10_bitmask = 65535) by reflexivity. rewrite Hm in *.
    repeat split.
    + constructor; [unfold digit; lia|exact W].
    + rewrite L; reflexivity.
    + rewrite !val_cons, V, Bp_S. pose proof (val_bound r Hr). pose proof (Bp_pos (length r)). lia.
Qed.

(* ---------- shifts *)
Lemma testbit_high s r i : s < 2 ^ r -> r <= i -> N.testbit s i = false.
Proof.
  intros Hs Hi. destruct (N.eq_dec s 0) as [->|Hz]; [apply N.bits_0|].
  apply N.bits_above_log2. apply N.lt_le_trans with r; [|assumption].
  apply N.log2_lt_pow2; [lia|]. exact Hs.
Qed.

Lemma lor_low x s r : x mod 2 ^ r = 0 -> s < 2 ^ r -> N.lor x s = x + s.
Proof.
  intros Hx Hs.
  assert (E : x = N.shiftl (x / 2 ^ r) r).
  { rewrite N.shiftl_mul_pow2. pose proof (N.div_mod x (2 ^ r)) as D. rewrite Hx in D. 
    assert (2 ^ r <> 0) by (apply N.pow_nonzero; discriminate). specialize (D H). lia. }
  assert (L0 : N.land x s = 0).
  { rewrite E. apply N.bits_inj_0; intro i; rewrite N.land_spec.
    destruct (N.lt_ge_cases i r) as [Hi|Hi].
    - rewrite N.shiftl_spec_low by assumption. reflexivity.
    - rewrite (testbit_high s r i) by assumption. apply andb_false_r. }
  rewrite <- N.lxor_lor by assumption. symmetry. apply N.add_nocarry_lxor. assumption.
Qed.

Ltac cases16 r Hr :=
  assert (r = 0 \/ r = 1 \/ r = 2 \/ r = 3 \/ r = 4 \/ r = 5 \/ r = 6 \/ r = 7 \/ r = 8 \/ r = 9 \/ r = 10 \/
          r = 11 \/ r = 12 \/ r = 13 \/ r = 14 \/ r = 15) as Hcases16 by lia;
  clear Hr; repeat (destruct Hcases16 as [Hcases16|Hcases16]); subst r.

Lemma shl_step r d spill : r < 16 -> d < 65536 -> spill < 2 ^ r ->
  ((d * 2 ^ r) mod 65536) mod 2 ^ r = 0 /\ (d * 2 ^ r) mod 65536 + spill < 65536 /\ (d * 2 ^ r) / 65536 < 2 ^ r /\
  (d * 2 ^ r + spill) mod 65536 = (d * 2 ^ r) mod 65536 + spill /\ (d * 2 ^ r + spill) / 65536 = (d * 2 ^ r) / 65536.
Proof.
  intros Hr Hd Hs. cases16 r Hr; cbn [N.pow Pos.pow Pos.iter Pos.mul] in *; change (2 ^ 0) with 1 in *; lia.
Qed.

Lemma shl_bits_spec r : r < 16 -> forall a spill, wf a -> spill < 2 ^ r ->
  wf (c10_shl_bits a r spill) /\ length (c10_shl_bits a r spill) = length a /\
  c10_val (c10_shl_bits a r spill) = (c10_val a * 2 ^ r + spill) mod Bp (length a).
Proof.
  intros Hr. induction a as [|d a' IH]; intros spill Ha Hs.
  - cbn [c10_shl_bits length]. repeat split; [constructor|]. rewrite val_nil, Bp_0, N.mod_1_r. reflexivity.
  - inversion Ha as [|? ? Hd Ha']; subst. unfold digit in Hd.
    cbn [c10_shl_bits length]. rewrite land_bitmask, shiftr_bits, N.shiftl_mul_pow2.
    destruct (shl_step r d spill Hr Hd Hs) as (S1 & S2 & S3 & S4 & S5).
    rewrite (lor_low _ spill r S1 Hs).
    destruct (IH ((d * 2 ^ r) / 65536) Ha' S3) as (W & L & V).
    repeat split.
    + constructor; [exact S2|exact W].
    + rewrite L; reflexivity.
    + rewrite !val_cons, V, Bp_S.
      replace ((d + 65536 * c10_val a') * 2 ^ r + spill) with ((d * 2 ^ r + spill) + 65536 * (c10_val a' * 2 ^ r)) by lia.
      rewrite split_digit by (pose proof (Bp_pos (length a')); lia).
      rewrite S4, S5. f_equal. f_equal. f_equal. lia.
Qed.

Lemma shl_digits_spec a j : wf a ->
  wf (c10_shl_digits (length a) a j) /\ length (c10_shl_digits (length a) a j) = length a /\
  c10_val (c10_shl_digits (length a) a j) = (Bp j * c10_val a) mod Bp (length a).
Proof.
  intros Ha. unfold c10_shl_digits.
  assert (W : wf (repeat 0 j ++ a)) by (apply wf_app; auto using wf_repeat0).
  assert (L : (length a <= length (repeat 0%N j ++ a))%nat) by (rewrite app_length, repeat_length; lia).
  repeat split.
  - apply wf_firstn; assumption.
  - rewrite firstn_length. lia.
  - rewrite val_firstn by assumption. rewrite val_app, val_repeat0, repeat_length. f_equal.
Qed.

Local Transparent Bp.
Lemma Bp_pow2 j : Bp j = 2 ^ (16 * N.of_nat j).
Proof. unfold Bp. change 65536 with (2 ^ 16). rewrite <- N.pow_mul_r. reflexivity. Qed.
Local Opaque Bp.

Lemma shl_spec a s : wf a -> s < c10_spec_width (length a) ->
  wf (c10_shl a s) /\ length (c10_shl a s) = length a /\
  c10_val (c10_shl a s) = (c10_val a * 2 ^ s) mod Bp (length a).
Proof.
  intros Ha Hs. unfold c10_shl. rewrite c10_bits_16.
  destruct (shl_digits_spec a (N.to_nat (s / 16)) Ha) as (W1 & L1 & V1).
  assert (Hr : s mod 16 < 16) by (apply N.mod_lt; lia).
  destruct (shl_bits_spec (s mod 16) Hr _ 0 W1) as (W & L & V).
  { apply N.neq_0_lt_0, N.pow_nonzero. discriminate. }
  repeat split; auto; [congruence|].
  rewrite V, L1, V1, N.add_0_r. pose proof (Bp_pos (length a)).
  rewrite N.mul_mod_idemp_l by lia. f_equal.
  rewrite Bp_pow2, N2Nat.id.
  replace (2 ^ s) with (2 ^ (16 * (s / 16)) * 2 ^ (s mod 16)).
  - ring.
  - rewrite <- N.pow_add_r. f_equal. pose proof (N.div_mod s 16). lia.
Qed.

Ltac norm_pows := repeat match goal with |- context[N.pow 2 ?e] => let v := eval vm_compute in (N.pow 2 e) in change (N.pow 2 e) with v end.

Lemma val_skipn j : forall a, wf a -> (j <= length a)%nat -> c10_val (skipn j a) = c10_val a / Bp j.
Proof.
  intros a Ha Hj. rewrite <- (firstn_skipn j a) at 2. rewrite val_app, firstn_length_le by assumption.
  pose proof (val_bound _ (wf_firstn j a Ha)) as Hb. rewrite firstn_length_le in Hb by assumption.
  pose proof (Bp_pos j). rewrite (N.mul_comm (Bp j)), N.div_add by lia. rewrite N.div_small by assumption. reflexivity.
Qed.

Lemma shr_digits_spec a j : wf a -> (j <= length a)%nat ->
  wf (c10_shr_digits (length a) a j) /\ length (c10_shr_digits (length a) a j) = length a /\
  c10_val (c10_shr_digits (length a) a j) = c10_val a / Bp j.
Proof.
  intros Ha Hj. unfold c10_shr_digits. repeat split.
  - apply wf_app; [apply wf_skipn; assumption|apply wf_repeat0].
  - rewrite app_length, skipn_length, repeat_length. lia.
  - rewrite val_app, val_repeat0, val_skipn by assumption. lia.
Qed.

Lemma shr_hi r d : r < 16 -> d < 65536 ->
  N.shiftr (N.land (N.shiftl d (c10_bits - r)) c10_compbitmask) c10_bits = d / 2 ^ r.
Proof.
  intros Hr Hd. rewrite c10_bits_16, N.shiftr_land.
  assert (E : N.shiftr c10_compbitmask 16 = N.ones 16) by reflexivity. rewrite E, N.land_ones.
  rewrite N.shiftr_div_pow2, N.shiftl_mul_pow2.
  cases16 r Hr; norm_pows; rewrite ?N.div_1_r; lia.
Qed.

Lemma shr_from_above r v d' : r < 16 -> d' < 65536 -> v mod 65536 = d' ->
  N.land (N.shiftl d' (c10_bits - r)) c10_bitmask = (v mod 2 ^ r) * 2 ^ (16 - r).
Proof.
  intros Hr Hd Hv. rewrite c10_bits_16, land_bitmask, N.shiftl_mul_pow2. subst d'.
  cases16 r Hr; norm_pows; rewrite ?N.mod_1_r; lia.
Qed.

Lemma shr_core r d v : r < 16 -> d < 65536 ->
  (v mod 2 ^ r * 2 ^ (16 - r)) mod 2 ^ (16 - r) = 0 /\ d / 2 ^ r < 2 ^ (16 - r) /\
  d / 2 ^ r + v mod 2 ^ r * 2 ^ (16 - r) < 65536 /\
  (d + 65536 * v) / 2 ^ r = d / 2 ^ r + v mod 2 ^ r * 2 ^ (16 - r) + 65536 * (v / 2 ^ r).
Proof.
  intros Hr Hd.
  cases16 r Hr; norm_pows; rewrite ?N.mod_1_r, ?N.div_1_r; lia.
Qed.

Lemma shr_bits_spec r : r < 16 -> forall a, wf a ->
  wf (c10_shr_bits a r) /\ length (c10_shr_bits a r) = length a /\ c10_val (c10_shr_bits a r) = c10_val a / 2 ^ r.
Proof.
  intros Hr. induction a as [|d a' IH]; intros Ha.
  - cbn [c10_shr_bits length]. split; [constructor|split; [reflexivity|]]. rewrite val_nil. symmetry. apply N.div_0_l. apply N.pow_nonzero; discriminate.
  - inversion Ha as [|? ? Hd Ha']; subst. unfold digit in Hd.
    destruct (IH Ha') as (W & L & V).
    cbn [c10_shr_bits length]. rewrite shr_hi by assumption.
    set (v := c10_val a').
    assert (FA : match a' with d' :: _ => N.land (N.shiftl d' (c10_bits - r)) c10_bitmask | [] => 0 end = v mod 2 ^ r * 2 ^ (16 - r)).
    { unfold v. destruct a' as [|d' a'']; [rewrite val_nil, N.mod_0_l by (apply N.pow_nonzero; discriminate); reflexivity|].
      inversion Ha' as [|? ? Hd' _]; subst. unfold digit in Hd'. apply shr_from_above; auto.
      rewrite val_cons. rewrite (N.mul_comm 65536), N.mod_add by lia. apply N.mod_small; assumption. }
    rewrite FA. destruct (shr_core r d v Hr Hd) as (C1 & C2 & C3 & C4).
    rewrite N.lor_comm, (lor_low _ _ (16 - r) C1 C2).
    repeat split.
    + constructor; [unfold digit; lia|exact W].
    + rewrite L; reflexivity.
    + rewrite !val_cons, V. fold v. rewrite C4. lia.
Qed.

Lemma shr_spec a s : wf a -> s < c10_spec_width (length a) ->
  wf (c10_shr a s) /\ length (c10_shr a s) = length a /\ c10_val (c10_shr a s) = c10_val a / 2 ^ s.
Proof.
  intros Ha Hs. unfold c10_shr. rewrite c10_bits_16.
  assert (Hj : (N.to_nat (s / 16) <= length a)%nat).
  { unfold c10_spec_width in Hs. rewrite c10_bits_16 in Hs. assert (s / 16 < N.of_nat (length a)) by (apply N.div_lt_upper_bound; lia). lia. }
  destruct (shr_digits_spec a (N.to_nat (s / 16)) Ha Hj) as (W1 & L1 & V1).
  assert (Hr : s mod 16 < 16) by (apply N.mod_lt; lia).
  destruct (shr_bits_spec (s mod 16) Hr _ W1) as (W & L & V).
  repeat split; auto; [congruence|].
  rewrite V, V1, Bp_pow2, N2Nat.id.
  rewrite N.div_div by (apply N.pow_nonzero; discriminate). rewrite <- N.pow_add_r. f_equal. f_equal.
  pose proof (N.div_mod s 16). lia.
Qed.

(* ---------- construction from a built-in unsigned, touint, limits *)
Lemma assign_loop_spec no : forall x,
  wf (c10_assign_loop no x) /\ length (c10_assign_loop no x) = no /\ c10_val (c10_assign_loop no x) = x mod Bp no.
Proof.
  induction no as [|m IH]; intros x.
  - cbn [c10_assign_loop length]. split; [constructor|split; [reflexivity|]]. rewrite val_nil, Bp_0, N.mod_1_r. reflexivity.
  - cbn [c10_assign_loop length]. rewrite land_bitmask, shiftr_bits.
    destruct (IH (x / 65536)) as (W & L & V). repeat split.
    + constructor; [unfold digit; apply N.mod_lt; lia|exact W].
    + rewrite L; reflexivity.
    + rewrite val_cons, V, Bp_S. pose proof (Bp_pos m). rewrite N.mod_mul_r by lia. reflexivity.
Qed.

Lemma Bp_4 : Bp 4 = 2 ^ 64. Proof. rewrite Bp_pow2. reflexivity. Qed.
Lemma Bp_mono n m : (n <= m)%nat -> Bp n <= Bp m.
Proof. intros H. rewrite !Bp_pow2. apply N.pow_le_mono_r; lia. Qed.

Lemma assign_spec n x : x < 2 ^ 64 ->
  wf (c10_assign n x) /\ length (c10_assign n x) = n /\ c10_val (c10_assign n x) = x mod Bp n.
Proof.
  intros Hx. unfold c10_assign.
  assert (E : N.to_nat (c10_param_uintmax_digits / c10_bits) = 4%nat) by reflexivity. rewrite E.
  destruct (assign_loop_spec (Nat.min n 4) x) as (W & L & V).
  repeat split.
  - apply wf_app; [assumption|apply wf_repeat0].
  - rewrite app_length, L, repeat_length. lia.
  - rewrite val_app, val_repeat0, V, N.mul_0_r, N.add_0_r.
    destruct (Nat.le_gt_cases n 4) as [Hn|Hn].
    + rewrite Nat.min_l by assumption. reflexivity.
    + rewrite Nat.min_r by lia. rewrite !N.mod_small; [reflexivity| |rewrite Bp_4; assumption].
      apply N.lt_le_trans with (Bp 4); [rewrite Bp_4; assumption|apply Bp_mono; lia].
Qed.

Lemma touint_spec a : wf a -> c10_touint a = c10_val a mod 2 ^ 32.
Proof.
  intros Ha. destruct a as [|d0 [|d1 r]].
  - reflexivity.
  - inversion Ha as [|? ? H0 _]; subst. unfold digit in H0. cbn [c10_touint]. rewrite val_cons, val_nil.
    change (2 ^ 32) with 4294967296. rewrite N.mod_small; lia.
  - inversion Ha as [|? ? H0 Ha']; subst. inversion Ha' as [|? ? H1 _]; subst. unfold digit in H0, H1.
    cbn [c10_touint]. change c10_param_touint_bits with 32. rewrite !val_cons, c10_bits_16, N.shiftl_mul_pow2.
    change (2 ^ 32) with (65536 * 65536). change (2 ^ 16) with 65536.
    replace (d0 + 65536 * (d1 + 65536 * c10_val r)) with ((d1 * 65536 + d0) + c10_val r * (65536 * 65536)) by lia.
    rewrite N.mod_add by lia. reflexivity.
Qed.

Lemma max_spec n : wf (c10_max n) /\ length (c10_max n) = n /\ c10_val (c10_max n) = Bp n - 1.
Proof.
  unfold c10_max. induction n as [|n (W & L & V)].
  - cbn [repeat length]. split; [constructor|split; [reflexivity|]]. rewrite val_nil, Bp_0. reflexivity.
  - cbn [repeat length]. repeat split.
    + constructor; [unfold digit; reflexivity|exact W].
    + rewrite L; reflexivity.
    + rewrite val_cons, V, Bp_S. pose proof (Bp_pos n). change c10_param_max_digit with 65535. lia.
Qed.
Lemma min_spec n : wf (c10_min n) /\ length (c10_min n) = n /\ c10_val (c10_min n) = 0.
Proof.
  unfold c10_min. change c10_param_lim_min_literal with 0.
  destruct (assign_spec n 0) as (W & L & V); [reflexivity|]. split; [exact W|split; [exact L|]].
  rewrite V. apply N.mod_0_l. pose proof (Bp_pos n). lia.
Qed.

(* ================= statements in the form used by Properties_C10.v ================= *)
Lemma wf_of n a : c10_wf n a -> wf a /\ length a = n.
Proof. intros [L F]. split; [exact F|exact L]. Qed.
Lemma wf_to n a : wf a -> length a = n -> c10_wf n a.
Proof. intros F L. split; [exact L|exact F]. Qed.

Definition same_val (n : nat) (r : big) (v : option N) : Prop := c10_wf n r /\ v = Some (c10_val r).

Lemma P_ring n2 n a b : c10_wf n a -> c10_wf n b -> (n <= n2)%nat ->
  same_val n (c10_add a b) (c10_spec_binop n OpAdd (c10_val a) (c10_val b)) /\
  same_val n (c10_sub a b) (c10_spec_binop n OpSub (c10_val a) (c10_val b)) /\
  same_val n (c10_mul n2 a b) (c10_spec_binop n OpMul (c10_val a) (c10_val b)) /\
  c10_wf n (c10_incr a) /\ c10_val (c10_incr a) = (c10_val a + 1) mod 2 ^ c10_spec_width n.
Proof.
  intros Ha Hb Hn. destruct (wf_of _ _ Ha) as [Wa La]. destruct (wf_of _ _ Hb) as [Wb Lb].
  assert (Hl : length a = length b) by congruence.
  destruct (add_spec a b Wa Wb Hl) as (W1 & L1 & V1).
  destruct (sub_spec a b Wa Wb Hl) as (W2 & L2 & V2).
  destruct (mul_spec n2 a b Wa Wb Hl) as (W3 & L3 & V3); [lia|].
  destruct (incr_spec a Wa) as (W4 & L4 & V4).
  unfold same_val, c10_spec_binop. rewrite <- !Bp_width. rewrite La in *.
  repeat split; try (apply wf_to; congruence); try congruence; try assumption.
Qed.

Lemma P_divmod n a b fuel : c10_wf n a -> c10_wf n b ->
  (c10_val b = 0 -> c10_div fuel a b = C10_MathError /\ c10_mod fuel a b = C10_MathError) /\
  (c10_val b <> 0 -> (N.to_nat (c10_val a / c10_val b) < fuel)%nat ->
     exists q r, c10_div fuel a b = C10_Ok q /\ c10_mod fuel a b = C10_Ok r /\
       same_val n q (c10_spec_binop n OpDiv (c10_val a) (c10_val b)) /\
       same_val n r (c10_spec_binop n OpMod (c10_val a) (c10_val b))).
Proof.
  intros Ha Hb. destruct (wf_of _ _ Ha) as [Wa La]. destruct (wf_of _ _ Hb) as [Wb Lb].
  assert (Hl : length a = length b) by congruence.
  destruct (div_spec fuel a b Wa Wb Hl) as [D0 D1]. destruct (mod_spec fuel a b Wa Wb Hl) as [M0 M1].
  split.
  - intros H0. split; auto.
  - intros H0 Hf. destruct (D1 H0 Hf) as (q & Eq & Wq & Lq & Vq). destruct (M1 H0 Hf) as (r & Er & Wr & Lr & Vr).
    exists q, r. unfold same_val, c10_spec_binop. destruct (N.eqb_spec (c10_val b) 0); [contradiction|].
    repeat split; auto; try (apply wf_to; congruence); try congruence; try assumption.
Qed.

Lemma P_bitwise n a b : c10_wf n a -> c10_wf n b ->
  same_val n (c10_and a b) (c10_spec_binop n OpAnd (c10_val a) (c10_val b)) /\
  same_val n (c10_or a b) (c10_spec_binop n OpOr (c10_val a) (c10_val b)) /\
  same_val n (c10_xor a b) (c10_spec_binop n OpXor (c10_val a) (c10_val b)) /\
  c10_wf n (c10_not a) /\ c10_val (c10_not a) = 2 ^ c10_spec_width n - 1 - c10_val a.
Proof.
  intros Ha Hb. destruct (wf_of _ _ Ha) as [Wa La]. destruct (wf_of _ _ Hb) as [Wb Lb].
  assert (Hl : length a = length b) by congruence.
  destruct (and_spec a b Wa Wb Hl) as (W1 & L1 & V1).
  destruct (or_spec a b Wa Wb Hl) as (W2 & L2 & V2).
  destruct (xor_spec a b Wa Wb Hl) as (W3 & L3 & V3).
  destruct (not_spec a Wa) as (W4 & L4 & V4).
  unfold same_val, c10_spec_binop. rewrite <- !Bp_width. rewrite La in *.
  repeat split; try (apply wf_to; congruence); try congruence; try assumption.
Qed.

Lemma P_shift n a s : c10_wf n a -> s < c10_spec_width n ->
  c10_wf n (c10_shl a s) /\ c10_val (c10_shl a s) = c10_spec_shift n true (c10_val a) s /\
  c10_wf n (c10_shr a s) /\ c10_val (c10_shr a s) = c10_spec_shift n false (c10_val a) s.
Proof.
  intros Ha Hs. destruct (wf_of _ _ Ha) as [Wa La]. rewrite <- La in Hs.
  destruct (shl_spec a s Wa Hs) as (W1 & L1 & V1). destruct (shr_spec a s Wa Hs) as (W2 & L2 & V2).
  unfold c10_spec_shift. rewrite <- Bp_width. rewrite La in *.
  repeat split; try (apply wf_to; congruence); try congruence; try assumption.
Qed.

Lemma P_compare n a b : c10_wf n a -> c10_wf n b ->
  c10_lt a b = c10_spec_cmp CmpLt (c10_val a) (c10_val b) /\ c10_le a b = c10_spec_cmp CmpLe (c10_val a) (c10_val b) /\
  c10_gt a b = c10_spec_cmp CmpGt (c10_val a) (c10_val b) /\ c10_ge a b = c10_spec_cmp CmpGe (c10_val a) (c10_val b) /\
  c10_eq a b = c10_spec_cmp CmpEq (c10_val a) (c10_val b) /\ c10_ne a b = c10_spec_cmp CmpNe (c10_val a) (c10_val b) /\
  (c10_val a = c10_val b -> a = b).
Proof.
  intros Ha Hb. destruct (wf_of _ _ Ha) as [Wa La]. destruct (wf_of _ _ Hb) as [Wb Lb].
  assert (Hl : length a = length b) by congruence. unfold c10_spec_cmp.
  rewrite lt_spec, le_spec, gt_spec, ge_spec, eq_spec, ne_spec by auto.
  repeat split. apply val_inj; auto.
Qed.

Lemma P_construct n x : x < 2 ^ 64 ->
  c10_wf n (c10_assign n x) /\ c10_val (c10_assign n x) = x mod 2 ^ c10_spec_width n /\
  c10_wf n (c10_max n) /\ c10_val (c10_max n) = 2 ^ c10_spec_width n - 1 /\
  c10_wf n (c10_min n) /\ c10_val (c10_min n) = 0 /\ c10_limit_digits n = c10_spec_width n.
Proof.
  intros Hx. destruct (assign_spec n x Hx) as (W1 & L1 & V1). destruct (max_spec n) as (W2 & L2 & V2). destruct (min_spec n) as (W3 & L3 & V3).
  rewrite <- Bp_width. repeat split; try (apply wf_to; congruence); try congruence; try assumption.
Qed.

Lemma P_touint n a : c10_wf n a -> c10_touint a = c10_val a mod 2 ^ 32.
Proof. intros Ha. apply touint_spec. apply (wf_of _ _ Ha). Qed.

Lemma P_value_range n a : c10_wf n a -> c10_val a < 2 ^ c10_spec_width n.
Proof. intros Ha. destruct (wf_of _ _ Ha) as [Wa La]. rewrite <- Bp_width, <- La. apply val_bound; assumption. Qed.

Lemma P_mod_zero_old_code_diverges n a x fuel : c10_wf n a -> c10_wf n x -> c10_val x = 0 -> c10_mod_loop fuel a x = C10_OutOfFuel.
Proof. intros Ha Hx. destruct (wf_of _ _ Ha) as [Wa La]. destruct (wf_of _ _ Hx) as [Wx Lx]. apply mod_loop_zero_diverges; auto; congruence. Qed.

Lemma C10_nonvacuous_proof :
  c10_wf 2 [65535; 65535] /\ c10_wf 2 [1; 0] /\ c10_add [65535; 65535] [1; 0] = [0; 0] /\
  c10_mul 4 [65535; 65535] [65535; 65535] = [1; 0] /\ c10_shl [65535; 1] 17 = [0; 65534] /\
  c10_mod 10 [7; 0] [0; 0] = C10_MathError /\ c10_div 10 [7; 1] [2; 0] = C10_OutOfFuel.
Proof.
  repeat split; try (vm_compute; reflexivity); repeat constructor.
Qed.

(* ---------- todouble: mantissa m (< 2^48, exactly a double) times 2^e approximates val with relative error < 2^-32 *)
Lemma fold_rev_val l : fold_left (fun v d => v * c10_B + d) (rev l) 0 = c10_val l.
Proof.
  induction l as [|d r IH]; [reflexivity|].
  cbn [rev]. rewrite fold_left_app. cbn [fold_left]. rewrite IH, val_cons, c10_B_val. lia.
Qed.

Lemma lz_spec ra : ra = repeat 0 (c10_leading_zeros ra) ++ skipn (c10_leading_zeros ra) ra /\
  (c10_leading_zeros ra <= length ra)%nat /\
  match skipn (c10_leading_zeros ra) ra with d :: _ => d <> 0 | [] => True end.
Proof.
  induction ra as [|d r (E & L & T)]; [repeat split; auto|].
  cbn [c10_leading_zeros]. destruct (N.eqb_spec d 0) as [->|Hd].
  - cbn [repeat app skipn length]. repeat split; [f_equal; exact E|lia|exact T].
  - cbn [repeat app skipn length]. repeat split; [lia|exact Hd].
Qed.

Lemma val_last_nonzero hd : wf hd -> (match rev hd with d :: _ => d <> 0 | [] => True end) -> (0 < length hd)%nat ->
  Bp (length hd - 1) <= c10_val hd.
Proof.
  intros Hw Hd Hl. destruct (rev hd) as [|d t] eqn:E.
  - assert (hd = []) by (rewrite <- (rev_involutive hd), E; reflexivity). subst hd. cbn in Hl. lia.
  - assert (Eh : hd = rev t ++ [d]) by (rewrite <- (rev_involutive hd), E; reflexivity). subst hd.
    rewrite val_app, val_cons, val_nil, app_length, rev_length. cbn [length].
    replace (length t + 1 - 1)%nat with (length t) by lia. pose proof (Bp_pos (length t)). nia.
Qed.

Lemma todouble_spec a : wf a ->
  let '(m, e) := c10_todouble a in
  m < 2 ^ 48 /\ m * 2 ^ e <= c10_val a /\ c10_val a < (m + 1) * 2 ^ e /\ (e = 0 \/ 2 ^ 32 <= m).
Proof.
  intros Ha. unfold c10_todouble, c10_first_in_zero_range.
  assert (E3 : N.to_nat (c10_param_double_digits / c10_bits) = 3%nat) by reflexivity. rewrite E3. clear E3.
  destruct (lz_spec (rev a)) as (E & L & T). rewrite rev_length in L.
  set (z := c10_leading_zeros (rev a)) in *.
  set (hd := rev (skipn z (rev a))).
  assert (Ea : a = hd ++ repeat 0 z).
  { rewrite <- (rev_involutive a) at 1. rewrite E at 1. rewrite rev_app_distr. unfold hd. f_equal.
    clear. induction z as [|z IH]; [reflexivity|]. cbn [repeat rev]. rewrite IH. clear. induction z; cbn; [reflexivity|f_equal; assumption]. }
  assert (Lh : length hd = (length a - z)%nat) by (unfold hd; rewrite rev_length, skipn_length, rev_length; reflexivity).
  assert (Wh : wf hd) by (unfold hd; apply Forall_rev, wf_skipn, Forall_rev; exact Ha).
  assert (Th : match rev hd with d :: _ => d <> 0 | [] => True end) by (unfold hd; rewrite rev_involutive; exact T).
  assert (Va : c10_val a = c10_val hd) by (rewrite Ea at 1; rewrite val_app, val_repeat0; lia).
  set (first := (length a - z)%nat) in *.
  set (last := if (3 <? first)%nat then (first - 3)%nat else 0%nat).
  assert (Hlast : (last <= first)%nat) by (unfold last; destruct (Nat.ltb_spec 3 first); lia).
  assert (Es : firstn (first - last) (skipn last a) = skipn last hd).
  { rewrite Ea at 1. rewrite skipn_app. replace (last - length hd)%nat with 0%nat by lia. cbn [skipn].
    rewrite firstn_app, skipn_length, Lh. replace (first - last - (first - last))%nat with 0%nat by lia.
    cbn [firstn]. rewrite app_nil_r. apply firstn_all2. rewrite skipn_length. lia. }
  rewrite Es, fold_rev_val.
  assert (Vh : c10_val hd = c10_val (firstn last hd) + Bp last * c10_val (skipn last hd)).
  { rewrite <- (firstn_skipn last hd) at 1. rewrite val_app, firstn_length_le by lia. reflexivity. }
  pose proof (val_bound _ (wf_firstn last hd Wh)) as Blow. rewrite firstn_length_le in Blow by lia.
  pose proof (val_bound _ (wf_skipn last hd Wh)) as Bhi. rewrite skipn_length, Lh in Bhi.
  assert (Ee : 2 ^ (c10_bits * N.of_nat last) = Bp last) by (rewrite Bp_pow2, c10_bits_16; reflexivity).
  rewrite Ee, Va, Vh. set (m := c10_val (skipn last hd)) in *. set (lo := c10_val (firstn last hd)) in *.
  assert (Hm48 : m < 2 ^ 48).
  { apply N.lt_le_trans with (Bp (first - last)); [exact Bhi|]. replace (2 ^ 48) with (Bp 3) by (rewrite Bp_pow2; reflexivity).
    apply Bp_mono. unfold last. destruct (Nat.ltb_spec 3 first); lia. }
  repeat split; try lia.
  unfold last in *. destruct (Nat.ltb_spec 3 first) as [H3|H3]; [right|left; rewrite c10_bits_16; reflexivity].
  (* three digits kept, the top one is non-zero *)
  assert (Ws : wf (skipn (first - 3) hd)) by (apply wf_skipn; exact Wh).
  assert (Ls : length (skipn (first - 3) hd) = 3%nat) by (rewrite skipn_length; lia).
  assert (Ts : match rev (skipn (first - 3) hd) with d :: _ => d <> 0 | [] => True end).
  { rewrite <- (firstn_skipn (first - 3) hd) in Th. rewrite rev_app_distr in Th.
    destruct (rev (skipn (first - 3) hd)) as [|d t] eqn:Er; [|exact Th].
    apply (f_equal (@length N)) in Er. rewrite rev_length, Ls in Er. discriminate. }
  pose proof (val_last_nonzero _ Ws Ts) as Hv. rewrite Ls in Hv. specialize (Hv ltac:(lia)).
  replace (2 ^ 32) with (Bp 2) by (rewrite Bp_pow2; reflexivity). exact Hv.
Qed.

Lemma P_todouble n a : c10_wf n a ->
  let '(m, e) := c10_todouble a in
  m < 2 ^ 48 /\ m * 2 ^ e <= c10_val a /\ (c10_val a - m * 2 ^ e) * 2 ^ 32 < c10_val a \/ c10_val a = m * 2 ^ e /\ m < 2 ^ 48.
Proof.
  intros Ha. pose proof (todouble_spec a (proj1 (wf_of _ _ Ha))) as H. destruct (c10_todouble a) as [m e].
  destruct H as (H48 & Hle & Hlt & [->|Hm]).
  - right. rewrite N.pow_0_r in *. split; [lia|assumption].
  - left. repeat split; try assumption.
    assert (0 < 2 ^ e) by (apply N.neq_0_lt_0, N.pow_nonzero; discriminate).
    nia.
Qed.

(* ---------- print: 4n hex characters that read back as the value *)
From Coq Require Import Ascii.
Lemma hexchar_roundtrip x : x < 16 -> c10_hexdigit_val (c10_hexchar x) = x.
Proof.
  intros Hx.
  assert (x = 0 \/ x = 1 \/ x = 2 \/ x = 3 \/ x = 4 \/ x = 5 \/ x = 6 \/ x = 7 \/ x = 8 \/ x = 9 \/ x = 10 \/
          x = 11 \/ x = 12 \/ x = 13 \/ x = 14 \/ x = 15) as H by lia.
  repeat (destruct H as [H|H]); subst x; reflexivity.
Qed.

Lemma print_digit_fold d acc : d < 65536 ->
  fold_left (fun v c => v * 16 + c10_hexdigit_val c) (c10_print_digit d) acc = acc * 65536 + d.
Proof.
  intros Hd. unfold c10_print_digit.
  change (rev (seq 0 (N.to_nat c10_param_hexdigits))) with [3; 2; 1; 0]%nat.
  change c10_param_nibble_bits with 4. change c10_param_nibble_mask with 15.
  cbn [map fold_left]. change (N.of_nat 3) with 3. change (N.of_nat 2) with 2. change (N.of_nat 1) with 1. change (N.of_nat 0) with 0.
  assert (L15 : forall y, N.land y 15 = y mod 16) by (intro y; change 15 with (N.ones 4); apply N.land_ones).
  rewrite !L15, !N.shiftr_div_pow2.
  rewrite !hexchar_roundtrip by (apply N.mod_lt; lia).
  change (2 ^ (4 * 3)) with 4096. change (2 ^ (4 * 2)) with 256. change (2 ^ (4 * 1)) with 16. change (2 ^ (4 * 0)) with 1.
  lia.
Qed.

Lemma print_fold ra : forall acc, wf ra ->
  fold_left (fun v c => v * 16 + c10_hexdigit_val c) (flat_map c10_print_digit ra) acc = acc * Bp (length ra) + c10_val (rev ra) /\
  length (flat_map c10_print_digit ra) = (4 * length ra)%nat.
Proof.
  induction ra as [|d r IH]; intros acc Hw.
  - cbn [flat_map fold_left length rev]. rewrite val_nil, Bp_0. split; [lia|reflexivity].
  - inversion Hw as [|? ? Hd Hr]; subst. unfold digit in Hd.
    cbn [flat_map length rev]. rewrite fold_left_app, print_digit_fold by assumption.
    destruct (IH (acc * 65536 + d) Hr) as [V L]. rewrite V. split.
    + rewrite val_app, val_cons, val_nil, rev_length, Bp_S. lia.
    + rewrite app_length, L. unfold c10_print_digit. rewrite map_length, rev_length, seq_length.
      change (N.to_nat c10_param_hexdigits) with 4%nat. cbn [length]. lia.
Qed.

Lemma P_print n a : c10_wf n a -> c10_hexval (c10_print a) = c10_val a /\ length (c10_print a) = (4 * n)%nat.
Proof.
  intros Ha. destruct (wf_of _ _ Ha) as [Wa La]. unfold c10_hexval, c10_print.
  destruct (print_fold (rev a) 0 (Forall_rev Wa)) as [V L]. rewrite rev_involutive, rev_length in *. split; [rewrite V; lia|congruence].
Qed.

(* mixed operations with a built-in unsigned: the free operator templates construct a temporary
   through assign and then apply the member operator *)
Lemma P_mixed n2 n a u : c10_wf n a -> u < 2 ^ 64 -> (n <= n2)%nat ->
  let t := c10_assign n u in
  c10_wf n t /\ c10_val t = u mod 2 ^ c10_spec_width n /\
  same_val n (c10_add a t) (c10_spec_binop n OpAdd (c10_val a) (c10_val t)) /\
  same_val n (c10_add t a) (c10_spec_binop n OpAdd (c10_val t) (c10_val a)) /\
  same_val n (c10_sub a t) (c10_spec_binop n OpSub (c10_val a) (c10_val t)) /\
  same_val n (c10_sub t a) (c10_spec_binop n OpSub (c10_val t) (c10_val a)) /\
  same_val n (c10_mul n2 a t) (c10_spec_binop n OpMul (c10_val a) (c10_val t)) /\
  same_val n (c10_mul n2 t a) (c10_spec_binop n OpMul (c10_val t) (c10_val a)).
Proof.
  intros Ha Hu Hn t. destruct (P_construct n u Hu) as (Wt & Vt & _).
  destruct (P_ring n2 n a t Ha Wt Hn) as (A1 & S1 & M1 & _).
  destruct (P_ring n2 n t a Wt Ha Hn) as (A2 & S2 & M2 & _).
  repeat split; try apply Wt; try exact Vt; try apply A1; try apply A2; try apply S1; try apply S2; try apply M1; try apply M2.
Qed.
