(* C10 — proofs, part 2 (deepening round): total division with a proved fuel bound, exact fuel
   characterisation, shifts by any amount, todouble as exact truncation, constructors, free operator
   templates (unsigned and signed built-in operand), self-aliasing compound forms, ring laws,
   numeric_limits, hashing, stream insertion. *)
From Coq Require Import List NArith ZArith Bool Lia Arith Ascii.
From Coq Require Import ZifyBool ZifyNat ZifyN.
From DuneV Require Import Params_gen C10_Model C10_Spec C10_Proofs.
Import ListNotations.
Local Open Scope N_scope.

Ltac Zify.zify_post_hook ::= Z.div_mod_to_equations.

(* outcome of a model operation against the spec's `option N` (None = a zero divisor is reported) *)
Definition res_is (n : nat) (r : c10_res) (v : option N) : Prop :=
  match v with
  | Some x => exists q, r = C10_Ok q /\ c10_wf n q /\ c10_val q = x
  | None => r = C10_MathError
  end.

Lemma width_Bp n : 2 ^ c10_spec_width n = Bp n. Proof. symmetry; apply Bp_width. Qed.

(* ---------- division: total statement, fuel bound depending on the width only *)
Lemma quot_lt_Bp a b : wf a -> c10_val b <> 0 -> c10_val a / c10_val b < Bp (length a).
Proof.
  intros Ha Hb. pose proof (val_bound a Ha).
  assert (c10_val a / c10_val b <= c10_val a) by (apply N.div_le_upper_bound; [assumption|nia]). lia.
Qed.

Lemma P_divmod_total n a b fuel : c10_wf n a -> c10_wf n b -> c10_val b <> 0 ->
  (N.to_nat (2 ^ c10_spec_width n) <= fuel)%nat ->
  exists q r, c10_div fuel a b = C10_Ok q /\ c10_mod fuel a b = C10_Ok r /\ c10_wf n q /\ c10_wf n r /\
    c10_val q = c10_val a / c10_val b /\ c10_val r = c10_val a mod c10_val b /\
    c10_val a = c10_val b * c10_val q + c10_val r /\ c10_val r < c10_val b.
Proof.
  intros Ha Hb H0 Hf. destruct (wf_of _ _ Ha) as [Wa La].
  destruct (P_divmod n a b fuel Ha Hb) as [_ H]. rewrite width_Bp in Hf.
  pose proof (quot_lt_Bp a b Wa H0) as Hq. rewrite La in Hq.
  destruct (H H0) as (q & r & Eq & Er & [Wq Vq] & [Wr Vr]); [lia|].
  unfold c10_spec_binop in Vq, Vr. destruct (N.eqb_spec (c10_val b) 0); [contradiction|].
  injection Vq as Vq. injection Vr as Vr.
  exists q, r. split; [exact Eq|]. split; [exact Er|]. split; [exact Wq|]. split; [exact Wr|].
  split; [symmetry; exact Vq|]. split; [symmetry; exact Vr|]. rewrite <- Vq, <- Vr. split.
  - apply N.div_mod. assumption.
  - apply N.mod_lt. assumption.
Qed.

(* the loops perform exactly val a / val b subtractions: fuel up to the quotient is exhausted *)
Lemma mod_loop_short fuel : forall a x, wf a -> wf x -> length a = length x -> c10_val x <> 0 ->
  (fuel <= N.to_nat (c10_val a / c10_val x))%nat -> c10_mod_loop fuel a x = C10_OutOfFuel.
Proof.
  induction fuel as [|f IH]; intros a x Ha Hx Hl H0 Hf; [reflexivity|].
  cbn [c10_mod_loop]. rewrite ge_spec by auto.
  assert (Hq : 1 <= c10_val a / c10_val x) by lia.
  assert (Hle : c10_val x <= c10_val a).
  { destruct (N.le_gt_cases (c10_val x) (c10_val a)); [assumption|]. rewrite N.div_small in Hq by assumption. lia. }
  destruct (N.leb_spec (c10_val x) (c10_val a)); [|lia].
  destruct (sub_spec a x Ha Hx Hl) as (W & L & _). pose proof (sub_spec_le a x Ha Hx Hl Hle) as V.
  apply IH; auto; [congruence|]. rewrite V.
  replace (c10_val a) with ((c10_val a - c10_val x) + 1 * c10_val x) in Hf by lia.
  rewrite N.div_add in Hf by assumption. lia.
Qed.

Lemma div_loop_short fuel : forall a x res, wf a -> wf x -> length a = length x -> c10_val x <> 0 ->
  (fuel <= N.to_nat (c10_val a / c10_val x))%nat -> c10_div_loop fuel a x res = C10_OutOfFuel.
Proof.
  induction fuel as [|f IH]; intros a x res Ha Hx Hl H0 Hf; [reflexivity|].
  cbn [c10_div_loop]. rewrite ge_spec by auto.
  assert (Hq : 1 <= c10_val a / c10_val x) by lia.
  assert (Hle : c10_val x <= c10_val a).
  { destruct (N.le_gt_cases (c10_val x) (c10_val a)); [assumption|]. rewrite N.div_small in Hq by assumption. lia. }
  destruct (N.leb_spec (c10_val x) (c10_val a)); [|lia].
  destruct (sub_spec a x Ha Hx Hl) as (W & L & _). pose proof (sub_spec_le a x Ha Hx Hl Hle) as V.
  apply IH; auto; [congruence|]. rewrite V.
  replace (c10_val a) with ((c10_val a - c10_val x) + 1 * c10_val x) in Hf by lia.
  rewrite N.div_add in Hf by assumption. lia.
Qed.

Lemma P_div_fuel_exact n a b fuel : c10_wf n a -> c10_wf n b -> c10_val b <> 0 ->
  (c10_div fuel a b = C10_OutOfFuel <-> (fuel <= N.to_nat (c10_val a / c10_val b))%nat) /\
  (c10_mod fuel a b = C10_OutOfFuel <-> (fuel <= N.to_nat (c10_val a / c10_val b))%nat).
Proof.
  intros Ha Hb H0. destruct (wf_of _ _ Ha) as [Wa La]. destruct (wf_of _ _ Hb) as [Wb Lb].
  assert (Hl : length a = length b) by congruence.
  assert (Z : c10_is_zero b = false) by (rewrite is_zero_spec by assumption; destruct (N.eqb_spec (c10_val b) 0); [contradiction|reflexivity]).
  destruct (P_divmod n a b fuel Ha Hb) as [_ H].
  split; split; intros E.
  - destruct (Nat.le_gt_cases fuel (N.to_nat (c10_val a / c10_val b))) as [|Hgt]; [assumption|exfalso].
    destruct (H H0 Hgt) as (q & r & Eq & _). rewrite Eq in E. discriminate.
  - unfold c10_div. rewrite Z. apply div_loop_short; auto.
  - destruct (Nat.le_gt_cases fuel (N.to_nat (c10_val a / c10_val b))) as [|Hgt]; [assumption|exfalso].
    destruct (H H0 Hgt) as (q & r & _ & Er & _). rewrite Er in E. discriminate.
  - unfold c10_mod. rewrite Z. apply mod_loop_short; auto.
Qed.

(* ---------- shifts by ANY amount *)
Lemma shl_spec_any a s : wf a ->
  wf (c10_shl a s) /\ length (c10_shl a s) = length a /\
  c10_val (c10_shl a s) = (c10_val a * 2 ^ s) mod Bp (length a).
Proof.
  intros Ha. unfold c10_shl. rewrite c10_bits_16.
  destruct (shl_digits_spec a (N.to_nat (s / 16)) Ha) as (W1 & L1 & V1).
  assert (Hr : s mod 16 < 16) by (apply N.mod_lt; lia).
  destruct (shl_bits_spec (s mod 16) Hr _ 0 W1) as (W & L & V).
  { apply N.neq_0_lt_0, N.pow_nonzero. discriminate. }
  repeat split; auto; [congruence|].
  rewrite V, L1, V1, N.add_0_r. pose proof (Bp_pos (length a)).
  rewrite N.mul_mod_idemp_l by lia. f_equal.
  rewrite Bp_pow2, N2Nat.id.
  replace (2 ^ s) with (2 ^ (16 * (s / 16)) * 2 ^ (s mod 16)).
  - ring.
  - rewrite <- N.pow_add_r. f_equal. pose proof (N.div_mod s 16). lia.
Qed.

Lemma shr_spec_any a s : wf a -> (N.to_nat (s / 16) <= length a)%nat ->
  wf (c10_shr a s) /\ length (c10_shr a s) = length a /\ c10_val (c10_shr a s) = c10_val a / 2 ^ s.
Proof.
  intros Ha Hj. unfold c10_shr. rewrite c10_bits_16.
  destruct (shr_digits_spec a (N.to_nat (s / 16)) Ha Hj) as (W1 & L1 & V1).
  assert (Hr : s mod 16 < 16) by (apply N.mod_lt; lia).
  destruct (shr_bits_spec (s mod 16) Hr _ W1) as (W & L & V).
  repeat split; auto; [congruence|].
  rewrite V, V1, Bp_pow2, N2Nat.id.
  rewrite N.div_div by (apply N.pow_nonzero; discriminate). rewrite <- N.pow_add_r. f_equal. f_equal.
  pose proof (N.div_mod s 16). lia.
Qed.

Lemma pow2_mul_mod_0 v s w : w <= s -> (v * 2 ^ s) mod 2 ^ w = 0.
Proof.
  intros H. replace s with (w + (s - w)) by lia. rewrite N.pow_add_r.
  replace (v * (2 ^ w * 2 ^ (s - w))) with ((v * 2 ^ (s - w)) * 2 ^ w) by ring.
  apply N.mod_mul. apply N.pow_nonzero. discriminate.
Qed.

Lemma P_shift_any n a s : c10_wf n a ->
  c10_wf n (c10_shl a s) /\ c10_val (c10_shl a s) = c10_spec_shift n true (c10_val a) s /\
  (c10_spec_width n <= s -> c10_val (c10_shl a s) = 0) /\
  (s < c10_spec_width n + c10_bits ->
     c10_shr_checked a s = C10_Ok (c10_shr a s) /\ c10_wf n (c10_shr a s) /\
     c10_val (c10_shr a s) = c10_spec_shift n false (c10_val a) s /\
     (c10_spec_width n <= s -> c10_val (c10_shr a s) = 0)) /\
  (c10_spec_width n + c10_bits <= s -> c10_shr_checked a s = C10_OutOfBounds).
Proof.
  intros Ha. destruct (wf_of _ _ Ha) as [Wa La].
  destruct (shl_spec_any a s Wa) as (W1 & L1 & V1).
  unfold c10_spec_shift, c10_shr_checked. rewrite width_Bp. unfold c10_spec_width. rewrite c10_bits_16. rewrite La in *.
  split; [apply wf_to; congruence|]. split; [exact V1|]. split.
  - intros Hs. rewrite V1, Bp_pow2. apply pow2_mul_mod_0. exact Hs.
  - split.
    + intros Hs.
      assert (Hj : (N.to_nat (s / 16) <= n)%nat).
      { assert (s / 16 < N.of_nat n + 1) by (apply N.div_lt_upper_bound; lia). lia. }
      destruct (Nat.ltb_spec n (N.to_nat (s / 16))); [lia|].
      rewrite <- La in Hj. destruct (shr_spec_any a s Wa Hj) as (W2 & L2 & V2).
      split; [reflexivity|]. split; [apply wf_to; congruence|]. split; [exact V2|].
      intros Hw. rewrite V2. apply N.div_small.
      pose proof (val_bound a Wa) as B. rewrite La, Bp_pow2 in B.
      apply N.lt_le_trans with (2 ^ (16 * N.of_nat n)); [exact B|]. apply N.pow_le_mono_r; lia.
    + intros Hs. destruct (Nat.ltb_spec n (N.to_nat (s / 16))) as [|Hge]; [reflexivity|exfalso].
      assert (N.of_nat n + 1 <= s / 16) by (apply N.div_le_lower_bound; lia). lia.
Qed.

(* ---------- todouble: exact truncation to the top three digits *)
Lemma rev_repeat0 z : rev (repeat 0 z) = repeat 0 z.
Proof.
  induction z as [|z IH]; [reflexivity|]. cbn [repeat rev]. rewrite IH. clear. induction z; cbn; [reflexivity|f_equal; assumption].
Qed.

Lemma decomp a : wf a -> exists hd z, a = hd ++ repeat 0 z /\ wf hd /\ c10_first_in_zero_range a = length hd /\
  match rev hd with d :: _ => d <> 0 | [] => True end.
Proof.
  intros Ha. unfold c10_first_in_zero_range.
  destruct (lz_spec (rev a)) as (E & L & T). rewrite rev_length in L.
  set (z := c10_leading_zeros (rev a)) in *.
  exists (rev (skipn z (rev a))), z. repeat split.
  - rewrite <- (rev_involutive a) at 1. rewrite E at 1. rewrite rev_app_distr, rev_repeat0. reflexivity.
  - apply Forall_rev, wf_skipn, Forall_rev; exact Ha.
  - rewrite rev_length, skipn_length, rev_length; reflexivity.
  - rewrite rev_involutive; exact T.
Qed.

Lemma log2_digits v L : 0 < L -> Bp (N.to_nat (L - 1)) <= v -> v < Bp (N.to_nat L) -> N.log2 v / 16 + 1 = L.
Proof.
  intros HL Hlo Hhi. rewrite Bp_pow2, N2Nat.id in Hlo, Hhi.
  assert (Hv : 0 < v). { apply N.lt_le_trans with (2 ^ (16 * (L - 1))); [|exact Hlo]. apply N.neq_0_lt_0, N.pow_nonzero. discriminate. }
  destruct (N.log2_spec v Hv) as [S1 S2].
  assert (A : 16 * (L - 1) < N.succ (N.log2 v)).
  { apply (N.pow_lt_mono_r_iff 2); [lia|]. lia. }
  assert (B : N.log2 v < 16 * L).
  { apply (N.pow_lt_mono_r_iff 2); [lia|]. lia. }
  assert (N.log2 v / 16 = L - 1); [|lia].
  symmetry. apply (N.div_unique _ _ _ (N.log2 v - 16 * (L - 1))); lia.
Qed.

Lemma first_sig a : wf a -> N.of_nat (c10_first_in_zero_range a) = c10_spec_sigdigits (c10_val a).
Proof.
  intros Ha. destruct (decomp a Ha) as (hd & z & Ea & Wh & F & T). rewrite F.
  assert (Va : c10_val a = c10_val hd) by (rewrite Ea at 1; rewrite val_app, val_repeat0; lia).
  rewrite Va. unfold c10_spec_sigdigits. rewrite c10_bits_16.
  destruct hd as [|d0 hd'] eqn:Eh.
  - rewrite val_nil. reflexivity.
  - rewrite <- Eh in *. assert (Hl : (0 < length hd)%nat) by (rewrite Eh; cbn; lia).
    pose proof (val_last_nonzero hd Wh T Hl) as Lo. pose proof (val_bound hd Wh) as Hi.
    assert (Hv : c10_val hd <> 0) by (pose proof (Bp_pos (length hd - 1)); lia).
    destruct (N.eqb_spec (c10_val hd) 0); [contradiction|].
    symmetry. apply log2_digits; [lia| |].
    + replace (N.to_nat (N.of_nat (length hd) - 1)) with (length hd - 1)%nat by lia. exact Lo.
    + rewrite Nat2N.id. exact Hi.
Qed.

Lemma P_todouble_exact n a : c10_wf n a -> c10_todouble a = c10_spec_todouble (c10_val a).
Proof.
  intros Ha. destruct (wf_of _ _ Ha) as [Wa La].
  pose proof (todouble_spec a Wa) as H. pose proof (first_sig a Wa) as F.
  assert (E : snd (c10_todouble a) = snd (c10_spec_todouble (c10_val a))).
  { unfold c10_todouble, c10_spec_todouble. cbn [snd]. rewrite <- F. f_equal.
    change (c10_param_double_digits / c10_bits) with 3. change (N.to_nat 3) with 3%nat.
    destruct (Nat.ltb_spec 3 (c10_first_in_zero_range a)); lia. }
  destruct (c10_todouble a) as [m e]. cbn [snd] in E. destruct H as (_ & Hle & Hlt & _).
  unfold c10_spec_todouble in *. cbn [snd] in E. rewrite <- E. f_equal.
  assert (P : 0 < 2 ^ e) by (apply N.neq_0_lt_0, N.pow_nonzero; discriminate).
  apply (N.div_unique _ _ _ (c10_val a - m * 2 ^ e)); lia.
Qed.

(* everything the double arithmetic of todouble touches is an integer below 2^48 (53 bits are exact), and the
   scaled result is a finite double as long as the width does not exceed 1024 bits *)
Lemma trace_fold ds : forall v tr, Forall (fun x => x <= v) tr ->
  let r := fold_left (fun '(v, tr) d => let v' := v * (N.shiftl c10_param_todouble_base_literal c10_bits) + d in (v', tr ++ [v'])) ds (v, tr) in
  fst r = fold_left (fun v d => v * c10_B + d) ds v /\ Forall (fun x => x <= fst r) (snd r) /\ v <= fst r.
Proof.
  induction ds as [|d ds IH]; intros v tr Htr.
  - cbn. repeat split; [assumption|lia].
  - cbn [fold_left]. change (N.shiftl c10_param_todouble_base_literal c10_bits) with c10_B. rewrite c10_B_val.
    specialize (IH (v * 65536 + d) (tr ++ [v * 65536 + d])).
    destruct IH as (I1 & I2 & I3).
    { apply Forall_app. split; [|constructor; [lia|constructor]]. eapply Forall_impl; [|exact Htr]. cbv beta. intros; lia. }
    change (N.shiftl c10_param_todouble_base_literal c10_bits) with c10_B in *. rewrite c10_B_val in *.
    repeat split; [exact I1|exact I2|]. eapply N.le_trans; [|exact I3]. lia.
Qed.

Lemma P_todouble_exact_double n a : c10_wf n a ->
  Forall (fun x => x < 2 ^ c10_param_double_digits) (c10_todouble_trace a) /\
  (length (c10_todouble_trace a) <= N.to_nat (c10_param_double_digits / c10_bits))%nat /\
  ((n <= 64)%nat -> fst (c10_todouble a) * 2 ^ snd (c10_todouble a) < 2 ^ 1024).
Proof.
  intros Ha. destruct (wf_of _ _ Ha) as [Wa La].
  pose proof (todouble_spec a Wa) as H.
  unfold c10_todouble_trace, c10_todouble in *.
  set (first := c10_first_in_zero_range a) in *.
  set (last := if (N.to_nat (c10_param_double_digits / c10_bits) <? first)%nat then (first - N.to_nat (c10_param_double_digits / c10_bits))%nat else 0%nat) in *.
  set (ds := rev (firstn (first - last) (skipn last a))) in *.
  destruct (trace_fold ds 0 [] (Forall_nil _)) as (T1 & T2 & _).
  cbv zeta in T1, T2.
  set (r := fold_left (fun '(v, tr) d => let v' := v * N.shiftl c10_param_todouble_base_literal c10_bits + d in (v', tr ++ [v'])) ds (0, [])) in *.
  destruct H as (H48 & Hle & _). rewrite <- T1 in H48, Hle.
  split; [|split].
  - eapply Forall_impl; [|exact T2]. cbv beta. intros x Hx. change (2 ^ c10_param_double_digits) with (2 ^ 53).
    apply N.le_lt_trans with (fst r); [exact Hx|]. apply N.lt_trans with (2 ^ 48); [exact H48|reflexivity].
  - assert (Hlen : forall ds v tr, length (snd (fold_left (fun '(v, tr) d => let v' := v * N.shiftl c10_param_todouble_base_literal c10_bits + d in (v', tr ++ [v'])) ds (v, tr))) = (length tr + length ds)%nat).
    { clear. induction ds as [|d ds IH]; intros v tr; cbn [fold_left length snd]; [lia|]. rewrite IH, app_length. cbn. lia. }
    unfold r. rewrite Hlen. unfold ds. rewrite rev_length, firstn_length, skipn_length. cbn [length].
    unfold last. change (N.to_nat (c10_param_double_digits / c10_bits)) with 3%nat.
    destruct (Nat.ltb_spec 3 first); lia.
  - intros Hn. cbn [fst snd]. rewrite <- T1. apply N.le_lt_trans with (c10_val a); [exact Hle|].
    pose proof (val_bound a Wa) as B. rewrite La, Bp_pow2 in B.
    apply N.lt_le_trans with (2 ^ (16 * N.of_nat n)); [exact B|]. apply N.pow_le_mono_r; lia.
Qed.

(* ---------- constructors *)
Lemma P_ctor n y :
  c10_wf n (c10_ctor_default n) /\ c10_val (c10_ctor_default n) = 0 /\
  ((y < 0)%Z -> c10_ctor_signed n y = C10_Exception) /\
  ((0 <= y < 2 ^ 63)%Z -> exists t, c10_ctor_signed n y = C10_Ok t /\ c10_wf n t /\
       c10_val t = Z.to_N y mod 2 ^ c10_spec_width n /\ t = c10_assign n (Z.to_N y)).
Proof.
  split; [|split; [|split]].
  - destruct (assign_spec n 0) as (W & L & V); [reflexivity|]. apply wf_to; assumption.
  - destruct (assign_spec n 0) as (W & L & V); [reflexivity|]. unfold c10_ctor_default. rewrite V.
    apply N.mod_0_l. pose proof (Bp_pos n). lia.
  - intros Hy. unfold c10_ctor_signed. destruct (Z.ltb_spec y 0); [reflexivity|lia].
  - intros Hy. unfold c10_ctor_signed. destruct (Z.ltb_spec y 0); [lia|].
    assert (Hx : Z.to_N y < 2 ^ 64).
    { apply N2Z.inj_lt. rewrite Z2N.id by lia. change (Z.of_N (2 ^ 64)) with (2 ^ 64)%Z.
      apply Z.lt_trans with (2 ^ 63)%Z; [lia|reflexivity]. }
    destruct (assign_spec n (Z.to_N y) Hx) as (W & L & V).
    eexists. split; [reflexivity|]. split; [apply wf_to; assumption|]. split; [|reflexivity].
    rewrite V, width_Bp. reflexivity.
Qed.

(* ---------- every binary operator against the spec table, with the width-only fuel bound *)
Lemma same_val_res n q v : same_val n q (Some v) -> res_is n (C10_Ok q) (Some v).
Proof. intros [W E]. injection E as E. exists q. repeat split; try apply W; auto. Qed.

Lemma P_apply n2 n fuel o a b : c10_wf n a -> c10_wf n b -> (n <= n2)%nat ->
  (N.to_nat (2 ^ c10_spec_width n) <= fuel)%nat ->
  res_is n (c10_apply n2 fuel o a b) (c10_spec_binop n o (c10_val a) (c10_val b)).
Proof.
  intros Ha Hb Hn Hf.
  destruct (P_ring n2 n a b Ha Hb Hn) as (A & S & M & _).
  destruct (P_bitwise n a b Ha Hb) as (An & Or & Xo & _).
  destruct o; cbn [c10_apply]; try (apply same_val_res; assumption).
  - (* div *) unfold c10_spec_binop. destruct (N.eqb_spec (c10_val b) 0) as [E|E].
    + apply (P_divmod n a b fuel Ha Hb); exact E.
    + destruct (P_divmod_total n a b fuel Ha Hb E Hf) as (q & r & Eq & Er & Wq & Wr & Vq & Vr & _).
      exists q. auto.
  - unfold c10_spec_binop. destruct (N.eqb_spec (c10_val b) 0) as [E|E].
    + apply (P_divmod n a b fuel Ha Hb); exact E.
    + destruct (P_divmod_total n a b fuel Ha Hb E Hf) as (q & r & Eq & Er & Wq & Wr & Vq & Vr & _).
      exists r. auto.
Qed.

(* free operator templates, built-in unsigned operand on either side, ALL FIVE of them (and the three
   bitwise ones, which reach the member operators through the converting constructor) *)
Lemma P_free n2 n fuel o a u : c10_wf n a -> u < 2 ^ 64 -> (n <= n2)%nat ->
  (N.to_nat (2 ^ c10_spec_width n) <= fuel)%nat ->
  res_is n (c10_free_right n2 fuel o a u) (c10_spec_binop n o (c10_val a) (u mod 2 ^ c10_spec_width n)) /\
  res_is n (c10_free_left n2 fuel o u a) (c10_spec_binop n o (u mod 2 ^ c10_spec_width n) (c10_val a)).
Proof.
  intros Ha Hu Hn Hf. destruct (P_construct n u Hu) as (Wt & Vt & _).
  unfold c10_free_right, c10_free_left. rewrite (proj1 Ha). rewrite <- Vt.
  split; apply P_apply; assumption.
Qed.

(* the same with a SIGNED built-in operand: a negative operand is rejected (model of the code after fix C10-5),
   a non-negative one behaves as the unsigned operand of the same value; the code as written (`_conv`)
   agrees for non-negative operands *)
Lemma to_uintmax_nonneg y : (0 <= y < 2 ^ 63)%Z -> c10_to_uintmax y = Z.to_N y.
Proof.
  intros Hy. unfold c10_to_uintmax. change (2 ^ Z.of_N c10_param_uintmax_digits)%Z with (2 ^ 64)%Z.
  rewrite Z.mod_small; [reflexivity|]. split; [lia|]. apply Z.lt_trans with (2 ^ 63)%Z; [lia|reflexivity].
Qed.

Lemma P_free_signed n2 n fuel o a y : c10_wf n a ->
  ((y < 0)%Z -> c10_free_right_signed n2 fuel o a y = C10_Exception /\ c10_free_left_signed n2 fuel o y a = C10_Exception) /\
  ((0 <= y < 2 ^ 63)%Z ->
     c10_free_right_signed n2 fuel o a y = c10_free_right n2 fuel o a (Z.to_N y) /\
     c10_free_left_signed n2 fuel o y a = c10_free_left n2 fuel o (Z.to_N y) a /\
     c10_free_right_conv n2 fuel o a y = c10_free_right n2 fuel o a (Z.to_N y) /\
     c10_free_left_conv n2 fuel o y a = c10_free_left n2 fuel o (Z.to_N y) a /\ Z.to_N y < 2 ^ 64).
Proof.
  intros Ha. split; intros Hy.
  - unfold c10_free_right_signed, c10_free_left_signed, c10_ctor_signed. destruct (Z.ltb_spec y 0); [split; reflexivity|lia].
  - unfold c10_free_right_signed, c10_free_left_signed, c10_ctor_signed, c10_free_right_conv, c10_free_left_conv.
    rewrite to_uintmax_nonneg by assumption.
    destruct (Z.ltb_spec y 0); [lia|]. repeat split.
    apply N2Z.inj_lt. rewrite Z2N.id by lia. change (Z.of_N (2 ^ 64)) with (2 ^ 64)%Z.
    apply Z.lt_trans with (2 ^ 63)%Z; [lia|reflexivity].
Qed.

(* the code as written, negative operand: neither rejected nor arithmetic modulo 2^w once w > 64 *)
Lemma P_free_conv_negative_refuted :
  exists n2 n fuel a y r, c10_wf n a /\ (y < 0)%Z /\ c10_free_right_conv n2 fuel OpAdd a y = C10_Ok r /\
    c10_free_left_conv n2 fuel OpAdd y a = C10_Ok r /\
    Z.of_N (c10_val r) <> ((Z.of_N (c10_val a) + y) mod 2 ^ Z.of_N (c10_spec_width n))%Z.
Proof.
  exists 10%nat, 5%nat, 0%nat, [5; 0; 0; 0; 0], (-1)%Z, [4; 0; 0; 0; 1].
  split; [split; [reflexivity|repeat constructor]|].
  split; [reflexivity|]. split; [vm_compute; reflexivity|]. split; [vm_compute; reflexivity|].
  vm_compute. discriminate.
Qed.

(* ... while for widths up to 64 bits the conversion modulo 2^64 IS arithmetic modulo 2^w *)
Lemma P_free_conv_narrow n2 n fuel a y : c10_wf n a -> (n <= 4)%nat -> (n <= n2)%nat -> (- 2 ^ 63 <= y < 2 ^ 63)%Z ->
  exists r, c10_free_right_conv n2 fuel OpAdd a y = C10_Ok r /\ c10_wf n r /\
    Z.of_N (c10_val r) = ((Z.of_N (c10_val a) + y) mod 2 ^ Z.of_N (c10_spec_width n))%Z.
Proof.
  intros Ha Hn Hn2 Hy. unfold c10_free_right_conv, c10_free_right. cbn [c10_apply].
  assert (Hu : c10_to_uintmax y < 2 ^ 64).
  { unfold c10_to_uintmax. apply N2Z.inj_lt. change (2 ^ Z.of_N c10_param_uintmax_digits)%Z with (2 ^ 64)%Z.
    rewrite Z2N.id by (apply Z.mod_pos_bound; reflexivity). change (Z.of_N (2 ^ 64)) with (2 ^ 64)%Z. apply Z.mod_pos_bound; reflexivity. }
  destruct (P_construct n (c10_to_uintmax y) Hu) as (Wt & Vt & _).
  destruct (P_ring n2 n a _ Ha Wt Hn2) as ([W V] & _). rewrite (proj1 Ha).
  eexists. split; [reflexivity|]. split; [exact W|].
  unfold c10_spec_binop in V. injection V as V. rewrite <- V, Vt.
  set (w := c10_spec_width n).
  assert (Hw : exists c, 64 = w + c).
  { exists (64 - w). unfold w, c10_spec_width. rewrite c10_bits_16. lia. }
  destruct Hw as [c Hc].
  rewrite N2Z.inj_mod, N2Z.inj_add, N2Z.inj_mod, N2Z.inj_pow. change (Z.of_N 2) with 2%Z.
  unfold c10_to_uintmax. rewrite Z2N.id by (apply Z.mod_pos_bound; reflexivity).
  change (Z.of_N c10_param_uintmax_digits) with (Z.of_N 64). rewrite Hc, N2Z.inj_add, Z.pow_add_r by lia.
  set (P := (2 ^ Z.of_N w)%Z). assert (0 < P)%Z by (apply Z.pow_pos_nonneg; lia).
  set (Q := (2 ^ Z.of_N c)%Z). assert (0 < Q)%Z by (apply Z.pow_pos_nonneg; lia).
  rewrite Z.rem_mul_r by lia.
  rewrite Z.add_mod_idemp_r by lia.
  replace (Z.of_N (c10_val a) + (y mod P + P * ((y / P) mod Q)))%Z with (Z.of_N (c10_val a) + y mod P + ((y / P) mod Q) * P)%Z by ring.
  rewrite Z.mod_add by lia. rewrite Z.add_mod_idemp_r by lia. reflexivity.
Qed.

(* ---------- the divisor aliasing the dividend (a /= a, a %= a) in the code as written: never terminates *)
Lemma alias_loops fuel : forall a res, wf a -> c10_div_alias_loop fuel a res = C10_OutOfFuel /\ c10_mod_alias_loop fuel a = C10_OutOfFuel.
Proof.
  induction fuel as [|f IH]; intros a res Ha; [split; reflexivity|].
  cbn [c10_div_alias_loop c10_mod_alias_loop]. rewrite ge_spec by auto. rewrite N.leb_refl.
  destruct (sub_spec a a Ha Ha eq_refl) as (W & _). split; apply IH; assumption.
Qed.

Lemma P_div_alias_diverges n a fuel : c10_wf n a -> c10_val a <> 0 ->
  c10_div_alias fuel a = C10_OutOfFuel /\ c10_mod_alias fuel a = C10_OutOfFuel.
Proof.
  intros Ha H0. destruct (wf_of _ _ Ha) as [Wa La]. unfold c10_div_alias, c10_mod_alias.
  rewrite is_zero_spec by assumption. destruct (N.eqb_spec (c10_val a) 0); [contradiction|].
  split; apply alias_loops; assumption.
Qed.

(* both operands the same object, value semantics (binary forms, and the compound forms after fix C10-4) *)
Lemma P_self_operand n2 n fuel a : c10_wf n a -> (n <= n2)%nat -> (N.to_nat (2 ^ c10_spec_width n) <= fuel)%nat ->
  c10_val (c10_add a a) = (2 * c10_val a) mod 2 ^ c10_spec_width n /\ c10_sub a a = c10_zero n /\
  c10_val (c10_mul n2 a a) = (c10_val a * c10_val a) mod 2 ^ c10_spec_width n /\
  c10_and a a = a /\ c10_or a a = a /\ c10_xor a a = c10_zero n /\
  c10_eq a a = true /\ c10_ne a a = false /\ c10_lt a a = false /\ c10_le a a = true /\ c10_gt a a = false /\ c10_ge a a = true /\
  (c10_val a <> 0 -> exists q, c10_div fuel a a = C10_Ok q /\ c10_val q = 1 /\ c10_wf n q /\ c10_mod fuel a a = C10_Ok (c10_zero n)) /\
  (c10_val a = 0 -> c10_div fuel a a = C10_MathError /\ c10_mod fuel a a = C10_MathError).
Proof.
  intros Ha Hn Hf. destruct (wf_of _ _ Ha) as [Wa La].
  destruct (P_ring n2 n a a Ha Ha Hn) as ([_ A] & [Ws S] & [_ M] & _).
  destruct (P_bitwise n a a Ha Ha) as ([Wn An] & [Wo Or] & [Wx Xo] & _).
  destruct (P_compare n a a Ha Ha) as (C1 & C2 & C3 & C4 & C5 & C6 & _).
  unfold c10_spec_binop in *. unfold c10_spec_cmp in *.
  injection A as A. injection S as S. injection M as M. injection An as An. injection Or as Or. injection Xo as Xo.
  assert (Wz : c10_wf n (c10_zero n)) by (apply wf_to; [apply wf_repeat0|apply length_zero]).
  assert (Vz : c10_val (c10_zero n) = 0) by apply val_repeat0.
  assert (INJ : forall x y, c10_wf n x -> c10_wf n y -> c10_val x = c10_val y -> x = y).
  { intros x y Hx Hy. apply (P_compare n x y Hx Hy). }
  pose proof (P_value_range n a Ha) as R. pose proof (fun H0 => P_divmod_total n a a fuel Ha Ha H0 Hf) as DIV. clear Hf.
  assert (HM2 : 0 < 2 ^ c10_spec_width n) by (apply N.neq_0_lt_0, N.pow_nonzero; discriminate).
  remember (2 ^ c10_spec_width n) as M2 eqn:EM2. clear EM2.
  repeat split.
  - rewrite <- A. f_equal. lia.
  - apply INJ; auto. rewrite <- S, Vz. rewrite (N.mod_small (c10_val a)) by assumption.
    replace (c10_val a + M2 - c10_val a) with (1 * M2) by lia. apply N.mod_mul. lia.
  - symmetry. exact M.
  - apply INJ; auto. rewrite <- An. apply N.land_diag.
  - apply INJ; auto. rewrite <- Or. apply N.lor_diag.
  - apply INJ; auto. rewrite <- Xo, Vz. apply N.lxor_nilpotent.
  - rewrite C5. apply N.eqb_refl.
  - rewrite C6, N.eqb_refl. reflexivity.
  - rewrite C1. apply N.ltb_irrefl.
  - rewrite C2. apply N.leb_refl.
  - rewrite C3. apply N.ltb_irrefl.
  - rewrite C4. apply N.leb_refl.
  - intros H0. destruct (DIV H0) as (q & r & Eq & Er & Wq & Wr & Vq & Vr & _).
    exists q. rewrite N.div_same in Vq by assumption. rewrite N.mod_same in Vr by assumption.
    split; [exact Eq|]. split; [exact Vq|]. split; [exact Wq|]. rewrite Er. f_equal. apply INJ; auto. congruence.
  - apply (P_divmod n a a fuel Ha Ha); assumption.
  - apply (P_divmod n a a fuel Ha Ha); assumption.
Qed.

(* ---------- ring laws on digit arrays (equalities of the arrays themselves, not only of their values) *)
Lemma mod_sub_cancel a b M : a < M -> b < M -> ((a + b) mod M + M - b mod M) mod M = a.
Proof.
  intros Ha Hb. rewrite (N.mod_small b) by assumption.
  destruct (N.lt_ge_cases (a + b) M) as [H|H].
  - rewrite (N.mod_small (a + b)) by assumption. replace (a + b + M - b) with (a + 1 * M) by lia.
    rewrite N.mod_add by lia. apply N.mod_small; assumption.
  - assert (E : (a + b) mod M = a + b - M).
    { replace (a + b) with ((a + b - M) + 1 * M) at 1 by lia. rewrite N.mod_add by lia. apply N.mod_small. lia. }
    rewrite E. replace (a + b - M + M - b) with a by lia. apply N.mod_small; assumption.
Qed.

Lemma rl_sub_add a b M : a < M -> b < M -> ((a + M - b) mod M + b) mod M = a.
Proof.
  intros Ha Hb. rewrite N.add_mod_idemp_l by lia. replace (a + M - b + b) with (a + 1 * M) by lia.
  rewrite N.mod_add by lia. apply N.mod_small; assumption.
Qed.
Lemma rl_not_add a M : a < M -> (a + (M - 1 - a)) mod M = M - 1.
Proof. intros Ha. replace (a + (M - 1 - a)) with (M - 1) by lia. apply N.mod_small. lia. Qed.
Lemma rl_neg a M : a < M -> (M - 1 - a + 1) mod M = (0 + M - a) mod M.
Proof. intros Ha. f_equal. lia. Qed.

Lemma P_ring_laws n2 n a b c : c10_wf n a -> c10_wf n b -> c10_wf n c -> (n <= n2)%nat ->
  c10_add a b = c10_add b a /\ c10_add (c10_add a b) c = c10_add a (c10_add b c) /\
  c10_mul n2 a b = c10_mul n2 b a /\ c10_mul n2 (c10_mul n2 a b) c = c10_mul n2 a (c10_mul n2 b c) /\
  c10_mul n2 a (c10_add b c) = c10_add (c10_mul n2 a b) (c10_mul n2 a c) /\
  c10_add a (c10_zero n) = a /\ c10_mul n2 a (c10_assign n 1) = a /\
  c10_sub (c10_add a b) b = a /\ c10_add (c10_sub a b) b = a /\
  c10_add a (c10_not a) = c10_max n /\ c10_incr (c10_not a) = c10_sub (c10_zero n) a /\
  c10_incr a = c10_add a (c10_assign n 1).
Proof.
  intros Ha Hb Hc Hn.
  assert (INJ : forall x y, c10_wf n x -> c10_wf n y -> c10_val x = c10_val y -> x = y).
  { intros x y Hx Hy. apply (P_compare n x y Hx Hy). }
  assert (ADD : forall x y, c10_wf n x -> c10_wf n y -> c10_wf n (c10_add x y) /\ c10_val (c10_add x y) = (c10_val x + c10_val y) mod 2 ^ c10_spec_width n).
  { intros x y Hx Hy. destruct (P_ring n2 n x y Hx Hy Hn) as ([W V] & _). injection V as V. auto. }
  assert (SUB : forall x y, c10_wf n x -> c10_wf n y -> c10_wf n (c10_sub x y) /\ c10_val (c10_sub x y) = (c10_val x + 2 ^ c10_spec_width n - c10_val y mod 2 ^ c10_spec_width n) mod 2 ^ c10_spec_width n).
  { intros x y Hx Hy. destruct (P_ring n2 n x y Hx Hy Hn) as (_ & [W V] & _). injection V as V. auto. }
  assert (MUL : forall x y, c10_wf n x -> c10_wf n y -> c10_wf n (c10_mul n2 x y) /\ c10_val (c10_mul n2 x y) = (c10_val x * c10_val y) mod 2 ^ c10_spec_width n).
  { intros x y Hx Hy. destruct (P_ring n2 n x y Hx Hy Hn) as (_ & _ & [W V] & _). injection V as V. auto. }
  assert (INC : forall x, c10_wf n x -> c10_wf n (c10_incr x) /\ c10_val (c10_incr x) = (c10_val x + 1) mod 2 ^ c10_spec_width n).
  { intros x Hx. destruct (P_ring n2 n x x Hx Hx Hn) as (_ & _ & _ & W & V). auto. }
  assert (NOT : forall x, c10_wf n x -> c10_wf n (c10_not x) /\ c10_val (c10_not x) = 2 ^ c10_spec_width n - 1 - c10_val x).
  { intros x Hx. destruct (P_bitwise n x x Hx Hx) as (_ & _ & _ & W & V). auto. }
  assert (Wz : c10_wf n (c10_zero n)) by (apply wf_to; [apply wf_repeat0|apply length_zero]).
  assert (Vz : c10_val (c10_zero n) = 0) by apply val_repeat0.
  destruct (P_construct n 1 eq_refl) as (W1 & V1 & Wmax & Vmax & _).
  pose proof (P_value_range n a Ha) as Ra. pose proof (P_value_range n b Hb) as Rb. pose proof (P_value_range n c Hc) as Rc.
  assert (HM : 1 < 2 ^ c10_spec_width n \/ 2 ^ c10_spec_width n = 1).
  { assert (0 < 2 ^ c10_spec_width n) by (apply N.neq_0_lt_0, N.pow_nonzero; discriminate). lia. }
  remember (2 ^ c10_spec_width n) as M eqn:EM. clear EM.
  assert (HM0 : M <> 0) by lia.
  destruct (ADD a b Ha Hb) as [Wab Vab]. destruct (ADD b a Hb Ha) as [Wba Vba]. destruct (ADD b c Hb Hc) as [Wbc Vbc].
  destruct (MUL a b Ha Hb) as [Mab MVab]. destruct (MUL b a Hb Ha) as [Mba MVba]. destruct (MUL b c Hb Hc) as [Mbc MVbc].
  destruct (MUL a c Ha Hc) as [Mac MVac]. destruct (NOT a Ha) as [Wna Vna]. destruct (SUB a b Ha Hb) as [Wsab Vsab].
  repeat split.
  - apply INJ; auto. rewrite Vab, Vba, N.add_comm. reflexivity.
  - destruct (ADD _ c Wab Hc) as [W V]. destruct (ADD a _ Ha Wbc) as [W' V']. apply INJ; auto.
    rewrite V, V', Vab, Vbc. rewrite N.add_mod_idemp_l, N.add_mod_idemp_r by assumption. rewrite N.add_assoc. reflexivity.
  - apply INJ; auto. rewrite MVab, MVba, N.mul_comm. reflexivity.
  - destruct (MUL _ c Mab Hc) as [W V]. destruct (MUL a _ Ha Mbc) as [W' V']. apply INJ; auto.
    rewrite V, V', MVab, MVbc. rewrite N.mul_mod_idemp_l, N.mul_mod_idemp_r by assumption. rewrite N.mul_assoc. reflexivity.
  - destruct (MUL a _ Ha Wbc) as [W V]. destruct (ADD _ _ Mab Mac) as [W' V']. apply INJ; auto.
    rewrite V, V', Vbc, MVab, MVac. rewrite N.mul_mod_idemp_r by assumption. rewrite <- N.add_mod by assumption.
    rewrite N.mul_add_distr_l. reflexivity.
  - destruct (ADD a _ Ha Wz) as [W V]. apply INJ; auto. rewrite V, Vz, N.add_0_r. apply N.mod_small; assumption.
  - destruct (MUL a _ Ha W1) as [W V]. apply INJ; auto. rewrite V, V1.
    rewrite N.mul_mod_idemp_r by assumption. rewrite N.mul_1_r. apply N.mod_small; assumption.
  - destruct (SUB _ b Wab Hb) as [W V]. apply INJ; auto. rewrite V, Vab. apply mod_sub_cancel; assumption.
  - destruct (ADD _ b Wsab Hb) as [W V]. apply INJ; auto. rewrite V, Vsab. rewrite (N.mod_small (c10_val b)) by assumption.
    apply rl_sub_add; assumption.
  - destruct (ADD a _ Ha Wna) as [W V]. apply INJ; auto. rewrite V, Vna, Vmax. apply rl_not_add; assumption.
  - destruct (INC _ Wna) as [W V]. destruct (SUB _ a Wz Ha) as [W' V']. apply INJ; auto.
    rewrite V, V', Vna, Vz. rewrite (N.mod_small (c10_val a)) by assumption. apply rl_neg; assumption.
  - destruct (INC a Ha) as [W V]. destruct (ADD a _ Ha W1) as [W' V']. apply INJ; auto.
    rewrite V, V', V1. rewrite N.add_mod_idemp_r by assumption. reflexivity.
Qed.

(* ---------- numeric_limits *)
Lemma assign_lit n x : x = 0 -> c10_wf n (c10_assign n x) /\ c10_val (c10_assign n x) = 0.
Proof.
  intros ->. destruct (assign_spec n 0) as (W & L & V); [reflexivity|]. split; [apply wf_to; assumption|].
  rewrite V. apply N.mod_0_l. pose proof (Bp_pos n). lia.
Qed.

Lemma P_limits n : let L := c10_numeric_limits n in
  c10_l_is_specialized L = true /\ c10_l_is_signed L = false /\ c10_l_is_integer L = true /\ c10_l_is_exact L = true /\
  c10_l_radix L = 2 /\ c10_l_digits L = c10_spec_width n /\ c10_l_is_bounded L = true /\ c10_l_is_modulo L = true /\
  c10_l_min_exponent L = 0 /\ c10_l_min_exponent10 L = 0 /\ c10_l_max_exponent L = 0 /\ c10_l_max_exponent10 L = 0 /\
  c10_l_has_infinity L = false /\ c10_l_has_quiet_NaN L = false /\ c10_l_has_signaling_NaN L = false /\
  c10_l_has_denorm_plus1 L = 1 /\ c10_l_has_denorm_loss L = false /\ c10_l_is_iec559 L = false /\
  c10_l_traps L = false /\ c10_l_tinyness_before L = false /\ c10_l_round_style_plus1 L = 1 /\
  c10_wf n (c10_l_max L) /\ c10_val (c10_l_max L) = c10_l_radix L ^ c10_l_digits L - 1 /\
  c10_wf n (c10_l_min L) /\ c10_val (c10_l_min L) = 0 /\
  (forall a, c10_wf n a -> c10_val (c10_l_min L) <= c10_val a <= c10_val (c10_l_max L)) /\
  c10_incr (c10_l_max L) = c10_l_min L /\ c10_sub (c10_l_min L) (c10_assign n 1) = c10_l_max L /\
  Forall (fun z => c10_wf n z /\ c10_val z = 0)
    [c10_l_epsilon L; c10_l_round_error L; c10_l_infinity L; c10_l_quiet_NaN L; c10_l_signaling_NaN L; c10_l_denorm_min L].
Proof.
  intros L. destruct (P_construct n 1 eq_refl) as (W1 & V1 & Wmax & Vmax & Wmin & Vmin & D).
  assert (INJ : forall x y, c10_wf n x -> c10_wf n y -> c10_val x = c10_val y -> x = y).
  { intros x y Hx Hy. apply (P_compare n x y Hx Hy). }
  assert (HM : 0 < 2 ^ c10_spec_width n) by (apply N.neq_0_lt_0, N.pow_nonzero; discriminate).
  repeat match goal with |- _ /\ _ => split end; try reflexivity; try assumption.
  - intros a Ha. unfold L; cbn [c10_numeric_limits c10_l_max c10_l_min]. rewrite Vmin, Vmax. pose proof (P_value_range n a Ha). lia.
  - unfold L; cbn [c10_numeric_limits c10_l_max c10_l_min].
    destruct (P_ring n n (c10_max n) (c10_max n) Wmax Wmax (le_n _)) as (_ & _ & _ & W & V).
    apply INJ; auto. rewrite V, Vmin, Vmax. replace (2 ^ c10_spec_width n - 1 + 1) with (1 * 2 ^ c10_spec_width n) by lia.
    apply N.mod_mul. lia.
  - unfold L; cbn [c10_numeric_limits c10_l_max c10_l_min].
    destruct (P_ring n n (c10_min n) (c10_assign n 1) Wmin W1 (le_n _)) as (_ & [W V] & _). injection V as V.
    apply INJ; auto. rewrite <- V, Vmin, Vmax, V1. rewrite N.mod_mod by lia.
    destruct (N.eq_dec (2 ^ c10_spec_width n) 1) as [E|E].
    + rewrite E. reflexivity.
    + rewrite (N.mod_small 1) by lia. apply N.mod_small. lia.
  - repeat constructor; apply assign_lit; reflexivity.
Qed.

(* ---------- hashing: a function of the digit array only, hence of the value; fits std::size_t *)
Lemma hash_combine_lt s h : c10_hash_combine s h < 2 ^ c10_param_size_t_bits.
Proof. unfold c10_hash_combine. apply N.mod_lt. apply N.pow_nonzero. discriminate. Qed.

Lemma P_hash n a b : c10_wf n a -> c10_wf n b ->
  (c10_val a = c10_val b -> c10_hash a = c10_hash b) /\ (c10_eq a b = true -> c10_hash a = c10_hash b) /\
  c10_hash a < 2 ^ c10_param_size_t_bits /\
  (forall d, c10_hash (a ++ [d]) = c10_hash_combine (c10_hash a) d).
Proof.
  intros Ha Hb. destruct (P_compare n a b Ha Hb) as (_ & _ & _ & _ & E & _ & I).
  split; [intros H; rewrite (I H); reflexivity|]. split.
  - intros H. rewrite E in H. unfold c10_spec_cmp in H. apply N.eqb_eq in H. rewrite (I H). reflexivity.
  - split.
    + unfold c10_hash. destruct (rev a) as [|d r] eqn:Er.
      * assert (a = []) by (rewrite <- (rev_involutive a), Er; reflexivity). subst a. reflexivity.
      * assert (a = rev r ++ [d]) by (rewrite <- (rev_involutive a), Er; reflexivity). subst a.
        rewrite fold_left_app. cbn [fold_left]. apply hash_combine_lt.
    + intros d. unfold c10_hash. rewrite fold_left_app. reflexivity.
Qed.

(* ---------- stream insertion: appends the hex digits and leaves the stream in decimal *)
Lemma P_stream n out base a : c10_wf n a ->
  let st := c10_stream_insert (out, base) a in
  fst st = out ++ c10_print a /\ snd st = C10_dec /\
  c10_hexval (skipn (length out) (fst st)) = c10_val a /\ length (fst st) = (length out + 4 * n)%nat.
Proof.
  intros Ha. destruct (P_print n a Ha) as [V L]. cbn [c10_stream_insert fst snd].
  repeat split.
  - rewrite skipn_app, skipn_all, Nat.sub_diag. exact V.
  - rewrite app_length, L. reflexivity.
Qed.

(* ---------- n = ceil(k/16): the storage width is k rounded up to a multiple of the digit width *)
Lemma P_ndigits k : let n := c10_ndigits k in
  k <= c10_spec_width n /\ c10_spec_width n < k + c10_bits /\ c10_spec_width n mod c10_bits = 0 /\ (0 < k -> (1 <= n)%nat).
Proof.
  cbv zeta. unfold c10_ndigits, c10_spec_width. rewrite c10_bits_16. rewrite N2Nat.id.
  destruct (N.eqb_spec (k mod 16) 0); repeat split; lia.
Qed.

(* ---------- non-vacuity witnesses for the theorems of this file *)
Lemma C10_nonvacuous2_proof :
  (* division with the width-only fuel bound: 2^16 iterations suffice for one digit; quotient 21845 *)
  c10_div (N.to_nat (2 ^ c10_spec_width 1)) [65535] [3] = C10_Ok [21845] /\
  c10_div (N.to_nat 21845) [65535] [3] = C10_OutOfFuel /\ c10_div (N.to_nat 21846) [65535] [3] = C10_Ok [21845] /\
  (* shifts at and beyond the width *)
  c10_shl [65535; 65535] 32 = [0; 0] /\ c10_shl [65535; 65535] 1000 = [0; 0] /\
  c10_shr_checked [65535; 65535] 47 = C10_Ok [0; 0] /\ c10_shr_checked [65535; 65535] 48 = C10_OutOfBounds /\
  (* todouble drops the two low digits of a five-digit value *)
  c10_todouble [1; 2; 3; 4; 5] = (c10_val [3; 4; 5], 32) /\ c10_spec_sigdigits (c10_val [1; 2; 3; 4; 5]) = 5 /\
  c10_todouble_trace [1; 2; 3; 4; 5] = [5; 5 * 65536 + 4; (5 * 65536 + 4) * 65536 + 3] /\
  (* constructors and free operators *)
  c10_ctor_signed 2 (-1) = C10_Exception /\ c10_ctor_signed 2 65537 = C10_Ok [1; 1] /\
  c10_free_left 4 100 OpSub 1 [2; 0] = C10_Ok [65535; 65535] /\ c10_free_right 4 100 OpDiv [7; 0] 0 = C10_MathError /\
  c10_free_right_signed 4 100 OpAdd [7; 0] (-1) = C10_Exception /\
  c10_free_right_conv 10 0 OpAdd [5; 0; 0; 0; 0] (-1) = C10_Ok [4; 0; 0; 0; 1] /\
  (* aliasing *)
  c10_div_alias 1000 [7; 0] = C10_OutOfFuel /\ c10_div (N.to_nat 70000) [7; 0] [7; 0] = C10_Ok [1; 0] /\
  (* hash of the one-digit value 5 as computed by hash_combiner<8> *)
  c10_hash [5] = 6099401531929477805 /\ c10_ndigits 17 = 2%nat /\ c10_ndigits 16 = 1%nat.
Proof. repeat split; vm_compute; reflexivity. Qed.
