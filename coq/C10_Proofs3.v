(* C10 — proofs, part 3 (coverage audit round): object histories.  Every program over the instruction set
   c10_instr (compound and binary operators with arbitrary aliasing of the registers, copies, swaps, built-in
   operands, comparisons, throwing steps) computes on the digit arrays what the same program computes on numbers. *)
From Coq Require Import List NArith ZArith Bool Lia Arith.
From Coq Require Import ZifyBool ZifyNat ZifyN.
From DuneV Require Import Params_gen C10_Model C10_Spec C10_Proofs C10_Proofs2.
Import ListNotations.
Local Open Scope N_scope.

Definition c10_instr_ok (n : nat) (i : c10_instr) : Prop :=
  match i with
  | C10_IShr _ _ c => c < c10_spec_width n + c10_bits
  | C10_IBuiltinU _ _ u | C10_IBuiltinLeft _ _ u | C10_ICmpU _ _ u => u < 2 ^ 64
  | C10_IBuiltinS _ _ y => (y < 2 ^ 63)%Z
  | _ => True
  end.
Definition c10_regs_ok (n : nat) (rs : list big) : Prop := Forall (c10_wf n) rs.

Lemma wf_zero n : c10_wf n (c10_zero n).
Proof. apply wf_to; [apply wf_repeat0|apply length_zero]. Qed.

Lemma nth_wf n rs x : c10_regs_ok n rs -> c10_wf n (nth x rs (c10_zero n)).
Proof.
  intros H. destruct (nth_in_or_default x rs (c10_zero n)) as [I|E].
  - unfold c10_regs_ok in H. rewrite Forall_forall in H. apply H. exact I.
  - rewrite E. apply wf_zero.
Qed.

Lemma nth_val n rs x : nth x (map c10_val rs) 0 = c10_val (nth x rs (c10_zero n)).
Proof. rewrite <- (val_repeat0 n). fold (c10_zero n). apply map_nth. Qed.

Lemma map_upd {A B : Type} (f : A -> B) l d v : map f (c10_upd l d v) = c10_upd (map f l) d (f v).
Proof.
  unfold c10_upd. rewrite map_length. destruct (Nat.ltb d (length l)); [|reflexivity].
  rewrite map_app, firstn_map. cbn [map]. rewrite skipn_map. reflexivity.
Qed.

Lemma Forall_firstn' {A : Type} (P : A -> Prop) k : forall l, Forall P l -> Forall P (firstn k l).
Proof. induction k as [|k IH]; intros l H; [constructor|]. destruct H; cbn [firstn]; constructor; auto. Qed.
Lemma Forall_skipn' {A : Type} (P : A -> Prop) k : forall l, Forall P l -> Forall P (skipn k l).
Proof. induction k as [|k IH]; intros l H; [exact H|]. destruct H; cbn [skipn]; [constructor|auto]. Qed.

Lemma Forall_upd {A : Type} (P : A -> Prop) l d v : Forall P l -> P v -> Forall P (c10_upd l d v).
Proof.
  intros Hl Hv. unfold c10_upd. destruct (Nat.ltb d (length l)); [|exact Hl].
  apply Forall_app. split; [apply Forall_firstn'; exact Hl|]. constructor; [exact Hv|apply Forall_skipn'; exact Hl].
Qed.

Definition fin_model (rs : list big) (ev : list c10_event) (d : nat) (x : c10_res) : list big * list c10_event :=
  match x with C10_Ok v => (c10_upd rs d v, ev) | e => (rs, ev ++ [c10_event_of e]) end.
Definition fin_spec (rs : list N) (ev : list c10_event) (d : nat) (x : N + c10_event) : list N * list c10_event :=
  match x with inl v => (c10_upd rs d v, ev) | inr e => (rs, ev ++ [e]) end.

Lemma fin_sim n rs ev d res sp : c10_regs_ok n rs -> res_is n res sp ->
  c10_regs_ok n (fst (fin_model rs ev d res)) /\
  fin_spec (map c10_val rs) ev d (c10_spec_res_of sp) = (map c10_val (fst (fin_model rs ev d res)), snd (fin_model rs ev d res)).
Proof.
  intros Hr H. destruct sp as [x|]; cbn [res_is] in H.
  - destruct H as (q & -> & Wq & Vq). cbn [fin_model fin_spec c10_spec_res_of fst snd]. split.
    + apply Forall_upd; assumption.
    + rewrite map_upd, Vq. reflexivity.
  - subst res. cbn [fin_model fin_spec c10_spec_res_of fst snd c10_event_of]. split; [exact Hr|reflexivity].
Qed.

Lemma res_ok n q x : c10_wf n q -> c10_val q = x -> res_is n (C10_Ok q) (Some x).
Proof. intros W V. exists q. auto. Qed.

Lemma fin_ok n rs (ev : list c10_event) d q x : c10_regs_ok n rs -> c10_wf n q -> c10_val q = x ->
  c10_regs_ok n (c10_upd rs d q) /\ (c10_upd (map c10_val rs) d x, ev) = (map c10_val (c10_upd rs d q), ev).
Proof. intros Hr W V. split; [apply Forall_upd; assumption|]. rewrite map_upd, V. reflexivity. Qed.

Lemma cmp_apply_spec n c a b : c10_wf n a -> c10_wf n b -> c10_cmp_apply c a b = c10_spec_cmp c (c10_val a) (c10_val b).
Proof. intros Ha Hb. destruct (P_compare n a b Ha Hb) as (C1 & C2 & C3 & C4 & C5 & C6 & _). destruct c; assumption. Qed.

Lemma step_sim n n2 fuel i rs ev : c10_regs_ok n rs -> c10_instr_ok n i -> (n <= n2)%nat ->
  (N.to_nat (2 ^ c10_spec_width n) <= fuel)%nat ->
  c10_regs_ok n (fst (c10_step n n2 fuel i (rs, ev))) /\
  c10_spec_step n i (map c10_val rs, ev) =
    (map c10_val (fst (c10_step n n2 fuel i (rs, ev))), snd (c10_step n n2 fuel i (rs, ev))).
Proof.
  intros Hr Hi Hn Hf.
  assert (W : forall x, c10_wf n (nth x rs (c10_zero n))) by (intro x; apply nth_wf; exact Hr).
  assert (NV : forall x, nth x (map c10_val rs) 0 = c10_val (nth x rs (c10_zero n))) by (intro x; apply nth_val).
  destruct i; cbn [c10_step c10_spec_step c10_instr_ok] in *; rewrite ?NV.
  - (* compound *) apply (fin_sim n rs ev d). exact Hr. apply P_apply; auto.
  - (* binary *) apply (fin_sim n rs ev d). exact Hr. apply P_apply; auto.
  - (* incr *) destruct (P_ring n2 n _ _ (W d) (W d) Hn) as (_ & _ & _ & Wi & Vi).
    cbn [fst snd]. apply fin_ok; assumption.
  - (* not *) destruct (P_bitwise n _ _ (W s) (W s)) as (_ & _ & _ & Wi & Vi).
    cbn [fst snd]. apply fin_ok; assumption.
  - (* shl *) destruct (P_shift_any n _ c (W s)) as (Wi & Vi & _).
    cbn [fst snd]. apply fin_ok; assumption.
  - (* shr *) destruct (P_shift_any n _ c (W s)) as (_ & _ & _ & H & _). destruct (H Hi) as (E & Wi & Vi & _).
    rewrite E. cbn [fst snd]. apply fin_ok; assumption.
  - (* copy *) cbn [fst snd]. apply fin_ok; [exact Hr|apply W|reflexivity].
  - (* swap *) cbn [fst snd]. split.
    + apply Forall_upd; [apply Forall_upd; [exact Hr|apply W]|apply W].
    + rewrite !map_upd. reflexivity.
  - (* builtin unsigned, right *) apply (fin_sim n rs ev d). exact Hr. apply (P_free n2 n fuel o _ u (W d) Hi Hn Hf).
  - (* builtin signed *)
    destruct (P_free_signed n2 n fuel o _ y (W d)) as [Hneg Hpos].
    destruct (Z.ltb_spec y 0) as [Hy|Hy].
    + destruct (Hneg Hy) as [E _]. rewrite E. cbn [fst snd c10_event_of]. split; [exact Hr|reflexivity].
    + destruct (Hpos (conj Hy Hi)) as (E & _ & _ & _ & Hu). rewrite E.
      apply (fin_sim n rs ev d). exact Hr. apply (P_free n2 n fuel o _ _ (W d) Hu Hn Hf).
  - (* builtin on the left *) apply (fin_sim n rs ev d). exact Hr. apply (P_free n2 n fuel o _ u (W d) Hi Hn Hf).
  - (* comparison *) cbn [fst snd]. split; [exact Hr|]. rewrite (cmp_apply_spec n); auto.
  - (* comparison with a built-in *) cbn [fst snd]. split; [exact Hr|].
    destruct (P_construct n u Hi) as (Wt & Vt & _). rewrite (cmp_apply_spec n) by auto. rewrite Vt. reflexivity.
Qed.

Lemma P_histories n n2 fuel prog : forall rs ev, c10_regs_ok n rs -> Forall (c10_instr_ok n) prog -> (n <= n2)%nat ->
  (N.to_nat (2 ^ c10_spec_width n) <= fuel)%nat ->
  c10_regs_ok n (fst (c10_run n n2 fuel prog (rs, ev))) /\
  c10_spec_run n prog (map c10_val rs, ev) =
    (map c10_val (fst (c10_run n n2 fuel prog (rs, ev))), snd (c10_run n n2 fuel prog (rs, ev))).
Proof.
  induction prog as [|i prog IH]; intros rs ev Hr Hp Hn Hf.
  - cbn. split; [exact Hr|reflexivity].
  - inversion Hp as [|? ? Hi Hp']; subst.
    destruct (step_sim n n2 fuel i rs ev Hr Hi Hn Hf) as [Hr' E].
    unfold c10_run, c10_spec_run. cbn [fold_left]. rewrite E.
    destruct (c10_step n n2 fuel i (rs, ev)) as [rs' ev'] eqn:Es. cbn [fst snd] in *.
    apply IH; assumption.
Qed.

(* a throwing instruction leaves every object as it was, and the number of objects never changes *)
Lemma P_histories_frame n n2 fuel i rs ev :
  length (fst (c10_step n n2 fuel i (rs, ev))) = length rs /\
  (forall e, snd (c10_step n n2 fuel i (rs, ev)) = ev ++ [e] -> (forall b, e <> C10_EvBool b) ->
     fst (c10_step n n2 fuel i (rs, ev)) = rs).
Proof.
  assert (UL : forall (l : list big) d v, length (c10_upd l d v) = length l).
  { intros l d v. unfold c10_upd. destruct (Nat.ltb_spec d (length l)); [|reflexivity].
    rewrite app_length, firstn_length. cbn [length]. rewrite skipn_length. lia. }
  assert (NG : forall (l : list c10_event) e, l = l ++ [e] -> False).
  { intros l e H. rewrite <- (app_nil_r l) in H at 1. apply app_inv_head in H. discriminate. }
  destruct i; cbn [c10_step];
    repeat match goal with |- context [match ?x with C10_Ok _ => _ | _ => _ end] => destruct x end;
    cbn [fst snd]; (split; [rewrite ?UL; reflexivity|]); intros e He Hb; try reflexivity;
    try (exfalso; exact (NG _ _ He)).
Qed.

(* the bigunsignedint<2k> temporary of operator*= is wide enough for every index i+m the rows are written at
   (so the padding/truncation of the model's c10_single never cuts anything off) *)
Lemma P_mul_temp_indices k : (2 * c10_ndigits k - 1 <= c10_ndigits (2 * k))%nat.
Proof.
  unfold c10_ndigits. rewrite c10_bits_16.
  destruct (N.eqb_spec (k mod 16) 0); destruct (N.eqb_spec ((2 * k) mod 16) 0); lia.
Qed.

Lemma C10_nonvacuous3_proof :
  let prog := [C10_ICompound OpDiv 0 0; C10_IBinary OpMul 1 1 1; C10_ISwap 0 2; C10_ICompound OpMod 1 0;
               C10_IBuiltinS OpAdd 1 (-1); C10_IBuiltinLeft OpSub 2 0; C10_ICmp CmpLt 2 2; C10_IShr 1 1 33; C10_ICopy 2 2] in
  c10_run 2 4 (N.to_nat 70000) prog ([[7; 0]; [65535; 3]; [0; 0]], []) =
    ([[0; 0]; [0; 0]; [65535; 65535]], [C10_EvMathError; C10_EvException; C10_EvBool false]) /\
  c10_spec_run 2 prog ([7; 65535 + 3 * 65536; 0], []) = ([0; 0; 4294967295], [C10_EvMathError; C10_EvException; C10_EvBool false]).
Proof. split; vm_compute; reflexivity. Qed.
