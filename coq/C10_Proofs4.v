(* C10 — proofs, part 4 (round 6): print / operator<< on a stream in an ARBITRARY formatting state
   (basefield, showbase, uppercase, showpos, adjustfield, fill, width, locale digit grouping). *)
From Coq Require Import List NArith ZArith Bool Lia Arith Ascii.
From DuneV Require Import Params_gen C10_Model C10_Spec C10_Proofs.
Import ListNotations.
Local Open Scope N_scope.

(* ---------- one hex digit (a value below 16) through `s << std::hex << v` *)
Lemma hex_of_small uc v : v < 16 -> c10_hex_of uc v = [c10_hexchar_case uc v].
Proof.
  intros Hv. unfold c10_hex_of. cbn [c10_hex_of_loop].
  destruct (N.ltb_spec v 16) as [_|H]; [reflexivity|lia].
Qed.

Lemma group_single g sep c : c10_group g sep [c] = [c].
Proof.
  unfold c10_group. cbn [rev app c10_group_rev].
  destruct (0 <? g) eqn:G; cbn [andb]; [|reflexivity].
  destruct (N.eqb_spec 0 g) as [E|_]; [|reflexivity].
  subst g. discriminate G.
Qed.

(* a state "ready for the digits": showbase off, width 0 *)
Definition ready (s : c10_ios) : Prop := c10_s_showbase s = false /\ c10_s_width s = 0.

Lemma set_width_0_id s : c10_s_width s = 0 -> c10_ios_set_width s 0 = s.
Proof. destruct s; cbn. intros ->. reflexivity. Qed.

Lemma put_hex_small s v : ready s -> v < 16 ->
  c10_put_hex s v = ([c10_hexchar_case (c10_s_uppercase s) v], c10_ios_set_base s C10_hex).
Proof.
  intros [Hs Hw] Hv.
  destruct s as [b sb uc sp adj fl w g sep]; cbn [c10_s_showbase c10_s_width] in Hs, Hw. subst sb w.
  unfold c10_put_hex.
  cbn [c10_ios_set_base c10_s_group c10_s_sep c10_s_uppercase c10_s_showbase c10_s_base c10_s_showpos c10_s_adjust c10_s_fill c10_s_width andb].
  rewrite hex_of_small by assumption. rewrite group_single.
  unfold c10_pad_field, c10_ios_set_width.
  cbn [c10_s_group c10_s_sep c10_s_uppercase c10_s_showbase c10_s_base c10_s_showpos c10_s_adjust c10_s_fill c10_s_width N.to_nat Nat.sub repeat app].
  destruct adj; reflexivity.
Qed.

Lemma ready_set_base s b : ready s -> ready (c10_ios_set_base s b).
Proof. destruct s; unfold ready; cbn; auto. Qed.
Lemma set_base_set_base s b b' : c10_ios_set_base (c10_ios_set_base s b) b' = c10_ios_set_base s b'.
Proof. destruct s; reflexivity. Qed.
Lemma uppercase_set_base s b : c10_s_uppercase (c10_ios_set_base s b) = c10_s_uppercase s.
Proof. destruct s; reflexivity. Qed.

Definition nib (d : N) (sh : nat) : N := N.land (N.shiftr d (c10_param_nibble_bits * N.of_nat sh)) c10_param_nibble_mask.
Lemma nib_lt d sh : nib d sh < 16.
Proof.
  unfold nib. change c10_param_nibble_mask with (N.ones 4). rewrite N.land_ones. apply N.mod_lt. discriminate.
Qed.

(* the state after the digit loops is the state before with some basefield *)
Lemma inner_fold s0 d : forall shs o b, ready s0 ->
  exists b', fold_left (fun os sh => let '(c, s') := c10_put_hex (snd os) (nib d sh) in (fst os ++ c, s')) shs (o, c10_ios_set_base s0 b)
    = (o ++ map (fun sh => c10_hexchar_case (c10_s_uppercase s0) (nib d sh)) shs, c10_ios_set_base s0 b').
Proof.
  induction shs as [|sh r IH]; intros o b Hr.
  - exists b. cbn. rewrite app_nil_r. reflexivity.
  - cbn [fold_left snd fst map].
    rewrite put_hex_small by (try apply ready_set_base; try apply nib_lt; assumption).
    rewrite set_base_set_base, uppercase_set_base.
    destruct (IH (o ++ [c10_hexchar_case (c10_s_uppercase s0) (nib d sh)]) C10_hex Hr) as [b' E].
    exists b'. rewrite E. rewrite <- app_assoc. reflexivity.
Qed.

Definition digit_case_l (shs : list nat) (uc : bool) (d : N) : list ascii :=
  map (fun sh => c10_hexchar_case uc (nib d sh)) shs.
Definition digit_case (uc : bool) (d : N) : list ascii := digit_case_l (rev (seq 0 (N.to_nat c10_param_hexdigits))) uc d.

Lemma outer_fold s0 shs : forall ra o b, ready s0 ->
  exists b', fold_left (fun os d =>
      fold_left (fun os sh => let '(c, s') := c10_put_hex (snd os) (nib d sh) in (fst os ++ c, s')) shs os) ra (o, c10_ios_set_base s0 b)
    = (o ++ flat_map (digit_case_l shs (c10_s_uppercase s0)) ra, c10_ios_set_base s0 b').
Proof.
  induction ra as [|d r IH]; intros o b Hr.
  - exists b. cbn [fold_left flat_map]. rewrite app_nil_r. reflexivity.
  - cbn [fold_left flat_map].
    destruct (inner_fold s0 d shs o b Hr) as [b1 E1].
    rewrite E1. destruct (IH (o ++ map (fun sh => c10_hexchar_case (c10_s_uppercase s0) (nib d sh)) shs) b1 Hr) as [b' E].
    exists b'. rewrite E. unfold digit_case_l. rewrite <- app_assoc. reflexivity.
Qed.

Lemma set_base_self s : c10_ios_set_base s (c10_s_base s) = s.
Proof. destruct s; reflexivity. Qed.

Lemma digit_case_print uc d : digit_case uc d = if uc then map c10_upcase (c10_print_digit d) else c10_print_digit d.
Proof.
  unfold digit_case, digit_case_l, c10_print_digit, c10_hexchar_case, nib. destruct uc; [|reflexivity].
  rewrite map_map. reflexivity.
Qed.

Lemma flat_map_case uc ra : flat_map (digit_case uc) ra = if uc then map c10_upcase (flat_map c10_print_digit ra) else flat_map c10_print_digit ra.
Proof.
  induction ra as [|d r IH]; [destruct uc; reflexivity|].
  cbn [flat_map]. rewrite IH, digit_case_print. destruct uc; [rewrite map_app|]; reflexivity.
Qed.

Lemma print_nibbles_ready s a : ready s ->
  exists b, c10_print_nibbles s a = (c10_print_case (c10_s_uppercase s) a, c10_ios_set_base s b).
Proof.
  intros Hr. unfold c10_print_nibbles.
  destruct (outer_fold s (rev (seq 0 (N.to_nat c10_param_hexdigits))) (rev a) [] (c10_s_base s) Hr) as [b E].
  rewrite set_base_self in E.
  exists b. unfold nib in E. rewrite E. cbn [app]. fold (digit_case (c10_s_uppercase s)). rewrite flat_map_case. reflexivity.
Qed.

(* ---------- the fill loop on a stream whose width is 0 *)
Lemma put_fill_w0 s k : c10_s_width s = 0 -> c10_put_fill s k = (repeat (c10_s_fill s) k, s).
Proof.
  intros Hw. induction k as [|k IH]; [reflexivity|].
  cbn [c10_put_fill]. unfold c10_put_char. rewrite (set_width_0_id s Hw). rewrite IH.
  unfold c10_pad_field. rewrite Hw. cbn [N.to_nat Nat.sub repeat app]. destruct (c10_s_adjust s); reflexivity.
Qed.

(* ---------- reading back, in either case *)
Lemma hexchar_cases x : In (c10_hexchar x)
  ["0"; "1"; "2"; "3"; "4"; "5"; "6"; "7"; "8"; "9"; "a"; "b"; "c"; "d"; "e"; "f"]%char.
Proof.
  destruct x as [|p]; [cbn; tauto|].
  do 4 (try destruct p as [p|p|]); cbn; tauto.
Qed.

Lemma hexdigit_ci c : In c ["0"; "1"; "2"; "3"; "4"; "5"; "6"; "7"; "8"; "9"; "a"; "b"; "c"; "d"; "e"; "f"]%char ->
  c10_hexdigit_val_ci c = c10_hexdigit_val c /\ c10_hexdigit_val_ci (c10_upcase c) = c10_hexdigit_val c.
Proof.
  intros H. cbn [In] in H.
  repeat (destruct H as [H|H]; [subst c; split; reflexivity|]). contradiction.
Qed.

Definition is_hexchar (c : ascii) : Prop := exists x, c = c10_hexchar x.

Lemma hexval_ci_fold l : Forall is_hexchar l -> forall acc,
  fold_left (fun v c => v * 16 + c10_hexdigit_val_ci c) l acc = fold_left (fun v c => v * 16 + c10_hexdigit_val c) l acc /\
  fold_left (fun v c => v * 16 + c10_hexdigit_val_ci c) (map c10_upcase l) acc = fold_left (fun v c => v * 16 + c10_hexdigit_val c) l acc.
Proof.
  induction 1 as [|c r [x Hc] Hr IH]; intros acc; [split; reflexivity|].
  cbn [fold_left map]. destruct (hexdigit_ci c) as [E1 E2]; [subst c; apply hexchar_cases|].
  rewrite E1, E2. apply IH.
Qed.

Lemma print_is_hexchar a : Forall is_hexchar (c10_print a).
Proof.
  unfold c10_print. apply Forall_forall. intros c Hc. apply in_flat_map in Hc. destruct Hc as (d & _ & Hc).
  unfold c10_print_digit in Hc. apply in_map_iff in Hc. destruct Hc as (sh & E & _). eexists. symmetry. exact E.
Qed.

Lemma hexval_print_case uc a : c10_hexval_ci (c10_print_case uc a) = c10_hexval (c10_print a) /\
  length (c10_print_case uc a) = length (c10_print a).
Proof.
  unfold c10_hexval_ci, c10_hexval, c10_print_case.
  destruct (hexval_ci_fold (c10_print a) (print_is_hexchar a) 0) as [E1 E2].
  destruct uc; [rewrite map_length|]; split; auto.
Qed.

(* ---------- the proposed fix (C10-7): every stream state *)
Lemma P_print_ios n a st : c10_wf n a ->
  let body := c10_print_case (c10_s_uppercase st) a in
  fst (c10_print_ios st a) = c10_spec_field st body /\
  snd (c10_print_ios st a) = c10_spec_ios_after st /\
  length body = (4 * n)%nat /\ c10_hexval_ci body = c10_val a /\
  c10_hexval_ci (c10_spec_unfield st (4 * n) (fst (c10_print_ios st a))) = c10_val a /\
  length (fst (c10_print_ios st a)) = Nat.max (N.to_nat (c10_s_width st)) (4 * n) /\
  (c10_s_width st <= 4 * N.of_nat n -> fst (c10_print_ios st a) = body /\ c10_hexval_ci (fst (c10_print_ios st a)) = c10_val a).
Proof.
  intros Ha body. destruct (P_print n a Ha) as [V L].
  destruct (hexval_print_case (c10_s_uppercase st) a) as [Vc Lc]. fold body in Vc, Lc.
  rewrite V in Vc. rewrite L in Lc.
  assert (Hlen : length a = n) by (destruct Ha; assumption).
  set (s1 := c10_ios_set_width (c10_ios_set_showbase st false) 0).
  assert (R1 : ready s1) by (destruct st; split; reflexivity).
  assert (W1 : c10_s_width s1 = 0) by apply R1.
  destruct (print_nibbles_ready s1 a R1) as [b EN].
  assert (U1 : c10_s_uppercase s1 = c10_s_uppercase st) by (destruct st; reflexivity).
  rewrite U1 in EN. fold body in EN.
  set (pad := (N.to_nat (c10_s_width st) - 4 * n)%nat).
  assert (F1 : c10_s_fill s1 = c10_s_fill st) by (destruct st; reflexivity).
  assert (OUT : fst (c10_print_ios st a) = c10_spec_field st body /\ snd (c10_print_ios st a) = c10_spec_ios_after st).
  { unfold c10_print_ios. change (N.to_nat c10_param_hexdigits) with 4%nat.
    replace (c10_s_width (c10_ios_set_showbase st false)) with (c10_s_width st) by (destruct st; reflexivity).
    rewrite Hlen. fold pad. fold s1.
    replace (c10_adjust_is_left s1) with (c10_adjust_is_left st) by (destruct st; reflexivity).
    unfold c10_spec_field. rewrite Lc. fold pad.
    destruct (c10_adjust_is_left st) eqn:LEFT.
    - rewrite EN. rewrite put_fill_w0 by (destruct st; reflexivity).
      replace (c10_s_fill (c10_ios_set_base s1 b)) with (c10_s_fill st) by (destruct st; reflexivity).
      cbn [fst snd app]. split; [reflexivity|].
      unfold c10_spec_ios_after, s1. destruct st as [b0 sb uc sp adj fl w g sep]; destruct sb; reflexivity.
    - rewrite put_fill_w0 by exact W1. rewrite EN. rewrite F1.
      cbn [fst snd]. rewrite app_nil_r. split; [reflexivity|].
      unfold c10_spec_ios_after, s1. destruct st as [b0 sb uc sp adj fl w g sep]; destruct sb; reflexivity. }
  destruct OUT as [O1 O2]. rewrite O1.
  assert (UNF : c10_spec_unfield st (4 * n) (c10_spec_field st body) = body).
  { unfold c10_spec_unfield, c10_spec_field. rewrite Lc. fold pad.
    destruct (c10_adjust_is_left st).
    - rewrite <- Lc. rewrite firstn_app, Nat.sub_diag, firstn_all. cbn [firstn]. apply app_nil_r.
    - rewrite app_length, repeat_length, Lc. replace (pad + 4 * n - 4 * n)%nat with (length (repeat (c10_s_fill st) pad)) by (rewrite repeat_length; lia).
      rewrite skipn_app, skipn_all, Nat.sub_diag. reflexivity. }
  repeat split; try assumption.
  - rewrite UNF. exact Vc.
  - unfold c10_spec_field. rewrite Lc. fold pad. destruct (c10_adjust_is_left st); rewrite app_length, repeat_length, Lc; unfold pad; lia.
  - unfold c10_spec_field. rewrite Lc. replace (N.to_nat (c10_s_width st) - 4 * n)%nat with 0%nat by lia.
    cbn [repeat]. destruct (c10_adjust_is_left st); [apply app_nil_r|reflexivity].
  - unfold c10_spec_field. rewrite Lc. replace (N.to_nat (c10_s_width st) - 4 * n)%nat with 0%nat by lia.
    cbn [repeat]. destruct (c10_adjust_is_left st); [rewrite app_nil_r|cbn [app]]; exact Vc.
Qed.

(* ---------- the code as written: the same on every stream without a pending width (every combination of the flags,
   fill character and locale grouping) ... *)
Lemma P_print_written_width0 a st : c10_s_width st = 0 -> c10_print_ios_written st a = c10_print_ios st a.
Proof.
  intros Hw. unfold c10_print_ios_written, c10_print_ios.
  replace (c10_s_width (c10_ios_set_showbase st false)) with 0 by (destruct st; cbn in *; congruence).
  cbn [N.to_nat Nat.sub].
  assert (W0 : c10_s_width (c10_ios_set_showbase st false) = 0) by (destruct st; cbn in *; congruence).
  rewrite (set_width_0_id _ W0).
  destruct (c10_adjust_is_left (c10_ios_set_showbase st false)); cbn [c10_put_fill];
    destruct (c10_print_nibbles (c10_ios_set_showbase st false) a) as [o s]; cbn [app]; rewrite ?app_nil_r; reflexivity.
Qed.

(* ... and with the first hex digit alone padded to a pending width: embedded padding.  Witness: bigunsignedint<32>(0xf0001234)
   on a stream with std::left, fill '0', width 6 prints f000000001234 -- thirteen hex digits denoting another number *)
Definition refute_st : c10_ios := {| c10_s_base := C10_dec; c10_s_showbase := false; c10_s_uppercase := false; c10_s_showpos := false;
  c10_s_adjust := C10_adj_left; c10_s_fill := "0"%char; c10_s_width := 6; c10_s_group := 0; c10_s_sep := ","%char |}.
Lemma P_print_written_width_refuted : exists n a st, c10_wf n a /\ Forall is_hexchar (fst (c10_print_ios_written st a)) /\
  c10_hexval_ci (fst (c10_print_ios_written st a)) <> c10_val a /\
  c10_hexval_ci (fst (c10_print_ios st a)) = c10_val a.
Proof.
  exists 2%nat, [4660; 61440], refute_st. split; [|split; [|split]].
  - split; [reflexivity|]. repeat constructor.
  - vm_compute. repeat constructor; first [exists 15; reflexivity | exists 0; reflexivity | exists 1; reflexivity | exists 2; reflexivity | exists 3; reflexivity | exists 4; reflexivity].
  - vm_compute. discriminate.
  - vm_compute. reflexivity.
Qed.

Definition nv_st : c10_ios := {| c10_s_base := C10_oct; c10_s_showbase := true; c10_s_uppercase := true; c10_s_showpos := true;
  c10_s_adjust := C10_adj_left; c10_s_fill := "*"%char; c10_s_width := 11; c10_s_group := 3; c10_s_sep := ","%char |}.
Lemma C10_nonvacuous4_proof :
  c10_wf 2 [43981; 18] /\
  c10_print_ios nv_st [43981; 18] = (["0";"0";"1";"2";"A";"B";"C";"D";"*";"*";"*"]%char, c10_ios_set_width (c10_ios_set_base nv_st C10_dec) 0) /\
  fst (c10_print_ios_written nv_st [43981; 18]) = ["0";"*";"*";"*";"*";"*";"*";"*";"*";"*";"*";"0";"1";"2";"A";"B";"C";"D"]%char /\
  c10_print_ios_written (c10_ios_set_width nv_st 0) [43981; 18] = (["0";"0";"1";"2";"A";"B";"C";"D"]%char, c10_ios_set_width (c10_ios_set_base nv_st C10_dec) 0) /\
  c10_hexval_ci ["0";"0";"1";"2";"A";"B";"C";"D"]%char = c10_val [43981; 18] /\
  fst (c10_put_hex nv_st 43981) = ["0";"X";"A";",";"B";"C";"D";"*";"*";"*";"*"]%char /\
  fst (c10_put_hex (c10_ios_set_width refute_st 4) 1) = ["1";"0";"0";"0"]%char.
Proof.
  split; [split; [reflexivity|repeat constructor]|].
  repeat match goal with |- _ /\ _ => split end; vm_compute; reflexivity.
Qed.
