(* C10 — the abstract statement: a bigunsignedint<k> with n digits IS the number
   c10_val digits in Z/2^w, w = 16 n.  These functions are the executable oracle: they are
   applied to the value of the implementation's own output. *)
From Coq Require Import List NArith ZArith Bool.
From DuneV Require Import Params_gen C10_Model.
Import ListNotations.
Local Open Scope N_scope.

Definition c10_spec_width (n : nat) : N := c10_bits * N.of_nat n.


(* result as a number, None = "a zero divisor is reported" *)
Definition c10_spec_binop (n : nat) (o : c10_binop) (a b : N) : option N :=
  let M := 2 ^ c10_spec_width n in
  match o with
  | OpAdd => Some ((a + b) mod M)
  | OpSub => Some ((a + M - b mod M) mod M)
  | OpMul => Some ((a * b) mod M)
  | OpDiv => if b =? 0 then None else Some (a / b)
  | OpMod => if b =? 0 then None else Some (a mod b)
  | OpAnd => Some (N.land a b)
  | OpOr => Some (N.lor a b)
  | OpXor => Some (N.lxor a b)
  end.

Definition c10_spec_cmp (o : c10_cmpop) (a b : N) : bool :=
  match o with
  | CmpLt => a <? b | CmpLe => a <=? b | CmpGt => b <? a | CmpGe => b <=? a
  | CmpEq => a =? b | CmpNe => negb (a =? b)
  end.

Definition c10_spec_shift (n : nat) (left : bool) (a s : N) : N :=
  if left then (a * 2 ^ s) mod 2 ^ c10_spec_width n else a / 2 ^ s.

(* reading a hex string (what print produces) back as a number *)
From Coq Require Import Ascii.
Definition c10_hexdigit_val (c : ascii) : N :=
  match c with
  | "0" => 0 | "1" => 1 | "2" => 2 | "3" => 3 | "4" => 4 | "5" => 5 | "6" => 6 | "7" => 7
  | "8" => 8 | "9" => 9 | "a" => 10 | "b" => 11 | "c" => 12 | "d" => 13 | "e" => 14 | "f" => 15 | _ => 0
  end%char.
Definition c10_hexval (l : list ascii) : N := fold_left (fun v c => v * 16 + c10_hexdigit_val c) l 0.

(* todouble, exactly: the value truncated (rounded toward zero, the round_style the numeric_limits
   specialisation announces) to its top 53/16 = 3 base-2^16 digits: all digits below position
   sigdigits - 3 are dropped.  Result as (mantissa, binary exponent). *)
Definition c10_spec_sigdigits (v : N) : N := if v =? 0 then 0 else N.log2 v / c10_bits + 1.
Definition c10_spec_todouble (v : N) : N * N :=
  let e := c10_bits * (c10_spec_sigdigits v - c10_param_double_digits / c10_bits) in (v / 2 ^ e, e).

(* ---------- histories: the instruction set of C10_Model.c10_instr interpreted on NUMBERS.
   Registers are values in [0, 2^w); an instruction that reports (zero divisor, negative built-in operand)
   leaves every register as it was. *)
Definition c10_spec_res_of (o : option N) : N + c10_event :=
  match o with Some v => inl v | None => inr C10_EvMathError end.
Definition c10_spec_step (n : nat) (i : c10_instr) (st : list N * list c10_event) : list N * list c10_event :=
  let '(rs, ev) := st in
  let M := 2 ^ c10_spec_width n in
  let r x := nth x rs 0 in
  let fin d (x : N + c10_event) := match x with inl v => (c10_upd rs d v, ev) | inr e => (rs, ev ++ [e]) end in
  match i with
  | C10_ICompound o d s => fin d (c10_spec_res_of (c10_spec_binop n o (r d) (r s)))
  | C10_IBinary o d s t => fin d (c10_spec_res_of (c10_spec_binop n o (r s) (r t)))
  | C10_IIncr d => fin d (inl ((r d + 1) mod M))
  | C10_INot d s => fin d (inl (M - 1 - r s))
  | C10_IShl d s c => fin d (inl (c10_spec_shift n true (r s) c))
  | C10_IShr d s c => fin d (inl (c10_spec_shift n false (r s) c))
  | C10_ICopy d s => fin d (inl (r s))
  | C10_ISwap d s => (c10_upd (c10_upd rs d (r s)) s (r d), ev)
  | C10_IBuiltinU o d u => fin d (c10_spec_res_of (c10_spec_binop n o (r d) (u mod M)))
  | C10_IBuiltinS o d y => if (y <? 0)%Z then (rs, ev ++ [C10_EvException])
                           else fin d (c10_spec_res_of (c10_spec_binop n o (r d) (Z.to_N y mod M)))
  | C10_IBuiltinLeft o d u => fin d (c10_spec_res_of (c10_spec_binop n o (u mod M) (r d)))
  | C10_ICmp c d s => (rs, ev ++ [C10_EvBool (c10_spec_cmp c (r d) (r s))])
  | C10_ICmpU c d u => (rs, ev ++ [C10_EvBool (c10_spec_cmp c (r d) (u mod M))])
  end.
Definition c10_spec_run (n : nat) (prog : list c10_instr) (st : list N * list c10_event) : list N * list c10_event :=
  fold_left (fun s i => c10_spec_step n i s) prog st.

(* ---------- round 6: printing on a stream in an arbitrary formatting state.  What the property prescribes: the text is
   the hexadecimal rendering of the value (4n digits, letters in the case the stream asks for), placed in a field of the
   pending width like any other inserted item (fill characters in front; behind for adjustfield == left); the width is
   consumed, the stream is left in decimal, every other flag is as before.  Reading back: case-insensitive. *)
Definition c10_hexdigit_val_ci (c : ascii) : N :=
  match c with "A" => 10 | "B" => 11 | "C" => 12 | "D" => 13 | "E" => 14 | "F" => 15 | _ => c10_hexdigit_val c end%char.
Definition c10_hexval_ci (l : list ascii) : N := fold_left (fun v c => v * 16 + c10_hexdigit_val_ci c) l 0.
Definition c10_print_case (uc : bool) (a : big) : list ascii := if uc then map c10_upcase (c10_print a) else c10_print a.
Definition c10_spec_field (s : c10_ios) (body : list ascii) : list ascii :=
  let p := repeat (c10_s_fill s) (N.to_nat (c10_s_width s) - length body) in
  if c10_adjust_is_left s then body ++ p else p ++ body.
(* taking the padding off again: the len characters at the left (left adjustment) or at the right end of the field *)
Definition c10_spec_unfield (s : c10_ios) (len : nat) (out : list ascii) : list ascii :=
  if c10_adjust_is_left s then firstn len out else skipn (length out - len) out.
Definition c10_spec_ios_after (s : c10_ios) : c10_ios := c10_ios_set_width (c10_ios_set_base s C10_dec) 0.
