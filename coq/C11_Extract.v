(* Extraction of the C11 models and spec oracles for the correspondence check (ExtrOcamlBasic only). *)
From Coq Require Import Extraction ExtrOcamlBasic.
From Coq Require Import List Arith.
From DuneV Require Import C11_Model C11_Spec.
Extraction Language OCaml.
Extraction "c11_model.ml"
  c11_al_run c11_al_run_ra c11_al_run_deep c11_alo_run c11_als_run c11_al_empty c11_alo_empty
  c11_sl_run c11_sl_run2 c11_sl_run_deep c11_sls_run c11_sls_run2 c11_sl_empty c11_sl_last_addr
  c11_lru_run c11_lrus_run c11_lru_empty
  c11_rv_run c11_rv_run2 c11_rvs_run c11_rvs_run2 c11_rv_empty
  c11_bv_run c11_bvs_run c11_bv_val_to_bool.
