(* C11 — executable models of the five containers (definitions only, no proofs).
   Each model mirrors the member functions of the anchored header literally:
     ArrayList     dune/common/arraylist.hh      (chunk vector, capacity_, size_, start_, absolute iterator positions)
     SLList        dune/common/sllist.hh         (heap of nodes, sentinel beforeHead_ = address 0, tail_, size_)
     lru           dune/common/lru.hh            (std::list of nodes with identity + std::map key -> node)
     ReservedVector dune/common/reservedvector.hh (std::array storage + size_)
     BitSetVector  dune/common/bitsetvector.hh   (one flat vector<bool> + block proxies)
   Totalisation: c11_res = ok | ub (null / freed / out-of-storage dereference in the C++) | fuel (loop bound hit).
   Where the repository code has a defect that a proposed fix (fixes/C11-*.patch) repairs, the model has both
   variants selected by a boolean `fx` (true = code after the fix, false = code as snapshotted). *)
From Coq Require Import List Arith Bool PeanoNat ZArith.
From DuneV Require Import Params_gen.
Import ListNotations.

Inductive c11_res (A : Type) : Type := C11_ok (a : A) | C11_ub | C11_fuel.
Arguments C11_ok {A} a.
Arguments C11_ub {A}.
Arguments C11_fuel {A}.

Definition c11_bind {A B : Type} (r : c11_res A) (f : A -> c11_res B) : c11_res B :=
  match r with C11_ok a => f a | C11_ub => C11_ub | C11_fuel => C11_fuel end.

Fixpoint c11_set_nth {A : Type} (l : list A) (i : nat) (x : A) : list A :=
  match l, i with
  | [], _ => []
  | _ :: t, 0 => x :: t
  | h :: t, S i' => h :: c11_set_nth t i' x
  end.

(* run a history: step, then observe; stop at the first non-ok *)
Section RUN.
  Variables (W O Obs : Type).
  Variable step : W -> O -> c11_res W.
  Variable observe : W -> c11_res Obs.
  Fixpoint c11_run (w : W) (ops : list O) : list (c11_res Obs) :=
    match ops with
    | [] => []
    | o :: r =>
      match step w o with
      | C11_ok w' => match observe w' with
                     | C11_ok x => C11_ok x :: c11_run w' r
                     | C11_ub => [C11_ub] | C11_fuel => [C11_fuel] end
      | C11_ub => [C11_ub]
      | C11_fuel => [C11_fuel]
      end
    end.
  (* the state reached by a history (no observation) *)
  Fixpoint c11_exec (w : W) (ops : list O) : c11_res W :=
    match ops with [] => C11_ok w | o :: r => c11_bind (step w o) (fun w' => c11_exec w' r) end.
End RUN.
Arguments c11_run {W O Obs} step observe w ops.
Arguments c11_exec {W O} step w ops.

(* ======================================================================== ArrayList<T,N> *)
(* chunkSize_ = (N > 0) ? N : 1 ; the threshold 0 and the fallback 1 are re-read from arraylist.hh into Params_gen.v on every run *)
Definition c11_cs (N : nat) : nat := if c11_param_al_chunk_threshold <? N then N else c11_param_al_min_chunk.

Definition c11_size_t_mod : Z := 18446744073709551616%Z.      (* 2^64, written out so that the extracted model does not recompute the power *)

Section AL.
  Variable T : Type.
  Variable d : T.              (* value of a value-initialised T (make_shared<std::array<T,N>>()) *)
  Variable N : nat.
  Let cs := c11_cs N.

  Record c11_al := C11_mk_al { al_chunks : list (option (list T)); al_cap : nat; al_size : nat; al_start : nat }.

  Definition c11_al_empty : c11_al := C11_mk_al [] 0 0 0.

  (* chunks_[i/chunkSize_]->operator[](i%chunkSize_) *)
  Definition c11_al_elementAt (s : c11_al) (i : nat) : c11_res T :=
    match nth_error (al_chunks s) (i / cs) with
    | Some (Some c) => match nth_error c (i mod cs) with Some x => C11_ok x | None => C11_ub end
    | _ => C11_ub
    end.

  Definition c11_al_assignAt (s : c11_al) (i : nat) (v : T) : c11_res c11_al :=
    match nth_error (al_chunks s) (i / cs) with
    | Some (Some c) =>
      if i mod cs <? length c
      then C11_ok (C11_mk_al (c11_set_nth (al_chunks s) (i / cs) (Some (c11_set_nth c (i mod cs) v)))
                             (al_cap s) (al_size s) (al_start s))
      else C11_ub
    | _ => C11_ub
    end.

  Definition c11_al_push_back (s : c11_al) (v : T) : c11_res c11_al :=
    let index := al_start s + al_size s in
    let s1 := if index =? al_cap s
              then C11_mk_al (al_chunks s ++ [Some (repeat d cs)]) (al_cap s + cs) (al_size s) (al_start s)
              else s in
    c11_bind (c11_al_assignAt s1 index v) (fun s2 =>
    C11_ok (C11_mk_al (al_chunks s2) (al_cap s2) (S (al_size s2)) (al_start s2))).

  Definition c11_al_get (s : c11_al) (i : nat) : c11_res T := c11_al_elementAt s (al_start s + i).
  Definition c11_al_set (s : c11_al) (i : nat) (v : T) : c11_res c11_al := c11_al_assignAt s (al_start s + i) v.
  Definition c11_al_begin (s : c11_al) : nat := al_start s.
  Definition c11_al_end (s : c11_al) : nat := al_start s + al_size s.

  (* for(chunk=0; chunk<chunks; chunk++){ --posChunkStart; chunks_[posChunkStart].reset(); } *)
  Fixpoint c11_al_reset_loop (n pcs : nat) (ch : list (option (list T))) : list (option (list T)) :=
    match n with
    | 0 => ch
    | S n' => c11_al_reset_loop n' (pcs - 1) (c11_set_nth ch (pcs - 1) None)
    end.

  (* ArrayListIterator::eraseToHere with position_ = p; returns the list and the iterator's new position *)
  Definition c11_al_eraseToHere (s : c11_al) (p : nat) : c11_al * nat :=
    let p1 := S p in
    let size' := al_size s - (p1 - al_start s) in
    let posChunkStart := p1 / cs in
    let chunks := (p1 - al_start s + al_start s mod cs) / cs in
    (C11_mk_al (c11_al_reset_loop chunks posChunkStart (al_chunks s)) (al_cap s) size' p1, p1).

  (* std::copy(chunks_.begin()+distance, chunks_.begin()+(distance+chunks), chunks_.begin()) *)
  Fixpoint c11_al_copy_loop (n j distance : nat) (ch : list (option (list T))) : c11_res (list (option (list T))) :=
    match n with
    | 0 => C11_ok ch
    | S n' => match nth_error ch (distance + j) with
              | Some x => if j <? length ch then c11_al_copy_loop n' (S j) distance (c11_set_nth ch j x) else C11_ub
              | None => C11_ub
              end
    end.

  (* purge() as snapshotted: floor chunk count, chunk vector and capacity_ keep their size.
     NOTE: chunks are by value here, so aliasing of shared chunk pointers is not visible; see c11_alo_* below. *)
  Definition c11_al_purge_orig (s : c11_al) : c11_res c11_al :=
    let distance := al_start s / cs in
    if 0 <? distance then
      let chunks := (al_start s mod cs + al_size s) / cs in
      c11_bind (c11_al_copy_loop chunks 0 distance (al_chunks s)) (fun ch =>
      C11_ok (C11_mk_al ch (al_cap s) (al_size s) (al_start s mod cs)))
    else C11_ok s.

  (* purge() after fixes/C11-1.patch: chunks_.erase(begin, begin+distance); start_ %= chunkSize_; capacity_ -= distance*chunkSize_ *)
  Definition c11_al_purge (s : c11_al) : c11_al :=
    let distance := al_start s / cs in
    if 0 <? distance then
      C11_mk_al (skipn distance (al_chunks s)) (al_cap s - distance * cs) (al_size s) (al_start s mod cs)
    else s.

  Definition c11_al_clear (s : c11_al) : c11_al := c11_al_empty.

  Fixpoint c11_al_read (s : c11_al) (pos n : nat) : c11_res (list T) :=
    match n with
    | 0 => C11_ok []
    | S n' => c11_bind (c11_al_elementAt s pos) (fun x => c11_bind (c11_al_read s (S pos) n') (fun r => C11_ok (x :: r)))
    end.
  (* for(it = begin(); it != end(); ++it) *it   — same element function as operator[] *)
  Definition c11_al_contents (s : c11_al) : c11_res (list T) := c11_al_read s (al_start s) (al_size s).

  (* ---- ArrayListIterator / ConstArrayListIterator: (list_, position_) with position_ : size_t *)
  Definition c11_ali_increment (p : nat) : nat := S p.
  Definition c11_ali_decrement (p : nat) : nat := p - 1.
  Definition c11_ali_advance (p n : nat) : nat := p + n.
  Definition c11_ali_equals (p q : nat) : bool := p =? q.
  Definition c11_ali_distanceTo (p q : nat) : Z := (Z.of_nat q - Z.of_nat p)%Z.        (* other.position_ - position_ *)
  Definition c11_ali_dereference (s : c11_al) (p : nat) : c11_res T := c11_al_elementAt s p.
  (* elementAt(size_type i) = list_->elementAt(i + position_): operator[](difference_type n) converts n to size_t, so a
     negative n wraps modulo 2^64 and the sum wraps back *)
  Definition c11_ali_index (s : c11_al) (p : nat) (n : Z) : c11_res T :=
    c11_al_elementAt s (Z.to_nat (((n mod c11_size_t_mod) + Z.of_nat p) mod c11_size_t_mod)%Z).
  (* the secondary read paths the drivers use after every operation: begin()[i]; mid[i - m] for mid = begin() + size()/2;
     reverse walk from end() with -- *)
  Fixpoint c11_res_all {A : Type} (l : list (c11_res A)) : c11_res (list A) :=
    match l with [] => C11_ok [] | x :: r => c11_bind x (fun a => c11_bind (c11_res_all r) (fun b => C11_ok (a :: b))) end.
  Definition c11_al_read_begin (s : c11_al) : c11_res (list T) :=
    c11_res_all (map (fun i => c11_ali_index s (c11_al_begin s) (Z.of_nat i)) (seq 0 (al_size s))).
  Definition c11_al_read_mid (s : c11_al) : c11_res (list T) :=
    let m := al_size s / 2 in
    c11_res_all (map (fun i => c11_ali_index s (c11_ali_advance (c11_al_begin s) m) (Z.of_nat i - Z.of_nat m)%Z) (seq 0 (al_size s))).
  Fixpoint c11_al_rev_walk (s : c11_al) (k p : nat) : c11_res (list T) :=
    match k with
    | 0 => C11_ok []
    | S k' => let p' := c11_ali_decrement p in
              c11_bind (c11_ali_dereference s p') (fun x => c11_bind (c11_al_rev_walk s k' p') (fun r => C11_ok (x :: r)))
    end.
  Definition c11_al_read_reverse (s : c11_al) : c11_res (list T) :=
    c11_bind (c11_al_rev_walk s (al_size s) (c11_al_end s)) (fun r => C11_ok (rev r)).

  (* histories: one list plus one held iterator (absolute position) *)
  (* AlCopy: continue on a copy of the list (copy construction / copy assignment); iterators into the old object are dropped *)
  Inductive c11_al_op := AlPush (v : T) | AlErase (k : nat) | AlPurge | AlClear | AlSet (i : nat) (v : T) | AlHold (k : nat) | AlCopy.
  Definition c11_al_world : Type := c11_al * option nat.
  Definition c11_al_obs : Type := nat * list T * option T.       (* size(), contents, *held *)

  Definition c11_al_step (fx : bool) (w : c11_al_world) (o : c11_al_op) : c11_res c11_al_world :=
    let (s, h) := w in
    match o with
    | AlPush v => c11_bind (c11_al_push_back s v) (fun s' => C11_ok (s', h))
    | AlErase k => let (s', _) := c11_al_eraseToHere s (c11_al_begin s + k) in
                   C11_ok (s', match h with Some p => if p <=? c11_al_begin s + k then None else Some p | None => None end)
    | AlPurge => if fx then C11_ok (c11_al_purge s, None) else c11_bind (c11_al_purge_orig s) (fun s' => C11_ok (s', None))
    | AlClear => C11_ok (c11_al_clear s, None)
    | AlSet i v => c11_bind (c11_al_set s i v) (fun s' => C11_ok (s', h))
    | AlHold k => C11_ok (s, Some (c11_al_begin s + k))
    | AlCopy => C11_ok (s, None)          (* fixes/C11-9.patch: element-wise copy of every chunk, same start_/size_/capacity_ *)
    end.

  (* user protocol: a held iterator is dropped by the user when the documentation says it is invalidated
     (purge, clear, eraseToHere at or behind it); push_back and operator[] assignments keep it *)
  Definition c11_al_held (w : c11_al_world) : c11_res (option T) :=
    match snd w with
    | None => C11_ok None
    | Some p => c11_bind (c11_al_elementAt (fst w) p) (fun x => C11_ok (Some x))
    end.
  Definition c11_al_observe (w : c11_al_world) : c11_res c11_al_obs :=
    c11_bind (c11_al_contents (fst w)) (fun l => c11_bind (c11_al_held w) (fun hv => C11_ok (al_size (fst w), l, hv))).
  Definition c11_al_run (fx : bool) := c11_run (c11_al_step fx) c11_al_observe.
  (* the same history observed through the secondary read paths *)
  Definition c11_al_observe_ra (w : c11_al_world) : c11_res (list T * list T * list T * Z * bool) :=
    let s := fst w in
    c11_bind (c11_al_read_begin s) (fun a => c11_bind (c11_al_read_mid s) (fun b => c11_bind (c11_al_read_reverse s) (fun c =>
    C11_ok (a, b, c, c11_ali_distanceTo (c11_al_begin s) (c11_al_end s), c11_ali_equals (c11_ali_advance (c11_al_begin s) (al_size s)) (c11_al_end s))))).
  Definition c11_al_run_ra (fx : bool) := c11_run (c11_al_step fx) c11_al_observe_ra.
  (* deep observable (private members): start_, size_, capacity_, which chunk pointers are null *)
  Definition c11_al_deep (s : c11_al) : nat * nat * nat * list bool :=
    (al_start s, al_size s, al_cap s, map (fun c => match c with None => true | Some _ => false end) (al_chunks s)).
  Definition c11_al_run_deep (fx : bool) := c11_run (c11_al_step fx) (fun w => C11_ok (c11_al_deep (fst w))).
End AL.

(* ---- ArrayList as snapshotted, with chunk identities (shared_ptr aliasing visible).  Used for the
   refutation witness of DESIGN (2 3 100 5 100) and for recognising the known defect in impl output. *)
Section ALO.
  Variable T : Type.
  Variable d : T.
  Variable N : nat.
  Let cs := c11_cs N.
  Record c11_alo := C11_mk_alo { alo_chunks : list (option nat); alo_store : list (list T);
                                 alo_cap : nat; alo_size : nat; alo_start : nat }.
  Definition c11_alo_empty : c11_alo := C11_mk_alo [] [] 0 0 0.
  Definition c11_alo_elementAt (s : c11_alo) (i : nat) : c11_res T :=
    match nth_error (alo_chunks s) (i / cs) with
    | Some (Some id) => match nth_error (alo_store s) id with
                        | Some c => match nth_error c (i mod cs) with Some x => C11_ok x | None => C11_ub end
                        | None => C11_ub end
    | _ => C11_ub
    end.
  Definition c11_alo_assignAt (s : c11_alo) (i : nat) (v : T) : c11_res c11_alo :=
    match nth_error (alo_chunks s) (i / cs) with
    | Some (Some id) => match nth_error (alo_store s) id with
                        | Some c => C11_ok (C11_mk_alo (alo_chunks s) (c11_set_nth (alo_store s) id (c11_set_nth c (i mod cs) v))
                                                        (alo_cap s) (alo_size s) (alo_start s))
                        | None => C11_ub end
    | _ => C11_ub
    end.
  Definition c11_alo_push_back (s : c11_alo) (v : T) : c11_res c11_alo :=
    let index := alo_start s + alo_size s in
    let s1 := if index =? alo_cap s
              then C11_mk_alo (alo_chunks s ++ [Some (length (alo_store s))]) (alo_store s ++ [repeat d cs])
                              (alo_cap s + cs) (alo_size s) (alo_start s)
              else s in
    c11_bind (c11_alo_assignAt s1 index v) (fun s2 =>
    C11_ok (C11_mk_alo (alo_chunks s2) (alo_store s2) (alo_cap s2) (S (alo_size s2)) (alo_start s2))).
  Fixpoint c11_alo_reset_loop (n pcs : nat) (ch : list (option nat)) : list (option nat) :=
    match n with 0 => ch | S n' => c11_alo_reset_loop n' (pcs - 1) (c11_set_nth ch (pcs - 1) None) end.
  Definition c11_alo_eraseToHere (s : c11_alo) (p : nat) : c11_alo :=
    let p1 := S p in
    C11_mk_alo (c11_alo_reset_loop ((p1 - alo_start s + alo_start s mod cs) / cs) (p1 / cs) (alo_chunks s))
               (alo_store s) (alo_cap s) (alo_size s - (p1 - alo_start s)) p1.
  Fixpoint c11_alo_copy_loop (n j distance : nat) (ch : list (option nat)) : c11_res (list (option nat)) :=
    match n with
    | 0 => C11_ok ch
    | S n' => match nth_error ch (distance + j) with
              | Some x => c11_alo_copy_loop n' (S j) distance (c11_set_nth ch j x)
              | None => C11_ub end
    end.
  Definition c11_alo_purge (s : c11_alo) : c11_res c11_alo :=
    let distance := alo_start s / cs in
    if 0 <? distance then
      c11_bind (c11_alo_copy_loop ((alo_start s mod cs + alo_size s) / cs) 0 distance (alo_chunks s)) (fun ch =>
      C11_ok (C11_mk_alo ch (alo_store s) (alo_cap s) (alo_size s) (alo_start s mod cs)))
    else C11_ok s.
  Fixpoint c11_alo_read (s : c11_alo) (pos n : nat) : c11_res (list T) :=
    match n with
    | 0 => C11_ok []
    | S n' => c11_bind (c11_alo_elementAt s pos) (fun x => c11_bind (c11_alo_read s (S pos) n') (fun r => C11_ok (x :: r)))
    end.
  Definition c11_alo_world : Type := c11_alo * option nat.
  Definition c11_alo_step (w : c11_alo_world) (o : c11_al_op T) : c11_res c11_alo_world :=
    let (s, h) := w in
    match o with
    | AlPush _ v => c11_bind (c11_alo_push_back s v) (fun s' => C11_ok (s', h))
    | AlErase _ k => C11_ok (c11_alo_eraseToHere s (alo_start s + k),
                             match h with Some p => if p <=? alo_start s + k then None else Some p | None => None end)
    | AlPurge _ => c11_bind (c11_alo_purge s) (fun s' => C11_ok (s', None))
    | AlClear _ => C11_ok (c11_alo_empty, None)
    | AlSet _ i v => c11_bind (c11_alo_assignAt s (alo_start s + i) v) (fun s' => C11_ok (s', h))
    | AlHold _ k => C11_ok (s, Some (alo_start s + k))
    | AlCopy _ => C11_ok (s, None)
    end.
  Definition c11_alo_contents (s : c11_alo) : c11_res (list T) := c11_alo_read s (alo_start s) (alo_size s).
  Definition c11_alo_held (w : c11_alo_world) : c11_res (option T) :=
    match snd w with
    | None => C11_ok None
    | Some p => c11_bind (c11_alo_elementAt (fst w) p) (fun x => C11_ok (Some x))
    end.
  Definition c11_alo_observe (w : c11_alo_world) : c11_res (nat * list T * option T) :=
    c11_bind (c11_alo_contents (fst w)) (fun l => c11_bind (c11_alo_held w) (fun hv => C11_ok (alo_size (fst w), l, hv))).
  Definition c11_alo_run := c11_run c11_alo_step c11_alo_observe.
End ALO.

(* ======================================================================== SLList<T> *)
Section SL.
  Variable T : Type.
  Variable d : T.                           (* item_ of the sentinel beforeHead_ (never read) *)
  Variable teq : T -> T -> bool.            (* operator== / != of T *)

  (* Element: (next_, item_); address 0 is &beforeHead_; None in the heap = not allocated / freed *)
  Definition c11_heap : Type := nat -> option (option nat * T).
  Definition c11_upd (h : c11_heap) (a : nat) (v : option (option nat * T)) : c11_heap :=
    fun x => if x =? a then v else h x.

  Record c11_sl := C11_mk_sl { sl_heap : c11_heap; sl_tail : nat; sl_size : nat; sl_free : nat }.

  Definition c11_sl_empty : c11_sl := C11_mk_sl (c11_upd (fun _ => None) 0 (Some (None, d))) 0 0 1.

  Definition c11_sl_next (s : c11_sl) (a : nat) : c11_res (option nat) :=
    match sl_heap s a with Some (n, _) => C11_ok n | None => C11_ub end.
  Definition c11_sl_item (s : c11_sl) (a : nat) : c11_res T :=
    match sl_heap s a with Some (_, x) => C11_ok x | None => C11_ub end.

  (* tail_->next_ = allocate; tail_ = tail_->next_; new(&tail_->item_) T(item); tail_->next_ = 0; ++size_ *)
  Definition c11_sl_push_back (s : c11_sl) (v : T) : c11_res c11_sl :=
    match sl_heap s (sl_tail s) with
    | Some (_, xt) =>
      let a := sl_free s in
      C11_ok (C11_mk_sl (c11_upd (c11_upd (sl_heap s) (sl_tail s) (Some (Some a, xt))) a (Some (None, v)))
                        a (S (sl_size s)) (S a))
    | None => C11_ub
    end.

  (* insertAfter(current, item) *)
  Definition c11_sl_insertAfter (s : c11_sl) (cur : nat) (v : T) : c11_res c11_sl :=
    match sl_heap s cur with
    | Some (tmp, xc) =>
      let a := sl_free s in
      let h := c11_upd (c11_upd (sl_heap s) cur (Some (Some a, xc))) a (Some (tmp, v)) in
      C11_ok (C11_mk_sl h (match tmp with None => a | Some _ => sl_tail s end) (S (sl_size s)) (S a))
    | None => C11_ub
    end.

  Definition c11_sl_push_front (s : c11_sl) (v : T) : c11_res c11_sl :=
    match sl_heap s 0 with
    | Some (hd, x0) =>
      let a := sl_free s in
      if sl_tail s =? 0
      then C11_ok (C11_mk_sl (c11_upd (c11_upd (sl_heap s) 0 (Some (Some a, x0))) a (Some (None, v))) a (S (sl_size s)) (S a))
      else C11_ok (C11_mk_sl (c11_upd (c11_upd (sl_heap s) a (Some (hd, v))) 0 (Some (Some a, x0))) (sl_tail s) (S (sl_size s)) (S a))
    | None => C11_ub
    end.

  (* deleteNext<watchForTail>(current) *)
  Definition c11_sl_deleteNext (watch : bool) (s : c11_sl) (cur : nat) : c11_res c11_sl :=
    match sl_heap s cur with
    | Some (Some nx, xc) =>
      match sl_heap s nx with
      | Some (nn, _) =>
        let tl := if watch && (nx =? sl_tail s) then cur else sl_tail s in
        C11_ok (C11_mk_sl (c11_upd (c11_upd (sl_heap s) cur (Some (nn, xc))) nx None) tl (sl_size s - 1) (sl_free s))
      | None => C11_ub
      end
    | _ => C11_ub          (* assert(current->next_) *)
    end.

  Definition c11_sl_pop_front (s : c11_sl) : c11_res c11_sl := c11_sl_deleteNext true s 0.

  (* while(beforeHead_.next_) deleteNext<false>(&beforeHead_);  tail_ = &beforeHead_ *)
  Fixpoint c11_sl_clear_loop (fuel : nat) (s : c11_sl) : c11_res c11_sl :=
    match sl_heap s 0 with
    | Some (None, _) => C11_ok s
    | Some (Some _, _) => match fuel with
                          | 0 => C11_fuel
                          | S f => c11_bind (c11_sl_deleteNext false s 0) (c11_sl_clear_loop f)
                          end
    | None => C11_ub
    end.
  Definition c11_sl_clear (s : c11_sl) : c11_res c11_sl :=
    c11_bind (c11_sl_clear_loop (sl_free s) s) (fun s' =>
    C11_ok (C11_mk_sl (sl_heap s') 0 (sl_size s') (sl_free s'))).

  (* for(it = begin(); it != end(); ++it) *it *)
  Fixpoint c11_sl_walk (fuel : nat) (s : c11_sl) (cur : option nat) : c11_res (list T) :=
    match cur with
    | None => C11_ok []
    | Some a => match fuel with
                | 0 => C11_fuel
                | S f => match sl_heap s a with
                         | Some (nx, x) => c11_bind (c11_sl_walk f s nx) (fun r => C11_ok (x :: r))
                         | None => C11_ub
                         end
                end
    end.
  Definition c11_sl_contents (s : c11_sl) : c11_res (list T) :=
    c11_bind (c11_sl_next s 0) (c11_sl_walk (sl_free s) s).

  Definition c11_sl_empty_q (s : c11_sl) : bool := sl_tail s =? 0.           (* &beforeHead_ == tail_ *)

  (* copyElements(other): push_back every element of other *)
  Fixpoint c11_sl_push_all (s : c11_sl) (l : list T) : c11_res c11_sl :=
    match l with [] => C11_ok s | x :: r => c11_bind (c11_sl_push_back s x) (fun s' => c11_sl_push_all s' r) end.
  (* copy constructor *)
  Definition c11_sl_copy (other : c11_sl) : c11_res c11_sl :=
    c11_bind (c11_sl_contents other) (c11_sl_push_all c11_sl_empty).
  (* operator=(other), this != &other *)
  Definition c11_sl_assign (s other : c11_sl) : c11_res c11_sl :=
    c11_bind (c11_sl_clear s) (fun s' => c11_bind (c11_sl_contents other) (c11_sl_push_all s')).
  (* self-assignment: as snapshotted, clear() then copy from the (now empty) self; after fixes/C11-2.patch a no-op *)
  Definition c11_sl_assign_self (fx : bool) (s : c11_sl) : c11_res c11_sl :=
    if fx then C11_ok s
    else c11_bind (c11_sl_clear s) (fun s' => c11_bind (c11_sl_contents s') (c11_sl_push_all s')).

  (* operator== : size test, then element loop over both lists *)
  Fixpoint c11_sl_eq_loop (a b : list T) : c11_res bool :=
    match a, b with
    | [], _ => C11_ok true
    | x :: a', y :: b' => if teq x y then c11_sl_eq_loop a' b' else C11_ok false
    | _ :: _, [] => C11_ub
    end.
  Definition c11_sl_eq (s o : c11_sl) : c11_res bool :=
    if negb (sl_size s =? sl_size o) then C11_ok false
    else c11_bind (c11_sl_contents s) (fun a => c11_bind (c11_sl_contents o) (fun b => c11_sl_eq_loop a b)).
  Fixpoint c11_sl_ne_loop (a b : list T) : c11_res bool :=
    match a, b with
    | [], _ => C11_ok false
    | x :: a', y :: b' => if teq x y then c11_sl_ne_loop a' b' else C11_ok true
    | _ :: _, [] => C11_ub
    end.
  Definition c11_sl_ne (s o : c11_sl) : c11_res bool :=
    if sl_size s =? sl_size o
    then c11_bind (c11_sl_contents s) (fun a => c11_bind (c11_sl_contents o) (fun b => c11_sl_ne_loop a b))
    else C11_ok true.

  (* ModifyIterator = (beforeIterator_.current_, iterator_.current_) *)
  Definition c11_sl_cursor : Type := nat * option nat.
  Definition c11_sl_mbegin (s : c11_sl) : c11_res c11_sl_cursor :=
    c11_bind (c11_sl_next s 0) (fun n => C11_ok (0, n)).
  Definition c11_sl_mend (s : c11_sl) : c11_sl_cursor := (sl_tail s, None).
  (* increment(): ++iterator_; ++beforeIterator_ *)
  Definition c11_sl_mnext (s : c11_sl) (c : c11_sl_cursor) : c11_res c11_sl_cursor :=
    match snd c with
    | None => C11_ub
    | Some a => c11_bind (c11_sl_next s a) (fun n =>
                c11_bind (c11_sl_next s (fst c)) (fun b =>
                match b with Some b' => C11_ok (b', n) | None => C11_ub end))
    end.
  Fixpoint c11_sl_madvance (k : nat) (s : c11_sl) (c : c11_sl_cursor) : c11_res c11_sl_cursor :=
    match k with 0 => C11_ok c | S k' => c11_bind (c11_sl_mnext s c) (c11_sl_madvance k' s) end.
  (* insert(v): beforeIterator_.insertAfter(v); ++beforeIterator_ *)
  Definition c11_sl_minsert (s : c11_sl) (c : c11_sl_cursor) (v : T) : c11_res (c11_sl * c11_sl_cursor) :=
    c11_bind (c11_sl_insertAfter s (fst c) v) (fun s' =>
    c11_bind (c11_sl_next s' (fst c)) (fun b =>
    match b with Some b' => C11_ok (s', (b', snd c)) | None => C11_ub end)).
  (* remove(): ++iterator_; beforeIterator_.deleteNext() *)
  Definition c11_sl_mremove (s : c11_sl) (c : c11_sl_cursor) : c11_res (c11_sl * c11_sl_cursor) :=
    match snd c with
    | None => C11_ub
    | Some a => c11_bind (c11_sl_next s a) (fun n =>
                c11_bind (c11_sl_deleteNext true s (fst c)) (fun s' => C11_ok (s', (fst c, n))))
    end.
  (* value the modify iterator points at afterwards (None = end) *)
  Definition c11_sl_mderef (s : c11_sl) (c : c11_sl_cursor) : c11_res (option T) :=
    match snd c with None => C11_ok None | Some a => c11_bind (c11_sl_item s a) (fun x => C11_ok (Some x)) end.

  (* SLListIterator positioned at the k-th element: begin() then k increments *)
  Fixpoint c11_sl_iter_at (k : nat) (s : c11_sl) (cur : option nat) : c11_res nat :=
    match cur with
    | None => C11_ub
    | Some a => match k with 0 => C11_ok a | S k' => c11_bind (c11_sl_next s a) (c11_sl_iter_at k' s) end
    end.

  Inductive c11_sl_op :=
  | SlPushBack (i : bool) (v : T) | SlPushFront (i : bool) (v : T) | SlPopFront (i : bool) | SlClear (i : bool)
  | SlMIns (i : bool) (k : nat) (v : T)      (* beginModify(), k increments, insert(v) *)
  | SlMRem (i : bool) (k : nat)              (* beginModify(), k increments, remove()  *)
  | SlMInsEnd (i : bool) (v : T)             (* endModify().insert(v) *)
  | SlIAfter (i : bool) (k : nat) (v : T)    (* iterator at element k: insertAfter(v) *)
  | SlIDel (i : bool) (k : nat)              (* iterator at element k: deleteNext()   *)
  | SlAssign (i : bool)                      (* L_i = L_{not i} *)
  | SlAssignSelf (i : bool)                  (* L_i = L_i *)
  | SlCopy (i : bool).                       (* L_{not i} = SLList(L_i) copy-constructed, then assigned *)

  Definition c11_sl_world : Type := c11_sl * c11_sl.
  Definition c11_sl_sel (w : c11_sl_world) (i : bool) : c11_sl := if i then snd w else fst w.
  Definition c11_sl_put (w : c11_sl_world) (i : bool) (s : c11_sl) : c11_sl_world := if i then (fst w, s) else (s, snd w).

  Definition c11_sl_step (fx : bool) (w : c11_sl_world) (o : c11_sl_op) : c11_res c11_sl_world :=
    let on i (f : c11_sl -> c11_res c11_sl) := c11_bind (f (c11_sl_sel w i)) (fun s' => C11_ok (c11_sl_put w i s')) in
    match o with
    | SlPushBack i v => on i (fun s => c11_sl_push_back s v)
    | SlPushFront i v => on i (fun s => c11_sl_push_front s v)
    | SlPopFront i => on i c11_sl_pop_front
    | SlClear i => on i c11_sl_clear
    | SlMIns i k v => on i (fun s => c11_bind (c11_sl_mbegin s) (fun c => c11_bind (c11_sl_madvance k s c) (fun c' =>
                               c11_bind (c11_sl_minsert s c' v) (fun r => C11_ok (fst r)))))
    | SlMRem i k => on i (fun s => c11_bind (c11_sl_mbegin s) (fun c => c11_bind (c11_sl_madvance k s c) (fun c' =>
                               c11_bind (c11_sl_mremove s c') (fun r => C11_ok (fst r)))))
    | SlMInsEnd i v => on i (fun s => c11_bind (c11_sl_minsert s (c11_sl_mend s) v) (fun r => C11_ok (fst r)))
    | SlIAfter i k v => on i (fun s => c11_bind (c11_sl_next s 0) (fun b => c11_bind (c11_sl_iter_at k s b) (fun a => c11_sl_insertAfter s a v)))
    | SlIDel i k => on i (fun s => c11_bind (c11_sl_next s 0) (fun b => c11_bind (c11_sl_iter_at k s b) (fun a => c11_sl_deleteNext true s a)))
    | SlAssign i => on i (fun s => c11_sl_assign s (c11_sl_sel w (negb i)))
    | SlAssignSelf i => on i (c11_sl_assign_self fx)
    | SlCopy i => c11_bind (c11_sl_copy (c11_sl_sel w i)) (fun t =>
                  c11_bind (c11_sl_assign (c11_sl_sel w (negb i)) t) (fun s' => C11_ok (c11_sl_put w (negb i) s')))
    end.

  (* size(), empty(), contents of both lists; L0 == L1; L0 != L1 *)
  Definition c11_sl_obs : Type := (nat * bool * list T) * (nat * bool * list T) * bool * bool.
  Definition c11_sl_observe (w : c11_sl_world) : c11_res c11_sl_obs :=
    c11_bind (c11_sl_contents (fst w)) (fun a =>
    c11_bind (c11_sl_contents (snd w)) (fun b =>
    c11_bind (c11_sl_eq (fst w) (snd w)) (fun e =>
    c11_bind (c11_sl_ne (fst w) (snd w)) (fun n =>
    C11_ok ((sl_size (fst w), c11_sl_empty_q (fst w), a), (sl_size (snd w), c11_sl_empty_q (snd w), b), e, n))))).
  Definition c11_sl_run (fx : bool) := c11_run (c11_sl_step fx) c11_sl_observe.

  (* ---- the same histories, additionally observing where a ModifyIterator stands after insert() / remove():
     None = the op used no ModifyIterator, Some None = it compares equal to endModify(), Some (Some x) = *it *)
  Definition c11_sl_probe (w : c11_sl_world) (o : c11_sl_op) : c11_res (option (option T)) :=
    let deref (r : c11_res (c11_sl * c11_sl_cursor)) := c11_bind r (fun sc => c11_bind (c11_sl_mderef (fst sc) (snd sc)) (fun x => C11_ok (Some x))) in
    match o with
    | SlMIns i k v => let s := c11_sl_sel w i in
                      deref (c11_bind (c11_sl_mbegin s) (fun c => c11_bind (c11_sl_madvance k s c) (fun c' => c11_sl_minsert s c' v)))
    | SlMRem i k => let s := c11_sl_sel w i in
                    deref (c11_bind (c11_sl_mbegin s) (fun c => c11_bind (c11_sl_madvance k s c) (fun c' => c11_sl_mremove s c')))
    | SlMInsEnd i v => let s := c11_sl_sel w i in deref (c11_sl_minsert s (c11_sl_mend s) v)
    | _ => C11_ok None
    end.
  Definition c11_sl_world2 : Type := c11_sl_world * option (option T).
  Definition c11_sl_step2 (fx : bool) (w : c11_sl_world2) (o : c11_sl_op) : c11_res c11_sl_world2 :=
    c11_bind (c11_sl_probe (fst w) o) (fun p => c11_bind (c11_sl_step fx (fst w) o) (fun w' => C11_ok (w', p))).
  Definition c11_sl_observe2 (w : c11_sl_world2) : c11_res (c11_sl_obs * option (option T)) :=
    c11_bind (c11_sl_observe (fst w)) (fun x => C11_ok (x, snd w)).
  Definition c11_sl_run2 (fx : bool) := c11_run (c11_sl_step2 fx) c11_sl_observe2.

  (* deep observable: tail_ is the last node reachable from beforeHead_ (0 if empty) *)
  Fixpoint c11_sl_last_addr (fuel : nat) (s : c11_sl) (a : nat) : c11_res nat :=
    match fuel with
    | 0 => C11_fuel
    | S f => match sl_heap s a with
             | Some (Some n, _) => c11_sl_last_addr f s n
             | Some (None, _) => C11_ok a
             | None => C11_ub end
    end.
  (* per list: (tail_ is the last node reachable from beforeHead_, size_ = number of reachable nodes) *)
  Definition c11_sl_deep1 (s : c11_sl) : c11_res (bool * bool) :=
    c11_bind (c11_sl_last_addr (sl_free s) s 0) (fun a =>
    c11_bind (c11_sl_contents s) (fun l => C11_ok (a =? sl_tail s, length l =? sl_size s))).
  Definition c11_sl_observe_deep (w : c11_sl_world) : c11_res ((bool * bool) * (bool * bool)) :=
    c11_bind (c11_sl_deep1 (fst w)) (fun a => c11_bind (c11_sl_deep1 (snd w)) (fun b => C11_ok (a, b))).
  Definition c11_sl_run_deep (fx : bool) := c11_run (c11_sl_step fx) c11_sl_observe_deep.
End SL.

(* ======================================================================== lru<Key,Tp> (Key = nat) *)
Section LRU.
  Variable V : Type.
  (* _data : std::list<pair<Key,Tp>>, front = most recent; list nodes have an identity (the list iterator)
     _index: std::map<Key, iterator>: association list, at most one entry per key (map::insert keeps the old one) *)
  Record c11_lru := C11_mk_lru { lru_data : list (nat * (nat * V)); lru_index : list (nat * nat); lru_next : nat }.
  Definition c11_lru_empty : c11_lru := C11_mk_lru [] [] 0.

  Fixpoint c11_map_find (k : nat) (m : list (nat * nat)) : option nat :=
    match m with [] => None | (k', i) :: r => if k' =? k then Some i else c11_map_find k r end.
  Definition c11_map_insert (k i : nat) (m : list (nat * nat)) : list (nat * nat) :=
    match c11_map_find k m with Some _ => m | None => (k, i) :: m end.
  Definition c11_map_erase (k : nat) (m : list (nat * nat)) : list (nat * nat) :=
    filter (fun e => negb (fst e =? k)) m.

  Fixpoint c11_node_find (id : nat) (l : list (nat * (nat * V))) : option (nat * V) :=
    match l with [] => None | (i, kv) :: r => if i =? id then Some kv else c11_node_find id r end.
  Definition c11_node_remove (id : nat) (l : list (nat * (nat * V))) := filter (fun e => negb (fst e =? id)) l.
  Definition c11_node_setval (id : nat) (v : V) (l : list (nat * (nat * V))) :=
    map (fun e => if fst e =? id then (fst e, (fst (snd e), v)) else e) l.
  (* _data.splice(_data.begin(), _data, it) *)
  Definition c11_splice_front (id : nat) (l : list (nat * (nat * V))) : c11_res (list (nat * (nat * V))) :=
    match c11_node_find id l with Some kv => C11_ok ((id, kv) :: c11_node_remove id l) | None => C11_ub end.

  (* insert(key, data).  fx = false: as snapshotted (always a new front node; _index.insert keeps an existing entry).
     fx = true: after fixes/C11-3.patch (present key: replace data, splice to front). *)
  Definition c11_lru_insert (fx : bool) (s : c11_lru) (k : nat) (v : V) : c11_res c11_lru :=
    match (if fx then c11_map_find k (lru_index s) else None) with
    | Some id => c11_bind (c11_splice_front id (c11_node_setval id v (lru_data s))) (fun dl =>
                 C11_ok (C11_mk_lru dl (lru_index s) (lru_next s)))
    | None => let id := lru_next s in
              C11_ok (C11_mk_lru ((id, (k, v)) :: lru_data s) (c11_map_insert k id (lru_index s)) (S id))
    end.

  (* touch(key): None = RangeError thrown *)
  Definition c11_lru_touch (s : c11_lru) (k : nat) : c11_res (option (c11_lru * V)) :=
    match c11_map_find k (lru_index s) with
    | None => C11_ok None
    | Some id => c11_bind (c11_splice_front id (lru_data s)) (fun dl =>
                 match c11_node_find id dl with
                 | Some kv => C11_ok (Some (C11_mk_lru dl (lru_index s) (lru_next s), snd kv))
                 | None => C11_ub end)
    end.
  (* find(key): None = end(); Some (first, second) of the node *)
  Definition c11_lru_find (s : c11_lru) (k : nat) : c11_res (option (nat * V)) :=
    match c11_map_find k (lru_index s) with
    | None => C11_ok None
    | Some id => match c11_node_find id (lru_data s) with Some kv => C11_ok (Some kv) | None => C11_ub end
    end.
  Definition c11_lru_pop_front (s : c11_lru) : c11_res c11_lru :=
    match lru_data s with
    | [] => C11_ub
    | (_, (k, _)) :: r => C11_ok (C11_mk_lru r (c11_map_erase k (lru_index s)) (lru_next s))
    end.
  Definition c11_lru_pop_back (s : c11_lru) : c11_res c11_lru :=
    match rev (lru_data s) with
    | [] => C11_ub
    | (_, (k, _)) :: r => C11_ok (C11_mk_lru (rev r) (c11_map_erase k (lru_index s)) (lru_next s))
    end.
  Definition c11_lru_size (s : c11_lru) : nat := length (lru_data s).
  Definition c11_lru_front (s : c11_lru) : c11_res V :=
    match lru_data s with [] => C11_ub | (_, (_, v)) :: _ => C11_ok v end.
  Definition c11_lru_back (s : c11_lru) : c11_res V :=
    match rev (lru_data s) with [] => C11_ub | (_, (_, v)) :: _ => C11_ok v end.
  (* while (new_size < size()) pop_back(); *)
  Fixpoint c11_lru_resize_loop (fuel n : nat) (s : c11_lru) : c11_res c11_lru :=
    if n <? c11_lru_size s then
      match fuel with 0 => C11_fuel | S f => c11_bind (c11_lru_pop_back s) (c11_lru_resize_loop f n) end
    else C11_ok s.
  Definition c11_lru_resize (s : c11_lru) (n : nat) : c11_res c11_lru := c11_lru_resize_loop (c11_lru_size s) n s.
  Definition c11_lru_clear (s : c11_lru) : c11_lru := C11_mk_lru [] [] (lru_next s).

  (* rebuildIndex(): _index.clear(); for (it = _data.begin(); it != _data.end(); ++it) _index.insert(make_pair(it->first, it)); *)
  Definition c11_map_clear (m : list (nat * nat)) : list (nat * nat) := [].
  Fixpoint c11_lru_rebuild_loop (dl : list (nat * (nat * V))) (m : list (nat * nat)) : list (nat * nat) :=
    match dl with [] => m | (id, (k, _)) :: r => c11_lru_rebuild_loop r (c11_map_insert k id m) end.
  (* operator=(other) on a target t that already holds entries: _data = other._data; rebuildIndex();  (the nodes of the copied list are
     written with the identities of the source's nodes; the source is not used afterwards) *)
  Definition c11_lru_assign (t s : c11_lru) : c11_lru :=
    C11_mk_lru (lru_data s) (c11_lru_rebuild_loop (lru_data s) (c11_map_clear (lru_index t))) (Nat.max (lru_next t) (lru_next s)).
  (* the target of LruAssignOnto: a fresh cache filled by insert(k, v) in the given order *)
  Fixpoint c11_lru_fill (fx : bool) (s : c11_lru) (pre : list (nat * V)) : c11_res c11_lru :=
    match pre with [] => C11_ok s | (k, v) :: r => c11_bind (c11_lru_insert fx s k v) (fun s' => c11_lru_fill fx s' r) end.

  (* LruCopy: continue on a copy of the cache (fixes/C11-8.patch: list copied, index rebuilt for the copied list).
     LruAssignOnto pre: a second cache is filled with the entries pre, the current cache is copy-ASSIGNED to it, the history continues on that target *)
  Inductive c11_lru_op := LruInsert (k : nat) (v : V) | LruTouch (k : nat) | LruPopFront | LruPopBack | LruResize (n : nat) | LruClear | LruCopy
                        | LruAssignOnto (pre : list (nat * V)).
  (* result of the op itself: returned reference / exception *)
  Inductive c11_lru_ret := LruVal (v : V) | LruRangeError | LruVoid.
  Definition c11_lru_world : Type := c11_lru * c11_lru_ret.
  Definition c11_lru_step (fx : bool) (w : c11_lru_world) (o : c11_lru_op) : c11_res c11_lru_world :=
    let s := fst w in
    match o with
    | LruInsert k v => c11_bind (c11_lru_insert fx s k v) (fun s' => c11_bind (c11_lru_front s') (fun x => C11_ok (s', LruVal x)))
    | LruTouch k => c11_bind (c11_lru_touch s k) (fun r => match r with Some (s', x) => C11_ok (s', LruVal x) | None => C11_ok (s, LruRangeError) end)
    | LruPopFront => c11_bind (c11_lru_pop_front s) (fun s' => C11_ok (s', LruVoid))
    | LruPopBack => c11_bind (c11_lru_pop_back s) (fun s' => C11_ok (s', LruVoid))
    | LruResize n => c11_bind (c11_lru_resize s n) (fun s' => C11_ok (s', LruVoid))
    | LruClear => C11_ok (c11_lru_clear s, LruVoid)
    | LruCopy => C11_ok (s, LruVoid)
    | LruAssignOnto pre => c11_bind (c11_lru_fill fx c11_lru_empty pre) (fun t => C11_ok (c11_lru_assign t s, LruVoid))
    end.
  (* ret, size(), front(), back() (when non-empty), find(k) for k < nkeys *)
  Definition c11_lru_obs : Type := c11_lru_ret * nat * option (V * V) * list (option (nat * V)).
  Fixpoint c11_lru_finds (s : c11_lru) (ks : list nat) : c11_res (list (option (nat * V))) :=
    match ks with [] => C11_ok [] | k :: r => c11_bind (c11_lru_find s k) (fun x => c11_bind (c11_lru_finds s r) (fun y => C11_ok (x :: y))) end.
  Definition c11_lru_observe (nkeys : nat) (w : c11_lru_world) : c11_res c11_lru_obs :=
    let s := fst w in
    c11_bind (c11_lru_finds s (seq 0 nkeys)) (fun fs =>
    match lru_data s with
    | [] => C11_ok (snd w, 0, None, fs)
    | _ => c11_bind (c11_lru_front s) (fun f => c11_bind (c11_lru_back s) (fun b => C11_ok (snd w, c11_lru_size s, Some (f, b), fs)))
    end).
  Definition c11_lru_run (fx : bool) (nkeys : nat) := c11_run (c11_lru_step fx) (c11_lru_observe nkeys).
End LRU.

(* ======================================================================== ReservedVector<T,n> *)
Section RV.
  Variable T : Type.
  Variable d : T.
  Variable teq tlt : T -> T -> bool.
  Variable n : nat.
  Record c11_rv := C11_mk_rv { rv_arr : list T; rv_size : nat }.
  Definition c11_rv_empty : c11_rv := C11_mk_rv (repeat d n) 0.
  Definition c11_rv_store (s : c11_rv) (i : nat) (v : T) : c11_res c11_rv :=       (* storage_[i] = v *)
    if i <? length (rv_arr s) then C11_ok (C11_mk_rv (c11_set_nth (rv_arr s) i v) (rv_size s)) else C11_ub.
  Definition c11_rv_load (s : c11_rv) (i : nat) : c11_res T :=
    match nth_error (rv_arr s) i with Some x => C11_ok x | None => C11_ub end.
  Definition c11_rv_push_back (s : c11_rv) (v : T) : c11_res c11_rv :=
    c11_bind (c11_rv_store s (rv_size s) v) (fun s' => C11_ok (C11_mk_rv (rv_arr s') (S (rv_size s)))).
  Definition c11_rv_pop_back (s : c11_rv) : c11_rv := if rv_size s =? 0 then s else C11_mk_rv (rv_arr s) (rv_size s - 1).
  Definition c11_rv_resize (s : c11_rv) (k : nat) : c11_rv := C11_mk_rv (rv_arr s) k.
  Definition c11_rv_clear (s : c11_rv) : c11_rv := C11_mk_rv (rv_arr s) 0.
  (* at(i): None = std::out_of_range *)
  Definition c11_rv_at (s : c11_rv) (i : nat) : c11_res (option T) :=
    if i <? rv_size s then c11_bind (c11_rv_load s i) (fun x => C11_ok (Some x)) else C11_ok None.
  Definition c11_rv_front (s : c11_rv) : c11_res T := c11_rv_load s 0.
  Definition c11_rv_back (s : c11_rv) : c11_res T := c11_rv_load s (rv_size s - 1).
  Fixpoint c11_rv_fill_loop (k i : nat) (s : c11_rv) (v : T) : c11_res c11_rv :=
    match k with 0 => C11_ok s | S k' => c11_bind (c11_rv_store s i v) (fun s' => c11_rv_fill_loop k' (S i) s' v) end.
  Definition c11_rv_fill (s : c11_rv) (v : T) : c11_res c11_rv := c11_rv_fill_loop (rv_size s) 0 s v.
  (* ReservedVector(count, value) *)
  Definition c11_rv_make (count : nat) (v : T) : c11_res c11_rv := c11_rv_fill_loop count 0 (C11_mk_rv (repeat d n) count) v.
  (* ReservedVector(first,last) / initializer list: for (i=0; i<n && first!=last; ++i,++size_) storage_[i] = *first++ *)
  Fixpoint c11_rv_from_loop (fuel i : nat) (s : c11_rv) (l : list T) : c11_rv :=
    match fuel, l with
    | S f, x :: r => if i <? n then c11_rv_from_loop f (S i) (C11_mk_rv (c11_set_nth (rv_arr s) i x) (S (rv_size s))) r else s
    | _, _ => s
    end.
  Definition c11_rv_from_list (l : list T) : c11_rv := c11_rv_from_loop (S (length l)) 0 c11_rv_empty l.
  Definition c11_rv_contents (s : c11_rv) : list T := firstn (rv_size s) (rv_arr s).     (* begin() .. begin()+size() *)
  Fixpoint c11_rv_eq_loop (k i : nat) (a b : c11_rv) : c11_res bool :=
    match k with
    | 0 => C11_ok true
    | S k' => c11_bind (c11_rv_load a i) (fun x => c11_bind (c11_rv_load b i) (fun y =>
              if teq x y then c11_rv_eq_loop k' (S i) a b else C11_ok false))
    end.
  Definition c11_rv_eq (a b : c11_rv) : c11_res bool :=
    if negb (rv_size a =? rv_size b) then C11_ok false else c11_rv_eq_loop (rv_size a) 0 a b.
  Fixpoint c11_rv_lt_loop (k i : nat) (a b : c11_rv) : c11_res bool :=
    match k with
    | 0 => C11_ok (rv_size a <? rv_size b)
    | S k' => c11_bind (c11_rv_load a i) (fun x => c11_bind (c11_rv_load b i) (fun y =>
              if tlt x y then C11_ok true else if tlt y x then C11_ok false else c11_rv_lt_loop k' (S i) a b))
    end.
  Definition c11_rv_lt (a b : c11_rv) : c11_res bool := c11_rv_lt_loop (Nat.min (rv_size a) (rv_size b)) 0 a b.

  Inductive c11_rv_op :=
  | RvPush (i : bool) (v : T) | RvPop (i : bool) | RvResize (i : bool) (k : nat) | RvClear (i : bool)
  | RvSet (i : bool) (j : nat) (v : T) | RvFill (i : bool) (v : T) | RvMake (i : bool) (c : nat) (v : T)
  | RvFrom (i : bool) (l : list T) | RvSwap | RvAssign (i : bool) | RvAt (i : bool) (j : nat).
  Definition c11_rv_world : Type := c11_rv * c11_rv * option (option T).      (* A, B, result of the last at() *)
  Definition c11_rv_step (w : c11_rv_world) (o : c11_rv_op) : c11_res c11_rv_world :=
    let '(a, b, _) := w in
    let sel (i : bool) := if i then b else a in
    let put (i : bool) (s : c11_rv) : c11_rv_world := if i then (a, s, None) else (s, b, None) in
    match o with
    | RvPush i v => c11_bind (c11_rv_push_back (sel i) v) (fun s => C11_ok (put i s))
    | RvPop i => C11_ok (put i (c11_rv_pop_back (sel i)))
    | RvResize i k => C11_ok (put i (c11_rv_resize (sel i) k))
    | RvClear i => C11_ok (put i (c11_rv_clear (sel i)))
    | RvSet i j v => c11_bind (c11_rv_store (sel i) j v) (fun s => C11_ok (put i s))
    | RvFill i v => c11_bind (c11_rv_fill (sel i) v) (fun s => C11_ok (put i s))
    | RvMake i c v => c11_bind (c11_rv_make c v) (fun s => C11_ok (put i s))
    | RvFrom i l => C11_ok (put i (c11_rv_from_list l))
    | RvSwap => C11_ok (b, a, None)
    | RvAssign i => C11_ok (put i (sel (negb i)))
    | RvAt i j => c11_bind (c11_rv_at (sel i) j) (fun r => C11_ok (a, b, Some r))
    end.
  (* per vector: size, empty, contents, front/back when non-empty;  A==B, A<B, B<A; last at() *)
  Definition c11_rv_obs : Type := (nat * list T * option (T * T)) * (nat * list T * option (T * T)) * (bool * bool * bool) * option (option T).
  Definition c11_rv_obs1 (s : c11_rv) : c11_res (nat * list T * option (T * T)) :=
    if rv_size s =? 0 then C11_ok (0, [], None)
    else c11_bind (c11_rv_front s) (fun f => c11_bind (c11_rv_back s) (fun k => C11_ok (rv_size s, c11_rv_contents s, Some (f, k)))).
  Definition c11_rv_observe (w : c11_rv_world) : c11_res c11_rv_obs :=
    let '(a, b, r) := w in
    c11_bind (c11_rv_obs1 a) (fun oa => c11_bind (c11_rv_obs1 b) (fun ob =>
    c11_bind (c11_rv_eq a b) (fun e => c11_bind (c11_rv_lt a b) (fun l1 => c11_bind (c11_rv_lt b a) (fun l2 =>
    C11_ok (oa, ob, (e, l1, l2), r)))))).
  Definition c11_rv_run := c11_run c11_rv_step c11_rv_observe.
  (* the derived comparison operators, as written in the header *)
  Definition c11_rv_ne (a b : c11_rv) : c11_res bool := c11_bind (c11_rv_eq a b) (fun e => C11_ok (negb e)).      (* not (self == that) *)
  Definition c11_rv_gt (a b : c11_rv) : c11_res bool := c11_rv_lt b a.                                             (* that < self *)
  Definition c11_rv_le (a b : c11_rv) : c11_res bool := c11_bind (c11_rv_gt a b) (fun g => C11_ok (negb g)).      (* not (self > that) *)
  Definition c11_rv_ge (a b : c11_rv) : c11_res bool := c11_bind (c11_rv_lt a b) (fun l => C11_ok (negb l)).      (* not (self < that) *)
  Definition c11_rv_observe2 (w : c11_rv_world) : c11_res (c11_rv_obs * (bool * bool * bool * bool)) :=
    let '(a, b, _) := w in
    c11_bind (c11_rv_observe w) (fun x => c11_bind (c11_rv_ne a b) (fun n => c11_bind (c11_rv_gt a b) (fun g =>
    c11_bind (c11_rv_le a b) (fun l => c11_bind (c11_rv_ge a b) (fun h => C11_ok (x, (n, g, l, h))))))).
  Definition c11_rv_run2 := c11_run c11_rv_step c11_rv_observe2.
End RV.

(* ======================================================================== BitSetVector<bs> *)
Section BSV.
  Variable bs : nat.
  Definition c11_bv := list bool.                 (* the blockless std::vector<bool> *)
  Definition c11_bv_size (s : c11_bv) : nat := length s / bs.
  Definition c11_bv_getBit (s : c11_bv) (i j : nat) : c11_res bool :=
    match nth_error s (i * bs + j) with Some b => C11_ok b | None => C11_ub end.
  Definition c11_bv_setBit (s : c11_bv) (i j : nat) (b : bool) : c11_res c11_bv :=
    if i * bs + j <? length s then C11_ok (c11_set_nth s (i * bs + j) b) else C11_ub.
  (* getRepr(i): for j < block_size: bits.set(j, getBit(i,j)) *)
  Fixpoint c11_bv_repr_loop (k j : nat) (s : c11_bv) (i : nat) : c11_res (list bool) :=
    match k with 0 => C11_ok [] | S k' => c11_bind (c11_bv_getBit s i j) (fun b => c11_bind (c11_bv_repr_loop k' (S j) s i) (fun r => C11_ok (b :: r))) end.
  Definition c11_bv_getRepr (s : c11_bv) (i : nat) : c11_res (list bool) := c11_bv_repr_loop bs 0 s i.
  (* reference::operator=(bitset): for i < block_size: getBit(i) = b.test(i) *)
  Fixpoint c11_bv_assign_loop (j : nat) (s : c11_bv) (i : nat) (b : list bool) : c11_res c11_bv :=
    match b with [] => C11_ok s | x :: r => c11_bind (c11_bv_setBit s i j x) (fun s' => c11_bv_assign_loop (S j) s' i r) end.
  Definition c11_bv_assign (s : c11_bv) (i : nat) (b : list bool) : c11_res c11_bv := c11_bv_assign_loop 0 s i b.

  (* std::bitset<bs> (trusted abstract semantics): list of bs bits, index 0 = bit 0 *)
  Definition c11_bitset_shl (b : list bool) (k : nat) : list bool := firstn (length b) (repeat false k ++ b).
  Definition c11_bitset_shr (b : list bool) (k : nat) : list bool := skipn k b ++ repeat false (Nat.min k (length b)).
  (* reference::set(size_type n, int val = 1) { getBit(n) = val; }: the int -> bool conversion of the assignment *)
  Definition c11_bv_val_to_bool (val : Z) : bool := negb (Z.eqb val 0).
  Fixpoint c11_bitset_zip (f : bool -> bool -> bool) (a b : list bool) : list bool :=
    match a, b with x :: a', y :: b' => f x y :: c11_bitset_zip f a' b' | _, _ => [] end.
  Definition c11_bitset_count (b : list bool) : nat := length (filter (fun x => x) b).
  Definition c11_pad (b : list bool) : list bool := firstn bs (b ++ repeat false bs).

  Inductive c11_bv_bop := BvAnd | BvOr | BvXor.
  Definition c11_bv_bfun (o : c11_bv_bop) : bool -> bool -> bool := match o with BvAnd => andb | BvOr => orb | BvXor => xorb end.
  Inductive c11_bv_op :=
  | BvResize (n : nat) (v : bool) | BvClear | BvSetAll | BvUnsetAll
  | BvSet (i j : nat) (v : bool) | BvFlipBit (i j : nat) | BvSetBlock (i : nat) | BvResetBlock (i : nat) | BvFlipBlock (i : nat)
  | BvAssignBool (i : nat) (v : bool) | BvAssignBits (i : nat) (b : list bool) | BvAssignBlock (i k : nat)
  | BvOpBits (o : c11_bv_bop) (i : nat) (b : list bool) | BvOpBlock (o : c11_bv_bop) (i k : nat)
  | BvShl (i k : nat) | BvShr (i k : nat).

  Fixpoint c11_bv_each (k j : nat) (s : c11_bv) (f : c11_bv -> nat -> c11_res c11_bv) : c11_res c11_bv :=
    match k with 0 => C11_ok s | S k' => c11_bind (f s j) (fun s' => c11_bv_each k' (S j) s' f) end.

  Definition c11_bv_step (s : c11_bv) (o : c11_bv_op) : c11_res c11_bv :=
    match o with
    | BvResize n v => C11_ok (firstn (n * bs) s ++ repeat v (n * bs - length s))
    | BvClear => C11_ok []
    | BvSetAll => C11_ok (repeat true (length s))
    | BvUnsetAll => C11_ok (repeat false (length s))
    | BvSet i j v => c11_bv_setBit s i j v
    | BvFlipBit i j => c11_bind (c11_bv_getBit s i j) (fun b => c11_bv_setBit s i j (negb b))
    | BvSetBlock i => c11_bv_each bs 0 s (fun s j => c11_bv_setBit s i j true)
    | BvResetBlock i => c11_bv_each bs 0 s (fun s j => c11_bv_setBit s i j false)
    | BvFlipBlock i => c11_bv_each bs 0 s (fun s j => c11_bind (c11_bv_getBit s i j) (fun b => c11_bv_setBit s i j (negb b)))
    | BvAssignBool i v => c11_bv_each bs 0 s (fun s j => c11_bv_setBit s i j v)
    | BvAssignBits i b => c11_bv_assign s i (c11_pad b)
    | BvAssignBlock i k => c11_bv_each bs 0 s (fun s j => c11_bind (c11_bv_getBit s k j) (fun b => c11_bv_setBit s i j b))
    | BvOpBits o i b => c11_bind (c11_bv_getRepr s i) (fun r => c11_bv_assign s i (c11_bitset_zip (c11_bv_bfun o) r (c11_pad b)))
    | BvOpBlock o i k => c11_bind (c11_bv_getRepr s k) (fun x => c11_bind (c11_bv_getRepr s i) (fun r =>
                         c11_bv_assign s i (c11_bitset_zip (c11_bv_bfun o) r x)))
    | BvShl i k => c11_bind (c11_bv_getRepr s i) (fun r => c11_bv_assign s i (c11_bitset_shl r k))
    | BvShr i k => c11_bind (c11_bv_getRepr s i) (fun r => c11_bv_assign s i (c11_bitset_shr r k))
    end.

  (* observation: size(); per block: bits via test(j); vector count(); countmasked(j) for j<bs; per block count()/any()/none()/all() *)
  Fixpoint c11_bv_blocks_loop (k i : nat) (s : c11_bv) : c11_res (list (list bool)) :=
    match k with 0 => C11_ok [] | S k' => c11_bind (c11_bv_getRepr s i) (fun b => c11_bind (c11_bv_blocks_loop k' (S i) s) (fun r => C11_ok (b :: r))) end.
  Definition c11_bv_blocks (s : c11_bv) : c11_res (list (list bool)) := c11_bv_blocks_loop (c11_bv_size s) 0 s.
  Fixpoint c11_bv_countmasked_loop (k i : nat) (s : c11_bv) (j : nat) : c11_res nat :=
    match k with 0 => C11_ok 0 | S k' => c11_bind (c11_bv_getBit s i j) (fun b => c11_bind (c11_bv_countmasked_loop k' (S i) s j) (fun r => C11_ok ((if b then 1 else 0) + r))) end.
  Definition c11_bv_countmasked (s : c11_bv) (j : nat) : c11_res nat := c11_bv_countmasked_loop (c11_bv_size s) 0 s j.
  Definition c11_bv_count (s : c11_bv) : nat := c11_bitset_count s.
  (* the const std::bitset interface of the block proxy (BitSetVectorConstReference):
     count(): n = 0; for i < block_size: n += getBit(i);   any() = count();  none() = !any();
     all(): for i < block_size: if (not test(i)) return false; return true *)
  Fixpoint c11_bv_rcount_loop (k j : nat) (s : c11_bv) (i : nat) : c11_res nat :=
    match k with 0 => C11_ok 0 | S k' => c11_bind (c11_bv_getBit s i j) (fun b => c11_bind (c11_bv_rcount_loop k' (S j) s i) (fun r => C11_ok ((if b then 1 else 0) + r))) end.
  Definition c11_bv_rcount (s : c11_bv) (i : nat) : c11_res nat := c11_bv_rcount_loop bs 0 s i.
  Definition c11_bv_rany (s : c11_bv) (i : nat) : c11_res bool := c11_bind (c11_bv_rcount s i) (fun c => C11_ok (negb (c =? 0))).
  Definition c11_bv_rnone (s : c11_bv) (i : nat) : c11_res bool := c11_bind (c11_bv_rany s i) (fun a => C11_ok (negb a)).
  Fixpoint c11_bv_rall_loop (k j : nat) (s : c11_bv) (i : nat) : c11_res bool :=
    match k with 0 => C11_ok true | S k' => c11_bind (c11_bv_getBit s i j) (fun b => if b then c11_bv_rall_loop k' (S j) s i else C11_ok false) end.
  Definition c11_bv_rall (s : c11_bv) (i : nat) : c11_res bool := c11_bv_rall_loop bs 0 s i.
  (* equals(other reference): eq = true; for i < block_size: eq &= (getBit(i) == other[i]);   operator~: bitset b = *this; b.flip() *)
  Fixpoint c11_bv_requals_loop (k j : nat) (s : c11_bv) (i o : nat) : c11_res bool :=
    match k with
    | 0 => C11_ok true
    | S k' => c11_bind (c11_bv_getBit s i j) (fun a => c11_bind (c11_bv_getBit s o j) (fun b =>
              c11_bind (c11_bv_requals_loop k' (S j) s i o) (fun r => C11_ok (Bool.eqb a b && r))))
    end.
  Definition c11_bv_requals (s : c11_bv) (i o : nat) : c11_res bool := c11_bv_requals_loop bs 0 s i o.
  Definition c11_bv_rnot (s : c11_bv) (i : nat) : c11_res (list bool) := c11_bind (c11_bv_getRepr s i) (fun b => C11_ok (map negb b)).
  Definition c11_bv_qobs : Type := nat * bool * bool * bool * bool * list bool.   (* count any none all (== next block) ~block *)
  Definition c11_bv_rqueries (s : c11_bv) (i : nat) : c11_res c11_bv_qobs :=
    c11_bind (c11_bv_rcount s i) (fun c => c11_bind (c11_bv_rany s i) (fun a => c11_bind (c11_bv_rnone s i) (fun n => c11_bind (c11_bv_rall s i) (fun l =>
    c11_bind (c11_bv_requals s i (S i mod c11_bv_size s)) (fun e => c11_bind (c11_bv_rnot s i) (fun nb =>
    C11_ok (c, a, n, l, e, nb))))))).
  Fixpoint c11_bv_rqueries_loop (k i : nat) (s : c11_bv) : c11_res (list c11_bv_qobs) :=
    match k with 0 => C11_ok [] | S k' => c11_bind (c11_bv_rqueries s i) (fun q => c11_bind (c11_bv_rqueries_loop k' (S i) s) (fun r => C11_ok (q :: r))) end.
  Definition c11_bv_obs : Type := list (list bool) * nat * list nat * list c11_bv_qobs.
  Fixpoint c11_bv_cms (s : c11_bv) (js : list nat) : c11_res (list nat) :=
    match js with [] => C11_ok [] | j :: r => c11_bind (c11_bv_countmasked s j) (fun x => c11_bind (c11_bv_cms s r) (fun y => C11_ok (x :: y))) end.
  Definition c11_bv_observe (s : c11_bv) : c11_res c11_bv_obs :=
    c11_bind (c11_bv_blocks s) (fun b => c11_bind (c11_bv_cms s (seq 0 bs)) (fun c =>
    c11_bind (c11_bv_rqueries_loop (c11_bv_size s) 0 s) (fun q => C11_ok (b, c11_bv_count s, c, q)))).
  Definition c11_bv_run := c11_run c11_bv_step c11_bv_observe.
End BSV.
