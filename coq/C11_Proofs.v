(* C11 — lemmas and proofs.  Part 0: refutation witnesses for the snapshot code (vm_compute). *)
From Coq Require Import List Arith Bool PeanoNat Lia.
From DuneV Require Import C11_Model C11_Spec.
Import ListNotations.

(* the statement "the run of the model on a history shows exactly what the abstract container shows" *)
Definition c11_agrees {Obs : Type} (model : list (c11_res Obs)) (spec : list (option Obs)) : Prop :=
  exists tr, spec = map Some tr /\ model = map C11_ok tr.

(* F-C11-1: purge() of the snapshot.  N = 2: push 0..5, erase the first two, purge, push 100  ==>  2 3 100 5 100 *)
Definition c11_w_purge_alias : list (c11_al_op nat) :=
  [AlPush _ 0; AlPush _ 1; AlPush _ 2; AlPush _ 3; AlPush _ 4; AlPush _ 5; AlErase _ 1; AlPurge _; AlPush _ 100].
Lemma c11_alo_purge_alias_obs :
  last (c11_alo_run nat 0 2 (c11_alo_empty nat, None) c11_w_purge_alias) C11_ub = C11_ok (5, [2; 3; 100; 5; 100], None)
  /\ last (c11_als_run nat ([], None) c11_w_purge_alias) None = Some (5, [2; 3; 4; 5; 100], None).
Proof. vm_compute. split; reflexivity. Qed.

(* N = 10: 18 elements, erase 15, purge ==> the live window starts in a null chunk *)
Definition c11_w_purge_null : list (c11_al_op nat) :=
  map (fun v => AlPush _ v) (seq 0 18) ++ [AlErase _ 14; AlPurge _].
Lemma c11_alo_purge_null_obs :
  last (c11_alo_run nat 0 10 (c11_alo_empty nat, None) c11_w_purge_null) (C11_ok (0, [], None)) = C11_ub
  /\ last (c11_als_run nat ([], None) c11_w_purge_null) None = Some (3, [15; 16; 17], None).
Proof. vm_compute. split; reflexivity. Qed.

Lemma c11_arraylist_snapshot_refuted_lemma :
  exists (N : nat) (ops : list (c11_al_op nat)),
    (forall o, In o (c11_als_run nat ([], None) ops) -> o <> None) /\
    ~ c11_agrees (c11_alo_run nat 0 N (c11_alo_empty nat, None) ops) (c11_als_run nat ([], None) ops).
Proof.
  exists 2, c11_w_purge_alias. split.
  - vm_compute. intros o H. repeat (destruct H as [H | H]; [subst o; discriminate |]). contradiction.
  - intros [tr [Hs Hm]]. vm_compute in Hs, Hm.
    repeat (destruct tr as [| ? tr]; [discriminate |]). 
    injection Hs as ? ? ? ? ? ? ? ? ? ?. injection Hm as ? ? ? ? ? ? ? ? ? ?. subst. discriminate.
Qed.

(* the by-value model of the snapshot's purge (no aliasing) is wrong as well: N = 2, five elements *)
Lemma c11_arraylist_purge_orig_byvalue_refuted_lemma :
  exists (N : nat) (ops : list (c11_al_op nat)),
    ~ c11_agrees (c11_al_run nat 0 N false (c11_al_empty nat, None) ops) (c11_als_run nat ([], None) ops).
Proof.
  exists 2, [AlPush _ 0; AlPush _ 1; AlPush _ 2; AlPush _ 3; AlPush _ 4; AlErase _ 1; AlPurge _].
  intros [tr [Hs Hm]]. vm_compute in Hs, Hm.
  repeat (destruct tr as [| ? tr]; [discriminate |]).
  injection Hs as ? ? ? ? ? ? ? ?. injection Hm as ? ? ? ? ? ? ? ?. subst. discriminate.
Qed.

(* F-C11-2: self-assignment of the snapshot empties the list *)
Lemma c11_sllist_selfassign_snapshot_refuted_lemma :
  exists ops : list (c11_sl_op nat),
    ~ c11_agrees (c11_sl_run nat 0 Nat.eqb false (c11_sl_empty nat 0, c11_sl_empty nat 0) ops) (c11_sls_run nat Nat.eqb ([], []) ops).
Proof.
  exists [SlPushBack _ false 1; SlAssignSelf _ false].
  intros [tr [Hs Hm]]. vm_compute in Hs, Hm.
  repeat (destruct tr as [| ? tr]; [discriminate |]).
  injection Hs as ? ? ?. injection Hm as ? ? ?. subst. discriminate.
Qed.

(* F-C11-3: insert(key, data) of the snapshot with a present key *)
Lemma c11_lru_insert_snapshot_refuted_lemma :
  exists ops : list (c11_lru_op nat),
    ~ c11_agrees (c11_lru_run nat false 1 (c11_lru_empty nat, LruVoid nat) ops) (c11_lrus_run nat 1 ([], LruVoid nat) ops).
Proof.
  exists [LruInsert _ 0 5; LruInsert _ 0 7].
  intros [tr [Hs Hm]]. vm_compute in Hs, Hm.
  repeat (destruct tr as [| ? tr]; [discriminate |]).
  injection Hs as ? ? ?. injection Hm as ? ? ?. subst. discriminate.
Qed.

(* ---------------------------------------------------------------- generic: a step/observe simulation lifts to all histories *)
Section SIM.
  Variables (W O Obs WS : Type).
  Variable step : W -> O -> c11_res W.
  Variable observe : W -> c11_res Obs.
  Variable sstep : WS -> O -> option WS.
  Variable sobserve : WS -> Obs.
  Variable R : W -> WS -> Prop.
  Hypothesis Hstep : forall w ws o ws', R w ws -> sstep ws o = Some ws' -> exists w', step w o = C11_ok w' /\ R w' ws'.
  Hypothesis Hobs : forall w ws, R w ws -> observe w = C11_ok (sobserve ws).
  Lemma c11_sim_run : forall ops w ws tr, R w ws ->
    c11_spec_run sstep sobserve ws ops = map Some tr -> c11_run step observe w ops = map C11_ok tr.
  Proof.
    induction ops as [| o r IH]; intros w ws tr HR Hs; simpl in *.
    - destruct tr; [reflexivity | discriminate].
    - destruct (sstep ws o) as [ws' |] eqn:E.
      + destruct tr as [| x tr]; [discriminate |]. simpl in Hs. injection Hs as Hx Hr.
        destruct (Hstep _ _ _ _ HR E) as [w' [Hw HR']]. rewrite Hw, (Hobs _ _ HR'). simpl.
        rewrite <- Hx. f_equal. eapply IH; eauto.
      + destruct tr as [| x tr]; [discriminate |]. simpl in Hs. discriminate.
  Qed.
  (* every state reached by a precondition-respecting history is related to the abstract state reached by the same history *)
  Lemma c11_sim_exec : forall ops w ws ws', R w ws ->
    c11_spec_exec sstep ws ops = Some ws' -> exists w', c11_exec step w ops = C11_ok w' /\ R w' ws'.
  Proof.
    induction ops as [| o r IH]; intros w ws ws' HR Hs; simpl in *.
    - injection Hs as <-. eauto.
    - destruct (sstep ws o) as [ws1 |] eqn:E; [| discriminate].
      destruct (Hstep _ _ _ _ HR E) as [w1 [Hw HR1]]. rewrite Hw. simpl. eapply IH; eauto.
  Qed.
End SIM.

(* ---------------------------------------------------------------- list helpers *)
Lemma c11_set_nth_length {A} (l : list A) i x : length (c11_set_nth l i x) = length l.
Proof. revert i; induction l; intros [|i]; simpl; auto. Qed.
Lemma c11_set_nth_same {A} (l : list A) i x : i < length l -> nth_error (c11_set_nth l i x) i = Some x.
Proof. revert i; induction l; intros [|i] H; simpl in *; try lia; auto. apply IHl; lia. Qed.
Lemma c11_set_nth_other {A} (l : list A) i j x : i <> j -> nth_error (c11_set_nth l i x) j = nth_error l j.
Proof. revert i j; induction l; intros [|i] [|j] H; simpl; auto; try lia. Qed.
Lemma c11_nth_error_skipn {A} (l : list A) n i : nth_error (skipn n l) i = nth_error l (n + i).
Proof. revert l; induction n; intros [|a l]; simpl; auto. destruct i; reflexivity. Qed.
Lemma c11_nth_error_app_last {A} (l : list A) x : nth_error (l ++ [x]) (length l) = Some x.
Proof. rewrite nth_error_app2 by lia. rewrite Nat.sub_diag. reflexivity. Qed.

(* non-vacuity helper: a spec run without None is `map Some tr` *)
Definition c11_is_some {A} (o : option A) : bool := match o with Some _ => true | None => false end.
Lemma c11_somes_tr {A} (l : list (option A)) : forallb c11_is_some l = true -> exists tr, l = map Some tr /\ length tr = length l.
Proof.
  induction l as [| [a |] l IH]; simpl; intros H; try discriminate.
  - exists []. auto.
  - destruct (IH H) as [tr [-> Hl]]. exists (a :: tr). simpl. rewrite map_length in *. auto.
Qed.

(* simulation with an observation-matching relation instead of equality *)
Section SIM2.
  Variables (W O Obs WS SObs : Type).
  Variable step : W -> O -> c11_res W.
  Variable observe : W -> c11_res Obs.
  Variable sstep : WS -> O -> option WS.
  Variable sobserve : WS -> SObs.
  Variable R : W -> WS -> Prop.
  Variable M : Obs -> SObs -> Prop.
  Hypothesis Hstep : forall w ws o ws', R w ws -> sstep ws o = Some ws' -> exists w', step w o = C11_ok w' /\ R w' ws'.
  Hypothesis Hobs : forall w ws, R w ws -> exists x, observe w = C11_ok x /\ M x (sobserve ws).
  Lemma c11_sim_run_match : forall ops w ws tr, R w ws ->
    c11_spec_run sstep sobserve ws ops = map Some tr -> exists mtr, c11_run step observe w ops = map C11_ok mtr /\ Forall2 M mtr tr.
  Proof.
    induction ops as [| o r IH]; intros w ws tr HR Hs; simpl in *.
    - destruct tr; [| discriminate]. exists []. split; auto.
    - destruct (sstep ws o) as [ws' |] eqn:E.
      + destruct tr as [| x tr]; [discriminate |]. simpl in Hs. injection Hs as Hx Hr.
        destruct (Hstep _ _ _ _ HR E) as [w' [Hw HR']]. rewrite Hw.
        destruct (Hobs _ _ HR') as [y [Hy HM]]. rewrite Hy.
        destruct (IH w' ws' tr HR' Hr) as [mtr [Hrun HF]].
        exists (y :: mtr). simpl. rewrite Hrun. split; auto. constructor; auto. rewrite <- Hx. exact HM.
      + destruct tr as [| x tr]; [discriminate |]. simpl in Hs. discriminate.
  Qed.
End SIM2.

(* histories used by the non-vacuity examples of Properties_C11.v *)
Definition c11_ex_al_ops : list (c11_al_op nat) :=
  [AlPush _ 1; AlPush _ 2; AlPush _ 3; AlHold _ 2; AlPush _ 4; AlPush _ 5; AlErase _ 1; AlPurge _; AlPush _ 6; AlSet _ 0 9; AlHold _ 1; AlPush _ 7; AlClear _; AlPush _ 8].
Definition c11_ex_sl_ops : list (c11_sl_op nat) :=
  [SlPushBack _ false 1; SlPushBack _ false 2; SlPushFront _ false 0; SlMIns _ false 1 7; SlMRem _ false 3; SlMInsEnd _ false 5;
   SlIAfter _ false 0 8; SlIDel _ false 0; SlAssignSelf _ false; SlCopy _ false; SlPopFront _ true; SlAssign _ false; SlClear _ true; SlPushBack _ true 4].
Definition c11_ex_lru_ops : list (c11_lru_op nat) :=
  [LruInsert _ 0 5; LruInsert _ 1 6; LruInsert _ 0 7; LruTouch _ 1; LruTouch _ 2; LruInsert _ 2 8; LruPopBack _; LruResize _ 1; LruPopFront _; LruClear _].
Definition c11_ex_rv_ops : list (c11_rv_op nat) :=
  [RvPush _ false 1; RvPush _ false 2; RvResize _ false 3; RvPop _ false; RvAt _ false 1; RvAt _ false 5; RvMake _ true 2 7; RvSwap _;
   RvFrom _ true [4; 5; 6]; RvFill _ false 9; RvSet _ true 0 8; RvAssign _ false; RvClear _ true].
Definition c11_ex_bv_ops : list c11_bv_op :=
  [BvResize 2 false; BvSet 0 1 true; BvFlipBlock 1; BvShl 0 1; BvShr 1 2; BvOpBlock BvOr 0 1; BvAssignBits 1 [true]; BvResize 3 true;
   BvAssignBlock 2 0; BvOpBits BvXor 1 [true; true; false]; BvSetAll; BvResize 1 false; BvClear].
