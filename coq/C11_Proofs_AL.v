(* C11 — ArrayList: the chunked model (after fixes/C11-1.patch) refines list T for every chunk size and history. *)
From Coq Require Import List Arith Bool PeanoNat Lia ZArith.
From DuneV Require Import Params_gen C11_Model C11_Spec C11_Proofs.
Import ListNotations.

Arguments al_chunks {T} _.
Arguments al_cap {T} _.
Arguments al_size {T} _.
Arguments al_start {T} _.

Lemma c11_cs_pos N : 0 < c11_cs N.
Proof.
  unfold c11_cs. destruct (c11_param_al_chunk_threshold <? N) eqn:E.
  - apply Nat.ltb_lt in E. lia.
  - (* the fallback chunk size read from the source must be positive *) unfold c11_param_al_min_chunk. lia.
Qed.

Section ALP.
  Variable T : Type.
  Variable d : T.
  Variable N : nat.
  Let cs := c11_cs N.
  Let Hcs : cs <> 0. Proof. pose proof (c11_cs_pos N). unfold cs. lia. Qed.

  Lemma c11_divmod_inj a b : a / cs = b / cs -> a mod cs = b mod cs -> a = b.
  Proof. intros H1 H2. rewrite (Nat.div_mod a cs Hcs), (Nat.div_mod b cs Hcs). congruence. Qed.

  Lemma c11_div_lt a len : a < len * cs -> a / cs < len.
  Proof. intros. apply Nat.div_lt_upper_bound; auto. lia. Qed.

  Definition c11_al_alloc (s : c11_al T) (j : nat) : Prop :=
    exists c, nth_error (al_chunks s) j = Some (Some c) /\ length c = cs.

  (* the abstraction relation *)
  Definition c11_al_inv (s : c11_al T) (l : list T) : Prop :=
    al_cap s = length (al_chunks s) * cs /\
    al_start s + al_size s <= al_cap s /\
    al_size s = length l /\
    (forall j, al_start s / cs <= j < length (al_chunks s) -> c11_al_alloc s j) /\
    (forall i x, nth_error l i = Some x -> c11_al_elementAt T N s (al_start s + i) = C11_ok x).

  Lemma c11_al_inv_empty : c11_al_inv (c11_al_empty T) [].
  Proof.
    unfold c11_al_inv, c11_al_empty; simpl. split; [|split; [|split; [|split]]]; auto; try lia.
    intros [|i] x H; discriminate.
  Qed.

  (* assignment into an allocated chunk *)
  Lemma c11_al_assignAt_ok (s : c11_al T) i v :
    c11_al_alloc s (i / cs) ->
    exists s', c11_al_assignAt T N s i v = C11_ok s' /\
      al_cap s' = al_cap s /\ al_size s' = al_size s /\ al_start s' = al_start s /\
      length (al_chunks s') = length (al_chunks s) /\
      (forall j, c11_al_alloc s j -> c11_al_alloc s' j) /\
      c11_al_elementAt T N s' i = C11_ok v /\
      (forall k, k <> i -> c11_al_elementAt T N s' k = c11_al_elementAt T N s k).
  Proof.
    intros [c [Hc Hl]]. unfold c11_al_assignAt. fold cs. rewrite Hc.
    assert (Hm : i mod cs < length c) by (rewrite Hl; apply Nat.mod_upper_bound; auto).
    apply Nat.ltb_lt in Hm. rewrite Hm. apply Nat.ltb_lt in Hm.
    eexists; split; [reflexivity |]. simpl.
    assert (Hlt : i / cs < length (al_chunks s)) by (apply nth_error_Some; rewrite Hc; discriminate).
    split; [|split; [|split; [|split; [|split; [|split]]]]]; auto.
    - apply c11_set_nth_length.
    - intros j [c' [Hc' Hl']]. unfold c11_al_alloc; simpl.
      destruct (Nat.eq_dec (i / cs) j) as [E | E].
      + subst j. rewrite c11_set_nth_same by auto. eexists; split; [reflexivity |]. rewrite c11_set_nth_length; auto.
      + rewrite c11_set_nth_other by auto. eauto.
    - unfold c11_al_elementAt; simpl. fold cs. rewrite c11_set_nth_same by auto. rewrite c11_set_nth_same by auto. reflexivity.
    - intros k Hk. unfold c11_al_elementAt; simpl. fold cs.
      destruct (Nat.eq_dec (i / cs) (k / cs)) as [E | E].
      + rewrite <- E. rewrite c11_set_nth_same by auto. rewrite Hc.
        rewrite c11_set_nth_other; auto. intro E2. apply Hk. symmetry. apply c11_divmod_inj; auto.
      + rewrite c11_set_nth_other by auto. reflexivity.
  Qed.

  Lemma c11_al_push_back_ok s l v : c11_al_inv s l ->
    exists s', c11_al_push_back T d N s v = C11_ok s' /\ c11_al_inv s' (l ++ [v]) /\ al_start s' = al_start s.
  Proof.
    intros (Hcap & Hle & Hsz & Hal & Hel). unfold c11_al_push_back. fold cs.
    set (index := al_start s + al_size s).
    destruct (index =? al_cap s) eqn:E.
    - apply Nat.eqb_eq in E.
      set (s1 := C11_mk_al T (al_chunks s ++ [Some (repeat d cs)]) (al_cap s + cs) (al_size s) (al_start s)).
      assert (Hidx : index / cs = length (al_chunks s)).
      { rewrite E, Hcap. apply Nat.div_mul; auto. }
      assert (Ha1 : c11_al_alloc s1 (index / cs)).
      { unfold c11_al_alloc, s1; simpl. rewrite Hidx, c11_nth_error_app_last. eexists; split; [reflexivity | apply repeat_length]. }
      destruct (c11_al_assignAt_ok s1 index v Ha1) as (s2 & Has & Hc2 & Hs2 & Hst2 & Hlen2 & Hal2 & Hev & Hother).
      rewrite Has. simpl. eexists; split; [reflexivity |]. split; [| simpl; rewrite Hst2; reflexivity].
      unfold c11_al_inv; simpl. rewrite Hc2, Hs2, Hst2, Hlen2. unfold s1; simpl. rewrite app_length; simpl.
      split; [|split; [|split; [|split]]].
      + rewrite Hcap. lia.
      + fold index. pose proof (c11_cs_pos N). fold cs in H. lia.
      + rewrite app_length; simpl. lia.
      + intros j [Hj1 Hj2]. apply Hal2. unfold c11_al_alloc, s1; simpl.
        destruct (Nat.eq_dec j (length (al_chunks s))) as [Ej | Ej].
        * subst j. rewrite c11_nth_error_app_last. eexists; split; [reflexivity | apply repeat_length].
        * rewrite nth_error_app1 by lia. apply Hal. lia.
      + intros i x Hi. change (c11_al_elementAt T N s2 (al_start s + i) = C11_ok x).
        destruct (Nat.eq_dec i (al_size s)) as [Ei | Ei].
        * subst i. rewrite Hsz in Hi. rewrite c11_nth_error_app_last in Hi. injection Hi as <-. exact Hev.
        * assert (Hil : i < length l).
          { assert (i < length (l ++ [v])) by (apply nth_error_Some; congruence). rewrite app_length in H; simpl in H. lia. }
          rewrite nth_error_app1 in Hi by auto.
          rewrite Hother by (unfold index; lia).
          rewrite <- (Hel i x Hi). unfold c11_al_elementAt, s1; simpl. fold cs.
          rewrite nth_error_app1; auto. apply c11_div_lt. lia.
    - apply Nat.eqb_neq in E.
      assert (Hlt : index < al_cap s) by (unfold index in *; lia).
      assert (Ha1 : c11_al_alloc s (index / cs)).
      { apply Hal. split. apply Nat.div_le_mono; auto. unfold index; lia. apply c11_div_lt. lia. }
      destruct (c11_al_assignAt_ok s index v Ha1) as (s2 & Has & Hc2 & Hs2 & Hst2 & Hlen2 & Hal2 & Hev & Hother).
      rewrite Has. simpl. eexists; split; [reflexivity |]. split; [| simpl; rewrite Hst2; reflexivity].
      unfold c11_al_inv; simpl. rewrite Hc2, Hs2, Hst2, Hlen2.
      split; [|split; [|split; [|split]]].
      + auto.
      + fold index. lia.
      + rewrite app_length; simpl. lia.
      + intros j Hj. apply Hal2, Hal. auto.
      + intros i x Hi. change (c11_al_elementAt T N s2 (al_start s + i) = C11_ok x).
        destruct (Nat.eq_dec i (al_size s)) as [Ei | Ei].
        * subst i. rewrite Hsz in Hi. rewrite c11_nth_error_app_last in Hi. injection Hi as <-. exact Hev.
        * assert (Hil : i < length l).
          { assert (i < length (l ++ [v])) by (apply nth_error_Some; congruence). rewrite app_length in H; simpl in H. lia. }
          rewrite nth_error_app1 in Hi by auto.
          rewrite Hother by (unfold index; lia). auto.
  Qed.

  Lemma c11_al_set_ok s l i v : c11_al_inv s l -> i < length l ->
    exists s', c11_al_set T N s i v = C11_ok s' /\ c11_al_inv s' (c11_set_nth l i v) /\ al_start s' = al_start s.
  Proof.
    intros (Hcap & Hle & Hsz & Hal & Hel) Hi. unfold c11_al_set.
    assert (Ha1 : c11_al_alloc s ((al_start s + i) / cs)).
    { apply Hal. split. apply Nat.div_le_mono; auto. lia. apply c11_div_lt. lia. }
    destruct (c11_al_assignAt_ok s (al_start s + i) v Ha1) as (s2 & Has & Hc2 & Hs2 & Hst2 & Hlen2 & Hal2 & Hev & Hother).
    rewrite Has. eexists; split; [reflexivity |]. split; auto.
    unfold c11_al_inv. rewrite Hc2, Hs2, Hst2, Hlen2. split; [|split; [|split; [|split]]]; auto.
    - rewrite c11_set_nth_length; auto.
    - intros k x Hk. destruct (Nat.eq_dec i k) as [E | E].
      + subst k. rewrite c11_set_nth_same in Hk by auto. injection Hk as <-. exact Hev.
      + rewrite c11_set_nth_other in Hk by auto. rewrite Hother by lia. auto.
  Qed.

  Lemma c11_al_reset_loop_length n pcs ch : length (c11_al_reset_loop T n pcs ch) = length ch.
  Proof. revert pcs ch; induction n; intros; simpl; auto. rewrite IHn. apply c11_set_nth_length. Qed.

  Lemma c11_al_reset_loop_above n : forall pcs ch j, n <= pcs -> pcs <= j ->
    nth_error (c11_al_reset_loop T n pcs ch) j = nth_error ch j.
  Proof.
    induction n; intros pcs ch j Hn Hj; simpl; auto.
    rewrite IHn by lia. apply c11_set_nth_other. lia.
  Qed.

  Lemma c11_al_erase_ok s l k : c11_al_inv s l -> k < length l ->
    c11_al_inv (fst (c11_al_eraseToHere T N s (al_start s + k))) (skipn (S k) l) /\
    al_start (fst (c11_al_eraseToHere T N s (al_start s + k))) = al_start s + S k /\
    snd (c11_al_eraseToHere T N s (al_start s + k)) = al_start s + S k.
  Proof.
    intros (Hcap & Hle & Hsz & Hal & Hel) Hk. unfold c11_al_eraseToHere. fold cs. cbn [fst snd].
    set (p1 := S (al_start s + k)).
    assert (Hp1 : p1 = al_start s + S k) by (unfold p1; lia).
    split; [| split; auto].
    assert (Hn : (p1 - al_start s + al_start s mod cs) / cs <= p1 / cs).
    { apply Nat.div_le_mono; auto. pose proof (Nat.mod_le (al_start s) cs Hcs). lia. }
    assert (Hge : al_start s / cs <= p1 / cs) by (apply Nat.div_le_mono; auto; lia).
    unfold c11_al_inv; cbn [al_chunks al_cap al_size al_start]. rewrite c11_al_reset_loop_length.
    split; [|split; [|split; [|split]]].
    - auto.
    - lia.
    - rewrite skipn_length. lia.
    - intros j [Hj1 Hj2]. unfold c11_al_alloc; cbn [al_chunks]. rewrite c11_al_reset_loop_above by (auto; lia).
      apply Hal. lia.
    - intros i x Hi. rewrite c11_nth_error_skipn in Hi.
      unfold c11_al_elementAt; cbn [al_chunks]. fold cs.
      rewrite c11_al_reset_loop_above; [| exact Hn | apply Nat.div_le_mono; auto; lia].
      replace (p1 + i) with (al_start s + (S k + i)) by lia. apply (Hel _ _ Hi).
  Qed.

  Lemma c11_al_purge_ok s l : c11_al_inv s l -> c11_al_inv (c11_al_purge T N s) l.
  Proof.
    intros (Hcap & Hle & Hsz & Hal & Hel). unfold c11_al_purge. fold cs.
    destruct (0 <? al_start s / cs) eqn:E; [| split; [|split; [|split; [|split]]]; auto].
    set (dist := al_start s / cs). set (r := al_start s mod cs).
    assert (Hst : al_start s = dist * cs + r) by (unfold dist, r; rewrite Nat.mul_comm; apply Nat.div_mod; auto).
    assert (Hr : r < cs) by (apply Nat.mod_upper_bound; auto).
    assert (Hdl : dist <= length (al_chunks s)).
    { unfold dist. rewrite <- (Nat.div_mul (length (al_chunks s)) cs Hcs). apply Nat.div_le_mono; auto. lia. }
    unfold c11_al_inv; simpl. rewrite skipn_length.
    split; [|split; [|split; [|split]]]; auto.
    - rewrite Hcap. rewrite Nat.mul_sub_distr_r. reflexivity.
    - rewrite Hcap in *. nia.
    - intros j [Hj1 Hj2]. unfold c11_al_alloc; simpl. rewrite c11_nth_error_skipn.
      apply Hal. fold dist. lia.
    - intros i x Hi. unfold c11_al_elementAt; simpl. fold cs. rewrite c11_nth_error_skipn.
      specialize (Hel i x Hi). unfold c11_al_elementAt in Hel. fold cs in Hel.
      rewrite Hst in Hel. rewrite <- Nat.add_assoc in Hel.
      rewrite Nat.div_add_l in Hel by auto.
      replace (dist * cs + (r + i)) with ((r + i) + dist * cs) in Hel by lia.
      rewrite Nat.mod_add in Hel by auto. exact Hel.
  Qed.

  Lemma c11_al_read_ok s l : c11_al_inv s l ->
    forall n pos, pos + n = length l -> c11_al_read T N s (al_start s + pos) n = C11_ok (skipn pos l).
  Proof.
    intros Hinv. pose proof Hinv as (_ & _ & _ & _ & Hel).
    induction n; intros pos Hp; simpl.
    - rewrite skipn_all2 by lia. reflexivity.
    - destruct (nth_error l pos) as [x |] eqn:Ex; [| apply nth_error_None in Ex; lia].
      rewrite (Hel _ _ Ex). simpl.
      replace (S (al_start s + pos)) with (al_start s + S pos) by lia.
      rewrite IHn by lia. simpl. f_equal.
      clear -Ex. revert pos Ex. induction l; intros [|pos] Ex; simpl in *; try discriminate.
      + injection Ex as ->. reflexivity.
      + apply IHl; auto.
  Qed.

  Lemma c11_al_contents_ok s l : c11_al_inv s l -> c11_al_contents T N s = C11_ok l.
  Proof.
    intros Hinv. unfold c11_al_contents. pose proof Hinv as (_ & _ & Hsz & _ & _).
    replace (al_start s) with (al_start s + 0) at 1 by lia. rewrite (c11_al_read_ok s l Hinv); auto.
  Qed.

  (* world relation: the held iterator (absolute position) denotes the element with spec index j *)
  Definition c11_al_R (w : c11_al_world T) (ws : c11_als_world T) : Prop :=
    c11_al_inv (fst w) (fst ws) /\
    match snd w, snd ws with
    | Some p, Some j => p = al_start (fst w) + j /\ j < length (fst ws)
    | None, None => True
    | _, _ => False
    end.

  Lemma c11_al_step_sim : forall w ws o ws', c11_al_R w ws -> c11_als_step T ws o = Some ws' ->
    exists w', c11_al_step T d N true w o = C11_ok w' /\ c11_al_R w' ws'.
  Proof.
    intros [s h] [l hs] o ws' [Hinv Hh] Hs. simpl in Hinv, Hh.
    destruct o as [v | k | | | i v | k |]; cbn [c11_als_step] in Hs.
    - (* push_back: held iterators stay valid *)
      injection Hs as <-. destruct (c11_al_push_back_ok s l v Hinv) as (s' & Hp & Hinv' & Hst).
      simpl. rewrite Hp. simpl. eexists; split; [reflexivity |]. split; simpl; auto.
      destruct h, hs; auto. destruct Hh as [-> Hj]. rewrite Hst. split; auto. rewrite app_length; simpl; lia.
    - destruct (k <? length l) eqn:Ek; [| discriminate]. apply Nat.ltb_lt in Ek. injection Hs as <-.
      destruct (c11_al_erase_ok s l k Hinv Ek) as (Hinv' & Hst & _).
      unfold c11_al_step, c11_al_begin.
      destruct (c11_al_eraseToHere T N s (al_start s + k)) as [s' p'].
      cbn [fst snd] in Hinv', Hst. eexists; split; [reflexivity |]. split; cbn [fst snd]; auto.
      destruct h as [p |], hs as [j |]; auto; try contradiction.
      destruct Hh as [-> Hj].
      destruct (al_start s + j <=? al_start s + k) eqn:E1; destruct (j <=? k) eqn:E2; auto;
        try apply Nat.leb_le in E1; try apply Nat.leb_le in E2; try apply Nat.leb_gt in E1; try apply Nat.leb_gt in E2; try lia.
      rewrite Hst. split. lia. change (j - S k < length (skipn (S k) l)). rewrite skipn_length. lia.
    - injection Hs as <-. simpl. eexists; split; [reflexivity |]. split; simpl; auto. apply c11_al_purge_ok; auto.
    - injection Hs as <-. simpl. eexists; split; [reflexivity |]. split; simpl; auto. apply c11_al_inv_empty.
    - destruct (i <? length l) eqn:Ei; [| discriminate]. apply Nat.ltb_lt in Ei. injection Hs as <-.
      destruct (c11_al_set_ok s l i v Hinv Ei) as (s' & Hp & Hinv' & Hst).
      simpl. rewrite Hp. simpl. eexists; split; [reflexivity |]. split; simpl; auto.
      destruct h, hs; auto. destruct Hh as [-> Hj]. rewrite Hst. split; auto. rewrite c11_set_nth_length; auto.
    - destruct (k <? length l) eqn:Ek; [| discriminate]. apply Nat.ltb_lt in Ek. injection Hs as <-.
      simpl. eexists; split; [reflexivity |]. split; simpl; auto.
    - injection Hs as <-. simpl. eexists; split; [reflexivity |]. split; simpl; auto.
  Qed.

  Lemma c11_al_observe_sim : forall w ws, c11_al_R w ws -> c11_al_observe T N w = C11_ok (c11_als_observe T ws).
  Proof.
    intros [s h] [l hs] [Hinv Hh]. simpl in Hinv, Hh. unfold c11_al_observe, c11_als_observe. simpl.
    rewrite (c11_al_contents_ok s l Hinv). simpl.
    pose proof Hinv as (_ & _ & Hsz & _ & Hel).
    unfold c11_al_held; simpl.
    destruct h as [p |], hs as [j |]; try contradiction; simpl.
    - destruct Hh as [-> Hj]. destruct (nth_error l j) as [x |] eqn:Ex; [| apply nth_error_None in Ex; lia].
      rewrite (Hel _ _ Ex). simpl. rewrite Hsz. reflexivity.
    - rewrite Hsz. reflexivity.
  Qed.

  (* MAIN: every history that respects the documented preconditions shows, after every operation, exactly the
     observations of the abstract list; in particular an iterator held across push_back still denotes its element *)
  Theorem c11_arraylist_refines_lemma : forall ops tr,
    c11_als_run T ([], None) ops = map Some tr ->
    c11_al_run T d N true (c11_al_empty T, None) ops = map C11_ok tr.
  Proof.
    intros ops tr. unfold c11_als_run, c11_al_run.
    apply (c11_sim_run _ _ _ _ _ _ _ _ c11_al_R c11_al_step_sim c11_al_observe_sim).
    split; simpl; auto. apply c11_al_inv_empty.
  Qed.
  (* ------------------------------------------------------------ deep observable: the private state is well formed after every operation *)
  Definition c11_al_below (s : c11_al T) : Prop := forall j, j < al_start s / cs -> nth_error (al_chunks s) j = Some None.
  Definition c11_al_deep_wf (x : nat * nat * nat * list bool) : Prop :=
    let '(st, sz, cap, nulls) := x in
    cap = length nulls * cs /\ st + sz <= cap /\ forall j, j < length nulls -> nth_error nulls j = Some (j <? st / cs).

  Lemma c11_al_assignAt_chunks s i v s' : c11_al_assignAt T N s i v = C11_ok s' ->
    al_start s' = al_start s /\ forall j, j <> i / cs -> nth_error (al_chunks s') j = nth_error (al_chunks s) j.
  Proof.
    unfold c11_al_assignAt. fold cs. destruct (nth_error (al_chunks s) (i / cs)) as [[c |] |]; try discriminate.
    destruct (i mod cs <? length c); [| discriminate]. intros H. injection H as <-. cbn [al_start al_chunks]. split; auto.
    intros j Hj. apply c11_set_nth_other. auto.
  Qed.

  Lemma c11_al_below_push s l v s' : c11_al_inv s l -> c11_al_below s -> c11_al_push_back T d N s v = C11_ok s' -> c11_al_below s'.
  Proof.
    intros (Hcap & Hle & Hsz & Hal & Hel) Hb. unfold c11_al_push_back. fold cs.
    set (index := al_start s + al_size s).
    assert (Hge : al_start s / cs <= index / cs) by (apply Nat.div_le_mono; auto; unfold index; lia).
    assert (Hlen : al_start s / cs <= length (al_chunks s)).
    { rewrite <- (Nat.div_mul (length (al_chunks s)) cs Hcs). apply Nat.div_le_mono; auto. lia. }
    destruct (index =? al_cap s).
    - match goal with |- c11_bind (c11_al_assignAt T N ?s1 _ _) _ = _ -> _ => destruct (c11_al_assignAt T N s1 index v) as [s2 | |] eqn:E end; try discriminate.
      simpl. intros H. injection H as <-. apply c11_al_assignAt_chunks in E. destruct E as [Est Ech]. cbn [al_start al_chunks] in *.
      intros j Hj. cbn [al_start al_chunks] in *. rewrite Est in Hj. rewrite Ech by lia. rewrite nth_error_app1 by lia. apply Hb; auto.
    - destruct (c11_al_assignAt T N s index v) as [s2 | |] eqn:E; try discriminate.
      simpl. intros H. injection H as <-. apply c11_al_assignAt_chunks in E. destruct E as [Est Ech].
      intros j Hj. cbn [al_start al_chunks] in *. rewrite Est in Hj. rewrite Ech by lia. apply Hb; auto.
  Qed.

  Lemma c11_al_reset_loop_in n : forall pcs ch j, n <= pcs -> pcs - n <= j < pcs -> j < length ch ->
    nth_error (c11_al_reset_loop T n pcs ch) j = Some None.
  Proof.
    induction n; intros pcs ch j Hn Hj Hl; simpl. lia.
    destruct (Nat.eq_dec j (pcs - 1)) as [-> | Hne].
    - rewrite c11_al_reset_loop_above by lia. apply c11_set_nth_same. auto.
    - apply IHn; try lia. rewrite c11_set_nth_length. auto.
  Qed.
  Lemma c11_al_reset_loop_below n : forall pcs ch j, n <= pcs -> j < pcs - n ->
    nth_error (c11_al_reset_loop T n pcs ch) j = nth_error ch j.
  Proof.
    induction n; intros pcs ch j Hn Hj; simpl; auto.
    rewrite IHn by lia. apply c11_set_nth_other. lia.
  Qed.

  Lemma c11_al_below_erase s l k : c11_al_inv s l -> c11_al_below s -> k < length l ->
    c11_al_below (fst (c11_al_eraseToHere T N s (al_start s + k))).
  Proof.
    intros (Hcap & Hle & Hsz & Hal & Hel) Hb Hk. unfold c11_al_eraseToHere. fold cs. cbn [fst].
    set (p1 := S (al_start s + k)).
    set (r := al_start s mod cs). set (q := al_start s / cs).
    assert (Hst : al_start s = q * cs + r) by (unfold q, r; rewrite Nat.mul_comm; apply Nat.div_mod; auto).
    assert (Hpcs : p1 / cs = q + (p1 - al_start s + r) / cs).
    { replace p1 with (q * cs + (p1 - al_start s + r)) at 1 by (unfold p1 in *; lia). apply Nat.div_add_l; auto. }
    intros j Hj. cbn [al_start al_chunks] in *.
    assert (Hjl : j < length (al_chunks s)).
    { assert (p1 / cs <= length (al_chunks s)).
      { rewrite <- (Nat.div_mul (length (al_chunks s)) cs Hcs). apply Nat.div_le_mono; auto. unfold p1. lia. }
      lia. }
    destruct (Nat.lt_ge_cases j q) as [Hlt | Hge].
    - rewrite c11_al_reset_loop_below by lia. apply Hb. exact Hlt.
    - apply c11_al_reset_loop_in; lia.
  Qed.

  Lemma c11_al_below_purge s : c11_al_below (c11_al_purge T N s).
  Proof.
    unfold c11_al_purge. fold cs. destruct (0 <? al_start s / cs) eqn:E.
    - intros j Hj. cbn [al_start] in Hj. rewrite Nat.div_small in Hj by (apply Nat.mod_upper_bound; auto). lia.
    - apply Nat.ltb_ge in E. intros j Hj. lia.
  Qed.

  Definition c11_al_R2 (w : c11_al_world T) (ws : c11_als_world T) : Prop := c11_al_R w ws /\ c11_al_below (fst w).

  Lemma c11_al_step_sim2 : forall w ws o ws', c11_al_R2 w ws -> c11_als_step T ws o = Some ws' ->
    exists w', c11_al_step T d N true w o = C11_ok w' /\ c11_al_R2 w' ws'.
  Proof.
    intros w ws o ws' [HR Hb] Hs. destruct (c11_al_step_sim w ws o ws' HR Hs) as (w' & Hstep & HR').
    exists w'. split; auto. split; auto.
    destruct w as [s h], ws as [l hs]. destruct HR as [Hinv _]. cbn [fst snd] in *.
    destruct o as [v | k | | | i v | k |]; cbn [c11_als_step c11_al_step] in *.
    - destruct (c11_al_push_back T d N s v) as [s' | |] eqn:E; try discriminate. simpl in Hstep. injection Hstep as <-.
      eapply c11_al_below_push; eauto.
    - destruct (k <? length l) eqn:Ek; [| discriminate]. apply Nat.ltb_lt in Ek.
      pose proof (c11_al_below_erase s l k Hinv Hb Ek) as He. unfold c11_al_begin in Hstep.
      destruct (c11_al_eraseToHere T N s (al_start s + k)) as [s' p']. injection Hstep as <-. exact He.
    - injection Hstep as <-. apply c11_al_below_purge.
    - injection Hstep as <-. intros j Hj. cbn [fst c11_al_clear c11_al_empty al_start] in Hj. rewrite Nat.div_0_l in Hj by auto. lia.
    - unfold c11_al_set in Hstep. destruct (c11_al_assignAt T N s (al_start s + i) v) as [s' | |] eqn:E; try discriminate.
      simpl in Hstep. injection Hstep as <-. apply c11_al_assignAt_chunks in E. destruct E as [Est Ech].
      intros j Hj. cbn [fst] in *. rewrite Est in Hj. rewrite Ech. apply Hb; auto.
      assert (al_start s / cs <= (al_start s + i) / cs) by (apply Nat.div_le_mono; auto; lia). lia.
    - injection Hstep as <-. exact Hb.
    - injection Hstep as <-. exact Hb.
  Qed.

  Lemma c11_al_deep_ok : forall w ws, c11_al_R2 w ws -> c11_al_deep_wf (c11_al_deep T (fst w)).
  Proof.
    intros [s h] [l hs] [[(Hcap & Hle & Hsz & Hal & Hel) _] Hb]. cbn [fst] in *. unfold c11_al_deep, c11_al_deep_wf.
    rewrite map_length. split; auto. split; auto. intros j Hj.
    rewrite nth_error_map. destruct (j <? al_start s / cs) eqn:E.
    - apply Nat.ltb_lt in E. rewrite (Hb j E). reflexivity.
    - apply Nat.ltb_ge in E. destruct (Hal j (conj E Hj)) as [c [Hc _]]. rewrite Hc. reflexivity.
  Qed.

  Theorem c11_arraylist_private_state_lemma : forall ops tr,
    c11_als_run T ([], None) ops = map Some tr ->
    exists dtr, c11_al_run_deep T d N true (c11_al_empty T, None) ops = map C11_ok dtr /\ length dtr = length tr /\ Forall c11_al_deep_wf dtr.
  Proof.
    intros ops tr Hs. unfold c11_als_run, c11_al_run_deep in *.
    destruct (c11_sim_run_match _ _ _ _ _ (c11_al_step T d N true) (fun w => C11_ok (c11_al_deep T (fst w))) (c11_als_step T) (c11_als_observe T)
                c11_al_R2 (fun x _ => c11_al_deep_wf x) c11_al_step_sim2
                (fun w ws H => ex_intro _ _ (conj eq_refl (c11_al_deep_ok w ws H))) ops (c11_al_empty T, None) ([], None) tr) as (dtr & Hrun & HF); auto.
    - split. split; simpl; auto. apply c11_al_inv_empty. intros j Hj. simpl in Hj. rewrite Nat.div_0_l in Hj by auto. lia.
    - exists dtr. split; auto. split.
      + clear -HF. induction HF; simpl; auto.
      + clear -HF. induction HF; constructor; auto.
  Qed.
  (* ------------------------------------------------------------ iterators: every random-access path reads the abstract list *)
  Lemma c11_res_all_seq {A} (f : nat -> c11_res A) : forall (l : list A) k,
    (forall i x, nth_error l i = Some x -> f (k + i) = C11_ok x) -> c11_res_all (map f (seq k (length l))) = C11_ok l.
  Proof.
    induction l as [| a l IH]; intros k H; simpl; auto.
    rewrite <- (Nat.add_0_r k) at 1. rewrite (H 0 a eq_refl). simpl.
    rewrite (IH (S k)). reflexivity. intros i x Hi. replace (S k + i) with (k + S i) by lia. apply H. exact Hi.
  Qed.
  Lemma c11_firstn_S_snoc {A} (L : list A) k x : nth_error L k = Some x -> firstn (S k) L = firstn k L ++ [x].
  Proof. revert k; induction L as [| a L IH]; intros [| k] H; simpl in *; try discriminate. injection H as ->; auto. f_equal. apply IH; auto. Qed.

  Lemma c11_ali_index_ok s l i j (n : Z) x : c11_al_inv s l ->
    (Z.of_nat (al_start s + al_size s) < 2 ^ 64)%Z -> i <= al_size s -> Z.of_nat j = (Z.of_nat i + n)%Z -> nth_error l j = Some x ->
    c11_ali_index T N s (al_start s + i) n = C11_ok x.
  Proof.
    intros (Hcap & Hle & Hsz & Hal & Hel) Hb Hi Hj Hx. unfold c11_ali_index. change c11_size_t_mod with (2 ^ 64)%Z.
    assert (Hjl : j < length l) by (apply nth_error_Some; congruence).
    rewrite Z.add_mod_idemp_l by lia.
    replace (n + Z.of_nat (al_start s + i))%Z with (Z.of_nat (al_start s + j)) by lia.
    rewrite Z.mod_small by lia. rewrite Nat2Z.id. apply Hel. exact Hx.
  Qed.

  Lemma c11_al_read_begin_ok s l : c11_al_inv s l -> (Z.of_nat (al_start s + al_size s) < 2 ^ 64)%Z -> c11_al_read_begin T N s = C11_ok l.
  Proof.
    intros Hinv Hb. pose proof Hinv as (_ & _ & Hsz & _). unfold c11_al_read_begin, c11_al_begin. rewrite Hsz.
    apply (c11_res_all_seq (fun i => c11_ali_index T N s (al_start s) (Z.of_nat i)) l 0). intros i x Hx. simpl.
    rewrite <- (Nat.add_0_r (al_start s)). eapply (c11_ali_index_ok s l 0 i); eauto; lia.
  Qed.
  Lemma c11_al_read_mid_ok s l : c11_al_inv s l -> (Z.of_nat (al_start s + al_size s) < 2 ^ 64)%Z -> c11_al_read_mid T N s = C11_ok l.
  Proof.
    intros Hinv Hb. pose proof Hinv as (_ & _ & Hsz & _). unfold c11_al_read_mid, c11_al_begin, c11_ali_advance. rewrite Hsz.
    apply (c11_res_all_seq (fun i => c11_ali_index T N s (al_start s + length l / 2) (Z.of_nat i - Z.of_nat (length l / 2))) l 0). intros i x Hx. cbn beta. rewrite Nat.add_0_l.
    assert (Hm : length l / 2 <= length l) by (apply Nat.div_le_upper_bound; lia).
    set (m := length l / 2) in *. clearbody m.
    eapply (c11_ali_index_ok s l m i); eauto; lia.
  Qed.
  Lemma c11_al_rev_walk_ok s l : c11_al_inv s l -> forall k j, k <= j -> j <= length l ->
    c11_al_rev_walk T N s k (al_start s + j) = C11_ok (rev (firstn k (skipn (j - k) l))).
  Proof.
    intros (Hcap & Hle & Hsz & Hal & Hel). induction k as [| k IH]; intros j Hk Hj; [reflexivity |].
    cbn [c11_al_rev_walk]. unfold c11_ali_decrement, c11_ali_dereference.
    replace (al_start s + j - 1) with (al_start s + (j - 1)) by lia.
    destruct (nth_error l (j - 1)) as [x |] eqn:Ex; [| apply nth_error_None in Ex; lia].
    rewrite (Hel _ _ Ex). cbn [c11_bind]. rewrite IH by lia. cbn [c11_bind].
    replace (j - 1 - k) with (j - S k) by lia.
    rewrite (c11_firstn_S_snoc (skipn (j - S k) l) k x).
    - rewrite rev_app_distr. reflexivity.
    - rewrite c11_nth_error_skipn. replace (j - S k + k) with (j - 1) by lia. exact Ex.
  Qed.
  Lemma c11_al_read_reverse_ok s l : c11_al_inv s l -> c11_al_read_reverse T N s = C11_ok l.
  Proof.
    intros Hinv. pose proof Hinv as (_ & _ & Hsz & _). unfold c11_al_read_reverse, c11_al_end. rewrite Hsz.
    rewrite (c11_al_rev_walk_ok s l Hinv (length l) (length l)) by lia. simpl.
    rewrite Nat.sub_diag. simpl. rewrite rev_involutive, firstn_all. reflexivity.
  Qed.

  Theorem c11_arraylist_random_access_lemma : forall ops ws,
    c11_spec_exec (c11_als_step T) ([], None) ops = Some ws ->
    exists w, c11_exec (c11_al_step T d N true) (c11_al_empty T, None) ops = C11_ok w /\
      let s := fst w in let l := fst ws in
      al_size s = length l /\
      ((Z.of_nat (c11_al_end T s) < 2 ^ 64)%Z -> c11_al_read_begin T N s = C11_ok l /\ c11_al_read_mid T N s = C11_ok l) /\
      c11_al_read_reverse T N s = C11_ok l /\
      c11_ali_distanceTo (c11_al_begin T s) (c11_al_end T s) = Z.of_nat (length l) /\
      c11_ali_equals (c11_ali_advance (c11_al_begin T s) (al_size s)) (c11_al_end T s) = true /\
      (* appending never invalidates ANY iterator into the list *)
      (forall v, exists s', c11_al_push_back T d N s v = C11_ok s' /\ c11_al_begin T s' = c11_al_begin T s /\
                 forall i x, nth_error l i = Some x -> c11_ali_dereference T N s' (c11_ali_advance (c11_al_begin T s) i) = C11_ok x) /\
      (* eraseToHere leaves the iterator at the next unerased entry, i.e. at the new begin() *)
      (forall k, k < length l -> snd (c11_al_eraseToHere T N s (c11_al_begin T s + k)) = c11_al_begin T (fst (c11_al_eraseToHere T N s (c11_al_begin T s + k)))).
  Proof.
    intros ops ws Hs.
    destruct (c11_sim_exec _ _ _ _ _ c11_al_R c11_al_step_sim ops (c11_al_empty T, None) ([], None) ws) as (w & Hw & [Hinv Hh]); auto.
    { split; simpl; auto. apply c11_al_inv_empty. }
    exists w. split; auto. destruct w as [s h], ws as [l hs]. cbn [fst snd] in *.
    pose proof Hinv as (Hcap & Hle & Hsz & Hal & Hel).
    split; auto. split.
    { intros Hb. unfold c11_al_end in Hb. split. apply c11_al_read_begin_ok; auto. apply c11_al_read_mid_ok; auto. }
    split. apply c11_al_read_reverse_ok; auto.
    split. unfold c11_ali_distanceTo, c11_al_begin, c11_al_end. lia.
    split. unfold c11_ali_equals, c11_ali_advance, c11_al_begin, c11_al_end. apply Nat.eqb_refl.
    split.
    - intros v. destruct (c11_al_push_back_ok s l v Hinv) as (s' & Hp & Hinv' & Hst). exists s'. split; auto. split; auto.
      intros i x Hx. unfold c11_ali_dereference, c11_ali_advance, c11_al_begin. rewrite <- Hst.
      destruct Hinv' as (_ & _ & _ & _ & Hel'). apply Hel'. rewrite nth_error_app1; auto. apply nth_error_Some. congruence.
    - intros k Hk. destruct (c11_al_erase_ok s l k Hinv Hk) as (_ & Hst & Hsnd). unfold c11_al_begin. rewrite Hsnd, Hst. reflexivity.
  Qed.
End ALP.
