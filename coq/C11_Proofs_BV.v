(* C11 — BitSetVector: the flat vector<bool> addressed through (block, bit) is the list of blocks, for every history. *)
From Coq Require Import List Arith Bool PeanoNat Lia.
From DuneV Require Import C11_Model C11_Spec C11_Proofs C11_Proofs_RV.
Import ListNotations.

Lemma c11_set_nth_app_l {A} (l1 l2 : list A) i x : i < length l1 -> c11_set_nth (l1 ++ l2) i x = c11_set_nth l1 i x ++ l2.
Proof. revert i; induction l1 as [| a l1 IH]; intros [| i] H; simpl in *; try lia; auto. rewrite IH by lia. reflexivity. Qed.
Lemma c11_set_nth_app_r {A} (l1 l2 : list A) i x : c11_set_nth (l1 ++ l2) (length l1 + i) x = l1 ++ c11_set_nth l2 i x.
Proof. induction l1 as [| a l1 IH]; simpl; auto. rewrite IH. reflexivity. Qed.

Lemma c11_set_nth_twice {A} (l : list A) i x y : c11_set_nth (c11_set_nth l i x) i y = c11_set_nth l i y.
Proof. revert i; induction l as [| a l IH]; intros [| i]; simpl; auto. f_equal; auto. Qed.
Lemma c11_set_nth_id {A} (l : list A) i x : nth_error l i = Some x -> c11_set_nth l i x = l.
Proof. revert i; induction l as [| a l IH]; intros [| i] H; simpl in *; try discriminate. injection H as ->; auto. f_equal; auto. Qed.
Lemma c11_firstn_S_nth {A} (l : list A) j d : j < length l -> firstn (S j) l = firstn j l ++ [nth j l d].
Proof. revert j; induction l as [| a l IH]; intros [| j] H; simpl in *; try lia; auto. f_equal. apply IH. lia. Qed.
Lemma c11_skipn_nth_d {A} (l : list A) j d : j < length l -> skipn j l = nth j l d :: skipn (S j) l.
Proof. revert j; induction l as [| a l IH]; intros [| j] H; simpl in *; try lia; auto. apply IH; lia. Qed.
Lemma c11_nth0_skipn {A} (b : list A) j d : nth 0 (skipn j b) d = nth j b d.
Proof. revert j; induction b as [| a b IH]; intros [| j]; simpl; auto. Qed.
Lemma c11_nth_blk {A} (newb b : list A) j d : j <= length newb -> nth j (firstn j newb ++ skipn j b) d = nth j b d.
Proof.
  intros H. rewrite app_nth2; rewrite firstn_length_le by auto; [| lia]. rewrite Nat.sub_diag. apply c11_nth0_skipn.
Qed.
Lemma c11_blk_step {A} (newb b : list A) j d : length newb = length b -> j < length b ->
  c11_set_nth (firstn j newb ++ skipn j b) j (nth j newb d) = firstn (S j) newb ++ skipn (S j) b.
Proof.
  intros Hl Hj. rewrite (c11_skipn_nth_d b j d Hj).
  pose proof (c11_set_nth_app_r (firstn j newb) (nth j b d :: skipn (S j) b) 0 (nth j newb d)) as H.
  rewrite firstn_length_le in H by lia. rewrite Nat.add_0_r in H. cbn [c11_set_nth] in H. rewrite H.
  rewrite (c11_firstn_S_nth newb j d) by lia. rewrite <- app_assoc. reflexivity.
Qed.
Lemma c11_nth_repeat_lt {A} (v d : A) n j : j < n -> nth j (repeat v n) d = v.
Proof. revert j; induction n; intros [| j] H; simpl; try lia; auto. apply IHn; lia. Qed.
Lemma c11_zip_length f a b : length (c11_bitset_zip f a b) = Nat.min (length a) (length b).
Proof. revert b; induction a as [| x a IH]; intros [| y b]; simpl; auto. Qed.

Section BVP.
  Variable bs : nat.
  Definition c11_bv_wf (w : list (list bool)) : Prop := Forall (fun b => length b = bs) w.

  Lemma c11_bv_concat_length w : c11_bv_wf w -> length (concat w) = length w * bs.
  Proof. induction 1 as [| b w Hb Hw IH]; simpl; auto. rewrite app_length, IH, Hb. reflexivity. Qed.

  Lemma c11_bv_addr_lemma : forall w i j b v, c11_bv_wf w -> nth_error w i = Some b -> j < bs ->
    nth_error (concat w) (i * bs + j) = nth_error b j /\
    i * bs + j < length (concat w) /\
    c11_set_nth (concat w) (i * bs + j) v = concat (c11_set_nth w i (c11_set_nth b j v)).
  Proof.
    induction w as [| b0 w IH]; intros i j b v Hwf Hi Hj.
    - destruct i; discriminate.
    - inversion Hwf as [| ? ? Hb0 Hwf']; subst. destruct i as [| i]; simpl in Hi.
      + injection Hi as ->. simpl. split; [| split].
        * apply nth_error_app1. lia.
        * rewrite app_length. lia.
        * apply c11_set_nth_app_l. lia.
      + destruct (IH i j b v Hwf' Hi Hj) as (H1 & H2 & H3).
        replace (S i * bs + j) with (length b0 + (i * bs + j)) by (simpl; lia). simpl concat.
        split; [| split].
        * rewrite nth_error_app2 by lia. replace (length b0 + (i * bs + j) - length b0) with (i * bs + j) by lia. exact H1.
        * rewrite app_length. lia.
        * rewrite c11_set_nth_app_r. rewrite H3. reflexivity.
  Qed.

  (* reading / writing bit j of block i through the flat vector = reading / writing bit j of the i-th block;
     all other blocks are untouched (c11_set_nth w i _) *)
  Lemma c11_bitset_addressing_lemma : forall w i j b v, c11_bv_wf w -> nth_error w i = Some b -> j < bs ->
    c11_bv_getBit bs (concat w) i j = C11_ok (nth j b false) /\
    c11_bv_setBit bs (concat w) i j v = C11_ok (concat (c11_set_nth w i (c11_set_nth b j v))) /\
    c11_bv_wf (c11_set_nth w i (c11_set_nth b j v)).
  Proof.
    intros w i j b v Hwf Hi Hj. destruct (c11_bv_addr_lemma w i j b v Hwf Hi Hj) as (H1 & H2 & H3).
    assert (Hb : length b = bs). { unfold c11_bv_wf in Hwf. rewrite Forall_forall in Hwf. apply Hwf. eapply nth_error_In; eauto. }
    split; [| split].
    - unfold c11_bv_getBit. rewrite H1. destruct (nth_error b j) as [x |] eqn:E.
      + rewrite (nth_error_nth _ _ false E). reflexivity.
      + apply nth_error_None in E. lia.
    - unfold c11_bv_setBit. apply Nat.ltb_lt in H2. rewrite H2, H3. reflexivity.
    - unfold c11_bv_wf in *. rewrite Forall_forall in *. intros x Hx.
      apply In_nth_error in Hx. destruct Hx as [k Hk].
      destruct (Nat.eq_dec i k) as [<- | Hne].
      + rewrite c11_set_nth_same in Hk by (apply nth_error_Some; congruence). injection Hk as <-. rewrite c11_set_nth_length. auto.
      + rewrite c11_set_nth_other in Hk by auto. apply Hwf. eapply nth_error_In; eauto.
  Qed.
  Lemma c11_bv_wf_dec w : forallb (fun b => length b =? bs) w = true -> c11_bv_wf w.
  Proof. intros H. unfold c11_bv_wf. rewrite Forall_forall. rewrite forallb_forall in H. intros x Hx. apply Nat.eqb_eq. auto. Qed.

  (* ------------------------------------------------------------ per-bit loops on block i *)
  Lemma wf_set_nth w i x : c11_bv_wf w -> length x = bs -> c11_bv_wf (c11_set_nth w i x).
  Proof.
    unfold c11_bv_wf. rewrite !Forall_forall. intros Hwf Hx y Hy. apply In_nth_error in Hy. destruct Hy as [k Hk].
    destruct (Nat.eq_dec i k) as [<- | Hne].
    - assert (Hlt : i < length w) by (rewrite <- (c11_set_nth_length w i x); apply nth_error_Some; rewrite Hk; discriminate).
      rewrite c11_set_nth_same in Hk by auto. congruence.
    - rewrite c11_set_nth_other in Hk by auto. apply Hwf. eapply nth_error_In; eauto.
  Qed.
  Lemma wf_len w i b : c11_bv_wf w -> nth_error w i = Some b -> length b = bs.
  Proof. unfold c11_bv_wf. rewrite Forall_forall. intros H Hi. apply H. eapply nth_error_In; eauto. Qed.

  Section LOOP.
    Variables (w : list (list bool)) (i : nat) (b newb : list bool).
    Hypothesis Hwf : c11_bv_wf w.
    Hypothesis Hi : nth_error w i = Some b.
    Hypothesis Hnew : length newb = bs.
    Let Hb : length b = bs := wf_len w i b Hwf Hi.
    Definition blk (j : nat) : list bool := firstn j newb ++ skipn j b.
    Definition W (j : nat) : list (list bool) := c11_set_nth w i (blk j).

    Lemma blk_len j : j <= bs -> length (blk j) = bs.
    Proof. intros Hj. unfold blk. rewrite app_length, firstn_length_le, skipn_length by lia. lia. Qed.
    Lemma W_wf j : j <= bs -> c11_bv_wf (W j).
    Proof. intros. apply wf_set_nth; auto. apply blk_len; auto. Qed.
    Lemma W_i j : nth_error (W j) i = Some (blk j).
    Proof. apply c11_set_nth_same. apply nth_error_Some. congruence. Qed.
    Lemma W_other j k : k <> i -> nth_error (W j) k = nth_error w k.
    Proof. intros. apply c11_set_nth_other. auto. Qed.
    Lemma W_0 : W 0 = w.
    Proof. unfold W, blk. simpl. apply c11_set_nth_id; auto. Qed.
    Lemma W_bs : W bs = c11_set_nth w i newb.
    Proof. unfold W, blk. rewrite <- Hnew at 1. rewrite firstn_all. rewrite <- Hb. rewrite skipn_all. rewrite app_nil_r. reflexivity. Qed.

    (* writing bit j of the new block on top of the state where bits < j are already written *)
    Lemma write_step j : j < bs -> c11_bv_setBit bs (concat (W j)) i j (nth j newb false) = C11_ok (concat (W (S j))).
    Proof.
      intros Hj. destruct (c11_bitset_addressing_lemma (W j) i j (blk j) (nth j newb false)) as (_ & Hs & _).
      apply W_wf; lia. apply W_i. auto.
      rewrite Hs. unfold W at 1. rewrite c11_set_nth_twice. unfold W. f_equal. f_equal. f_equal.
      unfold blk. apply c11_blk_step; lia.
    Qed.
    Lemma read_i j : j < bs -> c11_bv_getBit bs (concat (W j)) i j = C11_ok (nth j b false).
    Proof.
      intros Hj. destruct (c11_bitset_addressing_lemma (W j) i j (blk j) false) as (Hg & _ & _).
      apply W_wf; lia. apply W_i. auto. rewrite Hg. unfold blk. rewrite c11_nth_blk by lia. reflexivity.
    Qed.
    Lemma read_other j k x : j < bs -> k <> i -> nth_error w k = Some x -> c11_bv_getBit bs (concat (W j)) k j = C11_ok (nth j x false).
    Proof.
      intros Hj Hk Hx. destruct (c11_bitset_addressing_lemma (W j) k j x false) as (Hg & _ & _); auto.
      apply W_wf; lia. rewrite W_other; auto.
    Qed.

    Lemma each_ok (f : c11_bv -> nat -> c11_res c11_bv) :
      (forall j, j < bs -> f (concat (W j)) j = C11_ok (concat (W (S j)))) ->
      c11_bv_each bs 0 (concat w) f = C11_ok (concat (c11_set_nth w i newb)).
    Proof.
      intros Hf.
      assert (G : forall k j, j + k = bs -> c11_bv_each k j (concat (W j)) f = C11_ok (concat (W bs))).
      { induction k as [| k IH]; intros j Hj; simpl.
        - replace j with bs by lia. reflexivity.
        - rewrite Hf by lia. simpl. apply IH. lia. }
      rewrite <- W_0 at 1. rewrite <- W_bs. apply G. lia.
    Qed.

    Lemma assign_ok : c11_bv_assign bs (concat w) i newb = C11_ok (concat (c11_set_nth w i newb)).
    Proof.
      assert (G : forall k j, j + k = bs -> c11_bv_assign_loop bs j (concat (W j)) i (skipn j newb) = C11_ok (concat (W bs))).
      { induction k as [| k IH]; intros j Hj.
        - replace j with bs by lia. rewrite skipn_all2 by lia. reflexivity.
        - rewrite (c11_skipn_nth_d newb j false) by lia. cbn [c11_bv_assign_loop]. rewrite write_step by lia. simpl. apply IH. lia. }
      unfold c11_bv_assign. rewrite <- W_0 at 1. rewrite <- W_bs. apply (G bs 0). lia.
    Qed.
  End LOOP.

  Lemma write_const w i b v j : c11_bv_wf w -> nth_error w i = Some b -> j < bs ->
    c11_bv_setBit bs (concat (W w i b (repeat v bs) j)) i j v = C11_ok (concat (W w i b (repeat v bs) (S j))).
  Proof.
    intros Hwf Ei Hj. pose proof (write_step w i b (repeat v bs) Hwf Ei (repeat_length _ _) j Hj) as Hw.
    rewrite (c11_nth_repeat_lt v false bs j Hj) in Hw. exact Hw.
  Qed.

  Lemma repr_ok w i b : c11_bv_wf w -> nth_error w i = Some b -> c11_bv_getRepr bs (concat w) i = C11_ok b.
  Proof.
    intros Hwf Hi. pose proof (wf_len w i b Hwf Hi) as Hb.
    assert (G : forall k j, j + k = bs -> c11_bv_repr_loop bs k j (concat w) i = C11_ok (skipn j b)).
    { induction k as [| k IH]; intros j Hj; simpl.
      - rewrite skipn_all2 by lia. reflexivity.
      - destruct (c11_bitset_addressing_lemma w i j b false Hwf Hi) as (Hg & _ & _). lia.
        rewrite Hg. simpl. rewrite IH by lia. simpl. rewrite (c11_skipn_nth_d b j false) by lia. reflexivity. }
    unfold c11_bv_getRepr. apply (G bs 0). lia.
  Qed.

  (* ------------------------------------------------------------ whole-vector lemmas *)
  Lemma firstn_concat : forall n w, c11_bv_wf w -> firstn (n * bs) (concat w) = concat (firstn n w).
  Proof.
    induction n as [| n IH]; intros w Hwf. reflexivity.
    destruct w as [| b w]. simpl. destruct (bs + n * bs); reflexivity.
    apply Forall_cons_iff in Hwf. destruct Hwf as [Hb0 Hwf']. cbn [concat firstn].
    replace (S n * bs) with (length b + n * bs) by (simpl; lia). rewrite firstn_app_2. rewrite IH by auto. reflexivity.
  Qed.
  Lemma concat_repeat (v : bool) a : concat (repeat (repeat v bs) a) = repeat v (a * bs).
  Proof. induction a as [| a IH]; simpl; auto. rewrite IH. rewrite repeat_app. reflexivity. Qed.
  Lemma concat_const (v : bool) (w : list (list bool)) : concat (map (fun _ => repeat v bs) w) = repeat v (length w * bs).
  Proof. induction w as [| b w IH]; simpl; auto. rewrite IH. rewrite repeat_app. reflexivity. Qed.
  Lemma wf_repeat (v : bool) a : c11_bv_wf (repeat (repeat v bs) a).
  Proof. unfold c11_bv_wf. rewrite Forall_forall. intros x Hx. apply repeat_spec in Hx. subst. apply repeat_length. Qed.
  Lemma wf_firstn n w : c11_bv_wf w -> c11_bv_wf (firstn n w).
  Proof. unfold c11_bv_wf. revert w; induction n; intros w H; simpl. constructor. destruct w; simpl. constructor. inversion H; subst. constructor; auto. Qed.
  Lemma wf_const (v : bool) (w : list (list bool)) : c11_bv_wf (map (fun _ => repeat v bs) w).
  Proof. unfold c11_bv_wf. rewrite Forall_forall. intros x Hx. apply in_map_iff in Hx. destruct Hx as [y [<- _]]. apply repeat_length. Qed.
  Lemma count_concat w : c11_bitset_count (concat w) = fold_right (fun b acc => c11_bitset_count b + acc) 0 w.
  Proof. unfold c11_bitset_count. induction w as [| b w IH]; simpl; auto. rewrite filter_app, app_length, IH. reflexivity. Qed.
  Lemma pad_length b : length (c11_pad bs b) = bs.
  Proof. unfold c11_pad. rewrite firstn_length, app_length, repeat_length. lia. Qed.
  Lemma shl_length b k : length (c11_bitset_shl b k) = length b.
  Proof. unfold c11_bitset_shl. rewrite firstn_length, app_length, repeat_length. lia. Qed.
  Lemma shr_length b k : length (c11_bitset_shr b k) = length b.
  Proof. unfold c11_bitset_shr. rewrite app_length, skipn_length, repeat_length. lia. Qed.

  Definition Rb (s : c11_bv) (w : c11_bvs_world) : Prop := s = concat w /\ c11_bv_wf w.

  (* replacing block i by a block of the right length *)
  Lemma Rb_block w i b nb (r : c11_res c11_bv) : c11_bv_wf w -> nth_error w i = Some b -> length nb = bs ->
    r = C11_ok (concat (c11_set_nth w i nb)) -> exists s', r = C11_ok s' /\ Rb s' (c11_set_nth w i nb).
  Proof. intros Hwf Hi Hl ->. eexists; split; [reflexivity |]. split; auto. apply wf_set_nth; auto. Qed.

  Lemma bv_step_sim : forall s w o w', Rb s w -> c11_bvs_step bs w o = Some w' ->
    exists s', c11_bv_step bs s o = C11_ok s' /\ Rb s' w'.
  Proof.
    intros s w o w' [-> Hwf] Hs.
    destruct o; cbn [c11_bvs_step c11_bv_step] in *; unfold c11_bvs_upd in *.
    - (* resize *) injection Hs as <-. eexists; split; [reflexivity |]. split.
      + rewrite concat_app, concat_repeat, firstn_concat by auto. rewrite (c11_bv_concat_length w Hwf).
        rewrite Nat.mul_sub_distr_r. reflexivity.
      + unfold c11_bv_wf. apply Forall_app. split. apply wf_firstn; auto. apply wf_repeat.
    - injection Hs as <-. eexists; split; [reflexivity |]. split; auto. constructor.
    - injection Hs as <-. eexists; split; [reflexivity |]. split. rewrite concat_const, (c11_bv_concat_length w Hwf). reflexivity. apply wf_const.
    - injection Hs as <-. eexists; split; [reflexivity |]. split. rewrite concat_const, (c11_bv_concat_length w Hwf). reflexivity. apply wf_const.
    - (* set bit *) destruct (j <? bs) eqn:Ej; [| discriminate]. apply Nat.ltb_lt in Ej.
      destruct (nth_error w i) as [b |] eqn:Ei; [| discriminate]. injection Hs as <-.
      destruct (c11_bitset_addressing_lemma w i j b v Hwf Ei Ej) as (_ & Hset & Hwf'). rewrite Hset. eexists; split; [reflexivity |]. split; auto.
    - (* flip bit *) destruct (j <? bs) eqn:Ej; [| discriminate]. apply Nat.ltb_lt in Ej.
      destruct (nth_error w i) as [b |] eqn:Ei; [| discriminate]. injection Hs as <-.
      destruct (c11_bitset_addressing_lemma w i j b (negb (nth j b false)) Hwf Ei Ej) as (Hget & Hset & Hwf'). rewrite Hget. simpl. rewrite Hset.
      eexists; split; [reflexivity |]. split; auto.
    - (* set block *) destruct (nth_error w i) as [b |] eqn:Ei; [| discriminate]. injection Hs as <-.
      apply (Rb_block w i b); auto. apply repeat_length.
      apply (each_ok w i b (repeat true bs) Hwf Ei (repeat_length _ _)). intros j Hj.
      apply write_const; auto.
    - destruct (nth_error w i) as [b |] eqn:Ei; [| discriminate]. injection Hs as <-.
      apply (Rb_block w i b); auto. apply repeat_length.
      apply (each_ok w i b (repeat false bs) Hwf Ei (repeat_length _ _)). intros j Hj.
      apply write_const; auto.
    - (* flip block *) destruct (nth_error w i) as [b |] eqn:Ei; [| discriminate]. injection Hs as <-.
      pose proof (wf_len w i b Hwf Ei) as Hb.
      apply (Rb_block w i b); auto. rewrite map_length; auto.
      assert (Hl : length (map negb b) = bs) by (rewrite map_length; auto).
      apply (each_ok w i b (map negb b) Hwf Ei Hl). intros j Hj.
      rewrite (read_i w i b (map negb b) Hwf Ei Hl j Hj). simpl.
      replace (negb (nth j b false)) with (nth j (map negb b) false). apply write_step; auto.
      rewrite (nth_indep _ false (negb false)) by lia. apply map_nth.
    - (* assign bool *) destruct (nth_error w i) as [b |] eqn:Ei; [| discriminate]. injection Hs as <-.
      apply (Rb_block w i b); auto. apply repeat_length.
      apply (each_ok w i b (repeat v bs) Hwf Ei (repeat_length _ _)). intros j Hj.
      apply write_const; auto.
    - (* assign bits *) destruct (nth_error w i) as [b0 |] eqn:Ei; [| discriminate]. injection Hs as <-.
      apply (Rb_block w i b0); auto. apply pad_length. apply (assign_ok w i b0); auto. apply pad_length.
    - (* assign block *) destruct (nth_error w k) as [x |] eqn:Ek; [| discriminate].
      destruct (nth_error w i) as [b |] eqn:Ei; [| discriminate]. injection Hs as <-.
      pose proof (wf_len w k x Hwf Ek) as Hx.
      apply (Rb_block w i b); auto.
      apply (each_ok w i b x Hwf Ei Hx). intros j Hj.
      assert (Hr : c11_bv_getBit bs (concat (W w i b x j)) k j = C11_ok (nth j x false)).
      { destruct (Nat.eq_dec k i) as [-> | Hne].
        - rewrite Ei in Ek. injection Ek as <-. apply read_i; auto.
        - apply read_other; auto. }
      rewrite Hr. simpl. apply write_step; auto.
    - (* op with bitset *) destruct (nth_error w i) as [r |] eqn:Ei; [| discriminate]. injection Hs as <-.
      pose proof (wf_len w i r Hwf Ei) as Hr.
      rewrite (repr_ok w i r Hwf Ei). simpl.
      assert (Hl : length (c11_bitset_zip (c11_bv_bfun o) r (c11_pad bs b)) = bs) by (rewrite c11_zip_length, pad_length; lia).
      apply (Rb_block w i r); auto. apply (assign_ok w i r); auto.
    - (* op with block *) destruct (nth_error w k) as [x |] eqn:Ek; [| discriminate].
      destruct (nth_error w i) as [r |] eqn:Ei; [| discriminate]. injection Hs as <-.
      pose proof (wf_len w i r Hwf Ei) as Hr. pose proof (wf_len w k x Hwf Ek) as Hx.
      rewrite (repr_ok w k x Hwf Ek). simpl. rewrite (repr_ok w i r Hwf Ei). simpl.
      assert (Hl : length (c11_bitset_zip (c11_bv_bfun o) r x) = bs) by (rewrite c11_zip_length; lia).
      apply (Rb_block w i r); auto. apply (assign_ok w i r); auto.
    - (* shl *) destruct (nth_error w i) as [r |] eqn:Ei; [| discriminate]. injection Hs as <-.
      pose proof (wf_len w i r Hwf Ei) as Hr. rewrite (repr_ok w i r Hwf Ei). simpl.
      assert (Hl : length (c11_bitset_shl r k) = bs) by (rewrite shl_length; auto).
      apply (Rb_block w i r); auto. apply (assign_ok w i r); auto.
    - (* shr *) destruct (nth_error w i) as [r |] eqn:Ei; [| discriminate]. injection Hs as <-.
      pose proof (wf_len w i r Hwf Ei) as Hr. rewrite (repr_ok w i r Hwf Ei). simpl.
      assert (Hl : length (c11_bitset_shr r k) = bs) by (rewrite shr_length; auto).
      apply (Rb_block w i r); auto. apply (assign_ok w i r); auto.
  Qed.

  (* ------------------------------------------------------------ observation *)
  Hypothesis Hbs : 0 < bs.

  Lemma size_ok w : c11_bv_wf w -> c11_bv_size bs (concat w) = length w.
  Proof. intros Hwf. unfold c11_bv_size. rewrite (c11_bv_concat_length w Hwf). apply Nat.div_mul. lia. Qed.

  Lemma blocks_ok w : c11_bv_wf w -> c11_bv_blocks bs (concat w) = C11_ok w.
  Proof.
    intros Hwf. unfold c11_bv_blocks. rewrite size_ok by auto.
    assert (G : forall k i, i + k = length w -> c11_bv_blocks_loop bs k i (concat w) = C11_ok (skipn i w)).
    { induction k as [| k IH]; intros i Hi; simpl.
      - rewrite skipn_all2 by lia. reflexivity.
      - destruct (nth_error w i) as [b |] eqn:Ei; [| apply nth_error_None in Ei; lia].
        rewrite (repr_ok w i b Hwf Ei). simpl. rewrite IH by lia. simpl. rewrite (c11_skipn_nth w i b Ei). reflexivity. }
    apply (G (length w) 0). lia.
  Qed.

  Lemma countmasked_ok w j : c11_bv_wf w -> j < bs ->
    c11_bv_countmasked bs (concat w) j = C11_ok (length (filter (fun b => nth j b false) w)).
  Proof.
    intros Hwf Hj. unfold c11_bv_countmasked. rewrite size_ok by auto.
    assert (G : forall k i, i + k = length w ->
              c11_bv_countmasked_loop bs k i (concat w) j = C11_ok (length (filter (fun b => nth j b false) (skipn i w)))).
    { induction k as [| k IH]; intros i Hi; simpl.
      - rewrite skipn_all2 by lia. reflexivity.
      - destruct (nth_error w i) as [b |] eqn:Ei; [| apply nth_error_None in Ei; lia].
        destruct (c11_bitset_addressing_lemma w i j b false Hwf Ei Hj) as (Hg & _ & _). rewrite Hg. simpl.
        rewrite IH by lia. simpl. rewrite (c11_skipn_nth w i b Ei). simpl. destruct (nth j b false); reflexivity. }
    apply (G (length w) 0). lia.
  Qed.

  Lemma cms_ok w : c11_bv_wf w -> forall js, (forall j, In j js -> j < bs) ->
    c11_bv_cms bs (concat w) js = C11_ok (map (fun j => length (filter (fun b => nth j b false) w)) js).
  Proof.
    intros Hwf. induction js as [| j js IH]; intros Hjs; simpl; auto.
    rewrite countmasked_ok by (auto; apply Hjs; left; auto). simpl. rewrite IH by (intros; apply Hjs; right; auto). reflexivity.
  Qed.

  Lemma count_cons (x : bool) r : c11_bitset_count (x :: r) = (if x then 1 else 0) + c11_bitset_count r.
  Proof. unfold c11_bitset_count. simpl. destruct x; reflexivity. Qed.
  Lemma any_count (b : list bool) : existsb (fun x => x) b = negb (c11_bitset_count b =? 0).
  Proof. induction b as [| x b IH]. reflexivity. rewrite count_cons. destruct x; simpl; auto. Qed.

  Lemma rqueries_ok w i b : c11_bv_wf w -> nth_error w i = Some b ->
    c11_bv_rqueries bs (concat w) i = C11_ok (c11_bvs_queries w i b).
  Proof.
    intros Hwf Hi. pose proof (wf_len w i b Hwf Hi) as Hb.
    assert (Hlen : i < length w) by (apply nth_error_Some; congruence).
    assert (Gc : forall k j, j + k = bs -> c11_bv_rcount_loop bs k j (concat w) i = C11_ok (c11_bitset_count (skipn j b))).
    { induction k as [| k IH]; intros j Hj; simpl.
      - rewrite skipn_all2 by lia. reflexivity.
      - destruct (c11_bitset_addressing_lemma w i j b false Hwf Hi) as (Hg & _ & _). lia.
        rewrite Hg. simpl. rewrite IH by lia. simpl. rewrite (c11_skipn_nth_d b j false) by lia. rewrite count_cons. reflexivity. }
    assert (Ga : forall k j, j + k = bs -> c11_bv_rall_loop bs k j (concat w) i = C11_ok (forallb (fun x => x) (skipn j b))).
    { induction k as [| k IH]; intros j Hj; simpl.
      - rewrite skipn_all2 by lia. reflexivity.
      - destruct (c11_bitset_addressing_lemma w i j b false Hwf Hi) as (Hg & _ & _). lia.
        rewrite Hg. simpl. rewrite (c11_skipn_nth_d b j false) by lia. simpl. destruct (nth j b false); simpl; auto. apply IH. lia. }
    set (o := S i mod length w).
    assert (Ho : o < length w) by (apply Nat.mod_upper_bound; lia).
    destruct (nth_error w o) as [x |] eqn:Ex; [| apply nth_error_None in Ex; lia].
    pose proof (wf_len w o x Hwf Ex) as Hx.
    assert (Ge : forall k j, j + k = bs -> c11_bv_requals_loop bs k j (concat w) i o = C11_ok (c11_bits_eqb (skipn j b) (skipn j x))).
    { induction k as [| k IH]; intros j Hj; simpl.
      - rewrite !skipn_all2 by lia. reflexivity.
      - destruct (c11_bitset_addressing_lemma w i j b false Hwf Hi) as (Hg & _ & _). lia.
        destruct (c11_bitset_addressing_lemma w o j x false Hwf Ex) as (Hg2 & _ & _). lia.
        rewrite Hg, Hg2. simpl. rewrite IH by lia. simpl.
        rewrite (c11_skipn_nth_d b j false), (c11_skipn_nth_d x j false) by lia. reflexivity. }
    unfold c11_bv_rqueries, c11_bv_rnone, c11_bv_rany, c11_bv_rcount, c11_bv_rall, c11_bv_requals, c11_bv_rnot, c11_bvs_queries.
    rewrite size_ok by auto. fold o.
    rewrite (Gc bs 0) by lia. rewrite (Ga bs 0) by lia. rewrite (Ge bs 0) by lia. rewrite (repr_ok w i b Hwf Hi). simpl.
    rewrite any_count. rewrite (nth_error_nth w o [] Ex). reflexivity.
  Qed.

  Lemma rqueries_loop_ok w : c11_bv_wf w ->
    c11_bv_rqueries_loop bs (length w) 0 (concat w) = C11_ok (c11_bvs_queries_from w 0 w).
  Proof.
    intros Hwf.
    assert (G : forall k i, i + k = length w -> c11_bv_rqueries_loop bs k i (concat w) = C11_ok (c11_bvs_queries_from w i (skipn i w))).
    { induction k as [| k IH]; intros i Hi; simpl.
      - rewrite skipn_all2 by lia. reflexivity.
      - destruct (nth_error w i) as [b |] eqn:Ei; [| apply nth_error_None in Ei; lia].
        rewrite (rqueries_ok w i b Hwf Ei). simpl. rewrite IH by lia. simpl. rewrite (c11_skipn_nth w i b Ei). reflexivity. }
    apply (G (length w) 0). lia.
  Qed.

  Lemma bv_observe_sim : forall s w, Rb s w -> c11_bv_observe bs s = C11_ok (c11_bvs_observe bs w).
  Proof.
    intros s w [-> Hwf]. unfold c11_bv_observe, c11_bvs_observe. rewrite blocks_ok by auto. simpl.
    rewrite cms_ok by (auto; intros j Hj; apply in_seq in Hj; lia). simpl.
    rewrite size_ok by auto. rewrite rqueries_loop_ok by auto. simpl.
    unfold c11_bv_count. rewrite count_concat. reflexivity.
  Qed.

  Theorem c11_bitset_refines_lemma : forall ops tr,
    c11_bvs_run bs [] ops = map Some tr -> c11_bv_run bs [] ops = map C11_ok tr.
  Proof.
    intros ops tr. unfold c11_bvs_run, c11_bv_run.
    apply (c11_sim_run _ _ _ _ _ _ _ _ Rb bv_step_sim bv_observe_sim).
    split; [reflexivity | constructor].
  Qed.
End BVP.

(* ---- dimension audit 2: magnitude of integer arguments *)
From Coq Require Import ZArith.
Lemma c11_firstn_repeat {A} (x : A) : forall n k, n <= k -> firstn n (repeat x k) = repeat x n.
Proof. induction n as [| n IH]; intros k H; [reflexivity |]. destruct k; [lia |]. simpl. f_equal. apply IH. lia. Qed.

(* a shift by ANY count >= the block size (2^31, 2^32, 2^63, SIZE_MAX ...) is the shift by the block size: all bits leave the block *)
Lemma c11_bitset_shift_saturates_lemma : forall (b : list bool) (k : nat), length b <= k ->
  c11_bitset_shl b k = c11_bitset_shl b (length b) /\ c11_bitset_shr b k = c11_bitset_shr b (length b)
  /\ c11_bitset_shl b k = repeat false (length b) /\ c11_bitset_shr b k = repeat false (length b).
Proof.
  intros b k H.
  assert (L : forall j, length b <= j -> c11_bitset_shl b j = repeat false (length b)).
  { intros j Hj. unfold c11_bitset_shl. rewrite firstn_app, repeat_length. replace (length b - j) with 0 by lia. simpl. rewrite app_nil_r.
    apply c11_firstn_repeat. exact Hj. }
  assert (R : forall j, length b <= j -> c11_bitset_shr b j = repeat false (length b)).
  { intros j Hj. unfold c11_bitset_shr. rewrite skipn_all2 by exact Hj. simpl. f_equal. lia. }
  rewrite (L k H), (L (length b) (le_n _)), (R k H), (R (length b) (le_n _)). repeat split.
Qed.

(* "Sets bit n if val is nonzero, and clears bit n if val is zero": every int, not only 0 and 1 *)
Lemma c11_bv_val_to_bool_lemma : forall val : Z, (c11_bv_val_to_bool val = true <-> val <> 0%Z) /\ (c11_bv_val_to_bool val = false <-> val = 0%Z).
Proof.
  intros val. unfold c11_bv_val_to_bool. destruct (Z.eqb val 0) eqn:E; simpl.
  - apply Z.eqb_eq in E. split; split; intros H; try discriminate; try contradiction; auto.
  - apply Z.eqb_neq in E. split; split; intros H; try discriminate; try contradiction; auto.
Qed.
