(* C11 — BitSetVector: the flat vector<bool> addressed through (block, bit) is the list of blocks.
   PARTIAL: only the addressing lemma (getBit / setBit of block i, bit j act on block i alone) is proved; the lifting to
   every operation of the history interpreter (assign / shift / bitwise loops, resize, counts) is NOT proved yet. *)
From Coq Require Import List Arith Bool PeanoNat Lia.
From DuneV Require Import C11_Model C11_Spec C11_Proofs.
Import ListNotations.

Lemma c11_set_nth_app_l {A} (l1 l2 : list A) i x : i < length l1 -> c11_set_nth (l1 ++ l2) i x = c11_set_nth l1 i x ++ l2.
Proof. revert i; induction l1 as [| a l1 IH]; intros [| i] H; simpl in *; try lia; auto. rewrite IH by lia. reflexivity. Qed.
Lemma c11_set_nth_app_r {A} (l1 l2 : list A) i x : c11_set_nth (l1 ++ l2) (length l1 + i) x = l1 ++ c11_set_nth l2 i x.
Proof. induction l1 as [| a l1 IH]; simpl; auto. rewrite IH. reflexivity. Qed.

Section BVP.
  Variable bs : nat.
  Definition c11_bv_wf (w : list (list bool)) : Prop := Forall (fun b => length b = bs) w.

  Lemma c11_bv_concat_length w : c11_bv_wf w -> length (concat w) = length w * bs.
  Proof. induction 1 as [| b w Hb Hw IH]; simpl; auto. rewrite app_length, IH, Hb. reflexivity. Qed.

  Lemma c11_bv_addr_lemma : forall w i j b v, c11_bv_wf w -> nth_error w i = Some b -> j < bs ->
    nth_error (concat w) (i * bs + j) = nth_error b j /\
    i * bs + j < length (concat w) /\
    c11_set_nth (concat w) (i * bs + j) v = concat (c11_set_nth w i (c11_set_nth b j v)).
  Proof.
    induction w as [| b0 w IH]; intros i j b v Hwf Hi Hj.
    - destruct i; discriminate.
    - inversion Hwf as [| ? ? Hb0 Hwf']; subst. destruct i as [| i]; simpl in Hi.
      + injection Hi as ->. simpl. split; [| split].
        * apply nth_error_app1. lia.
        * rewrite app_length. lia.
        * apply c11_set_nth_app_l. lia.
      + destruct (IH i j b v Hwf' Hi Hj) as (H1 & H2 & H3).
        replace (S i * bs + j) with (length b0 + (i * bs + j)) by (simpl; lia). simpl concat.
        split; [| split].
        * rewrite nth_error_app2 by lia. replace (length b0 + (i * bs + j) - length b0) with (i * bs + j) by lia. exact H1.
        * rewrite app_length. lia.
        * rewrite c11_set_nth_app_r. rewrite H3. reflexivity.
  Qed.

  (* reading / writing bit j of block i through the flat vector = reading / writing bit j of the i-th block;
     all other blocks are untouched (c11_set_nth w i _) *)
  Lemma c11_bitset_addressing_lemma : forall w i j b v, c11_bv_wf w -> nth_error w i = Some b -> j < bs ->
    c11_bv_getBit bs (concat w) i j = C11_ok (nth j b false) /\
    c11_bv_setBit bs (concat w) i j v = C11_ok (concat (c11_set_nth w i (c11_set_nth b j v))) /\
    c11_bv_wf (c11_set_nth w i (c11_set_nth b j v)).
  Proof.
    intros w i j b v Hwf Hi Hj. destruct (c11_bv_addr_lemma w i j b v Hwf Hi Hj) as (H1 & H2 & H3).
    assert (Hb : length b = bs). { unfold c11_bv_wf in Hwf. rewrite Forall_forall in Hwf. apply Hwf. eapply nth_error_In; eauto. }
    split; [| split].
    - unfold c11_bv_getBit. rewrite H1. destruct (nth_error b j) as [x |] eqn:E.
      + rewrite (nth_error_nth _ _ false E). reflexivity.
      + apply nth_error_None in E. lia.
    - unfold c11_bv_setBit. apply Nat.ltb_lt in H2. rewrite H2, H3. reflexivity.
    - unfold c11_bv_wf in *. rewrite Forall_forall in *. intros x Hx.
      apply In_nth_error in Hx. destruct Hx as [k Hk].
      destruct (Nat.eq_dec i k) as [<- | Hne].
      + rewrite c11_set_nth_same in Hk by (apply nth_error_Some; congruence). injection Hk as <-. rewrite c11_set_nth_length. auto.
      + rewrite c11_set_nth_other in Hk by auto. apply Hwf. eapply nth_error_In; eauto.
  Qed.
  Lemma c11_bv_wf_dec w : forallb (fun b => length b =? bs) w = true -> c11_bv_wf w.
  Proof. intros H. unfold c11_bv_wf. rewrite Forall_forall. rewrite forallb_forall in H. intros x Hx. apply Nat.eqb_eq. auto. Qed.
End BVP.
