(* C11 — lru: the node-list + key-index model (insert as in fixes/C11-3.patch) refines the recency-ordered association list. *)
From Coq Require Import List Arith Bool PeanoNat Lia.
From DuneV Require Import C11_Model C11_Spec C11_Proofs.
Import ListNotations.

Arguments lru_data {V} _.
Arguments lru_index {V} _.
Arguments lru_next {V} _.

Lemma c11_nodup_map_inj {A B} (f : A -> B) (l : list A) x y : NoDup (map f l) -> In x l -> In y l -> f x = f y -> x = y.
Proof.
  induction l as [| a l IH]; simpl; intros Hnd Hx Hy E; [contradiction |].
  inversion Hnd as [| ? ? Hn Hnd']; subst.
  destruct Hx as [-> | Hx], Hy as [-> | Hy]; auto.
  - exfalso. apply Hn. rewrite E. apply in_map; auto.
  - exfalso. apply Hn. rewrite <- E. apply in_map; auto.
Qed.
Lemma c11_nodup_map_filter {A B} (f : A -> B) (p : A -> bool) (l : list A) : NoDup (map f l) -> NoDup (map f (filter p l)).
Proof.
  induction l as [| a l IH]; simpl; intros H; auto. inversion H as [| ? ? Hn Hnd]; subst.
  destruct (p a); simpl; auto. constructor; auto. intro Hi. apply Hn.
  apply in_map_iff in Hi. destruct Hi as [x [<- Hx]]. apply filter_In in Hx. apply in_map. tauto.
Qed.
Lemma c11_filter_map {A B} (f : A -> B) (p : B -> bool) (l : list A) : filter p (map f l) = map f (filter (fun x => p (f x)) l).
Proof. induction l as [| a l IH]; simpl; auto. destruct (p (f a)); simpl; rewrite IH; auto. Qed.
Lemma c11_filter_id {A} (p : A -> bool) (l : list A) : (forall x, In x l -> p x = true) -> filter p l = l.
Proof. induction l as [| a l IH]; simpl; intros H; auto. rewrite (H a) by auto. f_equal. apply IH. auto. Qed.
Lemma c11_firstn_removelast {A} (l : list A) n : n < length l -> firstn n (removelast l) = firstn n l.
Proof.
  revert n; induction l as [| a l IH]; intros n H; simpl in H; [lia |].
  destruct l as [| b l]; [simpl in H; assert (n = 0) by lia; subst; reflexivity |].
  change (removelast (a :: b :: l)) with (a :: removelast (b :: l)).
  destruct n; auto. simpl firstn at 1 2. f_equal. apply IH. simpl in *. lia.
Qed.

(* target holds keys 1 (other value), 2 and 0 in another order; the source holds 0 and 1 *)
Definition c11_ex_lru_asg_ops : list (c11_lru_op nat) :=
  [LruInsert _ 0 5; LruInsert _ 1 6; LruAssignOnto _ [(1, 60); (2, 70); (0, 50); (1, 61)]; LruTouch _ 2; LruInsert _ 2 8; LruPopBack _; LruTouch _ 0].

Section LRUP.
  Variable V : Type.
  Notation node := (nat * (nat * V))%type.
  Definition idof (e : node) : nat := fst e.
  Definition keyof (e : node) : nat := fst (snd e).

  Definition Iv (s : c11_lru V) (l : list (nat * V)) : Prop :=
    map snd (lru_data s) = l /\
    NoDup (map idof (lru_data s)) /\
    NoDup (map keyof (lru_data s)) /\
    (forall k id, c11_map_find k (lru_index s) = Some id <-> exists v, In (id, (k, v)) (lru_data s)) /\
    (forall e, In e (lru_data s) -> idof e < lru_next s).

  Lemma node_find_in (dl : list node) id kv : c11_node_find V id dl = Some kv -> In (id, kv) dl.
  Proof.
    induction dl as [| [i x] dl IH]; simpl; intros H; [discriminate |].
    destruct (i =? id) eqn:E. apply Nat.eqb_eq in E. injection H as ->. subst. auto. right. auto.
  Qed.
  Lemma in_node_find (dl : list node) id kv : NoDup (map idof dl) -> In (id, kv) dl -> c11_node_find V id dl = Some kv.
  Proof.
    induction dl as [| [i x] dl IH]; simpl; intros Hnd H; [contradiction |].
    inversion Hnd as [| ? ? Hn Hnd']; subst.
    destruct H as [H | H].
    - injection H as -> ->. rewrite Nat.eqb_refl. reflexivity.
    - destruct (i =? id) eqn:E.
      + apply Nat.eqb_eq in E. subst. exfalso. apply Hn. change id with (idof (id, kv)). apply in_map; auto.
      + auto.
  Qed.

  Lemma assoc_in (l : list (nat * V)) k v : NoDup (map fst l) -> In (k, v) l -> c11_assoc V k l = Some v.
  Proof.
    induction l as [| [k' v'] l IH]; simpl; intros Hnd H; [contradiction |].
    inversion Hnd as [| ? ? Hn Hnd']; subst.
    destruct H as [H | H].
    - injection H as -> ->. rewrite Nat.eqb_refl. reflexivity.
    - destruct (k' =? k) eqn:E.
      + apply Nat.eqb_eq in E. subst. exfalso. apply Hn. change k with (fst (k, v)). apply in_map; auto.
      + auto.
  Qed.
  Lemma assoc_none (l : list (nat * V)) k : ~ In k (map fst l) -> c11_assoc V k l = None /\ c11_assoc_remove V k l = l.
  Proof.
    induction l as [| [k' v'] l IH]; simpl; intros Hn; auto.
    destruct (k' =? k) eqn:E. apply Nat.eqb_eq in E. tauto.
    simpl. destruct IH as [H1 H2]. tauto. rewrite H2. auto.
  Qed.

  Lemma keys_map (dl : list node) : map fst (map snd dl) = map keyof dl.
  Proof. rewrite map_map. reflexivity. Qed.

  (* ids and keys of the nodes correspond one to one *)
  Lemma corr (dl : list node) id k v : NoDup (map idof dl) -> NoDup (map keyof dl) -> In (id, (k, v)) dl ->
    forall e, In e dl -> (idof e =? id) = (keyof e =? k).
  Proof.
    intros Hi Hk Hin e He.
    destruct (idof e =? id) eqn:E1; destruct (keyof e =? k) eqn:E2; auto.
    - apply Nat.eqb_eq in E1. apply Nat.eqb_neq in E2. exfalso. apply E2.
      assert (H : e = (id, (k, v))) by (apply (c11_nodup_map_inj idof dl); auto). rewrite H. reflexivity.
    - apply Nat.eqb_neq in E1. apply Nat.eqb_eq in E2. exfalso. apply E1.
      assert (H : e = (id, (k, v))) by (apply (c11_nodup_map_inj keyof dl); auto). rewrite H. reflexivity.
  Qed.

  Lemma I_find s l k id : Iv s l -> c11_map_find k (lru_index s) = Some id ->
    exists v, In (id, (k, v)) (lru_data s) /\ c11_node_find V id (lru_data s) = Some (k, v) /\ c11_assoc V k l = Some v.
  Proof.
    intros (Ha & Hb & Hc & Hd & He) Hf. apply Hd in Hf. destruct Hf as [v Hin]. exists v. split; auto. split.
    - apply in_node_find; auto.
    - subst l. apply assoc_in. rewrite keys_map; auto. change (k, v) with (snd (id, (k, v))). apply in_map; auto.
  Qed.
  Lemma I_find_none s l k : Iv s l -> c11_map_find k (lru_index s) = None -> ~ In k (map fst l).
  Proof.
    intros (Ha & Hb & Hc & Hd & He) Hf Hin. subst l. rewrite keys_map in Hin. apply in_map_iff in Hin.
    destruct Hin as [[id [k' v]] [E Hin]]. unfold keyof in E. simpl in E. subst k'.
    assert (c11_map_find k (lru_index s) = Some id) by (apply Hd; eauto). congruence.
  Qed.

  (* moving the node of key k to the front, possibly with a new value *)
  Lemma move_front s l id k v0 v : Iv s l -> In (id, (k, v0)) (lru_data s) ->
    Iv (C11_mk_lru V ((id, (k, v)) :: c11_node_remove V id (lru_data s)) (lru_index s) (lru_next s)) ((k, v) :: c11_assoc_remove V k l).
  Proof.
    intros (Ha & Hb & Hc & Hd & He) Hin. unfold Iv; cbn [lru_data lru_index lru_next].
    pose proof (corr _ _ _ _ Hb Hc Hin) as Hcorr.
    assert (Hrm : forall e, In e (c11_node_remove V id (lru_data s)) <-> In e (lru_data s) /\ idof e <> id).
    { intros e. unfold c11_node_remove. rewrite filter_In. split; intros [H1 H2]; split; auto.
      apply negb_true_iff in H2. apply Nat.eqb_neq in H2. auto. apply negb_true_iff. apply Nat.eqb_neq. auto. }
    split; [| split; [| split; [| split]]].
    - simpl. f_equal. subst l. unfold c11_assoc_remove, c11_node_remove. rewrite c11_filter_map. f_equal.
      apply filter_ext_in. intros e Hein. simpl. f_equal. apply (Hcorr e Hein).
    - simpl. constructor. 2: apply c11_nodup_map_filter; auto.
      intro Hi. apply in_map_iff in Hi. destruct Hi as [e [E Hein]]. apply Hrm in Hein. unfold idof in *. simpl in *. tauto.
    - simpl. constructor. 2: apply c11_nodup_map_filter; auto.
      intro Hi. apply in_map_iff in Hi. destruct Hi as [e [E Hein]]. apply Hrm in Hein. destruct Hein as [Hein Hne].
      apply Hne. apply Nat.eqb_eq. rewrite (Hcorr e Hein). apply Nat.eqb_eq. exact E.
    - intros k' id'. rewrite Hd. split; intros [v' Hv'].
      + destruct (Nat.eq_dec id' id) as [-> | Hne].
        * assert ((id, (k', v')) = (id, (k, v0))) by (apply (c11_nodup_map_inj idof (lru_data s)); auto).
          injection H as -> ->. exists v. left. reflexivity.
        * exists v'. right. apply Hrm. auto.
      + destruct Hv' as [Hv' | Hv'].
        * injection Hv' as <- <- <-. eauto.
        * apply Hrm in Hv'. exists v'. tauto.
    - intros e [<- | Hein]. apply (He _ Hin). apply Hrm in Hein. apply He. tauto.
  Qed.

  Lemma setval_remove id v (dl : list node) : c11_node_remove V id (c11_node_setval V id v dl) = c11_node_remove V id dl.
  Proof.
    induction dl as [| [i x] dl IH]; simpl; auto.
    destruct (i =? id) eqn:E; simpl; rewrite E; simpl; rewrite IH; reflexivity.
  Qed.
  Lemma setval_find id v k v0 (dl : list node) : c11_node_find V id dl = Some (k, v0) -> c11_node_find V id (c11_node_setval V id v dl) = Some (k, v).
  Proof.
    induction dl as [| [i x] dl IH]; simpl; intros H; [discriminate |].
    destruct (i =? id) eqn:E; simpl; rewrite E; auto. injection H as ->. reflexivity.
  Qed.

  Lemma insert_ok s l k v : Iv s l ->
    exists s', c11_lru_insert V true s k v = C11_ok s' /\ Iv s' ((k, v) :: c11_assoc_remove V k l) /\ c11_lru_front V s' = C11_ok v.
  Proof.
    intros HI. unfold c11_lru_insert. destruct (c11_map_find k (lru_index s)) as [id |] eqn:Ef.
    - destruct (I_find s l k id HI Ef) as (v0 & Hin & Hnf & _).
      unfold c11_splice_front. rewrite (setval_find id v k v0 _ Hnf). rewrite setval_remove. simpl.
      eexists; split; [reflexivity |]. split. eapply move_front; eauto. reflexivity.
    - pose proof (I_find_none s l k HI Ef) as Hnk. destruct (assoc_none l k Hnk) as [_ Hrm]. rewrite Hrm.
      destruct HI as (Ha & Hb & Hc & Hd & He).
      eexists; split; [reflexivity |]. split; [| reflexivity].
      unfold Iv; cbn [lru_data lru_index lru_next]. split; [| split; [| split; [| split]]].
      + simpl. rewrite Ha. reflexivity.
      + simpl. constructor; auto. intro Hi. apply in_map_iff in Hi. destruct Hi as [e [E Hein]]. apply He in Hein. unfold idof in *. simpl in *. lia.
      + simpl. constructor; auto. unfold keyof at 1. simpl. subst l. rewrite keys_map in Hnk. exact Hnk.
      + intros k' id'. unfold c11_map_insert. rewrite Ef. simpl.
        destruct (k =? k') eqn:E.
        * apply Nat.eqb_eq in E. subst k'. split.
          -- intros H. injection H as <-. exists v. auto.
          -- intros [v' [H | H]]. injection H as <- _. reflexivity.
             exfalso. assert (c11_map_find k (lru_index s) = Some id') by (apply Hd; eauto). congruence.
        * rewrite Hd. apply Nat.eqb_neq in E. split; intros [v' H]; exists v'; auto. destruct H as [H | H]; auto. injection H as _ Hk _. congruence.
      + intros e [<- | Hein]. unfold idof; simpl. lia. apply He in Hein. lia.
  Qed.

  Lemma touch_ok s l k : Iv s l ->
    match c11_assoc V k l with
    | Some v => exists s', c11_lru_touch V s k = C11_ok (Some (s', v)) /\ Iv s' ((k, v) :: c11_assoc_remove V k l)
    | None => c11_lru_touch V s k = C11_ok None
    end.
  Proof.
    intros HI. unfold c11_lru_touch. destruct (c11_map_find k (lru_index s)) as [id |] eqn:Ef.
    - destruct (I_find s l k id HI Ef) as (v0 & Hin & Hnf & Has). rewrite Has.
      unfold c11_splice_front. rewrite Hnf. simpl. rewrite Nat.eqb_refl.
      eexists; split; [reflexivity |]. eapply move_front; eauto.
    - pose proof (I_find_none s l k HI Ef) as Hnk. destruct (assoc_none l k Hnk) as [-> _]. reflexivity.
  Qed.

  Lemma find_erase k' k (m : list (nat * nat)) : c11_map_find k' (c11_map_erase k m) = if k' =? k then None else c11_map_find k' m.
  Proof.
    induction m as [| [a b] m IH]; simpl. destruct (k' =? k); auto.
    destruct (a =? k) eqn:E1; simpl.
    - rewrite IH. destruct (k' =? k) eqn:E2; auto. destruct (a =? k') eqn:E3; auto.
      apply Nat.eqb_eq in E1, E3. apply Nat.eqb_neq in E2. congruence.
    - destruct (a =? k') eqn:E3.
      + apply Nat.eqb_eq in E3. subst a. rewrite E1. reflexivity.
      + exact IH.
  Qed.

  (* removing one node and its index entry *)
  Lemma remove_node s d1 id k v d2 : lru_data s = d1 ++ (id, (k, v)) :: d2 -> Iv s (map snd (lru_data s)) ->
    Iv (C11_mk_lru V (d1 ++ d2) (c11_map_erase k (lru_index s)) (lru_next s)) (map snd (d1 ++ d2)).
  Proof.
    intros Ed (Ha & Hb & Hc & Hd & He). unfold Iv; cbn [lru_data lru_index lru_next].
    rewrite Ed in *. rewrite map_app in Hb, Hc. simpl in Hb, Hc.
    split; [| split; [| split; [| split]]]; auto.
    - rewrite map_app. eapply NoDup_remove_1; eauto.
    - rewrite map_app. eapply NoDup_remove_1; eauto.
    - intros k' id'. rewrite find_erase. destruct (k' =? k) eqn:E.
      + apply Nat.eqb_eq in E. subst k'. split; [discriminate |]. intros [v' Hin]. exfalso.
        apply NoDup_remove_2 in Hc. apply Hc. rewrite <- map_app. apply (in_map keyof _ (id', (k, v'))). exact Hin.
      + apply Nat.eqb_neq in E. rewrite Hd. split; intros [v' Hin]; exists v'.
        * apply in_app_or in Hin. apply in_or_app. destruct Hin as [Hin | [Hin | Hin]]; auto. injection Hin as _ Hk _. congruence.
        * apply in_app_or in Hin. apply in_or_app. destruct Hin; auto. right; right; auto.
    - intros e Hin. apply He. apply in_app_or in Hin. apply in_or_app. destruct Hin; auto. right; right; auto.
  Qed.

  Lemma Iv_self s l : Iv s l -> Iv s (map snd (lru_data s)).
  Proof. intros H. pose proof H as (<- & _). exact H. Qed.

  Lemma pop_front_ok s x l : Iv s (x :: l) -> exists s', c11_lru_pop_front V s = C11_ok s' /\ Iv s' l.
  Proof.
    intros HI. pose proof HI as (Ha & _). unfold c11_lru_pop_front.
    destruct (lru_data s) as [| [id [k v]] r] eqn:Ed; [discriminate |]. simpl in Ha. injection Ha as _ <-.
    eexists; split; [reflexivity |]. apply (remove_node s [] id k v r Ed). rewrite Ed. apply Iv_self in HI. rewrite Ed in HI. exact HI.
  Qed.

  Lemma pop_back_ok s l : Iv s l -> l <> [] -> exists s', c11_lru_pop_back V s = C11_ok s' /\ Iv s' (removelast l).
  Proof.
    intros HI Hne. pose proof HI as (Ha & _). unfold c11_lru_pop_back.
    destruct (rev (lru_data s)) as [| [id [k v]] r] eqn:Er.
    - exfalso. apply Hne. rewrite <- Ha. rewrite <- (rev_involutive (lru_data s)), Er. reflexivity.
    - assert (Ed : lru_data s = rev r ++ [(id, (k, v))]) by (rewrite <- (rev_involutive (lru_data s)), Er; reflexivity).
      eexists; split; [reflexivity |].
      pose proof (remove_node s (rev r) id k v [] Ed (Iv_self _ _ HI)) as H. rewrite app_nil_r in H.
      rewrite <- Ha, Ed, map_app. simpl. rewrite removelast_last. exact H.
  Qed.

  Lemma size_ok s l : Iv s l -> c11_lru_size V s = length l.
  Proof. intros (<- & _). unfold c11_lru_size. rewrite map_length. reflexivity. Qed.

  Lemma resize_loop_ok n : forall fuel s l, Iv s l -> n <= length l -> length l - n <= fuel ->
    exists s', c11_lru_resize_loop V fuel n s = C11_ok s' /\ Iv s' (firstn n l).
  Proof.
    induction fuel as [| fuel IH]; intros s l HI Hn Hf.
    - simpl. rewrite (size_ok _ _ HI). assert (n = length l) by lia. subst n. rewrite Nat.ltb_irrefl. rewrite firstn_all. eauto.
    - simpl. rewrite (size_ok _ _ HI). destruct (n <? length l) eqn:E.
      + apply Nat.ltb_lt in E. assert (Hne : l <> []) by (intros ->; simpl in E; lia).
        destruct (pop_back_ok s l HI Hne) as (s1 & Hp & HI1). rewrite Hp. simpl.
        assert (Hl : length (removelast l) = length l - 1).
        { destruct (exists_last Hne) as (l0 & a & ->). rewrite removelast_last, app_length. simpl. lia. }
        destruct (IH s1 (removelast l) HI1) as (s' & Hr & HI'); try lia.
        exists s'. split; auto. rewrite c11_firstn_removelast in HI' by auto. exact HI'.
      + apply Nat.ltb_ge in E. assert (n = length l) by lia. subst n. rewrite firstn_all. eauto.
  Qed.

  Lemma resize_ok s l n : Iv s l -> n <= length l -> exists s', c11_lru_resize V s n = C11_ok s' /\ Iv s' (firstn n l).
  Proof. intros HI Hn. unfold c11_lru_resize. apply resize_loop_ok; auto. rewrite (size_ok _ _ HI). lia. Qed.

  Lemma clear_ok s l : Iv s l -> Iv (c11_lru_clear V s) [].
  Proof.
    intros _. unfold Iv, c11_lru_clear; cbn [lru_data lru_index lru_next]. simpl.
    split; [| split; [| split; [| split]]].
    - reflexivity.
    - constructor.
    - constructor.
    - intros k id. split. discriminate. intros [v []].
    - intros e [].
  Qed.

  (* ---- copy assignment onto a target that already holds entries (rebuildIndex) *)
  Lemma find_insert k' k i (m : list (nat * nat)) :
    c11_map_find k' (c11_map_insert k i m) =
    if k' =? k then match c11_map_find k m with Some x => Some x | None => Some i end else c11_map_find k' m.
  Proof.
    unfold c11_map_insert. destruct (c11_map_find k m) as [x |] eqn:E.
    - destruct (k' =? k) eqn:Ek; auto. apply Nat.eqb_eq in Ek. subst. exact E.
    - simpl. rewrite (Nat.eqb_sym k k'). destruct (k' =? k) eqn:Ek; auto.
  Qed.

  Lemma rebuild_spec : forall (dl : list node) m k id,
    NoDup (map keyof dl) -> (forall e, In e dl -> c11_map_find (keyof e) m = None) ->
    (c11_map_find k (c11_lru_rebuild_loop V dl m) = Some id <-> c11_map_find k m = Some id \/ exists v, In (id, (k, v)) dl).
  Proof.
    induction dl as [| [i0 [k0 v0]] r IH]; intros m k id Hnd Hm; simpl.
    - split; [auto | intros [H | [v []]]; auto].
    - inversion Hnd as [| ? ? Hnin Hnd']; subst.
      assert (Hk0 : c11_map_find k0 m = None) by (apply (Hm (i0, (k0, v0))); left; reflexivity).
      rewrite IH; auto.
      + rewrite find_insert, Hk0. destruct (k =? k0) eqn:Ek.
        * apply Nat.eqb_eq in Ek. subst k0. split.
          -- intros [H | [v Hin]]; [injection H as <-; right; exists v0; left; reflexivity | right; exists v; right; exact Hin].
          -- intros [H | [v [H | Hin]]]; [rewrite Hk0 in H; discriminate | inversion H; subst; left; reflexivity | right; exists v; exact Hin].
        * apply Nat.eqb_neq in Ek. split.
          -- intros [H | [v Hin]]; [left; exact H | right; exists v; right; exact Hin].
          -- intros [H | [v [H | Hin]]]; [left; exact H | inversion H; subst; congruence | right; exists v; exact Hin].
      + intros e He. rewrite find_insert. destruct (keyof e =? k0) eqn:Ek.
        * apply Nat.eqb_eq in Ek. exfalso. apply Hnin. change (keyof (i0, (k0, v0))) with k0. rewrite <- Ek. apply (in_map keyof). exact He.
        * apply Hm. right. exact He.
  Qed.

  (* for EVERY target state t (no invariant assumed of it): after t = s the target shows what s shows *)
  Lemma assign_ok t s l : Iv s l -> Iv (c11_lru_assign V t s) l.
  Proof.
    intros (Ha & Hid & Hk & Hix & Hn). unfold Iv, c11_lru_assign; cbn [lru_data lru_index lru_next].
    split; [exact Ha | split; [exact Hid | split; [exact Hk | split]]].
    - intros k id. unfold c11_map_clear. rewrite rebuild_spec; auto.
      split; [intros [H | H]; [discriminate | exact H] | intros H; right; exact H].
    - intros e He. specialize (Hn e He). lia.
  Qed.

  Lemma fill_ok : forall pre s l, Iv s l -> exists s' l', c11_lru_fill V true s pre = C11_ok s' /\ Iv s' l'.
  Proof.
    induction pre as [| [k v] r IH]; intros s l HI; simpl.
    - exists s, l. split; auto.
    - destruct (insert_ok s l k v HI) as (s' & Hi & HI' & _). rewrite Hi. simpl. eapply IH; eauto.
  Qed.

  Lemma empty_ok : Iv (c11_lru_empty V) [].
  Proof.
    unfold Iv, c11_lru_empty; cbn [lru_data lru_index lru_next]. simpl.
    split; [| split; [| split; [| split]]].
    - reflexivity.
    - constructor.
    - constructor.
    - intros k id. split. discriminate. intros [v []].
    - intros e [].
  Qed.

  Definition Rl (w : c11_lru_world V) (ws : c11_lrus_world V) : Prop := Iv (fst w) (fst ws) /\ snd w = snd ws.

  Lemma lru_step_sim : forall w ws o ws', Rl w ws -> c11_lrus_step V ws o = Some ws' ->
    exists w', c11_lru_step V true w o = C11_ok w' /\ Rl w' ws'.
  Proof.
    intros [s r] [l rs] o ws' [HI Hr] Hs. cbn [fst snd] in *.
    destruct o as [k v | k | | | n | | | pre]; cbn [c11_lrus_step c11_lru_step fst snd] in *.
    - injection Hs as <-. destruct (insert_ok s l k v HI) as (s' & Hi & HI' & Hfr). rewrite Hi. simpl. rewrite Hfr. simpl.
      eexists; split; [reflexivity |]. split; auto.
    - pose proof (touch_ok s l k HI) as Ht. destruct (c11_assoc V k l) as [v |].
      + injection Hs as <-. destruct Ht as (s' & Ht & HI'). rewrite Ht. simpl. eexists; split; [reflexivity |]. split; auto.
      + injection Hs as <-. rewrite Ht. simpl. eexists; split; [reflexivity |]. split; auto.
    - destruct l as [| x l]; [discriminate |]. injection Hs as <-.
      destruct (pop_front_ok s x l HI) as (s' & Hp & HI'). rewrite Hp. simpl. eexists; split; [reflexivity |]. split; auto.
    - destruct l as [| x l]; [discriminate |]. injection Hs as <-.
      destruct (pop_back_ok s (x :: l) HI) as (s' & Hp & HI'). discriminate. rewrite Hp. simpl. eexists; split; [reflexivity |]. split; auto.
    - destruct (n <=? length l) eqn:E; [| discriminate]. apply Nat.leb_le in E. injection Hs as <-.
      destruct (resize_ok s l n HI E) as (s' & Hp & HI'). rewrite Hp. simpl. eexists; split; [reflexivity |]. split; auto.
    - injection Hs as <-. eexists; split; [reflexivity |]. split; auto. simpl. eapply clear_ok; eauto.
    - injection Hs as <-. eexists; split; [reflexivity |]. split; auto.
    - injection Hs as <-. destruct (fill_ok pre (c11_lru_empty V) [] empty_ok) as (t & l' & Hf & _). rewrite Hf. simpl.
      eexists; split; [reflexivity |]. split; auto. simpl. apply assign_ok; auto.
  Qed.

  Lemma finds_ok s l : Iv s l -> forall ks,
    c11_lru_finds V s ks = C11_ok (map (fun k => match c11_assoc V k l with Some v => Some (k, v) | None => None end) ks).
  Proof.
    intros HI. induction ks as [| k ks IH]; simpl; auto.
    unfold c11_lru_find. destruct (c11_map_find k (lru_index s)) as [id |] eqn:Ef.
    - destruct (I_find s l k id HI Ef) as (v & _ & Hnf & Has). rewrite Hnf, Has. simpl. rewrite IH. reflexivity.
    - pose proof (I_find_none s l k HI Ef) as Hnk. destruct (assoc_none l k Hnk) as [-> _]. simpl. rewrite IH. reflexivity.
  Qed.

  Lemma lru_observe_sim nkeys : forall w ws, Rl w ws -> c11_lru_observe V nkeys w = C11_ok (c11_lrus_observe V nkeys ws).
  Proof.
    intros [s r] [l rs] [HI Hr]. cbn [fst snd] in *. subst rs. unfold c11_lru_observe, c11_lrus_observe. cbn [fst snd].
    rewrite (finds_ok s l HI). simpl. pose proof HI as (Ha & _).
    destruct (lru_data s) as [| [id [k v]] dl] eqn:Ed; simpl in Ha; subst l; [reflexivity |].
    unfold c11_lru_front, c11_lru_back, c11_lru_size. rewrite Ed. cbn [c11_bind].
    destruct (rev ((id, (k, v)) :: dl)) as [| [id2 [k2 v2]] r2] eqn:Er.
    - exfalso. assert (length (rev ((id, (k, v)) :: dl)) = 0) by (rewrite Er; reflexivity). rewrite rev_length in H. discriminate.
    - cbn [c11_bind].
      assert (E : (id, (k, v)) :: dl = rev r2 ++ [(id2, (k2, v2))]) by (rewrite <- (rev_involutive ((id, (k, v)) :: dl)), Er; reflexivity).
      assert (Hlast : snd (last ((k, v) :: map snd dl) (0, v)) = v2).
      { change ((k, v) :: map snd dl) with (map snd ((id, (k, v)) :: dl)). rewrite E, map_app. simpl. rewrite last_last. reflexivity. }
      rewrite Hlast. simpl length. rewrite map_length. reflexivity.
  Qed.

  Theorem c11_lru_refines_lemma : forall nkeys ops tr,
    c11_lrus_run V nkeys ([], LruVoid V) ops = map Some tr ->
    c11_lru_run V true nkeys (c11_lru_empty V, LruVoid V) ops = map C11_ok tr.
  Proof.
    intros nkeys ops tr. unfold c11_lrus_run, c11_lru_run.
    apply (c11_sim_run _ _ _ _ _ _ _ _ Rl lru_step_sim (lru_observe_sim nkeys)).
    split; auto. apply empty_ok.
  Qed.

  (* PRE-EXISTING STATE OF THE TARGET: in every reachable state of the source, copy assignment onto ANY target state t (arbitrary
     data, index and node counter - not even the invariant is assumed of t) yields a cache showing exactly the source's observation *)
  Theorem c11_lru_assign_onto_any_target_lemma : forall nkeys ops ws (t : c11_lru V),
    c11_spec_exec (c11_lrus_step V) ([], LruVoid V) ops = Some ws ->
    exists w, c11_exec (c11_lru_step V true) (c11_lru_empty V, LruVoid V) ops = C11_ok w /\
      c11_lru_observe V nkeys (c11_lru_assign V t (fst w), LruVoid V) = C11_ok (c11_lrus_observe V nkeys (fst ws, LruVoid V)).
  Proof.
    intros nkeys ops ws t Hs.
    destruct (c11_sim_exec _ _ _ _ _ Rl lru_step_sim ops (c11_lru_empty V, LruVoid V) ([], LruVoid V) ws) as (w & Hw & HR); auto.
    { split; auto. apply empty_ok. }
    exists w. split; auto. destruct w as [s r], ws as [l rs]. destruct HR as [HI _]. cbn [fst snd] in *.
    apply lru_observe_sim. split; auto. cbn [fst]. apply assign_ok. exact HI.
  Qed.
End LRUP.
