(* C11 — ReservedVector: array + size_ model refines the capacity-bounded vector whose values exposed by a growing
   resize are unspecified. *)
From Coq Require Import List Arith Bool PeanoNat Lia.
From DuneV Require Import C11_Model C11_Spec C11_Proofs.
Import ListNotations.

Arguments rv_arr {T} _.
Arguments rv_size {T} _.

Lemma c11_skipn_nth {A} (l : list A) i x : nth_error l i = Some x -> skipn i l = x :: skipn (S i) l.
Proof. revert i; induction l as [| a l IH]; intros [| i] H; simpl in *; try discriminate. injection H as ->; auto. apply IH; auto. Qed.
Lemma c11_nth_error_removelast {A} (l : list A) i x : nth_error (removelast l) i = Some x -> nth_error l i = Some x.
Proof.
  revert i; induction l as [| a l IH]; intros i H; simpl in *. destruct i; discriminate.
  destruct l as [| b l]. destruct i; discriminate. destruct i; simpl in *; auto.
Qed.
Lemma c11_removelast_length {A} (l : list A) : length (removelast l) = length l - 1.
Proof. induction l as [| a l IH]; simpl; auto. destruct l as [| b l]; simpl in *; auto. rewrite IH. lia. Qed.

Lemma c11_nth_error_last {A} (l : list A) a d : nth_error (a :: l) (length l) = Some (last (a :: l) d).
Proof. revert a; induction l as [| b l IH]; intros a; auto. change (nth_error (b :: l) (length l) = Some (last (b :: l) d)). apply IH. Qed.

Ltac c11_case_if H E := match type of H with (if ?c then _ else _) = _ => destruct c eqn:E; [| discriminate H] end.

Section RVP.
  Variable T : Type.
  Variable d : T.
  Variable teq tlt : T -> T -> bool.
  Variable n : nat.

  Definition Rv (s : c11_rv T) (l : list (option T)) : Prop :=
    length (rv_arr s) = n /\ rv_size s = length l /\ length l <= n /\
    forall i x, nth_error l i = Some (Some x) -> nth_error (rv_arr s) i = Some x.

  Lemma Rv_empty : Rv (c11_rv_empty T d n) [].
  Proof. unfold Rv, c11_rv_empty; simpl. rewrite repeat_length. repeat split; auto; try lia. intros [|i] x H; discriminate. Qed.

  Lemma store_ok (s : c11_rv T) i v : length (rv_arr s) = n -> i < n ->
    c11_rv_store T s i v = C11_ok (C11_mk_rv T (c11_set_nth (rv_arr s) i v) (rv_size s)).
  Proof. intros Hl Hi. unfold c11_rv_store. rewrite Hl. apply Nat.ltb_lt in Hi. rewrite Hi. reflexivity. Qed.

  Lemma load_ok (s : c11_rv T) i : length (rv_arr s) = n -> i < n -> exists x, c11_rv_load T s i = C11_ok x /\ nth_error (rv_arr s) i = Some x.
  Proof.
    intros Hl Hi. unfold c11_rv_load. destruct (nth_error (rv_arr s) i) as [x |] eqn:E; eauto.
    apply nth_error_None in E. lia.
  Qed.

  Lemma fill_loop_ok v : forall k i (s : c11_rv T), length (rv_arr s) = n -> i + k <= n ->
    exists s', c11_rv_fill_loop T k i s v = C11_ok s' /\ length (rv_arr s') = n /\ rv_size s' = rv_size s /\
      (forall j, i <= j < i + k -> nth_error (rv_arr s') j = Some v) /\
      (forall j, ~ (i <= j < i + k) -> nth_error (rv_arr s') j = nth_error (rv_arr s) j).
  Proof.
    induction k as [| k IH]; intros i s Hl Hk; simpl.
    - exists s. repeat split; auto. intros; lia.
    - rewrite store_ok by (auto; lia). simpl.
      destruct (IH (S i) (C11_mk_rv T (c11_set_nth (rv_arr s) i v) (rv_size s))) as (s' & Hf & Hl' & Hs' & Hin & Hout).
      { simpl. rewrite c11_set_nth_length; auto. } { lia. }
      exists s'. split; auto. split; auto. split; auto. split.
      + intros j Hj. destruct (Nat.eq_dec j i) as [-> | Hne].
        * rewrite Hout by lia. simpl. apply c11_set_nth_same. lia.
        * apply Hin. lia.
      + intros j Hj. rewrite Hout by lia. simpl. apply c11_set_nth_other. lia.
  Qed.

  Lemma from_loop_ok : forall l0 fuel i (s : c11_rv T), length (rv_arr s) = n -> i + length l0 <= n -> length l0 < fuel ->
    let s' := c11_rv_from_loop T n fuel i s l0 in
    length (rv_arr s') = n /\ rv_size s' = rv_size s + length l0 /\
    (forall j x, nth_error l0 j = Some x -> nth_error (rv_arr s') (i + j) = Some x) /\
    (forall j, j < i -> nth_error (rv_arr s') j = nth_error (rv_arr s) j).
  Proof.
    induction l0 as [| x l0 IH]; intros fuel i s Hl Hi Hf; simpl.
    - destruct fuel; simpl; repeat split; auto; try lia; intros [|j] y H; discriminate.
    - destruct fuel; [simpl in Hf; lia |]. simpl in *.
      assert (Hin : i < n) by lia. apply Nat.ltb_lt in Hin. rewrite Hin. apply Nat.ltb_lt in Hin.
      destruct (IH fuel (S i) (C11_mk_rv T (c11_set_nth (rv_arr s) i x) (S (rv_size s)))) as (H1 & H2 & H3 & H4).
      { simpl. rewrite c11_set_nth_length; auto. } { lia. } { lia. }
      simpl in *. split; auto. split. lia. split.
      + intros [| j] y Hy; simpl in Hy.
        * injection Hy as <-. rewrite Nat.add_0_r. rewrite H4 by lia. apply c11_set_nth_same. lia.
        * replace (i + S j) with (S i + j) by lia. apply H3; auto.
      + intros j Hj. rewrite H4 by lia. apply c11_set_nth_other. lia.
  Qed.

  (* ---- the operations *)
  Lemma push_ok s l v : Rv s l -> length l < n -> exists s', c11_rv_push_back T s v = C11_ok s' /\ Rv s' (l ++ [Some v]).
  Proof.
    intros (Hl & Hs & Hn & He) Hlt. unfold c11_rv_push_back. rewrite store_ok by (auto; lia). simpl.
    eexists; split; [reflexivity |]. unfold Rv; simpl. rewrite c11_set_nth_length, app_length. simpl.
    repeat split; auto; try lia. intros i x Hi.
    destruct (Nat.eq_dec i (length l)) as [-> | Hne].
    - rewrite c11_nth_error_app_last in Hi. injection Hi as <-. rewrite Hs. apply c11_set_nth_same. lia.
    - assert (i < length l).
      { assert (i < length (l ++ [Some v])) by (apply nth_error_Some; congruence). rewrite app_length in H; simpl in H. lia. }
      rewrite nth_error_app1 in Hi by auto. rewrite c11_set_nth_other by lia. auto.
  Qed.

  Lemma pop_ok s l : Rv s l -> Rv (c11_rv_pop_back T s) (removelast l).
  Proof.
    intros (Hl & Hs & Hn & He). unfold c11_rv_pop_back. destruct (rv_size s =? 0) eqn:E.
    - apply Nat.eqb_eq in E. destruct l; [| simpl in Hs; lia]. simpl. repeat split; auto.
    - unfold Rv; simpl. rewrite c11_removelast_length. repeat split; auto; try lia.
      intros i x Hi. apply He. apply c11_nth_error_removelast; auto.
  Qed.

  Lemma resize_ok s l k : Rv s l -> k <= n -> Rv (c11_rv_resize T s k) (firstn k l ++ repeat None (k - length l)).
  Proof.
    intros (Hl & Hs & Hn & He) Hk. unfold Rv, c11_rv_resize; simpl.
    rewrite app_length, firstn_length, repeat_length.
    repeat split; auto; try lia. intros i x Hi.
    destruct (Nat.lt_ge_cases i (length (firstn k l))) as [Hlt | Hge].
    - rewrite nth_error_app1 in Hi by auto. apply He.
      rewrite <- (firstn_skipn k l). rewrite nth_error_app1 by auto. auto.
    - rewrite nth_error_app2 in Hi by auto. exfalso.
      assert (In (Some x) (repeat None (k - length l))) by (eapply nth_error_In; eauto).
      apply repeat_spec in H. discriminate.
  Qed.

  Lemma set_ok s l j v : Rv s l -> j < length l -> exists s', c11_rv_store T s j v = C11_ok s' /\ Rv s' (c11_set_nth l j (Some v)).
  Proof.
    intros (Hl & Hs & Hn & He) Hj. rewrite store_ok by (auto; lia). eexists; split; [reflexivity |].
    unfold Rv; simpl. rewrite !c11_set_nth_length. repeat split; auto.
    intros i x Hi. destruct (Nat.eq_dec j i) as [-> | Hne].
    - rewrite c11_set_nth_same in Hi by auto. injection Hi as <-. apply c11_set_nth_same. lia.
    - rewrite c11_set_nth_other in Hi by auto. rewrite c11_set_nth_other by auto. auto.
  Qed.

  Lemma fill_ok s l v : Rv s l -> exists s', c11_rv_fill T s v = C11_ok s' /\ Rv s' (map (fun _ => Some v) l).
  Proof.
    intros (Hl & Hs & Hn & He). unfold c11_rv_fill.
    destruct (fill_loop_ok v (rv_size s) 0 s Hl) as (s' & Hf & Hl' & Hs' & Hin & Hout). lia.
    exists s'. split; auto. unfold Rv. rewrite map_length. repeat split; auto; try lia.
    intros i x Hi. assert (i < length l) by (rewrite <- (map_length (fun _ => Some v) l); apply nth_error_Some; congruence).
    rewrite nth_error_map in Hi. destruct (nth_error l i); [| discriminate]. injection Hi as <-. apply Hin. lia.
  Qed.

  Lemma make_ok c v : c <= n -> exists s', c11_rv_make T d n c v = C11_ok s' /\ Rv s' (repeat (Some v) c).
  Proof.
    intros Hc. unfold c11_rv_make.
    destruct (fill_loop_ok v c 0 (C11_mk_rv T (repeat d n) c)) as (s' & Hf & Hl' & Hs' & Hin & Hout).
    simpl; apply repeat_length. lia.
    exists s'. split; auto. unfold Rv. rewrite repeat_length. simpl in Hs'. repeat split; auto.
    intros i x Hi. assert (i < c) by (rewrite <- (repeat_length (Some v) c); apply nth_error_Some; congruence).
    apply nth_error_In in Hi. apply repeat_spec in Hi. injection Hi as ->. apply Hin. lia.
  Qed.

  Lemma from_ok l0 : length l0 <= n -> Rv (c11_rv_from_list T d n l0) (map Some l0).
  Proof.
    intros Hn. unfold c11_rv_from_list.
    destruct (from_loop_ok l0 (S (length l0)) 0 (c11_rv_empty T d n)) as (H1 & H2 & H3 & _).
    simpl; apply repeat_length. simpl; lia. lia.
    unfold Rv. rewrite map_length. simpl in H2. repeat split; auto.
    intros i x Hi. rewrite nth_error_map in Hi. destruct (nth_error l0 i) as [y |] eqn:E; [| discriminate]. injection Hi as ->.
    apply (H3 i x E).
  Qed.

  (* ---- comparison loops *)
  Lemma eq_loop_ok a la b lb : Rv a la -> Rv b lb -> length la = length lb ->
    forall k i r, i + k = length la -> c11_rvs_eq_loop T teq (skipn i la) (skipn i lb) = Some r -> c11_rv_eq_loop T teq k i a b = C11_ok r.
  Proof.
    intros (Hla & Hsa & Hna & Hea) (Hlb & Hsb & Hnb & Heb) Hlen.
    induction k as [| k IH]; intros i r Hi Hs; simpl.
    - rewrite skipn_all2 in Hs by lia. simpl in Hs. congruence.
    - destruct (nth_error la i) as [oa |] eqn:Ea; [| apply nth_error_None in Ea; lia].
      destruct (nth_error lb i) as [ob |] eqn:Eb; [| apply nth_error_None in Eb; lia].
      rewrite (c11_skipn_nth _ _ _ Ea), (c11_skipn_nth _ _ _ Eb) in Hs. simpl in Hs.
      destruct oa as [x |]; [| discriminate]. destruct ob as [y |]; [| discriminate].
      unfold c11_rv_load. rewrite (Hea _ _ Ea), (Heb _ _ Eb). simpl.
      destruct (teq x y). apply IH; auto; lia. congruence.
  Qed.

  Lemma eq_ok a la b lb r : Rv a la -> Rv b lb -> c11_rvs_eq T teq la lb = Some r -> c11_rv_eq T teq a b = C11_ok r.
  Proof.
    intros Ha Hb Hs. pose proof Ha as (_ & Hsa & _). pose proof Hb as (_ & Hsb & _).
    unfold c11_rv_eq, c11_rvs_eq in *. rewrite Hsa, Hsb. destruct (length la =? length lb) eqn:E; simpl in *.
    - apply Nat.eqb_eq in E. eapply eq_loop_ok; eauto.
    - congruence.
  Qed.

  Lemma lt_loop_ok a la b lb : Rv a la -> Rv b lb ->
    forall k i r, i + k = Nat.min (length la) (length lb) -> c11_rvs_lt T tlt (skipn i la) (skipn i lb) = Some r -> c11_rv_lt_loop T tlt k i a b = C11_ok r.
  Proof.
    intros (Hla & Hsa & Hna & Hea) (Hlb & Hsb & Hnb & Heb).
    induction k as [| k IH]; intros i r Hi Hs; simpl.
    - rewrite Hsa, Hsb. rewrite Nat.add_0_r in Hi.
      destruct (Nat.le_ge_cases (length la) (length lb)) as [Hle | Hge].
      + rewrite Nat.min_l in Hi by auto. subst i. rewrite skipn_all in Hs.
        destruct (skipn (length la) lb) as [| ob rb] eqn:Eb.
        * simpl in Hs. injection Hs as <-. assert (length (skipn (length la) lb) = 0) by (rewrite Eb; reflexivity).
          rewrite skipn_length in H. assert (length la = length lb) by lia. f_equal. apply Nat.ltb_ge. lia.
        * simpl in Hs. injection Hs as <-. assert (length (skipn (length la) lb) = S (length rb)) by (rewrite Eb; reflexivity).
          rewrite skipn_length in H. f_equal. apply Nat.ltb_lt. lia.
      + rewrite Nat.min_r in Hi by auto. subst i. rewrite (skipn_all lb) in Hs.
        assert (Hr : r = false) by (destruct (skipn (length lb) la) as [| [x |] ra]; simpl in Hs; congruence).
        subst r. f_equal. apply Nat.ltb_ge. lia.
    - assert (Hia : i < length la) by lia. assert (Hib : i < length lb) by lia.
      destruct (nth_error la i) as [oa |] eqn:Ea; [| apply nth_error_None in Ea; lia].
      destruct (nth_error lb i) as [ob |] eqn:Eb; [| apply nth_error_None in Eb; lia].
      rewrite (c11_skipn_nth _ _ _ Ea), (c11_skipn_nth _ _ _ Eb) in Hs. simpl in Hs.
      destruct oa as [x |]; [| discriminate]. destruct ob as [y |]; [| discriminate].
      unfold c11_rv_load. rewrite (Hea _ _ Ea), (Heb _ _ Eb). simpl.
      destruct (tlt x y). congruence. destruct (tlt y x). congruence. apply IH; auto; lia.
  Qed.

  Lemma lt_ok a la b lb r : Rv a la -> Rv b lb -> c11_rvs_lt T tlt la lb = Some r -> c11_rv_lt T tlt a b = C11_ok r.
  Proof.
    intros Ha Hb Hs. pose proof Ha as (_ & Hsa & _). pose proof Hb as (_ & Hsb & _).
    unfold c11_rv_lt. rewrite Hsa, Hsb. eapply lt_loop_ok; eauto.
  Qed.

  (* ---- observation of one vector *)
  Lemma contents_match s l : Rv s l -> Forall2 c11_vmatch (c11_rv_contents T s) l.
  Proof.
    intros (Hl & Hs & Hn & He). unfold c11_rv_contents. rewrite Hs.
    assert (H : forall k, k <= length l -> length l <= length (rv_arr s) ->
                (forall i x, nth_error l i = Some (Some x) -> nth_error (rv_arr s) i = Some x) ->
                Forall2 c11_vmatch (firstn (length l) (rv_arr s)) l).
    { clear. revert l. generalize (rv_arr s). intros arr l. revert arr. induction l as [| o l IH]; intros arr k _ Hlen H; simpl.
      - constructor.
      - destruct arr as [| a arr]; [simpl in Hlen; lia |]. constructor.
        + intros y ->. specialize (H 0 y eq_refl). simpl in H. congruence.
        + apply (IH arr (length l)); auto. simpl in Hlen; lia. intros i x Hi. apply (H (S i) x Hi). }
    apply (H (length l)); auto. lia.
  Qed.

  Lemma obs1_ok s l : Rv s l -> exists m, c11_rv_obs1 T s = C11_ok m /\ c11_rv_obs1_match T m (c11_rvs_obs1 T l).
  Proof.
    intros HR. pose proof HR as (Hl & Hs & Hn & He). unfold c11_rv_obs1, c11_rvs_obs1. rewrite Hs.
    destruct l as [| o l].
    - simpl. eexists; split; [reflexivity |]. unfold c11_rv_obs1_match; simpl. repeat split; auto.
    - cbn [length Nat.eqb]. unfold c11_rv_front, c11_rv_back. rewrite Hs.
      destruct (load_ok s 0 Hl) as (f & Hf & Hf'). simpl in Hn; lia.
      destruct (load_ok s (length (o :: l) - 1) Hl) as (bk & Hb & Hb'). simpl in *; lia.
      rewrite Hf, Hb. simpl. eexists; split; [reflexivity |]. unfold c11_rv_obs1_match. cbn [fst snd].
      split; [reflexivity |]. split. apply contents_match; auto.
      change (match l with [] => o | _ :: _ => last l None end) with (last (o :: l) None).
      split.
      + intros y ->. specialize (He 0 y eq_refl). congruence.
      + intros y Hy. pose proof (c11_nth_error_last l o None) as Hlast. rewrite Hy in Hlast.
        specialize (He _ _ Hlast). simpl in Hb'. rewrite Nat.sub_0_r in Hb'. congruence.
  Qed.

  Definition Rvw (w : c11_rv_world T) (ws : c11_rvs_world T) : Prop :=
    let '(a, b, r) := w in let '(la, lb, sr) := ws in Rv a la /\ Rv b lb /\ c11_rv_at_match T r sr.

  Lemma rv_step_sim : forall w ws o ws', Rvw w ws -> c11_rvs_step T n ws o = Some ws' ->
    exists w', c11_rv_step T d n w o = C11_ok w' /\ Rvw w' ws'.
  Proof.
    intros [[a b] r] [[la lb] sr] o ws' (Ha & Hb & Hr) Hs.
    assert (Hsel : forall i : bool, Rv (if i then b else a) (if i then lb else la)) by (intros [|]; auto).
    assert (Hput : forall (i : bool) s l, Rv s l -> Rvw (if i then (a, s, None) else (s, b, None)) (if i then (la, l, None) else (l, lb, None))).
    { intros [|] s l H; simpl; auto. }
    destruct o; cbn [c11_rvs_step c11_rv_step] in *.
    - c11_case_if Hs E. apply Nat.ltb_lt in E. injection Hs as <-.
      destruct (push_ok _ _ v (Hsel i) E) as (s' & Hp & HR). rewrite Hp. simpl. eexists; split; [reflexivity |]. apply Hput; auto.
    - injection Hs as <-. eexists; split; [reflexivity |]. apply Hput. apply pop_ok; auto.
    - c11_case_if Hs E. apply Nat.leb_le in E. injection Hs as <-.
      eexists; split; [reflexivity |]. apply Hput. apply resize_ok; auto.
    - injection Hs as <-. eexists; split; [reflexivity |]. apply Hput.
      destruct (Hsel i) as (Hl & _). unfold Rv, c11_rv_clear; simpl. repeat split; auto; try lia. intros [|j] x H; discriminate.
    - c11_case_if Hs E. apply Nat.ltb_lt in E. injection Hs as <-.
      destruct (set_ok _ _ j v (Hsel i) E) as (s' & Hp & HR). rewrite Hp. simpl. eexists; split; [reflexivity |]. apply Hput; auto.
    - injection Hs as <-. destruct (fill_ok _ _ v (Hsel i)) as (s' & Hp & HR). rewrite Hp. simpl. eexists; split; [reflexivity |]. apply Hput; auto.
    - c11_case_if Hs E. apply Nat.leb_le in E. injection Hs as <-.
      destruct (make_ok c v E) as (s' & Hp & HR). rewrite Hp. simpl. eexists; split; [reflexivity |]. apply Hput; auto.
    - c11_case_if Hs E. apply Nat.leb_le in E. injection Hs as <-.
      eexists; split; [reflexivity |]. apply Hput. apply from_ok; auto.
    - injection Hs as <-. eexists; split; [reflexivity |]. simpl. auto.
    - injection Hs as <-. eexists; split; [reflexivity |]. apply Hput. apply Hsel.
    - injection Hs as <-. unfold c11_rv_at.
      assert (Hgen : forall (s : c11_rv T) (l : list (option T)), Rv s l ->
                exists r', (if j <? rv_size s then c11_bind (c11_rv_load T s j) (fun x => C11_ok (Some x)) else C11_ok None) = C11_ok r' /\
                           c11_rv_at_match T (Some r') (Some (nth_error l j))).
      { intros s l (Hl & Hsz & Hn & He). rewrite Hsz. destruct (j <? length l) eqn:E.
        + apply Nat.ltb_lt in E. destruct (load_ok s j Hl) as (x & Hx & Hx'). lia. rewrite Hx. simpl. eexists; split; [reflexivity |].
          destruct (nth_error l j) as [o |] eqn:Eo; [| apply nth_error_None in Eo; lia]. simpl. intros y ->. specialize (He _ _ Eo). congruence.
        + apply Nat.ltb_ge in E. eexists; split; [reflexivity |].
          assert (Hnone : nth_error l j = None) by (apply nth_error_None; lia). rewrite Hnone. exact I. }
      destruct i.
      + destruct (Hgen _ _ Hb) as (r' & Hr' & Hm). rewrite Hr'. simpl. eexists; split; [reflexivity |]. split; [exact Ha | split; [exact Hb | exact Hm]].
      + destruct (Hgen _ _ Ha) as (r' & Hr' & Hm). rewrite Hr'. simpl. eexists; split; [reflexivity |]. split; [exact Ha | split; [exact Hb | exact Hm]].
  Qed.

  Lemma bmatch_ok (r : c11_res bool) (o : option bool) : (forall y, o = Some y -> r = C11_ok y) -> (exists z, r = C11_ok z) ->
    exists z, r = C11_ok z /\ c11_vmatch z o.
  Proof. intros H [z Hz]. exists z. split; auto. intros y Hy. specialize (H y Hy). congruence. Qed.

  Lemma eq_total a la b lb : Rv a la -> Rv b lb -> exists z, c11_rv_eq T teq a b = C11_ok z.
  Proof.
    intros (Hla & Hsa & Hna & _) (Hlb & Hsb & Hnb & _). unfold c11_rv_eq. destruct (negb (rv_size a =? rv_size b)) eqn:E; eauto.
    apply negb_false_iff, Nat.eqb_eq in E.
    assert (H : forall k i, i + k <= n -> exists z, c11_rv_eq_loop T teq k i a b = C11_ok z).
    { induction k as [| k IH]; intros i Hi; simpl; eauto.
      destruct (load_ok a i Hla) as (x & Hx & _). lia. destruct (load_ok b i Hlb) as (y & Hy & _). lia.
      rewrite Hx, Hy. simpl. destruct (teq x y); eauto. apply IH. lia. }
    apply H. lia.
  Qed.
  Lemma lt_total a la b lb : Rv a la -> Rv b lb -> exists z, c11_rv_lt T tlt a b = C11_ok z.
  Proof.
    intros (Hla & Hsa & Hna & _) (Hlb & Hsb & Hnb & _). unfold c11_rv_lt.
    assert (H : forall k i, i + k <= n -> exists z, c11_rv_lt_loop T tlt k i a b = C11_ok z).
    { induction k as [| k IH]; intros i Hi; simpl; eauto.
      destruct (load_ok a i Hla) as (x & Hx & _). lia. destruct (load_ok b i Hlb) as (y & Hy & _). lia.
      rewrite Hx, Hy. simpl. destruct (tlt x y); eauto. destruct (tlt y x); eauto. apply IH. lia. }
    apply H. lia.
  Qed.

  Lemma rv_observe_sim : forall w ws, Rvw w ws -> exists x, c11_rv_observe T teq tlt w = C11_ok x /\ c11_rv_obs_match T x (c11_rvs_observe T teq tlt ws).
  Proof.
    intros [[a b] r] [[la lb] sr] (Ha & Hb & Hr). unfold c11_rv_observe, c11_rvs_observe.
    destruct (obs1_ok a la Ha) as (ma & Hma & Mma). destruct (obs1_ok b lb Hb) as (mb & Hmb & Mmb).
    rewrite Hma, Hmb. simpl.
    destruct (bmatch_ok (c11_rv_eq T teq a b) (c11_rvs_eq T teq la lb)) as (e & He & Me).
    { intros y Hy. eapply eq_ok; eauto. } { eapply eq_total; eauto. }
    destruct (bmatch_ok (c11_rv_lt T tlt a b) (c11_rvs_lt T tlt la lb)) as (l1 & Hl1 & Ml1).
    { intros y Hy. eapply lt_ok; eauto. } { eapply lt_total; eauto. }
    destruct (bmatch_ok (c11_rv_lt T tlt b a) (c11_rvs_lt T tlt lb la)) as (l2 & Hl2 & Ml2).
    { intros y Hy. eapply lt_ok; eauto. } { eapply lt_total; eauto. }
    rewrite He, Hl1, Hl2. simpl. eexists; split; [reflexivity |]. unfold c11_rv_obs_match. auto 10.
  Qed.

  Theorem c11_reserved_refines_lemma : forall ops tr,
    c11_rvs_run T teq tlt n ([], [], None) ops = map Some tr ->
    exists mtr, c11_rv_run T d teq tlt n (c11_rv_empty T d n, c11_rv_empty T d n, None) ops = map C11_ok mtr /\
                Forall2 (c11_rv_obs_match T) mtr tr.
  Proof.
    intros ops tr. unfold c11_rvs_run, c11_rv_run.
    apply (c11_sim_run_match _ _ _ _ _ _ _ _ _ Rvw (c11_rv_obs_match T) rv_step_sim rv_observe_sim).
    simpl. split; [| split]; auto using Rv_empty.
  Qed.
  (* ------------------------------------------------------------ the capacity boundary *)
  Lemma full_push_ub s l v : Rv s l -> length l = n -> c11_rv_push_back T s v = C11_ub.
  Proof.
    intros (Hl & Hs & Hn & He) Hfull. unfold c11_rv_push_back, c11_rv_store. rewrite Hl, Hs, Hfull, Nat.ltb_irrefl. reflexivity.
  Qed.

  Theorem c11_reserved_capacity_lemma : forall ops ws,
    c11_spec_exec (c11_rvs_step T n) ([], [], None) ops = Some ws ->
    exists w, c11_exec (c11_rv_step T d n) (c11_rv_empty T d n, c11_rv_empty T d n, None) ops = C11_ok w /\
      forall (i : bool), let s := (if i then snd (fst w) else fst (fst w)) in let l := (if i then snd (fst ws) else fst (fst ws)) in
        rv_size s = length l /\ rv_size s <= n /\ length (rv_arr s) = n /\
        (forall v, length l < n -> exists s', c11_rv_push_back T s v = C11_ok s' /\ rv_size s' = S (rv_size s)) /\
        (* push_back on an exactly full vector leaves the storage: the precondition size() < n is necessary *)
        (forall v, length l = n -> c11_rv_push_back T s v = C11_ub).
  Proof.
    intros ops ws Hs.
    destruct (c11_sim_exec _ _ _ _ _ Rvw rv_step_sim ops (c11_rv_empty T d n, c11_rv_empty T d n, None) ([], [], None) ws) as (w & Hw & HR); auto.
    { simpl. split; [| split]; auto using Rv_empty. }
    exists w. split; auto. destruct w as [[a b] r], ws as [[la lb] sr]. destruct HR as (Ha & Hb & _). cbn [fst snd].
    assert (G : forall s l, Rv s l -> rv_size s = length l /\ rv_size s <= n /\ length (rv_arr s) = n /\
              (forall v, length l < n -> exists s', c11_rv_push_back T s v = C11_ok s' /\ rv_size s' = S (rv_size s)) /\
              (forall v, length l = n -> c11_rv_push_back T s v = C11_ub)).
    { intros s l HR. pose proof HR as (Hl & Hsz & Hn & He). split; auto. split. lia. split; auto. split.
      - intros v Hlt. destruct (push_ok s l v HR Hlt) as (s' & Hp & (_ & Hs' & _)). exists s'. split; auto.
        rewrite Hs', app_length. simpl. lia.
      - intros v Hf. eapply full_push_ub; eauto. }
    intros [|]; apply G; auto.
  Qed.
  (* ------------------------------------------------------------ derived comparison operators *)
  Lemma rv_observe_sim2 : forall w ws, Rvw w ws ->
    exists x, c11_rv_observe2 T teq tlt w = C11_ok x /\ c11_rv_obs_match2 T x (c11_rvs_observe2 T teq tlt ws).
  Proof.
    intros [[a b] r] [[la lb] sr] HR. destruct (rv_observe_sim _ _ HR) as (x & Hx & Mx). destruct HR as (Ha & Hb & Hr).
    unfold c11_rv_observe2, c11_rvs_observe2. rewrite Hx. cbn [c11_bind].
    destruct (eq_total a la b lb Ha Hb) as [e He]. destruct (lt_total a la b lb Ha Hb) as [l1 Hl1]. destruct (lt_total b lb a la Hb Ha) as [l2 Hl2].
    unfold c11_rv_ne, c11_rv_le, c11_rv_ge, c11_rv_gt. rewrite He, Hl1, Hl2. cbn [c11_bind].
    eexists; split; [reflexivity |]. split; [exact Mx |]. cbn [snd].
    split; [| split; [| split]].
    - intros y Hy. destruct (c11_rvs_eq T teq la lb) as [e' |] eqn:E; [| discriminate]. simpl in Hy. injection Hy as <-.
      rewrite (eq_ok a la b lb e' Ha Hb E) in He. injection He as <-. reflexivity.
    - intros y Hy. rewrite (lt_ok b lb a la y Hb Ha Hy) in Hl2. injection Hl2 as <-. reflexivity.
    - intros y Hy. destruct (c11_rvs_lt T tlt lb la) as [g' |] eqn:E; [| discriminate]. simpl in Hy. injection Hy as <-.
      rewrite (lt_ok b lb a la g' Hb Ha E) in Hl2. injection Hl2 as <-. reflexivity.
    - intros y Hy. destruct (c11_rvs_lt T tlt la lb) as [g' |] eqn:E; [| discriminate]. simpl in Hy. injection Hy as <-.
      rewrite (lt_ok a la b lb g' Ha Hb E) in Hl1. injection Hl1 as <-. reflexivity.
  Qed.

  Theorem c11_reserved_comparisons_lemma : forall ops tr,
    c11_rvs_run2 T teq tlt n ([], [], None) ops = map Some tr ->
    exists mtr, c11_rv_run2 T d teq tlt n (c11_rv_empty T d n, c11_rv_empty T d n, None) ops = map C11_ok mtr /\
                Forall2 (c11_rv_obs_match2 T) mtr tr.
  Proof.
    intros ops tr. unfold c11_rvs_run2, c11_rv_run2.
    apply (c11_sim_run_match _ _ _ _ _ _ _ _ _ Rvw (c11_rv_obs_match2 T) rv_step_sim rv_observe_sim2).
    simpl. split; [| split]; auto using Rv_empty.
  Qed.
End RVP.

(* ---- dimension audit 2: at(i) for EVERY index at or beyond size() (2^31, 2^32, 2^63, SIZE_MAX ...) throws std::out_of_range *)
Lemma c11_reserved_at_beyond_lemma : forall (T : Type) (s : c11_rv T) (i : nat), rv_size s <= i -> c11_rv_at T s i = C11_ok None.
Proof. intros T s i H. unfold c11_rv_at. destruct (i <? rv_size s) eqn:E; [apply Nat.ltb_lt in E; lia | reflexivity]. Qed.
