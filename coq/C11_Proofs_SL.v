(* C11 — SLList: the pointer-level model (heap of nodes, sentinel at address 0, tail_, size_; operator= as in
   fixes/C11-2.patch) refines list T for every history over two lists. *)
From Coq Require Import List Arith Bool PeanoNat Lia.
From DuneV Require Import C11_Model C11_Spec C11_Proofs.
Import ListNotations.

Arguments sl_heap {T} _.
Arguments sl_tail {T} _.
Arguments sl_size {T} _.
Arguments sl_free {T} _.

Lemma c11_last_cons_default {A} (l : list A) b a : last (b :: l) a = last l b.
Proof. revert a b; induction l as [| c l IH]; intros a b; auto. change (last (c :: l) a = last (c :: l) b). rewrite (IH a c), (IH b c). reflexivity. Qed.
Lemma c11_last_app_cons {A} (l1 l2 : list A) x a : last (l1 ++ x :: l2) a = last l2 x.
Proof. revert a; induction l1 as [| c l1 IH]; intros a. apply c11_last_cons_default.
  change (last (c :: (l1 ++ x :: l2)) a = last l2 x). rewrite c11_last_cons_default. apply IH. Qed.
Lemma c11_last_in {A} (l : list A) a : In (last l a) (a :: l).
Proof. revert a; induction l as [| c l IH]; intros a. left; auto. rewrite c11_last_cons_default. right. apply IH. Qed.
Lemma c11_firstn_len_app {A} (l1 l2 : list A) k : length l1 = k -> firstn k (l1 ++ l2) = l1.
Proof. intros <-. rewrite firstn_app, Nat.sub_diag, firstn_all. simpl. apply app_nil_r. Qed.
Lemma c11_skipn_len_app {A} (l1 l2 : list A) k : length l1 = k -> skipn k (l1 ++ l2) = l2.
Proof. intros <-. rewrite skipn_app, Nat.sub_diag, skipn_all. reflexivity. Qed.
Lemma c11_split_at {A} (l : list A) k : k <= length l -> exists l1 l2, l = l1 ++ l2 /\ length l1 = k.
Proof. intros H. exists (firstn k l), (skipn k l). split. symmetry; apply firstn_skipn. apply firstn_length_le; auto. Qed.

Section SLP.
  Variable T : Type.
  Variable d : T.
  Variable teq : T -> T -> bool.
  Notation heap := (c11_heap T).
  Notation upd := (c11_upd T).

  Lemma c11_upd_eq (h : heap) a v : upd h a v a = v.
  Proof. unfold c11_upd. rewrite Nat.eqb_refl. reflexivity. Qed.
  Lemma c11_upd_neq (h : heap) a v b : b <> a -> upd h a v b = h b.
  Proof. intros H. unfold c11_upd. apply Nat.eqb_neq in H. rewrite H. reflexivity. Qed.

  Definition hd_addr (c : list (nat * T)) : option nat := match c with [] => None | (b, _) :: _ => Some b end.

  (* the nodes reachable from node a (whose item is x) are exactly `cells` (address, item), ending in a null next_ *)
  Fixpoint chain (h : heap) (a : nat) (x : T) (cells : list (nat * T)) : Prop :=
    match cells with
    | [] => h a = Some (None, x)
    | (b, y) :: r => h a = Some (Some b, x) /\ chain h b y r
    end.

  Lemma chain_head h a x cells : chain h a x cells -> h a = Some (hd_addr cells, x).
  Proof. destruct cells as [| [b y] r]; simpl; intros H; [auto | apply H]. Qed.

  Lemma chain_ext h h' : (forall a, h a = h' a) -> forall cells a x, chain h a x cells -> chain h' a x cells.
  Proof.
    intros E. induction cells as [| [b y] r IH]; simpl; intros a x H.
    - rewrite <- E; auto.
    - destruct H as [H1 H2]. split. rewrite <- E; auto. apply IH; auto.
  Qed.

  Lemma chain_frame h b v : forall cells a x, chain h a x cells -> ~ In b (a :: map fst cells) -> chain (upd h b v) a x cells.
  Proof.
    induction cells as [| [c y] r IH]; simpl; intros a x H Hn.
    - rewrite c11_upd_neq; auto.
    - destruct H as [H1 H2]. split. rewrite c11_upd_neq; auto. apply IH; auto.
  Qed.

  Lemma chain_split h : forall c1 c2 a x, chain h a x (c1 ++ c2) -> exists xt, h (last (map fst c1) a) = Some (hd_addr c2, xt).
  Proof.
    induction c1 as [| [e w] c1 IH]; intros c2 a x H.
    - simpl. exists x. apply chain_head; auto.
    - simpl in H. destruct H as [_ H]. change (map fst ((e, w) :: c1)) with (e :: map fst c1). rewrite c11_last_cons_default. eapply IH; eauto.
  Qed.

  Lemma chain_insert h n v : forall c1 c2 a x,
    chain h a x (c1 ++ c2) -> NoDup (a :: map fst (c1 ++ c2)) -> ~ In n (a :: map fst (c1 ++ c2)) ->
    exists xt, h (last (map fst c1) a) = Some (hd_addr c2, xt) /\
      chain (upd (upd h (last (map fst c1) a) (Some (Some n, xt))) n (Some (hd_addr c2, v))) a x (c1 ++ (n, v) :: c2).
  Proof.
    induction c1 as [| [e w] c1 IH]; intros c2 a x H Hnd Hn.
    - simpl in *. exists x. split. apply chain_head; auto.
      assert (Han : a <> n) by tauto.
      split. rewrite c11_upd_neq by auto. apply c11_upd_eq.
      destruct c2 as [| [b y] r]; simpl in *.
      + apply c11_upd_eq.
      + destruct H as [H1 H2]. split. apply c11_upd_eq.
        apply chain_frame. apply chain_frame; auto.
        * inversion Hnd; subst. simpl in H3. simpl. tauto.
        * simpl. tauto.
    - simpl in H. destruct H as [H1 H2]. change (map fst ((e, w) :: c1)) with (e :: map fst c1). rewrite c11_last_cons_default.
      simpl in Hnd, Hn. inversion Hnd as [| ? ? Hna Hnd']; subst.
      destruct (IH c2 e w H2 Hnd') as [xt [Ht Hc]]. simpl; tauto.
      exists xt. split; auto. simpl. split; auto.
      assert (Hat : a <> last (map fst c1) e).
      { intro E. apply Hna. rewrite E. pose proof (c11_last_in (map fst c1) e) as Hi. rewrite map_app. simpl in *. destruct Hi; auto. right. apply in_or_app; auto. }
      rewrite c11_upd_neq by tauto. rewrite c11_upd_neq by auto. auto.
  Qed.

  Lemma chain_delete h : forall c1 b y c2 a x,
    chain h a x (c1 ++ (b, y) :: c2) -> NoDup (a :: map fst (c1 ++ (b, y) :: c2)) ->
    exists xt, h (last (map fst c1) a) = Some (Some b, xt) /\ h b = Some (hd_addr c2, y) /\
      chain (upd (upd h (last (map fst c1) a) (Some (hd_addr c2, xt))) b None) a x (c1 ++ c2).
  Proof.
    induction c1 as [| [e w] c1 IH]; intros b y c2 a x H Hnd.
    - simpl in *. destruct H as [H1 H2]. exists x. split; auto. split. apply chain_head; auto.
      inversion Hnd as [| ? ? Hna Hnd']; subst. inversion Hnd' as [| ? ? Hnb Hnd'']; subst. simpl in Hna.
      assert (Hab : a <> b) by (intro; subst; apply Hna; left; reflexivity).
      destruct c2 as [| [c z] r]; simpl in *.
      + rewrite c11_upd_neq by auto. apply c11_upd_eq.
      + destruct H2 as [H2 H3]. split. rewrite c11_upd_neq by auto. apply c11_upd_eq.
        apply chain_frame. apply chain_frame; auto.
        all: simpl; tauto.
    - simpl in H. destruct H as [H1 H2]. change (map fst ((e, w) :: c1)) with (e :: map fst c1). rewrite c11_last_cons_default.
      simpl in Hnd. inversion Hnd as [| ? ? Hna Hnd']; subst.
      destruct (IH b y c2 e w H2 Hnd') as [xt [Ht [Hb Hc]]].
      exists xt. split; auto. split; auto. simpl. split; auto.
      assert (Hat : a <> last (map fst c1) e).
      { intro E. apply Hna. rewrite E. pose proof (c11_last_in (map fst c1) e) as Hi. rewrite map_app. simpl in *. destruct Hi; auto. right. apply in_or_app; auto. }
      assert (Hab : a <> b).
      { intro E. apply Hna. subst a. simpl. right. rewrite map_app. apply in_or_app. right. simpl. auto. }
      rewrite c11_upd_neq by auto. rewrite c11_upd_neq by auto. auto.
  Qed.

  (* ------------------------------------------------------------ invariant *)
  Definition core (s : c11_sl T) (cells : list (nat * T)) : Prop :=
    chain (sl_heap s) 0 d cells /\ NoDup (0 :: map fst cells) /\
    (forall a, In a (0 :: map fst cells) -> a < sl_free s) /\ sl_size s = length cells.
  Definition inv (s : c11_sl T) (cells : list (nat * T)) : Prop := core s cells /\ sl_tail s = last (map fst cells) 0.
  Definition Rsl (s : c11_sl T) (l : list T) : Prop := exists cells, inv s cells /\ map snd cells = l.

  Lemma inv_empty : inv (c11_sl_empty T d) [].
  Proof.
    unfold inv, core, c11_sl_empty; simpl. split; [split; [|split; [|split]] |]; auto.
    - constructor; auto. constructor.
    - intros a [<- | []]. lia.
  Qed.

  Lemma fresh_not_in s cells : core s cells -> ~ In (sl_free s) (0 :: map fst cells).
  Proof. intros (_ & _ & Hb & _) Hi. apply Hb in Hi. lia. Qed.

  Lemma insertAfter_ok s c1 c2 v : inv s (c1 ++ c2) ->
    exists s', c11_sl_insertAfter T s (last (map fst c1) 0) v = C11_ok s' /\ inv s' (c1 ++ (sl_free s, v) :: c2) /\ sl_free s' = S (sl_free s).
  Proof.
    intros [Hcore Htl]. pose proof (fresh_not_in _ _ Hcore) as Hfr. destruct Hcore as (Hch & Hnd & Hb & Hsz).
    destruct (chain_insert _ (sl_free s) v c1 c2 0 d Hch Hnd Hfr) as [xt [Ht Hc]].
    unfold c11_sl_insertAfter. rewrite Ht. eexists; split; [reflexivity |]. split; [| reflexivity].
    unfold inv, core; cbn [sl_heap sl_tail sl_size sl_free].
    split; [split; [|split; [|split]] |].
    - exact Hc.
    - rewrite map_app. simpl. rewrite map_app in Hnd, Hfr.
      apply (NoDup_Add (a := sl_free s) (l := 0 :: map fst c1 ++ map fst c2)).
      + apply (Add_app (sl_free s) (0 :: map fst c1) (map fst c2)).
      + split; auto.
    - intros a Hi. rewrite map_app in Hi. simpl in Hi.
      assert (a = sl_free s \/ In a (0 :: map fst (c1 ++ c2))).
      { rewrite map_app. simpl. destruct Hi as [Hi | Hi]; auto. apply in_app_or in Hi. destruct Hi as [Hi | [Hi | Hi]]; auto.
        right; right; apply in_or_app; auto. right; right; apply in_or_app; auto. }
      destruct H as [-> | H]. lia. apply Hb in H. lia.
    - rewrite app_length in *. simpl. lia.
    - rewrite map_app. simpl. destruct c2 as [| [b y] r]; simpl.
      + rewrite c11_last_app_cons. reflexivity.
      + rewrite Htl. rewrite map_app. simpl. rewrite !c11_last_app_cons. rewrite ?c11_last_cons_default. reflexivity.
  Qed.

  Lemma deleteNext_ok w s c1 b y c2 : core s (c1 ++ (b, y) :: c2) ->
    exists s', c11_sl_deleteNext T w s (last (map fst c1) 0) = C11_ok s' /\ core s' (c1 ++ c2) /\ sl_free s' = sl_free s /\
               sl_tail s' = (if w && (b =? sl_tail s) then last (map fst c1) 0 else sl_tail s).
  Proof.
    intros (Hch & Hnd & Hb & Hsz).
    destruct (chain_delete _ c1 b y c2 0 d Hch Hnd) as [xt [Ht [Hbb Hc]]].
    unfold c11_sl_deleteNext. rewrite Ht, Hbb. eexists; split; [reflexivity |].
    cbn [sl_heap sl_tail sl_size sl_free]. split; [| split; reflexivity].
    unfold core; cbn [sl_heap sl_tail sl_size sl_free]. split; [|split; [|split]].
    - exact Hc.
    - rewrite map_app in *. simpl in Hnd. apply (NoDup_remove_1 (0 :: map fst c1) (map fst c2) b). exact Hnd.
    - intros a Hi. apply Hb. rewrite map_app in *. simpl in *. destruct Hi as [Hi | Hi]; auto. right.
      apply in_app_or in Hi. apply in_or_app. destruct Hi; auto. right; right; auto.
    - rewrite app_length in *. simpl in *. lia.
  Qed.

  Lemma deleteNext_inv s c1 b y c2 : inv s (c1 ++ (b, y) :: c2) ->
    exists s', c11_sl_deleteNext T true s (last (map fst c1) 0) = C11_ok s' /\ inv s' (c1 ++ c2) /\ sl_free s' = sl_free s.
  Proof.
    intros [Hcore Htl]. destruct (deleteNext_ok true s c1 b y c2 Hcore) as (s' & Hd & Hc' & Hf & Ht').
    exists s'. split; auto. split; auto. split; auto.
    rewrite Ht', Htl. rewrite map_app. cbn [map fst]. rewrite c11_last_app_cons. cbn [andb].
    destruct c2 as [| [c z] r].
    - cbn [map last]. rewrite Nat.eqb_refl. rewrite app_nil_r. reflexivity.
    - cbn [map fst]. rewrite c11_last_cons_default.
      destruct Hcore as (_ & Hnd & _). rewrite map_app in Hnd. cbn [map fst] in Hnd.
      assert (Hne : b <> last (map fst r) c).
      { intro E. change (NoDup ((0 :: map fst c1) ++ b :: c :: map fst r)) in Hnd. apply NoDup_remove_2 in Hnd. apply Hnd.
        apply in_or_app. right. rewrite E. apply c11_last_in. }
      apply Nat.eqb_neq in Hne. rewrite Hne. rewrite map_app. cbn [map fst]. rewrite c11_last_app_cons. reflexivity.
  Qed.

  (* ------------------------------------------------------------ the member functions *)
  Lemma push_back_ok s cells v : inv s cells ->
    exists s', c11_sl_push_back T s v = C11_ok s' /\ inv s' (cells ++ [(sl_free s, v)]).
  Proof.
    intros Hinv. pose proof Hinv as [Hcore Htl].
    rewrite <- (app_nil_r cells) in Hinv.
    destruct (insertAfter_ok s cells [] v Hinv) as (s' & Hi & Hinv' & _).
    exists s'. split; auto.
    destruct Hcore as (Hch & _). rewrite <- (app_nil_r cells) in Hch. destruct (chain_split _ _ _ _ _ Hch) as [xt Ht].
    rewrite <- Htl in *. unfold c11_sl_push_back. unfold c11_sl_insertAfter in Hi. rewrite Ht in *. simpl in *. exact Hi.
  Qed.

  Lemma inv_ext s s' cells : (forall a, sl_heap s a = sl_heap s' a) -> sl_tail s = sl_tail s' -> sl_size s = sl_size s' -> sl_free s = sl_free s' ->
    inv s cells -> inv s' cells.
  Proof.
    intros Eh Et Es Ef [(Hch & Hnd & Hb & Hsz) Htl]. unfold inv, core. rewrite <- Et, <- Es, <- Ef.
    split; [split; [|split; [|split]] |]; auto. eapply chain_ext; eauto.
  Qed.

  Lemma push_front_ok s cells v : inv s cells ->
    exists s', c11_sl_push_front T s v = C11_ok s' /\ inv s' ((sl_free s, v) :: cells).
  Proof.
    intros Hinv. pose proof Hinv as [Hcore Htl]. pose proof (fresh_not_in _ _ Hcore) as Hfr.
    destruct (insertAfter_ok s [] cells v Hinv) as (s' & Hi & Hinv' & _).
    destruct Hcore as (Hch & Hnd & _). pose proof (chain_head _ _ _ _ Hch) as H0.
    unfold c11_sl_push_front. unfold c11_sl_insertAfter in Hi. simpl in Hi. rewrite H0 in *.
    destruct (sl_tail s =? 0) eqn:E0.
    - (* empty list *)
      apply Nat.eqb_eq in E0. assert (cells = []) as ->.
      { destruct cells as [| [b y] r]; auto. exfalso. cbn [map fst] in Htl. rewrite c11_last_cons_default in Htl.
        inversion Hnd as [| ? ? Hn0 Hnd0]; subst. apply Hn0. rewrite <- E0, Htl. apply c11_last_in. }
      simpl in *. eexists; split; [reflexivity |]. injection Hi as <-. exact Hinv'.
    - eexists; split; [reflexivity |]. injection Hi as <-.
      assert (Hc : cells <> []) by (intros ->; simpl in Htl; rewrite Htl in E0; discriminate).
      destruct cells as [| [b y] r]; [congruence |]. simpl in *.
      eapply inv_ext; [| | | | exact Hinv']; auto.
      intros a. cbn [sl_heap]. unfold c11_upd.
      destruct (a =? sl_free s) eqn:E1; destruct (a =? 0) eqn:E2; auto.
      apply Nat.eqb_eq in E1, E2. exfalso. apply Hfr. left. lia.
  Qed.

  Lemma pop_front_ok s b y cells : inv s ((b, y) :: cells) ->
    exists s', c11_sl_pop_front T s = C11_ok s' /\ inv s' cells.
  Proof. intros H. destruct (deleteNext_inv s [] b y cells H) as (s' & Hd & Hi & _). exists s'. auto. Qed.

  Lemma length_le_free s cells : core s cells -> length cells < sl_free s.
  Proof.
    intros (_ & Hnd & Hb & _).
    assert (H : length (0 :: map fst cells) <= length (seq 0 (sl_free s))).
    { apply NoDup_incl_length; auto. intros a Hi. apply in_seq. apply Hb in Hi. lia. }
    simpl in H. rewrite map_length, seq_length in H. lia.
  Qed.

  Lemma clear_loop_ok : forall cells fuel s, core s cells -> length cells <= fuel ->
    exists s', c11_sl_clear_loop T fuel s = C11_ok s' /\ core s' [] /\ sl_free s' = sl_free s.
  Proof.
    induction cells as [| [b y] r IH]; intros fuel s Hc Hf.
    - pose proof Hc as (Hch & _). simpl in Hch. destruct fuel; simpl; rewrite Hch; eauto.
    - pose proof Hc as (Hch & _). simpl in Hch. destruct Hch as [H0 _].
      destruct fuel; [simpl in Hf; lia |]. simpl. rewrite H0.
      destruct (deleteNext_ok false s [] b y r Hc) as (s1 & Hd & Hc1 & Hf1 & _). simpl in Hd. rewrite Hd. simpl.
      destruct (IH fuel s1 Hc1) as (s' & Hl & Hc' & Hf'). simpl in Hf; lia.
      exists s'. split; auto. split; auto. congruence.
  Qed.

  Lemma clear_ok s cells : inv s cells -> exists s', c11_sl_clear T s = C11_ok s' /\ inv s' [].
  Proof.
    intros [Hc _]. pose proof (length_le_free _ _ Hc).
    destruct (clear_loop_ok cells (sl_free s) s Hc) as (s' & Hl & Hc' & Hf). lia.
    unfold c11_sl_clear. rewrite Hl. simpl. eexists; split; [reflexivity |].
    destruct Hc' as (Hch & Hnd & Hb & Hsz). unfold inv, core; cbn [sl_heap sl_tail sl_size sl_free]. auto.
  Qed.

  Lemma walk_ok (s : c11_sl T) : forall cells fuel a x, chain (sl_heap s) a x cells -> length cells <= fuel ->
    c11_sl_walk T fuel s (hd_addr cells) = C11_ok (map snd cells).
  Proof.
    induction cells as [| [b y] r IH]; intros fuel a x H Hf; simpl.
    - destruct fuel; reflexivity.
    - destruct fuel; [simpl in Hf; lia |]. simpl in *. destruct H as [_ H]. rewrite (chain_head _ _ _ _ H).
      rewrite (IH fuel b y H) by lia. reflexivity.
  Qed.

  Lemma contents_ok s l : Rsl s l -> c11_sl_contents T s = C11_ok l.
  Proof.
    intros (cells & [Hc _] & <-). pose proof (length_le_free _ _ Hc). destruct Hc as (Hch & _).
    unfold c11_sl_contents, c11_sl_next. rewrite (chain_head _ _ _ _ Hch). simpl. eapply walk_ok; eauto. lia.
  Qed.

  Lemma push_all_ok : forall l s l0, Rsl s l0 -> exists s', c11_sl_push_all T s l = C11_ok s' /\ Rsl s' (l0 ++ l).
  Proof.
    induction l as [| x l IH]; intros s l0 H; simpl.
    - exists s. rewrite app_nil_r. auto.
    - destruct H as (cells & Hi & <-). destruct (push_back_ok s cells x Hi) as (s1 & Hp & Hi1). rewrite Hp. simpl.
      destruct (IH s1 (map snd cells ++ [x])) as (s' & Hp' & HR).
      { eexists; split; eauto. rewrite map_app. reflexivity. }
      exists s'. split; auto. rewrite <- app_assoc in HR. exact HR.
  Qed.

  Lemma R_empty : Rsl (c11_sl_empty T d) [].
  Proof. exists []. split; auto. apply inv_empty. Qed.

  Lemma assign_ok s l other lo : Rsl s l -> Rsl other lo -> exists s', c11_sl_assign T s other = C11_ok s' /\ Rsl s' lo.
  Proof.
    intros (cells & Hi & _) Ho. destruct (clear_ok s cells Hi) as (s1 & Hc & Hi1).
    unfold c11_sl_assign. rewrite Hc. simpl. rewrite (contents_ok _ _ Ho). simpl.
    destruct (push_all_ok lo s1 []) as (s' & Hp & HR). exists []; auto. exists s'. auto.
  Qed.

  Lemma copy_ok other lo : Rsl other lo -> exists s', c11_sl_copy T d other = C11_ok s' /\ Rsl s' lo.
  Proof.
    intros Ho. unfold c11_sl_copy. rewrite (contents_ok _ _ Ho). simpl.
    destruct (push_all_ok lo (c11_sl_empty T d) [] R_empty) as (s' & Hp & HR). exists s'. auto.
  Qed.

  (* navigation *)
  Lemma iter_at_ok (s : c11_sl T) : forall c1 b y c2 a x, chain (sl_heap s) a x (c1 ++ (b, y) :: c2) ->
    c11_sl_iter_at T (length c1) s (hd_addr (c1 ++ (b, y) :: c2)) = C11_ok b.
  Proof.
    induction c1 as [| [e w] c1 IH]; intros b y c2 a x H; simpl in *.
    - reflexivity.
    - destruct H as [_ H]. unfold c11_sl_next. rewrite (chain_head _ _ _ _ H). simpl. eapply IH; eauto.
  Qed.

  Lemma mnext_ok (s : c11_sl T) c1 b y c2 : chain (sl_heap s) 0 d (c1 ++ (b, y) :: c2) ->
    c11_sl_mnext T s (last (map fst c1) 0, Some b) = C11_ok (b, hd_addr c2).
  Proof.
    intros H. unfold c11_sl_mnext, c11_sl_next. cbn [fst snd].
    destruct (chain_split _ _ _ _ _ H) as [xt Ht].
    replace (c1 ++ (b, y) :: c2) with ((c1 ++ [(b, y)]) ++ c2) in H by (rewrite <- app_assoc; reflexivity).
    destruct (chain_split _ _ _ _ _ H) as [xb Hb]. rewrite map_app in Hb. simpl in Hb. rewrite c11_last_app_cons in Hb. simpl in Hb.
    rewrite Hb. simpl. rewrite Ht. simpl. reflexivity.
  Qed.

  Lemma madvance_ok' (s : c11_sl T) : forall c2 c1 c3, chain (sl_heap s) 0 d (c1 ++ c2 ++ c3) ->
    c11_sl_madvance T (length c2) s (last (map fst c1) 0, hd_addr (c2 ++ c3)) = C11_ok (last (map fst (c1 ++ c2)) 0, hd_addr c3).
  Proof.
    induction c2 as [| [b y] c2 IH]; intros c1 c3 H; simpl.
    - rewrite app_nil_r. reflexivity.
    - simpl in H. rewrite (mnext_ok s c1 b y (c2 ++ c3) H). simpl.
      replace (c1 ++ (b, y) :: c2) with ((c1 ++ [(b, y)]) ++ c2) by (rewrite <- app_assoc; reflexivity).
      rewrite <- (IH (c1 ++ [(b, y)]) c3).
      + rewrite map_app. simpl. rewrite c11_last_app_cons. reflexivity.
      + rewrite <- app_assoc. exact H.
  Qed.

  Lemma R_intro s cells l : inv s cells -> map snd cells = l -> Rsl s l.
  Proof. intros; exists cells; auto. Qed.

  (* one operation on one list *)
  Lemma mins_ok s l k v : Rsl s l -> k <= length l ->
    exists s', c11_bind (c11_sl_mbegin T s) (fun c => c11_bind (c11_sl_madvance T k s c) (fun c' =>
               c11_bind (c11_sl_minsert T s c' v) (fun r => C11_ok (fst r)))) = C11_ok s' /\ Rsl s' (firstn k l ++ v :: skipn k l).
  Proof.
    intros (cells & Hi & <-) Hk. rewrite map_length in Hk.
    destruct (c11_split_at cells k Hk) as (c1 & c2 & -> & Hl1).
    pose proof Hi as [(Hch & _) _].
    unfold c11_sl_mbegin, c11_sl_next. rewrite (chain_head _ _ _ _ Hch). simpl.
    pose proof (madvance_ok' s c1 [] c2) as Hm. simpl in Hm. rewrite Hl1 in Hm. rewrite Hm by exact Hch. simpl.
    unfold c11_sl_minsert. cbn [fst snd].
    destruct (insertAfter_ok s c1 c2 v Hi) as (s' & Hins & Hi' & _). rewrite Hins. simpl.
    pose proof Hi' as [(Hch' & _) _].
    replace (c1 ++ (sl_free s, v) :: c2) with (c1 ++ [(sl_free s, v)] ++ c2) in Hch' by reflexivity.
    destruct (chain_split _ _ _ _ _ Hch') as [xt Ht]. unfold c11_sl_next. rewrite Ht. simpl.
    eexists; split; [reflexivity |]. eapply R_intro; eauto.
    rewrite !map_app. cbn [map snd]. rewrite c11_firstn_len_app, c11_skipn_len_app by (rewrite map_length; auto). reflexivity.
  Qed.

  Lemma mrem_ok s l k : Rsl s l -> k < length l ->
    exists s', c11_bind (c11_sl_mbegin T s) (fun c => c11_bind (c11_sl_madvance T k s c) (fun c' =>
               c11_bind (c11_sl_mremove T s c') (fun r => C11_ok (fst r)))) = C11_ok s' /\ Rsl s' (firstn k l ++ skipn (S k) l).
  Proof.
    intros (cells & Hi & <-) Hk. rewrite map_length in Hk.
    destruct (c11_split_at cells k (Nat.lt_le_incl _ _ Hk)) as (c1 & c2 & -> & Hl1).
    destruct c2 as [| [b y] c2]; [rewrite app_length in Hk; simpl in Hk; lia |].
    assert (Hspec : firstn k (map snd (c1 ++ (b, y) :: c2)) ++ skipn (S k) (map snd (c1 ++ (b, y) :: c2)) = map snd (c1 ++ c2)).
    { rewrite !map_app. cbn [map snd]. rewrite c11_firstn_len_app by (rewrite map_length; auto).
      replace (S k) with (length (map snd c1 ++ [y])) by (rewrite app_length, map_length; simpl; lia).
      replace (map snd c1 ++ y :: map snd c2) with ((map snd c1 ++ [y]) ++ map snd c2) by (rewrite <- app_assoc; reflexivity).
      rewrite c11_skipn_len_app by reflexivity. reflexivity. }
    rewrite Hspec. clear Hspec.
    pose proof Hi as [(Hch & _) _].
    unfold c11_sl_mbegin, c11_sl_next. rewrite (chain_head _ _ _ _ Hch). simpl.
    pose proof (madvance_ok' s c1 [] ((b, y) :: c2)) as Hm. simpl in Hm. rewrite Hl1 in Hm. rewrite Hm by exact Hch. simpl.
    unfold c11_sl_mremove. cbn [fst snd].
    replace (c1 ++ (b, y) :: c2) with ((c1 ++ [(b, y)]) ++ c2) in Hch by (rewrite <- app_assoc; reflexivity).
    destruct (chain_split _ _ _ _ _ Hch) as [xb Hb]. rewrite map_app in Hb. simpl in Hb. rewrite c11_last_app_cons in Hb. simpl in Hb.
    unfold c11_sl_next. rewrite Hb. simpl.
    destruct (deleteNext_inv s c1 b y c2 Hi) as (s' & Hd & Hi' & _). rewrite Hd. simpl.
    eexists; split; [reflexivity |]. eapply R_intro; eauto.
  Qed.

  Lemma mend_ok s l v : Rsl s l ->
    exists s', c11_bind (c11_sl_minsert T s (c11_sl_mend T s) v) (fun r => C11_ok (fst r)) = C11_ok s' /\ Rsl s' (l ++ [v]).
  Proof.
    intros (cells & Hi & <-). pose proof Hi as [_ Htl].
    unfold c11_sl_mend, c11_sl_minsert. cbn [fst snd]. rewrite Htl.
    rewrite <- (app_nil_r cells) in Hi.
    destruct (insertAfter_ok s cells [] v Hi) as (s' & Hins & Hi' & _). rewrite Hins. simpl.
    pose proof Hi' as [(Hch' & _) _].
    replace (cells ++ [(sl_free s, v)]) with (cells ++ [(sl_free s, v)] ++ []) in Hch' by reflexivity.
    destruct (chain_split _ _ _ _ _ Hch') as [xt Ht]. unfold c11_sl_next. rewrite Ht. simpl.
    eexists; split; [reflexivity |]. eapply R_intro; eauto. rewrite map_app. reflexivity.
  Qed.

  Lemma iaft_ok s l k v : Rsl s l -> k < length l ->
    exists s', c11_bind (c11_sl_next T s 0) (fun b => c11_bind (c11_sl_iter_at T k s b) (fun a => c11_sl_insertAfter T s a v)) = C11_ok s'
               /\ Rsl s' (firstn (S k) l ++ v :: skipn (S k) l).
  Proof.
    intros (cells & Hi & <-) Hk. rewrite map_length in Hk.
    destruct (c11_split_at cells k (Nat.lt_le_incl _ _ Hk)) as (c1 & c2 & -> & Hl1).
    destruct c2 as [| [b y] c2]; [rewrite app_length in Hk; simpl in Hk; lia |].
    assert (Hspec : firstn (S k) (map snd (c1 ++ (b, y) :: c2)) ++ v :: skipn (S k) (map snd (c1 ++ (b, y) :: c2))
                    = map snd ((c1 ++ [(b, y)]) ++ (sl_free s, v) :: c2)).
    { rewrite !map_app. cbn [map snd].
      replace (map snd c1 ++ y :: map snd c2) with ((map snd c1 ++ [y]) ++ map snd c2) by (rewrite <- app_assoc; reflexivity).
      rewrite c11_firstn_len_app, c11_skipn_len_app by (rewrite app_length, map_length; simpl; lia). reflexivity. }
    rewrite Hspec. clear Hspec.
    pose proof Hi as [(Hch & _) _].
    unfold c11_sl_next at 1. rewrite (chain_head _ _ _ _ Hch). simpl.
    rewrite <- Hl1. rewrite (iter_at_ok s c1 b y c2 0 d Hch). simpl.
    replace (c1 ++ (b, y) :: c2) with ((c1 ++ [(b, y)]) ++ c2) in Hi by (rewrite <- app_assoc; reflexivity).
    destruct (insertAfter_ok s (c1 ++ [(b, y)]) c2 v Hi) as (s' & Hins & Hi' & _).
    rewrite map_app in Hins. simpl in Hins. rewrite c11_last_app_cons in Hins. simpl in Hins. rewrite Hins.
    eexists; split; [reflexivity |]. eapply R_intro; eauto.
  Qed.

  Lemma idel_ok s l k : Rsl s l -> S k < length l ->
    exists s', c11_bind (c11_sl_next T s 0) (fun b => c11_bind (c11_sl_iter_at T k s b) (fun a => c11_sl_deleteNext T true s a)) = C11_ok s'
               /\ Rsl s' (firstn (S k) l ++ skipn (S (S k)) l).
  Proof.
    intros (cells & Hi & <-) Hk. rewrite map_length in Hk.
    assert (Hk' : k <= length cells) by lia.
    destruct (c11_split_at cells k Hk') as (c1 & c2 & -> & Hl1).
    destruct c2 as [| [b y] c2]; [rewrite app_length in Hk; simpl in Hk; lia |].
    destruct c2 as [| [e z] c2]; [rewrite app_length in Hk; simpl in Hk; lia |].
    assert (Hspec : firstn (S k) (map snd (c1 ++ (b, y) :: (e, z) :: c2)) ++ skipn (S (S k)) (map snd (c1 ++ (b, y) :: (e, z) :: c2))
                    = map snd ((c1 ++ [(b, y)]) ++ c2)).
    { rewrite !map_app. cbn [map snd].
      replace (map snd c1 ++ y :: z :: map snd c2) with ((map snd c1 ++ [y]) ++ z :: map snd c2) by (rewrite <- app_assoc; reflexivity).
      rewrite c11_firstn_len_app by (rewrite app_length, map_length; simpl; lia).
      replace (S (S k)) with (length ((map snd c1 ++ [y]) ++ [z])) by (rewrite !app_length, map_length; simpl; lia).
      replace ((map snd c1 ++ [y]) ++ z :: map snd c2) with (((map snd c1 ++ [y]) ++ [z]) ++ map snd c2) by (rewrite <- !app_assoc; reflexivity).
      rewrite c11_skipn_len_app by reflexivity. reflexivity. }
    rewrite Hspec. clear Hspec.
    pose proof Hi as [(Hch & _) _].
    unfold c11_sl_next at 1. rewrite (chain_head _ _ _ _ Hch). simpl.
    rewrite <- Hl1. rewrite (iter_at_ok s c1 b y ((e, z) :: c2) 0 d Hch). simpl.
    replace (c1 ++ (b, y) :: (e, z) :: c2) with ((c1 ++ [(b, y)]) ++ (e, z) :: c2) in Hi by (rewrite <- app_assoc; reflexivity).
    destruct (deleteNext_inv s (c1 ++ [(b, y)]) e z c2 Hi) as (s' & Hd & Hi' & _).
    rewrite map_app in Hd. simpl in Hd. rewrite c11_last_app_cons in Hd. simpl in Hd. rewrite Hd.
    eexists; split; [reflexivity |]. eapply R_intro; eauto.
  Qed.

  (* ------------------------------------------------------------ comparison *)
  Lemma list_eqb_length : forall a b, c11_list_eqb T teq a b = true -> length a = length b.
  Proof. induction a as [| x a IH]; intros [| y b] H; simpl in *; try discriminate; auto. apply andb_true_iff in H. f_equal. apply IH. tauto. Qed.
  Lemma eq_loop_ok : forall a b, length a = length b -> c11_sl_eq_loop T teq a b = C11_ok (c11_list_eqb T teq a b).
  Proof. induction a as [| x a IH]; intros [| y b] H; simpl in *; try discriminate; auto. destruct (teq x y); simpl; auto. Qed.
  Lemma ne_loop_ok : forall a b, length a = length b -> c11_sl_ne_loop T teq a b = C11_ok (negb (c11_list_eqb T teq a b)).
  Proof. induction a as [| x a IH]; intros [| y b] H; simpl in *; try discriminate; auto. destruct (teq x y); simpl; auto. Qed.

  Lemma R_size s l : Rsl s l -> sl_size s = length l.
  Proof. intros (cells & [(_ & _ & _ & Hsz) _] & <-). rewrite map_length. auto. Qed.
  Lemma R_emptyq s l : Rsl s l -> c11_sl_empty_q T s = match l with [] => true | _ => false end.
  Proof.
    intros (cells & [(_ & Hnd & _) Htl] & <-). unfold c11_sl_empty_q. rewrite Htl.
    destruct cells as [| [b y] r]; auto. cbn [map fst]. rewrite c11_last_cons_default.
    apply Nat.eqb_neq. intro E. inversion Hnd as [| ? ? Hn0 Hnd0]; subst. apply Hn0. rewrite <- E. apply c11_last_in.
  Qed.

  Lemma eq_ok s o ls lo : Rsl s ls -> Rsl o lo -> c11_sl_eq T teq s o = C11_ok (c11_list_eqb T teq ls lo).
  Proof.
    intros Hs Ho. unfold c11_sl_eq. rewrite (R_size _ _ Hs), (R_size _ _ Ho).
    destruct (length ls =? length lo) eqn:E; simpl.
    - apply Nat.eqb_eq in E. rewrite (contents_ok _ _ Hs), (contents_ok _ _ Ho). simpl. apply eq_loop_ok; auto.
    - apply Nat.eqb_neq in E. destruct (c11_list_eqb T teq ls lo) eqn:E2; auto. apply list_eqb_length in E2. contradiction.
  Qed.
  Lemma ne_ok s o ls lo : Rsl s ls -> Rsl o lo -> c11_sl_ne T teq s o = C11_ok (negb (c11_list_eqb T teq ls lo)).
  Proof.
    intros Hs Ho. unfold c11_sl_ne. rewrite (R_size _ _ Hs), (R_size _ _ Ho).
    destruct (length ls =? length lo) eqn:E; simpl.
    - apply Nat.eqb_eq in E. rewrite (contents_ok _ _ Hs), (contents_ok _ _ Ho). simpl. apply ne_loop_ok; auto.
    - apply Nat.eqb_neq in E. destruct (c11_list_eqb T teq ls lo) eqn:E2; auto. apply list_eqb_length in E2. contradiction.
  Qed.

  (* ------------------------------------------------------------ worlds *)
  Definition Rw (w : c11_sl_world T) (ws : c11_sls_world T) : Prop := Rsl (fst w) (fst ws) /\ Rsl (snd w) (snd ws).

  Lemma sel_R w ws i : Rw w ws -> Rsl (c11_sl_sel T w i) (if i then snd ws else fst ws).
  Proof. intros [H0 H1]. destruct i; auto. Qed.
  Lemma put_R w ws i s l : Rw w ws -> Rsl s l -> Rw (c11_sl_put T w i s) (if i then (fst ws, l) else (l, snd ws)).
  Proof. intros [H0 H1] H. destruct i; split; simpl; auto. Qed.

  Lemma sl_step_sim : forall w ws o ws', Rw w ws -> c11_sls_step T ws o = Some ws' ->
    exists w', c11_sl_step T d true w o = C11_ok w' /\ Rw w' ws'.
  Proof.
    intros w ws o ws' HR Hs.
    assert (Hon : forall i (r : c11_res (c11_sl T)) l',
               (exists s', r = C11_ok s' /\ Rsl s' l') ->
               exists w', c11_bind r (fun s' => C11_ok (c11_sl_put T w i s')) = C11_ok w' /\
                          Rw w' (if i then (fst ws, l') else (l', snd ws))).
    { intros i r l' (s' & Hf & HR'). rewrite Hf. simpl. eexists; split; [reflexivity |]. apply put_R; auto. }
    destruct o; cbn [c11_sls_step c11_sl_step] in *.
    - injection Hs as <-. apply Hon. pose proof (sel_R w ws i HR) as (cells & Hi & <-).
      destruct (push_back_ok _ _ v Hi) as (s' & Hp & Hi'). exists s'; split; auto. eapply R_intro; eauto. rewrite map_app. reflexivity.
    - injection Hs as <-. apply Hon. pose proof (sel_R w ws i HR) as (cells & Hi & <-).
      destruct (push_front_ok _ _ v Hi) as (s' & Hp & Hi'). exists s'; split; auto. eapply R_intro; eauto.
    - pose proof (sel_R w ws i HR) as (cells & Hi & He).
      destruct (if i then snd ws else fst ws) as [| x r] eqn:El; [discriminate |]. injection Hs as <-. apply Hon.
      destruct cells as [| [b y] cells]; [discriminate |]. simpl in He. injection He as -> <-.
      destruct (pop_front_ok _ _ _ _ Hi) as (s' & Hp & Hi'). exists s'; split; auto. eapply R_intro; eauto.
    - injection Hs as <-. apply Hon. pose proof (sel_R w ws i HR) as (cells & Hi & _).
      destruct (clear_ok _ _ Hi) as (s' & Hp & Hi'). exists s'; split; auto. eapply R_intro; eauto.
    - destruct (k <=? length (if i then snd ws else fst ws)) eqn:Ek; [| discriminate]. apply Nat.leb_le in Ek. injection Hs as <-.
      apply Hon. apply mins_ok; auto. apply sel_R; auto.
    - destruct (k <? length (if i then snd ws else fst ws)) eqn:Ek; [| discriminate]. apply Nat.ltb_lt in Ek. injection Hs as <-.
      apply Hon. apply mrem_ok; auto. apply sel_R; auto.
    - injection Hs as <-. apply Hon. apply mend_ok; auto. apply sel_R; auto.
    - destruct (k <? length (if i then snd ws else fst ws)) eqn:Ek; [| discriminate]. apply Nat.ltb_lt in Ek. injection Hs as <-.
      apply Hon. apply iaft_ok; auto. apply sel_R; auto.
    - destruct (S k <? length (if i then snd ws else fst ws)) eqn:Ek; [| discriminate]. apply Nat.ltb_lt in Ek. injection Hs as <-.
      apply Hon. apply idel_ok; auto. apply sel_R; auto.
    - injection Hs as <-. apply Hon.
      pose proof (sel_R w ws i HR) as H1. pose proof (sel_R w ws (negb i) HR) as H2.
      destruct (assign_ok _ _ _ _ H1 H2) as (s' & Ha & HR'). exists s'. split; auto.
    - injection Hs as <-. simpl. eexists; split; [reflexivity |]. destruct HR as [H0 H1]. destruct i; split; simpl; auto.
    - injection Hs as <-.
      pose proof (sel_R w ws i HR) as H1. pose proof (sel_R w ws (negb i) HR) as H2.
      destruct (copy_ok _ _ H1) as (t & Hc & Ht). rewrite Hc. simpl.
      destruct (assign_ok _ _ _ _ H2 Ht) as (s' & Ha & HR'). rewrite Ha. simpl.
      eexists; split; [reflexivity |]. pose proof (put_R w ws (negb i) s' _ HR HR') as Hp. destruct i; simpl in *; auto.
  Qed.

  Lemma sl_observe_sim : forall w ws, Rw w ws -> c11_sl_observe T teq w = C11_ok (c11_sls_observe T teq ws).
  Proof.
    intros [s0 s1] [l0 l1] [H0 H1]. simpl in H0, H1. unfold c11_sl_observe, c11_sls_observe. cbn [fst snd].
    rewrite (contents_ok _ _ H0), (contents_ok _ _ H1). simpl.
    rewrite (eq_ok _ _ _ _ H0 H1), (ne_ok _ _ _ _ H0 H1). simpl.
    rewrite (R_size _ _ H0), (R_size _ _ H1), (R_emptyq _ _ H0), (R_emptyq _ _ H1). reflexivity.
  Qed.

  Theorem c11_sllist_refines_lemma : forall ops tr,
    c11_sls_run T teq ([], []) ops = map Some tr ->
    c11_sl_run T d teq true (c11_sl_empty T d, c11_sl_empty T d) ops = map C11_ok tr.
  Proof.
    intros ops tr. unfold c11_sls_run, c11_sl_run.
    apply (c11_sim_run _ _ _ _ _ _ _ _ Rw sl_step_sim sl_observe_sim).
    split; apply R_empty.
  Qed.
  (* ------------------------------------------------------------ deep observable: tail_ and size_ are consistent after every operation *)
  Lemma last_addr_ok (s : c11_sl T) : forall cells fuel a x, chain (sl_heap s) a x cells -> length cells < fuel ->
    c11_sl_last_addr T fuel s a = C11_ok (last (map fst cells) a).
  Proof.
    induction cells as [| [b y] r IH]; intros fuel a x H Hf; (destruct fuel; [simpl in Hf; lia |]); cbn [chain c11_sl_last_addr] in *.
    - rewrite H. reflexivity.
    - destruct H as [H1 H2]. rewrite H1. rewrite (IH fuel b y H2) by (simpl in Hf; lia).
      change (map fst ((b, y) :: r)) with (b :: map fst r). rewrite c11_last_cons_default. reflexivity.
  Qed.

  Lemma deep1_ok s l : Rsl s l -> c11_sl_deep1 T s = C11_ok (true, true).
  Proof.
    intros HR. pose proof HR as (cells & [Hc Htl] & Hl). pose proof (length_le_free _ _ Hc) as Hfree.
    unfold c11_sl_deep1. destruct Hc as (Hch & _ & _ & Hsz).
    rewrite (last_addr_ok s cells (sl_free s) 0 d Hch Hfree). simpl. rewrite (contents_ok s l HR). simpl.
    rewrite Htl, Nat.eqb_refl. rewrite Hsz, <- Hl, map_length, Nat.eqb_refl. reflexivity.
  Qed.

  Theorem c11_sllist_tail_lemma : forall ops tr,
    c11_spec_run (c11_sls_step T) (fun _ => ((true, true), (true, true))) ([], []) ops = map Some tr ->
    c11_sl_run_deep T d true (c11_sl_empty T d, c11_sl_empty T d) ops = map C11_ok tr.
  Proof.
    intros ops tr. unfold c11_sl_run_deep.
    apply (c11_sim_run _ _ _ _ _ _ _ _ Rw sl_step_sim).
    - intros [s0 s1] [l0 l1] [H0 H1]. unfold c11_sl_observe_deep. cbn [fst snd] in *.
      rewrite (deep1_ok _ _ H0), (deep1_ok _ _ H1). reflexivity.
    - split; apply R_empty.
  Qed.
  (* ------------------------------------------------------------ where a ModifyIterator stands after insert() / remove() *)
  Lemma chain_item h : forall c1 b y c2 a x, chain h a x (c1 ++ (b, y) :: c2) -> h b = Some (hd_addr c2, y).
  Proof.
    induction c1 as [| [e w] c1 IH]; intros b y c2 a x H; simpl in H; destruct H as [_ H].
    - apply chain_head; auto.
    - eapply IH; eauto.
  Qed.

  Lemma nth_error_mid {A B} (f : A -> B) (c1 : list A) (z : A) (c2 : list A) : nth_error (map f (c1 ++ z :: c2)) (length c1) = Some (f z).
  Proof. rewrite map_app. rewrite nth_error_app2 by (rewrite map_length; lia). rewrite map_length, Nat.sub_diag. reflexivity. Qed.

  Lemma mins_probe_ok s l k v : Rsl s l -> k <= length l ->
    c11_bind (c11_bind (c11_sl_mbegin T s) (fun c => c11_bind (c11_sl_madvance T k s c) (fun c' => c11_sl_minsert T s c' v)))
             (fun sc => c11_bind (c11_sl_mderef T (fst sc) (snd sc)) (fun x => C11_ok (Some x))) = C11_ok (Some (nth_error l k)).
  Proof.
    intros (cells & Hi & <-) Hk. rewrite map_length in Hk.
    destruct (c11_split_at cells k Hk) as (c1 & c2 & -> & Hl1).
    pose proof Hi as [(Hch & _) _].
    unfold c11_sl_mbegin, c11_sl_next. rewrite (chain_head _ _ _ _ Hch). simpl.
    pose proof (madvance_ok' s c1 [] c2) as Hm. simpl in Hm. rewrite Hl1 in Hm. rewrite Hm by exact Hch. simpl.
    unfold c11_sl_minsert. cbn [fst snd].
    destruct (insertAfter_ok s c1 c2 v Hi) as (s' & Hins & Hi' & _). rewrite Hins. simpl.
    pose proof Hi' as [(Hch' & _) _].
    pose proof Hch' as Hch2.
    replace (c1 ++ (sl_free s, v) :: c2) with (c1 ++ [(sl_free s, v)] ++ c2) in Hch' by reflexivity.
    destruct (chain_split _ _ _ _ _ Hch') as [xt Ht]. unfold c11_sl_next. rewrite Ht. simpl.
    unfold c11_sl_mderef. cbn [fst snd]. rewrite <- Hl1.
    destruct c2 as [| [b y] r]; cbn [hd_addr].
    - simpl. f_equal. f_equal. symmetry. apply nth_error_None. rewrite map_length, app_length. simpl. lia.
    - replace (c1 ++ (sl_free s, v) :: (b, y) :: r) with ((c1 ++ [(sl_free s, v)]) ++ (b, y) :: r) in Hch2 by (rewrite <- app_assoc; reflexivity).
      unfold c11_sl_item. rewrite (chain_item _ _ _ _ _ _ _ Hch2). simpl. rewrite (nth_error_mid snd c1 (b, y) r). reflexivity.
  Qed.

  Lemma mrem_probe_ok s l k : Rsl s l -> k < length l ->
    c11_bind (c11_bind (c11_sl_mbegin T s) (fun c => c11_bind (c11_sl_madvance T k s c) (fun c' => c11_sl_mremove T s c')))
             (fun sc => c11_bind (c11_sl_mderef T (fst sc) (snd sc)) (fun x => C11_ok (Some x))) = C11_ok (Some (nth_error l (S k))).
  Proof.
    intros (cells & Hi & <-) Hk. rewrite map_length in Hk.
    destruct (c11_split_at cells k (Nat.lt_le_incl _ _ Hk)) as (c1 & c2 & -> & Hl1).
    destruct c2 as [| [b y] c2]; [rewrite app_length in Hk; simpl in Hk; lia |].
    assert (Hspec : nth_error (map snd (c1 ++ (b, y) :: c2)) (S k) = match c2 with [] => None | (_, z) :: _ => Some z end).
    { rewrite <- Hl1. replace (S (length c1)) with (length (c1 ++ [(b, y)])) by (rewrite app_length; simpl; lia).
      replace (c1 ++ (b, y) :: c2) with ((c1 ++ [(b, y)]) ++ c2) by (rewrite <- app_assoc; reflexivity).
      destruct c2 as [| [e z] r].
      - apply nth_error_None. rewrite map_length, app_nil_r. lia.
      - apply (nth_error_mid snd (c1 ++ [(b, y)]) (e, z) r). }
    rewrite Hspec. clear Hspec.
    pose proof Hi as [(Hch & _) _].
    unfold c11_sl_mbegin, c11_sl_next. rewrite (chain_head _ _ _ _ Hch). simpl.
    pose proof (madvance_ok' s c1 [] ((b, y) :: c2)) as Hm. simpl in Hm. rewrite Hl1 in Hm. rewrite Hm by exact Hch. simpl.
    unfold c11_sl_mremove. cbn [fst snd].
    unfold c11_sl_next. rewrite (chain_item _ _ _ _ _ _ _ Hch). simpl.
    destruct (deleteNext_inv s c1 b y c2 Hi) as (s' & Hd & Hi' & _). rewrite Hd. simpl.
    pose proof Hi' as [(Hch' & _) _].
    unfold c11_sl_mderef. cbn [fst snd].
    destruct c2 as [| [e z] r]; cbn [hd_addr].
    - reflexivity.
    - unfold c11_sl_item. rewrite (chain_item _ _ _ _ _ _ _ Hch'). reflexivity.
  Qed.

  Lemma mend_probe_ok s l v : Rsl s l ->
    c11_bind (c11_sl_minsert T s (c11_sl_mend T s) v)
             (fun sc => c11_bind (c11_sl_mderef T (fst sc) (snd sc)) (fun x => C11_ok (Some x))) = C11_ok (Some None).
  Proof.
    intros (cells & Hi & <-). pose proof Hi as [_ Htl].
    unfold c11_sl_mend, c11_sl_minsert. cbn [fst snd]. rewrite Htl.
    rewrite <- (app_nil_r cells) in Hi.
    destruct (insertAfter_ok s cells [] v Hi) as (s' & Hins & Hi' & _). rewrite Hins. simpl.
    pose proof Hi' as [(Hch' & _) _].
    replace (cells ++ [(sl_free s, v)]) with (cells ++ [(sl_free s, v)] ++ []) in Hch' by reflexivity.
    destruct (chain_split _ _ _ _ _ Hch') as [xt Ht]. unfold c11_sl_next. rewrite Ht. simpl. reflexivity.
  Qed.

  Lemma probe_ok : forall w ws o ws', Rw w ws -> c11_sls_step T ws o = Some ws' ->
    c11_sl_probe T w o = C11_ok (c11_sls_probe T ws o).
  Proof.
    intros w ws o ws' HR Hs. destruct o; cbn [c11_sls_step c11_sl_probe c11_sls_probe] in *; try reflexivity.
    - destruct (k <=? length (if i then snd ws else fst ws)) eqn:Ek; [| discriminate]. apply Nat.leb_le in Ek.
      apply mins_probe_ok; auto. apply sel_R; auto.
    - destruct (k <? length (if i then snd ws else fst ws)) eqn:Ek; [| discriminate]. apply Nat.ltb_lt in Ek.
      apply mrem_probe_ok; auto. apply sel_R; auto.
    - eapply mend_probe_ok. apply (sel_R w ws i HR).
  Qed.

  Definition Rw2 (w : c11_sl_world2 T) (ws : c11_sls_world2 T) : Prop := Rw (fst w) (fst ws) /\ snd w = snd ws.

  Lemma sl_step_sim2 : forall w ws o ws', Rw2 w ws -> c11_sls_step2 T ws o = Some ws' ->
    exists w', c11_sl_step2 T d true w o = C11_ok w' /\ Rw2 w' ws'.
  Proof.
    intros [w p] [ws ps] o ws' [HR Hp] Hs. cbn [fst snd] in *. unfold c11_sls_step2 in Hs. cbn [fst snd] in Hs.
    destruct (c11_sls_step T ws o) as [ws1 |] eqn:E; [| discriminate]. injection Hs as <-.
    destruct (sl_step_sim w ws o ws1 HR E) as (w1 & Hw & HR1).
    unfold c11_sl_step2. cbn [fst snd]. rewrite (probe_ok w ws o ws1 HR E). simpl. rewrite Hw. simpl.
    eexists; split; [reflexivity |]. split; auto.
  Qed.

  Lemma sl_observe_sim2 : forall w ws, Rw2 w ws -> c11_sl_observe2 T teq w = C11_ok (c11_sls_observe2 T teq ws).
  Proof.
    intros [w p] [ws ps] [HR Hp]. cbn [fst snd] in *. subst ps. unfold c11_sl_observe2, c11_sls_observe2. cbn [fst snd].
    rewrite (sl_observe_sim w ws HR). reflexivity.
  Qed.

  Theorem c11_sllist_modify_iterator_lemma : forall ops tr,
    c11_sls_run2 T teq (([], []), None) ops = map Some tr ->
    c11_sl_run2 T d teq true ((c11_sl_empty T d, c11_sl_empty T d), None) ops = map C11_ok tr.
  Proof.
    intros ops tr. unfold c11_sls_run2, c11_sl_run2.
    apply (c11_sim_run _ _ _ _ _ _ _ _ Rw2 sl_step_sim2 sl_observe_sim2).
    split; [split; apply R_empty | reflexivity].
  Qed.
End SLP.
