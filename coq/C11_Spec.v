(* C11 — the abstract statement: each container IS a plain sequence / recency-ordered association list /
   sequence of fixed-size bit blocks.  The step functions below return None when the history violates a
   documented precondition (the generator never emits such histories, the theorems exclude them).
   c11_spec_run is the executable oracle: its output is compared with the implementation's own output. *)
From Coq Require Import List Arith Bool PeanoNat.
From DuneV Require Import C11_Model.
Import ListNotations.

Section SRUN.
  Variables (W O Obs : Type).
  Variable step : W -> O -> option W.
  Variable observe : W -> Obs.
  Fixpoint c11_spec_run (w : W) (ops : list O) : list (option Obs) :=
    match ops with
    | [] => []
    | o :: r => match step w o with Some w' => Some (observe w') :: c11_spec_run w' r | None => [None] end
    end.
  Fixpoint c11_spec_exec (w : W) (ops : list O) : option W :=
    match ops with [] => Some w | o :: r => match step w o with Some w' => c11_spec_exec w' r | None => None end end.
End SRUN.
Arguments c11_spec_run {W O Obs} step observe w ops.
Arguments c11_spec_exec {W O} step w ops.

(* ---------------------------------------------------------------- ArrayList = list T (+ index of the held iterator) *)
Section ALS.
  Variable T : Type.
  Definition c11_als_world : Type := list T * option nat.
  Definition c11_als_step (w : c11_als_world) (o : c11_al_op T) : option c11_als_world :=
    let (l, h) := w in
    match o with
    | AlPush _ v => Some (l ++ [v], h)
    | AlErase _ k => if k <? length l
                     then Some (skipn (S k) l, match h with Some j => if j <=? k then None else Some (j - S k) | None => None end)
                     else None
    | AlPurge _ => Some (l, None)
    | AlClear _ => Some ([], None)
    | AlSet _ i v => if i <? length l then Some (c11_set_nth l i v, h) else None
    | AlHold _ k => if k <? length l then Some (l, Some k) else None
    | AlCopy _ => Some (l, None)                     (* a copy shows the same sequence *)
    end.
  Definition c11_als_observe (w : c11_als_world) : c11_al_obs T :=
    (length (fst w), fst w, match snd w with Some j => nth_error (fst w) j | None => None end).
  Definition c11_als_run := c11_spec_run c11_als_step c11_als_observe.
End ALS.

(* ---------------------------------------------------------------- SLList = list T (two lists) *)
Section SLS.
  Variable T : Type.
  Variable teq : T -> T -> bool.
  Fixpoint c11_list_eqb (a b : list T) : bool :=
    match a, b with [], [] => true | x :: a', y :: b' => teq x y && c11_list_eqb a' b' | _, _ => false end.
  Definition c11_sls_world : Type := list T * list T.
  Definition c11_sls_step (w : c11_sls_world) (o : c11_sl_op T) : option c11_sls_world :=
    let sel (i : bool) := if i then snd w else fst w in
    let put (i : bool) (l : list T) : c11_sls_world := if i then (fst w, l) else (l, snd w) in
    match o with
    | SlPushBack _ i v => Some (put i (sel i ++ [v]))
    | SlPushFront _ i v => Some (put i (v :: sel i))
    | SlPopFront _ i => match sel i with [] => None | _ :: r => Some (put i r) end
    | SlClear _ i => Some (put i [])
    | SlMIns _ i k v => if k <=? length (sel i) then Some (put i (firstn k (sel i) ++ v :: skipn k (sel i))) else None
    | SlMRem _ i k => if k <? length (sel i) then Some (put i (firstn k (sel i) ++ skipn (S k) (sel i))) else None
    | SlMInsEnd _ i v => Some (put i (sel i ++ [v]))
    | SlIAfter _ i k v => if k <? length (sel i) then Some (put i (firstn (S k) (sel i) ++ v :: skipn (S k) (sel i))) else None
    | SlIDel _ i k => if S k <? length (sel i) then Some (put i (firstn (S k) (sel i) ++ skipn (S (S k)) (sel i))) else None
    | SlAssign _ i => Some (put i (sel (negb i)))
    | SlAssignSelf _ i => Some w
    | SlCopy _ i => Some (put (negb i) (sel i))
    end.
  Definition c11_sls_observe (w : c11_sls_world) : c11_sl_obs T :=
    let o1 (l : list T) := (length l, match l with [] => true | _ => false end, l) in
    (o1 (fst w), o1 (snd w), c11_list_eqb (fst w) (snd w), negb (c11_list_eqb (fst w) (snd w))).
  Definition c11_sls_run := c11_spec_run c11_sls_step c11_sls_observe.
  (* where the documentation says the ModifyIterator stands afterwards: insert(v) "will point to the same element as before",
     remove() "will be positioned at the next position after the deletion" *)
  Definition c11_sls_probe (w : c11_sls_world) (o : c11_sl_op T) : option (option T) :=
    let sel (i : bool) := if i then snd w else fst w in
    match o with
    | SlMIns _ i k _ => Some (nth_error (sel i) k)
    | SlMRem _ i k => Some (nth_error (sel i) (S k))
    | SlMInsEnd _ _ _ => Some None
    | _ => None
    end.
  Definition c11_sls_world2 : Type := c11_sls_world * option (option T).
  Definition c11_sls_step2 (w : c11_sls_world2) (o : c11_sl_op T) : option c11_sls_world2 :=
    match c11_sls_step (fst w) o with Some w' => Some (w', c11_sls_probe (fst w) o) | None => None end.
  Definition c11_sls_observe2 (w : c11_sls_world2) : c11_sl_obs T * option (option T) := (c11_sls_observe (fst w), snd w).
  Definition c11_sls_run2 := c11_spec_run c11_sls_step2 c11_sls_observe2.
End SLS.

(* ---------------------------------------------------------------- lru = recency-ordered association list, unique keys *)
Section LRUS.
  Variable V : Type.
  Definition c11_assoc_remove (k : nat) (l : list (nat * V)) := filter (fun e => negb (fst e =? k)) l.
  Fixpoint c11_assoc (k : nat) (l : list (nat * V)) : option V :=
    match l with [] => None | (k', v) :: r => if k' =? k then Some v else c11_assoc k r end.
  Definition c11_lrus_world : Type := list (nat * V) * c11_lru_ret V.
  Definition c11_lrus_step (w : c11_lrus_world) (o : c11_lru_op V) : option c11_lrus_world :=
    let l := fst w in
    match o with
    | LruInsert _ k v => Some ((k, v) :: c11_assoc_remove k l, LruVal _ v)        (* "If this key is already present, the associated data is replaced" *)
    | LruTouch _ k => match c11_assoc k l with
                      | Some v => Some ((k, v) :: c11_assoc_remove k l, LruVal _ v)
                      | None => Some (l, LruRangeError _) end
    | LruPopFront _ => match l with [] => None | _ :: r => Some (r, LruVoid _) end
    | LruPopBack _ => match l with [] => None | _ => Some (removelast l, LruVoid _) end
    | LruResize _ n => if n <=? length l then Some (firstn n l, LruVoid _) else None
    | LruClear _ => Some ([], LruVoid _)
    | LruCopy _ => Some (l, LruVoid _)
    | LruAssignOnto _ _ => Some (l, LruVoid _)        (* whatever the target held before, afterwards it shows the source's entries *)
    end.
  Definition c11_lrus_observe (nkeys : nat) (w : c11_lrus_world) : c11_lru_obs V :=
    let l := fst w in
    (snd w, length l,
     match l with [] => None | (_, f) :: _ => Some (f, snd (last l (0, f))) end,
     map (fun k => match c11_assoc k l with Some v => Some (k, v) | None => None end) (seq 0 nkeys)).
  Definition c11_lrus_run (nkeys : nat) := c11_spec_run c11_lrus_step (c11_lrus_observe nkeys).
End LRUS.

(* ---------------------------------------------------------------- ReservedVector = vector with capacity n;
   None = a value the property leaves unspecified (exposed by a growing resize) *)
Section RVS.
  Variable T : Type.
  Variable teq tlt : T -> T -> bool.
  Variable n : nat.
  Definition c11_rvs_vec := list (option T).
  Definition c11_rvs_world : Type := c11_rvs_vec * c11_rvs_vec * option (option (option T)).
  Definition c11_rvs_step (w : c11_rvs_world) (o : c11_rv_op T) : option c11_rvs_world :=
    let '(a, b, _) := w in
    let sel (i : bool) := if i then b else a in
    let put (i : bool) (l : c11_rvs_vec) : c11_rvs_world := if i then (a, l, None) else (l, b, None) in
    match o with
    | RvPush _ i v => if length (sel i) <? n then Some (put i (sel i ++ [Some v])) else None
    | RvPop _ i => Some (put i (removelast (sel i)))
    | RvResize _ i k => if k <=? n then Some (put i (firstn k (sel i) ++ repeat None (k - length (sel i)))) else None
    | RvClear _ i => Some (put i [])
    | RvSet _ i j v => if j <? length (sel i) then Some (put i (c11_set_nth (sel i) j (Some v))) else None
    | RvFill _ i v => Some (put i (map (fun _ => Some v) (sel i)))
    | RvMake _ i c v => if c <=? n then Some (put i (repeat (Some v) c)) else None
    | RvFrom _ i l => if length l <=? n then Some (put i (map Some l)) else None
    | RvSwap _ => Some (b, a, None)
    | RvAssign _ i => Some (put i (sel (negb i)))
    | RvAt _ i j => Some (a, b, Some (nth_error (sel i) j))      (* outer None = std::out_of_range *)
    end.
  (* comparisons: None (unspecified) as soon as an unspecified value is inspected *)
  Fixpoint c11_rvs_eq_loop (a b : c11_rvs_vec) : option bool :=
    match a, b with
    | Some x :: a', Some y :: b' => if teq x y then c11_rvs_eq_loop a' b' else Some false
    | [], _ => Some true | _, [] => Some true
    | _, _ => None
    end.
  Definition c11_rvs_eq (a b : c11_rvs_vec) : option bool :=
    if negb (length a =? length b) then Some false else c11_rvs_eq_loop a b.
  Fixpoint c11_rvs_lt (a b : c11_rvs_vec) : option bool :=
    match a, b with
    | Some x :: a', Some y :: b' => if tlt x y then Some true else if tlt y x then Some false else c11_rvs_lt a' b'
    | [], _ :: _ => Some true
    | _, [] => Some false
    | _, _ => None
    end.
  Definition c11_rvs_obs : Type :=
    (nat * c11_rvs_vec * option (option T * option T)) * (nat * c11_rvs_vec * option (option T * option T))
    * (option bool * option bool * option bool) * option (option (option T)).
  Definition c11_rvs_obs1 (l : c11_rvs_vec) : nat * c11_rvs_vec * option (option T * option T) :=
    match l with [] => (0, [], None) | x :: _ => (length l, l, Some (x, last l None)) end.
  Definition c11_rvs_observe (w : c11_rvs_world) : c11_rvs_obs :=
    let '(a, b, r) := w in
    (c11_rvs_obs1 a, c11_rvs_obs1 b, (c11_rvs_eq a b, c11_rvs_lt a b, c11_rvs_lt b a), r).
  Definition c11_rvs_run := c11_spec_run c11_rvs_step c11_rvs_observe.
  (* !=, >, <=, >= of the lexicographic order (None as soon as an unspecified value is inspected) *)
  Definition c11_rvs_observe2 (w : c11_rvs_world) : c11_rvs_obs * (option bool * option bool * option bool * option bool) :=
    let '(a, b, _) := w in
    (c11_rvs_observe w, (option_map negb (c11_rvs_eq a b), c11_rvs_lt b a, option_map negb (c11_rvs_lt b a), option_map negb (c11_rvs_lt a b))).
  Definition c11_rvs_run2 := c11_spec_run c11_rvs_step c11_rvs_observe2.
End RVS.

(* ---------------------------------------------------------------- BitSetVector = list of std::bitset<bs> *)
Section BVS.
  Variable bs : nat.
  Definition c11_bvs_world := list (list bool).
  Definition c11_bvs_upd (w : c11_bvs_world) (i : nat) (f : list bool -> list bool) : option c11_bvs_world :=
    match nth_error w i with Some b => Some (c11_set_nth w i (f b)) | None => None end.
  Definition c11_bvs_step (w : c11_bvs_world) (o : c11_bv_op) : option c11_bvs_world :=
    match o with
    | BvResize n v => Some (firstn n w ++ repeat (repeat v bs) (n - length w))
    | BvClear => Some []
    | BvSetAll => Some (map (fun _ => repeat true bs) w)
    | BvUnsetAll => Some (map (fun _ => repeat false bs) w)
    | BvSet i j v => if j <? bs then c11_bvs_upd w i (fun b => c11_set_nth b j v) else None
    | BvFlipBit i j => if j <? bs then c11_bvs_upd w i (fun b => c11_set_nth b j (negb (nth j b false))) else None
    | BvSetBlock i => c11_bvs_upd w i (fun _ => repeat true bs)
    | BvResetBlock i => c11_bvs_upd w i (fun _ => repeat false bs)
    | BvFlipBlock i => c11_bvs_upd w i (map negb)
    | BvAssignBool i v => c11_bvs_upd w i (fun _ => repeat v bs)
    | BvAssignBits i b => c11_bvs_upd w i (fun _ => c11_pad bs b)
    | BvAssignBlock i k => match nth_error w k with Some x => c11_bvs_upd w i (fun _ => x) | None => None end
    | BvOpBits o i b => c11_bvs_upd w i (fun r => c11_bitset_zip (c11_bv_bfun o) r (c11_pad bs b))
    | BvOpBlock o i k => match nth_error w k with Some x => c11_bvs_upd w i (fun r => c11_bitset_zip (c11_bv_bfun o) r x) | None => None end
    | BvShl i k => c11_bvs_upd w i (fun r => c11_bitset_shl r k)
    | BvShr i k => c11_bvs_upd w i (fun r => c11_bitset_shr r k)
    end.
  Fixpoint c11_bits_eqb (a b : list bool) : bool :=
    match a, b with [], [] => true | x :: a', y :: b' => Bool.eqb x y && c11_bits_eqb a' b' | _, _ => false end.
  (* std::bitset count/any/none/all, == with the next block (cyclically), ~ *)
  Definition c11_bvs_queries (w : c11_bvs_world) (i : nat) (b : list bool) : c11_bv_qobs :=
    (c11_bitset_count b, existsb (fun x => x) b, negb (existsb (fun x => x) b), forallb (fun x => x) b,
     c11_bits_eqb b (nth (S i mod length w) w []), map negb b).
  Fixpoint c11_bvs_queries_from (w : c11_bvs_world) (i : nat) (l : list (list bool)) : list c11_bv_qobs :=
    match l with [] => [] | b :: r => c11_bvs_queries w i b :: c11_bvs_queries_from w (S i) r end.
  Definition c11_bvs_observe (w : c11_bvs_world) : c11_bv_obs :=
    (w, fold_right (fun b acc => c11_bitset_count b + acc) 0 w,
     map (fun j => length (filter (fun b => nth j b false) w)) (seq 0 bs),
     c11_bvs_queries_from w 0 w).
  Definition c11_bvs_run := c11_spec_run c11_bvs_step c11_bvs_observe.
End BVS.

(* ---------------------------------------------------------------- ReservedVector: when does a model observation satisfy the spec
   observation (spec values None are unspecified and match anything) *)
Section RVM.
  Variable T : Type.
  Definition c11_vmatch {A : Type} (x : A) (o : option A) : Prop := forall y, o = Some y -> y = x.
  Definition c11_rv_obs1_match (m : nat * list T * option (T * T)) (s : nat * c11_rvs_vec T * option (option T * option T)) : Prop :=
    fst (fst m) = fst (fst s) /\ Forall2 c11_vmatch (snd (fst m)) (snd (fst s)) /\
    match snd m, snd s with
    | None, None => True
    | Some (f, b), Some (sf, sb) => c11_vmatch f sf /\ c11_vmatch b sb
    | _, _ => False
    end.
  Definition c11_rv_at_match (r : option (option T)) (sr : option (option (option T))) : Prop :=
    match r, sr with
    | None, None => True
    | Some None, Some None => True                       (* std::out_of_range *)
    | Some (Some x), Some (Some o) => c11_vmatch x o
    | _, _ => False
    end.
  Definition c11_rv_obs_match (m : c11_rv_obs T) (s : c11_rvs_obs T) : Prop :=
    let '(ma, mb, (e, l1, l2), r) := m in
    let '(sa, sb, (se, sl1, sl2), sr) := s in
    c11_rv_obs1_match ma sa /\ c11_rv_obs1_match mb sb /\ c11_vmatch e se /\ c11_vmatch l1 sl1 /\ c11_vmatch l2 sl2 /\ c11_rv_at_match r sr.
  Definition c11_rv_obs_match2 (m : c11_rv_obs T * (bool * bool * bool * bool))
                                (s : c11_rvs_obs T * (option bool * option bool * option bool * option bool)) : Prop :=
    c11_rv_obs_match (fst m) (fst s) /\
    let '(n, g, l, h) := snd m in let '(sn, sg, sl, sh) := snd s in
    c11_vmatch n sn /\ c11_vmatch g sg /\ c11_vmatch l sl /\ c11_vmatch h sh.
End RVM.
