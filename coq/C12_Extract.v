(* Extraction of the C12 model and spec oracle.  ExtrOcamlBasic + ExtrOcamlString only
   (ascii -> char, list/option/bool/prod -> OCaml's); Z, N, positive, nat stay Coq inductives. *)
From Coq Require Import Extraction ExtrOcamlBasic ExtrOcamlString.
From Coq Require Import List ZArith NArith Ascii.
From DuneV Require Import C12_Model C12_Spec.
Extraction Language OCaml.
Extraction "c12_model.ml"
  c12_eqs c12_path c12_lines c12_empty c12_vals c12_subs c12_assoc c12_mem c12_sub1
  c12_has_key c12_has_sub c12_lookup c12_set c12_get_default c12_get c12_get_or
  c12_parse_ini c12_read_options c12_read_named_options
  c12_ity_extract c12_parse_scalar c12_parse_bool c12_parse_string c12_parse_range
  c12_parse_vector c12_parse_vector_string c12_parse_bitset c12_split
  c12_spec_value c12_spec_merge c12_spec_value_keys c12_spec_sub_keys c12_spec_wf
  c12_spec_int c12_spec_int_token c12_spec_tokens c12_spec_tokens_ws c12_spec_strip_ws c12_spec_range c12_spec_bool
  c12_sline_ok c12_render_sline c12_sdoc_assigns c12_store_all c12_join_lines
  c12_set_all c12_plain_arg c12_spec_named_positional c12_named_pair c12_spec_named_only c12_spec_read_named
  c12_vkeys c12_skeys c12_node c12_sub_const c12_sub_mut c12_report_lines c12_extract_double
  c12_extract_word c12_extract_char c12_spec_read_options c12_spec_uint
  c12_read_options_n c12_tree_assign c12_options_scan c12_in_sub c12_rline_ok c12_rl_assigns c12_report_rlines c12_hierarchy c12_parse_ini_lines.
