(* C12 — executable model of Dune::ParameterTree (dune/common/parametertree.{hh,cc}) and
   Dune::ParameterTreeParser (dune/common/parametertreeparser.{hh,cc}).
   Definitions only (no proofs).  Strings are [list ascii] (all 256 byte values).

   Layout of this file
     1. characters, trimming, searching            (ltrim/rtrim/find/substr of the code)
     2. the tree and its recursive descent on '.'  (hasKey/hasSub/sub/operator[])
     3. readINITree line machine                   (parametertreeparser.cc:78-153)
     4. readOptions / readNamedOptions             (parametertreeparser.cc:155-234)
     5. Parser<T>                                  (parametertree.hh:228-361), with the modelled
        grammar of std::num_get for integers (trusted base item 5 of DESIGN section 3).

   Totalisation: C++ exceptions are explicit statuses; the one loop that is not structurally
   recursive (the line loop, because a quoted value consumes following lines) takes fuel and
   reports C12OutOfFuel; the undefined read `*(rtrim(value).rbegin())` on an empty string is
   recorded in a flag (F-C12-2). *)
From Coq Require Import List Ascii ZArith NArith Bool.
From DuneV Require Import Params_gen.
Import ListNotations.
Local Open Scope char_scope.

Definition c12_str := list ascii.

(* ---------------------------------------------------------------- 1. characters / strings *)

Fixpoint c12_eqs (a b : c12_str) : bool :=
  match a, b with
  | [], [] => true
  | x :: a', y :: b' => Ascii.eqb x y && c12_eqs a' b'
  | _, _ => false
  end.

(* the blank set of ltrim/rtrim/split: c12_param_ws, re-read from the find_first_not_of / find_last_not_of /
   find_first_of literals of parametertree.cc and parametertreeparser.cc (space, tab, line feed, carriage return) *)
Definition c12_in_codes (c : ascii) (codes : list N) : bool := existsb (N.eqb (N_of_ascii c)) codes.
Definition c12_is_ws (c : ascii) : bool := c12_in_codes c c12_param_ws.
Arguments c12_is_ws : simpl never.

(* std::isspace in the classic locale: 9..13 and 32 (what an istream sentry skips) *)
Definition c12_is_space (c : ascii) : bool :=
  let n := N_of_ascii c in ((9 <=? n)%N && (n <=? 13)%N) || (n =? 32)%N.

Definition c12_digit (c : ascii) : option Z :=
  let n := N_of_ascii c in
  if ((48 <=? n)%N && (n <=? 57)%N) then Some (Z.of_N (n - 48)) else None.

Fixpoint c12_dropwhile (f : ascii -> bool) (s : c12_str) : c12_str :=
  match s with
  | [] => []
  | c :: r => if f c then c12_dropwhile f r else s
  end.

Definition c12_ltrim (s : c12_str) : c12_str := c12_dropwhile c12_is_ws s.

Definition c12_is_nil {A} (l : list A) : bool := match l with [] => true | _ => false end.

(* s.substr(0, find_last_not_of(ws)+1), or "" *)
Fixpoint c12_rtrim (s : c12_str) : c12_str :=
  match s with
  | [] => []
  | c :: r => let r' := c12_rtrim r in
              if c12_is_ws c && c12_is_nil r' then [] else c :: r'
  end.

(* s.find(c): Some (s.substr(0,pos), s.substr(pos+1)) *)
Fixpoint c12_split_at (c : ascii) (s : c12_str) : option (c12_str * c12_str) :=
  match s with
  | [] => None
  | x :: r => if Ascii.eqb x c then Some ([], r)
              else match c12_split_at c r with
                   | Some (a, b) => Some (x :: a, b)
                   | None => None
                   end
  end.

(* s.substr(0, s.find(c))  (npos: whole string) *)
Fixpoint c12_before (c : ascii) (s : c12_str) : c12_str :=
  match s with
  | [] => []
  | x :: r => if Ascii.eqb x c then [] else x :: c12_before c r
  end.

Fixpoint c12_last_opt (s : c12_str) : option ascii :=
  match s with
  | [] => None
  | [c] => Some c
  | _ :: r => c12_last_opt r
  end.

(* key.find(".") recursion of the tree functions: the key as its list of segments (never empty) *)
Fixpoint c12_path (s : c12_str) : list c12_str :=
  match s with
  | [] => [[]]
  | c :: r => if Ascii.eqb c "." then [] :: c12_path r
              else match c12_path r with
                   | h :: t => (c :: h) :: t
                   | [] => [[c]]
                   end
  end.

(* ---------------------------------------------------------------- 2. the tree *)

(* values_ + valueKeys_  and  subs_ + subKeys_ : association lists in insertion order
   (a key is pushed to the key vector exactly when it is inserted into the map) *)
Inductive c12_tree := C12Node : list (c12_str * c12_str) -> list (c12_str * c12_tree) -> c12_tree.

Definition c12_empty : c12_tree := C12Node [] [].
Definition c12_vals (t : c12_tree) := match t with C12Node v _ => v end.
Definition c12_subs (t : c12_tree) := match t with C12Node _ s => s end.

Fixpoint c12_assoc {A} (k : c12_str) (l : list (c12_str * A)) : option A :=
  match l with
  | [] => None
  | (k', a) :: r => if c12_eqs k k' then Some a else c12_assoc k r
  end.

Definition c12_mem {A} (k : c12_str) (l : list (c12_str * A)) : bool :=
  match c12_assoc k l with Some _ => true | None => false end.

(* map[k] = a : replace in place, or insert (key vector: push_back) *)
Fixpoint c12_assoc_set {A} (k : c12_str) (a : A) (l : list (c12_str * A)) : list (c12_str * A) :=
  match l with
  | [] => [(k, a)]
  | (k', a') :: r => if c12_eqs k k' then (k', a) :: r else (k', a') :: c12_assoc_set k a r
  end.

(* hasKey: None = RangeError ("occurs as value and as subtree") *)
Fixpoint c12_has_key (t : c12_tree) (p : list c12_str) : option bool :=
  match p with
  | [] => Some false
  | k :: rest =>
    match rest with
    | [] => match c12_assoc k (c12_vals t) with
            | Some _ => if c12_mem k (c12_subs t) then None else Some true
            | None => Some false
            end
    | _ => match c12_assoc k (c12_subs t) with
           | None => Some false
           | Some s => if c12_mem k (c12_vals t) then None else c12_has_key s rest
           end
    end
  end.

Fixpoint c12_has_sub (t : c12_tree) (p : list c12_str) : option bool :=
  match p with
  | [] => Some false
  | k :: rest =>
    match rest with
    | [] => match c12_assoc k (c12_subs t) with
            | Some _ => if c12_mem k (c12_vals t) then None else Some true
            | None => Some false
            end
    | _ => match c12_assoc k (c12_subs t) with
           | None => Some false
           | Some s => if c12_mem k (c12_vals t) then None else c12_has_sub s rest
           end
    end
  end.

(* const operator[]: None = RangeError (clash or key not found; a missing subtree yields the
   static empty tree, in which the leaf lookup then throws) *)
Fixpoint c12_lookup (t : c12_tree) (p : list c12_str) : option c12_str :=
  match p with
  | [] => None
  | k :: rest =>
    match rest with
    | [] => match c12_assoc k (c12_vals t) with
            | Some v => if c12_mem k (c12_subs t) then None else Some v
            | None => None
            end
    | _ => if c12_mem k (c12_vals t) then None
           else match c12_assoc k (c12_subs t) with
                | None => None
                | Some s => c12_lookup s rest
                end
    end
  end.

(* const sub(key, fail_if_missing=false) at one level, as used by a dump through the public API *)
Definition c12_sub1 (t : c12_tree) (k : c12_str) : option c12_tree :=
  if c12_mem k (c12_vals t) then None
  else match c12_assoc k (c12_subs t) with Some s => Some s | None => Some c12_empty end.

(* non-const operator[] followed by an assignment of (f old):  pt[key] = f(old value).
   The boolean is false when RangeError is thrown; the tree is returned as mutated so far
   (sub() creates intermediate subtrees before a deeper clash is detected). *)
Fixpoint c12_upd (t : c12_tree) (p : list c12_str) (f : option c12_str -> c12_str) : c12_tree * bool :=
  match p with
  | [] => (t, true)
  | k :: rest =>
    match rest with
    | [] => match c12_assoc k (c12_vals t) with
            | Some old => if c12_mem k (c12_subs t) then (t, false)
                          else (C12Node (c12_assoc_set k (f (Some old)) (c12_vals t)) (c12_subs t), true)
            | None => (C12Node (c12_vals t ++ [(k, f None)]) (c12_subs t), true)
            end
    | _ => if c12_mem k (c12_vals t) then (t, false)
           else let s := match c12_assoc k (c12_subs t) with Some s => s | None => c12_empty end in
                let '(s', ok) := c12_upd s rest f in
                (C12Node (c12_vals t) (c12_assoc_set k s' (c12_subs t)), ok)
    end
  end.

Definition c12_set (t : c12_tree) (p : list c12_str) (v : c12_str) : c12_tree * bool :=
  c12_upd t p (fun _ => v).
(* `pt[key]` evaluated for reading: creates the key with "" when absent *)
Definition c12_touch (t : c12_tree) (p : list c12_str) : c12_tree * bool :=
  c12_upd t p (fun o => match o with Some x => x | None => [] end).

(* get(key, default) for strings: None = RangeError *)
Definition c12_get_default (t : c12_tree) (p : list c12_str) (d : c12_str) : option c12_str :=
  match c12_has_key t p with
  | None => None
  | Some true => c12_lookup t p
  | Some false => Some d
  end.

(* const sub(key, fail_if_missing): None = RangeError.  Intermediate segments are looked up with
   fail_if_missing = false (a missing one yields the static empty tree), only the last one honours the flag *)
Fixpoint c12_sub_const (t : c12_tree) (p : list c12_str) (fail : bool) : option c12_tree :=
  match p with
  | [] => Some t
  | k :: rest =>
    if c12_mem k (c12_vals t) then None
    else match rest with
         | [] => match c12_assoc k (c12_subs t) with
                 | Some s => Some s
                 | None => if fail then None else Some c12_empty
                 end
         | _ => c12_sub_const (match c12_assoc k (c12_subs t) with Some s => s | None => c12_empty end) rest fail
         end
  end.

(* non-const sub(key): creates the subtrees on the way; (tree afterwards, false = RangeError) *)
Fixpoint c12_sub_mut (t : c12_tree) (p : list c12_str) : c12_tree * bool :=
  match p with
  | [] => (t, true)
  | k :: rest =>
    if c12_mem k (c12_vals t) then (t, false)
    else let s := match c12_assoc k (c12_subs t) with Some s => s | None => c12_empty end in
         let '(s', ok) := c12_sub_mut s rest in
         (C12Node (c12_vals t) (c12_assoc_set k s' (c12_subs t)), ok)
  end.

(* `ParameterTree& s = pt.sub(key); parse(..., s);` -- a subtree as the RECEIVER of a parser: the subtrees on the way
   are created as by sub(); a value/subtree clash is a RangeError before anything is parsed *)
Fixpoint c12_in_sub {S : Type} (t : c12_tree) (p : list c12_str) (f : c12_tree -> c12_tree * S) (err : S) : c12_tree * S :=
  match p with
  | [] => f t
  | k :: rest =>
    if c12_mem k (c12_vals t) then (t, err)
    else let s := match c12_assoc k (c12_subs t) with Some s => s | None => c12_empty end in
         let '(s', st) := c12_in_sub s rest f err in
         (C12Node (c12_vals t) (c12_assoc_set k s' (c12_subs t)), st)
  end.

(* report(stream, prefix): std::map order = byte-wise lexicographic order of the keys; one line
   key = "value"  per value, then per subtree  [ prefix prefix_ key ]  and its report.
   [pfx] = the prefix argument followed by the node's prefix_ (the dotted path of the node + '.') *)
Definition c12_byte_ltb (a b : ascii) : bool := (N_of_ascii a <? N_of_ascii b)%N.
Fixpoint c12_str_ltb (a b : c12_str) : bool :=
  match a, b with
  | [], [] => false
  | [], _ :: _ => true
  | _ :: _, [] => false
  | x :: a', y :: b' => if c12_byte_ltb x y then true else if c12_byte_ltb y x then false else c12_str_ltb a' b'
  end.
Fixpoint c12_insert {A} (k : c12_str) (a : A) (l : list (c12_str * A)) : list (c12_str * A) :=
  match l with
  | [] => [(k, a)]
  | (k', a') :: r => if c12_str_ltb k k' then (k, a) :: l else (k', a') :: c12_insert k a r
  end.
Definition c12_sort {A} (l : list (c12_str * A)) : list (c12_str * A) :=
  fold_right (fun kv acc => c12_insert (fst kv) (snd kv) acc) [] l.

(* the lines of a report, structured: a value line  key = "value"  or a header line  [ name ] *)
Inductive c12_rline := C12RValue (k v : c12_str) | C12RHeader (name : c12_str).

Fixpoint c12_report_rlines (t : c12_tree) (pfx : c12_str) : list c12_rline :=
  match t with
  | C12Node vals subs =>
    map (fun kv : c12_str * c12_str => C12RValue (fst kv) (snd kv)) (c12_sort vals) ++
    concat (map snd (c12_sort
      ((fix blocks (l : list (c12_str * c12_tree)) : list (c12_str * list c12_rline) :=
          match l with
          | [] => []
          | (k, s) :: r => (k, C12RHeader (pfx ++ k) :: c12_report_rlines s (pfx ++ k ++ ["."])) :: blocks r
          end) subs)))
  end.

Definition c12_render_rline (l : c12_rline) : c12_str :=
  match l with
  | C12RValue k v => k ++ " " :: "=" :: " " :: """" :: v ++ [""""]
  | C12RHeader name => "[" :: " " :: name ++ [" "; "]"]
  end.
Definition c12_value_line (kv : c12_str * c12_str) : c12_str := c12_render_rline (C12RValue (fst kv) (snd kv)).

Definition c12_report_lines (t : c12_tree) (pfx : c12_str) : list c12_str :=
  map c12_render_rline (c12_report_rlines t pfx).

(* ParameterTree& operator=(ParameterTree other)  (copy and swap): [other] is a COPY of the source, made before the
   target is touched (so the source may be a subtree of the target or contain it); every member of the target is
   swapped with the copy's, the copy -- now holding the target's previous content -- is destroyed on return.
   Result: (the target afterwards, the content that is destroyed).  (dimension audit 2: assignment onto a target that
   already holds other values, subtrees and key lists) *)
Definition c12_tree_assign (target other : c12_tree) : c12_tree * c12_tree :=
  match target, other with
  | C12Node tv ts, C12Node ov os => (C12Node ov os, C12Node tv ts)
  end.

(* ---------------------------------------------------------------- 3. readINITree *)

Inductive c12_status := C12Ok | C12RangeError | C12ParserError | C12HelpRequest | C12OutOfFuel.

(* the quote characters: c12_param_quotes, re-read from the comparison of value[0] in readINITree *)
Definition c12_is_quote (c : ascii) : bool := c12_in_codes c c12_param_quotes.
Arguments c12_is_quote : simpl never.

(* while ( * (rtrim(value).rbegin()) != quote) { if (!in.eof()) value += NL + getline; else value += quote; }
   [rest] = the lines not yet read ([] <-> in.eof()).  Third component: the undefined read happened. *)
Fixpoint c12_quote_cont (q : ascii) (value : c12_str) (rest : list c12_str) (ub : bool)
  : c12_str * list c12_str * bool :=
  let last := c12_last_opt (c12_rtrim value) in
  let ub' := match last with None => true | Some _ => ub end in
  if match last with Some c => Ascii.eqb c q | None => false end then (value, rest, ub)
  else match rest with
       | [] => (value ++ [q], [], ub')
       | l :: rest' => c12_quote_cont q (value ++ "010" :: l) rest' ub'
       end.

Record c12_ini_result := C12IniResult { c12_ir_tree : c12_tree; c12_ir_status : c12_status; c12_ir_ub : bool }.

(* `switch (line[0])` after ltrim: comment / empty / unparsable lines are skipped, `[prefix]` sets the
   prefix (with its trailing '.', or none), anything with '=' before a '#' is an assignment of
   rtrim(ltrim(lhs)) to the not yet unquoted ltrim(rhs) *)
Inductive c12_line_kind := C12Skip | C12Prefix (p : c12_str) | C12Assign (key value0 : c12_str).

(* the repaired comment search (fixes/C12-3.patch): behind  key = <quote>  a '#' starts the comment only
   if the text before it (right-trimmed) ends with the closing quote; [acc] = text read since the opening quote *)
Fixpoint c12_cut_qcomment (q : ascii) (acc s : c12_str) : c12_str :=
  match s with
  | [] => acc
  | c :: r =>
    if Ascii.eqb c "#" && match c12_last_opt (c12_rtrim acc) with Some x => Ascii.eqb x q | None => false end
    then acc else c12_cut_qcomment q (acc ++ [c]) r
  end.

(* [qhash = false]: the code as found -- the line is cut at its first '#' before quotes are looked at
   (F-C12-3: a quoted value containing '#' on its first line is cut there and swallows the following lines);
   [qhash = true]: with fixes/C12-3.patch *)
Definition c12_classify (qhash : bool) (line0 : c12_str) : c12_line_kind :=
  let line := c12_ltrim line0 in
  match line with
  | [] => C12Skip
  | c :: _ =>
    if Ascii.eqb c "#" then C12Skip
    else if Ascii.eqb c "[" then
      match c12_split_at "]" line with
      | Some (before, _) =>
          let p := c12_rtrim (c12_ltrim (tl before)) in
          C12Prefix (if c12_is_nil p then [] else p ++ ["."])
      | None => C12Skip
      end
    else
      match c12_split_at "=" (c12_before "#" line) with
      | None => C12Skip
      | Some (lhs, rhs) =>
        let key := c12_rtrim (c12_ltrim lhs) in
        if qhash then
          match c12_split_at "=" line with
          | Some (_, rhs_full) =>
            match c12_ltrim rhs_full with
            | q :: v1 => if c12_is_quote q then C12Assign key (q :: c12_cut_qcomment q [] v1)
                         else C12Assign key (c12_ltrim rhs)
            | [] => C12Assign key (c12_ltrim rhs)
            end
          | None => C12Assign key (c12_ltrim rhs)
          end
        else C12Assign key (c12_ltrim rhs)
      end
  end.

(* "handle quoted strings" / rtrim: (value, lines left, undefined-read flag) *)
Definition c12_value (value0 : c12_str) (rest : list c12_str) (ub : bool) : c12_str * list c12_str * bool :=
  match value0 with
  | [] => ([], rest, ub)
  | q :: v1 =>
    if c12_is_quote q then
      let '(v, r, u) := c12_quote_cont q v1 rest ub in
      (removelast (c12_rtrim v), r, u)
    else (c12_rtrim value0, rest, ub)
  end.

(* duplicate check and `if(overwrite || !pt.hasKey(key)) pt[key] = value; keysInFile.insert(key)`:
   inl = go on with (tree, keysInFile), inr = the exception that leaves the loop *)
Definition c12_store (pt : c12_tree) (seen : list c12_str) (ow : bool) (key value : c12_str)
  : (c12_tree * list c12_str) + (c12_tree * c12_status) :=
  if existsb (c12_eqs key) seen then inr (pt, C12ParserError)
  else
    let p := c12_path key in
    let store := if ow then Some true
                 else match c12_has_key pt p with
                      | None => None
                      | Some b => Some (negb b)
                      end in
    match store with
    | None => inr (pt, C12RangeError)
    | Some false => inl (pt, key :: seen)
    | Some true =>
      let '(pt', ok) := c12_set pt p value in
      if ok then inl (pt', key :: seen) else inr (pt', C12RangeError)
    end.

Fixpoint c12_ini_loop (qhash : bool) (fuel : nat) (lines : list c12_str) (pt : c12_tree) (prefix : c12_str)
         (seen : list c12_str) (ow : bool) (ub : bool) : c12_ini_result :=
  match fuel with
  | O => C12IniResult pt C12OutOfFuel ub
  | S fuel' =>
    match lines with
    | [] => C12IniResult pt C12Ok ub
    | line0 :: rest =>
      match c12_classify qhash line0 with
      | C12Skip => c12_ini_loop qhash fuel' rest pt prefix seen ow ub
      | C12Prefix p => c12_ini_loop qhash fuel' rest pt p seen ow ub
      | C12Assign k value0 =>
        let '(value, rest', ub') := c12_value value0 rest ub in
        match c12_store pt seen ow (prefix ++ k) value with
        | inl (pt', seen') => c12_ini_loop qhash fuel' rest' pt' prefix seen' ow ub'
        | inr (pt', st) => C12IniResult pt' st ub'
        end
      end
    end
  end.

(* the input split at '\n' (what successive getline calls return until eof; never empty) *)
Fixpoint c12_lines (s : c12_str) : list c12_str :=
  match s with
  | [] => [[]]
  | c :: r => if Ascii.eqb c "010" then [] :: c12_lines r
              else match c12_lines r with
                   | h :: t => (c :: h) :: t
                   | [] => [[c]]
                   end
  end.

Definition c12_parse_ini_lines (qhash : bool) (lines : list c12_str) (pt : c12_tree) (ow : bool) : c12_ini_result :=
  c12_ini_loop qhash (S (length lines)) lines pt [] [] ow false.

Definition c12_parse_ini (qhash : bool) (doc : c12_str) (pt : c12_tree) (ow : bool) : c12_ini_result :=
  c12_parse_ini_lines qhash (c12_lines doc) pt ow.

(* ---------------------------------------------------------------- 4. command line *)

(* readOptions: args = argv[1..argc-1] (argv[argc] == NULL) *)
Fixpoint c12_read_options (args : list c12_str) (pt : c12_tree) : c12_tree * c12_status :=
  match args with
  | [] => (pt, C12Ok)
  | a :: rest =>
    match a with
    | "-" :: ((_ :: _) as k) =>
      match rest with
      | [] => (pt, C12RangeError)
      | v :: rest' =>
        let '(pt', ok) := c12_set pt (c12_path k) v in
        if ok then c12_read_options rest' pt' else (pt', C12RangeError)
      end
    | _ => c12_read_options rest pt
    end
  end.

(* readOptions with the argument COUNT made explicit (dimension audit 2, "capacity exceeds size"):
   [n] = argc - i counted entries left, [argv] = argv[i..] up to (excluding) the first NULL entry, so the array may be
   LONGER than argc.  The loop is  for(i=1; i<argc; i++)  but the missing-value test is  argv[i+1] == NULL,  not
   i+1 < argc:  an option in the last counted position takes the entry BEHIND the count as its value (then ++i leaves
   the loop).  An entry argv[i] == NULL with i < argc is outside the calling convention (argv[i][0] dereferences it):
   the model stops with C12OutOfFuel, which the theorems exclude. *)
Fixpoint c12_read_options_n (n : nat) (argv : list c12_str) (pt : c12_tree) : c12_tree * c12_status :=
  match n with
  | O => (pt, C12Ok)
  | S n1 =>
    match argv with
    | [] => (pt, C12OutOfFuel)
    | a :: rest =>
      match a with
      | "-" :: ((_ :: _) as k) =>
        match rest with
        | [] => (pt, C12RangeError)
        | v :: rest' =>
          let '(pt', ok) := c12_set pt (c12_path k) v in
          if ok then match n1 with
                     | O => (pt', C12Ok)                          (* ++i; then i >= argc *)
                     | S n2 => c12_read_options_n n2 rest' pt'
                     end
          else (pt', C12RangeError)
        end
      | _ => c12_read_options_n n1 rest pt
      end
    end
  end.

Fixpoint c12_index_of (k : c12_str) (l : list c12_str) : option nat :=
  match l with
  | [] => None
  | x :: r => if c12_eqs x k then Some O
              else match c12_index_of k r with Some i => Some (S i) | None => None end
  end.

Fixpoint c12_mark (i : nat) (l : list bool) : list bool :=
  match l, i with
  | [], _ => []
  | _ :: r, O => true :: r
  | b :: r, S j => b :: c12_mark j r
  end.

(* while (current < done.size() && done[current]) ++current;  -- [done] here is the suffix from current *)
Fixpoint c12_skip_done (done : list bool) (current : nat) : nat :=
  match done with
  | true :: r => c12_skip_done r (S current)
  | _ => current
  end.

(* "do we overwrite an existing entry?" + "pt[key] = value" *)
Definition c12_named_store (pt : c12_tree) (key value : c12_str) (ow : bool) : c12_tree * c12_status :=
  let p := c12_path key in
  let '(pt1, st) :=
    if ow then (pt, C12Ok)
    else let '(pt', ok) := c12_touch pt p in
         if negb ok then (pt', C12RangeError)
         else match c12_lookup pt' p with
              | Some [] => (pt', C12Ok)
              | Some _ => (pt', C12ParserError)
              | None => (pt', C12RangeError)
              end in
  match st with
  | C12Ok => let '(pt2, ok) := c12_set pt1 p value in (pt2, if ok then C12Ok else C12RangeError)
  | _ => (pt1, st)
  end.

Definition c12_dashdash (opt : c12_str) : option c12_str :=
  match opt with "-" :: "-" :: body => Some body | _ => None end.

Fixpoint c12_named_loop (args : list c12_str) (pt : c12_tree) (keywords : list c12_str)
         (done : list bool) (current : nat) (allow_more ow : bool) : c12_tree * c12_status * list bool :=
  match args with
  | [] => (pt, C12Ok, done)
  | opt :: rest =>
    if c12_eqs opt ["-"; "h"] || c12_eqs opt ["-"; "-"; "h"; "e"; "l"; "p"] then (pt, C12HelpRequest, done)
    else
      match c12_dashdash opt with
      | Some body =>
        match c12_split_at "=" body with
        | None => (pt, C12ParserError, done)
        | Some (key, value) =>
          let it := c12_index_of key keywords in
          if negb allow_more && negb (match it with Some _ => true | None => false end)
          then (pt, C12ParserError, done)
          else
            let '(pt', st) := c12_named_store pt key value ow in
            match st with
            | C12Ok => c12_named_loop rest pt' keywords
                         (match it with Some i => c12_mark i done | None => done end) current allow_more ow
            | _ => (pt', st, done)
            end
        end
      | None =>
        let current' := c12_skip_done (skipn current done) current in
        if Nat.leb (length done) current' then (pt, C12ParserError, done)
        else
          let '(pt', st) := c12_named_store pt (nth current' keywords []) opt ow in
          match st with
          | C12Ok => c12_named_loop rest pt' keywords (c12_mark current' done) current' allow_more ow
          | _ => (pt', st, done)
          end
      end
  end.

(* missing: some i < min(required, #keywords) with !done[i] *)
Definition c12_named_missing (done : list bool) (required : nat) : bool :=
  existsb negb (firstn required done).

Definition c12_read_named_options (args : list c12_str) (pt : c12_tree) (keywords : list c12_str)
           (required : nat) (allow_more ow : bool) : c12_tree * c12_status :=
  let '(pt', st, done) := c12_named_loop args pt keywords (repeat false (length keywords)) O allow_more ow in
  match st with
  | C12Ok => (pt', if c12_named_missing done required then C12ParserError else C12Ok)
  | _ => (pt', st)
  end.

(* ---------------------------------------------------------------- 5. Parser<T> *)

Definition c12_skip_space (s : c12_str) : c12_str := c12_dropwhile c12_is_space s.

(* maximal run of decimal digits: (value, number of digits, rest) *)
Fixpoint c12_digits (s : c12_str) (acc : Z) (n : nat) : Z * nat * c12_str :=
  match s with
  | [] => (acc, n, [])
  | c :: r => match c12_digit c with
              | Some d => c12_digits r (10 * acc + d) (S n)
              | None => (acc, n, s)
              end
  end.

(* `s >> x` for an integer type (modelled std::num_get, base 10, classic locale):
   sentry skips white space; optional sign; all following digits are consumed (also after an
   overflow); fails on no digit or when the value is not representable.
   Result: (Some value | None = failbit, unread rest, eofbit).
   signed: representable range lo..hi;  unsigned (lo ignored): magnitude <= hi, "-m" wraps to 2^w - m. *)
Definition c12_extract_tail (signed : bool) (lo hi : Z) (neg : bool) (s2 : c12_str)
  : option Z * c12_str * bool :=
  let '(m, n, rest) := c12_digits s2 0 O in
  let eof := c12_is_nil rest in
  match n with
  | O => (None, rest, eof)
  | S _ =>
    if signed then
      let v := if neg then (- m)%Z else m in
      if ((lo <=? v) && (v <=? hi))%Z then (Some v, rest, eof) else (None, rest, eof)
    else
      if (m <=? hi)%Z then (Some (if neg then ((hi + 1 - m) mod (hi + 1))%Z else m), rest, eof)
      else (None, rest, eof)
  end.

Definition c12_extract_int (signed : bool) (lo hi : Z) (s : c12_str) : option Z * c12_str * bool :=
  match c12_skip_space s with
  | [] => (None, [], true)
  | c :: r =>
    if Ascii.eqb c "-" then c12_extract_tail signed lo hi true r
    else if Ascii.eqb c "+" then c12_extract_tail signed lo hi false r
    else c12_extract_tail signed lo hi false (c :: r)
  end.

Inductive c12_ity := C12Int | C12Long | C12UInt | C12ULong | C12Short | C12UShort.
Definition c12_ity_extract (ty : c12_ity) : c12_str -> option Z * c12_str * bool :=
  match ty with
  | C12Int => c12_extract_int true (- 2 ^ 31) (2 ^ 31 - 1)
  | C12Long => c12_extract_int true (- 2 ^ 63) (2 ^ 63 - 1)
  | C12UInt => c12_extract_int false 0 (2 ^ 32 - 1)
  | C12ULong => c12_extract_int false 0 (2 ^ 64 - 1)
  | C12Short => c12_extract_int true (- 2 ^ 15) (2 ^ 15 - 1)
  | C12UShort => c12_extract_int false 0 (2 ^ 16 - 1)
  end%Z.

(* `s >> x` for double (modelled std::num_get::_M_extract_float + strtod): sign, digits, one '.', digits,
   and -- only after a mantissa digit -- e/E, sign, digits; the collected text must be a complete
   floating literal (a mantissa digit; exponent digits if an 'e' was taken).
   The result is the EXACT decimal (negative?, mantissa m, exponent e) = (-1)^neg * m * 10^e; rounding
   to binary64 and overflow are strtod's (checked against a correctly rounding conversion by the check). *)
Definition c12_opt_sign (s : c12_str) : bool * c12_str :=
  match s with
  | c :: r => if Ascii.eqb c "-" then (true, r) else if Ascii.eqb c "+" then (false, r) else (false, s)
  | [] => (false, s)
  end.

Definition c12_extract_double (s : c12_str) : option (bool * Z * Z) * c12_str * bool :=
  match c12_skip_space s with
  | [] => (None, [], true)
  | s0 =>
    let '(neg, s1) := c12_opt_sign s0 in
    let '(m1, n1, s2) := c12_digits s1 0 O in
    let '(m2, n2, s3) := match s2 with
                         | c :: r2 => if Ascii.eqb c "." then c12_digits r2 m1 O else (m1, O, s2)
                         | [] => (m1, O, s2)
                         end in
    match (n1 + n2)%nat with
    | O => (None, s3, c12_is_nil s3)
    | S _ =>
      let plain := (Some (neg, m2, (- Z.of_nat n2)%Z), s3, c12_is_nil s3) in
      match s3 with
      | c :: r4 =>
        if Ascii.eqb c "e" || Ascii.eqb c "E" then
          let '(eneg, s5) := c12_opt_sign r4 in
          let '(ev, en, s6) := c12_digits s5 0 O in
          match en with
          | O => (None, s6, c12_is_nil s6)
          | S _ => (Some (neg, m2, ((if eneg then - ev else ev) - Z.of_nat n2)%Z), s6, c12_is_nil s6)
          end
        else plain
      | [] => plain
      end
    end
  end.

(* `s >> x` for std::string (one blank-separated word) and for char (one non-blank character) *)
Fixpoint c12_span_nonspace (s : c12_str) : c12_str * c12_str :=
  match s with
  | [] => ([], [])
  | c :: r => if c12_is_space c then ([], s) else let '(w, rest) := c12_span_nonspace r in (c :: w, rest)
  end.
Definition c12_extract_word (s : c12_str) : option c12_str * c12_str * bool :=
  match c12_skip_space s with
  | [] => (None, [], true)
  | s0 => let '(w, rest) := c12_span_nonspace s0 in (Some w, rest, c12_is_nil rest)
  end.
Definition c12_extract_char (s : c12_str) : option ascii * c12_str * bool :=
  match c12_skip_space s with
  | [] => (None, [], true)
  | c :: rest => (Some c, rest, false)
  end.

(* Parser<T>::parse for arithmetic T:  s >> val; if(!s) throw; char dummy; s >> dummy;
   if(!s.fail() || !s.eof()) throw.   None = RangeError *)
Definition c12_parse_scalar {A : Type} (ex : c12_str -> option A * c12_str * bool) (s : c12_str) : option A :=
  match ex s with
  | (Some v, rest, _) => if c12_is_nil (c12_skip_space rest) then Some v else None
  | _ => None
  end.

Definition c12_tolower (c : ascii) : ascii :=
  let n := N_of_ascii c in
  if ((65 <=? n) && (n <=? 90))%N then ascii_of_N (n + 32) else c.

(* Parser<bool>; the accepted words are c12_param_true_words / c12_param_false_words, re-read from the source *)
Definition c12_words (ws : list (list N)) : list c12_str := map (map ascii_of_N) ws.
Definition c12_parse_bool (s : c12_str) : option bool :=
  let r := map c12_tolower s in
  if existsb (c12_eqs r) (c12_words c12_param_true_words) then Some true
  else if existsb (c12_eqs r) (c12_words c12_param_false_words) then Some false
  else match c12_parse_scalar (c12_ity_extract C12Int) r with
       | Some v => Some (negb (v =? 0)%Z)
       | None => None
       end.

(* Parser<std::string> *)
Definition c12_parse_string (s : c12_str) : c12_str := c12_ltrim (c12_rtrim s).

(* ParameterTree::split *)
Fixpoint c12_split_aux (s : c12_str) (cur : c12_str) : list c12_str :=
  match s with
  | [] => if c12_is_nil cur then [] else [rev_append cur []]
  | c :: r => if c12_is_ws c
              then (if c12_is_nil cur then c12_split_aux r [] else rev_append cur [] :: c12_split_aux r [])
              else c12_split_aux r (c :: cur)
  end.
Definition c12_split (s : c12_str) : list c12_str := c12_split_aux s [].

(* parseRange into n items.  [charprobe = false]: the code as it stands (`Value dummy; s >> dummy`,
   accepted when that extraction fails AT EOF);  [charprobe = true]: the repaired probe
   (`char dummy`, as in the scalar parser; fixes/C12-1.patch). *)
Fixpoint c12_range_items {A : Type} (ex : c12_str -> option A * c12_str * bool) (n : nat) (s : c12_str)
  : option (list A * c12_str) :=
  match n with
  | O => Some ([], s)
  | S n' => match ex s with
            | (Some v, rest, _) =>
              match c12_range_items ex n' rest with
              | Some (vs, r) => Some (v :: vs, r)
              | None => None
              end
            | _ => None
            end
  end.

Definition c12_parse_range {A : Type} (charprobe : bool) (ex : c12_str -> option A * c12_str * bool)
           (n : nat) (s : c12_str) : option (list A) :=
  match c12_range_items ex n s with
  | None => None
  | Some (vs, rest) =>
    if charprobe then (if c12_is_nil (c12_skip_space rest) then Some vs else None)
    else match ex rest with
         | (None, _, true) => Some vs
         | _ => None
         end
  end.

(* Parser<std::vector<T>> : every token of split() through Parser<T> *)
Fixpoint c12_all_some {A B} (f : A -> option B) (l : list A) : option (list B) :=
  match l with
  | [] => Some []
  | x :: r => match f x with
              | None => None
              | Some y => match c12_all_some f r with Some ys => Some (y :: ys) | None => None end
              end
  end.

Definition c12_parse_vector {A : Type} (ex : c12_str -> option A * c12_str * bool) (s : c12_str) : option (list A) :=
  c12_all_some (c12_parse_scalar ex) (c12_split s).

Definition c12_parse_vector_string (s : c12_str) : list c12_str :=
  map c12_parse_string (c12_split s).

(* Parser<std::bitset<n>> *)
Definition c12_parse_bitset (n : nat) (s : c12_str) : option (list bool) :=
  let sub := c12_split s in
  if Nat.eqb (length sub) n then c12_all_some c12_parse_bool sub else None.

(* get<T>(key) / get(key, default) on top of a parser: outer None = RangeError *)
Definition c12_get {T} (parse : c12_str -> option T) (t : c12_tree) (p : list c12_str) : option T :=
  match c12_has_key t p with
  | Some true => match c12_lookup t p with Some v => parse v | None => None end
  | _ => None
  end.

Definition c12_get_or {T} (parse : c12_str -> option T) (t : c12_tree) (p : list c12_str) (d : T) : option T :=
  match c12_has_key t p with
  | None => None
  | Some true => c12_get parse t p
  | Some false => Some d
  end.
