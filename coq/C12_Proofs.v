(* C12 — lemmas and proofs. *)
From Coq Require Import List Ascii ZArith NArith Bool Lia.
From DuneV Require Import Params_gen C12_Model C12_Spec.
Import ListNotations.

(* ------------------------------------------------------------------ termination of the line loop *)

Lemma c12_quote_cont_length : forall q rest value ub v r u,
  c12_quote_cont q value rest ub = (v, r, u) -> length r <= length rest.
Proof.
  induction rest as [|l rest IH]; intros value ub v r u H; simpl in H.
  - destruct (match c12_last_opt (c12_rtrim value) with Some c => Ascii.eqb c q | None => false end);
      inversion H; subst; simpl; lia.
  - destruct (match c12_last_opt (c12_rtrim value) with Some c => Ascii.eqb c q | None => false end).
    + inversion H; subst; simpl; lia.
    + apply IH in H. simpl. lia.
Qed.

Lemma c12_value_length : forall value0 rest ub v r u,
  c12_value value0 rest ub = (v, r, u) -> length r <= length rest.
Proof.
  intros value0 rest ub v r u H. unfold c12_value in H.
  destruct value0 as [|q v1]; [inversion H; subst; lia|].
  destruct (c12_is_quote q); [|inversion H; subst; lia].
  destruct (c12_quote_cont q v1 rest ub) as [[v' r'] u'] eqn:Hq. inversion H; subst.
  eapply c12_quote_cont_length. exact Hq.
Qed.

Lemma c12_ini_loop_total : forall qhash fuel lines pt prefix seen ow ub,
  length lines < fuel ->
  c12_ir_status (c12_ini_loop qhash fuel lines pt prefix seen ow ub) <> C12OutOfFuel.
Proof.
  intros qhash. induction fuel as [|fuel IH]; intros lines pt prefix seen ow ub Hlen; [lia|].
  cbn [c12_ini_loop]. destruct lines as [|line0 rest]; [cbn; discriminate|].
  cbn in Hlen. assert (Hrest : length rest < fuel) by lia.
  destruct (c12_classify qhash line0) as [|p|k value0]; try (apply IH; exact Hrest).
  destruct (c12_value value0 rest ub) as [[v r] u] eqn:Hv.
  apply c12_value_length in Hv.
  unfold c12_store.
  destruct (existsb _ seen); [cbn; discriminate|].
  destruct ow; cbv zeta.
  - destruct (c12_set _ _ _) as [pt' ok]. destruct ok; [apply IH; lia|cbn; discriminate].
  - destruct (c12_has_key _ _) as [[|]|]; cbn [negb]; try (cbn; discriminate).
    + apply IH; lia.
    + destruct (c12_set _ _ _) as [pt' ok]. destruct ok; [apply IH; lia|cbn; discriminate].
Qed.

(* "no hang": on every byte string, with every pre-existing tree and both overwrite modes, the line
   machine stops with a verdict within the fuel the driver gives it (number of lines + 1) *)
Lemma c12_total : forall qhash doc pt ow, c12_ir_status (c12_parse_ini qhash doc pt ow) <> C12OutOfFuel.
Proof.
  intros. unfold c12_parse_ini, c12_parse_ini_lines. apply c12_ini_loop_total. lia.
Qed.

(* F-C12-2: the claim that the loop test never dereferences rbegin() of an empty string is false of the code:
   the document consisting of k, =, and one double quote reaches the loop test with an empty value *)
Lemma c12_undefined_read_reachable :
  forall qhash, exists doc, c12_ir_ub (c12_parse_ini qhash doc c12_empty true) = true.
Proof. intros qhash. exists ["k"; "="; """"]%char. destruct qhash; vm_compute; reflexivity. Qed.

(* F-C12-3: a '#' inside a quoted value.  Document:  x="a#b"  /  y=1  *)
Definition c12_hash_doc : c12_str :=
  ["x"; "="; """"; "a"; "#"; "b"; """"; "010"; "y"; "="; "1"; "010"]%char.
(* the code as found: x is not the written value and the following assignment is swallowed *)
Lemma c12_hash_in_quoted_asfound :
  let t := c12_ir_tree (c12_parse_ini false c12_hash_doc c12_empty true) in
  c12_lookup t [["x"%char]] <> Some ["a"; "#"; "b"]%char /\ c12_lookup t [["y"%char]] = None.
Proof. vm_compute. split; [discriminate|reflexivity]. Qed.
(* with fixes/C12-3.patch *)
Lemma c12_hash_in_quoted_repaired :
  let t := c12_ir_tree (c12_parse_ini true c12_hash_doc c12_empty true) in
  c12_lookup t [["x"%char]] = Some ["a"; "#"; "b"]%char /\ c12_lookup t [["y"%char]] = Some ["1"%char].
Proof. vm_compute. split; reflexivity. Qed.

(* the constants re-read from the C++ source (coq/Params_gen.v, regenerated on every run) are the ones the
   dialect of C12_Spec.v is written with: the comment character, the two quote characters, the bool words; and the blank
   set contains space and tab and none of the characters with a meaning in the dialect *)
Lemma c12_source_constants :
  c12_param_comment = N_of_ascii "#"%char /\
  c12_param_quotes = [N_of_ascii "'"%char; N_of_ascii """"%char] /\
  c12_words c12_param_true_words = [["y"; "e"; "s"]; ["t"; "r"; "u"; "e"]]%char /\
  c12_words c12_param_false_words = [["n"; "o"]; ["f"; "a"; "l"; "s"; "e"]]%char /\
  c12_is_ws " "%char = true /\ c12_is_ws "009"%char = true /\
  forallb (fun c => negb (c12_is_ws c)) ["#"; "="; "["; "]"; "."; "'"; """"; "-"; "+"; "0"; "a"]%char = true.
Proof. vm_compute. repeat split; reflexivity. Qed.
