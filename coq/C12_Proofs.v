(* C12 — lemmas and proofs. *)
From Coq Require Import List Ascii ZArith NArith Bool Lia.
From DuneV Require Import C12_Model C12_Spec.
Import ListNotations.

(* ------------------------------------------------------------------ termination of the line loop *)

Lemma c12_quote_cont_length : forall q rest value ub v r u,
  c12_quote_cont q value rest ub = (v, r, u) -> length r <= length rest.
Proof.
  induction rest as [|l rest IH]; intros value ub v r u H; simpl in H.
  - destruct (match c12_last_opt (c12_rtrim value) with Some c => Ascii.eqb c q | None => false end);
      inversion H; subst; simpl; lia.
  - destruct (match c12_last_opt (c12_rtrim value) with Some c => Ascii.eqb c q | None => false end).
    + inversion H; subst; simpl; lia.
    + apply IH in H. simpl. lia.
Qed.

Lemma c12_ini_loop_total : forall fuel lines pt prefix seen ow ub,
  length lines < fuel ->
  c12_ir_status (c12_ini_loop fuel lines pt prefix seen ow ub) <> C12OutOfFuel.
Proof.
  induction fuel as [|fuel IH]; intros lines pt prefix seen ow ub Hlen; [lia|].
  simpl. destruct lines as [|line0 rest]; [simpl; discriminate|].
  simpl in Hlen.
  assert (Hrest : length rest < fuel) by lia.
  destruct (c12_ltrim line0) as [|c line']; [apply IH; exact Hrest|].
  destruct (Ascii.eqb c "#"); [apply IH; exact Hrest|].
  destruct (Ascii.eqb c "[").
  { destruct (c12_split_at "]" (c :: line')) as [[before after]|]; apply IH; exact Hrest. }
  destruct (c12_split_at "=" (c12_before "#" (c :: line'))) as [[lhs rhs]|]; [|apply IH; exact Hrest].
  destruct (c12_ltrim rhs) as [|q v1].
  - destruct (existsb _ seen); [simpl; discriminate|].
    destruct ow.
    + destruct (c12_set _ _ _) as [pt' ok]. destruct ok; [apply IH; exact Hrest|simpl; discriminate].
    + destruct (c12_has_key _ _) as [[|]|]; simpl; try discriminate.
      * apply IH; exact Hrest.
      * destruct (c12_set _ _ _) as [pt' ok]. destruct ok; [apply IH; exact Hrest|simpl; discriminate].
  - destruct (c12_is_quote q).
    + destruct (c12_quote_cont q v1 rest ub) as [[v r] u] eqn:Hq.
      apply c12_quote_cont_length in Hq.
      assert (Hr : length r < fuel) by lia.
      destruct (existsb _ seen); [simpl; discriminate|].
      destruct ow.
      * destruct (c12_set _ _ _) as [pt' ok]. destruct ok; [apply IH; exact Hr|simpl; discriminate].
      * destruct (c12_has_key _ _) as [[|]|]; simpl; try discriminate.
        -- apply IH; exact Hr.
        -- destruct (c12_set _ _ _) as [pt' ok]. destruct ok; [apply IH; exact Hr|simpl; discriminate].
    + destruct (existsb _ seen); [simpl; discriminate|].
      destruct ow.
      * destruct (c12_set _ _ _) as [pt' ok]. destruct ok; [apply IH; exact Hrest|simpl; discriminate].
      * destruct (c12_has_key _ _) as [[|]|]; simpl; try discriminate.
        -- apply IH; exact Hrest.
        -- destruct (c12_set _ _ _) as [pt' ok]. destruct ok; [apply IH; exact Hrest|simpl; discriminate].
Qed.

(* "no hang": on every byte string, with every pre-existing tree and both overwrite modes, the line
   machine stops with a verdict within the fuel the driver gives it (number of lines + 1) *)
Lemma c12_total : forall doc pt ow, c12_ir_status (c12_parse_ini doc pt ow) <> C12OutOfFuel.
Proof.
  intros. unfold c12_parse_ini, c12_parse_ini_lines. apply c12_ini_loop_total. lia.
Qed.
