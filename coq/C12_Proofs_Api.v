(* C12 — remaining public members: sub() const / non-const, report(). *)
From Coq Require Import List Ascii ZArith NArith Bool Lia.
From DuneV Require Import C12_Model C12_Spec C12_Proofs_Tree C12_Proofs_Frame.
Import ListNotations.

(* non-const sub(key) that returns: afterwards hasSub(key), and no value was touched on the way *)
Lemma c12_sub_mut_creates : forall p t t', p <> [] -> c12_sub_mut t p = (t', true) -> c12_has_sub t' p = Some true.
Proof.
  induction p as [|k p IH]; intros t t' Hne H; [congruence|].
  cbn [c12_sub_mut] in H. destruct (c12_mem k (c12_vals t)) eqn:Hv; [discriminate|].
  destruct (c12_sub_mut (match c12_assoc k (c12_subs t) with Some s => s | None => c12_empty end) p) as [s' ok] eqn:E.
  inversion H; subst. destruct p as [|k2 p].
  - rewrite c12_has_sub_leaf. cbn [c12_vals c12_subs]. rewrite c12_assoc_set_same, Hv. reflexivity.
  - rewrite c12_has_sub_cons2. cbn [c12_vals c12_subs]. rewrite c12_assoc_set_same, Hv.
    eapply IH; [discriminate|exact E].
Qed.

(* const sub(key, fail): where hasSub(key) holds it returns exactly the node at that path, whatever the flag *)
Lemma c12_sub_const_node : forall p t fail, c12_has_sub t p = Some true -> c12_sub_const t p fail = Some (c12_node t p).
Proof.
  induction p as [|k p IH]; intros t fail H; [discriminate|]. destruct p as [|k2 p].
  - rewrite c12_has_sub_leaf in H. cbn [c12_sub_const c12_node].
    destruct (c12_assoc k (c12_subs t)) as [s|]; [|discriminate].
    destruct (c12_mem k (c12_vals t)); [discriminate|reflexivity].
  - rewrite c12_has_sub_cons2 in H. cbn [c12_sub_const c12_node].
    destruct (c12_assoc k (c12_subs t)) as [s|]; [|discriminate].
    destruct (c12_mem k (c12_vals t)); [discriminate|]. apply IH. exact H.
Qed.

(* a missing subtree: the empty tree, or RangeError when fail_if_missing is set (last segment missing) *)
Lemma c12_sub_const_missing : forall t k fail,
  c12_mem k (c12_vals t) = false -> c12_assoc k (c12_subs t) = None ->
  c12_sub_const t [k] fail = if fail then None else Some c12_empty.
Proof. intros t k fail Hv Hs. cbn. rewrite Hv, Hs. reflexivity. Qed.

(* report(): every value entry of the node is listed as  key = "value" *)
Lemma c12_insert_in : forall A k (a : A) l x, In x (c12_insert k a l) <-> x = (k, a) \/ In x l.
Proof.
  induction l as [|[k' a'] l IH]; intros x; cbn.
  - intuition.
  - destruct (c12_str_ltb k k'); cbn; [intuition|]. rewrite IH. intuition.
Qed.

Lemma c12_sort_in : forall A (l : list (c12_str * A)) x, In x (c12_sort l) <-> In x l.
Proof.
  induction l as [|[k a] l IH]; intros x; cbn; [reflexivity|].
  rewrite c12_insert_in, IH. intuition.
Qed.

Lemma c12_report_lists_values : forall t pfx k v,
  In (k, v) (c12_vals t) -> In (c12_value_line (k, v)) (c12_report_lines t pfx).
Proof.
  intros [vals subs] pfx k v H. cbn [c12_report_lines c12_vals] in *.
  apply in_or_app. left. apply in_map. apply c12_sort_in. exact H.
Qed.

