(* C12 — remaining public members: sub() const / non-const, report(). *)
From Coq Require Import List Ascii ZArith NArith Bool Lia.
From DuneV Require Import C12_Model C12_Spec C12_Proofs_Tree C12_Proofs_Frame.
Import ListNotations.

(* non-const sub(key) that returns: afterwards hasSub(key), and no value was touched on the way *)
Lemma c12_sub_mut_creates : forall p t t', p <> [] -> c12_sub_mut t p = (t', true) -> c12_has_sub t' p = Some true.
Proof.
  induction p as [|k p IH]; intros t t' Hne H; [congruence|].
  cbn [c12_sub_mut] in H. destruct (c12_mem k (c12_vals t)) eqn:Hv; [discriminate|].
  destruct (c12_sub_mut (match c12_assoc k (c12_subs t) with Some s => s | None => c12_empty end) p) as [s' ok] eqn:E.
  inversion H; subst. destruct p as [|k2 p].
  - rewrite c12_has_sub_leaf. cbn [c12_vals c12_subs]. rewrite c12_assoc_set_same, Hv. reflexivity.
  - rewrite c12_has_sub_cons2. cbn [c12_vals c12_subs]. rewrite c12_assoc_set_same, Hv.
    eapply IH; [discriminate|exact E].
Qed.

(* const sub(key, fail): where hasSub(key) holds it returns exactly the node at that path, whatever the flag *)
Lemma c12_sub_const_node : forall p t fail, c12_has_sub t p = Some true -> c12_sub_const t p fail = Some (c12_node t p).
Proof.
  induction p as [|k p IH]; intros t fail H; [discriminate|]. destruct p as [|k2 p].
  - rewrite c12_has_sub_leaf in H. cbn [c12_sub_const c12_node].
    destruct (c12_assoc k (c12_subs t)) as [s|]; [|discriminate].
    destruct (c12_mem k (c12_vals t)); [discriminate|reflexivity].
  - rewrite c12_has_sub_cons2 in H. cbn [c12_sub_const c12_node].
    destruct (c12_assoc k (c12_subs t)) as [s|]; [|discriminate].
    destruct (c12_mem k (c12_vals t)); [discriminate|]. apply IH. exact H.
Qed.

(* a missing subtree: the empty tree, or RangeError when fail_if_missing is set (last segment missing) *)
Lemma c12_sub_const_missing : forall t k fail,
  c12_mem k (c12_vals t) = false -> c12_assoc k (c12_subs t) = None ->
  c12_sub_const t [k] fail = if fail then None else Some c12_empty.
Proof. intros t k fail Hv Hs. cbn. rewrite Hv, Hs. reflexivity. Qed.

(* report(): every value entry of the node is listed as  key = "value" *)
Lemma c12_insert_in : forall A k (a : A) l x, In x (c12_insert k a l) <-> x = (k, a) \/ In x l.
Proof.
  induction l as [|[k' a'] l IH]; intros x; cbn.
  - intuition.
  - destruct (c12_str_ltb k k'); cbn; [intuition|]. rewrite IH. intuition.
Qed.

Lemma c12_sort_in : forall A (l : list (c12_str * A)) x, In x (c12_sort l) <-> In x l.
Proof.
  induction l as [|[k a] l IH]; intros x; cbn; [reflexivity|].
  rewrite c12_insert_in, IH. intuition.
Qed.

Lemma c12_report_lists_values : forall t pfx k v,
  In (k, v) (c12_vals t) -> In (c12_value_line (k, v)) (c12_report_lines t pfx).
Proof.
  intros [vals subs] pfx k v H. unfold c12_report_lines, c12_value_line. cbn [c12_report_rlines c12_vals fst snd] in *.
  rewrite map_app. apply in_or_app. left. rewrite map_map.
  apply (in_map (fun kv : c12_str * c12_str => c12_render_rline (C12RValue (fst kv) (snd kv))) _ (k, v)).
  apply c12_sort_in. exact H.
Qed.

(* ------------------------------------------------------------------ report() lists keys in std::map order *)
From Coq Require Import Sorted.

Lemma c12_byte_ltb_total : forall x y, c12_byte_ltb x y = false -> c12_byte_ltb y x = false -> x = y.
Proof.
  intros x y H1 H2. unfold c12_byte_ltb in *. apply N.ltb_ge in H1, H2.
  assert (E : N_of_ascii x = N_of_ascii y) by lia.
  rewrite <- (ascii_N_embedding x), <- (ascii_N_embedding y), E. reflexivity.
Qed.

Lemma c12_str_ltb_total : forall a b, c12_str_ltb a b = false -> c12_str_ltb b a = true \/ a = b.
Proof.
  induction a as [|x a IH]; intros [|y b] H; cbn in *; try discriminate; auto.
  destruct (c12_byte_ltb x y) eqn:E1; [discriminate|].
  destruct (c12_byte_ltb y x) eqn:E2; [left; reflexivity|].
  pose proof (c12_byte_ltb_total x y E1 E2) as ->.
  destruct (IH b H) as [Hl| ->]; [left; exact Hl|right; reflexivity].
Qed.

Definition c12_key_le {A} (x y : c12_str * A) : Prop := c12_str_ltb (fst y) (fst x) = false.

Lemma c12_str_ltb_irrefl : forall a, c12_str_ltb a a = false.
Proof.
  induction a as [|x a IH]; [reflexivity|]. cbn. unfold c12_byte_ltb. rewrite N.ltb_irrefl. exact IH.
Qed.

Lemma c12_str_ltb_asym : forall a b, c12_str_ltb a b = true -> c12_str_ltb b a = false.
Proof.
  induction a as [|x a IH]; intros [|y b] H; cbn in *; try discriminate; try reflexivity.
  unfold c12_byte_ltb in *.
  destruct (N.ltb_spec (N_of_ascii x) (N_of_ascii y)); destruct (N.ltb_spec (N_of_ascii y) (N_of_ascii x));
    try lia; try discriminate; try reflexivity; apply IH; exact H.
Qed.

Lemma c12_insert_hd : forall A k (a : A) l x, HdRel c12_key_le x l -> c12_key_le x (k, a) -> HdRel c12_key_le x (c12_insert k a l).
Proof.
  intros A k a l x Hl Hk. destruct l as [|[k' a'] l]; cbn; [constructor; exact Hk|].
  destruct (c12_str_ltb k k'); constructor; [exact Hk|]. inversion Hl; assumption.
Qed.

Lemma c12_insert_sorted : forall A k (a : A) l, Sorted c12_key_le l -> Sorted c12_key_le (c12_insert k a l).
Proof.
  induction l as [|[k' a'] l IH]; intros H; cbn.
  - constructor; constructor.
  - inversion H as [|? ? Hs Hh]; subst. destruct (c12_str_ltb k k') eqn:E.
    + constructor; [exact H|]. constructor. unfold c12_key_le. cbn. apply c12_str_ltb_asym. exact E.
    + constructor; [apply IH; exact Hs|]. apply c12_insert_hd; [exact Hh|]. unfold c12_key_le. cbn. exact E.
Qed.

(* the order in which report() visits the entries of a node: ascending byte-wise (std::map<std::string,...>) *)
Lemma c12_sort_sorted : forall A (l : list (c12_str * A)), Sorted c12_key_le (c12_sort l).
Proof.
  induction l as [|[k a] l IH]; cbn; [constructor|]. apply c12_insert_sorted. exact IH.
Qed.

(* ------------------------------------------------------------------ a subtree as receiver *)
(* parsing into pt.sub(p): the node at p afterwards is what the parser made of the node sub(p) returned, and
   every observation at a path unrelated to p is untouched *)
Lemma c12_in_sub_node : forall S p t (f : c12_tree -> c12_tree * S) err,
  snd (c12_sub_mut t p) = true ->
  c12_node (fst (c12_in_sub t p f err)) p = fst (f (c12_node (fst (c12_sub_mut t p)) p)) /\
  snd (c12_in_sub t p f err) = snd (f (c12_node (fst (c12_sub_mut t p)) p)).
Proof.
  intros S. induction p as [|k p IH]; intros t f err H.
  - cbn. split; reflexivity.
  - cbn [c12_in_sub c12_sub_mut] in *. destruct (c12_mem k (c12_vals t)); [discriminate|].
    set (s := match c12_assoc k (c12_subs t) with Some s => s | None => c12_empty end) in *.
    destruct (c12_sub_mut s p) as [s1 ok] eqn:E1. cbn [snd] in H. subst ok.
    specialize (IH s f err). rewrite E1 in IH. cbn [fst snd] in IH. specialize (IH eq_refl).
    destruct (c12_in_sub s p f err) as [s2 st]. cbn [fst snd] in *.
    cbn [c12_node c12_subs]. rewrite !c12_assoc_set_same. exact IH.
Qed.
