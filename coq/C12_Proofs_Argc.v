(* C12 -- dimension audit 2: readOptions with an explicit argument count and an argv array that is longer than the
   count; assignment onto a tree that already holds content. *)
From Coq Require Import List Ascii ZArith NArith Bool Lia Arith.
From DuneV Require Import C12_Model C12_Spec C12_Proofs_Tree C12_Proofs_Opt.
Import ListNotations.
Local Open Scope char_scope.

(* the scan of C12_Spec: is the last counted argument an option that lacks its value? *)
Definition c12_opts_dangling (args : list c12_str) : bool := snd (c12_options_scan args).

Lemma c12_read_options_n_app : forall m args, length args <= m -> forall extra pt,
  c12_opts_dangling args = false \/ extra = [] ->
  c12_read_options_n (length args) (args ++ extra) pt = c12_read_options args pt.
Proof.
  unfold c12_opts_dangling.
  induction m as [|m IH]; intros args Hm extra pt H.
  - destruct args; [reflexivity|cbn in Hm; lia].
  - destruct args as [|a rest]; [reflexivity|]. cbn in Hm.
    cbn [length app c12_read_options_n c12_read_options].
    cbn [c12_options_scan] in H.
    destruct a as [|c [|c2 a']].
    + cbn [c12_is_option] in H. apply IH; [lia|exact H].
    + cbn [c12_is_option] in H.
      assert (E : c12_read_options_n (length rest) (rest ++ extra) pt = c12_read_options rest pt) by (apply IH; [lia|exact H]).
      destruct c as [[] [] [] [] [] [] [] []]; exact E.
    + cbn [c12_is_option] in H.
      destruct (Ascii.eqb_spec c "-"%char) as [->|Hc].
      * destruct rest as [|v rest'].
        -- cbn [app length]. destruct H as [H|H]; [cbn in H; discriminate|]. subst extra. reflexivity.
        -- cbn [app length].
           destruct (c12_set pt (c12_path (c2 :: a')) v) as [pt' ok]. destruct ok; [|reflexivity].
           assert (H' : snd (c12_options_scan rest') = false \/ extra = []).
           { destruct H as [H|H]; [left|right; exact H]. destruct (c12_options_scan rest') as [l d]. exact H. }
           cbn in Hm. specialize (IH rest' ltac:(lia) extra pt' H').
           destruct rest' as [|x r]; [reflexivity|]. exact IH.
      * assert (E : c12_read_options_n (length rest) (rest ++ extra) pt = c12_read_options rest pt) by (apply IH; [lia|exact H]).
        destruct c as [[] [] [] [] [] [] [] []]; try exact E; congruence.
Qed.

(* the C calling convention: argv[argc] == NULL *)
Lemma c12_read_options_n_terminated : forall args pt,
  c12_read_options_n (length args) args pt = c12_read_options args pt.
Proof.
  intros. rewrite <- (app_nil_r args) at 2. apply (c12_read_options_n_app (length args)); [lia|right; reflexivity].
Qed.

(* an argv array that goes on behind argc: the entries behind the count are not looked at, unless the last counted
   argument is an option without its value *)
Lemma c12_read_options_n_oversized : forall args extra pt,
  c12_opts_dangling args = false ->
  c12_read_options_n (length args) (args ++ extra) pt = c12_read_options args pt.
Proof. intros. apply (c12_read_options_n_app (length args)); [lia|left; assumption]. Qed.

(* never OutOfFuel when the array holds at least argc entries *)
Lemma c12_read_options_n_no_fuel : forall n argv pt, n <= length argv ->
  snd (c12_read_options_n n argv pt) <> C12OutOfFuel.
Proof.
  assert (G : forall m n, n <= m -> forall argv pt, n <= length argv -> snd (c12_read_options_n n argv pt) <> C12OutOfFuel).
  { induction m as [|m IH]; intros n Hn argv pt Hl.
    - assert (n = 0) by lia. subst. cbn. discriminate.
    - destruct n as [|n1]; [cbn; discriminate|].
      destruct argv as [|a rest]; [cbn in Hl; lia|]. cbn in Hl.
      cbn [c12_read_options_n].
      assert (E : snd (c12_read_options_n n1 rest pt) <> C12OutOfFuel) by (apply IH; lia).
      destruct a as [|c [|c2 a']]; [exact E| destruct c as [[] [] [] [] [] [] [] []]; exact E |].
      assert (K : snd (match rest with
                       | [] => (pt, C12RangeError)
                       | v :: rest' => let '(pt', ok) := c12_set pt (c12_path (c2 :: a')) v in
                           if ok then match n1 with O => (pt', C12Ok) | S n2 => c12_read_options_n n2 rest' pt' end
                           else (pt', C12RangeError) end) <> C12OutOfFuel).
      { destruct rest as [|v rest']; [cbn; discriminate|].
        destruct (c12_set pt (c12_path (c2 :: a')) v) as [pt' ok]. destruct ok; [|cbn; discriminate].
        destruct n1 as [|n2]; [cbn; discriminate|]. cbn in Hl. apply IH; lia. }
      destruct c as [[] [] [] [] [] [] [] []]; first [exact K | exact E]. }
  intros n argv pt H. apply (G n n (le_n _)). exact H.
Qed.

(* ------------------------------------------------------------------ assignment onto a tree that holds content *)
Lemma c12_tree_assign_replaces : forall target src, fst (c12_tree_assign target src) = src /\ snd (c12_tree_assign target src) = target.
Proof. intros [tv ts] [ov os]. split; reflexivity. Qed.

Lemma c12_tree_assign_observations : forall target src p pfx,
  let t' := fst (c12_tree_assign target src) in
  c12_has_key t' p = c12_has_key src p /\ c12_has_sub t' p = c12_has_sub src p /\
  c12_lookup t' p = c12_lookup src p /\ c12_report_lines t' pfx = c12_report_lines src pfx /\
  c12_vals t' = c12_vals src /\ c12_subs t' = c12_subs src.
Proof. intros. subst t'. destruct (c12_tree_assign_replaces target src) as [-> _]. repeat split. Qed.
