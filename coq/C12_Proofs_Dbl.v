(* C12 — Parser<double>: what the modelled extraction accepts is a floating literal, converted to exactly the
   decimal it denotes (no partially converted value). *)
From Coq Require Import List Ascii ZArith NArith Bool Lia.
From DuneV Require Import C12_Model C12_Spec C12_Proofs_Int.
Import ListNotations.
Local Open Scope char_scope.

Lemma c12_all_some_app : forall A B (f : A -> option B) a b va vb,
  c12_all_some f a = Some va -> c12_all_some f b = Some vb -> c12_all_some f (a ++ b) = Some (va ++ vb).
Proof.
  induction a as [|x a IH]; intros b va vb Ha Hb.
  - cbn in Ha. inversion Ha; subst. exact Hb.
  - cbn in Ha. destruct (f x) as [y|] eqn:Ef; [|discriminate].
    destruct (c12_all_some f a) as [ya|] eqn:Ea; [|discriminate]. inversion Ha; subst.
    cbn [app c12_all_some]. rewrite Ef, (IH b ya vb eq_refl Hb). reflexivity.
Qed.

Lemma c12_opt_sign_cases : forall s neg s1, c12_opt_sign s = (neg, s1) ->
  exists sg, s = sg ++ s1 /\ (sg = [] /\ neg = false \/ sg = ["+"] /\ neg = false \/ sg = ["-"] /\ neg = true).
Proof.
  intros s neg s1 H. unfold c12_opt_sign in H. destruct s as [|c r].
  - inversion H; subst. exists []. auto.
  - destruct (Ascii.eqb_spec c "-") as [->|Hm]; [inversion H; subst; exists ["-"]; auto|].
    destruct (Ascii.eqb_spec c "+") as [->|Hp]; [inversion H; subst; exists ["+"]; auto|].
    inversion H; subst. exists []. auto.
Qed.

Lemma c12_digits_value_of : forall ds vals, c12_all_some c12_digit ds = Some vals ->
  c12_digits_value ds = Some (fold_left c12_step vals 0%Z).
Proof. intros ds vals H. unfold c12_digits_value. rewrite H. reflexivity. Qed.

Lemma c12_extract_double_sound : forall s d rest e,
  c12_extract_double s = (Some d, rest, e) ->
  exists b lit, s = b ++ lit ++ rest /\ forallb c12_is_space b = true /\ c12_double_literal lit d.
Proof.
  intros s d rest e H. unfold c12_extract_double, c12_skip_space in H.
  destruct (c12_split_blanks s) as (b & Hs & Hb).
  destruct (c12_dropwhile c12_is_space s) as [|c0 r0] eqn:Es0; [discriminate|].
  set (s0 := c0 :: r0) in *.
  destruct (c12_opt_sign s0) as [neg s1] eqn:Esg.
  apply c12_opt_sign_cases in Esg as (sg & Hs0 & Hsg).
  destruct (c12_digits s1 0 O) as [[m1 n1] s2] eqn:Ed1.
  apply c12_digits_sound in Ed1 as (I & vI & -> & HvI & -> & -> & _).
  cbn [Nat.add] in H.
  (* the fraction *)
  assert (Hfrac : exists dot F vF s3,
             s2 = dot ++ F ++ s3 /\ (dot = [] /\ F = [] \/ dot = ["."]) /\ c12_all_some c12_digit F = Some vF /\
             (match s2 with
              | c :: r2 => if Ascii.eqb c "." then c12_digits r2 (fold_left c12_step vI 0%Z) O else (fold_left c12_step vI 0%Z, O, s2)
              | [] => (fold_left c12_step vI 0%Z, O, s2)
              end) = (fold_left c12_step (vI ++ vF) 0%Z, length F, s3)).
  { destruct s2 as [|c r2].
    - exists [], [], [], []. rewrite !app_nil_r. split; [reflexivity|]. split; [left; split; reflexivity|]. split; reflexivity.
    - destruct (Ascii.eqb_spec c ".") as [->|Hc].
      + destruct (c12_digits r2 (fold_left c12_step vI 0%Z) O) as [[m2 n2] s3] eqn:Ed2.
        apply c12_digits_sound in Ed2 as (F & vF & -> & HvF & -> & -> & _).
        exists ["."], F, vF, s3. rewrite fold_left_app. split; [reflexivity|]. split; [right; reflexivity|]. split; [exact HvF|reflexivity].
      + exists [], [], [], (c :: r2). rewrite !app_nil_r. split; [reflexivity|]. split; [left; split; reflexivity|]. split; reflexivity. }
  destruct Hfrac as (dot & F & vF & s3 & Hs2 & Hdot & HvF & Hfr). rewrite Hfr in H. clear Hfr.
  assert (HIF : c12_all_some c12_digit (I ++ F) = Some (vI ++ vF)) by (apply c12_all_some_app; assumption).
  destruct (length I + length F) as [|nn] eqn:Elen; [discriminate|].
  assert (Hne : I ++ F <> []).
  { intros Hnil. apply (f_equal (@length ascii)) in Hnil. rewrite app_length in Hnil. cbn in Hnil. lia. }
  assert (Hwhole : forall ex, s = b ++ (sg ++ I ++ dot ++ F ++ ex) ++ (match ex with [] => s3 | _ => [] end) ->
                   True) by auto.
  (* no exponent *)
  assert (Hplain : (Some (neg, fold_left c12_step (vI ++ vF) 0%Z, (- Z.of_nat (length F))%Z), s3, c12_is_nil s3) = (Some d, rest, e) ->
                   exists b lit, s = b ++ lit ++ rest /\ forallb c12_is_space b = true /\ c12_double_literal lit d).
  { intros Hp. inversion Hp; subst d rest. exists b, (sg ++ I ++ dot ++ F ++ []). split.
    - rewrite Hs. f_equal. subst s0. rewrite Hs0, Hs2. rewrite app_nil_r, <- !app_assoc. reflexivity.
    - split; [exact Hb|]. eapply C12DoubleLiteral; eauto. apply c12_digits_value_of. exact HIF. }
  destruct s3 as [|c r4]; [apply Hplain; exact H|].
  destruct (Ascii.eqb c "e" || Ascii.eqb c "E") eqn:Ee; [|apply Hplain; exact H].
  clear Hplain.
  destruct (c12_opt_sign r4) as [eneg s5] eqn:Esg2.
  apply c12_opt_sign_cases in Esg2 as (esg & Hr4 & Hesg).
  destruct (c12_digits s5 0 O) as [[ev en] s6] eqn:Ed3.
  apply c12_digits_sound in Ed3 as (X & vX & -> & HvX & -> & -> & _).
  destruct X as [|x0 X']; [cbn in H; discriminate|]. cbn [length Nat.add] in H. inversion H; subst d rest.
  exists b, (sg ++ I ++ dot ++ F ++ (c :: esg ++ (x0 :: X'))). split.
  - rewrite Hs. f_equal. subst s0. rewrite Hs0, Hs2, Hr4. rewrite <- !app_assoc. cbn [app]. rewrite <- !app_assoc. reflexivity.
  - split; [exact Hb|]. eapply C12DoubleLiteral; eauto; [apply c12_digits_value_of; exact HIF|].
    right. exists c, esg, eneg, (x0 :: X'), (fold_left c12_step vX 0%Z). split; [reflexivity|]. split.
    + apply orb_true_iff in Ee as [Ee|Ee]; apply Ascii.eqb_eq in Ee; auto.
    + split; [exact Hesg|]. split; [discriminate|]. split; [apply c12_digits_value_of; exact HvX|reflexivity].
Qed.

(* C12_double_sound: get<double> converts only texts of the form  blank* literal blank*  and returns exactly the
   decimal the literal denotes *)
Lemma c12_double_sound : forall s d,
  c12_parse_scalar c12_extract_double s = Some d ->
  exists b lit b2, s = b ++ lit ++ b2 /\ forallb c12_is_space b = true /\ forallb c12_is_space b2 = true /\
                   c12_double_literal lit d.
Proof.
  intros s d H. unfold c12_parse_scalar in H.
  destruct (c12_extract_double s) as [[[d'|] rest] e] eqn:E; [|discriminate].
  destruct (c12_is_nil (c12_skip_space rest)) eqn:En; [|discriminate]. inversion H; subst d'.
  apply c12_extract_double_sound in E as (b & lit & Hs & Hb & Hl).
  exists b, lit, rest. repeat split; auto.
  unfold c12_skip_space in En. rewrite c12_is_nil_dropwhile in En. exact En.
Qed.

(* ------------------------------------------------------------------ completeness *)

Lemma c12_space_not_digit : forall c, c12_is_space c = true -> c12_digit c = None.
Proof.
  intros c H. destruct (c12_digit c) as [d|] eqn:E; [|reflexivity].
  rewrite (c12_digit_nonspace _ _ E) in H. discriminate.
Qed.

Lemma c12_blank_nondigit_start : forall b, forallb c12_is_space b = true -> c12_nondigit_start b.
Proof. intros [|c b] H; [exact I|]. cbn in *. apply andb_true_iff in H as [H _]. apply c12_space_not_digit. exact H. Qed.

Lemma c12_digits_value_inv : forall ds m, c12_digits_value ds = Some m ->
  exists vals, c12_all_some c12_digit ds = Some vals /\ m = fold_left c12_step vals 0%Z.
Proof.
  intros ds m H. unfold c12_digits_value in H. destruct (c12_all_some c12_digit ds) as [vals|]; [|discriminate].
  inversion H; subst. exists vals. split; reflexivity.
Qed.

Lemma c12_all_some_app_inv : forall A B (f : A -> option B) a b v,
  c12_all_some f (a ++ b) = Some v -> exists va vb, c12_all_some f a = Some va /\ c12_all_some f b = Some vb /\ v = va ++ vb.
Proof.
  induction a as [|x a IH]; intros b v H.
  - exists [], v. repeat split; auto.
  - cbn [app c12_all_some] in H. destruct (f x) as [y|] eqn:Ef; [|discriminate].
    destruct (c12_all_some f (a ++ b)) as [w|] eqn:Ew; [|discriminate]. inversion H; subst.
    destruct (IH b w Ew) as (va & vb & Ha & Hb & ->). exists (y :: va), vb. cbn. rewrite Ef, Ha. repeat split; auto.
Qed.

Lemma c12_opt_sign_app : forall sg neg s,
  (sg = [] /\ neg = false \/ sg = ["+"] /\ neg = false \/ sg = ["-"] /\ neg = true) ->
  (match s with c :: _ => Ascii.eqb c "-" = false /\ Ascii.eqb c "+" = false | [] => True end) ->
  c12_opt_sign (sg ++ s) = (neg, s).
Proof.
  intros sg neg s [[-> ->]|[[-> ->]|[-> ->]]] Hs; try reflexivity.
  cbn [app]. unfold c12_opt_sign. destruct s as [|c r]; [reflexivity|]. destruct Hs as [H1 H2]. rewrite H1, H2. reflexivity.
Qed.

Lemma c12_digit_not_sign : forall c d, c12_digit c = Some d -> Ascii.eqb c "-" = false /\ Ascii.eqb c "+" = false.
Proof.
  intros c d H. split.
  - destruct (Ascii.eqb_spec c "-"); [subst; vm_compute in H; discriminate|reflexivity].
  - destruct (Ascii.eqb_spec c "+"); [subst; vm_compute in H; discriminate|reflexivity].
Qed.

Lemma c12_digit_not_dot_e : forall c d, c12_digit c = Some d ->
  Ascii.eqb c "." = false /\ (Ascii.eqb c "e" || Ascii.eqb c "E") = false.
Proof.
  intros c d H. split.
  - destruct (Ascii.eqb_spec c "."); [subst; vm_compute in H; discriminate|reflexivity].
  - destruct (Ascii.eqb_spec c "e"); [subst; vm_compute in H; discriminate|].
    destruct (Ascii.eqb_spec c "E"); [subst; vm_compute in H; discriminate|reflexivity].
Qed.

Lemma c12_space_not_special : forall c, c12_is_space c = true ->
  Ascii.eqb c "-" = false /\ Ascii.eqb c "+" = false /\ Ascii.eqb c "." = false /\ (Ascii.eqb c "e" || Ascii.eqb c "E") = false.
Proof.
  intros c H. repeat split.
  - destruct (Ascii.eqb_spec c "-"); [subst; discriminate|reflexivity].
  - destruct (Ascii.eqb_spec c "+"); [subst; discriminate|reflexivity].
  - destruct (Ascii.eqb_spec c "."); [subst; discriminate|reflexivity].
  - destruct (Ascii.eqb_spec c "e"); [subst; discriminate|]. destruct (Ascii.eqb_spec c "E"); [subst; discriminate|reflexivity].
Qed.

Lemma c12_all_some_head : forall ds vals c r, ds = c :: r -> c12_all_some c12_digit ds = Some vals -> exists d, c12_digit c = Some d.
Proof. intros ds vals c r -> H. cbn in H. destruct (c12_digit c) as [d|]; [eauto|discriminate]. Qed.

Definition c12_dbl_frac (s2 : c12_str) (m1 : Z) : Z * nat * c12_str :=
  match s2 with
  | c :: r2 => if Ascii.eqb c "." then c12_digits r2 m1 O else (m1, O, s2)
  | [] => (m1, O, s2)
  end.
Definition c12_dbl_exp (neg : bool) (m2 : Z) (n2 : nat) (s3 : c12_str) : option (bool * Z * Z) * c12_str * bool :=
  let plain := (Some (neg, m2, (- Z.of_nat n2)%Z), s3, c12_is_nil s3) in
  match s3 with
  | c :: r4 =>
    if Ascii.eqb c "e" || Ascii.eqb c "E" then
      let '(eneg, s5) := c12_opt_sign r4 in
      let '(ev, en, s6) := c12_digits s5 0 O in
      match en with
      | O => (None, s6, c12_is_nil s6)
      | S _ => (Some (neg, m2, ((if eneg then - ev else ev) - Z.of_nat n2)%Z), s6, c12_is_nil s6)
      end
    else plain
  | [] => plain
  end.
Definition c12_double_body (s0 : c12_str) : option (bool * Z * Z) * c12_str * bool :=
  let '(neg, s1) := c12_opt_sign s0 in
  let '(m1, n1, s2) := c12_digits s1 0 O in
  let '(m2, n2, s3) := c12_dbl_frac s2 m1 in
  match (n1 + n2)%nat with
  | O => (None, s3, c12_is_nil s3)
  | S _ => c12_dbl_exp neg m2 n2 s3
  end.

Lemma c12_extract_double_body : forall b c r, forallb c12_is_space b = true -> c12_is_space c = false ->
  c12_extract_double (b ++ c :: r) = c12_double_body (c :: r).
Proof.
  intros b c r Hb Hc. unfold c12_extract_double, c12_skip_space. rewrite (c12_dropwhile_app _ _ Hb).
  cbn [c12_dropwhile]. rewrite Hc. reflexivity.
Qed.

Lemma c12_double_complete : forall b lit b2 d,
  forallb c12_is_space b = true -> forallb c12_is_space b2 = true -> c12_double_literal lit d ->
  c12_parse_scalar c12_extract_double (b ++ lit ++ b2) = Some d.
Proof.
  intros b lit b2 d Hb Hb2 Hl. inversion Hl as [sg neg Ip dot F ex m e Hsg Hdot Hne Hm Hex]; subst lit d. clear Hl.
  apply c12_digits_value_inv in Hm as (vIF & HvIF & ->).
  apply c12_all_some_app_inv in HvIF as (vI & vF & HvI & HvF & ->).
  pose proof (c12_blank_nondigit_start b2 Hb2) as Hb2n.
  (* what follows the mantissa *)
  set (tail := ex ++ b2).
  assert (Htail_nd : c12_nondigit_start tail).
  { subst tail. destruct Hex as [[-> _]|(ec & esg & eneg & X & xv & -> & Hec & _)]; [exact Hb2n|].
    cbn. destruct Hec as [->| ->]; reflexivity. }
  assert (Htail_nodot : match tail with c :: _ => Ascii.eqb c "." = false | [] => True end).
  { subst tail. destruct Hex as [[-> _]|(ec & esg & eneg & X & xv & -> & Hec & _)].
    - destruct b2 as [|c b2']; [exact Logic.I|]. cbn in Hb2. apply andb_true_iff in Hb2 as [Hc _].
      apply (c12_space_not_special c Hc).
    - cbn. destruct Hec as [->| ->]; reflexivity. }
  set (rest1 := dot ++ F ++ tail).
  assert (Hrest1_nd : c12_nondigit_start rest1).
  { subst rest1. destruct Hdot as [[-> ->]| ->]; [exact Htail_nd|reflexivity]. }
  assert (Hfr : c12_dbl_frac rest1 (fold_left c12_step vI 0%Z) = (fold_left c12_step (vI ++ vF) 0%Z, length F, tail)).
  { unfold c12_dbl_frac. subst rest1. destruct Hdot as [[-> ->]| ->].
    - cbn in HvF. inversion HvF; subst vF. rewrite app_nil_r. cbn [app length].
      destruct tail as [|c t]; [reflexivity|]. rewrite Htail_nodot. reflexivity.
    - cbn [app]. rewrite Ascii.eqb_refl. rewrite (c12_digits_complete F vF tail _ _ HvF Htail_nd).
      rewrite fold_left_app. reflexivity. }
  (* the whole text behind the blanks, and its first character *)
  assert (Hs1_head : match Ip ++ rest1 with c :: _ => Ascii.eqb c "-" = false /\ Ascii.eqb c "+" = false /\ c12_is_space c = false | [] => False end).
  { destruct Ip as [|c Ip'].
    - cbn [app]. subst rest1. destruct Hdot as [[-> ->]| ->]; [cbn in Hne; congruence|]. cbn. repeat split; reflexivity.
    - cbn [app]. destruct (c12_all_some_head _ _ c Ip' eq_refl HvI) as [dg Hdg].
      destruct (c12_digit_not_sign _ _ Hdg). repeat split; auto. apply (c12_digit_nonspace _ _ Hdg). }
  replace (b ++ (sg ++ Ip ++ dot ++ F ++ ex) ++ b2) with (b ++ sg ++ Ip ++ rest1)
    by (subst rest1 tail; rewrite <- !app_assoc; reflexivity).
  unfold c12_parse_scalar.
  assert (Hbody : c12_extract_double (b ++ sg ++ Ip ++ rest1) = c12_double_body (sg ++ Ip ++ rest1)).
  { destruct (sg ++ Ip ++ rest1) as [|c r] eqn:E.
    - exfalso. destruct sg; [|discriminate]. cbn in E. rewrite E in Hs1_head. exact Hs1_head.
    - apply c12_extract_double_body; [exact Hb|].
      destruct Hsg as [[-> _]|[[-> _]|[-> _]]]; cbn in E.
      + rewrite E in Hs1_head. apply Hs1_head.
      + inversion E; reflexivity.
      + inversion E; reflexivity. }
  rewrite Hbody. unfold c12_double_body.
  rewrite (c12_opt_sign_app sg neg (Ip ++ rest1) Hsg) by (destruct (Ip ++ rest1); [exact Logic.I|split; apply Hs1_head]).
  rewrite (c12_digits_complete Ip vI rest1 _ _ HvI Hrest1_nd). cbn [Nat.add]. rewrite Hfr.
  assert (Hlen : exists nn, length Ip + length F = S nn).
  { destruct (length Ip + length F) eqn:El; [|eauto]. exfalso. apply Hne.
    destruct Ip; [destruct F; [reflexivity|discriminate]|discriminate]. }
  destruct Hlen as [nn ->]. unfold c12_dbl_exp.
  subst tail. destruct Hex as [[-> ->]|(ec & esg & eneg & X & xv & -> & Hec & Hesg & HXne & HX & ->)].
  - cbn [app].
    assert (Hplain : forall (T : Type) (x y : T), (match b2 with c :: _ => if Ascii.eqb c "e" || Ascii.eqb c "E" then x else y | [] => y end) = y).
    { intros T x y. destruct b2 as [|c b2']; [reflexivity|]. cbn in Hb2. apply andb_true_iff in Hb2 as [Hc _].
      destruct (c12_space_not_special c Hc) as (_ & _ & _ & He). rewrite He. reflexivity. }
    destruct b2 as [|c b2'].
    + reflexivity.
    + pose proof Hb2 as Hb2'. cbn in Hb2'. apply andb_true_iff in Hb2' as [Hc _].
      destruct (c12_space_not_special c Hc) as (_ & _ & _ & He). rewrite He.
      unfold c12_skip_space. rewrite c12_is_nil_dropwhile, Hb2. reflexivity.
  - apply c12_digits_value_inv in HX as (vX & HvX & ->).
    cbn [app].
    assert (Hee : (Ascii.eqb ec "e" || Ascii.eqb ec "E") = true) by (destruct Hec as [->| ->]; reflexivity).
    rewrite Hee. rewrite <- app_assoc.
    assert (HXhead : match X ++ b2 with c :: _ => Ascii.eqb c "-" = false /\ Ascii.eqb c "+" = false | [] => True end).
    { destruct X as [|x X']; [congruence|]. cbn [app].
      destruct (c12_all_some_head _ _ x X' eq_refl HvX) as [dg Hdg]. apply (c12_digit_not_sign _ _ Hdg). }
    rewrite (c12_opt_sign_app esg eneg (X ++ b2) Hesg HXhead).
    rewrite (c12_digits_complete X vX b2 _ _ HvX Hb2n). cbn [Nat.add].
    destruct X as [|x X']; [congruence|]. cbn [length].
    unfold c12_skip_space. rewrite c12_is_nil_dropwhile, Hb2. reflexivity.
Qed.

(* C12_double_exact: get<double> converts exactly the texts  blank* literal blank*, to exactly the decimal the
   literal denotes *)
Lemma c12_double_exact : forall s d,
  c12_parse_scalar c12_extract_double s = Some d <->
  exists b lit b2, s = b ++ lit ++ b2 /\ forallb c12_is_space b = true /\ forallb c12_is_space b2 = true /\
                   c12_double_literal lit d.
Proof.
  intros s d. split; [apply c12_double_sound|].
  intros (b & lit & b2 & -> & Hb & Hb2 & Hl). apply c12_double_complete; assumption.
Qed.

(* ------------------------------------------------------------------ fixed-size ranges of any element type *)
Lemma c12_range_sound_generic : forall A (Tok : c12_str -> A -> Prop) (ex : c12_str -> option A * c12_str * bool),
  (forall s v rest e, ex s = (Some v, rest, e) ->
     exists b t, s = b ++ t ++ rest /\ forallb c12_is_space b = true /\ Tok t v) ->
  forall n s vs, c12_parse_range true ex n s = Some vs ->
  exists rest, c12_gitems Tok n s vs rest /\ forallb c12_is_space rest = true.
Proof.
  intros A Tok ex Hex.
  assert (G : forall n s vs rest, c12_range_items ex n s = Some (vs, rest) -> c12_gitems Tok n s vs rest).
  { induction n as [|n IH]; intros s vs rest H; cbn in H.
    - inversion H; subst. constructor.
    - destruct (ex s) as [[[v|] r] e] eqn:E; [|discriminate].
      destruct (c12_range_items ex n r) as [[vs' r']|] eqn:Er; [|discriminate]. inversion H; subst.
      apply Hex in E as (b & t & -> & Hb & Ht). constructor; auto. }
  intros n s vs H. unfold c12_parse_range in H.
  destruct (c12_range_items ex n s) as [[vs' rest]|] eqn:E; [|discriminate].
  destruct (c12_is_nil (c12_skip_space rest)) eqn:En; [|discriminate]. inversion H; subst.
  exists rest. split; [apply G; exact E|]. unfold c12_skip_space in En. rewrite c12_is_nil_dropwhile in En. exact En.
Qed.

(* get<FieldVector<double,n>> / get<std::array<double,n>>: only n floating literals (each optionally preceded by
   blanks) followed by blanks convert, each to exactly the decimal it denotes *)
Lemma c12_range_sound_double : forall n s vs,
  c12_parse_range true c12_extract_double n s = Some vs ->
  exists rest, c12_gitems c12_double_literal n s vs rest /\ forallb c12_is_space rest = true.
Proof.
  apply c12_range_sound_generic. intros s v rest e H.
  apply c12_extract_double_sound in H as (b & lit & Hs & Hb & Hl). exists b, lit. auto.
Qed.
