(* C12 — frame lemmas of the tree (an assignment does not disturb unrelated keys) and the
   whole-source theorem: every key of a hierarchy maps to exactly its written value. *)
From Coq Require Import List Ascii ZArith NArith Bool Lia.
From DuneV Require Import C12_Model C12_Spec C12_Proofs_Tree.
Import ListNotations.

Lemma c12_eqs_sym : forall a b, c12_eqs a b = c12_eqs b a.
Proof.
  induction a as [|x a IH]; intros [|y b]; cbn; try reflexivity.
  rewrite IH. f_equal. destruct (Ascii.eqb_spec x y), (Ascii.eqb_spec y x); congruence.
Qed.

Lemma c12_assoc_set_other : forall A k k' (a : A) l,
  c12_eqs k' k = false -> c12_assoc k' (c12_assoc_set k a l) = c12_assoc k' l.
Proof.
  induction l as [|[k0 a0] l IH]; intros H; cbn.
  - rewrite H. reflexivity.
  - destruct (c12_eqs k k0) eqn:E; cbn.
    + apply c12_eqs_eq in E. subst k0. rewrite H. reflexivity.
    + destruct (c12_eqs k' k0); [reflexivity|apply IH; exact H].
Qed.

Lemma c12_assoc_app_other : forall A k k' (a : A) l,
  c12_eqs k' k = false -> c12_assoc k' (l ++ [(k, a)]) = c12_assoc k' l.
Proof.
  induction l as [|[k0 a0] l IH]; intros H; cbn.
  - rewrite H. reflexivity.
  - destruct (c12_eqs k' k0); [reflexivity|apply IH; exact H].
Qed.

Lemma c12_mem_set_other : forall A k k' (a : A) l,
  c12_eqs k' k = false -> c12_mem k' (c12_assoc_set k a l) = c12_mem k' l.
Proof. intros. unfold c12_mem. rewrite c12_assoc_set_other by assumption. reflexivity. Qed.
Lemma c12_mem_app_other : forall A k k' (a : A) l,
  c12_eqs k' k = false -> c12_mem k' (l ++ [(k, a)]) = c12_mem k' l.
Proof. intros. unfold c12_mem. rewrite c12_assoc_app_other by assumption. reflexivity. Qed.
Lemma c12_mem_set_same : forall A k (a : A) l, c12_mem k (c12_assoc_set k a l) = true.
Proof. intros. unfold c12_mem. rewrite c12_assoc_set_same. reflexivity. Qed.

(* one-level unfoldings *)
Lemma c12_has_key_cons2 : forall t k k2 r,
  c12_has_key t (k :: k2 :: r) =
  match c12_assoc k (c12_subs t) with
  | None => Some false
  | Some s => if c12_mem k (c12_vals t) then None else c12_has_key s (k2 :: r)
  end.
Proof. reflexivity. Qed.
Lemma c12_has_key_leaf : forall t k,
  c12_has_key t [k] = match c12_assoc k (c12_vals t) with
                      | Some _ => if c12_mem k (c12_subs t) then None else Some true
                      | None => Some false end.
Proof. reflexivity. Qed.
Lemma c12_has_sub_leaf : forall t k,
  c12_has_sub t [k] = match c12_assoc k (c12_subs t) with
                      | Some _ => if c12_mem k (c12_vals t) then None else Some true
                      | None => Some false end.
Proof. reflexivity. Qed.
Lemma c12_lookup_leaf : forall t k,
  c12_lookup t [k] = match c12_assoc k (c12_vals t) with
                     | Some v => if c12_mem k (c12_subs t) then None else Some v
                     | None => None end.
Proof. reflexivity. Qed.
Lemma c12_upd_leaf : forall t k f,
  c12_upd t [k] f = match c12_assoc k (c12_vals t) with
                    | Some old => if c12_mem k (c12_subs t) then (t, false)
                                  else (C12Node (c12_assoc_set k (f (Some old)) (c12_vals t)) (c12_subs t), true)
                    | None => (C12Node (c12_vals t ++ [(k, f None)]) (c12_subs t), true)
                    end.
Proof. reflexivity. Qed.

Lemma c12_lookup_empty : forall p, c12_lookup c12_empty p = None.
Proof. destruct p as [|k [|k2 r]]; reflexivity. Qed.
Lemma c12_has_key_empty : forall p, c12_has_key c12_empty p = Some false.
Proof. destruct p as [|k [|k2 r]]; reflexivity. Qed.

(* the observations of the tree at a path *)
Definition c12_obs (t : c12_tree) (q : list c12_str) :=
  (c12_lookup t q, c12_has_key t q, c12_has_sub t q).

Lemma c12_obs_cons2 : forall t k k2 r,
  c12_obs t (k :: k2 :: r) =
  match c12_assoc k (c12_subs t) with
  | None => (None, Some false, Some false)
  | Some s => if c12_mem k (c12_vals t) then (None, None, None) else c12_obs s (k2 :: r)
  end.
Proof.
  intros. unfold c12_obs. rewrite c12_lookup_cons2, c12_has_key_cons2, c12_has_sub_cons2.
  destruct (c12_assoc k (c12_subs t)); destruct (c12_mem k (c12_vals t)); reflexivity.
Qed.

Lemma c12_obs_leaf_ext : forall t1 t2 k,
  c12_assoc k (c12_vals t1) = c12_assoc k (c12_vals t2) ->
  c12_assoc k (c12_subs t1) = c12_assoc k (c12_subs t2) ->
  c12_obs t1 [k] = c12_obs t2 [k].
Proof.
  intros t1 t2 k Hv Hs. unfold c12_obs.
  rewrite !c12_lookup_leaf, !c12_has_key_leaf, !c12_has_sub_leaf. unfold c12_mem. rewrite Hv, Hs. reflexivity.
Qed.

Lemma c12_obs_cons2_ext : forall t1 t2 k k2 r,
  c12_assoc k (c12_vals t1) = c12_assoc k (c12_vals t2) ->
  c12_assoc k (c12_subs t1) = c12_assoc k (c12_subs t2) ->
  c12_obs t1 (k :: k2 :: r) = c12_obs t2 (k :: k2 :: r).
Proof.
  intros t1 t2 k k2 r Hv Hs. rewrite (c12_obs_cons2 t1), (c12_obs_cons2 t2). unfold c12_mem. rewrite Hv, Hs. reflexivity.
Qed.

Lemma c12_obs_ext : forall t1 t2 k q,
  c12_assoc k (c12_vals t1) = c12_assoc k (c12_vals t2) ->
  c12_assoc k (c12_subs t1) = c12_assoc k (c12_subs t2) ->
  c12_obs t1 (k :: q) = c12_obs t2 (k :: q).
Proof. intros t1 t2 k [|k2 r]; [apply c12_obs_leaf_ext|apply c12_obs_cons2_ext]. Qed.

Lemma c12_obs_empty : forall q, c12_obs c12_empty q = (None, Some false, Some false).
Proof. intros. unfold c12_obs. rewrite c12_lookup_empty, c12_has_key_empty, c12_has_sub_empty. reflexivity. Qed.

(* FRAME: pt[p] = ... leaves every observation at an unrelated path q unchanged
   (whether or not the assignment itself succeeds) *)
Lemma c12_upd_frame : forall p q t f,
  c12_unrel p q = true -> c12_obs (fst (c12_upd t p f)) q = c12_obs t q.
Proof.
  induction p as [|k p IH]; intros q t f H; [discriminate|].
  destruct q as [|k' q]; [discriminate|]. cbn [c12_unrel] in H.
  destruct (c12_eqs k k') eqn:Ek.
  - (* same first segment: both continue below it *)
    apply c12_eqs_eq in Ek. subst k'.
    destruct p as [|k2 p]; [discriminate|]. destruct q as [|q2 q]; [destruct k2; discriminate|].
    rewrite c12_upd_cons2.
    destruct (c12_mem k (c12_vals t)) eqn:Hv; [reflexivity|]. cbv zeta.
    specialize (IH (q2 :: q) (match c12_assoc k (c12_subs t) with Some s => s | None => c12_empty end) f H).
    destruct (c12_upd (match c12_assoc k (c12_subs t) with Some s => s | None => c12_empty end) (k2 :: p) f)
      as [s' ok]. cbn [fst] in *.
    rewrite (c12_obs_cons2 (C12Node _ _)), (c12_obs_cons2 t). cbn [c12_vals c12_subs].
    rewrite Hv, c12_assoc_set_same.
    destruct (c12_assoc k (c12_subs t)) as [s|]; [exact IH|].
    rewrite IH. apply c12_obs_empty.
  - (* different first segment *)
    assert (Ek' : c12_eqs k' k = false) by (rewrite c12_eqs_sym; exact Ek).
    destruct p as [|k2 p].
    + rewrite c12_upd_leaf.
      destruct (c12_assoc k (c12_vals t)) as [old|] eqn:Ea.
      * destruct (c12_mem k (c12_subs t)); [reflexivity|]. cbn [fst].
        apply c12_obs_ext; cbn [c12_vals c12_subs]; [apply c12_assoc_set_other; exact Ek'|reflexivity].
      * cbn [fst]. apply c12_obs_ext; cbn [c12_vals c12_subs]; [apply c12_assoc_app_other; exact Ek'|reflexivity].
    + rewrite c12_upd_cons2. destruct (c12_mem k (c12_vals t)); [reflexivity|]. cbv zeta.
      destruct (c12_upd _ (k2 :: p) f) as [s' ok]. cbn [fst].
      apply c12_obs_ext; cbn [c12_vals c12_subs]; [reflexivity|apply c12_assoc_set_other; exact Ek'].
Qed.

(* ------------------------------------------------------------------ fresh keys *)

(* p can be assigned as a new key: no segment on the way is a value, the last one is neither value nor subtree *)
Fixpoint c12_free (t : c12_tree) (p : list c12_str) : bool :=
  match p with
  | [] => false
  | k :: rest =>
    match rest with
    | [] => negb (c12_mem k (c12_vals t)) && negb (c12_mem k (c12_subs t))
    | _ => negb (c12_mem k (c12_vals t)) &&
           match c12_assoc k (c12_subs t) with None => true | Some s => c12_free s rest end
    end
  end.

Lemma c12_free_cons2 : forall t k k2 r,
  c12_free t (k :: k2 :: r) =
  negb (c12_mem k (c12_vals t)) && match c12_assoc k (c12_subs t) with None => true | Some s => c12_free s (k2 :: r) end.
Proof. reflexivity. Qed.

Lemma c12_free_empty : forall p, p <> [] -> c12_free c12_empty p = true.
Proof. destruct p as [|k [|k2 r]]; intros H; [congruence|reflexivity|reflexivity]. Qed.

Lemma c12_mem_false_assoc : forall A k (l : list (c12_str * A)), c12_mem k l = false -> c12_assoc k l = None.
Proof. intros A k l H. unfold c12_mem in H. destruct (c12_assoc k l); [discriminate|reflexivity]. Qed.

Lemma c12_free_has_key : forall p t, c12_free t p = true -> c12_has_key t p = Some false.
Proof.
  induction p as [|k p IH]; intros t H; [discriminate|]. destruct p as [|k2 p].
  - cbn in H. apply andb_true_iff in H as [H1 _]. apply negb_true_iff in H1.
    rewrite c12_has_key_leaf, (c12_mem_false_assoc _ _ _ H1). reflexivity.
  - rewrite c12_free_cons2 in H. apply andb_true_iff in H as [H1 H2]. apply negb_true_iff in H1.
    rewrite c12_has_key_cons2, H1. destruct (c12_assoc k (c12_subs t)); [apply IH; exact H2|reflexivity].
Qed.

Lemma c12_free_upd : forall p t f, c12_free t p = true ->
  exists t', c12_upd t p f = (t', true) /\ c12_lookup t' p = Some (f None).
Proof.
  induction p as [|k p IH]; intros t f H; [discriminate|]. destruct p as [|k2 p].
  - cbn in H. apply andb_true_iff in H as [H1 H2]. apply negb_true_iff in H1, H2.
    rewrite c12_upd_leaf, (c12_mem_false_assoc _ _ _ H1). eexists. split; [reflexivity|].
    rewrite c12_lookup_leaf. cbn [c12_vals c12_subs].
    rewrite (c12_assoc_app_none _ _ _ _ (c12_mem_false_assoc _ _ _ H1)), H2. reflexivity.
  - rewrite c12_free_cons2 in H. apply andb_true_iff in H as [H1 H2]. apply negb_true_iff in H1.
    rewrite c12_upd_cons2, H1. cbv zeta.
    assert (Hf : c12_free (match c12_assoc k (c12_subs t) with Some s => s | None => c12_empty end) (k2 :: p) = true).
    { destruct (c12_assoc k (c12_subs t)); [exact H2|apply c12_free_empty; discriminate]. }
    destruct (IH _ f Hf) as (s' & Hu & Hl). rewrite Hu. eexists. split; [reflexivity|].
    rewrite c12_lookup_cons2. cbn [c12_vals c12_subs]. rewrite H1, c12_assoc_set_same. exact Hl.
Qed.

Lemma c12_free_frame : forall p q t f,
  c12_unrel p q = true -> c12_free t q = true -> c12_free (fst (c12_upd t p f)) q = true.
Proof.
  induction p as [|k p IH]; intros q t f H Hq; [discriminate|].
  destruct q as [|k' q]; [discriminate|]. cbn [c12_unrel] in H.
  destruct (c12_eqs k k') eqn:Ek.
  - apply c12_eqs_eq in Ek. subst k'.
    destruct p as [|k2 p]; [discriminate|]. destruct q as [|q2 q]; [destruct k2; discriminate|].
    rewrite c12_free_cons2 in Hq. apply andb_true_iff in Hq as [H1 H2]. apply negb_true_iff in H1.
    rewrite c12_upd_cons2, H1. cbv zeta.
    assert (Hf : c12_free (match c12_assoc k (c12_subs t) with Some s => s | None => c12_empty end) (q2 :: q) = true).
    { destruct (c12_assoc k (c12_subs t)); [exact H2|apply c12_free_empty; discriminate]. }
    specialize (IH (q2 :: q) _ f H Hf).
    destruct (c12_upd (match c12_assoc k (c12_subs t) with Some s => s | None => c12_empty end) (k2 :: p) f) as [s' ok].
    cbn [fst] in *. rewrite c12_free_cons2. cbn [c12_vals c12_subs]. rewrite H1, c12_assoc_set_same. exact IH.
  - assert (Ek' : c12_eqs k' k = false) by (rewrite c12_eqs_sym; exact Ek).
    assert (Hext : forall t', c12_assoc k' (c12_vals t') = c12_assoc k' (c12_vals t) ->
                               c12_assoc k' (c12_subs t') = c12_assoc k' (c12_subs t) -> c12_free t' (k' :: q) = true).
    { intros t' Hv Hs. rewrite <- Hq. destruct q as [|q2 q].
      - cbn. unfold c12_mem. rewrite Hv, Hs. reflexivity.
      - rewrite !c12_free_cons2. unfold c12_mem. rewrite Hv, Hs. reflexivity. }
    destruct p as [|k2 p].
    + rewrite c12_upd_leaf. destruct (c12_assoc k (c12_vals t)) as [old|].
      * destruct (c12_mem k (c12_subs t)); [exact Hq|]. cbn [fst].
        apply Hext; cbn [c12_vals c12_subs]; [apply c12_assoc_set_other; exact Ek'|reflexivity].
      * cbn [fst]. apply Hext; cbn [c12_vals c12_subs]; [apply c12_assoc_app_other; exact Ek'|reflexivity].
    + rewrite c12_upd_cons2. destruct (c12_mem k (c12_vals t)); [exact Hq|]. cbv zeta.
      destruct (c12_upd _ (k2 :: p) f) as [s' ok]. cbn [fst].
      apply Hext; cbn [c12_vals c12_subs]; [reflexivity|apply c12_assoc_set_other; exact Ek'].
Qed.

Lemma c12_unrel_sym : forall p q, c12_unrel p q = c12_unrel q p.
Proof.
  induction p as [|k p IH]; intros [|k' q]; cbn; try reflexivity.
  rewrite c12_eqs_sym. destruct (c12_eqs k' k); [apply IH|reflexivity].
Qed.

Lemma c12_unrel_irrefl : forall p, c12_unrel p p = false.
Proof. induction p as [|k p IH]; cbn; [reflexivity|]. rewrite c12_eqs_refl. exact IH. Qed.

(* ------------------------------------------------------------------ a whole source *)

Definition c12_keys_free (kvs : list (c12_str * c12_str)) (t : c12_tree) (seen : list c12_str) : Prop :=
  forall k v, In (k, v) kvs -> c12_free t (c12_path k) = true /\ existsb (c12_eqs k) seen = false.

Lemma c12_eqs_false_neq : forall a b, a <> b -> c12_eqs a b = false.
Proof. intros a b H. destruct (c12_eqs a b) eqn:E; [apply c12_eqs_eq in E; contradiction|reflexivity]. Qed.

(* C12_values: reading a hierarchy (pairwise unrelated paths) whose keys are fresh in the tree succeeds,
   afterwards every key maps to exactly its written value, and everything unrelated to the written
   keys -- in particular every pre-existing entry -- is observed exactly as before.  Both overwrite modes. *)
Lemma c12_values : forall kvs t seen ow,
  c12_hierarchy (map (fun kv => c12_path (fst kv)) kvs) = true ->
  c12_keys_free kvs t seen ->
  exists t', c12_store_all kvs t seen ow = (t', C12Ok) /\
             (forall k v, In (k, v) kvs -> c12_lookup t' (c12_path k) = Some v) /\
             (forall q, (forall k v, In (k, v) kvs -> c12_unrel (c12_path k) q = true) -> c12_obs t' q = c12_obs t q).
Proof.
  induction kvs as [|[k v] kvs IH]; intros t seen ow Hh Hf.
  - exists t. split; [reflexivity|]. split; [intros k v []|reflexivity].
  - cbn [map c12_hierarchy fst] in Hh. apply andb_true_iff in Hh as [Hk Hh].
    destruct (Hf k v (or_introl eq_refl)) as [Hfree Hseen].
    destruct (c12_free_upd _ t (fun _ => v) Hfree) as (t1 & Hu & Hl1).
    assert (Hstore : c12_store t seen ow k v = inl (t1, k :: seen)).
    { unfold c12_store. rewrite Hseen. rewrite (c12_free_has_key _ _ Hfree). cbn [negb].
      unfold c12_set. rewrite Hu. destruct ow; reflexivity. }
    assert (Hrest : forall k' v', In (k', v') kvs -> c12_unrel (c12_path k) (c12_path k') = true).
    { intros k' v' Hin. rewrite forallb_forall in Hk. apply Hk. apply in_map_iff. exists (k', v'). split; [reflexivity|exact Hin]. }
    assert (Hf1 : c12_keys_free kvs t1 (k :: seen)).
    { intros k' v' Hin. destruct (Hf k' v' (or_intror Hin)) as [Hfr Hs]. split.
      - replace t1 with (fst (c12_upd t (c12_path k) (fun _ => v))) by (rewrite Hu; reflexivity).
        apply c12_free_frame; [apply (Hrest k' v' Hin)|exact Hfr].
      - cbn. rewrite Hs, orb_false_r. apply c12_eqs_false_neq. intros ->.
        pose proof (Hrest k v' Hin) as Hc. rewrite c12_unrel_irrefl in Hc. discriminate. }
    destruct (IH t1 (k :: seen) ow Hh Hf1) as (t' & Hs' & Hl' & Hfr').
    exists t'. cbn [c12_store_all]. rewrite Hstore. split; [exact Hs'|]. split.
    + intros k' v' [Heq|Hin].
      * inversion Heq; subst k' v'.
        assert (Ho : c12_obs t' (c12_path k) = c12_obs t1 (c12_path k)).
        { apply Hfr'. intros k' v' Hin. rewrite c12_unrel_sym. apply (Hrest k' v' Hin). }
        unfold c12_obs in Ho. inversion Ho as [[H1 H2 H3]]. rewrite H1. exact Hl1.
      * apply (Hl' k' v' Hin).
    + intros q Hq. rewrite Hfr' by (intros k' v' Hin; apply (Hq k' v' (or_intror Hin))).
      replace t1 with (fst (c12_upd t (c12_path k) (fun _ => v))) by (rewrite Hu; reflexivity).
      apply c12_upd_frame. apply (Hq k v (or_introl eq_refl)).
Qed.

(* from the empty tree every key is fresh *)
Lemma c12_keys_free_empty : forall kvs, c12_keys_free kvs c12_empty [].
Proof. intros kvs k v _. split; [apply c12_free_empty; apply c12_path_nonempty|reflexivity]. Qed.

(* ------------------------------------------------------------------ readOptions *)

Lemma c12_options_pairs : forall kvs pt,
  forallb (fun kv : c12_str * c12_str => negb (c12_is_nil (fst kv))) kvs = true ->
  c12_read_options (c12_render_options kvs) pt = c12_set_all kvs pt.
Proof.
  induction kvs as [|[k v] kvs IH]; intros pt H; [reflexivity|].
  cbn [forallb fst] in H. apply andb_true_iff in H as [Hk H]. destruct k as [|c k]; [discriminate|].
  cbn [c12_render_options flat_map fst snd app c12_read_options c12_set_all].
  destruct (c12_set pt (c12_path (c :: k)) v) as [pt' ok]. destruct ok; [|reflexivity].
  apply IH. exact H.
Qed.

(* an option without a value at the end of the command line is reported *)
Lemma c12_options_dangling : forall kvs k pt,
  forallb (fun kv : c12_str * c12_str => negb (c12_is_nil (fst kv))) kvs = true -> k <> [] ->
  c12_read_options (c12_render_options kvs ++ [("-" :: k)%char]) pt =
  (fst (c12_set_all kvs pt), match snd (c12_set_all kvs pt) with C12Ok => C12RangeError | st => st end).
Proof.
  induction kvs as [|[k0 v] kvs IH]; intros k pt H Hk.
  - destruct k as [|c k]; [congruence|]. reflexivity.
  - cbn [forallb fst] in H. apply andb_true_iff in H as [Hk0 H]. destruct k0 as [|c k0]; [discriminate|].
    cbn [c12_render_options flat_map fst snd app c12_read_options c12_set_all].
    destruct (c12_set pt (c12_path (c :: k0)) v) as [pt' ok]. destruct ok; [|reflexivity].
    apply IH; assumption.
Qed.
