(* C12 — with fixes/C12-3.patch a quoted single-line value may contain '#': for ALL such lines. *)
From Coq Require Import List Ascii ZArith NArith Bool Lia.
From DuneV Require Import C12_Model C12_Spec C12_Proofs_Tree C12_Proofs_Lex.
Import ListNotations.
Local Open Scope char_scope.

Lemma c12_rtrim_incl : forall s c, In c (c12_rtrim s) -> In c s.
Proof.
  induction s as [|x s IH]; intros c H; [destruct H|]. cbn in H.
  destruct (c12_is_ws x && c12_is_nil (c12_rtrim s)); [destruct H|].
  destruct H as [->|H]; [left; reflexivity|right; apply IH; exact H].
Qed.

Lemma c12_last_opt_in : forall s c, c12_last_opt s = Some c -> In c s.
Proof.
  induction s as [|x s IH]; intros c H; [discriminate|]. destruct s as [|y s].
  - inversion H; subst. left. reflexivity.
  - right. apply IH. exact H.
Qed.

Lemma c12_nochar_not_in : forall q s, c12_nochar q s = true -> ~ In q s.
Proof.
  induction s as [|x s IH]; intros H Hin; [destruct Hin|]. cbn in H. apply andb_true_iff in H as [H1 H2].
  destruct Hin as [->|Hin]; [rewrite Ascii.eqb_refl in H1; discriminate|exact (IH H2 Hin)].
Qed.

(* inside the quoted text (no quote character read so far) a '#' never ends the value *)
Lemma c12_cut_noquote : forall q X acc rest, c12_nochar q X = true -> c12_nochar q acc = true ->
  c12_cut_qcomment q acc (X ++ rest) = c12_cut_qcomment q (acc ++ X) rest.
Proof.
  induction X as [|x X IH]; intros acc rest HX Hacc.
  - rewrite app_nil_r. reflexivity.
  - cbn in HX. apply andb_true_iff in HX as [Hx HX].
    cbn [app c12_cut_qcomment].
    assert (Hl : match c12_last_opt (c12_rtrim acc) with Some y => Ascii.eqb y q | None => false end = false).
    { destruct (c12_last_opt (c12_rtrim acc)) as [y|] eqn:El; [|reflexivity].
      destruct (Ascii.eqb_spec y q) as [->|]; [|reflexivity]. exfalso.
      apply c12_last_opt_in, c12_rtrim_incl in El. exact (c12_nochar_not_in _ _ Hacc El). }
    rewrite Hl, andb_false_r.
    rewrite (IH (acc ++ [x]) rest HX).
    + rewrite <- app_assoc. reflexivity.
    + rewrite c12_no_app, Hacc. cbn. rewrite Hx. reflexivity.
Qed.

Lemma c12_cut_blank : forall q b acc rest, c12_blankb b = true ->
  c12_cut_qcomment q acc (b ++ rest) = c12_cut_qcomment q (acc ++ b) rest.
Proof.
  induction b as [|x b IH]; intros acc rest Hb.
  - rewrite app_nil_r. reflexivity.
  - cbn in Hb. apply andb_true_iff in Hb as [Hx Hb]. cbn [app c12_cut_qcomment].
    rewrite (c12_ws_not_hash x Hx). cbn [andb]. rewrite (IH _ _ Hb), <- app_assoc. reflexivity.
Qed.

(* the right-hand side  q l0 q b3 [# comment]  is cut exactly behind the closing quote's blanks *)
Lemma c12_cut_quoted : forall q l0 b3 comment,
  c12_is_quote q = true -> c12_nochar q l0 = true -> c12_blankb b3 = true -> c12_comment_ok comment = true ->
  c12_cut_qcomment q [] (l0 ++ q :: b3 ++ comment) = l0 ++ q :: b3.
Proof.
  intros q l0 b3 comment Hq Hl0 Hb Hc.
  rewrite (c12_cut_noquote q l0 [] _ Hl0 eq_refl). cbn [app c12_cut_qcomment].
  rewrite (c12_quote_hash q Hq). cbn [andb].
  rewrite (c12_cut_blank q b3 _ comment Hb). rewrite <- app_assoc. cbn [app].
  destruct comment as [|c cm]; [reflexivity|]. cbn in Hc. cbn [c12_cut_qcomment]. rewrite Hc.
  destruct (c12_closed q l0 b3 Hq Hb) as [Hlast _]. rewrite Hlast, Ascii.eqb_refl. reflexivity.
Qed.

(* C12_hash_in_quoted, for all lines (repaired comment search): the line  b0 key b1 = b2 q l0 q b3 [# comment]
   assigns exactly l0 -- whatever l0 contains ('#' included) as long as it does not contain its own quote *)
Lemma c12_classify_quoted_hash : forall b0 key b1 b2 q l0 b3 comment,
  c12_blankb b0 = true -> c12_blankb b1 = true -> c12_blankb b2 = true -> c12_blankb b3 = true ->
  c12_key_ok key = true -> c12_is_quote q = true -> c12_nochar q l0 = true -> c12_comment_ok comment = true ->
  c12_classify true (b0 ++ key ++ b1 ++ "=" :: b2 ++ (q :: l0 ++ q :: b3) ++ comment) = C12Assign key (q :: l0 ++ q :: b3).
Proof.
  intros b0 key b1 b2 q l0 b3 comment Hb0 Hb1 Hb2 Hb3 Hk Hq Hl0 Hc. unfold c12_key_ok in Hk.
  repeat (apply andb_true_iff in Hk as [Hk ?]).
  rename Hk into Hkne, H2 into Hkt, H1 into Hkeq, H0 into Hkh, H into Hkbr.
  destruct key as [|k0 key']; [discriminate|].
  destruct (c12_tightb_tight _ Hkt) as [Hkl Hkr]. pose proof (c12_ltrim_head _ _ Hkl) as Hk0.
  unfold c12_classify. rewrite (c12_ltrim_blank_app b0 _ Hb0).
  rewrite (c12_ltrim_cons_app k0 key' _ Hk0). cbn [app].
  assert (Hk0h : Ascii.eqb k0 "#" = false).
  { cbn in Hkh. apply andb_true_iff in Hkh as [Hkh _]. apply negb_true_iff in Hkh. exact Hkh. }
  rewrite Hk0h. apply negb_true_iff in Hkbr. rewrite Hkbr.
  set (R := b2 ++ q :: (l0 ++ q :: b3) ++ comment).
  change (k0 :: key' ++ b1 ++ "=" :: R) with ((k0 :: key') ++ b1 ++ "=" :: R).
  set (key := k0 :: key') in *.
  assert (Hnoe : c12_nochar "=" (key ++ b1) = true).
  { rewrite c12_no_app, Hkeq, (c12_blank_no "=" b1 c12_ws_not_eq Hb1). reflexivity. }
  assert (Hnoh : c12_nochar "#" (key ++ b1) = true).
  { rewrite c12_no_app, Hkh, (c12_blank_no "#" b1 c12_ws_not_hash Hb1). reflexivity. }
  replace (key ++ b1 ++ "=" :: R) with ((key ++ b1) ++ "=" :: R) by (now rewrite <- app_assoc).
  rewrite (c12_before_app "#" _ _ Hnoh).
  assert (Hbe : c12_before "#" ("=" :: R) = "=" :: c12_before "#" R) by reflexivity. rewrite Hbe.
  rewrite !(c12_split_at_app "=" _ _ Hnoe).
  subst key. rewrite (c12_trim_name _ b1 Hkt Hb1).
  subst R. rewrite (c12_ltrim_blank_app b2 _ Hb2).
  rewrite (c12_ltrim_quote q _ Hq), Hq. f_equal. f_equal.
  rewrite <- app_assoc. cbn [app]. apply c12_cut_quoted; assumption.
Qed.

Lemma c12_hash_in_quoted_step : forall fuel rest pt prefix seen ow ub b0 key b1 b2 q l0 b3 comment,
  c12_blankb b0 = true -> c12_blankb b1 = true -> c12_blankb b2 = true -> c12_blankb b3 = true ->
  c12_key_ok key = true -> c12_is_quote q = true -> c12_nochar q l0 = true -> c12_comment_ok comment = true ->
  c12_ts (c12_ini_loop true (S fuel) ((b0 ++ key ++ b1 ++ "=" :: b2 ++ (q :: l0 ++ q :: b3) ++ comment) :: rest) pt prefix seen ow ub) =
  match c12_store pt seen ow (prefix ++ key) l0 with
  | inl (pt', seen') => c12_ts (c12_ini_loop true fuel rest pt' prefix seen' ow ub)
  | inr e => e
  end.
Proof.
  intros. eapply c12_loop_assign.
  - apply c12_classify_quoted_hash; assumption.
  - apply c12_value_quoted1; assumption.
Qed.
