(* C12 — typed retrieval: the modelled stream extraction equals the number-text spec. *)
From Coq Require Import List Ascii ZArith NArith Bool Lia.
From DuneV Require Import C12_Model C12_Spec.
Import ListNotations.
Local Open Scope char_scope.

Lemma c12_digit_nonspace : forall c d, c12_digit c = Some d -> c12_is_space c = false.
Proof.
  intros c d. unfold c12_digit, c12_is_space. generalize (N_of_ascii c) as n. intros n H.
  destruct ((48 <=? n)%N && (n <=? 57)%N) eqn:E; [|discriminate].
  apply andb_true_iff in E as [E1 E2]. apply N.leb_le in E1, E2.
  apply orb_false_iff; split.
  - apply andb_false_iff. right. apply N.leb_gt. lia.
  - apply N.eqb_neq. lia.
Qed.

Lemma c12_dropwhile_head : forall f s c r, c12_dropwhile f s = c :: r -> f c = false.
Proof.
  induction s as [|x s IH]; intros c r H; simpl in H; [discriminate|].
  destruct (f x) eqn:E; [eauto|]. inversion H; subst; exact E.
Qed.

Lemma c12_is_nil_dropwhile : forall f s, c12_is_nil (c12_dropwhile f s) = forallb f s.
Proof.
  induction s as [|x s IH]; simpl; [reflexivity|]. destruct (f x); simpl; [exact IH|reflexivity].
Qed.

Definition c12_step (a d : Z) : Z := (10 * a + d)%Z.

(* the part after the sign, both ways *)
Definition c12_model_body (s : c12_str) (acc : Z) (n : nat) : option (Z * nat) :=
  let '(m, k, rest) := c12_digits s acc n in
  if c12_is_nil (c12_skip_space rest) then Some (m, k) else None.

Definition c12_spec_body (s : c12_str) (acc : Z) : option (Z * nat) :=
  match c12_all_some c12_digit (c12_takewhile c12_nonspace s) with
  | Some vals => if forallb c12_is_space (c12_dropwhile c12_nonspace s)
                 then Some (fold_left c12_step vals acc, length vals) else None
  | None => None
  end.

Lemma c12_digits_cons : forall c r acc n,
  c12_digits (c :: r) acc n =
  match c12_digit c with Some d => c12_digits r (10 * acc + d)%Z (S n) | None => (acc, n, c :: r) end.
Proof. reflexivity. Qed.

Lemma c12_body_eq : forall s acc n,
  c12_model_body s acc n =
  match c12_spec_body s acc with Some (m, l) => Some (m, n + l) | None => None end.
Proof.
  induction s as [|c r IH]; intros acc n.
  - unfold c12_model_body, c12_spec_body. cbn. f_equal. f_equal. lia.
  - unfold c12_model_body, c12_spec_body. rewrite c12_digits_cons.
    cbn [c12_takewhile c12_dropwhile].
    destruct (c12_digit c) as [d|] eqn:Ed.
    + pose proof (c12_digit_nonspace _ _ Ed) as Hns.
      unfold c12_nonspace at 1 3. rewrite Hns. cbn [negb c12_all_some]. rewrite Ed.
      specialize (IH (10 * acc + d)%Z (S n)).
      unfold c12_model_body, c12_spec_body in IH. rewrite IH.
      destruct (c12_all_some c12_digit (c12_takewhile c12_nonspace r)) as [vals|]; [|reflexivity].
      destruct (forallb c12_is_space (c12_dropwhile c12_nonspace r)); [|reflexivity].
      cbn [fold_left length]. unfold c12_step at 2. f_equal. f_equal. lia.
    + unfold c12_skip_space. cbn [c12_dropwhile]. unfold c12_nonspace at 1 3.
      destruct (c12_is_space c) eqn:Es; cbn [negb c12_all_some forallb].
      * rewrite c12_is_nil_dropwhile. rewrite Es. cbn [andb].
        destruct (forallb c12_is_space r); [|reflexivity]. cbn. f_equal. f_equal. lia.
      * rewrite Ed. reflexivity.
Qed.

Lemma c12_takewhile_nil_or : forall s, c12_takewhile c12_nonspace s = [] ->
  c12_all_some c12_digit (c12_takewhile c12_nonspace s) = Some [].
Proof. intros s H. rewrite H. reflexivity. Qed.

Lemma c12_all_some_length : forall A B (f : A -> option B) l r,
  c12_all_some f l = Some r -> length r = length l.
Proof.
  induction l as [|x l IH]; intros r H; simpl in H.
  - inversion H; reflexivity.
  - destruct (f x); [|discriminate]. destruct (c12_all_some f l) eqn:E; [|discriminate].
    inversion H; subst. simpl. f_equal. apply IH. reflexivity.
Qed.

(* digits part: model (after the sign was consumed) = spec on the token / trailing blanks *)
Definition c12_scalar_of (r : option Z * c12_str * bool) : option Z :=
  match r with
  | (Some v, rest, _) => if c12_is_nil (c12_skip_space rest) then Some v else None
  | _ => None
  end.

Lemma c12_signed_tail : forall lo hi neg s2,
  c12_scalar_of (c12_extract_tail true lo hi neg s2) =
  (if forallb c12_is_space (c12_dropwhile c12_nonspace s2)
   then c12_spec_int_digits lo hi neg (c12_takewhile c12_nonspace s2) else None).
Proof.
  intros lo hi neg s2. unfold c12_extract_tail.
  pose proof (c12_body_eq s2 0%Z O) as H. unfold c12_model_body, c12_spec_body in H.
  destruct (c12_digits s2 0 O) as [[m n] rest].
  unfold c12_spec_int_digits.
  destruct (c12_all_some c12_digit (c12_takewhile c12_nonspace s2)) as [vals|] eqn:Ev.
  - pose proof (c12_all_some_length _ _ _ _ _ Ev) as Hl.
    destruct (forallb c12_is_space (c12_dropwhile c12_nonspace s2)).
    + destruct (c12_is_nil (c12_skip_space rest)) eqn:En; [|discriminate].
      inversion H; subst.
      destruct (c12_takewhile c12_nonspace s2) as [|t0 tt].
      * destruct vals; [reflexivity|discriminate].
      * destruct vals as [|v0 vv]; [discriminate|]. cbn [length Nat.add].
        change (fun a d : Z => (10 * a + d)%Z) with c12_step.
        destruct ((lo <=? _) && (_ <=? hi))%Z; cbn [c12_scalar_of]; [rewrite En|]; reflexivity.
    + destruct (c12_is_nil (c12_skip_space rest)) eqn:En; [discriminate|].
      destruct n; [reflexivity|].
      destruct ((lo <=? _) && (_ <=? hi))%Z; cbn [c12_scalar_of]; [rewrite En|]; reflexivity.
  - destruct (c12_is_nil (c12_skip_space rest)) eqn:En; [discriminate|].
    assert (Hr : (if forallb c12_is_space (c12_dropwhile c12_nonspace s2)
                  then match c12_takewhile c12_nonspace s2 with [] => None | _ :: _ => @None Z end
                  else None) = None).
    { destruct (forallb _ _); [destruct (c12_takewhile _ _)|]; reflexivity. }
    rewrite Hr.
    destruct n; [reflexivity|].
    destruct ((lo <=? _) && (_ <=? hi))%Z; cbn [c12_scalar_of]; [rewrite En|]; reflexivity.
Qed.

Lemma c12_token_other : forall lo hi c t, c <> "-" -> c <> "+" ->
  c12_spec_int_token lo hi (c :: t) = c12_spec_int_digits lo hi false (c :: t).
Proof.
  intros lo hi c t H1 H2. unfold c12_spec_int_token.
  destruct c as [[] [] [] [] [] [] [] []]; try reflexivity; congruence.
Qed.

Lemma c12_parse_scalar_of : forall ex s, c12_parse_scalar ex s = c12_scalar_of (ex s).
Proof. intros. unfold c12_parse_scalar, c12_scalar_of. destruct (ex s) as [[[v|] rest] e]; reflexivity. Qed.

(* Parser<int>/Parser<long> accept exactly  blank* [+-]? digit+ blank*  in range, with its value *)
Lemma c12_int_exact : forall lo hi s,
  c12_parse_scalar (c12_extract_int true lo hi) s = c12_spec_int lo hi s.
Proof.
  intros lo hi s. rewrite c12_parse_scalar_of. unfold c12_extract_int, c12_spec_int, c12_skip_space.
  destruct (c12_dropwhile c12_is_space s) as [|c r] eqn:Es1.
  - reflexivity.
  - pose proof (c12_dropwhile_head _ _ _ _ Es1) as Hc.
    cbn [c12_dropwhile c12_takewhile]. unfold c12_nonspace at 1 3. rewrite Hc. cbn [negb].
    destruct (Ascii.eqb_spec c "-") as [->|Hm].
    + rewrite c12_signed_tail. reflexivity.
    + destruct (Ascii.eqb_spec c "+") as [->|Hp].
      * rewrite c12_signed_tail. reflexivity.
      * rewrite c12_token_other by assumption.
        rewrite c12_signed_tail.
        cbn [c12_dropwhile c12_takewhile]. unfold c12_nonspace at 1 3. rewrite Hc. reflexivity.
Qed.
